"""C20 — schema validation: libsigopt.aux.validate_schema.validate(value, schema) against the exact Lean
model (Model/C20.lean) on generated (schema, value) pairs.

  oracles on the implementation's own output (-> VIOLATION with the concrete case):
    O0  nothing but a SigoptValidationError subclass may leave validate()           (raw exception)
    O1  silent  <=>  the value conforms (decided by the Lean model, cross-checked with jsonschema itself)
    O2  on error: exact library class, non-empty message, (class, exposed attributes) is in the model's
        admissible set { translate v | v reachable from violations(schema, value) }
    O3  model-independent re-check of the exposed attributes against schema and value
  contract of the third party (-> disagreement, not a violation):
    T1  jsonschema's errors (iter_errors + contexts: validator keyword, relative path) = the model's closure
    T2  the model's regular-expression text is the one the schema carries; the driver's `\\w` class is inside Python's

Cases are JSON: {"schema": wire-schema, "value": wire-value}; see Drivers/C20.lean for the wire format.
"""
import collections
import json
import re
from fractions import Fraction

from common import fr

FLOAT_MAX = 1.7976931348623157e308

IDENT_KEYS = ["a", "b", "c", "name", "x1", "_p", "value", "Zed", "k9", "0"]
UNI_KEYS = ["ключ", "名前", "größe", "λx", "été"]
ODD_KEYS = ["a b", "foo-bar", "it's", "a.b", "", "it's'c", "q\"uote", "тире-ключ", "né!", "tab\tkey", "'x'", "a'b\"c'd'"]
STRINGS = ["", "a", "ab", "abc", "hello world", "123", "123\n", "12a", "x_1", "_id", "9lives", "naïve", "данные", "a.b", "a+b",
           "abcabc", "日本語", "line\nbreak", "ident\n", "UPPER", " spaced "]
LITERALS = ["a", "ab", "x_", "a.b", "a+b", "12", "на", "(", "[z]", "a b"]
BIG_INTS = [2 ** 53 + 1, 2 ** 63, -2 ** 64, 10 ** 30, -10 ** 30, 10 ** 400, -10 ** 400, 2 ** 1024]
TYPES = ["null", "boolean", "integer", "number", "string", "array", "object"]

REQUIRED_BRANCHES = ["additionalProperties", "type", "minProperties", "maxProperties", "required", "minimum", "maximum",
                     "minLength", "maxLength", "minItems", "maxItems", "enum", "pattern", "exclusiveMinimum",
                     "oneOf->context", "anyOf->context", "oneOf-nocontext",
                     "other:const", "other:multipleOf", "other:uniqueItems", "other:not"]

RE_META = set("\\.^$*+?{}[]|()")


# ------------------------------------------------------------------ wire <-> python

def val_py(w):
  if w is None or isinstance(w, (bool, str)):
    return w
  if isinstance(w, int):
    return w
  if isinstance(w, list):
    return [val_py(x) for x in w]
  if "f" in w:
    n, d = w["f"]
    x = Fraction(n, d)
    f = float(x)
    assert Fraction(f) == x, "float payload not exactly representable"
    return f
  return {k: val_py(v) for k, v in w["o"]}


def val_wire(v):
  if v is None or isinstance(v, (bool, str)):
    return v
  if isinstance(v, int):
    return v
  if isinstance(v, float):
    return {"f": fr(v)}
  if isinstance(v, list):
    return [val_wire(x) for x in v]
  return {"o": [[k, val_wire(x)] for k, x in v.items()]}


def num_py(p):
  if isinstance(p, list):
    return val_py({"f": p})
  return p


def num_wire(x):
  return fr(x) if isinstance(x, float) else x


def regex_text(spec):
  def esc(s):
    return "".join("\\" + c if c in RE_META else c for c in s)
  if spec[0] == "startsWith":
    return "^" + esc(spec[1])
  if spec[0] == "contains":
    return esc(spec[1])
  if spec[0] == "digits":
    return "^[0-9]+$"
  if spec[0] == "ident":
    return "^[A-Za-z_][A-Za-z0-9_]*$"
  raise ValueError(spec)


def schema_py(w):
  out = {}
  for k, p in w:
    if k == "properties":
      out[k] = {name: schema_py(s) for name, s in p}
    elif k == "additionalProperties":
      out[k] = p if isinstance(p, bool) else schema_py(p)
    elif k in ("items", "not"):
      out[k] = schema_py(p)
    elif k in ("minimum", "maximum", "exclusiveMinimum", "multipleOf"):
      out[k] = num_py(p)
    elif k == "enum":
      out[k] = [val_py(x) for x in p]
    elif k == "const":
      out[k] = val_py(p)
    elif k == "pattern":
      out[k] = regex_text(p)
    elif k in ("oneOf", "anyOf"):
      out[k] = [schema_py(s) for s in p]
    else:  # type, required, min/max Length/Items/Properties, uniqueItems
      out[k] = p
  return out


def regex_list(w):
  """regular-expression texts in the driver's traversal order"""
  out = []
  for k, p in w:
    if k == "pattern":
      out.append(regex_text(p))
    elif k == "properties":
      for _n, s in p:
        out += regex_list(s)
    elif k in ("items", "not") or (k == "additionalProperties" and not isinstance(p, bool)):
      out += regex_list(p)
    elif k in ("oneOf", "anyOf"):
      for s in p:
        out += regex_list(s)
  return out


def walk_schema(w):
  """all (keyword, payload) pairs of the schema, nested ones included"""
  for k, p in w:
    yield k, p
    if k == "properties":
      for _n, s in p:
        yield from walk_schema(s)
    elif k in ("items", "not") or (k == "additionalProperties" and not isinstance(p, bool)):
      yield from walk_schema(p)
    elif k in ("oneOf", "anyOf"):
      for s in p:
        yield from walk_schema(s)


def walk_value(v):
  yield v
  if isinstance(v, list):
    for x in v:
      yield from walk_value(x)
  elif isinstance(v, dict):
    for x in v.values():
      yield from walk_value(x)


def strict_eq(a, b):
  """type-aware deep equality: True != 1, 1 != 1.0, dicts by key"""
  if type(a) is not type(b):
    return False
  if isinstance(a, list):
    return len(a) == len(b) and all(strict_eq(x, y) for x, y in zip(a, b))
  if isinstance(a, dict):
    return a.keys() == b.keys() and all(strict_eq(a[k], b[k]) for k in a)
  return a == b


def py_has_type(v, t):
  if t == "null":
    return v is None
  if t == "boolean":
    return isinstance(v, bool)
  if t == "integer":
    return (isinstance(v, int) and not isinstance(v, bool)) or (isinstance(v, float) and v.is_integer())
  if t == "number":
    return isinstance(v, (int, float)) and not isinstance(v, bool)
  if t == "string":
    return isinstance(v, str)
  if t == "array":
    return isinstance(v, list)
  return isinstance(v, dict)


# ------------------------------------------------------------------ generators

def pick_key(rng, pool=None):
  r = rng.random()
  if pool is None:
    pool = IDENT_KEYS if r < 0.6 else (UNI_KEYS if r < 0.8 else ODD_KEYS)
  return rng.choice(pool)


def gen_int(rng):
  r = rng.random()
  if r < 0.75:
    return rng.randint(-6, 12)
  if r < 0.9:
    return rng.choice([2 ** 31, -2 ** 31, 10 ** 9, 255, 256, 1000])
  return rng.choice(BIG_INTS)


def gen_float(rng):
  return rng.choice([0.5, -1.25, 1e-7, 3.0, -2.0, 0.0, 2.5, 1e308, -1e308, 2.0 ** 60, 7.75, 0.1, 1e22, 12.0, 4.0])


def gen_scalar(rng):
  r = rng.random()
  if r < 0.3:
    return gen_int(rng)
  if r < 0.45:
    return gen_float(rng)
  if r < 0.75:
    return rng.choice(STRINGS)
  if r < 0.88:
    return rng.random() < 0.5
  return None


def gen_any(rng, depth):
  """the malformed stream: arbitrary JSON, unrelated to any schema"""
  if depth <= 0 or rng.random() < 0.45:
    return gen_scalar(rng)
  if rng.random() < 0.5:
    return [gen_any(rng, depth - 1) for _ in range(rng.randint(0, 3))]
  return {pick_key(rng): gen_any(rng, depth - 1) for _ in range(rng.randint(0, 3))}


def gen_of_type(rng, t, depth=1):
  if t == "null":
    return None
  if t == "boolean":
    return rng.random() < 0.5
  if t == "integer":
    return gen_int(rng) if rng.random() < 0.85 else rng.choice([3.0, -2.0, 12.0])
  if t == "number":
    return gen_int(rng) if rng.random() < 0.5 else gen_float(rng)
  if t == "string":
    return rng.choice(STRINGS)
  if t == "array":
    return [gen_any(rng, depth - 1) for _ in range(rng.randint(0, 3))]
  return {pick_key(rng): gen_any(rng, depth - 1) for _ in range(rng.randint(0, 3))}


def gen_pattern(rng):
  r = rng.random()
  if r < 0.3:
    return ["startsWith", rng.choice(LITERALS)]
  if r < 0.55:
    return ["contains", rng.choice(LITERALS)]
  if r < 0.8:
    return ["digits"]
  return ["ident"]


def s_string(rng):
  kws = []
  if rng.random() < 0.8:
    kws.append(["type", "string"])
  r = rng.random()
  if r < 0.35:
    a = rng.randint(0, 3)
    if rng.random() < 0.7:
      kws.append(["minLength", a])
    if rng.random() < 0.7:
      kws.append(["maxLength", a + rng.randint(0, 4)])
  elif r < 0.7:
    kws.append(["pattern", gen_pattern(rng)])
    if rng.random() < 0.3:
      kws.append(["maxLength", rng.randint(3, 8)])
  elif r < 0.9:
    kws.append(["enum", rng.sample(STRINGS, rng.randint(1, 4))])
  rng.shuffle(kws)
  return kws


def s_number(rng):
  kws = []
  r = rng.random()
  if r < 0.4:
    kws.append(["type", "integer"])
  elif r < 0.7:
    kws.append(["type", "number"])
  elif r < 0.85:
    kws.append(["type", rng.choice([["integer", "null"], ["number", "string"], ["null", "integer", "boolean"]])])
  lo = rng.choice([0, 1, -3, 2, 0.5, -1.5, 10, 2.0, 2 ** 53])
  r = rng.random()
  if r < 0.3:
    kws.append(["minimum", num_wire(lo)])
  elif r < 0.45:
    kws.append(["exclusiveMinimum", num_wire(lo)])
  if rng.random() < 0.35:
    kws.append(["maximum", num_wire(lo + rng.choice([0, 1, 5, 2.5, 100, 1e300]))])
  if rng.random() < 0.15:
    kws.append(["multipleOf", rng.choice([1, 2, 3, 5, 10])])
  if rng.random() < 0.12:
    kws.append(["enum", [val_wire(x) for x in rng.sample([0, 1, 2, 3, 5, 8, 1.5, 2.0, None, True], rng.randint(1, 4))]])
  rng.shuffle(kws)
  return kws


def s_scalar(rng):
  r = rng.random()
  if r < 0.35:
    return s_string(rng)
  if r < 0.7:
    return s_number(rng)
  if r < 0.78:
    return [["type", rng.choice(["boolean", "null"])]]
  if r < 0.84:
    return [["const", val_wire(gen_scalar(rng))]]
  if r < 0.9:
    return [["enum", [val_wire(gen_scalar(rng)) for _ in range(rng.randint(1, 4))]]]
  if r < 0.95:
    return [["not", [["type", rng.choice(TYPES)]]]]
  return []


def s_object(rng, depth):
  kws = []
  if rng.random() < 0.85:
    kws.append(["type", "object"])
  names = []
  for _ in range(rng.randint(0, 4)):
    k = pick_key(rng)
    if k not in names:
      names.append(k)
  if names or rng.random() < 0.3:
    kws.append(["properties", [[n, gen_schema(rng, depth - 1)] for n in names]])
  if rng.random() < 0.6:
    req = [n for n in names if rng.random() < 0.6]
    if rng.random() < 0.15:
      k = pick_key(rng)
      if k not in req:
        req.append(k)
    rng.shuffle(req)
    kws.append(["required", req])
  r = rng.random()
  if r < 0.45:
    kws.append(["additionalProperties", False])
  elif r < 0.55:
    kws.append(["additionalProperties", True])
  elif r < 0.75:
    kws.append(["additionalProperties", gen_schema(rng, min(depth - 1, 1))])
  if rng.random() < 0.15:
    kws.append(["minProperties", rng.randint(0, 2)])
  if rng.random() < 0.15:
    kws.append(["maxProperties", rng.randint(1, 4)])
  rng.shuffle(kws)
  return kws


def is_scalar_schema(s):
  d = dict(s)
  return d.get("type") in ("string", "integer", "number", "boolean", "null")


def s_array(rng, depth):
  kws = []
  if rng.random() < 0.85:
    kws.append(["type", "array"])
  items = None
  if rng.random() < 0.85:
    items = gen_schema(rng, depth - 1)
    kws.append(["items", items])
  a = rng.randint(0, 2)
  if rng.random() < 0.3:
    kws.append(["minItems", a])
  if rng.random() < 0.3:
    kws.append(["maxItems", a + rng.randint(0, 3)])
  if items is not None and is_scalar_schema(items) and rng.random() < 0.3:
    kws.append(["uniqueItems", True])
  rng.shuffle(kws)
  return kws


def s_combo(rng, depth):
  kw = rng.choice(["oneOf", "anyOf"])
  n = rng.randint(2, 3)
  r = rng.random()
  if r < 0.25:  # overlapping branches: "valid under each of" for oneOf
    branches = [[["type", "integer"]], [["type", "number"]], [["minimum", 0]]][:n]
  else:
    branches = [gen_schema(rng, depth - 1) for _ in range(n)]
  kws = [[kw, branches]]
  if rng.random() < 0.15:
    kws.append(["type", rng.choice(TYPES)])
    rng.shuffle(kws)
  return kws


def gen_schema(rng, depth):
  if depth <= 0:
    return s_scalar(rng)
  r = rng.random()
  if r < 0.4:
    return s_object(rng, depth)
  if r < 0.6:
    return s_array(rng, depth)
  if r < 0.75:
    return s_combo(rng, depth)
  return s_scalar(rng)


def gen_string_for(rng, d):
  p = d.get("pattern")
  if p is None:
    s = rng.choice(STRINGS)
  elif p[0] == "startsWith":
    s = p[1] + rng.choice(["", "x", "yz", "\n"])
  elif p[0] == "contains":
    s = rng.choice(["", "q", "__"]) + p[1] + rng.choice(["", "r"])
  elif p[0] == "digits":
    s = rng.choice(["0", "42", "123456", "007", "9\n"])
  else:
    s = rng.choice(["a", "_x", "Abc_9", "id\n", "Z"])
  lo = d.get("minLength", 0)
  hi = d.get("maxLength")
  while len(s) < lo and p is None:
    s += "x"
  if hi is not None and len(s) > hi and p is None:
    s = s[:hi]
  return s


def gen_number_for(rng, d, integer):
  lo = num_py(d["minimum"]) if "minimum" in d else None
  xlo = num_py(d["exclusiveMinimum"]) if "exclusiveMinimum" in d else None
  hi = num_py(d["maximum"]) if "maximum" in d else None
  m = d.get("multipleOf")
  base = lo if lo is not None else (xlo if xlo is not None else (hi if hi is not None else rng.randint(-5, 9)))
  if isinstance(base, float) and (integer or m):
    base = int(base) if abs(base) < 2 ** 62 else 0
  step = rng.choice([0, 0, 1, 2, 5])
  if lo is None and xlo is None and hi is not None:
    x = base - step
  else:
    x = base + step
    if xlo is not None and x <= xlo:
      x = base + 1
    if lo is not None and isinstance(lo, float) and not float(lo).is_integer() and integer:
      x = int(lo) + 1 + step
  if m and isinstance(x, int):
    x = x - (x % m) + (m if (lo is not None or xlo is not None) and x % m else 0)
  if not integer and not m and rng.random() < 0.3 and isinstance(x, int) and abs(x) < 2 ** 50:
    x = float(x) + rng.choice([0.0, 0.5, 0.25])
  if integer and isinstance(x, int) and abs(x) < 2 ** 50 and rng.random() < 0.1:
    x = float(x)  # an integral float is an integer in draft 2020-12
  if rng.random() < 0.04 and lo is not None and hi is None:
    x = rng.choice([10 ** 30, 2 ** 64, 10 ** 400])
    if m:
      x = x * m
  return x


def gen_valid(rng, s, depth=5):
  """best-effort conforming value (the model decides what really conforms)"""
  d = dict(s)
  if "const" in d:
    return val_py(d["const"])
  if "enum" in d and d["enum"]:
    return val_py(rng.choice(d["enum"]))
  for kw in ("oneOf", "anyOf"):
    if kw in d and d[kw]:
      return gen_valid(rng, rng.choice(d[kw]), depth - 1)
  t = d.get("type")
  if isinstance(t, list):
    t = rng.choice(t)
  if t is None:
    if any(k in d for k in ("properties", "required", "additionalProperties", "minProperties", "maxProperties")):
      t = "object"
    elif any(k in d for k in ("items", "minItems", "maxItems", "uniqueItems")):
      t = "array"
    elif any(k in d for k in ("minLength", "maxLength", "pattern")):
      t = "string"
    elif any(k in d for k in ("minimum", "maximum", "exclusiveMinimum", "multipleOf")):
      t = "number"
    elif "not" in d:
      bad = dict(d["not"]).get("type")
      t = rng.choice([x for x in TYPES if x != bad and not (bad == "number" and x == "integer")])
    else:
      return gen_any(rng, 1)
  if t == "object":
    props = d.get("properties", [])
    req = d.get("required", [])
    out = {}
    for name, sub in props:
      if name in req or rng.random() < 0.7:
        out[name] = gen_valid(rng, sub, depth - 1)
    ap = d.get("additionalProperties", True)
    for k in req:
      if k not in out:
        out[k] = gen_scalar(rng) if isinstance(ap, bool) else gen_valid(rng, ap, depth - 1)
    if ap is not False and rng.random() < 0.4:
      for _ in range(rng.randint(1, 2)):
        k = pick_key(rng)
        if k not in out and k not in [n for n, _ in props]:
          out[k] = gen_scalar(rng) if isinstance(ap, bool) else gen_valid(rng, ap, depth - 1)
    while ap is not False and len(out) < d.get("minProperties", 0):
      out["pad%d" % len(out)] = gen_scalar(rng) if isinstance(ap, bool) else gen_valid(rng, ap, depth - 1)
    keys = list(out)
    rng.shuffle(keys)
    return {k: out[k] for k in keys}
  if t == "array":
    lo = d.get("minItems", 0)
    hi = d.get("maxItems", lo + 3)
    n = rng.randint(lo, max(lo, hi))
    items = d.get("items")
    xs = [gen_valid(rng, items, depth - 1) if items is not None else gen_any(rng, 1) for _ in range(n)]
    if d.get("uniqueItems"):
      seen = []
      for x in xs:
        if not any(type(x) is type(y) and x == y for y in seen) and not any(
            isinstance(x, (int, float)) and isinstance(y, (int, float)) and not isinstance(x, bool) and not isinstance(y, bool) and x == y
            for y in seen):
          seen.append(x)
      xs = seen if len(seen) >= lo else xs
    return xs
  if t == "string":
    return gen_string_for(rng, d)
  if t == "integer":
    return gen_number_for(rng, d, True)
  if t == "number":
    return gen_number_for(rng, d, rng.random() < 0.5)
  return gen_of_type(rng, t)


def sites(v, s, setter, depth=0):
  """(value, keyword dict, setter) for every place the schema constrains"""
  d = dict(s)
  yield v, d, setter
  if isinstance(v, dict):
    props = dict(d.get("properties", []))
    for k in list(v):
      def set_k(x, k=k, v=v):
        v[k] = x
      if k in props:
        yield from sites(v[k], props[k], set_k, depth + 1)
      elif isinstance(d.get("additionalProperties"), list):
        yield from sites(v[k], d["additionalProperties"], set_k, depth + 1)
  elif isinstance(v, list) and "items" in d:
    for i in range(len(v)):
      def set_i(x, i=i, v=v):
        v[i] = x
      yield from sites(v[i], d["items"], set_i, depth + 1)
  for kw in ("oneOf", "anyOf"):
    if kw in d and d[kw] and depth < 6:
      # descend into one branch so that violations land inside contexts too
      yield from sites(v, d[kw][0], setter, depth + 1)


def wrong_type_value(rng, t):
  allowed = t if isinstance(t, list) else [t]
  cands = [None, True, False, 3, -1, 2.5, 3.0, "s", "", "1", [], [1], {}, {"a": 1}, 2 ** 70]
  bad = [c for c in cands if not any(py_has_type(c, a) for a in allowed)]
  return rng.choice(bad) if bad else None


def inject(rng, v, d, setter):
  """apply one violation-producing edit at this site; returns its label"""
  opts = []
  if "type" in d:
    opts += ["type"]
  if isinstance(v, dict):
    if d.get("required") and any(k in v for k in d["required"]):
      opts += ["required", "required"]
    if d.get("additionalProperties") is False:
      opts += ["additional", "additional"]
    if isinstance(d.get("additionalProperties"), list):
      opts.append("additionalSchema")
    if "minProperties" in d and v:
      opts.append("minProperties")
    if "maxProperties" in d:
      opts.append("maxProperties")
  if isinstance(v, (int, float)) and not isinstance(v, bool):
    for k in ("minimum", "maximum", "exclusiveMinimum", "multipleOf"):
      if k in d:
        opts += [k, k]
  if isinstance(v, str):
    for k in ("minLength", "maxLength", "pattern"):
      if k in d:
        opts += [k, k]
  if isinstance(v, list):
    for k in ("minItems", "maxItems", "uniqueItems"):
      if k in d:
        opts += [k, k]
  for k in ("enum", "const", "not", "oneOf", "anyOf"):
    if k in d:
      opts.append(k)
  if not opts:
    setter(gen_any(rng, 1))
    return "random"
  o = rng.choice(opts)
  if o == "type":
    setter(wrong_type_value(rng, d["type"]))
  elif o == "required":
    for k in rng.sample([k for k in d["required"] if k in v], 1 if rng.random() < 0.6 else min(2, len([k for k in d["required"] if k in v]))):
      del v[k]
  elif o == "additional":
    declared = [n for n, _ in d.get("properties", [])]
    for _ in range(rng.choice([1, 1, 2, 3])):
      k = pick_key(rng)
      if k not in declared:
        v[k] = gen_scalar(rng)
  elif o == "additionalSchema":
    v[pick_key(rng)] = gen_any(rng, 1)
  elif o == "minProperties":
    for k in list(v)[: max(1, len(v) - d["minProperties"] + 1)]:
      del v[k]
  elif o == "maxProperties":
    while len(v) <= d["maxProperties"]:
      v["extra%d" % len(v)] = gen_scalar(rng)
  elif o == "minimum":
    b = num_py(d["minimum"])
    setter(rng.choice([b - 1, b - 0.5 if abs(b) < 2 ** 50 else b - 2, -10 ** 30, -10 ** 400]))
  elif o == "maximum":
    b = num_py(d["maximum"])
    setter(rng.choice([b + 1 if abs(b) < 1e300 else 10 ** 400, 10 ** 30 if b < 1e29 else 10 ** 400, 10 ** 400, 2.0 ** 1000 if b < 1e300 else 10 ** 400]))
  elif o == "exclusiveMinimum":
    b = num_py(d["exclusiveMinimum"])
    setter(rng.choice([b, b, float(b) if abs(b) < 2 ** 53 else b, b - 1]))
  elif o == "multipleOf":
    setter(v + rng.choice([1, 0.5]) if abs(v) < 2 ** 50 else 10 ** 30 + 1)
  elif o == "minLength":
    setter(v[: max(0, d["minLength"] - 1)])
  elif o == "maxLength":
    setter(v + "x" * (d["maxLength"] - len(v) + rng.randint(1, 2)) if len(v) <= d["maxLength"] else v)
  elif o == "pattern":
    setter(rng.choice(["", "12a", "9z", "-", " id", "b.a", "é1", "\n", "1 2"]))
  elif o == "minItems":
    del v[max(0, d["minItems"] - 1):]
  elif o == "maxItems":
    while len(v) <= d["maxItems"]:
      v.append(gen_valid(rng, d["items"], 2) if "items" in d else gen_scalar(rng))
  elif o == "uniqueItems":
    if v:
      x = rng.choice(v)
      v.append(float(x) if isinstance(x, int) and not isinstance(x, bool) and abs(x) < 2 ** 50 and rng.random() < 0.5 else x)
    else:
      v += [1, 1.0]
  elif o == "not":
    bad = dict(d["not"]).get("type")
    setter(gen_of_type(rng, bad) if isinstance(bad, str) else gen_scalar(rng))
  else:  # enum, const, oneOf, anyOf: some other value
    setter(rng.choice([True, 1, 0, 1.0, "zz", None, [], {}, -7, 2.5, 10 ** 30]))
  return o


def has_float_multiple(w):
  return any(k == "multipleOf" and isinstance(p, list) and p[1] != 1 for k, p in walk_schema(w))


def inexact(w, v):
  """inputs on which jsonschema itself deviates from exact JSON-Schema semantics (float division in
  multipleOf; uniq() sorts before comparing and can miss nested bool/int twins): only O0 applies"""
  if has_float_multiple(w):
    return "float-multipleOf"
  if any(k == "uniqueItems" and p for k, p in walk_schema(w)):
    for x in walk_value(v):
      if isinstance(x, list) and any(isinstance(y, (list, dict)) for y in x):
        return "uniqueItems-nested"
  return None


def gen_case(rng):
  r = rng.random()
  depth = rng.choice([1, 2, 3, 3, 4, 4])
  schema = gen_schema(rng, depth)
  if r < 0.12:
    stream = "malformed"
    value = gen_any(rng, 4)
  else:
    value = gen_valid(rng, schema)
    if r < 0.3:
      stream = "conforming"
    else:
      stream = "injected"
      for _ in range(1 if rng.random() < 0.7 else 2):
        box = [value]

        def set_root(x, box=box):
          box[0] = x
        ss = list(sites(box[0], schema, set_root))
        v, d, setter = rng.choice(ss[-8:] if rng.random() < 0.5 else ss)  # bias towards deep sites
        inject(rng, v, d, setter)
        value = box[0]
  return {"stream": stream, "schema": schema, "value": val_wire(value)}


# ------------------------------------------------------------------ the check

def closure_of(errors):
  out = []
  for e in errors:
    out.append(e)
    out += closure_of(e.context)
  return out


def path_string(path):
  return "".join(f"[{p}]" if isinstance(p, int) and not isinstance(p, bool) else f".{p}" for p in path)


def leaf_of(e):
  while e.validator in ("oneOf", "anyOf") and e.context:
    e = e.context[0]
  return e


def branch_name(best):
  leaf = leaf_of(best)
  out = []
  if best.validator in ("oneOf", "anyOf") and best.context:
    out.append(best.validator + "->context")
  v = leaf.validator
  if v in ("oneOf", "anyOf"):
    out.append(v + "-nocontext")
  elif v in ("const", "multipleOf", "uniqueItems", "not"):
    out.append("other:" + v)
  else:
    out.append(str(v))
  return out


def check_case(ctx, case):
  import jsonschema
  from jsonschema.exceptions import best_match
  from libsigopt.aux import errors as liberr
  from libsigopt.aux.validate_schema import validate

  w = case["schema"]
  schema = schema_py(w)
  value = val_py(case["value"])
  loose = inexact(w, value)
  nkw = sum(1 for _ in walk_schema(w))

  def viol(what, detail, signature=None):
    ctx.violation("C20 " + what, {"case": case, "python_schema": schema, "python_value": repr(value)[:400], "detail": detail},
                  signature=signature)

  # ---- the implementation
  exc = None
  try:
    ret = validate(value, schema)
    if ret is not None:
      viol("validate returned a value instead of None", {"returned": repr(ret)[:200]})
  except Exception as e:  # noqa
    exc = e

  # ---- O0: only library errors may leave validate()
  if exc is not None and not isinstance(exc, liberr.SigoptValidationError):
    huge = any(isinstance(x, int) and not isinstance(x, bool) and abs(x) > FLOAT_MAX for x in walk_value(value))
    if isinstance(exc, jsonschema.exceptions.SchemaError):
      # the generator produced a schema the meta-schema rejects: a harness bug, not a finding
      ctx.disagree(f"generated schema is not a valid draft 2020-12 schema: {str(exc.message)[:120]}", case)
      ctx.case(key=case)
      return
    if type(exc) is OverflowError and has_float_multiple(w) and huge:
      ctx.count("known:F9 OverflowError float multipleOf x huge int")
      viol("raw exception escapes validate(): OverflowError (int beyond float range with a float multipleOf)",
           {"exception": f"{type(exc).__name__}: {exc}"},
           signature="raw-exception-escapes OverflowError-float-multipleOf")
    else:
      viol(f"raw exception escapes validate(): {type(exc).__module__}.{type(exc).__name__}",
           {"exception": f"{type(exc).__name__}: {str(exc)[:300]}"})
    ctx.case(key=case, nontrivial=True)
    return
  if exc is not None:
    msg = str(exc)
    if not isinstance(getattr(exc, "msg", None), str) or not msg:
      viol("library error with an empty message", {"class": type(exc).__name__, "msg": repr(getattr(exc, "msg", None))})
  if loose == "float-multipleOf":
    ctx.count("inexact-third-party:" + loose)
    ctx.case(key=case, nontrivial=False)
    return

  # ---- third party run directly (the parameter of the model)
  V = jsonschema.validators.validator_for(schema)
  top = list(V(schema).iter_errors(value))
  allerr = closure_of(top)
  best = best_match(iter(top)) if top else None

  # ---- the model
  if ctx.driver is None:
    ctx.case(key=case)
    return
  r = ctx.driver.call({"op": "check", "schema": w, "value": case["value"]})
  if "error" in r:
    ctx.disagree("driver error " + r["error"], case)
    ctx.case(key=case)
    return
  conforms = r["conforms"]
  adm = r["adm"]

  # ---- T1/T2: model vs jsonschema (contract of the third party)
  third_ok = True
  if r["regex"] != regex_list(w):
    ctx.disagree(f"regular-expression text differs: model {r['regex']} harness {regex_list(w)}", case)
    third_ok = False
  mine = collections.Counter((a["kw"].replace("-nocontext", ""), a["vpath"]) for a in adm)
  theirs = collections.Counter((str(e.validator), path_string(e.path)) for e in allerr)
  if loose == "uniqueItems-nested":
    # jsonschema's uniq() sorts and compares neighbours only; with nested containers it can miss a duplicate
    # (known finding F11).  Its uniqueItems errors must be among the model's; everything else must agree exactly.
    ctx.count("inexact-third-party:" + loose)
    mu = collections.Counter({k: c for k, c in mine.items() if k[0] == "uniqueItems"})
    tu = collections.Counter({k: c for k, c in theirs.items() if k[0] == "uniqueItems"})
    if exc is None and not conforms and not top and mine == mu:
      ctx.count("known:F11 uniqueItems duplicate missed by jsonschema")
      viol("validate() is silent on a non-conforming value: duplicate array elements under uniqueItems (nested bool/int twin)",
           {"model_errors": sorted(mine.elements())}, signature="silent-on-nonconforming uniqueItems-nested-bool-int-duplicate")
      ctx.case(key=case, nontrivial=True)
      return
    if tu - mu:
      ctx.disagree(f"jsonschema reports uniqueItems errors the model does not: {sorted((tu - mu).elements())[:4]}", case)
      third_ok = False
    if mu - tu:  # a missed duplicate next to other errors: compare on the rest
      mine, theirs = mine - mu, theirs - tu
      adm_rest = [a for a in adm if a["kw"] != "uniqueItems"]
      if not adm_rest or mine != theirs:
        ctx.case(key=case, nontrivial=False)
        return
      adm = adm_rest
      conforms = False
  if mine != theirs or (not top) != conforms:
    third_ok = False
    ctx.disagree(f"model errors differ from jsonschema's: model-only {sorted((mine - theirs).elements())[:4]} "
                 f"jsonschema-only {sorted((theirs - mine).elements())[:4]} conforms={conforms}", case)
  if any(not a["genuine"] for a in adm):
    ctx.disagree("model produced a violation that is not genuine (contradicts theorem violations_genuine)", case)

  # ---- O1: silent <=> conforms
  if (exc is None) != conforms:
    what = ("validate() is silent on a non-conforming value" if exc is None
            else "validate() raises on a conforming value")
    if third_ok:
      viol(what, {"model_conforms": conforms, "model_errors": [(a["kw"], a["vpath"]) for a in adm][:6],
                  "raised": None if exc is None else f"{type(exc).__name__}: {str(exc)[:200]}"})
    ctx.case(key=case, nontrivial=True)
    return
  if exc is None:
    ctx.count("silent-conforming")
    ctx.case(key=case, nontrivial=nkw >= 2, sample=case if nkw >= 4 else None)
    return

  # ---- O2: class and exposed attributes in the admissible set
  cname = type(exc).__name__
  if getattr(liberr, cname, None) is not type(exc) or cname not in (
      "SigoptValidationError", "InvalidKeyError", "InvalidTypeError", "InvalidValueError", "MissingJsonKeyError"):
    viol("error class is not one of the library's validation error classes", {"class": f"{type(exc).__module__}.{cname}"})
    ctx.case(key=case, nontrivial=True)
    return

  def matches(a):
    if a["cls"] != cname:
      return False
    if cname == "InvalidKeyError":
      k = getattr(exc, "invalid_key", "<missing attribute>")
      if a["key"] == "any":
        return k is None or isinstance(k, str)
      return isinstance(a["key"], dict) and a["key"]["k"] == k and (k is None or isinstance(k, str))
    if cname == "MissingJsonKeyError":
      k = getattr(exc, "missing_json_key", "<missing attribute>")
      return isinstance(a["key"], dict) and a["key"]["k"] == k and (k is None or isinstance(k, str))
    if cname == "InvalidTypeError":
      if not hasattr(exc, "value") or not hasattr(exc, "expected_type"):
        return False
      return a["etype"] == exc.expected_type and strict_eq(val_py(a["value"]["v"]), exc.value)
    return True

  hit = [a for a in adm if matches(a)]
  exposed = {k: repr(getattr(exc, k))[:200] for k in ("invalid_key", "missing_json_key", "value", "expected_type") if hasattr(exc, k)}
  if not hit:
    if third_ok:
      viol(f"{cname} with these exposed attributes is not the translation of any error jsonschema reports",
           {"class": cname, "exposed": exposed, "message": str(exc)[:300],
            "admissible": [{k: a[k] for k in ("cls", "key", "value", "etype", "kw", "leaf")} for a in adm][:8]})
    ctx.case(key=case, nontrivial=True)
    return

  # ---- O3: model-independent re-check of the exposed attributes
  if cname == "MissingJsonKeyError":
    k = exc.missing_json_key
    reqs = [p for kw, p in walk_schema(w) if kw == "required"]
    ok = any(k in p and any(isinstance(o, dict) and k not in o and all(q in o for q in p[: p.index(k)]) for o in walk_value(value)) for p in reqs)
    if not ok:
      viol("missing_json_key is not the first absent key of a `required` list on any object of the value", {"exposed": exposed})
  elif cname == "InvalidTypeError":
    tys = [p for kw, p in walk_schema(w) if kw == "type" and str(p) == exc.expected_type]
    ok = any(strict_eq(x, exc.value) for x in walk_value(value)) and any(
        not any(py_has_type(exc.value, t) for t in (p if isinstance(p, list) else [p])) for p in tys)
    if not ok:
      viol("InvalidTypeError does not expose a sub-value that fails a `type` of the schema", {"exposed": exposed})
  elif cname == "InvalidKeyError":
    k = exc.invalid_key
    ident = [a for a in hit if a["key"] != "any"]
    if ident and not any(isinstance(o, dict) and k in o for o in walk_value(value)):
      viol("invalid_key is not a key of any object of the value", {"exposed": exposed})
    ctx.count("invalid_key:" + ("exact" if ident else "unspecified(non-identifier keys)"))

  # ---- histogram: which branch of process_error this input exercised
  if best is not None:
    for b in branch_name(best):
      ctx.count("branch:" + b)
  ctx.count("class:" + cname)
  ctx.count("errors-simultaneous:" + ("1" if len(top) == 1 else ("2" if len(top) == 2 else "3+")))
  ctx.case(key=case, nontrivial=True, sample=case if len(top) >= 2 and nkw >= 4 else None)


# ------------------------------------------------------------------ deterministic corpus: every branch, every run

def O(*kvs):
  return {"o": [list(kv) for kv in kvs]}


def F(x):
  return {"f": fr(float(x))}


OBJ_A = [["type", "object"], ["properties", [["a", []]]], ["additionalProperties", False]]
CORPUS = [
  # additionalProperties: identifier-like, unicode, non-identifier, mixed, several
  {"schema": OBJ_A, "value": O(("a", 1), ("zz", 2))},
  {"schema": OBJ_A, "value": O(("ключ", 1))},
  {"schema": OBJ_A, "value": O(("a b", 1))},
  {"schema": OBJ_A, "value": O(("it's'c", 1), ("zed", 2))},
  {"schema": OBJ_A, "value": O(("q", 1), ("b", 2), ("名前", 3))},
  {"schema": OBJ_A, "value": O(("", 1))},
  # type: bool is not an integer; 2.0 is; list of types
  {"schema": [["type", "integer"]], "value": True},
  {"schema": [["type", "integer"]], "value": F(2.0)},
  {"schema": [["type", "integer"]], "value": F(2.5)},
  {"schema": [["type", "number"]], "value": False},
  {"schema": [["type", ["integer", "null"]]], "value": "s"},
  {"schema": [["type", "number"]], "value": 10 ** 400},
  # property counts
  {"schema": [["minProperties", 2]], "value": O(("a", 1))},
  {"schema": [["maxProperties", 1]], "value": O(("a", 1), ("b", 2))},
  # required: first missing key in schema order
  {"schema": [["required", ["a", "b", "c"]]], "value": O(("b", 1))},
  {"schema": [["required", ["it's", "ключ"]]], "value": O()},
  # bounds, with ints beyond float range against float bounds
  {"schema": [["minimum", 3]], "value": 2},
  {"schema": [["minimum", 3]], "value": F(3.0)},
  {"schema": [["minimum", fr(1.5)]], "value": 10 ** 400},
  {"schema": [["maximum", fr(1.5)]], "value": 10 ** 400},
  {"schema": [["maximum", fr(1e308)]], "value": -10 ** 400},
  {"schema": [["exclusiveMinimum", 0]], "value": 0},
  {"schema": [["exclusiveMinimum", 0]], "value": F(0.0)},
  {"schema": [["exclusiveMinimum", 0]], "value": F(1e-7)},
  # lengths and item counts, nested paths
  {"schema": [["minLength", 2]], "value": "a"},
  {"schema": [["maxLength", 1]], "value": "日本"},
  {"schema": [["minItems", 1]], "value": []},
  {"schema": [["properties", [["k", [["items", [["maxItems", 1]]]]]]]], "value": O(("k", [[], [1, 2]]))},
  # enum / pattern (Python's `$` accepts one trailing newline)
  {"schema": [["enum", [1, "a", None]]], "value": True},
  {"schema": [["enum", [1, "a", None]]], "value": F(1.0)},
  {"schema": [["pattern", ["digits"]]], "value": "12a"},
  {"schema": [["pattern", ["digits"]]], "value": "123\n"},
  {"schema": [["pattern", ["digits"]]], "value": "123\n\n"},
  {"schema": [["pattern", ["ident"]]], "value": "9x"},
  {"schema": [["pattern", ["startsWith", "a.b"]]], "value": "aXb"},
  {"schema": [["pattern", ["contains", "a+b"]]], "value": "xa+by"},
  # oneOf / anyOf: context descent, no context, relative paths inside contexts
  {"schema": [["oneOf", [[["type", "string"]], [["minimum", 5]]]]], "value": 3},
  {"schema": [["oneOf", [[["type", "integer"]], [["type", "number"]]]]], "value": 3},
  {"schema": [["anyOf", [[["type", "string"]], [["type", "null"]]]]], "value": 3},
  {"schema": [["anyOf", [[["type", "string"]], [["type", "object"], ["required", ["z"]]]]]], "value": O(("y", 1))},
  {"schema": [["properties", [["p", [["properties", [["q", [["items", [["anyOf", [[["type", "integer"]], [["type", "object"], ["required", ["z"]]]]]]]]]]]]]]]],
   "value": O(("p", O(("q", [1, "s", O()]))))},
  {"schema": [["oneOf", [[["oneOf", [[["type", "string"]], [["type", "null"]]]]], [["anyOf", [[["maxLength", 1]], [["type", "array"]]]]]]]], "value": 7},
  # keywords outside the table
  {"schema": [["const", 3]], "value": 2},
  {"schema": [["multipleOf", 3]], "value": 7},
  {"schema": [["multipleOf", 3]], "value": 3 * 10 ** 400},
  {"schema": [["uniqueItems", True]], "value": [1, F(1.0)]},
  {"schema": [["uniqueItems", True]], "value": [1, True]},
  {"schema": [["not", [["type", "integer"]]]], "value": 5},
  # known finding F9 (must be reached in every run)
  {"schema": [["multipleOf", fr(0.5)]], "value": 10 ** 400},
  # known finding F11 (must be reached in every run); the same array without the bool twin is rejected correctly
  {"schema": [["uniqueItems", True]], "value": [[1], [True], [1]]},
  {"schema": [["uniqueItems", True]], "value": [[1], [2], [1]]},
  # empty schema, deep nesting
  {"schema": [], "value": O(("anything", [None, True, 10 ** 30]))},
  {"schema": [["type", "object"], ["properties", [["l1", [["type", "object"], ["properties", [["l2", [["type", "array"], ["items", [
      ["type", "object"], ["required", ["id"]], ["properties", [["id", [["type", "integer"], ["minimum", 0]]]]], ["additionalProperties", False]]]]]]]]]]]],
   "value": O(("l1", O(("l2", [O(("id", 0)), O(("id", -1)), O(("id", 2), ("extra", None))]))))},
]


def check_wordchar(ctx):
  """T2: every character the driver treats as `\\w` is matched by Python's `\\w` and printed literally by repr"""
  if ctx.driver is None:
    return
  bad = []
  for lo, hi in ((0, 0x500), (0x3000, 0x3100), (0x4E00, 0xA000)):
    r = ctx.driver.call({"op": "wordchar", "lo": lo, "hi": hi})
    for n in r.get("word", []):
      c = chr(n)
      if not (re.fullmatch(r"\w", c) and c.isprintable() and repr(c) == "'" + c + "'"):
        bad.append(n)
  if bad:
    ctx.disagree(f"driver's word-character class is not inside Python's \\w/printable: {bad[:8]}", {"chars": bad[:50]})
  for spec in (["startsWith", "a.b"], ["contains", "a+b"], ["digits"], ["ident"], ["startsWith", "(["], ["contains", "на"]):
    for s in STRINGS + ["a.bc", "xa+b", "([", "aXb"]:
      r = ctx.driver.call({"op": "match", "pattern": spec, "s": s})
      py = re.search(regex_text(spec), s) is not None
      if r.get("regex") != regex_text(spec) or r.get("match") != py:
        ctx.disagree(f"pattern {spec} on {s!r}: model {r.get('match')} ({r.get('regex')}) python {py} ({regex_text(spec)})",
                     {"pattern": spec, "s": s})


def run(ctx, scale):
  ctx.rule = ("cases: schema-directed generation (objects/arrays/strings/numbers/oneOf/anyOf/enum/const/not to depth 4; identifier, "
              "unicode and non-identifier keys; ints up to 1e400; integral floats): 18% conforming, 70% conforming with 1-2 injected "
              "violations, 12% arbitrary JSON against the schema; plus a fixed corpus hitting every process_error branch; non-trivial = "
              "validate raised, or silent on a schema with at least two keyword instances; distinct by full canonical (schema, value)")
  ctx.partial = [
    "which of several simultaneous errors jsonschema's best_match reports is third-party behaviour: class and exposed attributes are "
    "checked for membership in the model's admissible set, not for equality",
    "invalid_key when an unknown key is not identifier-like (\\w+): the value recovered by the library's regular expression from "
    "jsonschema's message is unspecified in the model; only `None or str` is checked",
    "message text is not compared (the property only asks for a non-empty message; theorem message_nonempty covers every rendering)",
    "regular expressions limited to the modelled family (^literal, literal, ^[0-9]+$, ^[A-Za-z_][A-Za-z0-9_]*$)",
    "float-valued multipleOf and uniqueItems over nested arrays/objects: jsonschema deviates from exact semantics there, only the "
    "no-raw-exception oracle applies (known finding F9 lives in this class)",
  ]
  if scale == 1:
    check_wordchar(ctx)
    for c in CORPUS:
      check_case(ctx, dict(c, stream="corpus"))
  n = (10000 if ctx.tier == "quick" else 150000) * scale
  streams = collections.Counter()
  for _ in range(n):
    case = gen_case(ctx.rng)
    streams[case["stream"]] += 1
    check_case(ctx, case)
    if len(ctx.violations) >= 5:
      break
  for k, v in streams.items():
    ctx.count("stream:" + k, v)
  if scale == 1 and not ctx.violations and not ctx.disagreements and ctx.driver is not None:
    missing = [b for b in REQUIRED_BRANCHES if not ctx.branches.get("branch:" + b)]
    if missing:
      ctx.infra_error = f"generator did not reach process_error branches {missing}"
