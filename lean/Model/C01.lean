/-
  C01 — the "last mile" every next-points endpoint goes through, as a composition of the primitives of
  C09 (decode / snap), C10 (de-duplication and refill) and C08 (restriction):

    GP / GP-search :  optimiser output → lattice-neighbour choice → decodeAll → de-dup (any sub-list)
                      → refill with fresh configurations → (multitask) task snap
    Parzen         :  restricted samples → decodeAll
    random         :  sampler output (already configurations)

  Every random choice is an oracle argument.  De-duplication only ever REMOVES rows, so it is modelled by
  an arbitrary keep-mask; the refill rows are an arbitrary list constrained only by what the samplers
  guarantee (admissibility: C08/C09/C10).
-/
import Model.Domain
import Model.C09
import Model.Arith

namespace C01
open Dom C09

/-- `find_best_one_hot_neighbor_by_af`: the row is replaced by ONE of its candidate neighbours (which one is
    decided by acquisition values – arbitrary here); with no candidates (option "none") it stays. -/
def pickNeighbour (cands : List (List Rat)) (i : Nat) (x : List Rat) : List Rat := cands.getD i x

def chooseNeighbours (cands : List Rat → List (List Rat)) (pick : Nat → Nat) : Nat → List (List Rat) → List (List Rat)
  | _, [] => []
  | k, x :: xs => pickNeighbour (cands x) (pick k) x :: chooseNeighbours cands pick (k + 1) xs

/-- rows kept by a boolean mask (`points[unique_indexes]`) -/
def keepMask {α} : List α → List Bool → List α
  | x :: xs, m :: ms => if m then x :: keepMask xs ms else keepMask xs ms
  | _, _ => []

structure Oracle where
  pick : Nat → Nat
  shuf : Nat → List (List Rat) → List (List Rat)
  nb : Nat → List (List Bool)
  ω : Nat → List Nat
  mask1 : List Bool          -- within-batch de-duplication
  mask2 : List Bool          -- de-duplication against the history
  fresh : List (List Rat)    -- refill rows

/-- GP and GP-search endpoints -/
def finalizeGP (d : Domain) (cands : List Rat → List (List Rat)) (o : Oracle) (xs : List (List Rat)) : List (List Rat) :=
  let chosen := chooseNeighbours cands o.pick 0 xs
  let decoded := decodeAll d o.shuf o.nb o.ω chosen
  keepMask (keepMask decoded o.mask1) o.mask2 ++ o.fresh

/-- Parzen endpoints: restricted samples are decoded, nothing else -/
def finalizeSPE (d : Domain) (o : Oracle) (xs : List (List Rat)) : List (List Rat) :=
  decodeAll d o.shuf o.nb o.ω xs

/-- `snap_continuous_tasks_to_discrete_options` (first nearest option) is C09's `snapTask`. -/
def taskColumn (opts : List Rat) (costs : List Rat) : List Rat := costs.map (snapTask opts)

/-- number of refill rows `replace_duplicate_points` asks for -/
def refillRequested (batch kept : Nat) : Nat := batch - kept

/-- `SPENextPoints.draw_samples`, the bookkeeping after the rejection loop: `accepted` = all proposal points accepted
    so far (each a perturbed-and-restricted point), `pad` = what the uniform sampler returns when asked for the missing
    rows, `pick` = the rows `numpy.random.choice(..., replace=False)` keeps when there are too many. -/
def drawSamples {P} (k : Nat) (accepted : List P) (pad : Nat → List P) (pick : List P → List P) : List P :=
  if accepted.length < k then accepted ++ pad (k - accepted.length)
  else if k < accepted.length then pick accepted
  else accepted

/-- `select_random_task_by_softmax`: probability of each task option, `exp(-cost) / Σ exp(-cost)` -/
def softmaxWeights {α} [Arith α] (costs : List α) : List α :=
  let z := Arith.sum (costs.map fun c => Arith.exp (-c))
  costs.map fun c => Arith.exp (-c) / z

end C01
