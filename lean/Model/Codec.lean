/-
  JSON line protocol shared by all drivers.  The only Model file that imports anything
  (Lean.Data.Json).  Numbers travel as exact rationals `[num, den]` (Python
  `float.as_integer_ratio()`), plain JSON integers, or IEEE bit patterns (`Float.ofBits`).
-/
import Lean.Data.Json
open Lean

namespace Codec

def ratToJson (q : Rat) : Json :=
  Json.arr #[Json.num (JsonNumber.fromInt q.num), Json.num (JsonNumber.fromNat q.den)]

def jsonNumToRat (n : JsonNumber) : Rat :=
  mkRat n.mantissa (10 ^ n.exponent)

def ratOfJson : Json → Except String Rat
  | Json.arr #[Json.num n, Json.num d] =>
      if d.exponent = 0 ∧ n.exponent = 0 ∧ d.mantissa > 0 then
        pure (mkRat n.mantissa d.mantissa.toNat)
      else throw "bad rational"
  | Json.num n => pure (jsonNumToRat n)
  | j => throw s!"expected rational, got {j.compress}"

def intOfJson : Json → Except String Int
  | Json.num n => if n.exponent = 0 then pure n.mantissa else throw "expected integer"
  | j => throw s!"expected integer, got {j.compress}"

def natOfJson (j : Json) : Except String Nat := do
  let i ← intOfJson j
  if i < 0 then throw "expected nat" else pure i.toNat

def boolOfJson : Json → Except String Bool
  | Json.bool b => pure b
  | j => throw s!"expected bool, got {j.compress}"

def strOfJson : Json → Except String String
  | Json.str s => pure s
  | j => throw s!"expected string, got {j.compress}"

def listOfJson {α} (f : Json → Except String α) : Json → Except String (List α)
  | Json.arr a => a.toList.mapM f
  | j => throw s!"expected array, got {j.compress}"

def optOfJson {α} (f : Json → Except String α) : Json → Except String (Option α)
  | Json.null => pure none
  | j => some <$> f j

def field (j : Json) (k : String) : Except String Json :=
  match j.getObjVal? k with
  | .ok v => pure v
  | .error _ => throw s!"missing field {k}"

def fieldD (j : Json) (k : String) (d : Json) : Json :=
  match j.getObjVal? k with
  | .ok v => v
  | .error _ => d

def rats (j : Json) (k : String) : Except String (List Rat) := do listOfJson ratOfJson (← field j k)
def ratMat (j : Json) (k : String) : Except String (List (List Rat)) := do
  listOfJson (listOfJson ratOfJson) (← field j k)
def ints (j : Json) (k : String) : Except String (List Int) := do listOfJson intOfJson (← field j k)
def intMat (j : Json) (k : String) : Except String (List (List Int)) := do
  listOfJson (listOfJson intOfJson) (← field j k)
def nats (j : Json) (k : String) : Except String (List Nat) := do listOfJson natOfJson (← field j k)
def bools (j : Json) (k : String) : Except String (List Bool) := do listOfJson boolOfJson (← field j k)
def rat (j : Json) (k : String) : Except String Rat := do ratOfJson (← field j k)
def int (j : Json) (k : String) : Except String Int := do intOfJson (← field j k)
def nat (j : Json) (k : String) : Except String Nat := do natOfJson (← field j k)
def bool (j : Json) (k : String) : Except String Bool := do boolOfJson (← field j k)
def str (j : Json) (k : String) : Except String String := do strOfJson (← field j k)

def jRats (l : List Rat) : Json := Json.arr (l.map ratToJson).toArray
def jRatMat (l : List (List Rat)) : Json := Json.arr (l.map jRats).toArray
def jInts (l : List Int) : Json := Json.arr (l.map fun i => Json.num (JsonNumber.fromInt i)).toArray
def jNats (l : List Nat) : Json := Json.arr (l.map fun i => Json.num (JsonNumber.fromNat i)).toArray
def jBools (l : List Bool) : Json := Json.arr (l.map Json.bool).toArray
def jNat (n : Nat) : Json := Json.num (JsonNumber.fromNat n)
def jInt (n : Int) : Json := Json.num (JsonNumber.fromInt n)
def jOpt {α} (f : α → Json) : Option α → Json
  | none => Json.null
  | some a => f a

/-- Floats travel as their 64-bit pattern (a JSON integer), loss-free in both directions. -/
def floatOfJson (j : Json) : Except String Float := do
  let n ← natOfJson j
  pure (Float.ofBits n.toUInt64)
def floatToJson (x : Float) : Json := jNat x.toBits.toNat
def floats (j : Json) (k : String) : Except String (List Float) := do listOfJson floatOfJson (← field j k)
def floatMat (j : Json) (k : String) : Except String (List (List Float)) := do
  listOfJson (listOfJson floatOfJson) (← field j k)
def float (j : Json) (k : String) : Except String Float := do floatOfJson (← field j k)
def jFloats (l : List Float) : Json := Json.arr (l.map floatToJson).toArray
def jFloatMat (l : List (List Float)) : Json := Json.arr (l.map jFloats).toArray

/-- One JSON request per line in, one JSON answer per line out.  Errors never kill the loop:
    they come back as `{"error": msg}` so the harness can tell a rejected input from a crash. -/
partial def loop (handler : Json → Except String Json) : IO Unit := do
  let stdin ← IO.getStdin
  let stdout ← IO.getStdout
  let rec go : IO Unit := do
    let line ← stdin.getLine
    if line.isEmpty then return ()
    let out :=
      match Json.parse line with
      | .error e => Json.mkObj [("error", Json.str s!"parse: {e}")]
      | .ok j =>
        match handler j with
        | .ok r => r
        | .error e => Json.mkObj [("error", Json.str e)]
    stdout.putStrLn out.compress
    stdout.flush
    go
  go

end Codec
