/-
  C16 — the Parzen-estimator model (libsigopt/compute/sigopt_parzen_estimator.py:
  SigOptParzenEstimator; libsigopt/views/rest/spe_next_points.py: SPENextPoints.form_one_hot_covariance,
  form_sigopt_parzen_estimator; libsigopt/views/rest/spe_search_next_points.py:
  form_sigopt_parzen_estimator_for_search).

  Part 1 (exact, `Rat`/`Nat`/`List`): `form_model` — forgetting, the two error branches, the sorting
           split; the forced split of the search variant.
  Part 2 (`[Arith α]`, run on `Float`, proved on `ℝ`): kernel-mean densities, the floor on the lower
           density, the improvement ratio, lies, the bandwidth rule with its fallback.

  The model mirrors what the code does, including:
    * `int(forget_factor * n)` / `int(num_points * gamma)`: truncation of a non-negative product = floor;
      the code multiplies doubles, the model multiplies the exact rationals the doubles denote (the two
      can differ only when the exact product is within one rounding of an integer — the harness treats
      that as a boundary and accepts either integer, through `formModelK`);
    * forgetting keeps the FIRST `n - forgotten` rows (`values[: self.num_points]`);
    * lies are appended to the GREATER set unless `lower=True` is passed (`append_lies(..., lower=False)`);
    * the ratio is computed as `1 / (gamma + gpdf / lpdf * (1 - gamma))`;
    * the search variant overwrites the split (and gamma) only when satisfiers > dim.
-/
import Model.Generated.Constants
import Model.Arith

namespace C16

/-! ## Constants (regenerated from the source on every run) -/

abbrev minLower : Nat := Gen.compute_sigopt_parzen_estimator_SPE_MINIMUM_LOWER_POINT_TOTAL_nat
abbrev minUnforgotten : Nat := Gen.compute_sigopt_parzen_estimator_SPE_MINIMUM_UNFORGOTTEN_POINT_TOTAL_nat
abbrev lowerFloorQ : Rat := Gen.compute_sigopt_parzen_estimator_SPE_MINIMUM_LOWER_DENSITY_VALUE
abbrev stdEpsQ : Rat := Gen.views_rest_spe_next_points_STD_EPSILON_HACK
abbrev catLengthScaleQ : Rat := Gen.views_rest_spe_next_points_SPE_CAT_LENGTH_SCALE
abbrev topGamma : Rat := Gen.views_rest_spe_next_points_TOP_GAMMA
abbrev maxForgetFactor : Rat := Gen.views_rest_spe_next_points_MAX_FORGET_FACTOR

/-! ## Part 1 — `form_model` (exact) -/

/-- Python `int(x)` for a non-negative `x`: the floor, as a natural number. -/
def natFloor (q : Rat) : Nat := q.floor.toNat

/-- `num_points_forgotten = int(self.forget_factor * num_points)` -/
def numForgotten (n : Nat) (forget : Rat) : Nat := natFloor (forget * (n : Rat))

/-- `sub_seq_len = max(int(self.num_points * self.gamma), SPE_MINIMUM_LOWER_POINT_TOTAL)` -/
def subSeqLen (m : Nat) (gamma : Rat) : Nat := max (natFloor ((m : Rat) * gamma)) minLower

/-- Insertion into a list sorted by the first component (the value).  Equal values keep the earlier
    element first; `numpy.argsort`'s default is not stable, so nothing may depend on that — the
    theorems are stated for every value-sorted arrangement (`Properties.C16.split_values_unique`). -/
def insertByValue {π : Type} (a : Rat × π) : List (Rat × π) → List (Rat × π)
  | [] => [a]
  | b :: bs => if a.1 < b.1 then a :: b :: bs else b :: insertByValue a bs

/-- `points[numpy.argsort(values), :]` (one admissible argsort) -/
def sortByValue {π : Type} : List (Rat × π) → List (Rat × π)
  | [] => []
  | a :: as => insertByValue a (sortByValue as)

inductive SplitError
  | tooFewUnforgotten   -- `num_points - num_points_forgotten < SPE_MINIMUM_UNFORGOTTEN_POINT_TOTAL`
  | lowerTooLarge       -- `sub_seq_len > self.num_points - 1`
  deriving DecidableEq, Repr

inductive Split (π : Type)
  | error (e : SplitError)
  | ok (lower greater : List (Rat × π))
  deriving Repr

/-- `form_model` with the two truncated products given (`forgotten`, `k`).  The observations are
    (value, point) pairs in the order in which they were passed in. -/
def formModelK {π : Type} (obs : List (Rat × π)) (forgotten k : Nat) : Split π :=
  let n := obs.length
  if n - forgotten < minUnforgotten then .error .tooFewUnforgotten
  else
    let m := n - forgotten
    let data := sortByValue (obs.take m)
    if k > m - 1 then .error .lowerTooLarge
    else .ok (data.take k) (data.drop k)

/-- number of unforgotten points `self.num_points` -/
def numUnforgotten (n : Nat) (forget : Rat) : Nat := n - numForgotten n forget

/-- `SigOptParzenEstimator.form_model` -/
def formModel {π : Type} (obs : List (Rat × π)) (gamma forget : Rat) : Split π :=
  let m := numUnforgotten obs.length forget
  formModelK obs (numForgotten obs.length forget) (subSeqLen m gamma)

/-- The specification of a legal split, independent of how ties are ordered: `lower ++ greater` is a
    rearrangement of the data, `lower` has `k` members and no lower value exceeds a greater value. -/
def IsSplit {π : Type} (data : List (Rat × π)) (k : Nat) (lower greater : List (Rat × π)) : Prop :=
  (lower ++ greater).Perm data ∧ lower.length = k ∧ ∀ a ∈ lower, ∀ b ∈ greater, a.1 ≤ b.1

/-! ### Search variant: the forced split -/

/-- `identify_scaled_values_exceeding_scaled_upper_thresholds` for one row: a row violates when it is
    not strictly below every non-NaN threshold (`none` = NaN threshold = no bound). -/
def violatesRow : List Rat → List (Option Rat) → Bool
  | v :: vs, some t :: ts => (!(decide (v < t))) || violatesRow vs ts
  | _ :: vs, none :: ts => violatesRow vs ts
  | _, _ => false

def violations (rows : List (List Rat)) (thresholds : List (Option Rat)) : List Bool :=
  rows.map (fun r => violatesRow r thresholds)

/-- rows of `pts` whose flag equals `want` (`points[~mask]` / `points[mask]`), order preserved -/
def selectRows {π : Type} : List π → List Bool → Bool → List π
  | p :: ps, b :: bs, want => if b == want then p :: selectRows ps bs want else selectRows ps bs want
  | _, _, _ => []

def countTrue : List Bool → Nat
  | [] => 0
  | b :: bs => (if b then 1 else 0) + countTrue bs

structure SearchSplit (π : Type) where
  lower : List π
  greater : List π
  gamma : Rat
  forced : Bool
  deriving Repr

/-- The HACK of `form_sigopt_parzen_estimator_for_search`:
    `if observation_count - sum(violations) > dim and any(violations):` lower = satisfiers, greater = violators,
    `gamma = sum(violations) / len(violations)`; otherwise the sorting split and gamma are kept. -/
def searchSplit {π : Type} (pts : List π) (viol : List Bool) (dim : Nat)
    (dLower dGreater : List π) (dGamma : Rat) : SearchSplit π :=
  if (pts.length : Int) - (countTrue viol : Int) > (dim : Int) ∧ 0 < countTrue viol then
    { lower := selectRows pts viol false, greater := selectRows pts viol true,
      gamma := (countTrue viol : Rat) / (viol.length : Rat), forced := true }
  else
    { lower := dLower, greater := dGreater, gamma := dGamma, forced := false }

/-! ## Part 2 — densities, ratio, lies, bandwidths (`Arith`) -/

section Numeric
variable {α : Type} [Arith α]

/-- a non-negative rational constant as an `α` (numerator / denominator) -/
def ofRatNonneg (q : Rat) : α := Arith.ofNat q.num.toNat / Arith.ofNat q.den

/-- `SPE_MINIMUM_LOWER_DENSITY_VALUE` -/
def lowerFloor : α := ofRatNonneg lowerFloorQ

/-- `numpy.mean` of a vector -/
def mean (xs : List α) : α := Arith.sum xs / Arith.ofNat xs.length

/-- `_evaluate_base`: `numpy.mean(covariance.build_kernel_matrix(points_sampled, points_to_sample), axis=1)`
    for one point to sample `x`; `k z x` is the covariance between the sampled point `z` and `x`. -/
def density {P : Type} (k : P → P → α) (set : List P) (x : P) : α :=
  mean (set.map (fun z => k z x))

/-- `evaluate_lower_density` -/
def lowerDensity {P : Type} (k : P → P → α) (lower : List P) (x : P) : α :=
  density k lower x + lowerFloor

/-- `evaluate_greater_density` -/
def greaterDensity {P : Type} (k : P → P → α) (greater : List P) (x : P) : α :=
  density k greater x

/-- `1 / (self.gamma + gpdf / lpdf * (1 - self.gamma))` -/
def ratio (gamma l g : α) : α := 1 / (gamma + g / l * (1 - gamma))

/-- `evaluate_expected_improvement` for one point: (lpdf, gpdf, ratio) -/
def expectedImprovement {P : Type} (kl kg : P → P → α) (gamma : α) (lower greater : List P) (x : P) :
    α × α × α :=
  let l := lowerDensity kl lower x
  let g := greaterDensity kg greater x
  (l, g, ratio gamma l g)

/-- `append_lies([x], lower)` on the pair (lower_points, greater_points): default `lower=False`
    appends to the greater set. -/
def appendLie {P : Type} (sets : List P × List P) (x : P) (lower : Bool := false) : List P × List P :=
  if lower then (sets.1 ++ [x], sets.2) else (sets.1, sets.2 ++ [x])

/-! ### Radial kernels (the four radial covariances of covariance.py) -/

inductive Kind | se | c0 | c2 | c4
  deriving DecidableEq, Repr

/-- `eval_radial_kernel` as a function of the squared scaled distance -/
def profile (kind : Kind) (d2 : α) : α :=
  match kind with
  | .se => Arith.exp (-(d2 / Arith.ofNat 2))
  | .c0 => Arith.exp (-(Arith.sqrt d2))
  | .c2 => (1 + Arith.sqrt d2) * Arith.exp (-(Arith.sqrt d2))
  | .c4 => (1 + Arith.sqrt d2 + d2 / Arith.ofNat 3) * Arith.exp (-(Arith.sqrt d2))

/-- squared distance scaled by the length scales: Σ ((xᵢ − zᵢ)/ℓᵢ)² -/
def dist2 : List α → List α → List α → α
  | l :: ls, x :: xs, z :: zs => ((x - z) / l) * ((x - z) / l) + dist2 ls xs zs
  | _, _, _ => 0

/-- `build_kernel_matrix` entry: process variance × radial profile; hyperparameters = alpha :: lengths -/
def radialKernel (kind : Kind) (hyper : List α) (z x : List α) : α :=
  match hyper with
  | [] => 0
  | a :: ls => a * profile kind (dist2 ls x z)

/-! ### Bandwidths: `SPENextPoints.form_one_hot_covariance` -/

/-- `numpy.std(column)` (population standard deviation) -/
def colStd (xs : List α) : α :=
  let mu := mean xs
  Arith.sqrt (mean (xs.map (fun x => (x - mu) * (x - mu))))

/-- `factor * numpy.sqrt((numpy.std(col) + STD_EPSILON_HACK) / 2)` -/
def bandwidth (factor eps : α) (xs : List α) : α :=
  factor * Arith.sqrt ((colStd xs + eps) / Arith.ofNat 2)

/-- the hyperparameter list `[1.0] + [bandwidth**2 if numerical else cat_length_scale ...]`;
    a column is (isNumerical, values of that one-hot coordinate over the set) -/
def rawHypers (factor eps catLen : α) (cols : List (Bool × List α)) : List α :=
  1 :: cols.map (fun c => if c.1 then bandwidth factor eps c.2 * bandwidth factor eps c.2 else catLen)

/-- `check_hyperparameters_are_valid`: no NaN, no infinity, nothing `<= 0`.
    `isFin` is the finiteness test of the carrier (`Float.isFinite`; constantly true on ℝ). -/
def hypersValid (isFin : α → Bool) (hs : List α) : Bool :=
  hs.all (fun h => isFin h && decide (0 < h))

/-- `try: covariance_class(hyperparameters) except HyperparameterInvalidError:
    covariance_class(safe_hyperparameters)` with `safe_hyperparameters = [1.0 for x in hyperparameters]` -/
def oneHotHypers (isFin : α → Bool) (factor eps catLen : α) (cols : List (Bool × List α)) : List α :=
  let hs := rawHypers factor eps catLen cols
  if hypersValid isFin hs then hs else hs.map (fun _ => 1)

def stdEps : α := ofRatNonneg stdEpsQ
def catLengthScale : α := ofRatNonneg catLengthScaleQ

/-- The covariance factors are literals inside the two builders (not module constants):
    `factor=1.0` / `factor=10.0` in `form_sigopt_parzen_estimator`,
    `lower_covariance_factor = 2.0` / `greater_covariance_factor = 5.0`, `gamma = 0.2` in the search variant. -/
def nextPointsLowerFactor : α := 1
def nextPointsGreaterFactor : α := Arith.ofNat 10
def searchLowerFactor : α := Arith.ofNat 2
def searchGreaterFactor : α := Arith.ofNat 5

end Numeric

/-- `gamma = 0.2` of `form_sigopt_parzen_estimator_for_search` (a literal in the function body) -/
def searchDefaultGamma : Rat := 1 / 5

end C16
