/-
  C06 — the expected-improvement endpoint: request → plan.

  Exact, executable model (over `Rat`) of what
    libsigopt/views/view.py            filter_points_sampled, View.__init__, _preprocess_optimization_metrics,
                                       _preprocess_constraint_metrics, form_one_hot_points_with_tasks,
                                       GPView.form_one_hot_covariance_base, form_single_gaussian_process,
                                       form_gaussian_process_for_acquisition_function,
                                       _form_gp_for_probabilistic_failures,
                                       _form_probabilistic_failures_for_pareto_frontier_optimization,
                                       _form_list_of_probabilistic_failures_for_constraint_metrics,
                                       form_probabilistic_failures_model, get_relevant_expected_improvement,
                                       form_acquisition_function, _form_parallel_ei
    libsigopt/views/rest/gp_ei_categorical.py   GpEiCategoricalView.view
    libsigopt/compute/misc/multimetric.py       filter_multimetric_points_sampled (GP variants)
  do with a request *before* any Gaussian-process arithmetic happens: the `Plan` lists, for the acquisition
  GP(s) and every failure-model GP, exactly the data handed to the compute layer (HistoricalData, covariance
  hyperparameters, nugget), the acquisition-function class that is chosen, the failure models with their
  thresholds, the GP-sum weights, the cost division and the batch size.

  Reused models: `Dom.encode` / `Dom.encodeWithTask` / `C09.lsToOneHot` (one-hot layout), `C12.info` / `fwd` /
  `fwdVar` / `lie` (midpoint normalisation), `C13.epsValue` / `labelAndForce` (epsilon threshold, failure
  labelling + minimum-success repair), `C14.keepNot` / `overwrite` (row filters).

  The multimetric phase the view draws (`random.choice`, `numpy.random.random`, Halton weights) is an input
  (`Request.mm`), read back from `view.multimetric_info` as the property says; theorems quantify over it.
-/
import Model.C09
import Model.C12
import Model.C13
import Model.C14

namespace C06
open Dom

/-! ### Request -/

/-- one entry of `model_info.hyperparameters` -/
structure Hyper where
  alpha : Rat
  lengthScales : List (List (Option Rat))
  tikhonov : Option Rat
  taskLength : Option Rat
  deriving Repr

/-- `nonzero_mean_info` -/
inductive MeanType
  | zero
  | constant
  | linear
  | custom (indices : List (List Nat))
  deriving Repr

inductive Parallelism
  | constantLiar
  | qei
  deriving Repr, DecidableEq

/-- `view.multimetric_info` (method + params).  `probabilistic_failures` as a *method* is never produced by
    `form_multimetric_info_from_phase` and is not modelled. -/
inductive MM
  | none
  | oneMetric (opt con : Nat)
  | convex (weights : List Rat)
  | epsilon (opt con : Nat) (eps : Rat)
  deriving Repr

structure Request where
  comps : List Component
  points : List (List Rat)
  /-- n rows × m stored metrics -/
  values : List (List Rat)
  vars : List (List Rat)
  fails : List Bool
  taskCosts : Option (List Rat)
  objectives : List C12.Objective
  optIdx : List Nat
  conIdx : List Nat
  /-- `user_specified_thresholds` (`None` becomes NaN in the view) -/
  thresholds : List (Option Rat)
  hypers : List Hyper
  mean : MeanType
  pending : List (List Rat)
  pendingTasks : Option (List Rat)
  queries : List (List Rat)
  queryTasks : Option (List Rat)
  parallelism : Parallelism
  /-- `task_options.size > 0` -/
  hasTasks : Bool
  /-- `model_info.max_simultaneous_af_points` -/
  maxSimultaneous : Nat
  mm : MM
  /-- oracle (third-party sort): the rows `force_minimum_successful_points` turns back into successes, i.e.
      `failures_index[numpy.argsort(values[failures_index, optimizing_metric])[:diff]]`.  `numpy.argsort` is not
      stable, so among tied values (all failed observations carry the same lie) the choice is not determined by
      the request.  Used only when it is a legal choice (`legalChoice`); theorems hold for every value. -/
  forceChosen : Option (List Nat)
  deriving Repr

/-! ### Plan -/

/-- everything `form_single_gaussian_process` hands to `HistoricalData` / the covariance / `GaussianProcess` -/
structure GPSpec where
  /-- absolute index of the stored metric this GP models -/
  metric : Nat
  points : List (List Rat)
  values : List Rat
  vars : List Rat
  /-- how many trailing rows are lies at the pending points -/
  numLies : Nat
  lie : Rat
  /-- `[alpha] ++ one_hot_length_scales ++ [task_length]` -/
  hyper : List Rat
  tikhonov : Option Rat
  deriving Repr

inductive PFKind
  | logistic   -- ProbabilisticFailures
  | cdf        -- ProbabilisticFailuresCDF
  deriving Repr, DecidableEq

structure PFSpec where
  kind : PFKind
  gp : GPSpec
  threshold : Rat
  deriving Repr

inductive AFKind
  | ei
  | aei
  | eiPf
  | qei
  | qeiPf
  deriving Repr, DecidableEq

structure Plan where
  /-- `dim_with_task` -/
  dim : Nat
  gps : List GPSpec
  /-- `some w`: the predictor is `GaussianProcessSum(gps, w)` -/
  weights : Option (List Rat)
  pfs : List PFSpec
  af : AFKind
  /-- wrap in `MultitaskAcquisitionFunction` (value / task cost) -/
  costDivide : Bool
  /-- covariance is `MultitaskTensorCovariance` (same condition as `costDivide` in today's code) -/
  multitaskKernel : Bool
  polyIndices : List (List Nat)
  queries : List (List Rat)
  /-- `points_being_sampled` of the parallel acquisition functions -/
  pendingEnc : List (List Rat)
  batch : Nat
  /-- `numpy.mean(predictor.points_sampled_noise_variance)` -/
  meanNoise : Rat
  deriving Repr

/-! ### Constants (regenerated from the source) -/

abbrev aeiThreshold : Rat := Gen.views_view_AUGMENTED_EI_THRESHOLD
abbrev lieNoise : Rat := Gen.compute_misc_constant_DEFAULT_CONSTANT_LIAR_LIE_NOISE_VARIANCE
abbrev maxQeiBatch : Nat := Gen.compute_misc_constant_DEFAULT_MAX_SIMULTANEOUS_QEI_POINTS_nat

/-! ### Metric preprocessing (`filter_points_sampled`, `_preprocess_*_metrics`) -/

/-- `values[:, k]` -/
def column (k : Nat) (m : List (List Rat)) : List Rat := m.map fun r => r.getD k 0

def objective (r : Request) (k : Nat) : C12.Objective := r.objectives.getD k .maximize

/-- `SingleMetricMidpointInfo(values[:, k], failures, objectives[k])` -/
def rawInfo (r : Request) (k : Nat) : C12.Info := C12.info (column k r.values) r.fails (objective r k)

/-- `MultiMetricMidpointInfo.force_skip` of a metric group -/
def groupSkip (r : Request) (idx : List Nat) : Bool := idx.any fun k => (rawInfo r k).skip

/-- entry `k` of the group's `MultiMetricMidpointInfo` (skip is contagious inside the group) -/
def metricInfo (r : Request) (idx : List Nat) (k : Nat) : C12.Info :=
  { rawInfo r k with skip := (rawInfo r k).skip || groupSkip r idx }

/-- one column of `points_sampled_for_af_values` / `points_sampled_for_pf_values` after preprocessing -/
structure Metric where
  index : Nat
  info : C12.Info
  /-- `scaled_*_lie_values[j]` -/
  lie : Rat
  /-- scaled values, rows of failed observations overwritten by the lie -/
  values : List Rat
  vars : List Rat
  /-- scaled threshold; `none` = NaN (the user gave none) -/
  threshold : Option Rat
  deriving Repr

def metricOf (r : Request) (idx : List Nat) (k : Nat) : Metric :=
  let col := column k r.values
  let i := metricInfo r idx k
  let lie := C12.fwd i (C12.lie col r.fails (objective r k) .cmin)
  { index := k, info := i, lie := lie,
    values := C14.overwrite lie (col.map (C12.fwd i)) r.fails,
    vars := (column k r.vars).map (C12.fwdVar i),
    threshold := (r.thresholds.getD k none).map (C12.fwd i) }

/-- the preprocessed optimised (`idx = optIdx`) or constraint (`idx = conIdx`) metrics -/
def group (r : Request) (idx : List Nat) : List Metric := idx.map (metricOf r idx)

def defaultMetric : Metric :=
  { index := 0, info := { skip := true, mid := 0, scale := 1, negate := -1 }, lie := 0, values := [], vars := [],
    threshold := none }

/-- the n × k matrix `points_sampled_for_af_values` -/
def rowsOf (g : List Metric) (n : Nat) : List (List Rat) :=
  (List.range n).map fun i => g.map fun mt => mt.values.getD i 0

/-! ### One-hot points (`form_one_hot_points_with_tasks`) -/

def encRows (cs : List Component) (pts : List (List Rat)) : Option (List Rat) → List (List Rat)
  | none => pts.map fun p => encodeWithTask cs p none
  | some ts => (pts.zip ts).map fun (p, t) => encodeWithTask cs p (some t)

def sampledEnc (r : Request) : List (List Rat) := encRows r.comps r.points r.taskCosts
def pendingEnc (r : Request) : List (List Rat) :=
  encRows r.comps r.pending (if r.hasTasks then r.pendingTasks else none)
def queryEnc (r : Request) : List (List Rat) :=
  encRows r.comps r.queries (if r.hasTasks then r.queryTasks else none)

def dimWithTask (r : Request) : Nat := totalWidth r.comps + (if r.hasTasks then 1 else 0)

/-! ### One GP (`form_one_hot_covariance_base`, `form_single_gaussian_process`) -/

def defaultHyper : Hyper := { alpha := 0, lengthScales := [], tikhonov := none, taskLength := none }

def hyperOf (r : Request) (k : Nat) : Hyper := r.hypers.getD k defaultHyper

def hyperVec (cs : List Component) (h : Hyper) : List Rat :=
  [h.alpha] ++ C09.lsToOneHot cs h.lengthScales ++ h.taskLength.toList

/-- the lies `append_lies` adds: at the pending points under constant liar, none under qEI -/
def liePoints (r : Request) : List (List Rat) :=
  match r.parallelism with
  | .constantLiar => pendingEnc r
  | .qei => []

def applyMask {α} (mask : Option (List Bool)) (l : List α) : List α :=
  match mask with
  | none => l
  | some m => C14.keepNot l m

def mkGP (r : Request) (mt : Metric) (mask : Option (List Bool)) : GPSpec :=
  let lies := liePoints r
  { metric := mt.index,
    points := applyMask mask (sampledEnc r) ++ lies,
    values := applyMask mask mt.values ++ List.replicate lies.length mt.lie,
    vars := applyMask mask mt.vars ++ List.replicate lies.length lieNoise,
    numLies := lies.length,
    lie := mt.lie,
    hyper := hyperVec r.comps (hyperOf r mt.index),
    tikhonov := (hyperOf r mt.index).tikhonov }

/-! ### Acquisition GP(s) (`form_gaussian_process_for_acquisition_function` ∘ `filter_multimetric_points_sampled`) -/

/-- What `force_minimum_successful_points` may un-fail, whatever the sort does with ties: distinct failed rows,
    as many as are needed (and exist), each with an optimised value no larger than that of any failure left
    behind.  (`C13.forcedIndices`, the stable-sort instance, is proved to be one such choice.) -/
def legalChoice (vals : List Rat) (fails : List Bool) (chosen : List Nat) : Bool :=
  let numSucc := C13.numSuccessful fails
  let need := if numSucc < C13.minSuccessful then min (C13.minSuccessful - numSucc) (fails.length - numSucc) else 0
  decide chosen.Nodup
  && chosen.all (fun i => decide (i < fails.length) && fails.getD i false)
  && decide (chosen.length = need)
  && chosen.all fun i => (List.range fails.length).all fun j =>
       !(fails.getD j false) || chosen.contains j || decide (vals.getD i 0 ≤ vals.getD j 0)

/-- the mask after the repair (same shape as `C13.forceMinSuccess`) -/
def forceWith (fails : List Bool) (chosen : List Nat) : List Bool :=
  (List.range fails.length).map fun i => fails.getD i false && !chosen.contains i

/-- `points_sampled_for_af_values` as rows -/
def afRows (r : Request) : List (List Rat) := rowsOf (group r r.optIdx) r.values.length

/-- `_create_epsilon_constraint_failures` on the scaled optimised metrics -/
def epsilonLabels (r : Request) (con : Nat) (eps : Rat) : List Bool := C13.epsFailures eps con (afRows r) r.fails

def epsilonChosen (r : Request) (opt con : Nat) (eps : Rat) : List Nat :=
  let labels := epsilonLabels r con eps
  let vals := C13.col opt (afRows r)
  match r.forceChosen with
  | some c => if legalChoice vals labels c then c else C13.forcedIndices vals labels
  | none => C13.forcedIndices vals labels

/-- rows dropped in the epsilon-constraint phase (`filter_probabilistic_failure`) -/
def epsilonMask (r : Request) (opt con : Nat) (eps : Rat) : List Bool :=
  forceWith (epsilonLabels r con eps) (epsilonChosen r opt con eps)

def afGPs (r : Request) : List GPSpec :=
  let g := group r r.optIdx
  match r.mm with
  | .none => [mkGP r (g.getD 0 defaultMetric) none]
  | .oneMetric opt _ => [mkGP r (g.getD opt defaultMetric) none]
  | .convex _ => g.map fun mt => mkGP r mt none
  | .epsilon opt con eps => [mkGP r (g.getD opt defaultMetric) (some (epsilonMask r opt con eps))]

def afWeights (r : Request) : Option (List Rat) :=
  match r.mm with
  | .convex w => some w
  | _ => none

/-! ### Failure models (`form_probabilistic_failures_model`) -/

def thrOf : Option Rat → C13.Thr
  | none => .nan
  | some q => .val q

def isEpsilon : MM → Bool
  | .epsilon _ _ _ => true
  | _ => false

/-- `_form_probabilistic_failures_for_pareto_frontier_optimization` -/
def paretoPFs (r : Request) : List PFSpec :=
  match r.mm with
  | .epsilon _ con eps =>
    let g := group r r.optIdx
    let m0 := g.getD 0 defaultMetric
    let m1 := g.getD 1 defaultMetric
    let cthr := C13.epsValue eps con (afRows r) (thrOf m0.threshold) (thrOf m1.threshold)
    let both := m0.threshold.isSome && m1.threshold.isSome && g.length == 2
    let th0 : Option Rat := if con = 0 then some cthr else if both then m0.threshold else none
    let th1 : Option Rat := if con = 0 then (if both then m1.threshold else none) else some cthr
    (th0.toList.map fun t => { kind := .logistic, gp := mkGP r m0 none, threshold := t }) ++
    (th1.toList.map fun t => { kind := .logistic, gp := mkGP r m1 none, threshold := t })
  | _ => []

/-- `_form_list_of_probabilistic_failures_for_constraint_metrics` -/
def constraintPFs (r : Request) : List PFSpec :=
  (group r r.conIdx).map fun mt => { kind := .cdf, gp := mkGP r mt none, threshold := mt.threshold.getD 0 }

/-- `multimetric_info.method in (PROBABILISTIC_FAILURES, EPSILON_CONSTRAINT) or has_constraint_metrics` -/
def usePF (r : Request) : Bool := isEpsilon r.mm || !r.conIdx.isEmpty

def pfs (r : Request) : List PFSpec := if usePF r then paretoPFs r ++ constraintPFs r else []

/-! ### Acquisition function (`form_acquisition_function`, `get_relevant_expected_improvement`, `view`) -/

def lsum : List Rat → Rat
  | [] => 0
  | x :: xs => x + lsum xs

def avg (l : List Rat) : Rat := lsum l / (l.length : Rat)

/-- `numpy.mean(predictor.points_sampled_noise_variance)`; for a GP sum the noise is `Σ wᵢ² noiseᵢ` -/
def meanNoise (gps : List GPSpec) : Option (List Rat) → Rat
  | none => avg (match gps with | [] => [] | g :: _ => g.vars)
  | some ws => lsum ((ws.zip gps).map fun (w, g) => w ^ 2 * avg g.vars)

/-- `num_being_sampled > 0 and parallelism == PARALLEL_QEI` -/
def useQei (r : Request) : Bool := decide (0 < r.pending.length) && decide (r.parallelism = .qei)

def afKind (r : Request) : AFKind :=
  if useQei r then (if usePF r then .qeiPf else .qei)
  else if usePF r then .eiPf
  else if aeiThreshold < meanNoise (afGPs r) (afWeights r) then .aei
  else .ei

/-- `validate_polynomial_indices` -/
def polyIndices (mean : MeanType) (dim : Nat) : List (List Nat) :=
  match mean with
  | .zero => []
  | .constant => [List.replicate dim 0]
  | .linear => List.replicate dim 0 :: (List.range dim).map fun k => (List.range dim).map fun j => if j = k then 1 else 0
  | .custom idx => idx

def plan (r : Request) : Plan :=
  { dim := dimWithTask r,
    gps := afGPs r,
    weights := afWeights r,
    pfs := pfs r,
    af := afKind r,
    costDivide := r.hasTasks,
    multitaskKernel := r.hasTasks,
    polyIndices := polyIndices r.mean (dimWithTask r),
    queries := queryEnc r,
    pendingEnc := pendingEnc r,
    batch := if useQei r then min r.maxSimultaneous maxQeiBatch else r.maxSimultaneous,
    meanNoise := meanNoise (afGPs r) (afWeights r) }

/-- every GP the plan builds (acquisition GPs first, then the failure-model GPs) -/
def allGPs (r : Request) : List GPSpec := afGPs r ++ (pfs r).map (·.gp)

/-! ### Well-formed requests: what the schema and the view's own assertions demand -/

def mmOK (r : Request) : Bool :=
  match r.mm with
  | .none => decide (r.optIdx.length = 1)
  | .oneMetric o c => decide (r.optIdx.length = 2) && decide (o < 2) && decide (c < 2)
  | .convex w => decide (r.optIdx.length = 2) && decide (w.length = 2)
  | .epsilon o c e => decide (r.optIdx.length = 2) && decide (o < 2) && decide (c < 2) && decide (0 < e) && decide (e < 1)

def tasksOK (has : Bool) (n : Nat) : Option (List Rat) → Bool
  | none => !has
  | some ts => has && decide (ts.length = n)

def Request.wf (r : Request) : Bool :=
  let m := r.objectives.length
  let n := r.points.length
  decide (r.values.length = n) && decide (r.vars.length = n) && decide (r.fails.length = n)
  && r.values.all (fun row => decide (row.length = m)) && r.vars.all (fun row => decide (row.length = m))
  && decide (r.thresholds.length = m) && decide (r.hypers.length = m)
  && r.optIdx.all (fun k => decide (k < m)) && r.conIdx.all (fun k => decide (k < m))
  && r.conIdx.all (fun k => (r.thresholds.getD k none).isSome)
  && r.points.all (fun p => decide (p.length = r.comps.length))
  && r.pending.all (fun p => decide (p.length = r.comps.length))
  && r.queries.all (fun p => decide (p.length = r.comps.length))
  && tasksOK r.hasTasks n r.taskCosts
  && tasksOK r.hasTasks r.pending.length r.pendingTasks
  && tasksOK r.hasTasks r.queries.length r.queryTasks
  && mmOK r

end C06
