/-
  C15 — pending-point bookkeeping as state machines (exact, pure).
  Mirrors: HistoricalData.append_historical_data / append_lies, GaussianProcess.append_lie_data,
  GaussianProcessSum (three lazy caches + append_lie_data), SigOptParzenEstimator.append_lies /
  clear_lies / stash_lies / recover_lies, the constant-liar loop and the search loop.
  Points are an abstract type `P` (the drivers use `List Rat`).
-/
import Model.Generated.Constants

namespace C15

abbrev lieNoise : Rat := Gen.compute_misc_constant_DEFAULT_CONSTANT_LIAR_LIE_NOISE_VARIANCE

/-! ### HistoricalData and a single GP -/

structure Hist (P : Type) where
  pts : List P
  vals : List Rat
  noise : List Rat
  deriving Repr

def Hist.WF {P} (h : Hist P) : Prop := h.pts.length = h.vals.length ∧ h.vals.length = h.noise.length

/-- `append_historical_data`: returns early when there is nothing to append -/
def Hist.append {P} (h : Hist P) (ps : List P) (vs ns : List Rat) : Hist P :=
  if ps.isEmpty then h else { pts := h.pts ++ ps, vals := h.vals ++ vs, noise := h.noise ++ ns }

inductive LieMethod | cmin | cmax | cmean
  deriving DecidableEq, Repr

def lsum : List Rat → Rat
  | [] => 0
  | x :: xs => x + lsum xs

def lmaxD : List Rat → Rat
  | [] => 0
  | x :: xs => xs.foldl max x

def lminD : List Rat → Rat
  | [] => 0
  | x :: xs => xs.foldl min x

/-- `append_lie_data`: constant-liar-min lies with the MAX of the (minimised, scaled) values, i.e. the
    model's worst observed value; -max with the best; -mean with the mean. -/
def lieValue (m : LieMethod) (vals : List Rat) : Rat :=
  match m with
  | .cmin => lmaxD vals
  | .cmax => lminD vals
  | .cmean => lsum vals / (vals.length : Rat)

def gpAppendLies {P} (h : Hist P) (locs : List P) (m : LieMethod) : Hist P :=
  let v := lieValue m h.vals
  h.append locs (List.replicate locs.length v) (List.replicate locs.length lieNoise)

/-- operations on a GP that the property quantifies over: reads do not change the state -/
inductive GpOp (P : Type)
  | append (locs : List P) (m : LieMethod)
  | read

def gpStep {P} (h : Hist P) : GpOp P → Hist P
  | .append locs m => gpAppendLies h locs m
  | .read => h

/-! ### Sum of GPs with memoised accessors -/

structure GPSum (P : Type) where
  gps : List (Hist P)
  weights : List Rat
  cacheVals : Option (List Rat)
  cacheNoise : Option (List Rat)
  cacheBest : Option Nat

def zipAdd : List Rat → List Rat → List Rat
  | x :: xs, y :: ys => (x + y) :: zipAdd xs ys
  | _, _ => []

def numSampled {P} (s : GPSum P) : Nat :=
  match s.gps with
  | [] => 0
  | g :: _ => g.pts.length

/-- `_compute_points_sampled_value_sum`: zeros(num_sampled) + Σ wᵢ · valsᵢ -/
def computeVals {P} (s : GPSum P) : List Rat :=
  (s.gps.zip s.weights).foldl (fun acc gw => zipAdd acc (gw.1.vals.map (gw.2 * ·))) (List.replicate (numSampled s) 0)

def computeNoise {P} (s : GPSum P) : List Rat :=
  (s.gps.zip s.weights).foldl (fun acc gw => zipAdd acc (gw.1.noise.map (gw.2 ^ 2 * ·))) (List.replicate (numSampled s) 0)

/-- first arg-min (numpy.argmin) -/
def argminAux : List Rat → Nat → Nat → Rat → Nat
  | [], _, best, _ => best
  | x :: xs, i, best, bv => if x < bv then argminAux xs (i + 1) i x else argminAux xs (i + 1) best bv

def argmin : List Rat → Nat
  | [] => 0
  | x :: xs => argminAux xs 1 0 x

def readVals {P} (s : GPSum P) : GPSum P × List Rat :=
  match s.cacheVals with
  | some v => (s, v)
  | none => let v := computeVals s; ({ s with cacheVals := some v }, v)

def readNoise {P} (s : GPSum P) : GPSum P × List Rat :=
  match s.cacheNoise with
  | some v => (s, v)
  | none => let v := computeNoise s; ({ s with cacheNoise := some v }, v)

def readBest {P} (s : GPSum P) : GPSum P × Nat :=
  match s.cacheBest with
  | some b => (s, b)
  | none =>
    let (s1, v) := readVals s
    let b := argmin v
    ({ s1 with cacheBest := some b }, b)

/-- `append_lie_data` of the repaired code: forward to every component, then drop the caches -/
def sumAppendLies {P} (s : GPSum P) (locs : List P) (m : LieMethod) : GPSum P :=
  { gps := s.gps.map (gpAppendLies · locs m), weights := s.weights, cacheVals := none, cacheNoise := none,
    cacheBest := none }

inductive SumOp (P : Type)
  | append (locs : List P) (m : LieMethod)
  | readVals | readNoise | readBest

def sumStep {P} (s : GPSum P) : SumOp P → GPSum P
  | .append locs m => sumAppendLies s locs m
  | .readVals => (readVals s).1
  | .readNoise => (readNoise s).1
  | .readBest => (readBest s).1

/-- caches, when filled, hold what a fresh computation would give -/
def GPSum.Coherent {P} (s : GPSum P) : Prop :=
  (∀ v, s.cacheVals = some v → v = computeVals s) ∧
  (∀ v, s.cacheNoise = some v → v = computeNoise s) ∧
  (∀ b, s.cacheBest = some b → b = argmin (computeVals s))

/-! ### Parzen estimator lies -/

structure Parzen (P : Type) where
  baseLower : List P
  baseGreater : List P
  lowerPts : List P
  greaterPts : List P
  lowerLies : List P
  greaterLies : List P

def Parzen.Inv {P} (s : Parzen P) : Prop :=
  s.lowerPts = s.baseLower ++ s.lowerLies ∧ s.greaterPts = s.baseGreater ++ s.greaterLies

def pzAppend {P} (s : Parzen P) (lies : List P) (lower : Bool) : Parzen P :=
  if lies.isEmpty then s
  else if lower then { s with lowerLies := s.lowerLies ++ lies, lowerPts := s.lowerPts ++ lies }
  else { s with greaterLies := s.greaterLies ++ lies, greaterPts := s.greaterPts ++ lies }

/-- `points[: -len(lies)]` -/
def dropLast {P} (xs : List P) (k : Nat) : List P := xs.take (xs.length - k)

def pzClear {P} (s : Parzen P) : Parzen P :=
  { s with
    lowerPts := if s.lowerLies.isEmpty then s.lowerPts else dropLast s.lowerPts s.lowerLies.length,
    greaterPts := if s.greaterLies.isEmpty then s.greaterPts else dropLast s.greaterPts s.greaterLies.length,
    lowerLies := [], greaterLies := [] }

def pzStash {P} (s : Parzen P) : List P × List P := (s.lowerLies, s.greaterLies)

def pzRecover {P} (s : Parzen P) (info : List P × List P) : Parzen P :=
  pzAppend (pzAppend (pzClear s) info.1 true) info.2 false

inductive PzOp (P : Type)
  | append (lies : List P) (lower : Bool)
  | clear
  | stash
  | recover (info : List P × List P)

def pzStep {P} (s : Parzen P) : PzOp P → Parzen P
  | .append l b => pzAppend s l b
  | .clear => pzClear s
  | .stash => s
  | .recover i => pzRecover s i

/-! ### Constant-liar loop and search loop -/

/-- `constant_liar_acquisition_function_optimization`: works on a private copy; `pick` is the (arbitrary)
    optimiser, seeing the current model; every pick is appended as a lie before the next one. Returns the picks
    and the final private state. -/
def constantLiarLoop {P} (pick : Hist P → P) (m : LieMethod) : Nat → Hist P → List P × Hist P
  | 0, h => ([], h)
  | k + 1, h =>
    let p := pick h
    let (ps, h') := constantLiarLoop pick m k (gpAppendLies h [p] m)
    (p :: ps, h')

structure SearchAF (P : Type) where
  repulsors : List P
  radius : Rat

/-- `search_strategy_optimization`: each pick becomes a repulsor and the radius is redrawn (oracle) before
    the next pick; at the end both are restored. Returns picks, the states each pick saw, and the final state. -/
def searchLoopAux {P} (pick : SearchAF P → P) : List Rat → SearchAF P → List P × List (SearchAF P) × SearchAF P
  | [], af => ([], [], af)
  | r :: rs, af =>
    let p := pick af
    let af' : SearchAF P := { repulsors := af.repulsors ++ [p], radius := r }
    let (ps, seen, fin) := searchLoopAux pick rs af'
    (p :: ps, af :: seen, fin)

def searchLoop {P} (pick : SearchAF P → P) (radii : List Rat) (af : SearchAF P) : List P × List (SearchAF P) × SearchAF P :=
  let (ps, seen, _) := searchLoopAux pick radii af
  (ps, seen, af)

end C15
