/-
  Covariance kernels of libsigopt (compute/covariance.py, covariance_base.py,
  multitask_covariance.py, aux/geometry_utils.py) over the polymorphic signature `Arith α`.

  The same definitions run on `Float` (driver `drv_c03`) and are reasoned about on `ℝ`
  (Properties/C03.lean, later C04).  What the code does, as read:

  * hyperparameters are one vector `[alpha, l_1, …, l_d]`; alpha multiplies the profile ONCE,
    outside (`CovarianceBase.covariance`, `build_kernel_matrix`);
  * the length scales divide the coordinates, the squared distance is Σ ((x_k − z_k)/l_k)²
    (NOT (x−z)²/l):   `numpy.sum(numpy.power(diff_vecs / self._length_scales, 2), axis=1)`;
  * three different formulas produce that squared distance:
      `_distance_between_points`             Σ ((x_k − z_k)/l_k)²                     (`r2`)
      `pdist(data / l, "sqeuclidean")`        Σ (x_k/l_k − z_k/l_k)²                  (`r2Scaled`)
      `compute_distance_matrix_squared`       fmax(0, Σ(x/l)² + Σ(z/l)² − 2 Σ (x/l)(z/l)) (`r2Expanded`)
  * profiles, exactly as coded (no √3 / √5 factors anywhere):
      SquareExponential  exp(−0.5·r²)
      C0RadialMatern     exp(−r)
      C2RadialMatern     (1 + r)·exp(−r)
      C4RadialMatern     (1 + r + (1.0/3.0)·r²)·exp(−r)
    the matrix entry points evaluate them from r² (`phi`), the pairwise one from r = sqrt r² (`phiR`);
  * `build_kernel_matrix(points_sampled, points_to_sample)` has one ROW per point to sample and one
    COLUMN per sampled point; the noise is added to `flat[::n+1]`, i.e. the diagonal, only when the
    matrix is square;
  * the multitask kernel splits the last coordinate off (`[:, :-1]`, `[:, -1:]`), evaluates the
    physical kernel with hyperparameters `[1, l_1..l_d]` and the task kernel with `[1, l_task]`,
    multiplies the two profiles and applies alpha once.
-/
import Model.Arith

namespace Kernels
open Arith

inductive Kind where
  | se | c0 | c2 | c4
  deriving DecidableEq, Repr, Inhabited

section arith
variable {α : Type} [Arith α]

/-- `numpy.power(v, 2)` -/
def sq (a : α) : α := a * a

def two : α := Arith.ofNat 2
def three : α := Arith.ofNat 3

/-! ### Squared scaled distances (arguments: length scales, first point, second point) -/

/-- `_distance_between_points`: Σ ((x_k − z_k)/l_k)² -/
def r2 : List α → List α → List α → α
  | l :: ls, a :: as, b :: bs => sq ((a - b) / l) + r2 ls as bs
  | _, _, _ => 0

/-- `pdist(data / l, "sqeuclidean")`: Σ (x_k/l_k − z_k/l_k)² -/
def r2Scaled : List α → List α → List α → α
  | l :: ls, a :: as, b :: bs => sq (a / l - b / l) + r2Scaled ls as bs
  | _, _, _ => 0

/-- Σ (x_k/l_k)² -/
def sumSqScaled : List α → List α → α
  | l :: ls, a :: as => sq (a / l) + sumSqScaled ls as
  | _, _ => 0

/-- Σ (x_k/l_k)(z_k/l_k) -/
def dotScaled : List α → List α → List α → α
  | l :: ls, a :: as, b :: bs => (a / l) * (b / l) + dotScaled ls as bs
  | _, _, _ => 0

/-- `compute_distance_matrix_squared(x / l, z / l)`, clamped at zero by `numpy.fmax(0, ·)` -/
def r2Expanded (ls x z : List α) : α :=
  Arith.max 0 (sumSqScaled ls x + sumSqScaled ls z - two * dotScaled ls x z)

/-! ### Radial profiles -/

/-- `eval_radial_kernel(distance_matrix_squared)`: the profile as a function of r². -/
def phi : Kind → α → α
  | .se, d => Arith.exp (-(d / two))
  | .c0, d => Arith.exp (-(Arith.sqrt d))
  | .c2, d => (1 + Arith.sqrt d) * Arith.exp (-(Arith.sqrt d))
  | .c4, d => (1 + Arith.sqrt d + (1 / three) * d) * Arith.exp (-(Arith.sqrt d))

/-- `_covariance(x, z)`: the profile as a function of r (the pairwise path takes the square root
    first and squares again where it needs r²). -/
def phiR : Kind → α → α
  | .se, r => Arith.exp (-(sq r / two))
  | .c0, r => Arith.exp (-r)
  | .c2, r => (1 + r) * Arith.exp (-r)
  | .c4, r => (1 + r + (1 / three) * sq r) * Arith.exp (-r)

/-! ### Kernel values -/

/-- Reference closed form: alpha · phi(r²). -/
def kernel (k : Kind) (alpha : α) (ls x z : List α) : α := alpha * phi k (r2 ls x z)

/-- `covariance(x, z)` for one pair of rows. -/
def covariance (k : Kind) (alpha : α) (ls x z : List α) : α :=
  alpha * phiR k (Arith.sqrt (r2 ls x z))

/-- same with the hyperparameter vector `[alpha, l_1, …]` -/
def kernelH (k : Kind) (h x z : List α) : α := kernel k (h.headD 0) h.tail x z

/-- `covariance(X, Z)`: v[i] = K(x_i, z_i) -/
def covarianceVec (k : Kind) (alpha : α) (ls : List α) (X Z : List (List α)) : List α :=
  List.zipWith (covariance k alpha ls) X Z

/-- `build_kernel_matrix(X)`: symmetric Gram matrix through `pdist`. -/
def gram (k : Kind) (alpha : α) (ls : List α) (X : List (List α)) : List (List α) :=
  X.map fun xi => X.map fun xj => alpha * phi k (r2Scaled ls xi xj)

/-- `build_kernel_matrix(points_sampled = X, points_to_sample = Z)`:
    rows = points to sample, columns = sampled points, through the expanded square. -/
def crossGram (k : Kind) (alpha : α) (ls : List α) (X Z : List (List α)) : List (List α) :=
  Z.map fun zi => X.map fun xj => alpha * phi k (r2Expanded ls zi xj)

/-- `kernel_matrix.flat[:: n + 1] += noise` (noise given per point; a scalar is the constant list). -/
def addDiag (M : List (List α)) (noise : List α) : List (List α) :=
  M.mapIdx fun i row => row.mapIdx fun j v => if i = j then v + noise.getD i 0 else v

/-- `build_kernel_matrix(X, noise_variance = noise)` -/
def gramNoise (k : Kind) (alpha : α) (ls : List α) (X : List (List α)) (noise : List α) : List (List α) :=
  addDiag (gram k alpha ls X) noise

/-! ### Multitask tensor kernel: physical × task -/

/-- `points[:, :-1]` -/
def physPart (x : List α) : List α := x.dropLast
/-- `points[:, -1:]` -/
def taskPart (x : List α) : List α := x.drop (x.length - 1)

/-- Reference closed form of the multitask kernel: alpha · phi_p(r²_phys) · phi_t(r²_task). -/
def multitask (kp kt : Kind) (alpha : α) (ls : List α) (lt : α) (x z : List α) : α :=
  alpha * (phi kp (r2 ls (physPart x) (physPart z)) * phi kt (r2 [lt] (taskPart x) (taskPart z)))

/-- `MultitaskTensorCovariance.covariance` for one pair of rows. -/
def multitaskCovariance (kp kt : Kind) (alpha : α) (ls : List α) (lt : α) (x z : List α) : α :=
  alpha * (phiR kp (Arith.sqrt (r2 ls (physPart x) (physPart z)))
            * phiR kt (Arith.sqrt (r2 [lt] (taskPart x) (taskPart z))))

def multitaskCovarianceVec (kp kt : Kind) (alpha : α) (ls : List α) (lt : α) (X Z : List (List α)) : List α :=
  List.zipWith (multitaskCovariance kp kt alpha ls lt) X Z

/-- `MultitaskTensorCovariance.build_kernel_matrix(X)` -/
def multitaskGram (kp kt : Kind) (alpha : α) (ls : List α) (lt : α) (X : List (List α)) : List (List α) :=
  X.map fun xi => X.map fun xj =>
    alpha * (phi kp (r2Scaled ls (physPart xi) (physPart xj))
              * phi kt (r2Scaled [lt] (taskPart xi) (taskPart xj)))

/-- `MultitaskTensorCovariance.build_kernel_matrix(X, Z)` -/
def multitaskCrossGram (kp kt : Kind) (alpha : α) (ls : List α) (lt : α) (X Z : List (List α)) :
    List (List α) :=
  Z.map fun zi => X.map fun xj =>
    alpha * (phi kp (r2Expanded ls (physPart zi) (physPart xj))
              * phi kt (r2Expanded [lt] (taskPart zi) (taskPart xj)))

def multitaskGramNoise (kp kt : Kind) (alpha : α) (ls : List α) (lt : α) (X : List (List α))
    (noise : List α) : List (List α) :=
  addDiag (multitaskGram kp kt alpha ls lt X) noise

end arith

/-! ### Hyperparameter validation and storage

`check_hyperparameters_are_valid` works on IEEE doubles; the model classifies a double exactly as
a finite rational, +∞, −∞ or NaN. -/

inductive ExtNum where
  | fin (q : Rat)
  | posInf
  | negInf
  | nan
  deriving DecidableEq, Repr, Inhabited

namespace ExtNum
/-- `numpy.isnan` -/
def isNan : ExtNum → Bool
  | nan => true
  | _ => false
/-- `numpy.isinf` -/
def isInf : ExtNum → Bool
  | posInf => true
  | negInf => true
  | _ => false
/-- `x <= 0` with IEEE semantics (false for NaN, true for −∞, false for +∞) -/
def leZero : ExtNum → Bool
  | fin q => decide (q ≤ 0)
  | negInf => true
  | _ => false
/-- finite and strictly positive -/
def good : ExtNum → Bool
  | fin q => decide (0 < q)
  | _ => false
def one : ExtNum := fin 1
end ExtNum

/-- `check_hyperparameters_are_valid`: reject when any entry is NaN, any is infinite, or any is ≤ 0. -/
def validHyper (h : List ExtNum) : Bool :=
  !(h.any ExtNum.isNan || h.any ExtNum.isInf || h.any ExtNum.leZero)

inductive HyperError where
  | invalid      -- HyperparameterInvalidError
  | assertion    -- AssertionError (shape / class requirements)
  | index        -- IndexError (empty vector passes the validation, then `[0]` fails)
  deriving DecidableEq, Repr

/-- State of a `RadialCovariance` after `set_hyperparameters`. -/
structure Radial where
  hyper : List ExtNum            -- `_hyperparameters`
  processVariance : ExtNum       -- `process_variance = _hyperparameters[0]`
  lengthScales : List ExtNum     -- `_length_scales = _hyperparameters[1:]`
  deriving Repr, DecidableEq

/-- `RadialCovariance.set_hyperparameters` (also the constructor). -/
def Radial.set (h : List ExtNum) : Except HyperError Radial :=
  if !validHyper h then .error .invalid
  else match h with
    | [] => .error .index
    | a :: ls => .ok { hyper := a :: ls, processVariance := a, lengthScales := ls }

/-- `RadialCovariance.get_hyperparameters` -/
def Radial.get (s : Radial) : List ExtNum := s.hyper

/-- `dim` -/
def Radial.dim (s : Radial) : Nat := s.lengthScales.length

/-- State of a `MultitaskTensorCovariance`. -/
structure Multitask where
  processVariance : ExtNum
  physical : Radial
  task : Radial
  deriving Repr, DecidableEq

/-- Only differentiable kernels may be used inside the tensor kernel (`issubclass(…,
    DifferentiableCovariance)`); `C0RadialMatern` is not one. -/
def differentiable : Kind → Bool
  | .c0 => false
  | _ => true

/-- `MultitaskTensorCovariance.__init__` + `set_hyperparameters`, with the rule that the process
    variance is validated like every other hyperparameter (the component kernels are built with
    `1.0` in its place, so they cannot validate it themselves). -/
def Multitask.set (kp kt : Kind) (h : List ExtNum) : Except HyperError Multitask :=
  if !(differentiable kp && differentiable kt) then .error .assertion
  else if h.length < 3 then .error .assertion
  else
    let a := h.headD .nan
    if !ExtNum.good a then .error .invalid
    else
      match Radial.set (ExtNum.one :: h.dropLast.tail) with       -- hyperparameters[:-1] with [0] := 1.0
      | .error e => .error e
      | .ok p =>
        match Radial.set [ExtNum.one, h.getLastD .nan] with      -- [1.0, hyperparameters[-1]]
        | .error e => .error e
        | .ok t => .ok { processVariance := a, physical := p, task := t }

/-- The same constructor WITHOUT the process-variance check: what the code did before the repair
    (`fix: MultitaskTensorCovariance rejects a non-positive, NaN or infinite process variance`). -/
def Multitask.setUnchecked (kp kt : Kind) (h : List ExtNum) : Except HyperError Multitask :=
  if !(differentiable kp && differentiable kt) then .error .assertion
  else if h.length < 3 then .error .assertion
  else
    match Radial.set (ExtNum.one :: h.dropLast.tail) with
    | .error e => .error e
    | .ok p =>
      match Radial.set [ExtNum.one, h.getLastD .nan] with
      | .error e => .error e
      | .ok t => .ok { processVariance := h.headD .nan, physical := p, task := t }

/-- `MultitaskTensorCovariance.get_hyperparameters`:
    `[process_variance] ++ physical.hyperparameters[1:] ++ [task.hyperparameters[-1]]` -/
def Multitask.get (s : Multitask) : List ExtNum :=
  s.processVariance :: (s.physical.get.tail ++ [s.task.get.getLastD .nan])

/-- `dim` of the tensor kernel = len(hyperparameters) − 1 (physical dimensions + the task column). -/
def Multitask.dim (s : Multitask) : Nat := s.get.length - 1

end Kernels
