/-
  C07 — acquisition optimizers: best-seen bookkeeping, DE / Adam control flow, multistart selection.

  Source mirrored (libsigopt/compute):
    vectorized_optimizers.py  VectorizedOptimizer.evaluate_and_monitor / optimize,
                              DEOptimizer._optimize, AdamOptimizer._optimize
    optimization.py           MultistartOptimizer.optimize (selection loop, break rule, fallback)
    domain.py                 ContinuousDomain / FixedIndicesOnContinuousDomain (membership only; the
                              restriction itself is the abstract `restrict`, see C08)

  Exact and abstract: `P` = point type, `V` = value type (a linear order in the theorems; `Rat` in
  the driver).  An acquisition value is `Option V`, `none` = NaN.  Everything random or numerical
  (DE mutation/crossover draws, Adam moment arithmetic, the random shrink factor inside
  `restrict_points_to_domain`, scipy's result) is an ORACLE argument: candidate batches are arbitrary
  lists `List (K × P)`; `K` is the nonce that selects one outcome of the (random) restriction
  `restrict : K → P → P`.  Import-free.
-/

namespace C07

universe u v w
variable {P : Type u} {V : Type v} {K : Type w}

/-! ## 1. `evaluate_and_monitor` -/

section Monitor
variable [LT V] [DecidableLT V]

/-- One scan step: `numpy.nanargmax` skips NaN and keeps the FIRST maximal entry (a later entry wins
    only when strictly greater); the same strict `>` decides whether the batch winner replaces the
    stored best (`best_value_now > self.best_value`). -/
def upd (acc : Option (P × V)) (e : P × Option V) : Option (P × V) :=
  match e.2 with
  | none => acc
  | some w =>
    match acc with
    | none => some (e.1, w)
    | some b => if b.2 < w then some (e.1, w) else some b

/-- `i = numpy.nanargmax(values); (points[i], values[i])`; `none` = numpy raises `ValueError`
    (empty or all-NaN batch). -/
def argmaxFirst (batch : List (P × Option V)) : Option (P × V) := batch.foldl upd none

/-- `evaluate_and_monitor` on an already evaluated batch. Outer `none` = exception (propagates out of
    `optimize`); otherwise the new `(_best_location, _best_value)`. -/
def monitorStep (best : Option (P × V)) (batch : List (P × Option V)) : Option (P × V) :=
  match argmaxFirst batch with
  | none => none
  | some now =>
    match best with
    | none => some now
    | some b => if b.2 < now.2 then some now else some b

/-- The bookkeeping over a whole sequence of batches. -/
def monitorAll : Option (P × V) → List (List (P × Option V)) → Option (Option (P × V))
  | acc, [] => some acc
  | acc, b :: bs =>
    match monitorStep acc b with
    | none => none
    | some n => monitorAll (some n) bs

end Monitor

/-! ## 2. Vectorized optimizers -/

/-- `self.domain.restrict_points_to_domain(batch)` for one outcome of its random draws per row. -/
def restrictAll (restrict : K → P → P) (c : List (K × P)) : List P := c.map fun kp => restrict kp.1 kp.2

/-- the batch as the acquisition function sees it, paired with what it returns -/
def evalB (f : P → Option V) (pts : List P) : List (P × Option V) := pts.map fun p => (p, f p)

/-- What `optimize` returns plus ghost history (for the theorems and the trace checker). -/
structure VecResult (P : Type u) (V : Type v) where
  best : P × V                            -- (best_location, best_value)
  ending : List P                         -- OptimizationResults.ending_points
  values : List (Option V)                -- OptimizationResults.function_values
  batches : List (List (P × Option V))    -- ghost: every batch handed to the AF, in order
  pops : List (List P)                    -- ghost: successive populations / iterates (first = restricted starts)

section Vec
variable [LT V] [DecidableLT V]

/-- `values_from_trials >= self.best_value` (False for NaN). -/
def geBest (tv : Option V) (best : V) : Bool :=
  match tv with
  | none => false
  | some x => !decide (x < best)

/-- `points[trials_which_improved] = trials[trials_which_improved]` -/
def deReplace (best : V) : List P → List P → List (Option V) → List P
  | m :: ms, t :: ts, tv :: tvs => (if geBest tv best then t else m) :: deReplace best ms ts tvs
  | ms, _, _ => ms

/-- `DEOptimizer._optimize` loop body, once per candidate batch (`maxiter` of them). The comparison
    uses `self.best_value` AFTER the trial batch has been monitored, as the code does. -/
def deLoop (restrict : K → P → P) (f : P → Option V) :
    List (List (K × P)) → (P × V) → List P →
      Option ((P × V) × List P × List (List (P × Option V)) × List (List P))
  | [], best, pop => some (best, pop, [], [])
  | c :: cs, best, pop =>
    let trials := restrictAll restrict c
    let batch := evalB f trials
    match monitorStep (some best) batch with
    | none => none
    | some b' =>
      let pop' := deReplace b'.2 pop trials (trials.map f)
      match deLoop restrict f cs b' pop' with
      | none => none
      | some (bf, popf, tr, pops) => some (bf, popf, batch :: tr, pop' :: pops)

/-- `VectorizedOptimizer.optimize` with `DEOptimizer._optimize`: restrict the starts, evaluate them,
    iterate, evaluate the final population once more.  `cands.length = maxiter`. -/
def deOptimize (restrict : K → P → P) (f : P → Option V) (starts : List (K × P))
    (cands : List (List (K × P))) : Option (VecResult P V) :=
  let pts := restrictAll restrict starts
  let b0 := evalB f pts
  match monitorStep none b0 with
  | none => none
  | some best0 =>
    match deLoop restrict f cands best0 pts with
    | none => none
    | some (b, pop, tr, pops) =>
      let fb := evalB f pop
      match monitorStep (some b) fb with
      | none => none
      | some bf =>
        some { best := bf, ending := pop, values := pop.map f, batches := b0 :: (tr ++ [fb]), pops := pts :: pops }

/-- `AdamOptimizer._optimize`: `for i in range(1, maxiter)`: evaluate the current points, then
    replace them by the restricted candidates. `cands.length = maxiter - 1`. -/
def adamLoop (restrict : K → P → P) (f : P → Option V) :
    List (List (K × P)) → Option (P × V) → List P →
      Option (Option (P × V) × List P × List (List (P × Option V)) × List (List P))
  | [], b, pts => some (b, pts, [], [])
  | c :: cs, b, pts =>
    match monitorStep b (evalB f pts) with
    | none => none
    | some b' =>
      match adamLoop restrict f cs (some b') (restrictAll restrict c) with
      | none => none
      | some (bf, ptsf, tr, pops) => some (bf, ptsf, evalB f pts :: tr, restrictAll restrict c :: pops)

def adamOptimize (restrict : K → P → P) (f : P → Option V) (starts : List (K × P))
    (cands : List (List (K × P))) : Option (VecResult P V) :=
  let pts := restrictAll restrict starts
  match adamLoop restrict f cands none pts with
  | none => none
  | some (b, ptsf, tr, pops) =>
    let fb := evalB f ptsf
    match monitorStep b fb with
    | none => none
    | some bf =>
      some { best := bf, ending := ptsf, values := ptsf.map f, batches := tr ++ [fb], pops := pts :: pops }

/-- loop counts of the two `_optimize` methods -/
def deIterations (maxiter : Nat) : Nat := maxiter
def adamIterations (maxiter : Nat) : Nat := maxiter - 1

/-! ### Trace checker for DE (used by the driver on recorded traces): replays the replacement rule
    from the recorded trial batches alone. -/
def deReplay : (P × V) → List P → List (List (P × Option V)) → Option ((P × V) × List P)
  | best, pop, [] => some (best, pop)
  | best, pop, t :: ts =>
    match monitorStep (some best) t with
    | none => none
    | some b' => deReplay b' (deReplace b'.2 pop (t.map Prod.fst) (t.map Prod.snd)) ts

/-- first batch, trial batches, final batch ↦ (best after everything, population before the final
    evaluation) -/
def deTrace (b0 : List (P × Option V)) (trials : List (List (P × Option V))) (fb : List (P × Option V)) :
    Option ((P × V) × List P) :=
  match monitorStep none b0 with
  | none => none
  | some best0 =>
    match deReplay best0 (b0.map Prod.fst) trials with
    | none => none
    | some (b, pop) =>
      match monitorStep (some b) fb with
      | none => none
      | some bf => some (bf, pop)

end Vec

/-! ## 3. `MultistartOptimizer.optimize` -/

/-- A function value as the loop sees it: NaN, −∞ (the initial `best_function_value`; also what the
    scipy decorator yields for an all-NaN iterate), or finite. -/
inductive FVal (V : Type v) where
  | nan
  | ninf
  | fin (v : V)
  deriving Repr, DecidableEq

/-- One inner optimizer run as observed by the loop. -/
structure Run (P : Type u) (V : Type v) where
  start : P            -- the row of `all_starts`
  stop : P             -- `objective_function.current_point` after the run
  value : FVal V       -- `-optimization_results.fun` (`nan` on LinAlgError)
  success : Bool       -- `optimization_results.success` (`false` on LinAlgError)
  acceptable : Bool    -- `domain.check_point_acceptable(end_point)`

/-- `if not acceptable: function_value = nan; success = False` -/
def Run.effValue (r : Run P V) : FVal V := if r.acceptable then r.value else .nan
def Run.effSuccess (r : Run P V) : Bool := r.acceptable && r.success

structure MS (P : Type u) (V : Type v) where
  best : Option P      -- `best_point` (None before the first run)
  bestVal : FVal V     -- `best_function_value` (never NaN)
  count : Nat          -- len(function_value_list)
  succ : Nat           -- sum(successes_list)

def msInit : MS P V := { best := none, bestVal := .ninf, count := 0, succ := 0 }

section MS
variable [LT V] [DecidableLT V]

/-- IEEE `a > b` on {NaN, −∞, finite} -/
def FVal.gt : FVal V → FVal V → Bool
  | .fin a, .fin b => decide (b < a)
  | .fin _, .ninf => true
  | _, _ => false

/-- `function_value if not numpy.isnan(function_value) else best_function_value` -/
def FVal.unlessNaN (old : FVal V) : FVal V → FVal V
  | .nan => old
  | x => x

/-- Loop body up to the termination test. The flag says that the `continue` was taken (first run
    failed: fall back to its START and skip the termination test). -/
def msStep (st : MS P V) (r : Run P V) : MS P V × Bool :=
  let fv := r.effValue
  let ok := r.effSuccess
  let cnt := st.count + 1
  let sc := st.succ + (if ok then 1 else 0)
  if st.best.isNone || (ok && fv.gt st.bestVal) then
    if st.best.isNone && !ok then
      ({ best := some r.start, bestVal := st.bestVal, count := cnt, succ := sc }, true)
    else
      ({ best := some r.stop,
         bestVal := FVal.unlessNaN st.bestVal fv,
         count := cnt, succ := sc }, false)
  else
    ({ best := st.best, bestVal := st.bestVal, count := cnt, succ := sc }, false)

/-- the two `break` conditions; `minSucc = max(MINIMUM_SUCCESSFUL_MULTISTARTS_NUMBER,
    floor(MINIMUM_SUCCESSFUL_MULTISTARTS_FRACTION * num_multistarts))` -/
def msDone (nm nsel minSucc : Nat) (st : MS P V) : Bool :=
  if nm = 0 then st.count == nsel else decide (nm ≤ st.count) && decide (minSucc ≤ st.succ)

/-- The `for point in all_starts` loop over the potential runs (initial starts then backups).
    `none` = the `for … else` branch (RuntimeError). Returns the final state and the runs consumed. -/
def msLoop (nm nsel minSucc : Nat) : List (Run P V) → MS P V → Option (MS P V × List (Run P V))
  | [], _ => none
  | r :: rs, st =>
    let s := msStep st r
    if !s.2 && msDone nm nsel minSucc s.1 then some (s.1, [r])
    else
      match msLoop nm nsel minSucc rs s.1 with
      | none => none
      | some (stf, used) => some (stf, r :: used)

structure MSResult (P : Type u) (V : Type v) where
  point : Option P               -- `best_point`
  runs : List (Run P V)          -- the runs behind the three per-start arrays, in order

def multistartOptimize (nm nsel minSucc : Nat) (runs : List (Run P V)) : Option (MSResult P V) :=
  match msLoop nm nsel minSucc runs msInit with
  | none => none
  | some (st, used) => some { point := st.best, runs := used }

/-- the per-start arrays of `OptimizationResults` -/
def MSResult.startingPoints (r : MSResult P V) : List P := r.runs.map Run.start
def MSResult.endingPoints (r : MSResult P V) : List P := r.runs.map Run.stop
def MSResult.functionValues (r : MSResult P V) : List (FVal V) := r.runs.map Run.effValue

/-! ### Declarative selection law (what the loop is proved to compute) -/

/-- successful, in-domain runs with a finite value: (end point, value) -/
def succVals : List (Run P V) → List (P × Option V)
  | [] => []
  | r :: rs =>
    match r.effSuccess, r.effValue with
    | true, .fin x => (r.stop, some x) :: succVals rs
    | _, _ => succVals rs

/-- End point of the FIRST best successful run; without any: the first run's end if that run
    "succeeded" with a non-finite value, else the first START. -/
def selectSpec (runs : List (Run P V)) : Option P :=
  match argmaxFirst (succVals runs) with
  | some b => some b.1
  | none =>
    match runs with
    | [] => none
    | r :: _ => some (if r.effSuccess then r.stop else r.start)

end MS

/-! ## 3b. The liberal relations the property itself states (ties left open).  The coded
    deterministic choices above are proved to refine them; the trace checker accepts any output that
    satisfies them and only counts a different tie-break. -/

section Liberal
variable [LT V] [DecidableLT V] [DecidableEq P] [DecidableEq V]

/-- `b` was evaluated with exactly that value and no evaluated value is larger -/
def isMaxOf (l : List (P × Option V)) (b : P × V) : Bool :=
  l.any (fun e => decide (e.1 = b.1) && decide (e.2 = some b.2)) &&
  l.all (fun e => match e.2 with | none => true | some x => !decide (b.2 < x))

/-- `p` is the end point of a successful in-domain run of maximal finite value (anything goes when
    there is no such run; domain membership is a separate clause) -/
def isBestSuccessful (runs : List (Run P V)) (p : P) : Bool :=
  (succVals runs).isEmpty ||
  (succVals runs).any (fun e => decide (e.1 = p) &&
    (match e.2 with | none => false | some x => isMaxOf (succVals runs) (p, x)))

end Liberal

/-! ## 4. Concrete domain membership (checker's own definition; points are `List Rat`) -/

/-- `A·x` -/
def dot : List Rat → List Rat → Rat
  | a :: as, x :: xs => a * x + dot as xs
  | _, _ => 0

/-- box with exact comparisons, lengths must agree -/
def inBox : List Rat → List Rat → List Rat → Bool
  | [], [], [] => true
  | l :: ls, h :: hs, x :: xs => decide (l ≤ x) && decide (x ≤ h) && inBox ls hs xs
  | _, _, _ => false

structure Row where
  a : List Rat
  b : Rat
  slack : Rat      -- rounding allowance on this row only (0 on the box)

/-- `A x ≤ b` (+ slack) for every constraint row -/
def rowsOk (rows : List Row) (x : List Rat) : Bool := rows.all fun r => decide (dot r.a x ≤ r.b + r.slack)

/-- fixed coordinates carry exactly the fixed value -/
def fixedOk (fixed : List (Nat × Rat)) (x : List Rat) : Bool :=
  fixed.all fun iv => match x[iv.1]? with | some y => decide (y = iv.2) | none => false

structure Dom where
  lo : List Rat
  hi : List Rat
  rows : List Row
  fixed : List (Nat × Rat)

def inDomain (d : Dom) (x : List Rat) : Bool := inBox d.lo d.hi x && rowsOk d.rows x && fixedOk d.fixed x

/-- index (batch, row) of the first evaluated point outside the domain -/
def firstOutside (d : Dom) (batches : List (List (List Rat × Option Rat))) : Option (Nat × Nat) :=
  let rec goRow (i : Nat) : Nat → List (List Rat × Option Rat) → Option (Nat × Nat)
    | _, [] => none
    | j, e :: es => if inDomain d e.1 then goRow i (j + 1) es else some (i, j)
  let rec go : Nat → List (List (List Rat × Option Rat)) → Option (Nat × Nat)
    | _, [] => none
    | i, b :: bs => match goRow i 0 b with
      | some r => some r
      | none => go (i + 1) bs
  go 0 batches

end C07
