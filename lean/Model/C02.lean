/-
  C02 — exact model of the Gaussian-process posterior of
  libsigopt/compute/gaussian_process.py (`build_precomputed_data`, `fit_nonzero_gp_mean_function`,
  `_compute_mean_of_points`, `_compute_variance_of_points` (both branches),
  `compute_covariance_of_points`, `append_lie_data`) and gaussian_process_sum.py.

  Arithmetic is exact (`Rat`).  Vectors and matrices are core `Vector`s (sized arrays), built eagerly
  with `Vector.ofFn`, so every definition is at the same time executable and – entry by entry –
  literally the textbook expression (see Proofs/C02Bridge.lean: `toM (mul A B) = toM A * toM B`, …).

  What the library obtains from scipy's Cholesky routines enters as *oracle data* (`Pre`):
  an inverse `Ainv`, a factorisation `A = L·diag D·Lᵀ` with `Linv = L⁻¹` (the Cholesky factor is
  `L·D^{1/2}`; square roots are not rational), and an inverse `Ginv` of `PᵀA⁻¹P`.  Nothing is
  assumed about how they were computed: `Pre.certified` checks `A·Ainv = 1`, `L·D·Lᵀ = A`,
  `Linv·L = 1`, `D > 0`, `Aᵀ = A`, `G·Ginv = 1` exactly, and these checks are the hypotheses of the
  theorems in Properties/C02.lean.
-/
import Model.Generated.Constants

namespace C02

abbrev Vec (n : Nat) := Vector Rat n
abbrev Mat (n m : Nat) := Vector (Vector Rat m) n

/-- `Σ_{i<n} f i` by structural recursion (`Fin.sum_univ_succ` shape). -/
def sumFin : {n : Nat} → (Fin n → Rat) → Rat
  | 0, _ => 0
  | _ + 1, f => f 0 + sumFin (fun i => f i.succ)

/-- `∀ i < n, f i` as a Boolean. -/
def allFin : {n : Nat} → (Fin n → Bool) → Bool
  | 0, _ => true
  | _ + 1, f => f 0 && allFin (fun i => f i.succ)

def vget {n : Nat} (v : Vec n) (i : Fin n) : Rat := v[i]
def mrow {n m : Nat} (A : Mat n m) (i : Fin n) : Vec m := A[i]
def mget {n m : Nat} (A : Mat n m) (i : Fin n) (j : Fin m) : Rat := A[i][j]

def Mat.ofFn {n m : Nat} (f : Fin n → Fin m → Rat) : Mat n m := Vector.ofFn fun i => Vector.ofFn (f i)

def dot {n : Nat} (u v : Vec n) : Rat := sumFin fun i : Fin n => vget u i * vget v i
def mulVec {n m : Nat} (A : Mat n m) (v : Vec m) : Vec n := Vector.ofFn fun i => dot (mrow A i) v
def transpose {n m : Nat} (A : Mat n m) : Mat m n := Mat.ofFn fun j i => mget A i j
def mul {n m k : Nat} (A : Mat n m) (B : Mat m k) : Mat n k :=
  Mat.ofFn fun i l => sumFin fun j : Fin m => mget A i j * mget B j l
def vadd {n : Nat} (u v : Vec n) : Vec n := Vector.ofFn fun i => vget u i + vget v i
def vsub {n : Nat} (u v : Vec n) : Vec n := Vector.ofFn fun i => vget u i - vget v i
def msub {n m : Nat} (A B : Mat n m) : Mat n m := Mat.ofFn fun i j => mget A i j - mget B i j
def diagMat {n : Nat} (d : Vec n) : Mat n n := Mat.ofFn fun i j => if i = j then vget d i else 0
def zeroVec (n : Nat) : Vec n := Vector.ofFn fun _ => 0

/-- exact matrix equality as a Boolean -/
def Mat.beq {n m : Nat} (A B : Mat n m) : Bool := allFin fun i => allFin fun j => mget A i j == mget B i j
def isOne {n : Nat} (A : Mat n n) : Bool :=
  allFin fun i => allFin fun j => mget A i j == (if i = j then 1 else 0)
def isSymm {n : Nat} (A : Mat n n) : Bool := allFin fun i => allFin fun j => mget A i j == mget A j i
def allPos {n : Nat} (d : Vec n) : Bool := allFin fun i => decide (0 < vget d i)
def allNonneg {n : Nat} (d : Vec n) : Bool := allFin fun i => decide (0 ≤ vget d i)

/-! ### Precomputation (`build_precomputed_data`, `fit_nonzero_gp_mean_function`) -/

/-- "a Tikhonov nugget replaces the per-point noise":
    `noise_diag_vector = full(n, tikhonov_param) if tikhonov_param is not None else noise`. -/
def noiseDiag {n : Nat} (tikhonov : Option Rat) (noise : Vec n) : Vec n :=
  match tikhonov with
  | some t => Vector.ofFn fun _ => t
  | none => noise

/-- `build_kernel_matrix(points_sampled, noise_variance=d)`: `kernel_matrix.flat[::n+1] += d`. -/
def addDiag {n : Nat} (K : Mat n n) (d : Vec n) : Mat n n :=
  Mat.ofFn fun i j => mget K i j + (if i = j then vget d i else 0)

/-- Oracle data standing for the results of scipy's `cho_factor` / `cho_solve`. -/
structure Pre (n p : Nat) where
  Ainv : Mat n n
  L : Mat n n
  Linv : Mat n n
  D : Vec n
  Ginv : Mat p p

/-- `PT_K_inv_P = Pᵀ · cho_solve(K_chol, P)` -/
def gram {n p : Nat} (P : Mat n p) (Ainv : Mat n n) : Mat p p := mul (transpose P) (mul Ainv P)

/-- All run-time certificates on the oracle data (the hypotheses of the theorems). -/
def Pre.certified {n p : Nat} (A : Mat n n) (P : Mat n p) (zeroMean : Bool) (pre : Pre n p) : Bool :=
  isSymm A && isOne (mul A pre.Ainv) &&
  (mul (mul pre.L (diagMat pre.D)) (transpose pre.L)).beq A && isOne (mul pre.Linv pre.L) && allPos pre.D &&
  (zeroMean || isOne (mul (gram P pre.Ainv) pre.Ginv))

/-- `K_inv_y = cho_solve(K_chol, y)` -/
def kInvY {n : Nat} (Ainv : Mat n n) (y : Vec n) : Vec n := mulVec Ainv y

/-- `poly_coef`: `[0.0]`-like zero vector for a zero mean, otherwise
    `cho_solve(PKP_chol, Pᵀ K_inv_y)`. -/
def polyCoef {n p : Nat} (zeroMean : Bool) (Ginv : Mat p p) (P : Mat n p) (Ainv : Mat n n) (y : Vec n) : Vec p :=
  if zeroMean then zeroVec p else mulVec Ginv (mulVec (transpose P) (kInvY Ainv y))

/-- `K_inv_demeaned_y`: `K_inv_y` for a zero mean, otherwise
    `K_inv_y - cho_solve(K_chol, P·poly_coef)`. -/
def weights {n p : Nat} (zeroMean : Bool) (Ainv : Mat n n) (y : Vec n) (P : Mat n p) (β : Vec p) : Vec n :=
  if zeroMean then kInvY Ainv y else vsub (kInvY Ainv y) (mulVec Ainv (mulVec P β))

/-- `demeaned_y = y - P·poly_coef` (the GLS residual) -/
def residual {n p : Nat} (y : Vec n) (P : Mat n p) (β : Vec p) : Vec n := vsub y (mulVec P β)

/-! ### Prediction -/

/-- `_compute_mean_of_points`: `K_eval·K_inv_demeaned_y + P_eval·poly_coef` -/
def mean {n p q : Nat} (Ks : Mat q n) (Ps : Mat q p) (w : Vec n) (β : Vec p) : Vec q :=
  vadd (mulVec Ks w) (mulVec Ps β)

/-- `cardinal_functions_at_points_to_sample = cho_solve(K_chol, K_evalᵀ)ᵀ` -/
def cardinal {n q : Nat} (Ks : Mat q n) (Ainv : Mat n n) : Mat q n := transpose (mul Ainv (transpose Ks))

/-- `_compute_variance_of_points`, branch with cardinal functions, before the floor:
    `K_x_x − Σ_j K_eval[i,j]·cardinal[i,j]` -/
def varCardinalRaw {n q : Nat} (kxx : Vec q) (Ks : Mat q n) (Ainv : Mat n n) : Vec q :=
  let card := cardinal Ks Ainv
  Vector.ofFn fun i => vget kxx i - sumFin fun j : Fin n => mget Ks i j * mget card i j

/-- `V = solve_triangular(L_chol, K_evalᵀ)` scaled entry-wise: with `L_chol = L·D^{1/2}`,
    `V[j,i]² = (L⁻¹K_evalᵀ)[j,i]² / D[j]`. -/
def varCholRaw {n q : Nat} (kxx : Vec q) (Ks : Mat q n) (Linv : Mat n n) (D : Vec n) : Vec q :=
  let W := mul Linv (transpose Ks)
  Vector.ofFn fun i => vget kxx i - sumFin fun j : Fin n => mget W j i * mget W j i / vget D j

abbrev minVar : Rat := Gen.compute_gaussian_process_MINIMUM_KRIGING_VARIANCE

/-- `numpy.fmax(MINIMUM_KRIGING_VARIANCE, ·)` -/
def floorVar (v : Rat) : Rat := if v < minVar then minVar else v
def floorVec {q : Nat} (v : Vec q) : Vec q := Vector.ofFn fun i => floorVar (vget v i)

/-- `compute_covariance_of_points`: `K_eval_var − VᵀV` with `V = L_chol⁻¹K_evalᵀ`
    (`VᵀV = Wᵀ·diag(1/D)·W`, `W = L⁻¹K_evalᵀ`); no floor. -/
def covChol {n q : Nat} (Kss : Mat q q) (Ks : Mat q n) (Linv : Mat n n) (D : Vec n) : Mat q q :=
  let W := mul Linv (transpose Ks)
  Mat.ofFn fun i j => mget Kss i j - sumFin fun k : Fin n => mget W k i * mget W k j / vget D k

/-- The closed form `K** − K*·A⁻¹·K*ᵀ`. -/
def covDirect {n q : Nat} (Kss : Mat q q) (Ks : Mat q n) (Ainv : Mat n n) : Mat q q :=
  msub Kss (mul (mul Ks Ainv) (transpose Ks))

/-- Everything the public entry points return for one batch of query points. -/
structure Prediction (q p : Nat) where
  polyCoef : Vec p
  mean : Vec q             -- compute_mean_of_points / …mean_and_variance… / …mean_variance_grad…
  varChol : Vec q          -- compute_variance_of_points, compute_mean_and_variance_of_points
  varCardinal : Vec q      -- compute_mean_variance_grad_of_points
  varCholRaw : Vec q
  varCardinalRaw : Vec q
  cov : Mat q q            -- compute_covariance_of_points
  covDirect : Mat q q

def predict {n p q : Nat} (zeroMean : Bool) (pre : Pre n p) (y : Vec n) (P : Mat n p)
    (Ks : Mat q n) (Kss : Mat q q) (kxx : Vec q) (Ps : Mat q p) : Prediction q p :=
  let β := polyCoef zeroMean pre.Ginv P pre.Ainv y
  let w := weights zeroMean pre.Ainv y P β
  let vc := varCholRaw kxx Ks pre.Linv pre.D
  let vd := varCardinalRaw kxx Ks pre.Ainv
  { polyCoef := β, mean := mean Ks Ps w β,
    varChol := floorVec vc, varCardinal := floorVec vd, varCholRaw := vc, varCardinalRaw := vd,
    cov := covChol Kss Ks pre.Linv pre.D, covDirect := covDirect Kss Ks pre.Ainv }

/-! ### Polynomial design matrix (python_utils.py: `build_polynomial_matrix`) -/

/-- one entry: `Π_k point[k] ** indices[k]` (`zip` stops at the shorter list; `0 ** 0 = 1`) -/
def monomial (point : List Rat) (idx : List Nat) : Rat :=
  (List.zipWith (fun x k => x ^ k) point idx).foldl (· * ·) 1

/-- rows = points, columns = index rows; no index rows (zero mean) gives the single zero column
    `numpy.zeros((m, 1))`.  The library's shortcut `numpy.ones` for the constant mean is the monomial
    with all powers zero (`monomial_zero_powers`). -/
def polyMatrix (indices : List (List Nat)) (points : List (List Rat)) : List (List Rat) :=
  match indices with
  | [] => points.map fun _ => [0]
  | _ => points.map fun pt => indices.map (monomial pt)

/-! ### Sum of independent GPs (gaussian_process_sum.py) -/

/-- `mean = zeros; for w, gp: mean = mean + w * gp_mean` -/
def sumMean {q : Nat} : List (Rat × Vec q) → Vec q
  | [] => zeroVec q
  | (w, m) :: rest => vadd (Vector.ofFn fun i => w * vget m i) (sumMean rest)

/-- `var = zeros; for w, gp: var = var + w**2 * gp_var` (each `gp_var` already floored) -/
def sumVar {q : Nat} : List (Rat × Vec q) → Vec q
  | [] => zeroVec q
  | (w, v) :: rest => vadd (Vector.ofFn fun i => w * w * vget v i) (sumVar rest)

def sumCov {q : Nat} : List (Rat × Mat q q) → Mat q q
  | [] => Mat.ofFn fun _ _ => 0
  | (w, C) :: rest => let S := sumCov rest; Mat.ofFn fun i j => w * w * mget C i j + mget S i j

/-! ### Lie data (`append_lie_data`) on the value / noise columns -/

inductive LieMethod | cmin | cmax | cmean
  deriving DecidableEq, Repr

abbrev lieNoise : Rat := Gen.compute_misc_constant_DEFAULT_CONSTANT_LIAR_LIE_NOISE_VARIANCE

/-- `numpy.max / numpy.min / numpy.mean` of the current values (earlier lies included).
    The constructor guarantees at least one observation; the empty list maps to 0. -/
def lieValue : LieMethod → List Rat → Rat
  | _, [] => 0
  | .cmin, y :: ys => ys.foldl max y
  | .cmax, y :: ys => ys.foldl min y
  | .cmean, y :: ys => (y :: ys).foldl (· + ·) 0 / ((y :: ys).length : Rat)

/-- One `append_lie_data(lie_locations (k rows), method)` on the columns `(values, noise)`;
    `append_historical_data` returns early when there are no locations. -/
def appendLie (yv : List Rat × List Rat) (km : Nat × LieMethod) : List Rat × List Rat :=
  (yv.1 ++ List.replicate km.1 (lieValue km.2 yv.1), yv.2 ++ List.replicate km.1 lieNoise)

def appendLies (y noise : List Rat) (batches : List (Nat × LieMethod)) : List Rat × List Rat :=
  batches.foldl appendLie (y, noise)

end C02
