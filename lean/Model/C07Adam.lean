/-
  C07 — the arithmetic of one Adam coordinate (vectorized_optimizers.py: AdamOptimizer._optimize), over the
  `Arith` signature: executed on `Float` by the driver (compared with recorded steps), reasoned about on ℝ.

    ascend_gradients = -gradients
    first_moment  = beta_1 * first_moment  + (1 - beta_1) * ascend_gradients
    second_moment = beta_2 * second_moment + (1 - beta_2) * ascend_gradients**2
    update = -learning_rate * (first_moment / (1 - beta_1**i)) / (sqrt(second_moment / (1 - beta_2**i)) + epsilon)
-/
import Model.Arith

namespace C07Adam
variable {α : Type} [Arith α]

structure Moments (α : Type) where
  m : α
  v : α

def npow (b : α) : Nat → α
  | 0 => 1
  | n + 1 => b * npow b n

/-- moment update for one coordinate; `g` is the acquisition function's gradient there -/
def stepMoments (β1 β2 : α) (s : Moments α) (g : α) : Moments α :=
  let a : α := -g;
  { m := β1 * s.m + (1 - β1) * a, v := β2 * s.v + (1 - β2) * (a * a) }

/-- the displacement added to the coordinate at iteration `i` (1-based), before restriction -/
def update (lr β1 β2 eps : α) (i : Nat) (s : Moments α) : α :=
  let mh := s.m / (1 - npow β1 i)
  let vh := s.v / (1 - npow β2 i)
  Neg.neg (lr * mh / (Arith.sqrt vh + eps))

/-- displacements of one coordinate over a whole gradient history (iteration 1, 2, …), moments starting at 0 -/
def updatesFrom (lr β1 β2 eps : α) : Nat → Moments α → List α → List α
  | _, _, [] => []
  | i, s, g :: gs =>
    let s' := stepMoments β1 β2 s g
    update lr β1 β2 eps i s' :: updatesFrom lr β1 β2 eps (i + 1) s' gs

def updates (lr β1 β2 eps : α) (gs : List α) : List α := updatesFrom lr β1 β2 eps 1 { m := 0, v := 0 } gs

end C07Adam
