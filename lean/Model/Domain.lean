/-
  Shared model of a libsigopt search domain (libsigopt/compute/domain.py: CategoricalDomain).
  Used by C09 (encoding / snapping), C01 (finalisation), C10 (sampling) …

  * `Component`   = double lo hi | int lo hi | cat elems | grid elems   ("quantized" in the code)
  * `Constraint`  = weights · x ≥ rhs, typed "int" or "double"
  * `Domain.wf`   mirrors `CategoricalDomain._verify_domain_components`
  * `admissible`  the checker's own definition of "lies in the domain"
  * one-hot layout of `form_one_hot_domain`: widths, flat bounds (`relaxedBox`), index map,
    block view (`blocks`), `inRelaxedBox`, one-hot constraint weights, `inRelaxed`
  * `encode`      `map_categorical_point_to_one_hot`

  Exact model over `Rat`; import-free.  A configuration ("categorical point") is a `List Rat` with one
  entry per component, a one-hot ("relaxed") point is a `List Rat` of length `totalWidth`.
-/

namespace Dom

/-! ### Arithmetic helpers -/

def rabs (x : Rat) : Rat := if x < 0 then -x else x

/-- `numpy.floor` -/
def fl (q : Rat) : Int := q.floor
/-- `numpy.ceil` -/
def cl (q : Rat) : Int := -((-q).floor)

/-- `int(v) == v` -/
def isIntQ (q : Rat) : Bool := decide (((fl q : Int) : Rat) = q)

def dot : List Rat → List Rat → Rat
  | w :: ws, x :: xs => w * x + dot ws xs
  | _, _ => 0

/-- `min(elements)` / `max(elements)` (0 for the empty list, which `wf` excludes). -/
def lmin : List Rat → Rat
  | [] => 0
  | x :: xs => xs.foldl min x
def lmax : List Rat → Rat
  | [] => 0
  | x :: xs => xs.foldl max x

/-! ### Components, constraints, domains -/

inductive Component where
  | double (lo hi : Rat)
  | int (lo hi : Rat)
  | cat (elems : List Rat)
  | grid (elems : List Rat)
  deriving Repr, DecidableEq

structure Constraint where
  weights : List Rat
  rhs : Rat
  isInt : Bool
  deriving Repr

structure Domain where
  comps : List Component
  cons : List Constraint
  deriving Repr

namespace Component

def isDouble : Component → Bool
  | .double _ _ => true
  | _ => false
def isInt : Component → Bool
  | .int _ _ => true
  | _ => false
def isCat : Component → Bool
  | .cat _ => true
  | _ => false
def isGrid : Component → Bool
  | .grid _ => true
  | _ => false

/-- `len(component["elements"])` -/
def numElems : Component → Nat
  | .double _ _ => 2
  | .int _ _ => 2
  | .cat es => es.length
  | .grid es => es.length

/-- per-component part of `_verify_domain_components` -/
def wf : Component → Bool
  | .double lo hi => decide (lo < hi)
  | .int lo hi => decide (lo < hi) && isIntQ lo && isIntQ hi
  | .cat es => decide (2 ≤ es.length) && decide es.Nodup && es.all isIntQ
  | .grid es => decide (2 ≤ es.length) && decide es.Nodup

/-- `_check_1d_point_inside` (with integrality of ints made a condition instead of an assert) -/
def mem : Component → Rat → Bool
  | .double lo hi, v => decide (lo ≤ v) && decide (v ≤ hi)
  | .int lo hi, v => isIntQ v && decide (lo ≤ v) && decide (v ≤ hi)
  | .cat es, v => es.contains v
  | .grid es, v => es.contains v

/-- number of one-hot coordinates of the component -/
def width : Component → Nat
  | .cat es => es.length
  | _ => 1

/-- rows of `domain_bounds` contributed by the component in `form_one_hot_domain` -/
def bounds : Component → List (Rat × Rat)
  | .double lo hi => [(lo, hi)]
  | .int lo hi => [(lo, hi)]
  | .grid es => [(lmin es, lmax es)]
  | .cat es => List.replicate es.length (0, 1)

/-- the component's block of a one-hot point lies within its bounds -/
def blockOK : Component → List Rat → Bool
  | .double lo hi, [v] => decide (lo ≤ v) && decide (v ≤ hi)
  | .int lo hi, [v] => decide (lo ≤ v) && decide (v ≤ hi)
  | .grid es, [v] => decide (lmin es ≤ v) && decide (v ≤ lmax es)
  | .cat es, b => decide (b.length = es.length) && b.all fun v => decide (0 ≤ v) && decide (v ≤ 1)
  | _, _ => false

/-- `map_categorical_point_to_one_hot`, one component -/
def encode : Component → Rat → List Rat
  | .cat es, v => es.map fun e => if v = e then 1 else 0
  | _, v => [v]

/-- one-hot weights of one component in `_form_one_hot_constraint_list`
    (only double/int coordinates receive the weight, everything else stays `numpy.zeros`) -/
def ohWeights : Component → Rat → List Rat
  | .double _ _, w => [w]
  | .int _ _, w => [w]
  | .grid _, _ => [0]
  | .cat es, _ => List.replicate es.length 0

end Component

/-- constraint part of `_verify_domain_components`: one weight per component, non-zero weights only on
    components of the constraint's own type. -/
def weightsOK (isInt : Bool) : List Rat → List Component → Bool
  | [], [] => true
  | w :: ws, c :: cs => (decide (w = 0) || (if isInt then c.isInt else c.isDouble)) && weightsOK isInt ws cs
  | _, _ => false

def Domain.wf (d : Domain) : Bool :=
  d.comps.all Component.wf && d.cons.all fun c => weightsOK c.isInt c.weights d.comps

/-- `check_point_inside` -/
def inBox : List Component → List Rat → Bool
  | [], [] => true
  | c :: cs, v :: vs => c.mem v && inBox cs vs
  | _, _ => false

/-- `check_point_acceptable`: inside every component and `weights · point ≥ rhs` for every constraint. -/
def admissible (d : Domain) (cfg : List Rat) : Bool :=
  inBox d.comps cfg && d.cons.all fun c => decide (c.rhs ≤ dot c.weights cfg)

/-! ### One-hot layout (`form_one_hot_domain`) -/

def totalWidth : List Component → Nat
  | [] => 0
  | c :: cs => c.width + totalWidth cs

/-- `one_hot_domain.domain_bounds` -/
def relaxedBox : List Component → List (Rat × Rat)
  | [] => []
  | c :: cs => c.bounds ++ relaxedBox cs

/-- `one_hot_to_categorical_mapping`: first one-hot index (`input_ind`, or first key of
    `input_ind_value_map`) and width of every component. -/
def indexMapFrom : Nat → List Component → List (Nat × Nat)
  | _, [] => []
  | n, c :: cs => (n, c.width) :: indexMapFrom (n + c.width) cs
def indexMap (cs : List Component) : List (Nat × Nat) := indexMapFrom 0 cs

/-- `ContinuousDomain.check_point_inside` on a flat list of bounds -/
def withinBounds : List (Rat × Rat) → List Rat → Bool
  | [], [] => true
  | (lo, hi) :: bs, v :: vs => decide (lo ≤ v) && decide (v ≤ hi) && withinBounds bs vs
  | _, _ => false

/-- Block view: the slice of the one-hot point belonging to each component. -/
def blocks : List Component → List Rat → List (List Rat)
  | [], _ => []
  | c :: cs, x => x.take c.width :: blocks cs (x.drop c.width)

/-- membership in the relaxed box, block by block (proved equal to `withinBounds (relaxedBox cs)`) -/
def inRelaxedBox : List Component → List Rat → Bool
  | [], x => x.isEmpty
  | c :: cs, x => c.blockOK (x.take c.width) && inRelaxedBox cs (x.drop c.width)

/-- `_form_one_hot_constraint_list`: weights of a constraint in one-hot coordinates. -/
def ohWeights : List Component → List Rat → List Rat
  | [], _ => []
  | c :: cs, ws => c.ohWeights (ws.headD 0) ++ ohWeights cs ws.tail

/-- relaxed box plus every half-space `weights · x ≥ rhs` in one-hot coordinates -/
def inRelaxed (d : Domain) (x : List Rat) : Bool :=
  inRelaxedBox d.comps x && d.cons.all fun c => decide (c.rhs ≤ dot (ohWeights d.comps c.weights) x)

/-- `map_categorical_point_to_one_hot` (Python `zip` stops at the shorter list) -/
def encode : List Component → List Rat → List Rat
  | c :: cs, v :: vs => c.encode v ++ encode cs vs
  | _, _ => []

/-- `form_one_hot_points_with_tasks` for one point: the task cost is appended as the last column. -/
def encodeWithTask (cs : List Component) (cfg : List Rat) : Option Rat → List Rat
  | none => encode cs cfg
  | some t => encode cs cfg ++ [t]

end Dom
