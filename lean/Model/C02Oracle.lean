/-
  C02 — UNTRUSTED helpers for the driver: exact Gauss–Jordan inverse and LDLᵀ factorisation on plain
  arrays of rationals, and list <-> sized-vector conversions.  Nothing here is relied upon by any
  theorem: the results are only ever used after `C02.Pre.certified` / `C02.psdCertified` has checked
  them exactly.
-/
import Model.C02

namespace C02
namespace Oracle

abbrev AMat := Array (Array Rat)

def toVec? (n : Nat) (l : List Rat) : Option (Vec n) :=
  let a := l.toArray
  if h : a.size = n then some ⟨a, h⟩ else none

def toMat? (n m : Nat) (l : List (List Rat)) : Option (Mat n m) := do
  let rows ← l.mapM (toVec? m)
  let a := rows.toArray
  if h : a.size = n then some ⟨a, h⟩ else none

def vecToList {n : Nat} (v : Vec n) : List Rat := v.toList
def matToLists {n m : Nat} (A : Mat n m) : List (List Rat) := A.toList.map (·.toList)
def matToA {n m : Nat} (A : Mat n m) : AMat := A.toArray.map (·.toArray)
def aToMat? (n m : Nat) (A : AMat) : Option (Mat n m) := toMat? n m (A.toList.map (·.toList))

def aget (A : AMat) (i j : Nat) : Rat := (A.getD i #[]).getD j 0

/-- Gauss–Jordan elimination on `[A | I]`; any non-zero pivot will do in exact arithmetic. -/
def inverse (n : Nat) (A : AMat) : Option AMat := Id.run do
  let mut M : AMat := (Array.range n).map fun i =>
    (Array.range (2 * n)).map fun j => if j < n then aget A i j else if j - n = i then 1 else 0
  for c in [0:n] do
    let mut piv := n
    for r in [c:n] do
      if piv == n && aget M r c != 0 then piv := r
    if piv == n then return none
    let rowP := M.getD piv #[]
    let rowC := M.getD c #[]
    M := (M.setIfInBounds piv rowC).setIfInBounds c rowP
    let pv := aget M c c
    let prow := (M.getD c #[]).map (· / pv)
    M := M.setIfInBounds c prow
    for r in [0:n] do
      if r != c then
        let f := aget M r c
        if f != 0 then
          let row := M.getD r #[]
          M := M.setIfInBounds r (Array.zipWith (fun a b => a - f * b) row prow)
  return some (M.map fun row => row.extract n (2 * n))

/-- `A = L·diag D·Lᵀ`, `L` unit lower triangular (no pivoting; a zero pivot gets a zero column, the
    caller's exact re-multiplication decides whether that was legitimate). -/
def ldl (n : Nat) (A : AMat) : AMat × Array Rat := Id.run do
  let mut L : AMat := (Array.range n).map fun i => (Array.range n).map fun j => if i = j then 1 else 0
  let mut D : Array Rat := Array.replicate n 0
  for j in [0:n] do
    let mut dj := aget A j j
    for k in [0:j] do
      dj := dj - aget L j k * aget L j k * D.getD k 0
    D := D.setIfInBounds j dj
    for i in [j+1:n] do
      let mut s := aget A i j
      for k in [0:j] do
        s := s - aget L i k * aget L j k * D.getD k 0
      let lij := if dj == 0 then 0 else s / dj
      L := L.setIfInBounds i ((L.getD i #[]).setIfInBounds j lij)
  return (L, D)

def identity (n : Nat) : Mat n n := Mat.ofFn fun i j => if i = j then 1 else 0

/-- Assemble the oracle data for `A`, `P` (returns `none` when a matrix is singular). -/
def mkPre {n p : Nat} (A : Mat n n) (P : Mat n p) (zeroMean : Bool) : Option (Pre n p) := do
  let Ainv ← (inverse n (matToA A)).bind (aToMat? n n)
  let (La, Da) := ldl n (matToA A)
  let L ← aToMat? n n La
  let D ← toVec? n Da.toList
  let Linv ← (inverse n La).bind (aToMat? n n)
  let Ginv ← if zeroMean then some (identity p)
             else (inverse p (matToA (gram P Ainv))).bind (aToMat? p p)
  pure { Ainv := Ainv, L := L, Linv := Linv, D := D, Ginv := Ginv }

end Oracle

/-- Exact certificate that `sym(C) + shift·I = L·diag D·Lᵀ` with `D ≥ 0`
    (⇒ positive semidefinite, `ldl_posSemidef`). -/
def shifted {q : Nat} (C : Mat q q) (shift : Rat) : Mat q q :=
  Mat.ofFn fun i j => (mget C i j + mget C j i) / 2 + (if i = j then shift else 0)

def psdCertificate {q : Nat} (M L : Mat q q) (D : Vec q) : Bool :=
  (mul (mul L (diagMat D)) (transpose L)).beq M && allNonneg D

def psdCertified {q : Nat} (C : Mat q q) (shift : Rat) : Bool :=
  match Oracle.aToMat? q q (Oracle.ldl q (Oracle.matToA (shifted C shift))).1,
        Oracle.toVec? q (Oracle.ldl q (Oracle.matToA (shifted C shift))).2.toList with
  | some L, some D => psdCertificate (shifted C shift) L D
  | _, _ => false

end C02
