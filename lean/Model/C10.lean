/-
  C10 — distinct and random sampling (libsigopt/compute/domain.py):
    CategoricalDomain._analyze_discrete_elements, remove_points_outside_domain,
    generate_distinct_random_points (with its two closures map_index_to_discrete_point /
    map_discrete_point_to_index), find_indexes_of_unique_points, identify_unique_points,
    replace_duplicate_points, _generate_quasi_random_1d_points_in_domain,
    generate_quasi_random_points_in_domain, _generate_random_1d_points_according_to_prior,
    generate_random_points_according_to_priors, and the prior/plain selection of the random,
    SPE-initialisation and SPE-search-initialisation views.

  Exact model over `Rat`/`Int`/`Nat`.  A point is a row of rationals (the library's float array,
  every float being a dyadic rational).  Every random draw is an oracle argument.
  The model mirrors the code *after* the repairs F5 (history rows are made unique before they are
  counted) and F7 (self/later batch members are masked with +inf).  F6 (sampling with replacement on
  the shortcut branch) is designed behaviour and is modelled as such.
-/
import Model.Generated.Constants

namespace C10

abbrev Row := List Rat

/-- One domain component (`var_type`, `elements`). -/
inductive Comp where
  | dbl (lo hi : Rat)
  | int (lo hi : Int)
  | cat (elems : List Int)
  | grid (elems : List Rat)
  deriving Repr

abbrev Domain := List Comp

/-- `_verify_domain_components` for one component. -/
def Comp.WF : Comp → Prop
  | .dbl lo hi => lo < hi
  | .int lo hi => lo < hi
  | .cat es => 2 ≤ es.length ∧ es.Nodup
  | .grid es => 2 ≤ es.length ∧ es.Nodup

def WF (dom : Domain) : Prop := ∀ c ∈ dom, c.WF

def Comp.isDiscrete : Comp → Bool
  | .dbl _ _ => false
  | _ => true

/-- `is_discrete` -/
def isDiscrete (dom : Domain) : Bool := dom.all Comp.isDiscrete

/-- `list(range(int(lo), int(hi + 1)))` as floats -/
def intRange (lo hi : Int) : List Rat :=
  (List.range (hi + 1 - lo).toNat).map fun (i : Nat) => (((lo + (i : Int)) : Int) : Rat)

/-- category labels as floats -/
def catVals (es : List Int) : List Rat := es.map fun (e : Int) => (e : Rat)

/-- entry of `discrete_elements` for a component (never evaluated for a double: the sampler leaves
    through the `not is_discrete` exit before) -/
def Comp.elems : Comp → List Rat
  | .dbl _ _ => []
  | .int lo hi => intRange lo hi
  | .cat es => catVals es
  | .grid es => es

/-! ### Membership: the checker's own definition of "lies in the domain" -/

def admissible1 : Comp → Rat → Bool
  | .dbl lo hi, v => decide (lo ≤ v) && decide (v ≤ hi)
  | .int lo hi, v => decide (v.den = 1) && decide (lo ≤ v.num) && decide (v.num ≤ hi)
  | .cat es, v => (catVals es).contains v
  | .grid es, v => es.contains v

def admissibleRow : Domain → Row → Bool
  | [], [] => true
  | c :: cs, v :: vs => admissible1 c v && admissibleRow cs vs
  | _, _ => false

/-- what `remove_points_outside_domain` tests per coordinate: like `admissible1`, but an int
    parameter is only compared with its bounds (no integrality test) -/
def inDomain1 : Comp → Rat → Bool
  | .dbl lo hi, v => decide (lo ≤ v) && decide (v ≤ hi)
  | .int lo hi, v => decide ((lo : Rat) ≤ v) && decide (v ≤ (hi : Rat))
  | .cat es, v => (catVals es).contains v
  | .grid es, v => es.contains v

def keepRow : Domain → Row → Bool
  | [], [] => true
  | c :: cs, v :: vs => inDomain1 c v && keepRow cs vs
  | _, _ => false

/-- `remove_points_outside_domain` -/
def removeOutside (dom : Domain) (pts : List Row) : List Row := pts.filter (keepRow dom)

/-- A history row is well typed when it has the domain's dimension and integral values for the int
    parameters.  (A non-integral int value inside the bounds survives `remove_points_outside_domain`
    and makes `map_discrete_point_to_index` raise IndexError: such rows are rejected inputs.) -/
def wellTyped1 : Comp → Rat → Bool
  | .int _ _, v => decide (v.den = 1)
  | _, _ => true

def wellTypedRow : Domain → Row → Bool
  | [], [] => true
  | c :: cs, v :: vs => wellTyped1 c v && wellTypedRow cs vs
  | _, _ => false

/-- `numpy.unique(rows, axis=0)` as a set of rows (the order is irrelevant to every use) -/
def dedupIns (r : Row) (d : List Row) : List Row := if r ∈ d then d else r :: d

def dedup : List Row → List Row
  | [] => []
  | r :: rs => dedupIns r (dedup rs)

/-! ### Mixed-radix numbering of the configurations (first component fastest) -/

def numConfigs : List (List Rat) → Nat
  | [] => 1
  | es :: rest => es.length * numConfigs rest

/-- `map_index_to_discrete_point`: `pt.append(elements[k][index % b]); index = (index - index % b) / b` -/
def decodeIdx : List (List Rat) → Nat → Row
  | [], _ => []
  | es :: rest, i => es.getD (i % es.length) 0 :: decodeIdx rest ((i - i % es.length) / es.length)

/-- the loop of `map_discrete_point_to_index` with its two accumulators `index`, `base_factor` -/
def encodeLoop : List (List Rat) → Row → Nat → Nat → Nat
  | es :: rest, p :: ps, index, base => encodeLoop rest ps (index + es.idxOf p * base) (base * es.length)
  | _, _, index, _ => index

/-- `map_discrete_point_to_index` -/
def encodeIdx (des : List (List Rat)) (row : Row) : Nat := encodeLoop des row 0 1

/-- Horner form of the same number (used in proofs; `encodeIdx_eq` in Proofs/C10Radix.lean) -/
def encodeRec : List (List Rat) → Row → Nat
  | es :: rest, p :: ps => es.idxOf p + es.length * encodeRec rest ps
  | _, _ => 0

/-- row lies in the product of the element lists -/
def rowIn : List (List Rat) → Row → Bool
  | [], [] => true
  | es :: rest, p :: ps => es.contains p && rowIn rest ps
  | _, _ => false

/-! ### `_analyze_discrete_elements` -/

abbrev maxSearch : Nat := Gen.compute_domain_MAX_DISCRETE_DOMAIN_UNIQUENESS_SEARCH_nat

/-- running product with the early exit `if num_total_discrete_values >= MAX…: return None, True` -/
def cappedProd : List Nat → Nat → Option Nat
  | [], acc => some acc
  | b :: bs, acc => if acc * b ≥ maxSearch then none else cappedProd bs (acc * b)

inductive Analysis where
  | tooLarge                 -- `(None, True)`
  | error (N : Nat)          -- one of the two `ValueError`s (N is what the second call recomputes)
  | shortcut (N : Nat)       -- `(N, True)`
  | enumerate (N : Nat)      -- `(N, False)`
  deriving Repr, DecidableEq

def analyze (lens : List Nat) (k h : Nat) (dupProb : Rat) : Analysis :=
  match cappedProd lens 1 with
  | none => .tooLarge
  | some N =>
    if k > N then .error N
    else if k + h > N then .error N
    else if ((k + h : Nat) : Rat) ≤ dupProb * (N : Rat) then .shortcut N
    else .enumerate N

/-! ### Random draws (oracles) and plain sampling -/

/-- one primitive draw: `n` stands for `randint`/`choice` outcomes, `t ∈ [0,1)` for `uniform` -/
structure Draw where
  n : Nat
  t : Rat
  deriving Repr

/-- `_generate_quasi_random_1d_points_in_domain` for one draw -/
def sample1d : Comp → Draw → Rat
  | .dbl lo hi, d => lo + (hi - lo) * d.t
  | .int lo hi, d => ((lo + ((d.n % (hi + 1 - lo).toNat : Nat) : Int) : Int) : Rat)
  | .cat es, d => (catVals es).getD (d.n % es.length) 0
  | .grid es, d => es.getD (d.n % es.length) 0

def sampleRow : Domain → List Draw → Row
  | [], _ => []
  | c :: cs, ds => sample1d c (ds.headD ⟨0, 0⟩) :: sampleRow cs ds.tail

/-- contract of `numpy.random.uniform`: the underlying `random()` lies in `[0, 1)` -/
def Draw.ok (d : Draw) : Prop := 0 ≤ d.t ∧ d.t < 1

/-- doubles strictly below their upper bound (what `uniform(lo, hi)` can return exactly) -/
def openAtHi1 : Comp → Rat → Bool
  | .dbl _ hi, v => decide (v < hi)
  | _, _ => true

def openAtHiRow : Domain → Row → Bool
  | c :: cs, v :: vs => openAtHi1 c v && openAtHiRow cs vs
  | _, _ => true

structure Oracle where
  /-- `numpy.random.choice(avail, k, replace=False)` as successive positions in the shrinking pool -/
  choice : List Nat
  /-- `numpy.random.randint(0, N + 1, ·)` of the padding branch -/
  extra : List Nat
  /-- draws of the unconstrained plain sampler, one list per returned row -/
  plain : List (List Draw)
  /-- result of the constrained one-hot sampler (property C08), opaque here -/
  ext : List Row

def plainSample (dom : Domain) (k : Nat) (draws : List (List Draw)) : List Row :=
  (List.range k).map fun i => sampleRow dom (draws.getD i [])

/-- `generate_quasi_random_points_in_domain` -/
def quasiRandom (dom : Domain) (constrained : Bool) (k : Nat) (ω : Oracle) : List Row :=
  if constrained then ω.ext else plainSample dom k ω.plain

/-! ### `generate_distinct_random_points` -/

/-- sampling without replacement: the `j`-th remaining element is taken and removed, `k` times
    (the pool never contains repeats, so removing the element is removing the position) -/
def pick : Nat → List Nat → List Nat → List Nat
  | 0, _, _ => []
  | _ + 1, [], _ => []
  | k + 1, a :: as, ω =>
    let x := (a :: as).getD (ω.headD 0 % (as.length + 1)) a
    x :: pick k ((a :: as).erase x) ω.tail

/-- indices still available: `set(range(N)) - excluded_indexes` -/
def availOf (ex : List Nat) (N : Nat) : List Nat := (List.range N).filter fun i => !ex.contains i

def availIdx (des : List (List Rat)) (N : Nat) (excl : List Row) : List Nat :=
  availOf (excl.map (encodeIdx des)) N

/-- `unique_indexes` -/
def enumIdxOf (avail : List Nat) (N k : Nat) (ω : Oracle) : List Nat :=
  if avail.length > k then pick k avail ω.choice
  else avail ++ (ω.extra.take (k - avail.length)).map (· % (N + 1))

def enumIdx (des : List (List Rat)) (N : Nat) (excl : List Row) (k : Nat) (ω : Oracle) : List Nat :=
  enumIdxOf (availIdx des N excl) N k ω

def enumBranch (des : List (List Rat)) (N : Nat) (excl : List Row) (k : Nat) (ω : Oracle) : List Row :=
  (enumIdx des N excl k ω).map (decodeIdx des)

/-- the in-domain history as the sampler counts it (after F5: unique rows) -/
def observed (dom : Domain) (hist : List Row) : List Row := dedup (removeOutside dom hist)

def desOf (dom : Domain) : List (List Rat) := dom.map Comp.elems

def branchOf (dom : Domain) (hist : List Row) (k : Nat) (dupProb : Rat) : Analysis :=
  analyze ((desOf dom).map List.length) k (observed dom hist).length dupProb

def distinct (dom : Domain) (constrained : Bool) (hist : List Row) (k : Nat) (dupProb : Rat)
    (ω : Oracle) : List Row :=
  if k = 0 then []
  else if !isDiscrete dom || constrained then quasiRandom dom constrained k ω
  else
    let excl := observed dom hist
    match branchOf dom hist k dupProb with
    | .tooLarge => quasiRandom dom constrained k ω
    | .shortcut _ => quasiRandom dom constrained k ω
    | .enumerate N => enumBranch (desOf dom) N excl k ω
    | .error N =>
      let k' : Int := (N : Int) - (excl.length : Int)
      if k' ≤ 0 then [] else enumBranch (desOf dom) N excl k'.toNat ω

/-- the sampler is on a branch that samples with replacement (F6 / very large domains) -/
def onShortcut (dom : Domain) (hist : List Row) (k : Nat) (dupProb : Rat) : Bool :=
  match branchOf dom hist k dupProb with
  | .tooLarge => true
  | .shortcut _ => true
  | _ => false

/-- configurations not yet observed -/
def unobserved (dom : Domain) (hist : List Row) : Nat :=
  numConfigs (desOf dom) - (observed dom hist).length

/-! ### Tolerance-based duplicate detection -/

/-- `map_categorical_points_to_enumeration` on one coordinate: a category becomes its position -/
def enum1 : Comp → Rat → Rat
  | .cat es, v => (((catVals es).idxOf v : Nat) : Rat)
  | _, v => v

def enumRow : Domain → Row → Row
  | c :: cs, v :: vs => enum1 c v :: enumRow cs vs
  | _, _ => []

def lmax (x : Rat) (xs : List Rat) : Rat := xs.foldl max x
def lmin (x : Rat) (xs : List Rat) : Rat := xs.foldl min x

/-- entry of `scaling_vector` (used by scipy as the *variance* `V` of `seuclidean`) -/
def scale1 : Comp → Rat
  | .dbl lo hi => hi - lo
  | .int lo hi => ((hi - lo : Int) : Rat)
  | .cat es => (es.length : Rat)
  | .grid [] => 0
  | .grid (e :: es) => lmax e es - lmin e es

/-- squared standardised Euclidean distance `Σ (uᵢ − vᵢ)² / Vᵢ` (scipy `seuclidean` before the root) -/
def sqDist : List Rat → Row → Row → Rat
  | V :: Vs, a :: as, b :: bs => (a - b) * (a - b) / V + sqDist Vs as bs
  | _, _, _ => 0

/-- `distance > tolerance * sqrt(n_dim)` in squared form -/
def far (V : List Rat) (tol : Rat) (n : Nat) (p q : Row) : Bool :=
  decide (tol < 0) || decide (sqDist V p q > tol * tol * (n : Rat))

/-- the distance test as applied to two original points of the domain (`q` is the compared point) -/
abbrev farIn (dom : Domain) (tol : Rat) (q p : Row) : Bool :=
  far (dom.map scale1) tol dom.length (enumRow dom q) (enumRow dom p)

/-- column test of the within-batch matrix: only rows `i < j` count (`tril` masks `i ≥ j` with +inf) -/
def selfMaskAux (f : Row → Row → Bool) (earlier : List Row) : List Row → List Bool
  | [] => []
  | p :: ps => earlier.all (fun q => f q p) :: selfMaskAux f (earlier ++ [p]) ps

def selfMask (f : Row → Row → Bool) (pts : List Row) : List Bool := selfMaskAux f [] pts

/-- column test against `compare_points` -/
def cmpMask (f : Row → Row → Bool) (cmp : List Row) (pts : List Row) : List Bool :=
  pts.map fun p => cmp.all fun q => f q p

/-- `test_points[unique_indexes, :]` -/
def applyMask {α : Type} : List α → List Bool → List α
  | a :: as, b :: bs => if b then a :: applyMask as bs else applyMask as bs
  | _, _ => []

/-- `unique_indexes` of `identify_unique_points` -/
def uniqueMask (dom : Domain) (pts : List Row) (cmp : Option (List Row)) (tol : Rat) : List Bool :=
  let V := dom.map scale1
  let f := far V tol dom.length
  let e := pts.map (enumRow dom)
  match cmp with
  | none => selfMask f e
  | some cs => cmpMask f (cs.map (enumRow dom)) e

/-- `identify_unique_points` -/
def identifyUnique (dom : Domain) (pts : List Row) (cmp : Option (List Row)) (tol : Rat) : List Row :=
  applyMask pts (uniqueMask dom pts cmp tol)

/-- the batch members `replace_duplicate_points` keeps -/
def keptOf (dom : Domain) (pts hist : List Row) (tol : Rat) : List Row :=
  identifyUnique dom (identifyUnique dom pts none tol) (some hist) tol

/-- `replace_duplicate_points` (`dupProb` is the default `duplicate_prob` of the distinct sampler) -/
def replaceDuplicates (dom : Domain) (constrained : Bool) (pts hist : List Row) (tol dupProb : Rat)
    (ω : Oracle) : List Row :=
  let kept := keptOf dom pts hist tol
  kept ++ distinct dom constrained hist (pts.length - kept.length) dupProb ω

/-! ### Priors -/

inductive Prior where
  | none                              -- `name is None` / `params is None` / missing
  | normal (mean scale : Rat)
  | beta (a b : Rat)
  deriving Repr

/-- which generator `_generate_random_1d_points_according_to_prior` calls, with which arguments -/
inductive Call where
  | plain (c : Comp)
  | truncnorm (a b loc scale : Rat)     -- `truncnorm.rvs(a, b, loc, scale)`
  | betaRvs (a b loc scale : Rat)       -- `beta.rvs(a, b, loc, scale)`
  deriving Repr

def Comp.lo : Comp → Rat
  | .dbl lo _ => lo
  | .int lo _ => (lo : Rat)
  | .cat es => ((es.headD 0 : Int) : Rat)
  | .grid es => es.headD 0

def Comp.hi : Comp → Rat
  | .dbl _ hi => hi
  | .int _ hi => (hi : Rat)
  | .cat es => ((es.getD 1 0 : Int) : Rat)
  | .grid es => es.getD 1 0

def priorCall (c : Comp) : Prior → Call
  | .none => .plain c
  | .normal mean scale => .truncnorm ((c.lo - mean) / scale) ((c.hi - mean) / scale) mean scale
  | .beta a b => .betaRvs a b c.lo (c.hi - c.lo)

/-- the test of `RandomSearchNextPoints.view`, `SPENextPoints.create_random_suggestions` and
    `SPESearchNextPoints.initilization_sequence`: `self.domain.priors and not constrained` -/
def usePriors (priorsGiven constrained : Bool) : Bool := priorsGiven && !constrained

/-- support of the distribution a call draws from: `[loc + a·scale, loc + b·scale]` for the truncated
    normal, `[loc, loc + scale]` for the beta -/
def callSupport : Call → Option (Rat × Rat)
  | .plain _ => none
  | .truncnorm a b loc scale => some (loc + a * scale, loc + b * scale)
  | .betaRvs _ _ loc scale => some (loc, loc + scale)

/-! ### Decidable legality of an observed output (refinement check used by the driver) -/

/-- Is `out` an output of the enumerating branch for *some* oracle (up to order)?  -/
def legalEnum (des : List (List Rat)) (N : Nat) (excl : List Row) (k : Nat) (out : List Row) : Bool :=
  let avail := availIdx des N excl
  let idxs := out.map (encodeIdx des)
  out.all (rowIn des) && decide (idxs.Nodup) && idxs.all (fun i => avail.contains i)
    && decide (out.length = min k avail.length)

/-- Is `out` an output of `generate_distinct_random_points` on an unconstrained discrete domain for
    *some* outcome of the random draws (up to the order of the rows)?  `legal_sound`/`legal_complete`
    in Properties/C10.lean prove that this decidable test is exactly that. -/
def legalDistinct (dom : Domain) (hist : List Row) (k : Nat) (dupProb : Rat) (out : List Row) : Bool :=
  if k = 0 then out.isEmpty
  else
    let excl := observed dom hist
    match branchOf dom hist k dupProb with
    | .tooLarge => out.all (admissibleRow dom) && decide (out.length = k)
    | .shortcut _ => out.all (admissibleRow dom) && decide (out.length = k)
    | .enumerate N => legalEnum (desOf dom) N excl k out
    | .error N =>
      let k' : Int := (N : Int) - (excl.length : Int)
      if k' ≤ 0 then out.isEmpty else legalEnum (desOf dom) N excl k'.toNat out

end C10
