/-
  C09 — one-hot decoding and snapping (libsigopt/compute/domain.py, views/view.py,
  views/rest/gp_next_points_categorical.py).  Exact model over `Rat`, built on Model/Domain.lean.

  Random draws are oracle arguments:
    * `ω : List Nat`            one entry per component: the index drawn by `numpy.random.choice` for a
                                 categorical component (ignored for the other kinds).  Every category
                                 has non-zero probability in the code (`z ** (1/T) + 1e-300`, normalised),
                                 so the temperature only changes the distribution, never the support:
                                 the model quantifies over every index.
    * `shuf : Nat → List α → List α`   `numpy.random.shuffle` of the feasible neighbours of row i
    * `nb : Nat → List (List Bool)`    the random floor/ceil choices of row i when more than
                                        `MAX_GRID_DIM` integers are constrained
-/
import Model.Domain
import Model.Generated.Constants

namespace C09
open Dom

/-! ### Scalar snapping rules -/

/-- `numpy.round` / Python `round`: round half to even. -/
def roundHalfEven (q : Rat) : Int :=
  let f := fl q
  let r := q - (f : Rat)
  if r < 1 / 2 then f
  else if 1 / 2 < r then f + 1
  else if f % 2 = 0 then f else f + 1

/-- `elems[numpy.argmin(numpy.abs(v - elems))]`: the first nearest element. -/
def nearestFirst : List Rat → Rat → Rat
  | [], v => v
  | e :: es, v => es.foldl (fun best e' => if rabs (v - e') < rabs (v - best) then e' else best) e

/-- `numpy.argmax`: index of the first maximum (0 for the empty list). -/
def argmaxFirst : List Rat → Nat
  | [] => 0
  | [_] => 0
  | x :: y :: ys =>
    let j := argmaxFirst (y :: ys)
    if (y :: ys).getD j 0 ≤ x then 0 else j + 1

def unitVec (k i : Nat) : List Rat := (List.range k).map fun j => if j = i then 1 else 0

/-! ### Decoding (`map_one_hot_points_to_categorical`, one point, after the integer-feasibility snap) -/

def decodeComp : Component → List Rat → Nat → Rat
  | .double _ _, b, _ => b.headD 0
  | .int _ _, b, _ => (roundHalfEven (b.headD 0) : Int)
  | .grid es, b, _ => nearestFirst es (b.headD 0)
  | .cat es, _, i => es.getD i (es.headD 0)

def decode : List Component → List Rat → List Nat → List Rat
  | [], _, _ => []
  | c :: cs, x, ω => decodeComp c (x.take c.width) (ω.headD 0) :: decode cs (x.drop c.width) ω.tail

/-- the oracle that always draws the first arg-max of every block -/
def argmaxOracle : List Component → List Rat → List Nat
  | [], _ => []
  | c :: cs, x => argmaxFirst (x.take c.width) :: argmaxOracle cs (x.drop c.width)

/-- decode with deterministic arg-max rounding of the categorical blocks -/
def decodeArgmax (cs : List Component) (x : List Rat) : List Rat := decode cs x (argmaxOracle cs x)

/-- The categorical draws hit, in every categorical block, a coordinate with non-zero one-hot value, i.e. a
    category whose weight `z ** (1/T)` is not just the `1e-300` floor.  For an exactly encoded point this is
    the encoded category; the complementary event has probability `(k-1)·δ/(1+k·δ)` per block
    (theorem `floor_mass_encoded`), about `(k-1)·1e-300`, and in `numpy.random.choice` it needs the uniform
    draw to fall below that. -/
def drawOnSupport : List Component → List Rat → List Nat → Bool
  | [], _, _ => true
  | c :: cs, x, ω =>
    (match c with
     | .cat _ => decide ((x.take c.width).getD (ω.headD 0) 0 ≠ 0)
     | _ => true) && drawOnSupport cs (x.drop c.width) ω.tail

/-- Tie-liberal specification of one decoded coordinate:
    double unchanged, int = *a* nearest integer, grid = *a* nearest element, categorical = any element. -/
def specComp : Component → List Rat → Rat → Bool
  | .double _ _, b, y => decide (y = b.headD 0)
  | .int _ _, b, y => isIntQ y && decide (rabs (b.headD 0 - y) ≤ 1 / 2)
  | .grid es, b, y => es.contains y && es.all fun e => decide (rabs (b.headD 0 - y) ≤ rabs (b.headD 0 - e))
  | .cat es, _, y => es.contains y

def decodeSpec : List Component → List Rat → List Rat → Bool
  | [], _, [] => true
  | c :: cs, x, y :: ys => specComp c (x.take c.width) y && decodeSpec cs (x.drop c.width) ys
  | _, _, _ => false

/-- a coordinate on which the property leaves a choice (exact .5, two nearest grid elements, any categorical
    block): used by the correspondence to decide between "must be equal" and "must satisfy the spec". -/
def tieComp : Component → List Rat → Bool
  | .double _ _, _ => false
  | .int _ _, b => decide (b.headD 0 - (fl (b.headD 0) : Rat) = 1 / 2)
  | .grid es, b =>
    let y := nearestFirst es (b.headD 0)
    es.any fun e => decide (e ≠ y) && decide (rabs (b.headD 0 - e) = rabs (b.headD 0 - y))
  | .cat _, _ => true

def ties : List Component → List Rat → List Bool
  | [], _ => []
  | c :: cs, x => tieComp c (x.take c.width) :: ties cs (x.drop c.width)

/-! ### Rounding inside the one-hot space (`round_one_hot_points_*_values`, one point) -/

/-- apply `f` to every component's block, keep trailing coordinates -/
def mapBlocks (f : Component → List Rat → List Rat) : List Component → List Rat → List Rat
  | [], x => x
  | c :: cs, x => f c (x.take c.width) ++ mapBlocks f cs (x.drop c.width)

def roundIntBlock : Component → List Rat → List Rat
  | .int _ _, b => b.map fun v => ((roundHalfEven v : Int) : Rat)
  | _, b => b
def roundGridBlock : Component → List Rat → List Rat
  | .grid es, b => b.map fun v => nearestFirst es v
  | _, b => b
def roundCatBlock : Component → List Rat → List Rat
  | .cat _, b => unitVec b.length (argmaxFirst b)
  | _, b => b

def roundInt := mapBlocks roundIntBlock
def roundGrid := mapBlocks roundGridBlock
def roundCat := mapBlocks roundCatBlock

/-! ### Integer-feasible neighbours (`generate_integer_neighbors_for_integer_constraints`,
    `generate_feasible_integer_neighbors`, `snap_one_hot_points_to_integer_feasible`) -/

abbrev maxGridDim : Nat := Gen.compute_domain_MAX_GRID_DIM_nat

/-- `_form_constrained_variable_indices`, as one flag per component: some int constraint has a non-zero
    weight on it (`ws` = weight vectors of the int constraints, peeled component by component). -/
def constrainedFlagsOf (ws : List (List Rat)) : List Component → List Bool
  | [] => []
  | _ :: cs => (ws.any fun w => decide (w.headD 0 ≠ 0)) :: constrainedFlagsOf (ws.map List.tail) cs
def intWeights (d : Domain) : List (List Rat) := (d.cons.filter (·.isInt)).map (·.weights)
def constrainedFlags (d : Domain) : List Bool := constrainedFlagsOf (intWeights d) d.comps

/-- every coordinate of every flagged block is an integer (what the integer-feasibility snap establishes) -/
def intSnapped : List Component → List Bool → List Rat → Bool
  | [], _, _ => true
  | c :: cs, fs, x => (!(fs.headD false) || (x.take c.width).all isIntQ) && intSnapped cs fs.tail (x.drop c.width)

/-- floor (`false`) or ceil (`true`) on every flagged component, one choice per flagged component -/
def applyChoice : List Component → List Bool → List Bool → List Rat → List Rat
  | [], _, _, x => x
  | c :: cs, fs, ch, x =>
    if fs.headD false then
      (x.take c.width).map (fun v => if ch.headD false then ((cl v : Int) : Rat) else ((fl v : Int) : Rat))
        ++ applyChoice cs fs.tail ch.tail (x.drop c.width)
    else
      x.take c.width ++ applyChoice cs fs.tail ch (x.drop c.width)

/-- all 2^n choice vectors, first component most significant (`numpy.meshgrid` / `numpy.tile` order is not
    part of the property; the correspondence compares multisets) -/
def allChoices : Nat → List (List Bool)
  | 0 => [[]]
  | n + 1 => (allChoices n).map (false :: ·) ++ (allChoices n).map (true :: ·)

def countTrue (l : List Bool) : Nat := (l.filter id).length

/-- the choice vectors tried for a row: the full grid up to `MAX_GRID_DIM` constrained integers, otherwise
    the random ones supplied by the oracle -/
def choicesFor (d : Domain) (nb : List (List Bool)) : List (List Bool) :=
  let n := countTrue (constrainedFlags d)
  if n ≤ maxGridDim then allChoices n else nb

def intNeighbours (d : Domain) (x : List Rat) (nb : List (List Bool)) : List (List Rat) :=
  (choicesFor d nb).map fun ch => applyChoice d.comps (constrainedFlags d) ch x

/-- `numpy.all(numpy.dot(A, neighbours.T) <= b)` over the int constraints (A = −weights, b = −rhs) -/
def intFeasible (d : Domain) (x : List Rat) : Bool :=
  d.cons.all fun c => !c.isInt || decide (c.rhs ≤ dot (ohWeights d.comps c.weights) x)

def feasibleNeighbours (d : Domain) (x : List Rat) (nb : List (List Bool)) : List (List Rat) :=
  (intNeighbours d x nb).filter (intFeasible d)

/-- first loop of `snap_one_hot_points_to_integer_feasible`: row i becomes its first shuffled feasible
    neighbour (or `none`), the following ones feed the padding pool until it holds `n` rows. -/
def snapLoop (d : Domain) (shuf : Nat → List (List Rat) → List (List Rat)) (nb : Nat → List (List Bool))
    (n : Nat) : Nat → List (List Rat) → List (List Rat) → List (Option (List Rat)) × List (List Rat)
  | _, [], pad => ([], pad)
  | i, x :: xs, pad =>
    match shuf i (feasibleNeighbours d x (nb i)) with
    | [] =>
      let r := snapLoop d shuf nb n (i + 1) xs pad
      (none :: r.1, r.2)
    | y :: rest =>
      let pad' := if pad.length < n then pad ++ rest.take (n - pad.length) else pad
      let r := snapLoop d shuf nb n (i + 1) xs pad'
      (some y :: r.1, r.2)

/-- second loop: rows without a feasible neighbour take padding rows in order; what is left is deleted. -/
def fillPad : List (Option (List Rat)) → List (List Rat) → List (List Rat)
  | [], _ => []
  | some y :: r, pad => y :: fillPad r pad
  | none :: r, p :: pad => p :: fillPad r pad
  | none :: r, [] => fillPad r []

def snapIntFeasible (d : Domain) (shuf : Nat → List (List Rat) → List (List Rat)) (nb : Nat → List (List Bool))
    (xs : List (List Rat)) : List (List Rat) :=
  let r := snapLoop d shuf nb xs.length 0 xs []
  fillPad r.1 r.2

/-- is any int constraint present (`is_integer_constrained`) -/
def isIntConstrained (d : Domain) : Bool := d.cons.any (·.isInt)

/-- `map_one_hot_points_to_categorical` on a batch: integer-feasibility snap (if int constraints exist), then
    row-wise decode; `ω k` are the categorical draws of the k-th surviving row. -/
def decodeRows (cs : List Component) (ω : Nat → List Nat) : Nat → List (List Rat) → List (List Rat)
  | _, [] => []
  | k, x :: xs => decode cs x (ω k) :: decodeRows cs ω (k + 1) xs

def decodeAll (d : Domain) (shuf : Nat → List (List Rat) → List (List Rat)) (nb : Nat → List (List Bool))
    (ω : Nat → List Nat) (xs : List (List Rat)) : List (List Rat) :=
  decodeRows d.comps ω 0 (if isIntConstrained d then snapIntFeasible d shuf nb xs else xs)

/-- relational, oracle-free description of "y is x with every flagged block floored or ceiled" -/
def neighbourRel : List Component → List Bool → List Rat → List Rat → Bool
  | [], _, x, y => decide (x = y)
  | c :: cs, fs, x, y =>
    (if fs.headD false then
       decide (y.take c.width = (x.take c.width).map fun v => ((fl v : Int) : Rat))
         || decide (y.take c.width = (x.take c.width).map fun v => ((cl v : Int) : Rat))
     else decide (y.take c.width = x.take c.width))
    && neighbourRel cs fs.tail (x.drop c.width) (y.drop c.width)

/-- a legal snap result for row `x`, decided by the driver: an int-feasible floor/ceil neighbour of `x` -/
def isFeasibleNeighbourOf (d : Domain) (x y : List Rat) : Bool :=
  intFeasible d y && neighbourRel d.comps (constrainedFlags d) x y

/-! ### Length scales (`map_categorical_length_scales_to_one_hot`, `map_one_hot_length_scales_to_categorical`) -/

def lsToOneHot : List Component → List (List (Option Rat)) → List Rat
  | c :: cs, l :: ls =>
    (if l.any Option.isNone then List.replicate c.numElems (1 : Rat) else l.map fun o => o.getD 0)
      ++ lsToOneHot cs ls
  | _, _ => []

/-- every component comes with exactly `width` given (non-`None`) length scales -/
def lsShapeOK : List Component → List (List (Option Rat)) → Bool
  | [], [] => true
  | c :: cs, l :: ls => decide (l.length = c.width) && l.all Option.isSome && lsShapeOK cs ls
  | _, _ => false

def lsToCategorical (cs : List Component) (v : List Rat) : List (List Rat) := blocks cs v

/-! ### Task costs (`snap_continuous_tasks_to_discrete_options`) -/

def snapTask (options : List Rat) (cost : Rat) : Rat := nearestFirst options cost

/-! ### Lattice neighbours of the suggestion endpoint
    (`generate_neighboring_integer_points`, `generate_neighboring_categorical_points`) -/

def intFlags : List Component → List Bool
  | [] => []
  | c :: cs => c.isInt :: intFlags cs

/-- every floor/ceil combination over ALL integer components -/
def neighInt (cs : List Component) (x : List Rat) : List (List Rat) :=
  (allChoices (countTrue (intFlags cs))).map fun ch => applyChoice cs (intFlags cs) ch x

/-- every combination of unit vectors on the categorical blocks, other coordinates copied -/
def neighCat : List Component → List Rat → List (List Rat)
  | [], x => [x]
  | c :: cs, x =>
    let heads : List (List Rat) :=
      match c with
      | .cat es => (List.range es.length).map fun i => unitVec es.length i
      | _ => [x.take c.width]
    heads.flatMap fun h => (neighCat cs (x.drop c.width)).map fun t => h ++ t

/-- `product_of_categories` -/
def catProduct : List Component → Nat
  | [] => 1
  | .cat es :: cs => es.length * catProduct cs
  | _ :: cs => catProduct cs

/-- relational description of a categorical neighbour: categorical blocks are indicator vectors of the right
    length, every other block is copied -/
def catNeighbourRel : List Component → List Rat → List Rat → Bool
  | [], x, y => decide (x = y)
  | c :: cs, x, y =>
    (match c with
     | .cat es => (List.range es.length).any fun i => decide (y.take c.width = unitVec es.length i)
     | _ => decide (y.take c.width = x.take c.width))
    && catNeighbourRel cs (x.drop c.width) (y.drop c.width)

/-! ### Lattice predicate: a one-hot point that is the encoding of a configuration -/

def isUnit (b : List Rat) : Bool :=
  b.all (fun v => decide (v = 0) || decide (v = 1)) && decide ((b.filter fun v => decide (v = 1)).length = 1)

def latticeBlock : Component → List Rat → Bool
  | .double lo hi, [v] => decide (lo ≤ v) && decide (v ≤ hi)
  | .int lo hi, [v] => isIntQ v && decide (lo ≤ v) && decide (v ≤ hi)
  | .grid es, [v] => es.contains v
  | .cat es, b => decide (b.length = es.length) && isUnit b
  | _, _ => false

def onLattice : List Component → List Rat → Bool
  | [], x => x.isEmpty
  | c :: cs, x => latticeBlock c (x.take c.width) && onLattice cs (x.drop c.width)

/-! ### Relative probabilities of the temperature-sampled categorical draw
    `rel_prob_func(z) = (z ** (1/T) + 1e-300) / sum(...)`.  The power function is a parameter `pw`
    (the theorems only use `pw 0 = 0` and `pw 1 = 1`, true for every temperature), `δ` is the floor. -/

def lsum : List Rat → Rat
  | [] => 0
  | x :: xs => x + lsum xs

def relWeights (pw : Rat → Rat) (δ : Rat) (block : List Rat) : List Rat :=
  let t := block.map fun z => pw z + δ
  t.map fun a => a / lsum t

end C09
