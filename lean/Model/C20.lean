/-
  C20 — schema validation (libsigopt/aux/validate_schema.py: validate, process_error,
  get_path_string; libsigopt/aux/errors.py; third party: jsonschema 4.x, Draft 2020-12 validator,
  `best_match`).

  Exact, import-free, executable model.

  * `Json`      JSON values (Python `int` and `float` kept apart: `int`, `num : Rat`).
  * `Schema`    an ordered keyword list (a Python dict in insertion order) over the keywords that
                `process_error` translates, plus the class `other` it does not translate
                (`const`, `multipleOf`, `uniqueItems`, `not`).
  * `conforms`  the JSON-Schema semantics of these keywords as a Boolean function.
  * `violations` every failing keyword instance, as jsonschema's `iter_errors` yields them:
                path relative to the nearest enclosing `oneOf/anyOf` branch (that is what
                `error.path` holds for context errors), `oneOf/anyOf` errors carry their context.
  * `translate` the decision table of `process_error`.

  Third-party / stdlib behaviour that is not modelled is an explicit parameter:
  `Render` (json.dumps / str() of values inside messages) and `WordChar` (the characters Python's
  `\w` matches and `repr` prints literally — needed to say which unknown keys the regular expression
  in the `additionalProperties` branch recovers from jsonschema's message).
-/

namespace C20

/-! ## JSON values -/

inductive Json where
  | null
  | bool (b : Bool)
  | int (i : Int)
  | num (q : Rat)
  | str (s : String)
  | arr (xs : List Json)
  | obj (kvs : List (String × Json))
  deriving Repr, Inhabited

inductive JType | null | boolean | integer | number | string | array | object
  deriving DecidableEq, Repr

/-- `type` is a single name or a list of names. -/
inductive TypeSpec
  | single (t : JType)
  | many (ts : List JType)
  deriving DecidableEq, Repr

def JType.name : JType → String
  | .null => "null" | .boolean => "boolean" | .integer => "integer" | .number => "number"
  | .string => "string" | .array => "array" | .object => "object"

/-- Draft 2020-12 type check (jsonschema/_types.py): booleans are neither integers nor numbers; a
    float with integral value *is* an integer; every int is a number. -/
def hasType : Json → JType → Bool
  | .null, .null => true
  | .bool _, .boolean => true
  | .int _, .integer => true
  | .num q, .integer => q.den == 1
  | .int _, .number => true
  | .num _, .number => true
  | .str _, .string => true
  | .arr _, .array => true
  | .obj _, .object => true
  | _, _ => false

def typeOk (t : TypeSpec) (j : Json) : Bool :=
  match t with
  | .single t => hasType j t
  | .many ts => ts.any (hasType j)

/-- the numeric value of an `int` / `float` instance (`is_type(instance, "number")`) -/
def numVal : Json → Option Rat
  | .int i => some (i : Rat)
  | .num q => some q
  | _ => none

def lookup (k : String) : List (String × Json) → Option Json
  | [] => none
  | (k', v) :: r => if k' = k then some v else lookup k r

def keysOf (kvs : List (String × Json)) : List String := kvs.map Prod.fst

def hasKey (j : Json) (k : String) : Bool :=
  match j with
  | .obj kvs => (keysOf kvs).contains k
  | _ => false

/-- `jsonschema._utils.equal`: `1 == 1.0`, `True != 1`, sequences elementwise, mappings by key. -/
def jsonEq : Json → Json → Bool
  | .null, .null => true
  | .bool a, .bool b => a == b
  | .int a, .int b => a == b
  | .int a, .num b => decide ((a : Rat) = b)
  | .num a, .int b => decide (a = (b : Rat))
  | .num a, .num b => decide (a = b)
  | .str a, .str b => a == b
  | .arr a, .arr b => arrEq a b
  | .obj a, .obj b => a.length == b.length && objSub a b
  | _, _ => false
where
  arrEq : List Json → List Json → Bool
    | [], [] => true
    | x :: xs, y :: ys => jsonEq x y && arrEq xs ys
    | _, _ => false
  objSub : List (String × Json) → List (String × Json) → Bool
    | [], _ => true
    | (k, v) :: r, b => objFind k v b && objSub r b
  objFind (k : String) (v : Json) : List (String × Json) → Bool
    | [] => false
    | (k', v') :: r => if k' = k then jsonEq v v' else objFind k v r

/-- `jsonschema._utils.uniq` on its brute-force path: no two elements `equal`. -/
def allDistinct : List Json → Bool
  | [] => true
  | x :: xs => !(xs.any (jsonEq x)) && allDistinct xs

/-! ## Patterns: a closed family with a decidable matcher and its regular-expression text -/

inductive Pattern
  /-- `^lit` -/
  | startsWith (lit : String)
  /-- `lit` (unanchored `re.search`) -/
  | contains (lit : String)
  /-- `^[0-9]+$` -/
  | digits
  /-- `^[A-Za-z_][A-Za-z0-9_]*$` -/
  | ident
  deriving DecidableEq, Repr

def reMeta : List Char := ['\\', '.', '^', '$', '*', '+', '?', '{', '}', '[', ']', '|', '(', ')']

def escapeRe (s : String) : String :=
  String.ofList (s.toList.flatMap fun c => if reMeta.contains c then ['\\', c] else [c])

def Pattern.regexText : Pattern → String
  | .startsWith l => "^" ++ escapeRe l
  | .contains l => escapeRe l
  | .digits => "^[0-9]+$"
  | .ident => "^[A-Za-z_][A-Za-z0-9_]*$"

def isPrefix : List Char → List Char → Bool
  | [], _ => true
  | _ :: _, [] => false
  | a :: as, b :: bs => a == b && isPrefix as bs

def isInfix (p : List Char) : List Char → Bool
  | [] => isPrefix p []
  | c :: cs => isPrefix p (c :: cs) || isInfix p cs

/-- Python's `$` (no MULTILINE) matches at the end and also just before one final newline. -/
def dropFinalNewline (cs : List Char) : List Char :=
  match cs.reverse with
  | '\n' :: r => r.reverse
  | _ => cs

def asciiDigit (c : Char) : Bool := '0' ≤ c && c ≤ '9'
def asciiAlpha (c : Char) : Bool := ('a' ≤ c && c ≤ 'z') || ('A' ≤ c && c ≤ 'Z')

def Pattern.matchesChars (p : Pattern) (cs : List Char) : Bool :=
  match p with
  | .startsWith l => isPrefix l.toList cs
  | .contains l => isInfix l.toList cs
  | .digits =>
    let b := dropFinalNewline cs
    !b.isEmpty && b.all asciiDigit
  | .ident =>
    match dropFinalNewline cs with
    | [] => false
    | c :: r => (asciiAlpha c || c == '_') && r.all fun d => asciiAlpha d || asciiDigit d || d == '_'

def Pattern.matches (p : Pattern) (s : String) : Bool := p.matchesChars s.toList

/-! ## Schemas -/

/-- Keywords outside `process_error`'s table. -/
inductive OtherKw | const | multipleOf | uniqueItems | not
  deriving DecidableEq, Repr

def OtherKw.name : OtherKw → String
  | .const => "const" | .multipleOf => "multipleOf" | .uniqueItems => "uniqueItems" | .not => "not"

mutual
/-- a schema object = its keywords in dict order -/
inductive Schema where
  | nil
  | cons (k : Kw) (rest : Schema)
inductive Kw where
  | type (t : TypeSpec)
  | properties (ps : Props)
  | required (ks : List String)
  | additionalBool (b : Bool)
  | additionalSchema (s : Schema)
  | items (s : Schema)
  | minimum (q : Rat)
  | maximum (q : Rat)
  | exclusiveMinimum (q : Rat)
  | minLength (n : Nat)
  | maxLength (n : Nat)
  | minItems (n : Nat)
  | maxItems (n : Nat)
  | minProperties (n : Nat)
  | maxProperties (n : Nat)
  | enum (vs : List Json)
  | pattern (p : Pattern)
  | oneOf (ss : Schemas)
  | anyOf (ss : Schemas)
  | const (v : Json)
  | multipleOf (q : Rat)
  | uniqueItems (b : Bool)
  | not (s : Schema)
inductive Props where
  | nil
  | cons (name : String) (s : Schema) (rest : Props)
inductive Schemas where
  | nil
  | cons (s : Schema) (rest : Schemas)
end

def Props.names : Props → List String
  | .nil => []
  | .cons n _ r => n :: r.names

/-- `schema.get("properties", {})` — the names the sibling `properties` keyword declares
    (`find_additional_properties`). -/
def Schema.propNames : Schema → List String
  | .nil => []
  | .cons (.properties ps) _ => ps.names
  | .cons _ r => r.propNames

/-- keys of the instance that `properties` does not declare, in instance order -/
def extrasOf (known : List String) (kvs : List (String × Json)) : List String :=
  (keysOf kvs).filter fun k => !known.contains k

/-- `[key for key in required if key not in instance]` -/
def missingOf (req : List String) (j : Json) : List String :=
  req.filter fun k => !hasKey j k

/-- exact divisibility (`multipleOf`); jsonschema uses float division for float divisors, so the
    correspondence only drives integer divisors here. -/
def isMultiple (v q : Rat) : Bool := (v / q).den == 1

/-! ### The semantics: `conforms` -/

mutual
def Schema.holds (known : List String) : Schema → Json → Bool
  | .nil, _ => true
  | .cons k r, j => k.holds known j && r.holds known j
def Kw.holds (known : List String) : Kw → Json → Bool
  | .type t, j => typeOk t j
  | .properties ps, j => match j with
    | .obj kvs => ps.hold kvs
    | _ => true
  | .required ks, j => match j with
    | .obj _ => (missingOf ks j).isEmpty
    | _ => true
  | .additionalBool b, j => match j with
    | .obj kvs => b || (extrasOf known kvs).isEmpty
    | _ => true
  | .additionalSchema s, j => match j with
    | .obj kvs => kvs.all fun kv => known.contains kv.1 || s.holds s.propNames kv.2
    | _ => true
  | .items s, j => match j with
    | .arr xs => xs.all fun x => s.holds s.propNames x
    | _ => true
  | .minimum q, j => match numVal j with
    | some v => decide (q ≤ v)
    | none => true
  | .maximum q, j => match numVal j with
    | some v => decide (v ≤ q)
    | none => true
  | .exclusiveMinimum q, j => match numVal j with
    | some v => decide (q < v)
    | none => true
  | .minLength n, j => match j with
    | .str s => decide (n ≤ s.length)
    | _ => true
  | .maxLength n, j => match j with
    | .str s => decide (s.length ≤ n)
    | _ => true
  | .minItems n, j => match j with
    | .arr xs => decide (n ≤ xs.length)
    | _ => true
  | .maxItems n, j => match j with
    | .arr xs => decide (xs.length ≤ n)
    | _ => true
  | .minProperties n, j => match j with
    | .obj kvs => decide (n ≤ kvs.length)
    | _ => true
  | .maxProperties n, j => match j with
    | .obj kvs => decide (kvs.length ≤ n)
    | _ => true
  | .enum vs, j => vs.any fun v => jsonEq v j
  | .pattern p, j => match j with
    | .str s => p.matches s
    | _ => true
  | .oneOf ss, j => ss.countValid j == 1
  | .anyOf ss, j => ss.countValid j != 0
  | .const v, j => jsonEq j v
  | .multipleOf q, j => match numVal j with
    | some v => isMultiple v q
    | none => true
  | .uniqueItems b, j => match j with
    | .arr xs => !b || allDistinct xs
    | _ => true
  | .not s, j => !s.holds s.propNames j
def Props.hold : Props → List (String × Json) → Bool
  | .nil, _ => true
  | .cons name s r, kvs =>
    (match lookup name kvs with
     | some v => s.holds s.propNames v
     | none => true) && r.hold kvs
def Schemas.countValid : Schemas → Json → Nat
  | .nil, _ => 0
  | .cons s r, j => (if s.holds s.propNames j then 1 else 0) + r.countValid j
end

/-- The value satisfies the schema (JSON-Schema semantics of the modelled keywords). -/
def conforms (s : Schema) (j : Json) : Bool := s.holds s.propNames j

/-! ## Violations -/

inductive PathElem
  | key (k : String)
  | idx (i : Nat)
  deriving DecidableEq, Repr

abbrev Path := List PathElem

/-- One error of jsonschema's `iter_errors`. `path` = `error.path` (relative to the root, or to the
    instance of the enclosing `oneOf/anyOf` for context errors). -/
inductive Violation where
  | additional (path : Path) (extras : List String) (known : List String) (inst : Json)
  | type (path : Path) (value : Json) (expected : TypeSpec)
  | minProperties (path : Path) (n : Nat) (inst : Json)
  | maxProperties (path : Path) (n : Nat) (inst : Json)
  /-- one error per missing property; all of them carry the same list and instance -/
  | required (path : Path) (req : List String) (inst : Json)
  | minimum (path : Path) (bound : Rat) (inst : Json)
  | maximum (path : Path) (bound : Rat) (inst : Json)
  | exclusiveMinimum (path : Path) (bound : Rat) (inst : Json)
  | minLength (path : Path) (n : Nat) (inst : Json)
  | maxLength (path : Path) (n : Nat) (inst : Json)
  | minItems (path : Path) (n : Nat) (inst : Json)
  | maxItems (path : Path) (n : Nat) (inst : Json)
  | enum (path : Path) (inst : Json) (allowed : List Json)
  | pattern (path : Path) (inst : Json) (p : Pattern)
  | oneOf (path : Path) (inst : Json) (context : List Violation)
  | anyOf (path : Path) (inst : Json) (context : List Violation)
  | other (path : Path) (kw : OtherKw) (inst : Json)

/-- `error.relative_path.appendleft(path)` in `Validator.descend`; context errors are not touched. -/
def Violation.pre (e : PathElem) : Violation → Violation
  | .additional p a b c => .additional (e :: p) a b c
  | .type p a b => .type (e :: p) a b
  | .minProperties p a b => .minProperties (e :: p) a b
  | .maxProperties p a b => .maxProperties (e :: p) a b
  | .required p a b => .required (e :: p) a b
  | .minimum p a b => .minimum (e :: p) a b
  | .maximum p a b => .maximum (e :: p) a b
  | .exclusiveMinimum p a b => .exclusiveMinimum (e :: p) a b
  | .minLength p a b => .minLength (e :: p) a b
  | .maxLength p a b => .maxLength (e :: p) a b
  | .minItems p a b => .minItems (e :: p) a b
  | .maxItems p a b => .maxItems (e :: p) a b
  | .enum p a b => .enum (e :: p) a b
  | .pattern p a b => .pattern (e :: p) a b
  | .oneOf p a c => .oneOf (e :: p) a c
  | .anyOf p a c => .anyOf (e :: p) a c
  | .other p a b => .other (e :: p) a b

def guardV (ok : Bool) (v : Violation) : List Violation := if ok then [] else [v]

/-- `for index in range(total): descend(instance[index], items, path=index)` -/
def itemsFrom (f : Json → List Violation) : Nat → List Json → List Violation
  | _, [] => []
  | i, x :: xs => (f x).map (Violation.pre (.idx i)) ++ itemsFrom f (i + 1) xs

/-- `for extra in extras: descend(instance[extra], aP, path=extra)` -/
def extrasFrom (known : List String) (f : Json → List Violation) : List (String × Json) → List Violation
  | [] => []
  | (k, v) :: r =>
    (if known.contains k then [] else (f v).map (Violation.pre (.key k))) ++ extrasFrom known f r

mutual
def Schema.viol (known : List String) : Schema → Json → List Violation
  | .nil, _ => []
  | .cons k r, j => k.viol known j ++ r.viol known j
def Kw.viol (known : List String) : Kw → Json → List Violation
  | .type t, j => guardV (typeOk t j) (.type [] j t)
  | .properties ps, j => match j with
    | .obj kvs => ps.viol kvs
    | _ => []
  | .required ks, j => match j with
    | .obj _ => (missingOf ks j).map fun _ => .required [] ks j
    | _ => []
  | .additionalBool b, j => match j with
    | .obj kvs => guardV (b || (extrasOf known kvs).isEmpty) (.additional [] (extrasOf known kvs) known j)
    | _ => []
  | .additionalSchema s, j => match j with
    | .obj kvs => extrasFrom known (s.viol s.propNames) kvs
    | _ => []
  | .items s, j => match j with
    | .arr xs => itemsFrom (s.viol s.propNames) 0 xs
    | _ => []
  | .minimum q, j => match numVal j with
    | some v => guardV (decide (q ≤ v)) (.minimum [] q j)
    | none => []
  | .maximum q, j => match numVal j with
    | some v => guardV (decide (v ≤ q)) (.maximum [] q j)
    | none => []
  | .exclusiveMinimum q, j => match numVal j with
    | some v => guardV (decide (q < v)) (.exclusiveMinimum [] q j)
    | none => []
  | .minLength n, j => match j with
    | .str s => guardV (decide (n ≤ s.length)) (.minLength [] n j)
    | _ => []
  | .maxLength n, j => match j with
    | .str s => guardV (decide (s.length ≤ n)) (.maxLength [] n j)
    | _ => []
  | .minItems n, j => match j with
    | .arr xs => guardV (decide (n ≤ xs.length)) (.minItems [] n j)
    | _ => []
  | .maxItems n, j => match j with
    | .arr xs => guardV (decide (xs.length ≤ n)) (.maxItems [] n j)
    | _ => []
  | .minProperties n, j => match j with
    | .obj kvs => guardV (decide (n ≤ kvs.length)) (.minProperties [] n j)
    | _ => []
  | .maxProperties n, j => match j with
    | .obj kvs => guardV (decide (kvs.length ≤ n)) (.maxProperties [] n j)
    | _ => []
  | .enum vs, j => guardV (vs.any fun v => jsonEq v j) (.enum [] j vs)
  | .pattern p, j => match j with
    | .str s => guardV (p.matches s) (.pattern [] j p)
    | _ => []
  /- jsonschema `oneOf`: no branch valid -> one error whose context is every branch's errors;
     more than one valid -> one error without context. -/
  | .oneOf ss, j =>
    let n := (ss.branchViol j).filter List.isEmpty |>.length
    if n == 0 then [.oneOf [] j (ss.branchViol j).flatten]
    else if n == 1 then []
    else [.oneOf [] j []]
  | .anyOf ss, j =>
    let n := (ss.branchViol j).filter List.isEmpty |>.length
    if n == 0 then [.anyOf [] j (ss.branchViol j).flatten] else []
  | .const v, j => guardV (jsonEq j v) (.other [] .const j)
  | .multipleOf q, j => match numVal j with
    | some v => guardV (isMultiple v q) (.other [] .multipleOf j)
    | none => []
  | .uniqueItems b, j => match j with
    | .arr xs => guardV (!b || allDistinct xs) (.other [] .uniqueItems j)
    | _ => []
  | .not s, j => guardV (!(s.viol s.propNames j).isEmpty) (.other [] .not j)
def Props.viol : Props → List (String × Json) → List Violation
  | .nil, _ => []
  | .cons name s r, kvs =>
    (match lookup name kvs with
     | some v => (s.viol s.propNames v).map (Violation.pre (.key name))
     | none => []) ++ r.viol kvs
def Schemas.branchViol : Schemas → Json → List (List Violation)
  | .nil, _ => []
  | .cons s r, j => s.viol s.propNames j :: r.branchViol j
end

/-- every error `iter_errors` yields for the root instance -/
def violations (s : Schema) (j : Json) : List Violation := s.viol s.propNames j

/-- the errors together with everything reachable through `context` — what `best_match` can return -/
def closure : List Violation → List Violation
  | [] => []
  | v :: vs =>
    (match v with
     | .oneOf _ _ c => v :: closure c
     | .anyOf _ _ c => v :: closure c
     | _ => [v]) ++ closure vs

/-! ## `process_error` -/

inductive ErrClass
  | validation       -- SigoptValidationError itself
  | invalidKey       -- InvalidKeyError
  | invalidType      -- InvalidTypeError
  | invalidValue     -- InvalidValueError
  | missingJsonKey   -- MissingJsonKeyError
  deriving DecidableEq, Repr

def ErrClass.name : ErrClass → String
  | .validation => "SigoptValidationError" | .invalidKey => "InvalidKeyError"
  | .invalidType => "InvalidTypeError" | .invalidValue => "InvalidValueError"
  | .missingJsonKey => "MissingJsonKeyError"

/-- what the error object exposes as `invalid_key` / `missing_json_key` -/
inductive Exposed
  | notExposed                 -- the class has no such attribute
  | key (k : Option String)    -- the attribute's value (`None` possible in the code)
  | unspecified                -- depends on the regular expression applied to a non-identifier key
  deriving DecidableEq, Repr

structure LibError where
  cls : ErrClass
  msg : String
  key : Exposed := .notExposed
  value : Option Json := none          -- InvalidTypeError.value
  expectedType : Option String := none -- InvalidTypeError.expected_type

/-- Stringification done by Python inside messages; arbitrary (the theorems hold for every choice). -/
structure Render where
  dumps : Json → String          -- json.dumps(e.instance)
  str : Json → String            -- f"{e.instance}"
  num : Rat → String             -- f"{e.validator_value}" of a bound
  keys : List String → String    -- the back-quoted list the regular expression recovers
  allowed : List Json → String   -- ", ".join(str(s) for s in enum if s is not None)

/-- Characters Python's `\w` matches (and `repr` prints literally). -/
abbrev WordChar := Char → Bool

def identLike (w : WordChar) (s : String) : Bool := !s.toList.isEmpty && s.toList.all w

/-- `sorted(extras, key=str)[0]`: the least key in code-point order -/
def leastKey : List String → Option String
  | [] => none
  | k :: ks => match leastKey ks with
    | none => some k
    | some m => if k < m then some k else some m

/-- `get_path_string` -/
def pathString : Path → String
  | [] => ""
  | .idx i :: r => "[" ++ toString i ++ "]" ++ pathString r
  | .key k :: r => "." ++ k ++ pathString r

/-- `str(e.schema["type"])`: a name, or Python's list repr `['a', 'b']` -/
def TypeSpec.pyStr : TypeSpec → String
  | .single t => t.name
  | .many ts => "[" ++ ", ".intercalate (ts.map fun t => "'" ++ t.name ++ "'") ++ "]"

/-- `InvalidTypeError.__init__` message -/
def typeMsg (R : Render) (p : Path) (v : Json) (t : TypeSpec) : String :=
  let sep := ": " ++ R.dumps v ++ " - "
  if p.isEmpty then "Invalid type" ++ sep ++ "expected type " ++ t.pyStr
  else "Invalid type for " ++ pathString p ++ sep ++ "expected type " ++ t.pyStr

/-- The decision table of `process_error`. Recursion through `context[0]` is structural. -/
def translate (R : Render) (w : WordChar) : Violation → LibError
  | .additional _ extras _ inst =>
    { cls := .invalidKey
      msg := "Unknown json keys " ++ R.keys extras ++ " in: " ++ R.dumps inst
      key := if extras.all (identLike w) then .key (leastKey extras) else .unspecified }
  | .type p v t =>
    { cls := .invalidType, msg := typeMsg R p v t, value := some v, expectedType := some t.pyStr }
  | .minProperties _ n inst =>
    { cls := .validation, msg := "Expected at least " ++ toString n ++ " keys in " ++ R.dumps inst }
  | .maxProperties _ n inst =>
    { cls := .validation, msg := "Expected at most " ++ toString n ++ " keys in " ++ R.dumps inst }
  | .required _ req inst =>
    let k := (missingOf req inst).head?
    { cls := .missingJsonKey
      msg := "Missing required json key \"" ++ (k.getD "None") ++ "\" in: " ++ R.dumps inst
      key := .key k }
  | .minimum p q _ =>
    { cls := .invalidValue, msg := pathString p ++ " must be greater than or equal to " ++ R.num q }
  | .maximum p q _ =>
    { cls := .invalidValue, msg := pathString p ++ " must be less than or equal to " ++ R.num q }
  | .exclusiveMinimum p q _ =>
    { cls := .invalidValue, msg := pathString p ++ " must be greater than " ++ R.num q }
  | .minLength p n _ =>
    { cls := .invalidValue, msg := "The length of " ++ pathString p ++ " must be greater than or equal to " ++ toString n }
  | .minItems p n _ =>
    { cls := .invalidValue, msg := "The length of " ++ pathString p ++ " must be greater than or equal to " ++ toString n }
  | .maxLength p n _ =>
    { cls := .invalidValue, msg := "The length of " ++ pathString p ++ " must be less than or equal to " ++ toString n }
  | .maxItems p n _ =>
    { cls := .invalidValue, msg := "The length of " ++ pathString p ++ " must be less than or equal to " ++ toString n }
  | .enum _ inst vs =>
    { cls := .validation, msg := R.str inst ++ " is not one of the allowed values: " ++ R.allowed vs }
  | .pattern _ inst p =>
    { cls := .validation, msg := R.str inst ++ " does not match the regular expression /" ++ p.regexText ++ "/" }
  | .oneOf _ _ (c :: _) => translate R w c
  | .anyOf _ _ (c :: _) => translate R w c
  | .oneOf _ _ [] => { cls := .validation, msg := "Error has no context but it is oneOf or anyOf" }
  | .anyOf _ _ [] => { cls := .validation, msg := "Error has no context but it is oneOf or anyOf" }
  | .other _ kw inst =>
    { cls := .validation, msg := "Unrecognized error " ++ kw.name ++ " parsing json: " ++ R.dumps inst }

/-- everything `validate` may raise for an invalid value: `process_error` of whatever error
    `best_match` picks (a top-level error or one reached through contexts) -/
def admissible (R : Render) (w : WordChar) (s : Schema) (j : Json) : List LibError :=
  (closure (violations s j)).map (translate R w)

/-- keyword name of a violation (branch histogram) -/
def Violation.kw : Violation → String
  | .additional .. => "additionalProperties" | .type .. => "type"
  | .minProperties .. => "minProperties" | .maxProperties .. => "maxProperties"
  | .required .. => "required" | .minimum .. => "minimum" | .maximum .. => "maximum"
  | .exclusiveMinimum .. => "exclusiveMinimum" | .minLength .. => "minLength"
  | .maxLength .. => "maxLength" | .minItems .. => "minItems" | .maxItems .. => "maxItems"
  | .enum .. => "enum" | .pattern .. => "pattern"
  | .oneOf _ _ [] => "oneOf-nocontext" | .oneOf .. => "oneOf"
  | .anyOf .. => "anyOf" | .other _ k _ => k.name

def Violation.path : Violation → Path
  | .additional p .. | .type p .. | .minProperties p .. | .maxProperties p .. | .required p ..
  | .minimum p .. | .maximum p .. | .exclusiveMinimum p .. | .minLength p .. | .maxLength p ..
  | .minItems p .. | .maxItems p .. | .enum p .. | .pattern p .. | .oneOf p .. | .anyOf p ..
  | .other p .. => p

/-- the leaf `process_error` ends at (follows `context[0]`) -/
def Violation.leaf : Violation → Violation
  | .oneOf _ _ (c :: _) => c.leaf
  | .anyOf _ _ (c :: _) => c.leaf
  | v => v

/-- the violation really is a failing keyword instance on the instance it carries (decidable
    restatement of each keyword's failure; `oneOf/anyOf/other` carry no local claim) -/
def Violation.genuine : Violation → Bool
  | .additional _ extras known inst =>
    !extras.isEmpty && extras.all fun k => hasKey inst k && !known.contains k
  | .type _ v t => !typeOk t v
  | .minProperties _ n inst => match inst with
    | .obj kvs => decide (kvs.length < n)
    | _ => false
  | .maxProperties _ n inst => match inst with
    | .obj kvs => decide (n < kvs.length)
    | _ => false
  | .required _ req inst => !(missingOf req inst).isEmpty
  | .minimum _ q inst => match numVal inst with
    | some v => decide (v < q)
    | none => false
  | .maximum _ q inst => match numVal inst with
    | some v => decide (q < v)
    | none => false
  | .exclusiveMinimum _ q inst => match numVal inst with
    | some v => decide (v ≤ q)
    | none => false
  | .minLength _ n inst => match inst with
    | .str s => decide (s.length < n)
    | _ => false
  | .maxLength _ n inst => match inst with
    | .str s => decide (n < s.length)
    | _ => false
  | .minItems _ n inst => match inst with
    | .arr xs => decide (xs.length < n)
    | _ => false
  | .maxItems _ n inst => match inst with
    | .arr xs => decide (n < xs.length)
    | _ => false
  | .enum _ inst vs => !(vs.any fun v => jsonEq v inst)
  | .pattern _ inst p => match inst with
    | .str s => !p.matches s
    | _ => false
  | .oneOf .. => true
  | .anyOf .. => true
  | .other .. => true

/-- `validate` as a function: `pick` stands for jsonschema's `best_match` (which of the simultaneous
    errors is reported is third-party behaviour; its only contract is `pick l ∈ closure l`). -/
def validateModel (pick : List Violation → Violation) (R : Render) (w : WordChar) (s : Schema) (j : Json) :
    Option LibError :=
  if (violations s j).isEmpty then none else some (translate R w (pick (violations s j)))

end C20
