/-
  A small arithmetic signature shared by the "transcendental" models (kernels, EI, probabilities,
  densities, search distances).  The same definitions are instantiated at `Float` (executable, used
  by the drivers) and at `ℝ` (Proofs/ArithReal.lean, noncomputable, used by the theorems).
-/

class Arith (α : Type) extends Add α, Sub α, Mul α, Div α, Neg α, LT α, LE α where
  zero : α
  one : α
  ofNat : Nat → α
  exp : α → α
  sqrt : α → α
  log : α → α
  max : α → α → α
  min : α → α → α
  decLt : (a b : α) → Decidable (a < b)
  decLe : (a b : α) → Decidable (a ≤ b)

namespace Arith
instance {α} [Arith α] (a b : α) : Decidable (a < b) := Arith.decLt a b
instance {α} [Arith α] (a b : α) : Decidable (a ≤ b) := Arith.decLe a b
instance {α} [Arith α] : OfNat α 0 := ⟨Arith.zero⟩
instance {α} [Arith α] : OfNat α 1 := ⟨Arith.one⟩
instance {α} [Arith α] : Inhabited α := ⟨Arith.zero⟩

/-- sum of a list, left to right from zero -/
def sum {α} [Arith α] : List α → α
  | [] => 0
  | x :: xs => x + sum xs

def prod {α} [Arith α] : List α → α
  | [] => 1
  | x :: xs => x * prod xs
end Arith

instance : Arith Float where
  zero := 0.0
  one := 1.0
  ofNat := Float.ofNat
  exp := Float.exp
  sqrt := Float.sqrt
  log := Float.log
  max a b := if a < b then b else a
  min a b := if b < a then b else a
  decLt a b := Float.decLt a b
  decLe a b := Float.decLe a b
