/- JSON codec for the shared domain model (used by the C01 driver; C09's driver carries its own copy). -/
import Model.Codec
import Model.Domain
open Lean Codec Dom

namespace DomainCodec

def compOfJson (j : Json) : Except String Component := do
  let t ← str j "t"
  let e ← rats j "e"
  match t, e with
  | "double", [lo, hi] => pure (.double lo hi)
  | "int", [lo, hi] => pure (.int lo hi)
  | "cat", es => pure (.cat es)
  | "grid", es => pure (.grid es)
  | _, _ => throw s!"bad component {j.compress}"

def conOfJson (j : Json) : Except String Constraint := do
  pure { weights := ← rats j "w", rhs := ← rat j "rhs", isInt := ← bool j "int" }

def domOf (j : Json) : Except String Domain := do
  let cs ← listOfJson compOfJson (← field j "comps")
  let cons ← listOfJson conOfJson (fieldD j "cons" (Json.arr #[]))
  pure { comps := cs, cons := cons }

end DomainCodec
