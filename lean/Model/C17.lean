/-
  C17 — the factor used for posterior sampling
  (libsigopt/compute/python_utils.py: compute_cholesky_for_gp_sampling, used by
   gaussian_process.py / gaussian_process_sum.py: draw_posterior_samples_of_points and
   expected_improvement.py: ExpectedParallelImprovement._evaluate_at_point_list).

  Exact model over `Rat` lists.  A Python float is a dyadic rational, so the driver sees exactly the
  numbers the library produced.  Third-party results (scipy `cholesky`, `svd`, `qr`, numpy `sqrt`)
  are ORACLE arguments; theorems quantify over every oracle that meets its contract.

  What the code does (and the model mirrors, quirk included):

      try:    chol_cov = cholesky(covariance_matrix, lower=True, overwrite_a=<flag>)
      except: U, E, _ = svd(covariance_matrix)          # <- reads the SAME BUFFER again
              chol_cov = U * sqrt(E)[None, :]
              chol_cov = qr(chol_cov.T, mode="r")[0].T

  With `overwrite_a=True` the failed Cholesky attempt may have scribbled over the buffer, so what `svd`
  receives is `buffer`, not the covariance.  `svdInput` makes that explicit.
-/

namespace C17

abbrev Vec := List Rat
abbrev Mat := List (List Rat)

/-- entry (i, j); 0 outside the stored shape -/
def entry (a : Mat) (i j : Nat) : Rat := (a.getD i []).getD j 0

def dot : Vec → Vec → Rat
  | x :: xs, y :: ys => x * y + dot xs ys
  | _, _ => 0

/-- `a · bᵀ` (rows of `a` against rows of `b`) -/
def mulT (a b : Mat) : Mat := a.map fun r => b.map fun c => dot r c

def col (a : Mat) (j : Nat) : Vec := a.map fun r => r.getD j 0

/-- transpose of a matrix with `n` columns -/
def transpose (n : Nat) (a : Mat) : Mat := (List.range n).map (col a)

/-- `a · b` where `b` has `n` columns -/
def mul (n : Nat) (a b : Mat) : Mat := mulT a (transpose n b)

/-- `L · Lᵀ` -/
def llt (l : Mat) : Mat := mulT l l

def sub (a b : Mat) : Mat := List.zipWith (fun r s => List.zipWith (fun x y => x - y) r s) a b

def rabs (x : Rat) : Rat := if x < 0 then -x else x

/-- largest absolute entry (0 for the empty matrix) -/
def maxAbs (a : Mat) : Rat := (a.flatten.map rabs).foldl max 0

def identity (n : Nat) : Mat :=
  (List.range n).map fun i => (List.range n).map fun j => if i = j then (1 : Rat) else 0

/-- `u * s[None, :]`: column `j` of `u` multiplied by `s[j]` -/
def scaleCols (u : Mat) (s : Vec) : Mat := u.map fun r => List.zipWith (fun x y => x * y) r s

def isShape (n m : Nat) (a : Mat) : Bool := a.length == n && a.all fun r => r.length == m

def isSymm (n : Nat) (a : Mat) : Bool :=
  (List.range n).all fun i => (List.range n).all fun j => entry a i j == entry a j i

def isLower (n : Nat) (a : Mat) : Bool :=
  (List.range n).all fun i => (List.range n).all fun j => decide (j ≤ i) || entry a i j == 0

/-- `max |a − aᵀ|` over the `n × n` block -/
def asym (n : Nat) (a : Mat) : Rat := maxAbs (sub a (transpose n a))

/-- the residual the property is about: `max |L Lᵀ − Σ|` -/
def residual (l sigma : Mat) : Rat := maxAbs (sub (llt l) sigma)

/-! ### The function -/

/-- What `scipy.linalg.cholesky(a, lower=True, overwrite_a=…)` did: it returned a factor or raised
    `LinAlgError` (`none`); `buffer` is the content of the argument's memory afterwards. -/
structure CholOutcome where
  factor : Option Mat
  buffer : Mat

/-- Third-party calls as oracles. -/
structure Oracles where
  chol : Mat → CholOutcome
  /-- `scipy.linalg.svd(a)` ↦ `(U, E)`; the code discards `Vᵀ` -/
  svd : Mat → Mat × Vec
  /-- `numpy.sqrt` on one singular value -/
  sqrt : Rat → Rat
  /-- `scipy.linalg.qr(b, mode="r")[0]` -/
  qrR : Mat → Mat

/-- The matrix the `except` branch hands to `svd`: the same buffer the Cholesky attempt was allowed
    (`overwrite = true`) or not allowed (`false`) to destroy. -/
def svdInput (overwrite : Bool) (sigma : Mat) (c : CholOutcome) : Mat :=
  if overwrite then c.buffer else sigma

/-- `U * numpy.sqrt(E)[None, :]` -/
def fallbackB (o : Oracles) (u : Mat) (e : Vec) : Mat := scaleCols u (e.map o.sqrt)

/-- `compute_cholesky_for_gp_sampling(covariance_matrix)`; `overwrite` is the value of the
    `overwrite_a` keyword of the Cholesky attempt in the source under check. -/
def sampleFactor (o : Oracles) (overwrite : Bool) (sigma : Mat) : Mat :=
  let n := sigma.length
  let c := o.chol sigma
  match c.factor with
  | some l => l
  | none =>
    let ue := o.svd (svdInput overwrite sigma c)
    let b := fallbackB o ue.1 ue.2
    transpose n (o.qrR (transpose n b))

/-! ### Use of the factor -/

/-- `mean + L z` for one draw `z` (`numpy.dot(L, z_samples)` column, `tensordot` slice in parallel EI) -/
def sample (mean : Vec) (l : Mat) (z : Vec) : Vec :=
  List.zipWith (fun m r => m + dot r z) mean l

/-- `GaussianProcessSum.compute_covariance_of_points`: `Σ_g w_g² Σ_g` (entry `(i, j)`). -/
def sumCovEntry (comps : List (Rat × Mat)) (i j : Nat) : Rat :=
  comps.foldr (fun p acc => p.1 * p.1 * entry p.2 i j + acc) 0

end C17
