/-
  C11 — hyperparameter fitting.

  Code modelled (read from the source, quirks included):
    * compute/gaussian_process.py  GaussianProcess.build_precomputed_data / fit_nonzero_gp_mean_function
        K = kernel + diag(noise)   (noise = the fitted nugget on every diagonal entry when one is given,
        else the per-observation noise variance), K⁻¹y, β = (PᵀK⁻¹P)⁻¹PᵀK⁻¹y, demeaned_y = y − Pβ,
        K_inv_demeaned_y = K⁻¹y − K⁻¹(Pβ)
    * compute/log_likelihood.py    compute_log_likelihood = −s·(demeaned_y·K_inv_demeaned_y + 2·Σ log Lᵢᵢ)
        (no factor ½, no n·log 2π), get/set_hyperparameters with the log-domain flag and the nugget as
        the last entry, the initial nugget DEFAULT_TIKHONOV_PARAMETER
    * views/rest/gp_hyper_opt_multimetric.py  form_one_hot_hyperparameter_domain (the search box),
        should_skip_hyperopt, view (per-metric loop), call_hyperopt_per_metric (unpacking of the result)
    * compute/optimization.py      MultistartOptimizer.optimize (which end point is returned)

  Exact part over `Rat` (import-free apart from the shared domain model and generated constants);
  `exp`/`log` only through `[Arith α]` (Float in the driver, ℝ in the theorems).
  Third-party results (SLSQP end points, success flags, objective values) are oracle arguments.
-/
import Model.Arith
import Model.Domain
import Model.C09
import Model.Generated.Constants

namespace C11
open Dom

/-! ## 1. Exact linear algebra on lists (row-major) -/

abbrev Vec := List Rat
abbrev Mat := List (List Rat)

def vsub (u v : Vec) : Vec := List.zipWith (· - ·) u v
def matVec (A : Mat) (v : Vec) : Vec := A.map fun row => dot row v
/-- column `j` -/
def col (B : Mat) (j : Nat) : Vec := B.map fun row => row.getD j 0
/-- transpose of a matrix with `m` columns -/
def transpose (m : Nat) (B : Mat) : Mat := (List.range m).map (col B)
/-- `A · B` where `B` has `k` columns -/
def matMul (A B : Mat) (k : Nat) : Mat :=
  A.map fun row => (List.range k).map fun j => dot row (col B j)
def identity (n : Nat) : Mat :=
  (List.range n).map fun i => (List.range n).map fun j => if i = j then 1 else 0
def diagMat (d : Vec) : Mat :=
  (List.range d.length).map fun i => (List.range d.length).map fun j => if i = j then d.getD i 0 else 0
def lprod : List Rat → Rat
  | [] => 1
  | x :: xs => x * lprod xs

/-- shape check: `n` rows of length `m` -/
def hasShape (n m : Nat) (A : Mat) : Bool := decide (A.length = n) && A.all fun r => decide (r.length = m)

/-! ### Gauss–Jordan inverse with determinant (result is *certified* by `certInv`, not trusted) -/

/-- first row of `todo` with a non-zero entry in column `k`: (rows before, pivot row, rows after) -/
def splitPivot (k : Nat) : List Vec → Option (List Vec × Vec × List Vec)
  | [] => none
  | r :: rs =>
    if r.getD k 0 ≠ 0 then some ([], r, rs)
    else (splitPivot k rs).map fun (a, p, b) => (r :: a, p, b)

/-- `r − r[k]·p` -/
def elimRow (k : Nat) (p r : Vec) : Vec :=
  let f := r.getD k 0
  List.zipWith (fun x y => x - f * y) r p

def gjLoop : Nat → Nat → List Vec → List Vec → Rat → Option (List Vec × Rat)
  | 0, _, done, _, det => some (done, det)
  | fuel + 1, k, done, todo, det =>
    match splitPivot k todo with
    | none => none
    | some (pre, r, post) =>
      let piv := r.getD k 0
      let p := r.map (· / piv)
      let sgn : Rat := if pre.length % 2 = 0 then 1 else -1
      gjLoop fuel (k + 1) (done.map (elimRow k p) ++ [p]) ((pre ++ post).map (elimRow k p)) (det * piv * sgn)

/-- inverse and determinant of an `n × n` matrix (`none` = singular) -/
def inverseDet (n : Nat) (A : Mat) : Option (Mat × Rat) :=
  let aug := (A.zip (identity n)).map fun (a, e) => a ++ e
  (gjLoop n 0 [] aug 1).map fun (rows, d) => (rows.map (·.drop n), d)

/-- run-time certificate of an inverse: `A·B = 1` (for square matrices this forces `B = A⁻¹`) -/
def certInv (n : Nat) (A B : Mat) : Bool :=
  hasShape n n A && hasShape n n B && decide (matMul A B n = identity n)

/-! ### LDLᵀ by Schur complements (certified by `certLDL`); `det = ∏ D`, all `D > 0` ⇒ positive definite -/

def ldl : Nat → Mat → Option (Mat × Vec)
  | 0, _ => some ([], [])
  | _ + 1, [] => none
  | _ + 1, [] :: _ => none
  | fuel + 1, (p :: r) :: rows =>
    if p = 0 then none
    else
      let fs := rows.map fun row => row.headD 0 / p
      let schur := (rows.zip fs).map fun (row, f) => List.zipWith (fun x y => x - f * y) row.tail r
      match ldl fuel schur with
      | none => none
      | some (L', D') =>
        some ((1 :: r.map fun _ => 0) :: (fs.zip L').map (fun (f, l) => f :: l), p :: D')

/-- `L` is unit lower triangular -/
def unitLower (n : Nat) (L : Mat) : Bool :=
  (List.range n).all fun i => (List.range n).all fun j =>
    let x := (L.getD i []).getD j 0
    if i = j then decide (x = 1) else if i < j then decide (x = 0) else true

/-- run-time certificate `A = L · diag(D) · Lᵀ` with `L` unit lower triangular -/
def certLDL (n : Nat) (A L : Mat) (D : Vec) : Bool :=
  hasShape n n A && hasShape n n L && decide (D.length = n) && unitLower n L
    && decide (matMul (matMul L (diagMat D) n) (transpose n L) n = A)

def allPos (D : Vec) : Bool := D.all fun d => decide (0 < d)

/-! ### the matrix that is factorised (`build_precomputed_data`) -/

/-- the diagonal added to the kernel matrix: the fitted nugget on every observation when there is one,
    otherwise the per-observation noise variances -/
def noiseDiag (tik : Option Rat) (noise : Vec) : Vec :=
  match tik with
  | some t => noise.map fun _ => t
  | none => noise

def addDiagFrom : Nat → Mat → Vec → Mat
  | _, [], _ => []
  | _, rows, [] => rows
  | i, row :: rows, d :: ds =>
    ((List.range row.length).map fun j => if j = i then row.getD j 0 + d else row.getD j 0) :: addDiagFrom (i + 1) rows ds

/-- kernel Gram matrix plus the noise diagonal -/
def kernelPlusNoise (G : Mat) (tik : Option Rat) (noise : Vec) : Mat := addDiagFrom 0 G (noiseDiag tik noise)

/-! ## 2. GLS mean fit and the quadratic form (`fit_nonzero_gp_mean_function`) -/

structure Gls where
  beta : Vec
  resid : Vec        -- demeaned_y
  kinvResid : Vec    -- K_inv_demeaned_y, computed as the code does: K⁻¹y − K⁻¹(Pβ)
  quad : Rat         -- numpy.dot(demeaned_y, K_inv_demeaned_y)
  normalInv : Mat    -- (PᵀK⁻¹P)⁻¹ (empty for a zero mean)
  deriving Repr

/-- `P` has `m` columns (`m = 0`: zero mean, `P` is never built); `Ainv` is the (certified) inverse of
    the kernel matrix; `Minv` the (certified) inverse of `PᵀA⁻¹P`. -/
def glsWith (m : Nat) (Ainv : Mat) (P : Mat) (y : Vec) (Minv : Mat) : Gls :=
  let kinvY := matVec Ainv y
  if m = 0 then
    { beta := [], resid := y, kinvResid := kinvY, quad := dot y kinvY, normalInv := [] }
  else
    let Pt := transpose m P
    let beta := matVec Minv (matVec Pt kinvY)
    let mean := matVec P beta
    let r := vsub y mean
    let kr := vsub kinvY (matVec Ainv mean)
    { beta := beta, resid := r, kinvResid := kr, quad := dot r kr, normalInv := Minv }

/-- the GLS normal matrix `PᵀA⁻¹P` -/
def normalMat (m : Nat) (Ainv P : Mat) : Mat :=
  matMul (transpose m P) (matMul Ainv P m) m

def gls (m : Nat) (Ainv P : Mat) (y : Vec) : Option Gls :=
  if m = 0 then some (glsWith 0 Ainv P y [])
  else
    match inverseDet m (normalMat m Ainv P) with
    | none => none
    | some (Minv, _) =>
      if certInv m (normalMat m Ainv P) Minv then some (glsWith m Ainv P y Minv) else none

/-- residual orthogonality `Pᵀ K⁻¹ r`, evaluated exactly (must be the zero vector) -/
def normalResidual (m : Nat) (Ainv P : Mat) (g : Gls) : Vec :=
  matVec (transpose m P) (matVec Ainv g.resid)

/-! ## 3. Assembly of the value (`compute_log_likelihood`) -/

def adot {α} [Arith α] : List α → List α → α
  | x :: xs, y :: ys => x * y + adot xs ys
  | _, _ => 0

/-- exactly the expression of the code, from the residual, `K⁻¹r` and the diagonal of the Cholesky factor:
    `-self.scaling_factor * (numpy.dot(y_Pb, Kinvy_Pb) + 2 * numpy.sum(numpy.log(L.diagonal())))` -/
def llCode {α} [Arith α] (s : α) (r kinvr ldiag : List α) : α :=
  (-s) * (adot r kinvr + Arith.ofNat 2 * Arith.sum (ldiag.map Arith.log))

/-- the documented value from the quadratic form and `log det K` -/
def llOfLog {α} [Arith α] (s quad logdet : α) : α := -(s * (quad + logdet))
def llSpec {α} [Arith α] (s quad det : α) : α := llOfLog s quad (Arith.log det)

/-- `scaling_factor <= 0` is rejected by the constructor -/
def scaleOK (s : Rat) : Bool := decide (0 < s)

/-! ## 4. Hyperparameters: `get_hyperparameters` / `set_hyperparameters` -/

/-- `get_hyperparameters`: covariance hyperparameters, then the nugget when it is fitted; logs in log mode -/
def getHyper {α} [Arith α] (logDomain autoNoise : Bool) (cov : List α) (tik : α) : List α :=
  let h := if autoNoise then cov ++ [tik] else cov
  if logDomain then h.map Arith.log else h

/-- `set_hyperparameters`: `none` = ValueError (wrong length).  Returns the covariance hyperparameters
    (`hp[: dim + 1]`) and the nugget (`hp[-1]` when fitted). -/
def setHyper {α} [Arith α] (logDomain autoNoise : Bool) (dim : Nat) (h : List α) :
    Option (List α × Option α) :=
  if h.length ≠ dim + 1 + (if autoNoise then 1 else 0) then none
  else
    let lin := if logDomain then h.map Arith.exp else h
    some (lin.take (dim + 1), if autoNoise then lin.getLast? else none)

/-- the objective as a function of the optimiser's vector: `F` is "build the GP at these linear-domain
    hyperparameters and evaluate the likelihood" (kernel = C03, posterior pieces = sections 1–3). -/
def evalAt {α β} [Arith α] (F : List α → Option α → β) (logDomain autoNoise : Bool) (dim : Nat) (x : List α) :
    Option β :=
  (setHyper logDomain autoNoise dim x).map fun (c, t) => F c t

/-! ## 5. The search box (`form_one_hot_hyperparameter_domain`) -/

-- literals local to the function (tied to the source by the harness, which reads them with `ast`)
abbrev alphaLoF : Rat := 1 / 1000
abbrev alphaHiF : Rat := 10
abbrev catHi : Rat := 101 / 100
abbrev lsLoF : Rat := 1 / 1000
abbrev lsHiF : Rat := 1
abbrev tikLoF : Rat := 1 / 10000
abbrev tikHiF : Rat := 100
-- module-level constants, regenerated from the source
abbrev taskLo : Rat := Gen.compute_misc_constant_TASK_LENGTH_LOWER_BOUND
abbrev gridLoF : Rat := Gen.compute_misc_constant_QUANTIZED_LENGTH_SCALE_LOWER_FACTOR
abbrev minVar : Rat := Gen.aux_constant_MINIMUM_VALUE_VAR
abbrev defaultTik : Rat := Gen.compute_log_likelihood_DEFAULT_TIKHONOV_PARAMETER

def lsum : List Rat → Rat
  | [] => 0
  | x :: xs => x + lsum xs

/-- `numpy.var` (population variance); `NaN` for no data is replaced by the floor -/
def sampleVar (vals : List Rat) : Rat :=
  match vals with
  | [] => minVar
  | _ =>
    let n : Rat := vals.length
    let mean := lsum vals / n
    max (lsum (vals.map fun v => (v - mean) * (v - mean)) / n) minVar

/-- `numpy.diff` -/
def diffs : List Rat → List Rat
  | a :: b :: t => (b - a) :: diffs (b :: t)
  | _ => []

/-- rows contributed by one parameter; `dll` = discrete lower limit of the kernel -/
def compRows (dll : Rat) : Component → List (Rat × Rat)
  | .cat es => List.replicate es.length (dll, catHi)
  | .double lo hi => [(lsLoF * (hi - lo), lsHiF * (hi - lo))]
  | .int lo hi => [(max dll (lsLoF * (hi - lo)), lsHiF * (hi - lo))]
  | .grid es =>
    let w := es.getLastD 0 - es.headD 0
    [(max (gridLoF * lmin (diffs es)) (lsLoF * w), lsHiF * w)]

def lsRows (dll : Rat) : List Component → List (Rat × Rat)
  | [] => []
  | c :: cs => compRows dll c ++ lsRows dll cs

def hyperBox (cs : List Component) (vals : List Rat) (autoNoise : Bool) (dll : Rat) (tasks : Bool) :
    List (Rat × Rat) :=
  let v := sampleVar vals
  [(alphaLoF * v, alphaHiF * v)] ++ lsRows dll cs
    ++ (if tasks then [(taskLo, catHi)] else [])
    ++ (if autoNoise then [(tikLoF * v, tikHiF * v)] else [])

/-- every row is a usable interval -/
def boxWF (b : List (Rat × Rat)) : Bool := b.all fun (lo, hi) => decide (0 < lo) && decide (lo < hi)

/-- strictly increasing (what `bounds[-1] - bounds[0]` and `min(diff)` silently assume of a grid) -/
def strictSorted : List Rat → Bool
  | a :: b :: t => decide (a < b) && strictSorted (b :: t)
  | _ => true

def compSorted : Component → Bool
  | .grid es => strictSorted es
  | _ => true

def gridsSorted (cs : List Component) : Bool := cs.all compSorted

/-! ## 6. Packing (`form_one_hot_covariance_base` + initial nugget) and unpacking (`call_hyperopt_per_metric`) -/

structure Hyper where
  alpha : Rat
  ls : List (List Rat)
  task : Option Rat
  tik : Option Rat
  deriving Repr, DecidableEq

def optList : Option Rat → List Rat
  | none => []
  | some x => [x]

/-- the optimiser's vector for a record -/
def pack (cs : List Component) (h : Hyper) : List Rat :=
  h.alpha :: (C09.lsToOneHot cs (h.ls.map fun l => l.map some) ++ optList h.task ++ optList h.tik)

/-- the first start of the multistart: the supplied record (missing categorical length scales default to 1)
    with the nugget replaced by `DEFAULT_TIKHONOV_PARAMETER` — the likelihood object is constructed with that
    value and `current_point` reads it back. -/
def startVector (cs : List Component) (alpha : Rat) (ls : List (List (Option Rat))) (task : Option Rat)
    (tikGiven : Bool) : List Rat :=
  alpha :: (C09.lsToOneHot cs ls ++ optList task ++ (if tikGiven then [defaultTik] else []))

/-- `call_hyperopt_per_metric` after the optimiser: `pop(0)`, `pop(-1)` if a nugget is fitted, regroup the
    length scales by index (the trailing task length is still in the list and is ignored), `pop(-1)` if
    multitask. -/
def unpack (cs : List Component) (tasks autoNoise : Bool) (v : List Rat) : Hyper :=
  let alpha := v.headD 0
  let rest := v.tail
  let tik := if autoNoise then rest.getLast? else none
  let rest := if autoNoise then rest.dropLast else rest
  { alpha := alpha
    ls := C09.lsToCategorical cs rest
    task := if tasks then rest.getLast? else none
    tik := tik }

/-- the structure the property asks of a returned record -/
def structureOK (cs : List Component) (tasks autoNoise : Bool) (h : Hyper) : Bool :=
  decide (h.ls.map List.length = cs.map Component.width)
    && (h.task.isSome == tasks) && (h.tik.isSome == autoNoise)

def vecLen (cs : List Component) (tasks autoNoise : Bool) : Nat :=
  1 + totalWidth cs + (if tasks then 1 else 0) + (if autoNoise then 1 else 0)

/-! ## 7. The per-metric loop of `view` -/

/-- `numpy.ptp(values) <= MINIMUM_VALUE_VAR` (`should_skip_hyperopt`; an empty array raises in numpy and is
    excluded by the endpoint's own precondition of at least one success) -/
def shouldSkip (vals : List Rat) : Bool :=
  match vals with
  | [] => true
  | x :: xs => decide (xs.foldl max x - xs.foldl min x ≤ minVar)

/-- `values[numpy.logical_not(failures)]` -/
def successes {α} : List α → List Bool → List α
  | v :: vs, f :: fs => if f then successes vs fs else v :: successes vs fs
  | _, _ => []

/-- A fitting job: which metric record it overwrites and the data it is fitted on. -/
structure Job where
  index : Nat
  points : List (List Rat)
  values : List Rat
  vars : List Rat
  deriving Repr

/-- jobs in the order of the code: optimised metrics, then constraint metrics; `scaled`/`svars` hold one
    column per metric index (the metric's own scaled values / variances over all observations). -/
def jobs (optIdx conIdx : List Nat) (pts : List (List Rat)) (scaled svars : List (List Rat))
    (fails : List Bool) : List Job :=
  (optIdx ++ conIdx).map fun i =>
    { index := i, points := successes pts fails,
      values := successes (scaled.getD i []) fails, vars := successes (svars.getD i []) fails }

/-- `view`: `fit` is the whole optimisation of one metric (all optimiser randomness), applied to the
    *original* record of that metric; skipped jobs leave the copy alone. -/
def viewUpdate {H} (orig : List H) (fit : Job → H → H) : List H → List Job → List H
  | hs, [] => hs
  | hs, j :: js =>
    if shouldSkip j.values then viewUpdate orig fit hs js
    else
      match orig[j.index]? with
      | none => viewUpdate orig fit hs js   -- IndexError in the code; excluded by schema validation
      | some h => viewUpdate orig fit (hs.set j.index (fit j h)) js

def view {H} (orig : List H) (fit : Job → H → H) (js : List Job) : List H := viewUpdate orig fit orig js

/-! ## 8. `MultistartOptimizer.optimize`: which point is returned -/

/-- an IEEE double as far as `>` and `isnan` are concerned -/
inductive FVal where
  | nan | ninf | fin (q : Rat) | pinf
  deriving Repr, DecidableEq

namespace FVal
def neg : FVal → FVal
  | nan => nan | ninf => pinf | pinf => ninf | fin q => fin (-q)
/-- IEEE `a > b` -/
def gt : FVal → FVal → Bool
  | nan, _ => false | _, nan => false
  | ninf, _ => false
  | fin _, ninf => true | fin a, fin b => decide (b < a) | fin _, pinf => false
  | pinf, pinf => false | pinf, _ => true
def isNan : FVal → Bool
  | nan => true | _ => false
end FVal

/-- what one inner optimisation did (third-party: an oracle argument) -/
structure Run where
  start : List Rat
  stop : List Rat      -- `objective_function.current_point` after the run
  raised : Bool        -- numpy.linalg.LinAlgError
  fn : FVal            -- optimization_results.fun  (already negated by the scipy wrapper)
  success : Bool       -- optimization_results.success
  deriving Repr

structure MS where
  best : Option (List Rat)
  bestVal : FVal
  n : Nat
  nsucc : Nat
  deriving Repr

def msInit : MS := { best := none, bestVal := .ninf, n := 0, nsucc := 0 }

/-- `max(MINIMUM_SUCCESSFUL_MULTISTARTS_NUMBER, floor(MINIMUM_SUCCESSFUL_MULTISTARTS_FRACTION * num_multistarts))` -/
def minSuccesses (numMulti : Nat) : Nat :=
  max Gen.compute_optimization_MINIMUM_SUCCESSFUL_MULTISTARTS_NUMBER_nat
    (fl (Gen.compute_optimization_MINIMUM_SUCCESSFUL_MULTISTARTS_FRACTION * (numMulti : Rat))).toNat

/-- is the run counted as a success, and with which value (after the in-domain test) -/
def runOutcome (acc : List Rat → Bool) (r : Run) : Bool × FVal :=
  let fv0 := if r.raised then FVal.nan else r.fn.neg
  let ok0 := if r.raised then false else r.success
  if acc r.stop then (ok0, fv0) else (false, FVal.nan)

/-- one iteration of the `for point in all_starts` loop; the Bool says whether the loop `break`s -/
def msStep (acc : List Rat → Bool) (numMulti numSel : Nat) (s : MS) (r : Run) : MS × Bool :=
  let (ok, fv) := runOutcome acc r
  let n := s.n + 1
  let nsucc := s.nsucc + (if ok then 1 else 0)
  let brk : Bool :=
    if numMulti = 0 then n == numSel else decide (numMulti ≤ n) && decide (minSuccesses numMulti ≤ nsucc)
  if s.best.isNone || (ok && fv.gt s.bestVal) then
    if s.best.isNone && !ok then
      -- `best_point = point; continue` (the break test is skipped)
      ({ best := some r.start, bestVal := s.bestVal, n := n, nsucc := nsucc }, false)
    else
      ({ best := some r.stop, bestVal := if fv.isNan then s.bestVal else fv, n := n, nsucc := nsucc }, brk)
  else
    ({ s with n := n, nsucc := nsucc }, brk)

/-- the loop; `none` = the `for … else` branch (RuntimeError) -/
def msLoop (acc : List Rat → Bool) (numMulti numSel : Nat) : MS → List Run → Option (List Rat)
  | _, [] => none
  | s, r :: rs =>
    let (s', brk) := msStep acc numMulti numSel s r
    if brk then s'.best else msLoop acc numMulti numSel s' rs

def multistart (acc : List Rat → Bool) (numMulti numSel : Nat) (runs : List Run) : Option (List Rat) :=
  msLoop acc numMulti numSel msInit runs

/-- a good end point: produced by a run that did not raise, reported success and ended in the domain -/
def goodEnd (acc : List Rat → Bool) (r : Run) : Bool := !r.raised && r.success && acc r.stop

/-- the endpoint's in-domain test for the hyperparameter box (`ContinuousDomain.check_point_acceptable`,
    no constraints) -/
def inBoxB (box : List (Rat × Rat)) (x : List Rat) : Bool := withinBounds box x

/-- per coordinate: inside its row of the box, or equal to the start value -/
def boxOrStart : List (Rat × Rat) → List Rat → List Rat → Bool
  | [], [], [] => true
  | (lo, hi) :: bs, s :: ss, x :: xs => ((decide (lo ≤ x) && decide (x ≤ hi)) || decide (x = s)) && boxOrStart bs ss xs
  | _, _, _ => false

end C11
