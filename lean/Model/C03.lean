/-
  C03-specific executable pieces on top of Model/Kernels.lean:
  * exact classification of an IEEE-754 binary64 bit pattern as `ExtNum` (what
    `numpy.isnan / isinf / <= 0` see),
  * the public entry point `build_kernel_matrix(points_sampled, points_to_sample, noise_variance)`
    with its shape rule for the noise.
-/
import Model.Kernels

namespace C03
open Kernels

/-- Exact value of the double with bit pattern `n` (sign 1, exponent 11, fraction 52 bits). -/
def extOfBits (n : Nat) : ExtNum :=
  let sign := n / 2 ^ 63 % 2
  let e := n / 2 ^ 52 % 2048
  let m := n % 2 ^ 52
  if e = 2047 then
    if m = 0 then (if sign = 0 then .posInf else .negInf) else .nan
  else
    let mant : Nat := if e = 0 then m else 2 ^ 52 + m
    let ex : Nat := if e = 0 then 1 else e          -- value = mant · 2^(ex − 1075)
    let mag : Rat := if 1075 ≤ ex then ((mant * 2 ^ (ex - 1075) : Nat) : Rat) else mkRat mant (2 ^ (1075 - ex))
    .fin (if sign = 0 then mag else -mag)

/-- entry (i, j) of a matrix stored as a list of rows (`none` outside the shape) -/
def entry {β : Type} (M : List (List β)) (i j : Nat) : Option β := (M[i]?).bind (·[j]?)

/-- all rows of a matrix have length `c` and there are `r` of them -/
def hasShape {β : Type} (M : List (List β)) (r c : Nat) : Prop := M.length = r ∧ ∀ row ∈ M, row.length = c

inductive BuildError where
  | noiseOnRectangular     -- `assert nx == nz`
  deriving DecidableEq, Repr

section
variable {α : Type} [Arith α]

/-- `CovarianceBase.build_kernel_matrix(points_sampled, points_to_sample=None, noise_variance=None)`
    for a radial kernel. -/
def buildKernelMatrix (k : Kind) (alpha : α) (ls : List α) (X : List (List α))
    (Z : Option (List (List α))) (noise : Option (List α)) : Except BuildError (List (List α)) :=
  let K := match Z with
    | none => gram k alpha ls X
    | some Z => crossGram k alpha ls X Z
  let rows := match Z with
    | none => X.length
    | some Z => Z.length
  match noise with
  | none => .ok K
  | some s => if rows = X.length then .ok (addDiag K s) else .error .noiseOnRectangular

/-- the same entry point of `MultitaskTensorCovariance` -/
def buildMultitaskMatrix (kp kt : Kind) (alpha : α) (ls : List α) (lt : α) (X : List (List α))
    (Z : Option (List (List α))) (noise : Option (List α)) : Except BuildError (List (List α)) :=
  let K := match Z with
    | none => multitaskGram kp kt alpha ls lt X
    | some Z => multitaskCrossGram kp kt alpha ls lt X Z
  let rows := match Z with
    | none => X.length
    | some Z => Z.length
  match noise with
  | none => .ok K
  | some s => if rows = X.length then .ok (addDiag K s) else .error .noiseOnRectangular
end

end C03
