/-
  C08 — restriction and sampling never leave the constrained region.
  Exact model over `Rat` of
    libsigopt/compute/domain.py   ContinuousDomain.{convert_func_list_to_halfspaces, check_point_*,
                                   restrict_points_using_constraints, restrict_points_to_domain,
                                   generate_random_points_near_point, generate_grid_points_in_domain},
                                   FixedIndicesOnContinuousDomain._fix_points_according_to_fixed_indices
    libsigopt/aux/samplers.py     unit_cube_sampler_transform_decorator, generate_latin_hypercube_points,
                                   generate_uniform_random_points_rejection_sampling(_with_hitandrun_padding),
                                   generate_hitandrun_random_points, generate_grid_points
    libsigopt/aux/geometry_utils.py  find_interior_point (its certificate side: the LP solver is a parameter).
  Every numpy.random draw (u of the restriction, directions / u of hit-and-run, jitters and shuffles
  of the Latin hypercube, unit-cube points of the uniform / Sobol / Halton generators) and the LP
  solution are ORACLE ARGUMENTS.  No Mathlib imports.
-/
import Model.Generated.Constants

namespace C08

abbrev Vec := List Rat

/-- `numpy.dot` of two vectors (truncating like `zip`). -/
def dot : Vec → Vec → Rat
  | x :: xs, y :: ys => x * y + dot xs ys
  | _, _ => 0

/-- squared Euclidean norm -/
def nsq (a : Vec) : Rat := dot a a

/-- A half-space `a · x ≤ b`.  (A row `[a | h]` of `_halfspaces` has `b = -h`.) -/
structure Row where
  a : Vec
  b : Rat
  deriving Repr

def sat (r : Row) (x : Vec) : Bool := decide (dot r.a x ≤ r.b)
def strictSat (r : Row) (x : Vec) : Bool := decide (dot r.a x < r.b)
def satAll (rows : List Row) (x : Vec) : Bool := rows.all (sat · x)
def strictAll (rows : List Row) (x : Vec) : Bool := rows.all (strictSat · x)

/-- The user's constraint `weights · x ≥ rhs`. -/
structure Con where
  w : Vec
  rhs : Rat
  deriving Repr

/-- `halfspaces[ic, :-1] = -weights; halfspaces[ic, -1] = rhs`, read as `a · x ≤ b` with `b = -rhs`. -/
def conRow (c : Con) : Row := ⟨c.w.map (fun t => -t), -c.rhs⟩

/-- A box: one `(lo, hi)` pair per dimension (`domain_bounds`). -/
abbrev Box := List (Rat × Rat)

/-- `numpy.all(numpy.diff(domain_bounds, axis=1) >= 0)` -/
def boxWF : Box → Bool
  | [] => true
  | (l, h) :: bx => decide (l ≤ h) && boxWF bx

/-- `check_point_inside` (with the dimension check). -/
def inBox : Box → Vec → Bool
  | [], [] => true
  | (l, h) :: bx, x :: xs => decide (l ≤ x) && decide (x ≤ h) && inBox bx xs
  | _, _ => false

/-- `numpy.clip(x, lo, hi)` = `minimum(maximum(x, lo), hi)` -/
def clip1 (l h x : Rat) : Rat := min (max x l) h

def clip : Box → Vec → Vec
  | (l, h) :: bx, x :: xs => clip1 l h x :: clip bx xs
  | _, _ => []

def zeros : Nat → Vec
  | 0 => []
  | n + 1 => 0 :: zeros n

def padRow (r : Row) : Row := ⟨0 :: r.a, r.b⟩

/-- `-eye` rows with `b = -lo`  (`-x_i ≤ -lo_i`), in index order. -/
def lowerRows : Box → List Row
  | [] => []
  | (l, _) :: bx => ⟨-1 :: zeros bx.length, -l⟩ :: (lowerRows bx).map padRow

/-- `eye` rows with `b = hi`  (`x_i ≤ hi_i`), in index order. -/
def upperRows : Box → List Row
  | [] => []
  | (_, h) :: bx => ⟨1 :: zeros bx.length, h⟩ :: (upperRows bx).map padRow

def boundRows (bx : Box) : List Row := lowerRows bx ++ upperRows bx

/-- `convert_func_list_to_halfspaces`: constraint rows, then lower-bound rows, then upper-bound rows. -/
def halfspaces (bx : Box) (cons : List Con) : List Row := cons.map conRow ++ boundRows bx

/-- `numpy.sum(A != 0, axis=1)` -/
def nnz : Vec → Nat
  | [] => 0
  | x :: xs => (if x = 0 then 0 else 1) + nnz xs

/-- `no_bound_idxs = where(sum(A != 0, axis=1) > 1)`: rows with at least two non-zero weights.
    (Quirk mirrored: a user constraint with a single non-zero weight is dropped here too.) -/
def nonBound (rows : List Row) : List Row := rows.filter (fun r => decide (1 < nnz r.a))

/-- every user constraint has two or more non-zero weights (the property's quantifier) -/
def consWF (cons : List Con) : Bool := cons.all (fun c => decide (1 < nnz c.w))

def rabs (x : Rat) : Rat := if x < 0 then -x else x

/-- `check_point_on_boundary(point, tol)` on a constrained domain: some row is within `tol` of tight. -/
def onBoundary (rows : List Row) (tol : Rat) (x : Vec) : Bool :=
  rows.any (fun r => decide (rabs (dot r.a x - r.b) ≤ tol))

/-- `check_point_acceptable` of a constrained domain. -/
def acceptable (bx : Box) (rows : List Row) (x : Vec) : Bool := inBox bx x && satAll rows x

abbrev safetyMargin : Rat := Gen.compute_domain_DEFAULT_SAFETY_MARGIN_FOR_CONSTRAINTS
/-- the literal `0.01` of "push it towards the center" -/
abbrev pushFraction : Rat := (1 : Rat) / 100

/-- `viable_point + (cheby_center - viable_point) * 0.01` -/
def pushToward (v c : Vec) : Vec := List.zipWith (fun vi ci => vi + (ci - vi) * pushFraction) v c

inductive ViableMode | cheby | push | keep
  deriving DecidableEq, Repr

/-- Which of the three branches the viable-point rule takes. -/
def viableMode (bx : Box) (rows : List Row) (viable : Option Vec) : ViableMode :=
  match viable with
  | none => .cheby
  | some v =>
    if !(acceptable bx rows v) then .cheby
    else if onBoundary rows safetyMargin v then .push
    else .keep

def viableOf (mode : ViableMode) (cheby : Vec) (viable : Option Vec) : Vec :=
  match mode, viable with
  | .push, some v => pushToward v cheby
  | .keep, some v => v
  | _, _ => cheby

/-- The viable-point rule of `restrict_points_using_constraints`. -/
def viablePoint (bx : Box) (rows : List Row) (cheby : Vec) (viable : Option Vec) : Vec :=
  viableOf (viableMode bx rows viable) cheby viable

/-- `numpy.divide(slack, viable_point_minus_A_normal, out=zeros, where= … != 0)` for one row, one point:
    the parameter `t` at which `p + t (v - p)` meets the face of the row. -/
def multiplier (r : Row) (p v : Vec) : Rat :=
  let s := r.b - dot r.a p
  let d := dot r.a v - dot r.a p
  if d = 0 then 0 else s / d

/-- `logical_and(multipliers > 0, multipliers < 1)` -/
def validMult (m : Rat) : Bool := decide (0 < m) && decide (m < 1)

def multipliers (rows : List Row) (p v : Vec) : List Rat := rows.map (multiplier · p v)

/-- `numpy.any(valid_multipliers, axis=0)` for one point -/
def needsCorrection (rows : List Row) (p v : Vec) : Bool := (multipliers rows p v).any validMult

/-- `multipliers[~valid] = 0; max(...)` for one point (all entries are ≥ 0, so folding from 0 is the max). -/
def maxCorrection (rows : List Row) (p v : Vec) : Rat :=
  ((multipliers rows p v).map (fun m => if validMult m then m else 0)).foldl max 0

/-- `epsilon_shift = 1 - max_correction`, times a uniform draw unless `on_constraint`. -/
def epsShift (mc : Rat) (onC : Bool) (u : Rat) : Rat := if onC then 1 - mc else (1 - mc) * u

/-- `points *= eps; points += (1 - eps) * viable_point` -/
def blend (eps : Rat) (p v : Vec) : Vec := List.zipWith (fun pi vi => pi * eps + (1 - eps) * vi) p v

/-- `restrict_points_using_constraints` for one (already clipped) point; `rows` are the non-bound rows. -/
def restrictOne (rows : List Row) (v : Vec) (onC : Bool) (u : Rat) (p : Vec) : Vec :=
  if needsCorrection rows p v then blend (epsShift (maxCorrection rows p v) onC u) p v else p

/-- `restrict_points_to_domain` for one point: clip, then (if constrained) the segment move. -/
def restrictPoint (bx : Box) (cons : List Con) (cheby : Vec) (viable : Option Vec) (onC : Bool) (u : Rat)
    (p : Vec) : Vec :=
  let p1 := clip bx p
  match cons with
  | [] => p1
  | _ :: _ =>
    let hs := halfspaces bx cons
    restrictOne (nonBound hs) (viablePoint bx hs cheby viable) onC u p1

/-- `restrict_points_to_domain` on an array of points, one uniform draw per point. -/
def restrictPoints (bx : Box) (cons : List Con) (cheby : Vec) (viable : Option Vec) (onC : Bool) :
    List Rat → List Vec → List Vec
  | u :: us, p :: ps => restrictPoint bx cons cheby viable onC u p :: restrictPoints bx cons cheby viable onC us ps
  | _, _ => []

/-- `point[None, :] + normal_draws * diff(bounds)` for one row of normal draws -/
def perturb : Box → Vec → Vec → Vec
  | (l, h) :: bx, x :: xs, z :: zs => (x + z * (h - l)) :: perturb bx xs zs
  | _, _, _ => []

/-- `generate_random_points_near_point` when the point is acceptable (otherwise the code falls back to
    `generate_quasi_random_points_in_domain`, modelled by the samplers below). -/
def nearPoint (bx : Box) (cons : List Con) (cheby : Vec) (point : Vec) (onC : Bool) (zs : List Vec) (us : List Rat) :
    List Vec :=
  restrictPoints bx cons cheby (some point) onC us (zs.map (perturb bx point))

/-! ### fixed coordinates -/

def setAt : Vec → Nat → Rat → Vec
  | [], _, _ => []
  | _ :: xs, 0, w => w :: xs
  | x :: xs, i + 1, w => x :: setAt xs i w

/-- `_fix_points_according_to_fixed_indices` on one point (`fixed` = the dict items in order). -/
def fixCoords (fixed : List (Nat × Rat)) (x : Vec) : Vec := fixed.foldl (fun acc iv => setAt acc iv.1 iv.2) x

def getAt : Vec → Nat → Rat
  | [], _ => 0
  | x :: _, 0 => x
  | _ :: xs, i + 1 => getAt xs i

/-- `_verify_fixed_indices`: index in range, value within its bounds, and (constrained domains) the index is
    unconstrained, i.e. carries weight 0 in every constraint row. -/
def fixedWF (bx : Box) (rows : List Row) (fixed : List (Nat × Rat)) : Bool :=
  fixed.all fun iv =>
    decide (iv.1 < bx.length) && decide ((bx.getD iv.1 (0, 0)).1 ≤ iv.2) && decide (iv.2 ≤ (bx.getD iv.1 (0, 0)).2)
      && rows.all (fun r => decide (getAt r.a iv.1 = 0))

/-! ### hit-and-run -/

def addScaled (x : Vec) (t : Rat) (d : Vec) : Vec := List.zipWith (fun xi di => xi + t * di) x d

/-- `c[z < 0]` / `c[z > 0]` with `z = A·direction`, `c = (b - A·x) / z`. -/
def ratiosNeg (rows : List Row) (x d : Vec) : List Rat :=
  (rows.filter (fun r => decide (dot r.a d < 0))).map (fun r => (r.b - dot r.a x) / dot r.a d)
def ratiosPos (rows : List Row) (x d : Vec) : List Rat :=
  (rows.filter (fun r => decide (0 < dot r.a d))).map (fun r => (r.b - dot r.a x) / dot r.a d)

def maxOf : List Rat → Option Rat
  | [] => none
  | x :: xs => some (xs.foldl max x)
def minOf : List Rat → Option Rat
  | [] => none
  | x :: xs => some (xs.foldl min x)

/-- One iteration of `generate_hitandrun_random_points`; `none` where numpy raises on an empty `amax/amin`. -/
def hitAndRunStep (rows : List Row) (x d : Vec) (u : Rat) : Option Vec :=
  match maxOf (ratiosNeg rows x d), minOf (ratiosPos rows x d) with
  | some tmin, some tmax => some (addScaled x (tmin + (tmax - tmin) * u) d)
  | _, _ => none

/-- The whole chain (every visited point, in order).  Directions (random, or toward the running mean of
    earlier points – any vector) and uniform draws are oracle arguments. -/
def hitAndRun (rows : List Row) : Vec → List (Vec × Rat) → Option (List Vec)
  | _, [] => some []
  | x, (d, u) :: rest =>
    match hitAndRunStep rows x d u with
    | none => none
    | some x' =>
      match hitAndRun rows x' rest with
      | none => none
      | some pts => some (x' :: pts)

/-! ### unit-cube samplers -/

/-- `pts_min + pts_scale * unit_cube_points` for one point -/
def affineFromUnit : Box → Vec → Vec
  | (l, h) :: bx, t :: ts => (l + (h - l) * t) :: affineFromUnit bx ts
  | _, _ => []

def inUnit (t : Vec) : Bool := t.all (fun x => decide (0 ≤ x) && decide (x ≤ 1))

/-- One column of `generate_latin_hypercube_points` after the shuffle: row j holds
    `linspace(0,1,n,endpoint=False)[perm j] + jitter`, jitter = `w / n` with `w ∈ [0,1)`. -/
def lhsColumn (n : Nat) (perm : List Nat) (ws : List Rat) : Vec :=
  List.zipWith (fun (p : Nat) (w : Rat) => ((p : Rat) + w) / (n : Rat)) perm ws

/-- stratum index `⌊n·x⌋` -/
def stratum (n : Nat) (x : Rat) : Int := ((n : Rat) * x).floor

def strata (n : Nat) (col : Vec) : List Int := col.map (stratum n)

/-- does a list of stratum indices hit every stratum `0..n-1` exactly once? (decidable oracle) -/
def isPermOfRange (n : Nat) (l : List Int) : Bool :=
  decide (l.length = n) && (List.range n).all (fun k => decide (l.count (k : Int) = 1))

/-- rejection filter: `test_points[all(A·x ≤ b)]`, first `k` kept -/
def rejectionFilter (rows : List Row) (k : Nat) (pts : List Vec) : List Vec := (pts.filter (satAll rows)).take k

/-- `generate_uniform_random_points_rejection_sampling_with_hitandrun_padding` given the accepted
    candidates and the padding chain (its last `k - found` points). -/
def rejectionWithPadding (rows : List Row) (k : Nat) (cands : List Vec) (x0 : Vec) (steps : List (Vec × Rat)) :
    Option (List Vec) :=
  let found := (cands.filter (satAll rows))
  if k ≤ found.length then some (found.take k)
  else match hitAndRun rows x0 steps with
    | none => none
    | some chain => some (found ++ chain.drop (chain.length - (k - found.length)))

/-! ### grid -/

/-- `numpy.linspace(lo, hi, n)` -/
def linspace (l h : Rat) (n : Nat) : Vec :=
  if n = 1 then [l] else (List.range n).map (fun (i : Nat) => l + (h - l) * ((i : Rat) / ((n : Rat) - 1)))

/-- Cartesian product of the per-axis grids (the ORDER of numpy.meshgrid is not modelled: compared as a set). -/
def gridPoints : Box → List Nat → List Vec
  | (l, h) :: bx, n :: ns => (linspace l h n).flatMap (fun x => (gridPoints bx ns).map (fun rest => x :: rest))
  | _, _ => [[]]

/-! ### Chebyshev centre certificates (`find_interior_point`) -/

def vsub (y c : Vec) : Vec := List.zipWith (fun yi ci => yi - ci) y c
/-- squared Euclidean distance -/
def distSq (y c : Vec) : Rat := nsq (vsub y c)

/-- Ball of radius `r` around `c` inside every half-space, stated with squared norms:
    `r ≥ 0`, slack `s = b - a·c ≥ 0` and `r²·‖a‖² ≤ s²`  (⇔ `a·c + ‖a‖ r ≤ b`). -/
def chebyRowOK (c : Vec) (r : Rat) (row : Row) : Bool :=
  decide (0 ≤ row.b - dot row.a c) && decide (r * r * nsq row.a ≤ (row.b - dot row.a c) * (row.b - dot row.a c))

def chebyOK (rows : List Row) (c : Vec) (r : Rat) : Bool := decide (0 ≤ r) && rows.all (chebyRowOK c r)

/-- `Aᵀ y` accumulated row by row -/
def combo : List Row → Vec → Nat → Vec
  | r :: rows, y :: ys, n => List.zipWith (· + ·) (r.a.map (y * ·)) (combo rows ys n)
  | _, _, n => zeros n

def allLen (rows : List Row) (n : Nat) : Bool := rows.all (fun r => decide (r.a.length = n))

/-- Dual (weak-duality) certificate for the LP `max r s.t. a_i·x + ‖a_i‖ r ≤ b_i`:
    multipliers `y ≥ 0`, rational lower enclosures `0 ≤ l_i`, `l_i² ≤ ‖a_i‖²`, `Aᵀy = 0`, `Σ y_i l_i ≥ 1`. -/
def dualRowsOK : List Row → Vec → Vec → Bool
  | r :: rows, l :: ls, y :: ys => decide (0 ≤ y) && decide (0 ≤ l) && decide (l * l ≤ nsq r.a) && dualRowsOK rows ls ys
  | [], [], [] => true
  | _, _, _ => false

def bvec (rows : List Row) : Vec := rows.map (·.b)

def dualOK (n : Nat) (rows : List Row) (ls ys : Vec) : Bool :=
  allLen rows n && dualRowsOK rows ls ys && (combo rows ys n).all (fun t => decide (t = 0)) && decide (1 ≤ dot ys ls)

/-- the bound certified by a dual certificate: `y · b` -/
def dualBound (rows : List Row) (ys : Vec) : Rat := dot ys (bvec rows)

abbrev minRadius : Rat := Gen.aux_geometry_utils_MINIMUM_ACCEPTABLE_RADIUS

/-- `feasible = success and not (status == 2 or radius < MINIMUM_ACCEPTABLE_RADIUS)` -/
def feasibleFlag (success : Bool) (status : Int) (radius : Rat) : Bool :=
  success && !(decide (status = 2) || decide (radius < minRadius))

end C08
