/-
  C18 — multi-solution best assignments.  Import-free executable model of

    libsigopt/views/rest/multisolution_best_assignments.py
      k_center_clustering(points, first_center_index, k)
      MultisolutionBestAssignments.view

  The algorithm only *compares* squared distances and scaled values, so the model works over an
  arbitrary distance table `d : Nat → Nat → Int` (`d c p` = entry that the library's
  `compute_distance_matrix_squared(points[c, None], points)` puts at column `p`; the harness sends the
  order-isomorphic integer ranks of the library's own floats) and a value table `v : Nat → Int`
  (ranks of `points_sampled_for_af_values[:, 0]`).  No symmetry, no `d c c = 0`, no triangle
  inequality is assumed anywhere: none is needed, and none holds exactly for the floats.

  The code marks a chosen centre in its own row with `-numpy.inf`; here that is `none : Option Int`
  (`Ext`, with `none` below every `some x`).
-/
namespace C18

/-- Entries of the code's `distance_matrix_squared`: `none` is the `-numpy.inf` marker. -/
abbrev Ext := Option Int

/-- Strict order of the float entries with `-inf` (= `none`) below everything. -/
def Ext.lt : Ext → Ext → Bool
  | none, none => false
  | none, some _ => true
  | some _, none => false
  | some a, some b => decide (a < b)

/-- `numpy.min` of two entries (value only, so the tie rule is irrelevant). -/
def Ext.min (a b : Ext) : Ext := if Ext.lt b a then b else a

/-- Left-to-right scan over the indices `0..m` keeping the current best index and replacing it only
    on a *strict* improvement: the first index of an optimum, which is what `numpy.argmax`,
    `numpy.argmin` return, and what the `values[i] < best_value` loop of the view keeps. -/
def argBest {α : Type} (better : α → α → Bool) (f : Nat → α) : Nat → Nat
  | 0 => 0
  | m + 1 =>
    let b := argBest better f m
    if better (f (m + 1)) (f b) then m + 1 else b

/-- `numpy.argmax(f[0:n])`. -/
def argmaxExt (f : Nat → Ext) (n : Nat) : Nat := argBest (fun a b => Ext.lt b a) f (n - 1)
/-- `numpy.argmin(f[0:n])`. -/
def argminExt (f : Nat → Ext) (n : Nat) : Nat := argBest (fun a b => Ext.lt a b) f (n - 1)
/-- `numpy.argmin(values[0:n])`. -/
def argminInt (v : Nat → Int) (n : Nat) : Nat := argBest (fun a b => decide (a < b)) v (n - 1)

/-- Row of `distance_matrix_squared` written for centre `c`:
    `row[:] = compute_distance_matrix_squared(points[c, None], points); row[c] = -inf`. -/
def row (d : Nat → Nat → Int) (c p : Nat) : Ext := if p = c then none else some (d c p)

/-- `numpy.min(distance_matrix_squared[: i + 1, :], axis=0)[p]` where the rows are those of the
    centres `cs` chosen so far (non-empty in every use). -/
def colMin (d : Nat → Nat → Int) : List Nat → Nat → Ext
  | [], _ => none
  | [c], p => row d c p
  | c :: c' :: cs, p => Ext.min (row d c p) (colMin d (c' :: cs) p)

/-- The list `centers_indices` after `j` passes through the `argmax` line (`j + 1` centres). -/
def centresAux (d : Nat → Nat → Int) (n first : Nat) : Nat → List Nat
  | 0 => [first]
  | j + 1 =>
    let cs := centresAux d n first j
    cs ++ [argmaxExt (colMin d cs) n]

/-- `centers_indices` returned by `k_center_clustering(points, first, k)` (the code asserts
    `0 < k < n`, `first < n`; the loop appends `k - 1` times). -/
def centres (d : Nat → Nat → Int) (n first k : Nat) : List Nat := centresAux d n first (k - 1)

/-- `partition[p] = numpy.argmin(distance_matrix_squared[:, p])` over the `k` rows. -/
def partitionOf (d : Nat → Nat → Int) (cs : List Nat) (k : Nat) (p : Nat) : Nat :=
  argminExt (fun j => row d (cs.getD j 0) p) k

def partition (d : Nat → Nat → Int) (n first k : Nat) (p : Nat) : Nat :=
  partitionOf d (centres d n first k) k p

/-- Plain (unmarked) minimal distance of `p` to a non-empty list of centres; only used to *state*
    the farthest-first theorem, the executable model never calls it. -/
def minDist (d : Nat → Nat → Int) : List Nat → Nat → Int
  | [], _ => 0
  | [c], p => d c p
  | c :: c' :: cs, p =>
    let m := minDist d (c' :: cs) p
    if m < d c p then m else d c p

/-! ### The view: per-cluster first arg-min of the scaled value -/

/-- `best_index_partition` as a finite table cluster ↦ index: an association list in which the most
    recent entry of a cluster wins (`None` = no entry).  `best_value_partition[c]` is always
    `values[best_index_partition[c]]`, so it is not stored separately. -/
abbrev BestTable := List (Nat × Nat)

/-- `best_index_partition[c]`. -/
def look : BestTable → Nat → Option Nat
  | [], _ => none
  | (c', i) :: t, c => if c = c' then some i else look t c

/-- `best_index_partition[c] = i`. -/
def upd (t : BestTable) (c : Nat) (i : Nat) : BestTable := (c, i) :: t

/-- One pass of `for i, p in enumerate(partition)`. -/
def bestStep (part : Nat → Nat) (v : Nat → Int) (t : BestTable) (i : Nat) : BestTable :=
  match look t (part i) with
  | none => upd t (part i) i
  | some b => if v i < v b then upd t (part i) i else t

/-- The table after the whole loop over `range n`. -/
def bestTable (part : Nat → Nat) (v : Nat → Int) (n : Nat) : BestTable :=
  (List.range n).foldl (bestStep part v) []

/-- `best_indices = [v for v in best_index_partition if v is not None]` for `k` clusters. -/
def bestIndices (part : Nat → Nat) (v : Nat → Int) (n k : Nat) : List Nat :=
  let t := bestTable part v n
  (List.range k).filterMap (look t)

/-- `MultisolutionBestAssignments.view`: first centre = `numpy.argmin(values)`, clustering, per
    cluster best.  Returns `best_indices`. -/
def view (d : Nat → Nat → Int) (v : Nat → Int) (n k : Nat) : List Nat :=
  let first := argminInt v n
  bestIndices (partition d n first k) v n k

/-- The assertions at the end of `view` (as many entries as clusters, `k` distinct, all in range);
    `view_assertions_hold` shows they never fire when `0 < k ≤ n`. -/
def assertionsOn (bi : List Nat) (n k : Nat) : Bool :=
  decide (bi.length = k) && decide bi.Nodup && bi.all (fun i => decide (i < n))

def viewAssertions (d : Nat → Nat → Int) (v : Nat → Int) (n k : Nat) : Bool :=
  assertionsOn (view d v n k) n k

/-! ### The tie-liberal specification (what the property text demands, silent on ties)

These are the decidable statements the driver evaluates on the *implementation's* outputs; the
theorems `centres_legal`, `partition_legal`, `best_legal` show that the deterministic model above
(first index on ties, as numpy does today) is one of the runs they accept. -/

/-- greedy farthest-first, any maximiser allowed: `k` centres, the first one is `first`, every later
    one is a valid index outside the earlier ones and no other outside point is strictly farther from
    the earlier ones. -/
def legalCentres (d : Nat → Nat → Int) (n first k : Nat) (cs : List Nat) : Bool :=
  decide (cs.length = k) && decide (cs.getD 0 n = first) &&
  (List.range (k - 1)).all fun j =>
    let prev := cs.take (j + 1)
    let c := cs.getD (j + 1) 0
    decide (c < n) && !prev.contains c &&
    (List.range n).all fun p => prev.contains p || decide (minDist d prev p ≤ minDist d prev c)

/-- every centre is in its own cluster, every other observation in the cluster of a nearest centre. -/
def legalPartition (d : Nat → Nat → Int) (n k : Nat) (cs : List Nat) (part : Nat → Nat) : Bool :=
  (List.range n).all fun p =>
    decide (part p < k) &&
    (if cs.contains p then cs.getD (part p) n == p
     else (List.range k).all fun j => decide (d (cs.getD (part p) 0) p ≤ d (cs.getD j 0) p))

/-- entry `j` of `best_indices` is a valid observation of cluster `j` with minimal value in it. -/
def legalBest (part : Nat → Nat) (v : Nat → Int) (n k : Nat) (bi : List Nat) : Bool :=
  decide (bi.length = k) &&
  (List.range k).all fun j =>
    let b := bi.getD j n
    decide (b < n) && part b == j && (List.range n).all fun p => part p != j || decide (v b ≤ v p)

/-! ### Table access for the driver (lists of lists from JSON) -/

def tableOf (m : Array (Array Int)) : Nat → Nat → Int := fun a b => (m.getD a #[]).getD b 0
def vecOf (l : Array Int) : Nat → Int := fun a => l.getD a 0
def natVecOf (l : Array Nat) : Nat → Nat := fun a => l.getD a 0

end C18
