/-
  C13 — Pareto frontier and epsilon-constraint thresholds.

  Exact, executable model of
    libsigopt/aux/multimetric.py          find_pareto_frontier_observations_for_maximization
    libsigopt/compute/misc/multimetric.py _find_sorted_pareto_frontier_values_minimization,
                                          find_epsilon_constraint_value (+ _no_bounds / _with_bounds),
                                          _create_epsilon_constraint_failures,
                                          force_minimum_successful_points
  The frontier part is written for values in any type with decidable `<`/`≤` (the theorems
  instantiate it with an arbitrary linear order; the driver with `Rat`, which carries Python
  floats exactly).  The epsilon part is over `Rat`.  NaN entries are rejected by the code of the
  frontier routine (assert) and are not modelled anywhere; a NaN *threshold* (which the view
  passes when the user gave none) is modelled (`Thr.nan`).
-/
import Model.Generated.Constants

namespace C13

/-! ## Frontier (aux/multimetric.py) -/

section Frontier
variable {α : Type} [LT α] [LE α] [DecidableLT α] [DecidableLE α]

/-- `numpy.all(v >= c)` for one row `v` (zip semantics). -/
def geAll : List α → List α → Bool
  | x :: xs, y :: ys => decide (y ≤ x) && geAll xs ys
  | _, _ => true

/-- `numpy.any(v > c)` for one row `v`. -/
def gtAny : List α → List α → Bool
  | x :: xs, y :: ys => decide (y < x) || gtAny xs ys
  | _, _ => false

/-- The library's keep rule for row `v` against the current row `c`:
    `logical_or(all(v >= c), any(v > c))`. -/
def keepAgainst (c v : List α) : Bool := geAll v c || gtAny v c

/-- Definition of dominance under maximisation: `a` is at least `b` everywhere and strictly
    larger somewhere. -/
def dominates (a b : List α) : Bool := geAll a b && gtAny a b

/-- Row `v` is dominated by no row of `rows` (the definition the routine is compared with). -/
def nonDominated (rows : List (List α)) (v : List α) : Bool := rows.all fun c => !dominates c v

/-- `a[mask]` (numpy boolean-mask indexing). -/
def select {β : Type} : List Bool → List β → List β
  | true :: ms, x :: xs => x :: select ms xs
  | false :: ms, _ :: xs => select ms xs
  | _, _ => []

/-- `mask[mask] = new` (numpy boolean-mask assignment into the mask itself): the entries that are
    `True` are overwritten, in order, by the entries of `new`. -/
def scatter : List Bool → List Bool → List Bool
  | true :: ms, b :: bs => b :: scatter ms bs
  | true :: ms, [] => true :: scatter ms []
  | false :: ms, bs => false :: scatter ms bs
  | [], _ => []

/-- One iteration of the `for i, c in enumerate(values)` loop. -/
def step (rows : List (List α)) (mask : List Bool) (i : Nat) (c : List α) : List Bool :=
  if mask.getD i false then
    scatter mask ((select mask rows).map (keepAgainst c))
  else mask

/-- The loop over the remaining rows `todo`, the next index being `i`. -/
def loopFrom (rows : List (List α)) : List (List α) → Nat → List Bool → List Bool
  | [], _, mask => mask
  | c :: cs, i, mask => loopFrom rows cs (i + 1) (step rows mask i c)

/-- `good_ind` at the end of the routine. -/
def paretoMask (rows : List (List α)) : List Bool :=
  loopFrom rows rows 0 (List.replicate rows.length true)

/-- `find_pareto_frontier_observations_for_maximization(values, observations)`. -/
def frontier {β : Type} (rows : List (List α)) (obs : List β) : List β × List β :=
  let m := paretoMask rows
  (select m obs, select (m.map not) obs)

end Frontier

/-! ## Epsilon-constraint value (compute/misc/multimetric.py) -/

abbrev minInBounds : Nat := Gen.compute_misc_constant_MULTIMETRIC_MIN_NUM_IN_BOUNDS_POINTS_nat
abbrev minSuccessful : Nat := Gen.compute_misc_constant_MULTIMETRIC_MIN_NUM_SUCCESSFUL_POINTS_nat

/-- entry `k` of a row (`0` outside, never reached for rectangular input) -/
def at' (r : List Rat) (k : Nat) : Rat := r.getD k 0

/-- `values[:, k]` -/
def col (k : Nat) (rows : List (List Rat)) : List Rat := rows.map (at' · k)

/-- `numpy.argmin`: index of the first occurrence of the minimum. -/
def argmin : List Rat → Nat
  | [] => 0
  | [_] => 0
  | x :: y :: ys =>
    let j := argmin (y :: ys)
    if (y :: ys).getD j 0 < x then j + 1 else 0

/-- `_find_epsilon_constraint_value_no_bounds` -/
def epsNoBounds (eps : Rat) (cm : Nat) (rows : List (List Rat)) : Rat :=
  let a0 := argmin (col 0 rows)
  let a1 := argmin (col 1 rows)
  let x := at' (rows.getD a0 []) cm
  let y := at' (rows.getD a1 []) cm
  (1 - eps) * min x y + eps * max x y

/-- A user threshold as the routine can receive it: `None`, NaN, or a number. -/
inductive Thr
  | none
  | nan
  | val (q : Rat)
  deriving Repr

/-- factor `clean_values[:, k] < threshold` of the in-bounds mask (`None`: no factor) -/
def Thr.ltOk (v : Rat) : Thr → Bool
  | .none => true
  | .nan => false
  | .val q => decide (v < q)

/-- `sorted_pareto[:, k] > threshold` (only evaluated when the threshold is not `None`) -/
def Thr.gtOut (v : Rat) : Thr → Bool
  | .none => false
  | .nan => false
  | .val q => decide (q < v)

def Thr.isNone : Thr → Bool
  | .none => true
  | _ => false

/-- `-values`, one row -/
def negRow (r : List Rat) : List Rat := r.map fun x => -x

/-- Definition: `a` dominates `b` under *minimisation* (nowhere larger, somewhere strictly smaller). -/
def dominatesMin (a b : List Rat) : Bool := geAll b a && gtAny b a

/-- `_find_sorted_pareto_frontier_values_minimization`: frontier of the negated values, rows taken
    from the original matrix, sorted along the first metric.  (`numpy.argsort` is modelled by a
    stable sort; `Properties/C13.lean: sortedFrontier_ties_equal` shows that rows tied in the sort
    key are identical when there are two metrics, so the tie-breaking cannot be observed.) -/
def sortedFrontierMin (rows : List (List Rat)) : List (List Rat) :=
  let neg := rows.map negRow
  let paretoInd := (frontier neg (List.range rows.length)).1
  let paretoValues := paretoInd.map fun i => rows.getD i []
  paretoValues.mergeSort fun a b => decide (at' a 0 ≤ at' b 0)

/-- The part of `_find_epsilon_constraint_value_with_bounds` after the two fall-back tests. -/
def epsBounded (eps : Rat) (cm : Nat) (sp : List (List Rat)) (t0 t1 : Thr) : Rat :=
  let first := sp.headD []
  let last := sp.getLastD []
  let minB := at' (if cm = 0 then first else last) cm
  let maxB := at' (if cm = 1 then first else last) cm
  let out0 := sp.filter fun r => t0.gtOut (at' r 0)
  let minB := if !t0.isNone && !out0.isEmpty && cm = 1 then at' (out0.headD []) cm else minB
  let maxB := if !t0.isNone && !out0.isEmpty && cm = 0 then at' (out0.headD []) cm else maxB
  let out1 := sp.filter fun r => t1.gtOut (at' r 1)
  let minB := if !t1.isNone && !out1.isEmpty && cm = 0 then at' (out1.getLastD []) cm else minB
  let maxB := if !t1.isNone && !out1.isEmpty && cm = 1 then at' (out1.getLastD []) cm else maxB
  (1 - eps) * minB + eps * maxB

inductive Branch
  | noThresholds
  | tooFewInBounds
  | shortFrontier
  | bounded
  deriving Repr, DecidableEq

/-- Which path `find_epsilon_constraint_value` takes. -/
def epsBranch (rows : List (List Rat)) (t0 t1 : Thr) : Branch :=
  if t0.isNone && t1.isNone then .noThresholds
  else if (rows.filter fun r => t0.ltOk (at' r 0) && t1.ltOk (at' r 1)).length < minInBounds then .tooFewInBounds
  else if (sortedFrontierMin rows).length < 2 then .shortFrontier
  else .bounded

/-- `find_epsilon_constraint_value(epsilon_fraction, constraint_metric, values, (t0, t1))`
    for finite values. -/
def epsValue (eps : Rat) (cm : Nat) (rows : List (List Rat)) (t0 t1 : Thr) : Rat :=
  match epsBranch rows t0 t1 with
  | .bounded => epsBounded eps cm (sortedFrontierMin rows) t0 t1
  | _ => epsNoBounds eps cm rows

/-- All indices at which a column attains its minimum. -/
def argmins (xs : List Rat) : List Nat :=
  (List.range xs.length).filter fun i => xs.all fun y => decide (xs.getD i 0 ≤ y)

/-- The values the no-bounds formula may take when `argmin` is free to return any minimiser
    (the property does not say which of several tied optima is meant). -/
def epsNoBoundsLegal (eps : Rat) (cm : Nat) (rows : List (List Rat)) : List Rat :=
  (argmins (col 0 rows)).flatMap fun a0 => (argmins (col 1 rows)).map fun a1 =>
    let x := at' (rows.getD a0 []) cm
    let y := at' (rows.getD a1 []) cm
    (1 - eps) * min x y + eps * max x y

/-! ## Failure labelling and the minimum-success repair -/

/-- `_create_epsilon_constraint_failures`: threshold from the successful rows (no user thresholds),
    then `values[:, constraint_metric] >= threshold`. -/
def epsFailures (eps : Rat) (cm : Nat) (rows : List (List Rat)) (fails : List Bool) : List Bool :=
  let successful := select (fails.map not) rows
  let v := epsValue eps cm successful .none .none
  (col cm rows).map fun x => decide (v ≤ x)

/-- `sum(~failures)` -/
def numSuccessful (fails : List Bool) : Nat := fails.count false

/-- the indices `force_minimum_successful_points` un-fails -/
def forcedIndices (vals : List Rat) (fails : List Bool) : List Nat :=
  let numSucc := numSuccessful fails
  if numSucc < minSuccessful then
    let diff := minSuccessful - numSucc
    let failuresIndex := (List.range fails.length).filter fun i => fails.getD i false
    let order := failuresIndex.mergeSort fun i j => decide (vals.getD i 0 ≤ vals.getD j 0)
    order.take diff
  else []

/-- `force_minimum_successful_points(optimizing_metric, values, failures)` -/
def forceMinSuccess (om : Nat) (rows : List (List Rat)) (fails : List Bool) : List Bool :=
  let chosen := forcedIndices (col om rows) fails
  (List.range fails.length).map fun i => fails.getD i false && !chosen.contains i

/-- labelling followed by the repair, as `filter_probabilistic_failure` chains them -/
def labelAndForce (eps : Rat) (cm om : Nat) (rows : List (List Rat)) (fails : List Bool) : List Bool :=
  forceMinSuccess om rows (epsFailures eps cm rows fails)

end C13
