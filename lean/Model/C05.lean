/-
  C05 — acquisition values and success probabilities.

  Model of what the code does in
    libsigopt/compute/predictor.py            HasPredictor.compute_core_components
    libsigopt/compute/expected_improvement.py ExpectedImprovement, ExpectedImprovementWithPenalty,
                                              AugmentedExpectedImprovement, ExpectedImprovementWithFailures
    libsigopt/compute/acquisition_function.py AcquisitionFunction.__init__ / evaluate_at_point_list
    libsigopt/compute/probabilistic_failures.py  the three success-probability models
    libsigopt/compute/multitask_acquisition_function.py
  over the polymorphic signature `Arith` (Float in the driver, ℝ in the theorems).

  Third-party values are parameters:
    Φ  : α → α   the normal CDF (`scipy.stats.norm.cdf`), a FUNCTION PARAMETER;
    c  : α       scipy's `_norm_pdf_C = sqrt(2π)`; the pdf itself is computed here with `exp`;
    q  : α       `norm.ppf(AUGMENTED_EI_QUANTILE)`.
  Posterior mean / variance of the predictor are inputs (they are the subject of C02).
-/
import Model.Arith
import Model.Generated.Constants

namespace C05

variable {α : Type} [Arith α]

/-- An exact rational constant (generated from the source) injected into `α`. -/
def ofRat (q : Rat) : α :=
  if q.num < 0 then -(Arith.ofNat q.num.natAbs / Arith.ofNat q.den)
  else Arith.ofNat q.num.natAbs / Arith.ofNat q.den

/-! ### Core components (predictor.py: compute_core_components) -/

/-- `scipy.stats.norm.pdf(z) = exp(-z**2 / 2.0) / _norm_pdf_C` with `c = _norm_pdf_C = sqrt(2π)`. -/
def pdf (c z : α) : α := Arith.exp (-(z * z) / Arith.ofNat 2) / c

structure Core (α : Type) where
  mean : α
  var : α
  sqrtVar : α
  z : α
  cdf : α
  pdf : α

/-- `sqrt_var = sqrt(var)`, `z = (best_value - mean) / sqrt_var`, `cdf_z = norm.cdf(z)`,
    `pdf_z = norm.pdf(z)`.  No guard against `var = 0`: the code relies on the predictor's floor. -/
def core (Φ : α → α) (c best mean var : α) : Core α :=
  let s := Arith.sqrt var
  let z := (best - mean) / s
  { mean := mean, var := var, sqrtVar := s, z := z, cdf := Φ z, pdf := pdf c z }

/-- the `z` the model computes (first step of the two-step exchange with the harness) -/
def zOf (best mean var : α) : α := (best - mean) / Arith.sqrt var

/-! ### Expected improvement and its penalised forms (expected_improvement.py) -/

/-- `_evaluate_at_point_list_normalized`: `sqrt_var * fmax(0.0, z * cdf_z + pdf_z)`. -/
def eiNorm (k : Core α) : α := k.sqrtVar * Arith.max 0 (k.z * k.cdf + k.pdf)

/-- analytic EI at a point whose posterior is `(mean, var)` for the incumbent `best` -/
def ei (Φ : α → α) (c best : α) (mv : α × α) : α := eiNorm (core Φ c best mv.1 mv.2)

/-- `AugmentedExpectedImprovement._evaluate_penalty`:
    `adjusted_var = var + noise_variance; penalty = 1 - sqrt(noise_variance / adjusted_var)`. -/
def aeiPenalty (noise var : α) : α := 1 - Arith.sqrt (noise / (var + noise))

/-- `numpy.mean(points_sampled_noise_variance)` -/
def meanOf (xs : List α) : α := Arith.sum xs / Arith.ofNat xs.length

/-- `ExpectedImprovementWithPenalty._evaluate_at_point_list_penalty`: `ei * penalty`. -/
def eiWithPenalty (Φ : α → α) (c best : α) (mv : α × α) (penalty : α) : α := ei Φ c best mv * penalty

def aei (Φ : α → α) (c best noise : α) (mv : α × α) : α :=
  eiWithPenalty Φ c best mv (aeiPenalty noise mv.2)

/-- `ExpectedImprovementWithFailures`: the penalty is the success probability at the point. -/
def eiwf (Φ : α → α) (c best : α) (mv : α × α) (pSuccess : α) : α := eiWithPenalty Φ c best mv pSuccess

/-- `MultitaskAcquisitionFunction._evaluate_at_point_list`: `af_vals / task_costs`. -/
def multitask (value cost : α) : α := value / cost

/-! ### Success probabilities (probabilistic_failures.py) -/

def cap : α := ofRat Gen.compute_probabilistic_failures_POSITIVE_EXPONENT_CAP
def defaultKappa : α := ofRat Gen.compute_probabilistic_failures_DEFAULT_KAPPA

def lmin (x : α) (xs : List α) : α := xs.foldl Arith.min x
def lmax (x : α) (xs : List α) : α := xs.foldl Arith.max x

/-- `ProbabilisticFailures.__init__`: `kappa = DEFAULT_KAPPA` when `ptp(values) == 0`, else
    `log(9) / (0.1 * ptp(values))`.  (`ptp = max - min ≥ 0`, so `== 0` is `¬ 0 < ptp`.) -/
def kappa : List α → α
  | [] => defaultKappa
  | x :: xs =>
    let r := lmax x xs - lmin x xs
    if 0 < r then Arith.log (Arith.ofNat 9) / ((Arith.ofNat 1 / Arith.ofNat 10) * r) else defaultKappa

/-- `1 / (1 + exp(fmin(kappa * (mean - threshold), POSITIVE_EXPONENT_CAP)))` -/
def pfLogistic (κ t μ : α) : α := 1 / (1 + Arith.exp (Arith.min (κ * (μ - t)) cap))

/-- `ProbabilisticFailuresCDF`: `best_value := threshold`, probability `= cdf_z`. -/
def pfCdf (Φ : α → α) (c t : α) (mv : α × α) : α := (core Φ c t mv.1 mv.2).cdf

/-- `numpy.prod(poss, axis=0)` at one point: left-to-right product of the individual probabilities. -/
def pfProduct (ps : List α) : α := ps.foldl (· * ·) 1

/-! ### Batched evaluation (acquisition_function.py: evaluate_at_point_list) -/

/-- the `while current_index < len(eval_result)` loop: evaluate `f` on consecutive chunks of
    `bs` points and write the results one after another -/
def batched {X Y : Type} (f : List X → List Y) (bs : Nat) (xs : List X) : List Y :=
  if h : bs = 0 ∨ xs = [] then []
  else f (xs.take bs) ++ batched f bs (xs.drop bs)
termination_by xs.length
decreasing_by
  have h1 : bs ≠ 0 := fun e => h (Or.inl e)
  have h2 : xs ≠ [] := fun e => h (Or.inr e)
  have h3 : 0 < xs.length := List.length_pos_iff.mpr h2
  simp only [List.length_drop]
  omega

/-- `evaluate_at_point_list(points, batch_size)`: `batch_size = batch_size or len(points)`; the
    assertion `batch_size > 0` rejects (only) an empty point list without batch size. -/
def evalAtPointList {X Y : Type} (f : List X → List Y) (batchSize : Option Nat) (xs : List X) :
    Option (List Y) :=
  let bs := match batchSize with
    | none => xs.length
    | some 0 => xs.length
    | some b => b
  if bs = 0 then none else some (batched f bs xs)

/-! ### Incumbents -/

/-- `numpy.argmin`: index of the first minimum (scan keeping the first strictly smaller value). -/
def argminFrom (best : α) (bi i : Nat) : List α → Nat
  | [] => bi
  | x :: xs => if x < best then argminFrom x i (i + 1) xs else argminFrom best bi (i + 1) xs

def argmin : List α → Nat
  | [] => 0
  | x :: xs => argminFrom x 0 1 xs

/-- `AcquisitionFunction.__init__`: index of `predictor.best_observed_value` (first arg-min). -/
def bestObserved (vals : List α) : Nat := argmin vals

/-- `AugmentedExpectedImprovement.__init__`: quantile values `mean + norm.ppf(0.75) * sqrt(var)` at the
    sampled points; incumbent index = their first arg-min; incumbent VALUE = posterior mean there. -/
def quantileValues (q : α) (means vars : List α) : List α :=
  List.zipWith (fun m v => m + q * Arith.sqrt v) means vars

def bestQuantile (q : α) (means vars : List α) : Nat := argmin (quantileValues q means vars)

def minAcceptable : α := ofRat Gen.compute_expected_improvement_MINIMUM_ACCEPTABLE_FAILURE_BEST_POINT_PROBABILITY

/-- indices `i` (ascending) with `probs[i] > 0.5` -/
def acceptableFrom (i : Nat) : List α → List Nat
  | [] => []
  | p :: ps => if (minAcceptable : α) < p then i :: acceptableFrom (i + 1) ps else acceptableFrom (i + 1) ps

/-- `_get_best_location_value_not_failure`: among the sampled points whose success probability exceeds
    0.5 the first one with the smallest value; when there is none, the best observed point. -/
def bestLikelySuccess (probs vals : List α) : Nat :=
  let acc := acceptableFrom 0 probs
  match acc with
  | [] => bestObserved vals
  | _ => acc.getD (argmin (acc.map fun i => vals.getD i default)) 0

end C05
