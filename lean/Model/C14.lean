/-
  C14 — multi-metric scheduling and data filtering.
  The phase selectors themselves are GENERATED from the Python source (Model/Generated/Phases.lean);
  this file holds the hand-written *specification* they are proved to refine (stages through the
  documented fractions), the weight / epsilon grids, and the six filters as pure list functions.
-/
import Model.Generated.Constants
import Model.Generated.Phases

namespace C14
open Gen

/-! ### Stage specification of the multi-metric selector -/

/-- documented fractions (the generated function is proved equal to the spec built from these) -/
abbrev fInit : Rat := 3 / 20
abbrev fInitCompleted : Rat := 1 / 10
abbrev fOne : Rat := 3 / 10
abbrev fRandom : Rat := 9 / 20
abbrev fSpread : Rat := 11 / 20
def fPolish (thr : Bool) : Rat := if thr then fSpread else 13 / 20
abbrev fEps : Rat := 19 / 20

/-- stage index 0..6 as a function of the two progress fractions -/
def mmStage (thr : Bool) (served completed : Rat) : Nat :=
  if served ≤ fInit ∨ completed ≤ fInitCompleted then 0
  else if served ≤ fOne then 1
  else if served ≤ fRandom then 2
  else if served ≤ fSpread then 3
  else if served ≤ fPolish thr then 4
  else if served ≤ fEps then 5
  else 6

def parityLabel (count : Int) (odd even : MMPhase) : MMPhase := if count % 2 ≠ 0 then odd else even

/-- label and phase argument of a stage -/
def mmOfStage (thr : Bool) (served : Rat) (count : Int) : Nat → MMPhase × Option Rat
  | 0 => (.INITIALIZATION, none)
  | 1 => (parityLabel count .OPTIMIZING_ONE_METRIC_OPTIMIZE_1 .OPTIMIZING_ONE_METRIC_OPTIMIZE_0, none)
  | 2 => (.CONVEX_COMBINATION_RANDOM_SPREAD, some ((served - fOne) / (fRandom - fOne)))
  | 3 => (.CONVEX_COMBINATION_SEQUENTIAL, some ((served - fRandom) / (fSpread - fRandom)))
  | 4 => (parityLabel count .OPTIMIZING_ONE_METRIC_OPTIMIZE_1 .OPTIMIZING_ONE_METRIC_OPTIMIZE_0, none)
  | 5 => (parityLabel count .EPSILON_CONSTRAINT_OPTIMIZE_1 .EPSILON_CONSTRAINT_OPTIMIZE_0,
          some ((served - fPolish thr) / (fEps - fPolish thr)))
  | _ => (.COMPLETION, none)

/-- the selector written over the two progress fractions (same shape as the generated code) -/
def mmSpec (thr : Bool) (s c : Rat) (count : Int) : MMPhase × Option Rat :=
  if s ≤ fInit ∨ c ≤ fInitCompleted then (.INITIALIZATION, none)
  else if s ≤ fOne then
    (if count % 2 ≠ 0 then .OPTIMIZING_ONE_METRIC_OPTIMIZE_1 else .OPTIMIZING_ONE_METRIC_OPTIMIZE_0, none)
  else if s ≤ fRandom then (.CONVEX_COMBINATION_RANDOM_SPREAD, some ((s - fOne) / (fRandom - fOne)))
  else if s ≤ fSpread then (.CONVEX_COMBINATION_SEQUENTIAL, some ((s - fRandom) / (fSpread - fRandom)))
  else if s ≤ fPolish thr then
    (if count % 2 ≠ 0 then .OPTIMIZING_ONE_METRIC_OPTIMIZE_1 else .OPTIMIZING_ONE_METRIC_OPTIMIZE_0, none)
  else if s ≤ fEps then
    (if count % 2 ≠ 0 then .EPSILON_CONSTRAINT_OPTIMIZE_1 else .EPSILON_CONSTRAINT_OPTIMIZE_0,
      some ((s - fPolish thr) / (fEps - fPolish thr)))
  else (.COMPLETION, none)

def adjustedBudget (budget failures opens : Int) : Int := max (budget - failures) (max opens 1)
def served (budget count failures opens : Int) : Rat :=
  ((count + opens : Int) : Rat) / (adjustedBudget budget failures opens : Rat)
def completed (budget count failures opens : Int) : Rat :=
  (count : Rat) / (adjustedBudget budget failures opens : Rat)

def searchRank : SearchPhase → Nat
  | .SEARCH_INITIALIZATION_PHASE => 0
  | .SEARCH_EXPLOITATION_PHASE => 1
  | .SEARCH_EXPLORE_RESOLVE_PHASE => 2

def speRank : SPEPhase → Nat
  | .INITIALIZATION_PHASE => 0
  | .SKO_PHASE => 1
  | .COMPLETION_PHASE => 2

/-! ### Weights and epsilon -/

abbrev border : Rat := Gen.compute_misc_multimetric_BORDER_BUFFER

/-- `int(100 * f)` for `0 ≤ f` -/
def weightIndex (f : Rat) : Nat := (100 * f).floor.toNat

/-- `numpy.linspace(B, 1-B, 101)[i]` -/
def gridPoint (i : Nat) : Rat := border + (i : Rat) * ((1 - border - border) / 100)

/-- sequential convex weights and epsilon for a fraction in [0,1] -/
def gridWeights (f : Rat) : Rat × Rat := (gridPoint (weightIndex f), 1 - gridPoint (weightIndex f))
def epsilonOf (f : Rat) : Rat := gridPoint (weightIndex f)

/-- random-spread weights: the Halton point is an oracle value `h ∈ [0,1)` mapped affinely -/
def haltonWeights (h : Rat) : Rat × Rat :=
  let w := border + h * (1 - border - border)
  (w, 1 - w)

/-! ### Filters (rows = observations; `vals`/`vars` are n×2 as lists of pairs) -/

structure Filtered where
  points : List (List Rat)
  values : List Rat
  vars : List Rat
  lie : Rat
  deriving Repr

def col (k : Nat) (p : Rat × Rat) : Rat := if k = 0 then p.1 else p.2

/-- keep the rows whose mask entry is false -/
def keepNot {α} : List α → List Bool → List α
  | x :: xs, m :: ms => if m then keepNot xs ms else x :: keepNot xs ms
  | _, _ => []

/-- overwrite entries whose mask is true -/
def overwrite (v : Rat) : List Rat → List Bool → List Rat
  | x :: xs, m :: ms => (if m then v else x) :: overwrite v xs ms
  | xs, [] => xs
  | [], _ => []

def filterNotMultimetric (pts : List (List Rat)) (vals vars : List (Rat × Rat)) (lies : Rat × Rat) : Filtered :=
  { points := pts, values := vals.map (col 0), vars := vars.map (col 0), lie := lies.1 }

def filterOneMetric (opt : Nat) (pts : List (List Rat)) (vals vars : List (Rat × Rat)) (lies : Rat × Rat) : Filtered :=
  { points := pts, values := vals.map (col opt), vars := vars.map (col opt), lie := col opt lies }

/-- weighted sum (Parzen path): Σ wᵢ colᵢ and Σ wᵢ² varᵢ -/
def filterConvex (w : Rat × Rat) (pts : List (List Rat)) (vals vars : List (Rat × Rat)) (lies : Rat × Rat) : Filtered :=
  { points := pts,
    values := vals.map fun p => p.1 * w.1 + p.2 * w.2,
    vars := vars.map fun p => p.1 * w.1 ^ 2 + p.2 * w.2 ^ 2,
    lie := lies.1 * w.1 + lies.2 * w.2 }

/-- sum-of-GPs path keeps both columns -/
structure Filtered2 where
  points : List (List Rat)
  values : List (Rat × Rat)
  vars : List (Rat × Rat)
  lie : Rat × Rat

def filterSumOfGps (pts : List (List Rat)) (vals vars : List (Rat × Rat)) (lies : Rat × Rat) : Filtered2 :=
  { points := pts, values := vals, vars := vars, lie := lies }

/-- GP variant: drop the rows flagged by the (epsilon ∘ minimum-success) mask -/
def filterProbFailure (opt : Nat) (mask : List Bool) (pts : List (List Rat)) (vals vars : List (Rat × Rat))
    (lies : Rat × Rat) : Filtered :=
  { points := keepNot pts mask, values := keepNot (vals.map (col opt)) mask,
    vars := keepNot (vars.map (col opt)) mask, lie := col opt lies }

/-- Parzen variant: keep all rows, overwrite flagged ones with the lie -/
def filterEpsilon (opt : Nat) (mask : List Bool) (pts : List (List Rat)) (vals vars : List (Rat × Rat))
    (lies : Rat × Rat) : Filtered :=
  { points := pts, values := overwrite (col opt lies) (vals.map (col opt)) mask,
    vars := vars.map (col opt), lie := col opt lies }

/-- SPE dispatcher post-step: for every method but epsilon-constraint, observed failures get the lie -/
def speOverwrite (isEps : Bool) (lie : Rat) (values : List Rat) (fails : List Bool) : List Rat :=
  if isEps then values else overwrite lie values fails

/-- `identify_scaled_values_exceeding_scaled_upper_thresholds` for two columns (none = NaN threshold) -/
def exceeds (thr : Option Rat × Option Rat) (p : Rat × Rat) : Bool :=
  !((match thr.1 with | none => true | some t => decide (p.1 < t)) &&
    (match thr.2 with | none => true | some t => decide (p.2 < t)))

end C14
