/-
  C19 — search acquisition (libsigopt/compute/search.py, libsigopt/aux/geometry_utils.py,
  libsigopt/compute/acquisition_function.py, libsigopt/views/rest/search_next_points.py).

  Exact model over `Rat`, built on the shared one-hot layout of Model/Domain.lean.

  What the code does, one point at a time:
    * `map_non_categorical_points_to_unit_hypercube`   every one-hot coordinate j ↦ (x_j − lo_j)/(hi_j − lo_j)
      with (lo_j, hi_j) the row of `one_hot_domain.domain_bounds` (categorical coordinates have the row (0,1),
      so they are unchanged; quantized coordinates use (min, max) of their elements);
    * `round_one_hot_points_categorical_values_to_target`   every categorical block is replaced by the vector
      that carries `target` at the FIRST arg-max of the block and 0 elsewhere;
    * `convert_one_hot_to_search_hypercube_points`   the composition, with `target = numpy.sqrt(one_hot_dim)`.
      The float square root is a rational number `t`; it is a parameter of the model and every theorem holds
      for every `t` (the bound "≥ √d" needs `d ≤ 2·t²`, far weaker than `t ≈ √d`);
    * `compute_distance_matrix_squared`   fmax(0, |u|² + |w|² − 2 u·w)   (expanded form, clamped at 0);
    * `ProbabilityOfImprovementSearch._evaluate_at_point_list_normalized`   the success probability `p` of the
      failure model (an input here: its range / product law is C05's), overwritten by 0 where ANY repulsor has
      squared distance STRICTLY below `distance_parameter`;
    * `add_normalized_repulsor_point`   appends the search-space images of the given one-hot points;
    * `AcquisitionFunction.evaluate_at_point_list`   the while loop over chunks of `batch_size` rows;
    * `search_strategy_optimization`   `C15.searchLoopAux` (Model/C15.lean), instantiated here with picks mapped
      into the search space.
-/
import Model.Domain
import Model.C09
import Model.C15

namespace C19
open Dom

/-! ### Unit-cube maps -/

/-- one coordinate of `map_non_categorical_points_to_unit_hypercube` -/
def toUnit1 (b : Rat × Rat) (x : Rat) : Rat := (x - b.1) / (b.2 - b.1)

/-- one coordinate of `map_non_categorical_points_from_unit_hypercube` -/
def fromUnit1 (b : Rat × Rat) (u : Rat) : Rat := u * (b.2 - b.1) + b.1

/-- `(one_hot_points - lower) / (upper - lower)` for one row (the code asserts equal lengths) -/
def toUnit : List (Rat × Rat) → List Rat → List Rat
  | b :: bs, x :: xs => toUnit1 b x :: toUnit bs xs
  | _, _ => []

/-- `unit_search_points * (upper - lower) + lower` for one row -/
def fromUnit : List (Rat × Rat) → List Rat → List Rat
  | b :: bs, u :: us => fromUnit1 b u :: fromUnit bs us
  | _, _ => []

/-- every row of the bounds has `lo < hi` (`ContinuousDomain` of a well-formed domain) -/
def boundsOK (bs : List (Rat × Rat)) : Bool := bs.all fun b => decide (b.1 < b.2)

/-! ### Categorical blocks → target -/

/-- the block of length `k` that is `t` at index `i` and 0 elsewhere
    (`one_hot_points[:, cat_indices] = 0; one_hot_points[row, cat_indices[0] + best] = target`) -/
def targetVec : Nat → Nat → Rat → List Rat
  | 0, _, _ => []
  | k + 1, 0, t => t :: List.replicate k 0
  | k + 1, i + 1, t => 0 :: targetVec k i t

def roundCatTarget (t : Rat) : Component → List Rat → List Rat
  | .cat _, b => targetVec b.length (C09.argmaxFirst b) t
  | _, b => b

/-- `round_one_hot_points_categorical_values_to_target` (one row) -/
def roundToTarget (t : Rat) : List Component → List Rat → List Rat := C09.mapBlocks (roundCatTarget t)

/-- `convert_one_hot_to_search_hypercube_points` (one row); `t` is the library's `numpy.sqrt(one_hot_dim)` -/
def toSearch (cs : List Component) (t : Rat) (x : List Rat) : List Rat :=
  roundToTarget t cs (toUnit (relaxedBox cs) x)

/-- some categorical component's first arg-max differs between the two one-hot points -/
def catDiffer : List Component → List Rat → List Rat → Bool
  | [], _, _ => false
  | c :: cs, x, y =>
    (c.isCat && decide (C09.argmaxFirst (x.take c.width) ≠ C09.argmaxFirst (y.take c.width)))
      || catDiffer cs (x.drop c.width) (y.drop c.width)

/-! ### Squared distance -/

def sumSq : List Rat → Rat
  | [] => 0
  | x :: xs => x * x + sumSq xs

/-- `compute_distance_matrix_squared`, one entry: expanded form, clamped at 0 -/
def dist2 (x z : List Rat) : Rat := max 0 (sumSq x + sumSq z - 2 * dot x z)

/-- Σ (xᵢ − zᵢ)² — the quantity the expanded form stands for (proved equal for equal lengths) -/
def sqDist : List Rat → List Rat → Rat
  | x :: xs, z :: zs => (x - z) * (x - z) + sqDist xs zs
  | _, _ => 0

/-! ### The two parts of a search distance (theorem `search_dist_decomposition`) -/

/-- number of categorical components whose first arg-max differs -/
def numDiffer : List Component → List Rat → List Rat → Nat
  | [], _, _ => 0
  | c :: cs, x, y =>
    (if c.isCat && decide (C09.argmaxFirst (x.take c.width) ≠ C09.argmaxFirst (y.take c.width)) then 1 else 0)
      + numDiffer cs (x.drop c.width) (y.drop c.width)

/-- squared distance contributed by the numeric (non-categorical) coordinates, in unit-cube coordinates -/
def numericSq : List Component → List Rat → List Rat → Rat
  | [], _, _ => 0
  | c :: cs, x, y =>
    (if c.isCat then 0 else sqDist (toUnit c.bounds (x.take c.width)) (toUnit c.bounds (y.take c.width)))
      + numericSq cs (x.drop c.width) (y.drop c.width)

/-! ### Acquisition value -/

/-- `numpy.any(distance < self.distance_parameter, axis=0)` for one evaluation point -/
def similar (reps : List (List Rat)) (r2 : Rat) (sx : List Rat) : Bool :=
  reps.any fun rep => decide (dist2 rep sx < r2)

/-- `_evaluate_at_point_list_normalized`, one entry -/
def value (p : Rat) (reps : List (List Rat)) (r2 : Rat) (sx : List Rat) : Rat :=
  if similar reps r2 sx then 0 else p

/-- The acquisition function object: domain layout, target `t`, repulsors (already in search coordinates),
    `distance_parameter`. -/
structure AF where
  comps : List Component
  t : Rat
  reps : List (List Rat)
  r2 : Rat

/-- `add_normalized_repulsor_point` (rows are one-hot points) -/
def addRepulsor (af : AF) (pts : List (List Rat)) : AF :=
  { af with reps := af.reps ++ pts.map (toSearch af.comps af.t) }

/-- `ProbabilityOfImprovementSearch(domain, failure_model, distance_parameter, repulsor_points)` -/
def mkAF (cs : List Component) (t r2 : Rat) (reps : List (List Rat)) : AF :=
  addRepulsor { comps := cs, t := t, reps := [], r2 := r2 } reps

/-- value at one one-hot point `x` whose success probability is `p` -/
def evalPoint (af : AF) (p : Rat) (x : List Rat) : Rat := value p af.reps af.r2 (toSearch af.comps af.t x)

/-- `_evaluate_at_point_list` on one chunk; `pf` is the failure model's success probability as a function of
    the one-hot point (an oracle) -/
def evalChunk (af : AF) (pf : List Rat → Rat) (xs : List (List Rat)) : List Rat :=
  xs.map fun x => evalPoint af (pf x) x

/-! ### Batched evaluation (`AcquisitionFunction.evaluate_at_point_list`) -/

/-- the while loop: evaluate `xs[cur : min(cur + b, n)]`, advance; `fuel` bounds the number of rounds -/
def batchedAux {α β} (f : List α → List β) (b : Nat) : Nat → List α → List β
  | 0, _ => []
  | fuel + 1, xs => if xs.isEmpty then [] else f (xs.take b) ++ batchedAux f b fuel (xs.drop b)

/-- `batch_size = batch_size or n; assert int(batch_size) == batch_size and batch_size > 0`:
    `None`/0 mean "all rows in one chunk"; a resulting batch size 0 (empty input) is rejected (`none`). -/
def batched {α β} (f : List α → List β) (batchSize : Option Nat) (xs : List α) : Option (List β) :=
  let b := match batchSize with
    | none => xs.length
    | some 0 => xs.length
    | some b => b
  if b = 0 then none else some (batchedAux f b xs.length xs)

def evaluate (af : AF) (pf : List Rat → Rat) (batchSize : Option Nat) (xs : List (List Rat)) : Option (List Rat) :=
  batched (evalChunk af pf) batchSize xs

/-! ### The optimisation loop (`search_strategy_optimization`)
    `C15.searchLoopAux` with the repulsor list kept in search coordinates: the optimiser `pick` sees the current
    repulsors and radius and returns a one-hot point; its search image is appended, the radius is redrawn. -/

abbrev LoopState := C15.SearchAF (List Rat)

def ofLoopState (cs : List Component) (t : Rat) (s : LoopState) : AF :=
  { comps := cs, t := t, reps := s.repulsors, r2 := s.radius }

/-- picks (in search coordinates), the states each pick saw, the state after the last pick -/
def searchRun (cs : List Component) (t : Rat) (pick : LoopState → List Rat) (radii : List Rat) (s : LoopState) :
    List (List Rat) × List LoopState × LoopState :=
  C15.searchLoopAux (fun st => toSearch cs t (pick st)) radii s

/-- `get_distance_parameter(dim)`: `dim * choice([0.04, 0.01, 0.0025, 0.0004])`; `i` is the drawn index -/
def scheduleValues : List Rat := [4 / 100, 1 / 100, 25 / 10000, 4 / 10000]
def distanceParameter (dim : Nat) (i : Nat) : Rat := (dim : Rat) * scheduleValues.getD i (4 / 100)

end C19
