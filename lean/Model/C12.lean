/-
  C12 — metric normalisation (libsigopt/compute/misc/data_containers.py:
  SingleMetricMidpointInfo / MultiMetricMidpointInfo / MetricMidpointInfo).
  Exact model over `Rat`.  Constants come from the generated file.
-/
import Model.Generated.Constants

namespace C12

inductive Objective | maximize | minimize
  deriving DecidableEq, Repr

/-- `get_negate_from_objective`: 1 for "minimize", -1 otherwise (including `None`). -/
def negateOf : Objective → Rat
  | .minimize => 1
  | .maximize => -1

/-- `values[logical_not(failures)]` -/
def nonFail : List Rat → List Bool → List Rat
  | v :: vs, f :: fs => if f then nonFail vs fs else v :: nonFail vs fs
  | _, _ => []

def lmin (x : Rat) (xs : List Rat) : Rat := xs.foldl min x
def lmax (x : Rat) (xs : List Rat) : Rat := xs.foldl max x

def rabs (x : Rat) : Rat := if x < 0 then -x else x

structure Info where
  skip : Bool
  mid : Rat
  scale : Rat
  negate : Rat
  deriving Repr

abbrev scaleFactor : Rat := Gen.compute_misc_data_containers_MIDPOINT_NORMALIZATION_SCALE_FACTOR
abbrev minHalfWidth : Rat := Gen.compute_misc_data_containers_MINIMUM_METRIC_HALF_WIDTH
abbrev minValueVar : Rat := Gen.aux_constant_MINIMUM_VALUE_VAR
abbrev defaultLie : Rat := Gen.compute_misc_constant_DEFAULT_CONSTANT_LIAR_VALUE
/-- the literal `1e-6` of the skip branch of `relative_objective_variance` -/
abbrev skipVarFloor : Rat := (1 : Rat) / 1000000

/-- The three branches of `SingleMetricMidpointInfo.__init__` on the non-failed values. -/
def infoOf (nf : List Rat) (obj : Objective) : Info :=
  match nf with
  | [] => { skip := true, mid := 0, scale := 1, negate := negateOf obj }
  | x :: xs =>
    let mn := lmin x xs
    let mx := lmax x xs
    if (mx - mn) * (1 / 2) < minHalfWidth then
      if min (rabs mx) (rabs mn) > 1 then
        { skip := false, mid := mn, scale := 1 / max (rabs mn) (rabs mx), negate := negateOf obj }
      else
        { skip := false, mid := 0, scale := 1, negate := negateOf obj }
    else
      { skip := false, mid := (mx + mn) * (1 / 2), scale := 2 * scaleFactor / (mx - mn),
        negate := negateOf obj }

def info (vals : List Rat) (fails : List Bool) (obj : Objective) : Info :=
  infoOf (nonFail vals fails) obj

/-- `relative_objective_value` -/
def fwd (i : Info) (v : Rat) : Rat :=
  if i.skip then i.negate * v else i.negate * i.scale * (v - i.mid)

/-- `undo_scaling` -/
def inv (i : Info) (w : Rat) : Rat :=
  if i.skip then i.negate * w else i.negate * w / i.scale + i.mid

/-- `relative_objective_variance` (numpy.fmax with the floor) -/
def fwdVar (i : Info) (s : Rat) : Rat :=
  if i.skip then max s skipVarFloor else max (s * i.scale ^ 2) minValueVar

/-- `undo_scaling_variances` -/
def invVar (i : Info) (s : Rat) : Rat :=
  if i.skip then s else s / i.scale ^ 2

inductive Lie | cmin | cmax | cmean
  deriving DecidableEq, Repr

def lsum : List Rat → Rat
  | [] => 0
  | x :: xs => x + lsum xs

/-- `compute_lie_value` on the non-failed values. -/
def lieOf (nf : List Rat) (obj : Objective) (m : Lie) : Rat :=
  match nf with
  | [] => defaultLie
  | x :: xs =>
    match m, obj with
    | .cmin, .maximize => lmin x xs
    | .cmin, .minimize => lmax x xs
    | .cmax, .maximize => lmax x xs
    | .cmax, .minimize => lmin x xs
    | .cmean, _ => lsum (x :: xs) / ((x :: xs).length : Rat)

def lie (vals : List Rat) (fails : List Bool) (obj : Objective) (m : Lie) : Rat :=
  lieOf (nonFail vals fails) obj m

/-- Multi-metric wrapper: one `Info` per column, `force_skip` contagious. -/
def multi (cols : List (List Rat)) (fails : List Bool) (objs : List Objective) : List Info :=
  let infos := (cols.zip objs).map fun (c, o) => info c fails o
  let anySkip := infos.any (·.skip)
  infos.map fun i => { i with skip := i.skip || anySkip }

/-- "user's sense" comparison: `a` is strictly better than `b`. -/
def better (obj : Objective) (a b : Rat) : Prop :=
  match obj with
  | .maximize => a > b
  | .minimize => a < b

end C12
