/-
  C04 — every analytic gradient next to the value it accompanies, over the polymorphic signature
  `Arith α` (run on `Float` by `drv_c04`, reasoned about on `ℝ` in Properties/C04.lean).

  Values of the kernels come from Model/Kernels.lean (C03); this file adds, as the code computes them:

  * covariance.py / covariance_base.py
      `eval_radial_kernel_grad(d², diff)`      = scale(d²)[:, :, None] * diff / l²         (`dphi`, `gradCoords`)
      `eval_radial_kernel_hparam_grad`         = scale'(d²)[:, :, None] * diff² / l³       (`hphi`, `hparamCoords`)
      `_grad_covariance`, `_hyperparameter_grad_covariance_without_process_variance`: the same from
      r = sqrt(d²) (`dphiR`, `hphiR`); alpha multiplies ONCE, outside; column 0 of the hyperparameter
      gradient is the kernel value without alpha.  None of the formulas divides by r: at coincident
      points the difference is 0 and the gradient is exactly 0.
      `diff = eval_points − data`: the gradient is w.r.t. the FIRST argument (points to sample / rows).
  * multitask_covariance.py: product rule, physical block `* task value`, task column `* physical value`.
  * python_utils.build_grad_polynomial_tensor, gaussian_process.py (mean: linear in the cross-kernel
    gradient; variance: `-2 Σ_j ∂k_j (K⁻¹k)_j`, value clamped below by MINIMUM_KRIGING_VARIANCE while the
    gradient is NOT clamped), gaussian_process_sum.py (weights w, w²).
  * predictor.compute_core_components: sqrt_var, grad_sqrt_var = 0.5 * grad_var / sqrt_var, z, pdf.
    The normal CDF is an INPUT (`cdf`), supplied by the harness for the z the model computed; the pdf is
    `exp(-z²/2) / C` with C = sqrt(2π) an input as well (`Arith` has no π) — the derivative facts the
    theorems use hold for every C.
  * expected_improvement.py (EI, AEI penalty, EI × penalty), probabilistic_failures.py (logistic with
    the capped exponent — the gradient keeps the factor `exp(min(·, cap))` also beyond the cap, exactly as
    coded —, CDF, product over a list with the "all but i" products), multitask_acquisition_function.py
    (cost scaling, last coordinate), sigopt_parzen_estimator.py (ratio gradient; the floor belongs to the
    lower DENSITY only — `lowerDensityGradFloorAdded` is what the code did before the repair),
    log_likelihood.py (trace formula, scaling factor, log-domain scaling).
-/
import Model.Generated.Constants
import Model.Kernels
import Model.C16

namespace C04
open Kernels Arith

/-! ## Constants (regenerated from the source on every run) -/

abbrev exponentCapQ : Rat := Gen.compute_probabilistic_failures_POSITIVE_EXPONENT_CAP
abbrev minKrigingVarQ : Rat := Gen.compute_gaussian_process_MINIMUM_KRIGING_VARIANCE
abbrev lowerFloorQ : Rat := Gen.compute_sigopt_parzen_estimator_SPE_MINIMUM_LOWER_DENSITY_VALUE

section arith
variable {α : Type} [Arith α]

/-- `0.5` -/
def half : α := 1 / two

/-- `POSITIVE_EXPONENT_CAP` -/
def exponentCap : α := C16.ofRatNonneg exponentCapQ
/-- `MINIMUM_KRIGING_VARIANCE` -/
def minKrigingVar : α := C16.ofRatNonneg minKrigingVarQ
/-- `SPE_MINIMUM_LOWER_DENSITY_VALUE` -/
def lowerFloor : α := C16.ofRatNonneg lowerFloorQ

/-! ## Radial kernels: factors of the gradients -/

/-- `eval_radial_kernel_grad`: the factor that multiplies `diff / l²`, as a function of r².
    `C0RadialMatern` is not a `DifferentiableRadialCovariance`: there is no code, the entry is never used. -/
def dphi : Kind → α → α
  | .se, d => -(Arith.exp (-(d / two)))
  | .c0, _ => 0
  | .c2, d => -(Arith.exp (-(Arith.sqrt d)))
  | .c4, d => -(1 / three) * (1 + Arith.sqrt d) * Arith.exp (-(Arith.sqrt d))

/-- `_grad_covariance`: the same factor from r (pairwise path) -/
def dphiR : Kind → α → α
  | .se, r => -(Arith.exp (-(sq r / two)))
  | .c0, _ => 0
  | .c2, r => -(Arith.exp (-r))
  | .c4, r => -(1 / three) * (1 + r) * Arith.exp (-r)

/-- `eval_radial_kernel_hparam_grad`: the factor that multiplies `diff² / l³`, as a function of r² -/
def hphi : Kind → α → α
  | .se, d => Arith.exp (-(d / two))
  | .c0, _ => 0
  | .c2, d => Arith.exp (-(Arith.sqrt d))
  | .c4, d => (1 / three) * (1 + Arith.sqrt d) * Arith.exp (-(Arith.sqrt d))

/-- `_hyperparameter_grad_covariance_without_process_variance`: the same from r -/
def hphiR : Kind → α → α
  | .se, r => Arith.exp (-(sq r / two))
  | .c0, _ => 0
  | .c2, r => Arith.exp (-r)
  | .c4, r => (1 / three) * (1 + r) * Arith.exp (-r)

/-- `scale * diff / l²`, one entry per coordinate (`diff = x − z`, x the first argument) -/
def gradCoords (c : α) : List α → List α → List α → List α
  | l :: ls, a :: as, b :: bs => (c * (a - b)) / (l * l) :: gradCoords c ls as bs
  | _, _, _ => []

/-- `scale * diff² / l³`, one entry per length scale -/
def hparamCoords (c : α) : List α → List α → List α → List α
  | l :: ls, a :: as, b :: bs => (c * ((a - b) * (a - b))) / (l * l * l) :: hparamCoords c ls as bs
  | _, _, _ => []

/-- `process_variance * (…)` -/
def scaleBy (alpha : α) (v : List α) : List α := v.map (alpha * ·)

/-! ### Radial entry points.  `dist` is the squared-distance formula of the entry point
    (`r2` reference, `r2Scaled` symmetric matrix, `r2Expanded` cross matrix; see Model/Kernels.lean). -/

abbrev Dist (α : Type) := List α → List α → List α → α

/-- gradient of `alpha · phi(r²(x, z))` w.r.t. the coordinates of `x`, matrix path -/
def gradRowWith (dist : Dist α) (k : Kind) (alpha : α) (ls x z : List α) : List α :=
  scaleBy alpha (gradCoords (dphi k (dist ls x z)) ls x z)

/-- gradient w.r.t. the hyperparameters `[alpha, l_1, …]`, matrix path -/
def hparamRowWith (dist : Dist α) (k : Kind) (alpha : α) (ls x z : List α) : List α :=
  phi k (dist ls x z) :: scaleBy alpha (hparamCoords (hphi k (dist ls x z)) ls x z)

/-- Reference closed forms (squared distance `r2`). -/
def gradKernelX (k : Kind) (alpha : α) (ls x z : List α) : List α := gradRowWith r2 k alpha ls x z
def gradKernelH (k : Kind) (alpha : α) (ls x z : List α) : List α := hparamRowWith r2 k alpha ls x z

/-- `grad_covariance(x, z)` for one pair of rows (pairwise path: r = sqrt r², squared again for SE) -/
def gradCovariance (k : Kind) (alpha : α) (ls x z : List α) : List α :=
  scaleBy alpha (gradCoords (dphiR k (Arith.sqrt (r2 ls x z))) ls x z)

/-- `hyperparameter_grad_covariance(x, z)` for one pair of rows -/
def hyperGradCovariance (k : Kind) (alpha : α) (ls x z : List α) : List α :=
  phiR k (Arith.sqrt (r2 ls x z)) ::
    scaleBy alpha (hparamCoords (hphiR k (Arith.sqrt (r2 ls x z))) ls x z)

/-- `build_kernel_grad_tensor(X)`: T[i][j] = ∂/∂x_i K(x_i, x_j) -/
def gradTensor (k : Kind) (alpha : α) (ls : List α) (X : List (List α)) : List (List (List α)) :=
  X.map fun xi => X.map fun xj => gradRowWith r2Scaled k alpha ls xi xj

/-- `build_kernel_grad_tensor(points_sampled = X, points_to_sample = Z)`: T[i][j] = ∂/∂z_i K(z_i, x_j) -/
def gradCrossTensor (k : Kind) (alpha : α) (ls : List α) (X Z : List (List α)) : List (List (List α)) :=
  Z.map fun zi => X.map fun xj => gradRowWith r2Expanded k alpha ls zi xj

/-- `build_kernel_hparam_grad_tensor(X)` -/
def hparamTensor (k : Kind) (alpha : α) (ls : List α) (X : List (List α)) : List (List (List α)) :=
  X.map fun xi => X.map fun xj => hparamRowWith r2Scaled k alpha ls xi xj

/-- `build_kernel_hparam_grad_tensor(X, Z)` -/
def hparamCrossTensor (k : Kind) (alpha : α) (ls : List α) (X Z : List (List α)) : List (List (List α)) :=
  Z.map fun zi => X.map fun xj => hparamRowWith r2Expanded k alpha ls zi xj

/-! ### Multitask tensor kernel: product rule -/

/-- `MultitaskTensorCovariance._build_kernel_grad_tensor` entry (times alpha):
    physical block × task value, task column × physical value -/
def mtGradRowWith (dist : Dist α) (kp kt : Kind) (alpha : α) (ls : List α) (lt : α) (x z : List α) : List α :=
  let dp := dist ls (physPart x) (physPart z)
  let dt := dist [lt] (taskPart x) (taskPart z)
  scaleBy alpha
    ((gradCoords (dphi kp dp) ls (physPart x) (physPart z)).map (· * phi kt dt) ++
     (gradCoords (dphi kt dt) [lt] (taskPart x) (taskPart z)).map (· * phi kp dp))

/-- `_build_kernel_hparam_grad_tensor_without_process_variance` entry with column 0 = value without alpha -/
def mtHparamRowWith (dist : Dist α) (kp kt : Kind) (alpha : α) (ls : List α) (lt : α) (x z : List α) : List α :=
  let dp := dist ls (physPart x) (physPart z)
  let dt := dist [lt] (taskPart x) (taskPart z)
  (phi kp dp * phi kt dt) ::
    scaleBy alpha
      ((hparamCoords (hphi kp dp) ls (physPart x) (physPart z)).map (· * phi kt dt) ++
       (hparamCoords (hphi kt dt) [lt] (taskPart x) (taskPart z)).map (· * phi kp dp))

def mtGradKernelX (kp kt : Kind) (alpha : α) (ls : List α) (lt : α) (x z : List α) : List α :=
  mtGradRowWith r2 kp kt alpha ls lt x z
def mtGradKernelH (kp kt : Kind) (alpha : α) (ls : List α) (lt : α) (x z : List α) : List α :=
  mtHparamRowWith r2 kp kt alpha ls lt x z

/-- `MultitaskTensorCovariance.grad_covariance` (pairwise path) -/
def mtGradCovariance (kp kt : Kind) (alpha : α) (ls : List α) (lt : α) (x z : List α) : List α :=
  let rp := Arith.sqrt (r2 ls (physPart x) (physPart z))
  let rt := Arith.sqrt (r2 [lt] (taskPart x) (taskPart z))
  scaleBy alpha
    ((gradCoords (dphiR kp rp) ls (physPart x) (physPart z)).map (· * phiR kt rt) ++
     (gradCoords (dphiR kt rt) [lt] (taskPart x) (taskPart z)).map (· * phiR kp rp))

/-- `MultitaskTensorCovariance.hyperparameter_grad_covariance` (pairwise path) -/
def mtHyperGradCovariance (kp kt : Kind) (alpha : α) (ls : List α) (lt : α) (x z : List α) : List α :=
  let rp := Arith.sqrt (r2 ls (physPart x) (physPart z))
  let rt := Arith.sqrt (r2 [lt] (taskPart x) (taskPart z))
  (phiR kp rp * phiR kt rt) ::
    scaleBy alpha
      ((hparamCoords (hphiR kp rp) ls (physPart x) (physPart z)).map (· * phiR kt rt) ++
       (hparamCoords (hphiR kt rt) [lt] (taskPart x) (taskPart z)).map (· * phiR kp rp))

def mtGradTensor (kp kt : Kind) (alpha : α) (ls : List α) (lt : α) (X : List (List α)) : List (List (List α)) :=
  X.map fun xi => X.map fun xj => mtGradRowWith r2Scaled kp kt alpha ls lt xi xj
def mtGradCrossTensor (kp kt : Kind) (alpha : α) (ls : List α) (lt : α) (X Z : List (List α)) :
    List (List (List α)) :=
  Z.map fun zi => X.map fun xj => mtGradRowWith r2Expanded kp kt alpha ls lt zi xj
def mtHparamTensor (kp kt : Kind) (alpha : α) (ls : List α) (lt : α) (X : List (List α)) : List (List (List α)) :=
  X.map fun xi => X.map fun xj => mtHparamRowWith r2Scaled kp kt alpha ls lt xi xj
def mtHparamCrossTensor (kp kt : Kind) (alpha : α) (ls : List α) (lt : α) (X Z : List (List α)) :
    List (List (List α)) :=
  Z.map fun zi => X.map fun xj => mtHparamRowWith r2Expanded kp kt alpha ls lt zi xj

/-! ## Polynomial mean: `build_polynomial_matrix`, `build_grad_polynomial_tensor` -/

/-- `pow(x, n)` for a non-negative integer exponent; `0⁰ = 1` -/
def npow (a : α) : Nat → α
  | 0 => 1
  | n + 1 => a * npow a n

/-- one entry of the polynomial matrix: Π_k x_k ^ e_k -/
def polyTerm : List Nat → List α → α
  | e :: es, a :: as => npow a e * polyTerm es as
  | _, _ => 1

/-- one entry of the gradient tensor: ∂/∂x_d Π_k x_k ^ e_k, with the code's rule
    "exponent 0 ⇒ the entry is 0, otherwise e · x^(e−1)" -/
def polyGradTerm : List Nat → List α → Nat → α
  | e :: es, a :: as, 0 => (if e = 0 then 0 else Arith.ofNat e * npow a (e - 1)) * polyTerm es as
  | e :: es, a :: as, d + 1 => npow a e * polyGradTerm es as d
  | _, _, _ => 0

/-- row of `build_polynomial_matrix(indices, [x])` -/
def polyRow (indices : List (List Nat)) (x : List α) : List α := indices.map fun es => polyTerm es x

/-- `build_grad_polynomial_tensor(indices, [x])[0]`: one list of coordinates per term -/
def polyGradRows (indices : List (List Nat)) (x : List α) : List (List α) :=
  indices.map fun es => (List.range x.length).map fun d => polyGradTerm es x d

/-! ## Gaussian process posterior -/

def dot : List α → List α → α
  | a :: as, b :: bs => a * b + dot as bs
  | _, _ => 0

def matVec (B : List (List α)) (v : List α) : List α := B.map fun row => dot row v

/-- d-th coordinate of every row -/
def column (M : List (List α)) (d : Nat) : List α := M.map fun row => row.getD d 0

/-- `_compute_mean_of_points`: K_eval · K⁻¹(y − Pβ) + P_eval · β -/
def gpMean (kvec w pvec beta : List α) : α := dot kvec w + dot pvec beta

/-- `_compute_grad_mean_of_points`: einsum("ijk,j", grad_K_eval, w) + einsum("ijk,j", grad_P_eval, β) -/
def gpGradMean (dk : List (List α)) (w : List α) (dp : List (List α)) (beta : List α) (dim : Nat) : List α :=
  (List.range dim).map fun d => dot (column dk d) w + dot (column dp d) beta

/-- the posterior variance before the clamp: k(x,x) − kᵀ K⁻¹ k, with `B = K⁻¹` -/
def gpVarRaw (kxx : α) (kvec : List α) (B : List (List α)) : α := kxx - dot kvec (matVec B kvec)

/-- `_compute_variance_of_points`: `fmax(MINIMUM_KRIGING_VARIANCE, ·)` -/
def gpVar (kxx : α) (kvec : List α) (B : List (List α)) : α := Arith.max minKrigingVar (gpVarRaw kxx kvec B)

/-- `_compute_grad_variance_of_points`: −2 Σ_j ∂k_j · (K⁻¹k)_j  (no clamp, no ∂k(x,x): translation invariance) -/
def gpGradVar (dk : List (List α)) (kvec : List α) (B : List (List α)) (dim : Nat) : List α :=
  (List.range dim).map fun d => -two * dot (column dk d) (matVec B kvec)

/-- `GaussianProcessSum`: Σ w_i m_i and Σ w_i² v_i (same weights for the gradients) -/
def gpSumMean (ws ms : List α) : α := dot ws ms
def gpSumVar (ws vs : List α) : α := dot (ws.map sq) vs

/-! ## `compute_core_components` -/

/-- `grad_sqrt_var = 0.5 * grad_var / sqrt_var` -/
def gradSqrtVar (gv s : α) : α := half * gv / s

/-- `z = (best_value − mean) / sqrt_var` -/
def zScore (best mean s : α) : α := (best - mean) / s

/-- `scipy.stats.norm.pdf(z) = exp(−z²/2) / sqrt(2π)`; `C` is the constant sqrt(2π) -/
def pdf (C z : α) : α := Arith.exp (-(z * z / two)) / C

/-! ## Expected improvement -/

/-- `sqrt_var * fmax(0, z * cdf_z + pdf_z)` -/
def ei (s z cdf pdfz : α) : α := s * Arith.max 0 (z * cdf + pdfz)

/-- `grad_sqrt_var * pdf_z − grad_mean * cdf_z` -/
def eiGrad (gs gm cdf pdfz : α) : α := gs * pdfz - gm * cdf

/-- AEI: `penalty = 1 − sqrt(noise / (var + noise))` -/
def aeiPenalty (v tau : α) : α := 1 - Arith.sqrt (tau / (v + tau))

/-- AEI: `grad_penalty = 0.5 * (sqrt(noise/(var+noise)) / (var+noise)) * grad_var` -/
def aeiPenaltyGrad (v tau gv : α) : α := half * (Arith.sqrt (tau / (v + tau)) / (v + tau)) * gv

/-- `ei * penalty` -/
def penalized (eiv pen : α) : α := eiv * pen

/-- `ei_grad * penalty + ei * grad_penalty` -/
def penalizedGrad (eiv eig pen peng : α) : α := eig * pen + eiv * peng

/-! ## Probabilistic failures -/

/-- `exponential = exp(fmin(kappa * (mean − threshold), POSITIVE_EXPONENT_CAP))` -/
def pfExponential (kappa thr mean : α) : α := Arith.exp (Arith.min (kappa * (mean - thr)) exponentCap)

/-- logistic: `1 / (1 + exponential)` -/
def pfLogistic (kappa thr mean : α) : α := 1 / (1 + pfExponential kappa thr mean)

/-- logistic: `(−kappa * exponential / denominator²) * grad_mean` — the capped exponential is used as is -/
def pfLogisticGrad (kappa thr mean gm : α) : α :=
  let e := pfExponential kappa thr mean
  (-kappa * e / ((1 + e) * (1 + e))) * gm

/-- CDF model: value `cdf_z` (input); gradient `−(pdf_z / sqrt_var) * (grad_mean + z * grad_sqrt_var)` -/
def pfCdfGrad (pdfz s gm z gs : α) : α := -(pdfz / s) * (gm + z * gs)

/-- product model: `prod(poss)` -/
def pfProduct (ps : List α) : α := Arith.prod ps

/-- product model: Σ_i grad_i · Π_{j ≠ i} p_j, the products taken over the list with entry i removed
    (`pre` = the entries already passed, in order) -/
def pfProductGradFrom (pre : List α) : List (α × α) → α
  | [] => 0
  | (p, g) :: rest => g * Arith.prod (pre ++ rest.map Prod.fst) + pfProductGradFrom (pre ++ [p]) rest

def pfProductGrad (pgs : List (α × α)) : α := pfProductGradFrom [] pgs

/-! ## Cost-scaled multitask acquisition -/

/-- `af_vals / task_costs` -/
def costScaled (af c : α) : α := af / c
/-- physical coordinates: `grad / cost` -/
def costScaledGrad (g c : α) : α := g / c
/-- last (task) coordinate: `(grad_last − af_per_cost) / cost` -/
def costScaledGradLast (af g c : α) : α := (g - af / c) / c

/-- the whole gradient row of `MultitaskAcquisitionFunction.joint_function_gradient_eval` -/
def costScaledGradRow (af : α) (g : List α) (c : α) : List α :=
  (g.dropLast.map fun gj => costScaledGrad gj c) ++ (g.drop (g.length - 1)).map fun gl => costScaledGradLast af gl c

/-! ## Parzen estimator -/

/-- `numpy.mean(build_kernel_grad_tensor(points_sampled, [x]), axis=1)[0]`: one entry per coordinate -/
def densityGrad (dk : List (List α)) (dim : Nat) : List α :=
  (List.range dim).map fun d => C16.mean (column dk d)

/-- gradient of the lower density: the floor is a constant and does not enter -/
def lowerDensityGrad (dk : List (List α)) (dim : Nat) : List α := densityGrad dk dim

/-- What `evaluate_lower_density(x, grad=True)` returned BEFORE the repair
    (`fix: the lower-density floor is added to the density only, not to its gradient`):
    the floor was added to every gradient component as well. -/
def lowerDensityGradFloorAdded (dk : List (List α)) (dim : Nat) : List α :=
  (densityGrad dk dim).map (· + lowerFloor)

/-- `−ei² (1 − gamma) (lpdf · gpdf_g − gpdf · lpdf_g) / lpdf²` with `ei = ratio gamma l g` -/
def parzenGrad (gamma l g lg gg : α) : α :=
  -(C16.ratio gamma l g * C16.ratio gamma l g) * (1 - gamma) * (l * gg - g * lg) / (l * l)

/-! ## Log marginal likelihood -/

/-- Σ_i (B · D)_ii -/
def traceMul (B D : List (List α)) : α :=
  Arith.sum (B.mapIdx fun i row => dot row (column D i))

/-- `log_likelihood = (y − Pβ)·K⁻¹(y − Pβ) + 2 Σ log L_ii`; returned value `−scaling · log_likelihood` -/
def loglik (scaling : α) (yPb a diagL : List α) : α :=
  -scaling * (dot yPb a + two * Arith.sum (diagL.map Arith.log))

/-- one entry of `grad_log_marginal`: `−a·(dK a) + trace(K⁻¹ dK)` with `a = K⁻¹(y − Pβ)`, `B = K⁻¹` -/
def loglikGradEntry (a : List α) (B dK : List (List α)) : α :=
  -(dot a (matVec dK a)) + traceMul B dK

/-- `−scaling_factor * grad_log_marginal * log_scaling`; `logScale` = `exp(log-hyperparameters)` in the log
    domain, `1` otherwise -/
def loglikGrad (scaling : α) (a : List α) (B : List (List α)) (dKs : List (List (List α))) (logScale : List α) :
    List α :=
  List.zipWith (fun dK s => -scaling * loglikGradEntry a B dK * s) dKs logScale

end arith
end C04
