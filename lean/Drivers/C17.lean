import Model.Codec
import Model.C17
open Lean Codec C17

/-- exact check of the input and of `L Lᵀ` against the untouched covariance -/
def opResidual (n k : Nat) (sigma l : Mat) : Json :=
  Json.mkObj [
    ("sigmaShape", Json.bool (isShape n n sigma)),
    ("lShape", Json.bool (isShape n k l)),
    ("symm", Json.bool (isSymm n sigma)),
    ("asym", ratToJson (asym n sigma)),
    ("norm", ratToJson (maxAbs sigma)),
    ("lower", Json.bool (isLower n l)),
    ("res", ratToJson (residual l sigma))]

def matOpt (j : Json) (k : String) : Except String (Option Mat) := do
  match fieldD j k Json.null with
  | Json.null => pure none
  | v => some <$> listOfJson (listOfJson ratOfJson) v

/-- Run the model with the recorded third-party results as (constant) oracles and evaluate every
    contract the theorems assume, exactly. -/
def opModel (j : Json) : Except String Json := do
  let n ← nat j "n"
  let overwrite ← bool j "overwrite"
  let sigma ← ratMat j "sigma"
  let cf ← matOpt j "cholFactor"
  let buffer ← ratMat j "buffer"
  let u ← ratMat j "u"
  let e ← rats j "e"
  let s ← rats j "s"
  let q ← ratMat j "q"
  let r ← ratMat j "r"
  let vt ← matOpt j "vt"
  let c : CholOutcome := { factor := cf, buffer := buffer }
  -- `numpy.sqrt(E)` elementwise as a table lookup on the recorded pairs
  let sq : Rat → Rat := fun x => ((e.zip s).find? (fun p => p.1 == x)).elim 0 (·.2)
  let o : Oracles := { chol := fun _ => c, svd := fun _ => (u, e), sqrt := sq, qrR := fun _ => r }
  let l := sampleFactor o overwrite sigma
  let a := svdInput overwrite sigma c
  let b := fallbackB o u e
  let bt := transpose n b
  -- contracts (all exact)
  let cholRes := match cf with | some f => residual f sigma | none => 0
  let orthU := maxAbs (sub (mulT (transpose n u) (transpose n u)) (identity n))
  let recon := maxAbs (sub (mulT (scaleCols u e) u) a)
  let reconUV := match vt with | some v => maxAbs (sub (mul n (scaleCols u e) v) a) | none => 0
  let orthV := match vt with | some v => maxAbs (sub (mulT v v) (identity n)) | none => 0
  let sqrtRes := maxAbs [List.zipWith (fun x y => y * y - x) e s]
  let eNonneg := e.all (fun x => decide (0 ≤ x))
  let sNonneg := s.all (fun x => decide (0 ≤ x))
  let orthQ := maxAbs (sub (mulT (transpose n q) (transpose n q)) (identity n))
  let qrRes := maxAbs (sub bt (mul n q r))
  -- the two sides of `fallback_residual_identity` (Properties/C17.lean), evaluated on this instance:
  --   RᵀR − A = E1 + B·E2 + E2ᵀ·Bᵀ + E2ᵀ·E2 − Rᵀ·E3·R
  let rt := transpose n r
  let lhs := sub (llt rt) a
  let e1 := sub (llt b) a
  let e2 := sub (mul n q r) bt
  let e3 := sub (mulT (transpose n q) (transpose n q)) (identity n)
  let addM (x y : Mat) : Mat := List.zipWith (fun p q => List.zipWith (fun x y => x + y) p q) x y
  let e2t := transpose n e2
  let rhs := sub (addM (addM (addM e1 (mul n b e2)) (mul n e2t bt)) (mul n e2t e2)) (mul n (mul n rt e3) r)
  pure (Json.mkObj [
    ("branch", Json.str (if cf.isSome then "cholesky" else "fallback")),
    ("svdInputIsSigma", Json.bool (a == sigma)),
    ("bufferIntact", Json.bool (buffer == sigma)),
    ("l", jRatMat l),
    ("lShape", Json.bool (isShape n n l)),
    ("res", ratToJson (residual l sigma)),
    ("norm", ratToJson (maxAbs sigma)),
    ("normA", ratToJson (maxAbs a)),
    ("cholRes", ratToJson cholRes),
    ("orthU", ratToJson orthU),
    ("recon", ratToJson recon),
    ("reconUV", ratToJson reconUV),
    ("orthV", ratToJson orthV),
    ("sqrtRes", ratToJson sqrtRes),
    ("eNonneg", Json.bool eNonneg),
    ("sNonneg", Json.bool sNonneg),
    ("orthQ", ratToJson orthQ),
    ("qrRes", ratToJson qrRes),
    ("e1", ratToJson (maxAbs e1)),
    ("identityHolds", Json.bool (lhs == rhs)),
    ("shapes", Json.bool (isShape n n sigma && isShape n n buffer && isShape n n u && isShape n n q
                          && isShape n n r && e.length == n && s.length == n))])

def handle (j : Json) : Except String Json := do
  match (← str j "op") with
  | "residual" =>
    let n ← nat j "n"
    let k ← natOfJson (fieldD j "k" (jNat n))
    pure (opResidual n k (← ratMat j "sigma") (← ratMat j "l"))
  | "model" => opModel j
  | "sample" =>
    -- mean + L z for each draw z
    let mean ← rats j "mean"
    let l ← ratMat j "l"
    let zs ← ratMat j "zs"
    pure (Json.mkObj [("samples", jRatMat (zs.map (sample mean l)))])
  | "sum" =>
    -- GP sum: Σ w² Σ_g entrywise
    let n ← nat j "n"
    let ws ← rats j "ws"
    let sigmas ← listOfJson (listOfJson (listOfJson ratOfJson)) (← field j "sigmas")
    let cov := (List.range n).map fun i => (List.range n).map fun k => sumCovEntry (ws.zip sigmas) i k
    pure (Json.mkObj [("cov", jRatMat cov), ("norm", ratToJson (maxAbs cov))])
  | op => throw s!"unknown op {op}"

def main : IO Unit := Codec.loop handle
