import Model.Codec
import Model.C02
import Model.C02Oracle
open Lean Codec C02 C02.Oracle

def orErr {α} (msg : String) : Option α → Except String α
  | some a => pure a
  | none => throw msg

def methodOfJson : Json → Except String LieMethod
  | Json.str "constant_liar_min" => pure .cmin
  | Json.str "constant_liar_max" => pure .cmax
  | Json.str "constant_liar_mean" => pure .cmean
  | j => throw s!"bad lie method {j.compress}"

def jVec {n : Nat} (v : Vec n) : Json := jRats (vecToList v)
def jMat {n m : Nat} (A : Mat n m) : Json := jRatMat (matToLists A)

/-- One batch of query points against a certified precomputation. -/
def doQuery {n p : Nat} (zeroMean : Bool) (pre : Pre n p) (y : Vec n) (P : Mat n p) (jq : Json) :
    Except String Json := do
  let kxxL ← rats jq "kxx"
  let q := kxxL.length
  let kxx ← orErr "kxx shape" (toVec? q kxxL)
  let Ks ← orErr "Ks shape" (toMat? q n (← ratMat jq "Ks"))
  let Kss ← orErr "Kss shape" (toMat? q q (← ratMat jq "Kss"))
  let Ps ← orErr "Ps shape" (toMat? q p (← ratMat jq "Ps"))
  let r := predict zeroMean pre y P Ks Kss kxx Ps
  pure (Json.mkObj [
    ("mean", jVec r.mean), ("varChol", jVec r.varChol), ("varCardinal", jVec r.varCardinal),
    ("varCholRaw", jVec r.varCholRaw), ("varCardinalRaw", jVec r.varCardinalRaw),
    ("cov", jMat r.cov), ("covDirect", jMat r.covDirect),
    -- the theorems say these must hold; evaluated as a cross-check of model against theorems
    ("branchesAgree", Json.bool (r.varCholRaw.toList == r.varCardinalRaw.toList && r.cov.beq r.covDirect)),
    ("covSymm", Json.bool (isSymm r.cov)),
    -- exact decision whether the conditional covariance of THESE kernel matrices is PSD (it is whenever the
    -- joint kernel Gram matrix is: post_cov_posSemidef); false = the kernel matrices themselves are inconsistent
    ("covPsd", Json.bool (psdCertified r.cov 0))])

def handle (j : Json) : Except String Json := do
  match (← str j "op") with
  | "post" =>
    let yL ← rats j "y"
    let n := yL.length
    let p ← nat j "p"
    let zeroMean ← bool j "zeroMean"
    let y ← orErr "y shape" (toVec? n yL)
    let noise ← orErr "noise shape" (toVec? n (← rats j "noise"))
    let tik ← optOfJson ratOfJson (fieldD j "tikhonov" Json.null)
    let K ← orErr "K shape" (toMat? n n (← ratMat j "K"))
    let P ← orErr "P shape" (toMat? n p (← ratMat j "P"))
    let A := addDiag K (noiseDiag tik noise)
    match mkPre A P zeroMean with
    | none => pure (Json.mkObj [("singular", Json.bool true)])
    | some pre =>
      let cert := pre.certified A P zeroMean
      if !cert then
        pure (Json.mkObj [("singular", Json.bool false), ("certified", Json.bool false),
                          ("symmetric", Json.bool (isSymm A)), ("posdef", Json.bool (allPos pre.D))])
      else
        let β := polyCoef zeroMean pre.Ginv P pre.Ainv y
        let qs ← (← listOfJson pure (← field j "queries")).mapM (doQuery zeroMean pre y P)
        pure (Json.mkObj [("singular", Json.bool false), ("certified", Json.bool true),
          ("beta", jVec β), ("weights", jVec (weights zeroMean pre.Ainv y P β)),
          ("residual", jVec (residual y P β)),
          ("kInvY", jVec (kInvY pre.Ainv y)), ("kInvPb", jVec (mulVec pre.Ainv (mulVec P β))),
          ("queries", Json.arr qs.toArray)])
  | "lies" =>
    let y ← rats j "y"
    let noise ← rats j "noise"
    let bs ← listOfJson (fun b => do
      let k ← natOfJson (← field b "k")
      let m ← methodOfJson (← field b "method")
      pure (k, m)) (← field j "batches")
    let (y', v') := appendLies y noise bs
    pure (Json.mkObj [("y", jRats y'), ("noise", jRats v')])
  | "sum" =>
    let ws ← rats j "weights"
    let means ← ratMat j "means"
    let vars ← ratMat j "vars"
    let covs ← listOfJson (listOfJson (listOfJson ratOfJson)) (← field j "covs")
    let q ← nat j "q"
    let ms ← orErr "means shape" (means.mapM (toVec? q))
    let vs ← orErr "vars shape" (vars.mapM (toVec? q))
    let cs ← orErr "covs shape" (covs.mapM (toMat? q q))
    pure (Json.mkObj [("mean", jVec (sumMean (ws.zip ms))), ("var", jVec (sumVar (ws.zip vs))),
                      ("cov", jMat (sumCov (ws.zip cs)))])
  | "poly" =>
    let idx ← listOfJson (listOfJson natOfJson) (← field j "indices")
    let pts ← ratMat j "points"
    pure (Json.mkObj [("P", jRatMat (polyMatrix idx pts))])
  | "psd" =>
    let CL ← ratMat j "C"
    let q := CL.length
    let C ← orErr "C shape" (toMat? q q CL)
    let shift ← rat j "shift"
    pure (Json.mkObj [("psd", Json.bool (psdCertified C shift))])
  | op => throw s!"unknown op {op}"

def main : IO Unit := Codec.loop handle
