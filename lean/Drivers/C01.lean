import Model.Codec
import Model.DomainCodec
import Model.C01
import Model.Generated.Phases
open Lean Codec Dom DomainCodec C01

def handle (j : Json) : Except String Json := do
  match (← str j "op") with
  | "check" =>
    -- configurations: box membership (exact) and exact constraint slacks w·x − rhs
    let d ← domOf j
    let cfgs ← ratMat j "cfgs"
    pure (Json.mkObj [
      ("wf", Json.bool d.wf),
      ("inBox", jBools (cfgs.map (inBox d.comps))),
      ("admissible", jBools (cfgs.map (admissible d))),
      ("slack", jRatMat (cfgs.map fun c => d.cons.map fun k => dot k.weights c - k.rhs)),
      ("mass", jRatMat (cfgs.map fun c => d.cons.map fun k => (List.zipWith (fun w x => rabs (w * x)) k.weights c).foldl (· + ·) (rabs k.rhs)))])
  | "relaxed" =>
    let d ← domOf j
    let xs ← ratMat j "xs"
    pure (Json.mkObj [
      ("inBox", jBools (xs.map (inRelaxedBox d.comps))),
      ("inRelaxed", jBools (xs.map (inRelaxed d))),
      ("slack", jRatMat (xs.map fun x => d.cons.map fun k => dot (ohWeights d.comps k.weights) x - k.rhs)),
      ("mass", jRatMat (xs.map fun x => d.cons.map fun k =>
        (List.zipWith (fun w v => rabs (w * v)) (ohWeights d.comps k.weights) x).foldl (· + ·) (rabs k.rhs)))])
  | "convopt" =>
    let ints ← int j "ints"; let cats ← int j "cats"
    pure (Json.mkObj [("option", Json.str ((toString (repr (Gen.get_discrete_conversion_option ints cats))).splitOn ".").getLast!)])
  | "tasks" =>
    let opts ← rats j "options"; let costs ← rats j "costs"
    pure (Json.mkObj [("snapped", jRats (taskColumn opts costs))])
  | op => throw s!"unknown op {op}"

def main : IO Unit := Codec.loop handle
