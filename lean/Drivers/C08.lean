import Model.Codec
import Model.C08
open Lean Codec C08

def boxOfJson (j : Json) (k : String) : Except String Box := do
  let m ← ratMat j k
  m.mapM fun row => match row with
    | [l, h] => pure (l, h)
    | _ => throw "box rows must be [lo, hi]"

def conOfJson (j : Json) : Except String Con := do
  pure ⟨← rats j "w", ← rat j "rhs"⟩

def consOfJson (j : Json) (k : String) : Except String (List Con) := do
  listOfJson conOfJson (← field j k)

/-- raw rows `[a…, b]` (last entry is b of `a·x ≤ b`) -/
def rowsOfJson (j : Json) (k : String) : Except String (List Row) := do
  let m ← ratMat j k
  m.mapM fun row => match row.reverse with
    | b :: ra => pure ⟨ra.reverse, b⟩
    | [] => throw "empty row"

def optRats (j : Json) (k : String) : Except String (Option Vec) :=
  match fieldD j k Json.null with
  | Json.null => pure none
  | v => some <$> listOfJson ratOfJson v

def modeToString : ViableMode → String
  | .cheby => "cheby" | .push => "push" | .keep => "keep"

def modeOfString : String → Option ViableMode
  | "cheby" => some .cheby | "push" => some .push | "keep" => some .keep | _ => none

def rowToJson (r : Row) : Json := jRats (r.a ++ [r.b])

def absR (x : Rat) : Rat := if x < 0 then -x else x

/-- solve `q = p + t (v - p)` for t on the coordinate with the largest |v_k - p_k| -/
def solveT (p v q : Vec) : Option Rat :=
  let triples := (p.zip (v.zip q))
  let best := triples.foldl (fun (best : Option (Rat × Rat × Rat)) t =>
    let d := absR (t.2.1 - t.1)
    match best with
    | none => if d = 0 then none else some (t.1, t.2.1, t.2.2)
    | some b => if d > absR (b.2.1 - b.1) then some (t.1, t.2.1, t.2.2) else some b) none
  match best with
  | none => none
  | some (pk, vk, qk) => some ((qk - pk) / (vk - pk))

def restrictOp (j : Json) : Except String Json := do
  let bx ← boxOfJson j "box"
  let cons ← consOfJson j "cons"
  let cheby ← optRats j "cheby"
  let viable ← optRats j "viable"
  let onC ← bool j "onC"
  let pts ← ratMat j "pts"
  let outs ← match fieldD j "outs" Json.null with
    | Json.null => pure none
    | v => some <$> listOfJson (listOfJson ratOfJson) v
  let force := match fieldD j "force" Json.null with
    | Json.str s => modeOfString s
    | _ => none
  match cons with
  | [] =>
    pure (Json.mkObj [("constrained", Json.bool false),
      ("res", Json.arr (pts.map fun p => Json.mkObj [("clip", jRats (clip bx p)), ("out", jRats (clip bx p)),
         ("needs", Json.bool false)]).toArray)])
  | _ :: _ =>
    let hs := halfspaces bx cons
    let ch := cheby.getD []
    let mode := viableMode bx hs viable
    let used := force.getD mode
    let v := viableOf used ch viable
    let rows := nonBound hs
    let outsL : List (Option Vec) := match outs with
      | none => pts.map (fun _ => none)
      | some o => o.map some
    let res := (pts.zip outsL).map fun (p, q?) =>
      let p1 := clip bx p
      let needs := needsCorrection rows p1 v
      let mc := maxCorrection rows p1 v
      if !needs then
        Json.mkObj [("clip", jRats p1), ("needs", Json.bool false), ("mc", ratToJson mc), ("out", jRats p1)]
      else if onC then
        Json.mkObj [("clip", jRats p1), ("needs", Json.bool true), ("mc", ratToJson mc),
          ("out", jRats (restrictOne rows v true 0 p1))]
      else
        match q? with
        | none => Json.mkObj [("clip", jRats p1), ("needs", Json.bool true), ("mc", ratToJson mc), ("out", Json.null)]
        | some q =>
          match solveT p1 v q with
          | none => Json.mkObj [("clip", jRats p1), ("needs", Json.bool true), ("mc", ratToJson mc), ("out", jRats p1),
                       ("t", Json.null)]
          | some t =>
            -- eps = 1 - t = (1 - mc) * u
            let u : Option Rat := if mc = 1 then none else some ((1 - t) / (1 - mc))
            let out := match u with
              | some u' => restrictOne rows v false u' p1
              | none => blend (1 - t) p1 v
            Json.mkObj [("clip", jRats p1), ("needs", Json.bool true), ("mc", ratToJson mc), ("t", ratToJson t),
              ("u", jOpt ratToJson u), ("out", jRats out)]
    pure (Json.mkObj [("constrained", Json.bool true), ("halfspaces", Json.arr (hs.map rowToJson).toArray),
      ("mode", Json.str (modeToString mode)), ("used", Json.str (modeToString used)), ("viable", jRats v),
      ("chebyStrict", Json.bool (strictAll hs ch)), ("viableStrict", Json.bool (strictAll hs v)),
      ("consWF", Json.bool (consWF cons)), ("nonBound", jNat rows.length),
      ("res", Json.arr res.toArray)])

/-- exact membership data for one point -/
def memberOne (bx : Box) (cons : List Con) (consTol boxTol : Rat) (x : Vec) : Json :=
  let boxExcess : Rat := ((bx.zip x).map fun ((l, h), xi) => max (l - xi) (xi - h)).foldl max (-1000000000000)
  let boxScale : Rat := ((bx.map fun (l, h) => max (max (absR l) (absR h)) (h - l))).foldl max 0
  let consExcess : List Rat := cons.map fun c =>
    let sc := dot (c.w.map absR) (bx.map fun (l, h) => max (absR l) (absR h)) + absR c.rhs
    if sc = 0 then (if c.rhs - dot c.w x ≤ 0 then 0 else 1) else (c.rhs - dot c.w x) / sc
  let worstCons := consExcess.foldl max (-1)
  let rows := cons.map conRow
  Json.mkObj [("inBox", Json.bool (inBox bx x)), ("sat", Json.bool (satAll rows x)),
    ("lenOK", Json.bool (x.length = bx.length)),
    ("boxExcess", ratToJson boxExcess), ("consExcess", ratToJson worstCons),
    ("ok", Json.bool (decide (x.length = bx.length) && decide (boxExcess ≤ boxTol * boxScale) && decide (worstCons ≤ consTol)))]

def handle (j : Json) : Except String Json := do
  match (← str j "op") with
  | "restrict" => restrictOp j
  | "member" =>
    let bx ← boxOfJson j "box"
    let cons ← consOfJson j "cons"
    let pts ← ratMat j "pts"
    let consTol ← rat j "consTol"
    let boxTol ← rat j "boxTol"
    pure (Json.mkObj [("res", Json.arr (pts.map (memberOne bx cons consTol boxTol)).toArray)])
  | "lhs" =>
    let n ← nat j "n"
    let cols ← ratMat j "cols"
    pure (Json.mkObj [("res", Json.arr (cols.map fun col =>
      Json.mkObj [("strata", jInts (strata n col)), ("perm", Json.bool (isPermOfRange n (strata n col)))]).toArray)])
  | "lhsgen" =>
    let n ← nat j "n"
    let perm ← nats j "perm"
    let ws ← rats j "ws"
    pure (Json.mkObj [("col", jRats (lhsColumn n perm ws))])
  | "affine" =>
    let bx ← boxOfJson j "box"
    let ts ← ratMat j "ts"
    pure (Json.mkObj [("pts", jRatMat (ts.map (affineFromUnit bx))), ("unit", jBools (ts.map inUnit))])
  | "grid" =>
    let bx ← boxOfJson j "box"
    let ns ← nats j "ns"
    pure (Json.mkObj [("pts", jRatMat (gridPoints bx ns))])
  | "cheby" =>
    let rows ← rowsOfJson j "rows"
    let c ← rats j "c"
    let r ← rat j "r"
    pure (Json.mkObj [("ok", Json.bool (chebyOK rows c r)),
      ("margins", jRatMat (rows.map fun row => [row.b - dot row.a c, nsq row.a]))])
  | "dual" =>
    let rows ← rowsOfJson j "rows"
    let n ← nat j "n"
    let ls ← rats j "ls"
    let ys ← rats j "ys"
    pure (Json.mkObj [("ok", Json.bool (dualOK n rows ls ys)), ("bound", ratToJson (dualBound rows ys))])
  | "flag" =>
    let success ← bool j "success"
    let status ← int j "status"
    let radius ← rat j "radius"
    pure (Json.mkObj [("feasible", Json.bool (feasibleFlag success status radius))])
  | "fix" =>
    let bx ← boxOfJson j "box"
    let cons ← consOfJson j "cons"
    let fixedM ← ratMat j "fixed"
    let fixed ← fixedM.mapM fun row => match row with
      | [i, w] => if i.den = 1 ∧ 0 ≤ i.num then pure (i.num.toNat, w) else throw "bad index"
      | _ => throw "fixed rows must be [i, w]"
    let pts ← ratMat j "pts"
    pure (Json.mkObj [("wf", Json.bool (fixedWF bx (cons.map conRow) fixed)), ("pts", jRatMat (pts.map (fixCoords fixed)))])
  | "hitrun" =>
    let bx ← boxOfJson j "box"
    let cons ← consOfJson j "cons"
    let x0 ← rats j "x0"
    let ds ← ratMat j "dirs"
    let us ← rats j "us"
    let rows := halfspaces bx cons
    match hitAndRun rows x0 (ds.zip us) with
    | none => pure (Json.mkObj [("chain", Json.null)])
    | some chain => pure (Json.mkObj [("chain", jRatMat chain), ("sat", jBools (chain.map (satAll rows)))])
  | op => throw s!"unknown op {op}"

def main : IO Unit := Codec.loop handle
