import Model.Codec
import Model.C14
open Lean Codec C14 Gen

def lastName (s : String) : String := (s.splitOn ".").getLast!

def mmName (p : MMPhase) : String := lastName (toString (repr p))
def searchName (p : SearchPhase) : String := lastName (toString (repr p))
def speName (p : SPEPhase) : String := lastName (toString (repr p))

def speOfString : String → Except String SPEPhase
  | "INITIALIZATION_PHASE" => pure .INITIALIZATION_PHASE
  | "SKO_PHASE" => pure .SKO_PHASE
  | "COMPLETION_PHASE" => pure .COMPLETION_PHASE
  | s => throw s!"bad SPE phase {s}"

def pairOfJson (j : Json) : Except String (Rat × Rat) := do
  match (← listOfJson ratOfJson j) with
  | [a, b] => pure (a, b)
  | _ => throw "expected pair"

def pairs (j : Json) (k : String) : Except String (List (Rat × Rat)) := do
  listOfJson pairOfJson (← field j k)

def jPair (p : Rat × Rat) : Json := jRats [p.1, p.2]

def filteredToJson (r : Filtered) : Json :=
  Json.mkObj [("points", jRatMat r.points), ("values", jRats r.values), ("vars", jRats r.vars), ("lie", ratToJson r.lie)]

def handle (j : Json) : Except String Json := do
  match (← str j "op") with
  | "mm" =>
    let thr ← bool j "thr"; let b ← int j "b"; let n ← int j "n"; let f ← int j "f"; let o ← int j "o"
    let r := identify_multimetric_phase thr b n f o
    let den := identify_multimetric_phase_denoms thr b n f o
    pure (Json.mkObj [("phase", Json.str (mmName r.1)), ("kw", jOpt ratToJson r.2),
      ("stage", jNat (mmStage thr (served b n f o) (completed b n f o))),
      ("zero_denominator", Json.bool (den.any (· == 0)))])
  | "search" =>
    let b ← int j "b"; let n ← int j "n"; let f ← int j "f"; let o ← int j "o"
    let den := identify_search_phase_denoms b n o f
    pure (Json.mkObj [("phase", Json.str (searchName (identify_search_phase b n o f))),
      ("rank", jNat (searchRank (identify_search_phase b n o f))),
      ("zero_denominator", Json.bool (den.any (· == 0)))])
  | "spe" =>
    let b ← int j "b"; let n ← int j "n"; let f ← int j "f"
    let r := get_experiment_phase b n f
    let den := get_experiment_phase_denoms b n f
    pure (Json.mkObj [("phase", Json.str (speName r.1)), ("progress", ratToJson r.2), ("rank", jNat (speRank r.1)),
      ("zero_denominator", Json.bool (den.any (· == 0)))])
  | "solver" =>
    let p ← speOfString (← str j "phase"); let pr ← rat j "progress"; let u ← rat j "u"
    let r := get_solver_options p pr u
    pure (Json.mkObj [("gamma", ratToJson r.1), ("proposal", ratToJson r.2)])
  | "grid" =>
    let f ← rat j "f"
    let w := gridWeights f
    pure (Json.mkObj [("index", jNat (weightIndex f)), ("weights", jPair w), ("epsilon", ratToJson (epsilonOf f))])
  | "halton" =>
    let h ← rat j "h"
    pure (Json.mkObj [("weights", jPair (haltonWeights h))])
  | "filter" =>
    let mode ← str j "mode"
    let pts ← ratMat j "points"; let vals ← pairs j "values"; let vars ← pairs j "vars"
    let lies ← pairOfJson (← field j "lies")
    let opt ← nat j "opt"
    let mask ← bools j "mask"
    match mode with
    | "not_multimetric" => pure (filteredToJson (filterNotMultimetric pts vals vars lies))
    | "one_metric" => pure (filteredToJson (filterOneMetric opt pts vals vars lies))
    | "convex" =>
      let w ← pairOfJson (← field j "weights")
      pure (filteredToJson (filterConvex w pts vals vars lies))
    | "sum_of_gps" =>
      let r := filterSumOfGps pts vals vars lies
      pure (Json.mkObj [("points", jRatMat r.points), ("values", Json.arr (r.values.map jPair).toArray),
        ("vars", Json.arr (r.vars.map jPair).toArray), ("lie", jPair r.lie)])
    | "prob_failure" => pure (filteredToJson (filterProbFailure opt mask pts vals vars lies))
    | "epsilon" => pure (filteredToJson (filterEpsilon opt mask pts vals vars lies))
    | m => throw s!"unknown filter mode {m}"
  | "spe_overwrite" =>
    let isEps ← bool j "is_eps"; let lie ← rat j "lie"; let values ← rats j "values"; let fails ← bools j "fails"
    pure (Json.mkObj [("values", jRats (speOverwrite isEps lie values fails))])
  | "exceeds" =>
    let vals ← pairs j "values"
    let t0 ← optOfJson ratOfJson (← field j "t0"); let t1 ← optOfJson ratOfJson (← field j "t1")
    pure (Json.mkObj [("mask", jBools (vals.map (exceeds (t0, t1))))])
  | op => throw s!"unknown op {op}"

def main : IO Unit := Codec.loop handle
