import Model.Codec
import Model.C16
open Lean Codec C16

/-- observations travel as exact rationals; the payload of each observation is its row index -/
def indexed (vals : List Rat) : List (Rat × Nat) := vals.zipIdx

def idxs (l : List (Rat × Nat)) : Json := jNats (l.map (·.2))

def kindOfJson : Json → Except String Kind
  | Json.str "se" => pure .se
  | Json.str "c0" => pure .c0
  | Json.str "c2" => pure .c2
  | Json.str "c4" => pure .c4
  | j => throw s!"bad kernel kind {j.compress}"

def optRatOfJson : Json → Except String (Option Rat) := optOfJson ratOfJson

def handle (j : Json) : Except String Json := do
  match (← str j "op") with
  | "split" =>
    -- form_model on exact rationals; optional overrides of the two truncated products (boundary cases)
    let vals ← rats j "vals"
    let gamma ← rat j "gamma"
    let forget ← rat j "forget"
    let n := vals.length
    let fg ← match fieldD j "forgotten" Json.null with
      | Json.null => pure (numForgotten n forget)
      | x => natOfJson x
    let m := n - fg
    let k ← match fieldD j "k" Json.null with
      | Json.null => pure (subSeqLen m gamma)
      | x => natOfJson x
    let base := [("forgotten", jNat (numForgotten n forget)), ("m", jNat (numUnforgotten n forget)),
                 ("k", jNat (subSeqLen (numUnforgotten n forget) gamma))]
    match formModelK (indexed vals) fg k with
    | .error .tooFewUnforgotten => pure (Json.mkObj (("result", Json.str "error:tooFewUnforgotten") :: base))
    | .error .lowerTooLarge => pure (Json.mkObj (("result", Json.str "error:lowerTooLarge") :: base))
    | .ok lo gr => pure (Json.mkObj (("result", Json.str "ok") :: ("lower", idxs lo) :: ("greater", idxs gr) :: base))
  | "violations" =>
    let rows ← ratMat j "rows"
    let thr ← listOfJson optRatOfJson (← field j "thresholds")
    pure (Json.mkObj [("viol", jBools (violations rows thr))])
  | "search" =>
    let viol ← bools j "viol"
    let dim ← nat j "dim"
    let dl ← nats j "defaultLower"
    let dg ← nats j "defaultGreater"
    let pts := List.range viol.length
    let s := searchSplit pts viol dim dl dg searchDefaultGamma
    pure (Json.mkObj [("lower", jNats s.lower), ("greater", jNats s.greater), ("gamma", ratToJson s.gamma),
                      ("forced", Json.bool s.forced)])
  | "density" =>
    -- Float model with its own radial kernels
    let kl ← kindOfJson (← field j "lowerKind")
    let kg ← kindOfJson (← field j "greaterKind")
    let hl ← floats j "lowerHyper"
    let hg ← floats j "greaterHyper"
    let lower ← floatMat j "lower"
    let greater ← floatMat j "greater"
    let xs ← floatMat j "xs"
    let gamma ← float j "gamma"
    let r := xs.map (fun x => expectedImprovement (radialKernel kl hl) (radialKernel kg hg) gamma lower greater x)
    pure (Json.mkObj [("lpdf", jFloats (r.map (·.1))), ("gpdf", jFloats (r.map (·.2.1))),
                      ("ei", jFloats (r.map (·.2.2)))])
  | "ratio" =>
    let gamma ← float j "gamma"
    let l ← floats j "l"
    let g ← floats j "g"
    pure (Json.mkObj [("ei", jFloats ((l.zip g).map (fun (a, b) => ratio gamma a b)))])
  | "bandwidth" =>
    let cols ← floatMat j "cols"
    let numeric ← bools j "numeric"
    let factor ← match (← str j "factor") with
      | "nextLower" => pure (nextPointsLowerFactor : Float)
      | "nextGreater" => pure (nextPointsGreaterFactor : Float)
      | "searchLower" => pure (searchLowerFactor : Float)
      | "searchGreater" => pure (searchGreaterFactor : Float)
      | s => throw s!"bad factor {s}"
    let cs := numeric.zip cols
    let raw := rawHypers factor (stdEps : Float) (catLengthScale : Float) cs
    let fin := oneHotHypers Float.isFinite factor (stdEps : Float) (catLengthScale : Float) cs
    pure (Json.mkObj [("raw", jFloats raw), ("hyper", jFloats fin),
                      ("fallback", Json.bool (!(hypersValid Float.isFinite raw)))])
  | "consts" =>
    pure (Json.mkObj [("minLower", jNat minLower), ("minUnforgotten", jNat minUnforgotten),
                      ("lowerFloor", floatToJson (lowerFloor : Float)), ("stdEps", floatToJson (stdEps : Float)),
                      ("catLengthScale", floatToJson (catLengthScale : Float)),
                      ("topGamma", ratToJson topGamma), ("maxForget", ratToJson maxForgetFactor),
                      ("searchGamma", ratToJson searchDefaultGamma)])
  | op => throw s!"unknown op {op}"

def main : IO Unit := Codec.loop handle
