import Model.Codec
import Model.C06
open Lean Codec Dom C06

def compOfJson (j : Json) : Except String Component := do
  let t ← str j "t"
  let e ← rats j "e"
  match t, e with
  | "double", [lo, hi] => pure (.double lo hi)
  | "int", [lo, hi] => pure (.int lo hi)
  | "cat", es => pure (.cat es)
  | "grid", es => pure (.grid es)
  | _, _ => throw s!"bad component {j.compress}"

def objOfJson : Json → Except String C12.Objective
  | Json.str "minimize" => pure .minimize
  | Json.str "maximize" => pure .maximize
  | j => throw s!"bad objective {j.compress}"

def optRat : Json → Except String (Option Rat) := optOfJson ratOfJson
def optRats : Json → Except String (Option (List Rat)) := optOfJson (listOfJson ratOfJson)

def hyperOfJson (j : Json) : Except String Hyper := do
  pure { alpha := ← rat j "alpha",
         lengthScales := ← listOfJson (listOfJson optRat) (← field j "ls"),
         tikhonov := ← optRat (fieldD j "tikhonov" Json.null),
         taskLength := ← optRat (fieldD j "taskLength" Json.null) }

def meanOfJson : Json → Except String MeanType
  | Json.str "zero" => pure .zero
  | Json.str "constant" => pure .constant
  | Json.str "linear" => pure .linear
  | j => do
    let idx ← listOfJson (listOfJson natOfJson) (← field j "custom")
    pure (.custom idx)

def parOfJson : Json → Except String Parallelism
  | Json.str "constant_liar" => pure .constantLiar
  | Json.str "qei" => pure .qei
  | j => throw s!"bad parallelism {j.compress}"

def mmOfJson (j : Json) : Except String MM := do
  match fieldD j "method" Json.null with
  | Json.null => pure .none
  | Json.str "optimizing_one_metric" => pure (.oneMetric (← nat j "opt") (← nat j "con"))
  | Json.str "convex_combination" => pure (.convex (← rats j "weights"))
  | Json.str "epsilon_constraint" => pure (.epsilon (← nat j "opt") (← nat j "con") (← rat j "eps"))
  | m => throw s!"bad multimetric method {m.compress}"

def requestOfJson (j : Json) : Except String Request := do
  pure {
    comps := ← listOfJson compOfJson (← field j "comps"),
    points := ← ratMat j "points",
    values := ← ratMat j "values",
    vars := ← ratMat j "vars",
    fails := ← bools j "fails",
    taskCosts := ← optRats (fieldD j "taskCosts" Json.null),
    objectives := ← listOfJson objOfJson (← field j "objectives"),
    optIdx := ← nats j "optIdx",
    conIdx := ← nats j "conIdx",
    thresholds := ← listOfJson optRat (← field j "thresholds"),
    hypers := ← listOfJson hyperOfJson (← field j "hypers"),
    mean := ← meanOfJson (← field j "mean"),
    pending := ← ratMat j "pending",
    pendingTasks := ← optRats (fieldD j "pendingTasks" Json.null),
    queries := ← ratMat j "queries",
    queryTasks := ← optRats (fieldD j "queryTasks" Json.null),
    parallelism := ← parOfJson (← field j "parallelism"),
    hasTasks := ← bool j "hasTasks",
    maxSimultaneous := ← nat j "maxSim",
    mm := ← mmOfJson (← field j "mm"),
    forceChosen := ← optOfJson (listOfJson natOfJson) (fieldD j "forceChosen" Json.null) }

def gpToJson (g : GPSpec) : Json :=
  Json.mkObj [("metric", jNat g.metric), ("points", jRatMat g.points), ("values", jRats g.values),
    ("vars", jRats g.vars), ("numLies", jNat g.numLies), ("lie", ratToJson g.lie), ("hyper", jRats g.hyper),
    ("tikhonov", jOpt ratToJson g.tikhonov)]

def pfToJson (p : PFSpec) : Json :=
  Json.mkObj [("kind", Json.str (match p.kind with | .logistic => "logistic" | .cdf => "cdf")),
    ("gp", gpToJson p.gp), ("threshold", ratToJson p.threshold)]

def afToJson : AFKind → Json
  | .ei => "ei"
  | .aei => "aei"
  | .eiPf => "ei_pf"
  | .qei => "qei"
  | .qeiPf => "qei_pf"

def planToJson (p : Plan) : Json :=
  Json.mkObj [("dim", jNat p.dim), ("gps", Json.arr (p.gps.map gpToJson).toArray),
    ("weights", jOpt jRats p.weights), ("pfs", Json.arr (p.pfs.map pfToJson).toArray), ("af", afToJson p.af),
    ("costDivide", Json.bool p.costDivide), ("multitaskKernel", Json.bool p.multitaskKernel),
    ("polyIndices", Json.arr (p.polyIndices.map jNats).toArray), ("queries", jRatMat p.queries),
    ("pendingEnc", jRatMat p.pendingEnc), ("batch", jNat p.batch), ("meanNoise", ratToJson p.meanNoise)]

def handle (j : Json) : Except String Json := do
  match (← str j "op") with
  | "plan" =>
    let r ← requestOfJson j
    -- what the third-party sort of `force_minimum_successful_points` is applied to (epsilon phase only)
    let force : Json :=
      match r.mm with
      | .epsilon opt con eps =>
        let labels := epsilonLabels r con eps
        let vals := C13.col opt (afRows r)
        let idx := (List.range labels.length).filter fun i => labels.getD i false
        let numSucc := C13.numSuccessful labels
        -- distance of every row's constrained metric from the labelling threshold (an exact tie is decided by rounding in floats)
        let thr := C13.epsValue eps con (C13.select (r.fails.map not) (afRows r)) .none .none
        let margins := (C13.col con (afRows r)).map fun x => if x < thr then thr - x else x - thr
        Json.mkObj [("failIdx", jNats idx), ("vals", jRats (idx.map fun i => vals.getD i 0)),
          ("diff", jNat (if numSucc < C13.minSuccessful then C13.minSuccessful - numSucc else 0)),
          ("chosen", jNats (epsilonChosen r opt con eps)), ("labelMargins", jRats margins),
          ("oracleLegal", jOpt (fun c => Json.bool (legalChoice vals labels c)) r.forceChosen)]
      | _ => Json.null
    pure (Json.mkObj [("wf", Json.bool r.wf), ("plan", planToJson (plan r)),
      ("usePF", Json.bool (usePF r)), ("useQei", Json.bool (useQei r)), ("force", force)])
  | op => throw s!"unknown op {op}"

def main : IO Unit := Codec.loop handle
