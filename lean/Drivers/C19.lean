import Model.Codec
import Model.Domain
import Model.C09
import Model.C15
import Model.C19
open Lean Codec Dom C19

def compOfJson (j : Json) : Except String Component := do
  let t ← str j "t"
  let e ← rats j "e"
  match t, e with
  | "double", [lo, hi] => pure (.double lo hi)
  | "int", [lo, hi] => pure (.int lo hi)
  | "cat", es => pure (.cat es)
  | "grid", es => pure (.grid es)
  | _, _ => throw s!"bad component {j.compress}"

def compsOf (j : Json) : Except String (List Component) := do listOfJson compOfJson (← field j "comps")

def pairOfJson (j : Json) : Except String (Rat × Rat) := do
  match (← listOfJson ratOfJson j) with
  | [a, b] => pure (a, b)
  | _ => throw "bad pair"

def jPairs (l : List (Rat × Rat)) : Json := Json.arr (l.map fun (a, b) => jRats [a, b]).toArray

def jOptRats : Option (List Rat) → Json
  | none => Json.null
  | some l => jRats l

def lookupP (tbl : List (List Rat × Rat)) (x : List Rat) : Rat :=
  match tbl.find? (fun e => e.1 == x) with
  | some e => e.2
  | none => 0

def stateToJson (s : LoopState) : Json :=
  Json.mkObj [("reps", jRatMat s.repulsors), ("radius", ratToJson s.radius)]

def handle (j : Json) : Except String Json := do
  match (← str j "op") with
  | "unit" =>
    -- raw bounds (a ContinuousDomain); xs rows to map to the unit cube, us rows to map back
    let bs ← listOfJson pairOfJson (← field j "bounds")
    let xs ← ratMat j "xs"
    let us ← ratMat j "us"
    pure (Json.mkObj [
      ("ok", Json.bool (boundsOK bs)),
      ("to", jRatMat (xs.map (toUnit bs))),
      ("from", jRatMat (us.map (fromUnit bs))),
      ("back", jRatMat (xs.map fun x => fromUnit bs (toUnit bs x))),
      ("inbox", jBools (xs.map (withinBounds bs)))])
  | "search" =>
    -- one-hot rows -> search rows
    let cs ← compsOf j
    let t ← rat j "t"
    let xs ← ratMat j "xs"
    let target ← rat j "target"
    pure (Json.mkObj [
      ("wf", Json.bool (cs.all Component.wf)),
      ("width", jNat (totalWidth cs)),
      ("bounds", jPairs (relaxedBox cs)),
      ("tOK", Json.bool (decide ((totalWidth cs : Rat) ≤ 2 * (t * t)))),
      ("search", jRatMat (xs.map (toSearch cs t))),
      ("rounded", jRatMat (xs.map (roundToTarget target cs))),
      ("unit", jRatMat (xs.map (toUnit (relaxedBox cs)))),
      ("inbox", jBools (xs.map (withinBounds (relaxedBox cs)))),
      ("argmax", Json.arr (xs.map fun x => jNats (C09.argmaxOracle cs x)).toArray)])
  | "sep" =>
    let cs ← compsOf j
    let t ← rat j "t"
    let x ← rats j "x"
    let y ← rats j "y"
    let sx := toSearch cs t x
    let sy := toSearch cs t y
    pure (Json.mkObj [
      ("differ", Json.bool (catDiffer cs x y)),
      ("dist2", ratToJson (dist2 sx sy)),
      ("sq", ratToJson (sqDist sx sy)),
      ("sepBound", ratToJson (2 * (t * t))),
      ("numericSq", ratToJson (numericSq cs x y)),
      ("numDiffer", jNat (numDiffer cs x y)),
      ("width", jNat (totalWidth cs))])
  | "dist" =>
    let xs ← ratMat j "xs"
    let zs ← ratMat j "zs"
    pure (Json.mkObj [("d2", jRatMat (xs.map fun x => zs.map fun z => dist2 x z))])
  | "eval" =>
    -- reps0: one-hot rows given to the constructor, adds: further calls of add_normalized_repulsor_point
    let cs ← compsOf j
    let t ← rat j "t"
    let r2 ← rat j "r2"
    let reps0 ← ratMat j "reps"
    let adds ← listOfJson (listOfJson (listOfJson ratOfJson)) (fieldD j "adds" (Json.arr #[]))
    let xs ← ratMat j "xs"
    let ps ← rats j "ps"
    let batch ← optOfJson natOfJson (fieldD j "batch" Json.null)
    let af := adds.foldl addRepulsor (mkAF cs t r2 reps0)
    let tbl := xs.zip ps
    let out := evaluate af (lookupP tbl) batch xs
    let sxs := xs.map (toSearch cs t)
    pure (Json.mkObj [
      ("values", jOptRats out),
      ("reps", jRatMat af.reps),
      ("similar", jBools (sxs.map (similar af.reps af.r2))),
      -- smallest squared distance to a repulsor (null when there is none): for the boundary analysis
      ("d2min", Json.arr (sxs.map fun sx =>
          match af.reps.map (fun rep => dist2 rep sx) with
          | [] => Json.null
          | d :: ds => ratToJson (ds.foldl min d)).toArray)])
  | "loop" =>
    -- replay of search_strategy_optimization with the recorded picks (one-hot) and redrawn radii
    let cs ← compsOf j
    let t ← rat j "t"
    let reps ← ratMat j "reps"      -- initial repulsors, search coordinates
    let r0 ← rat j "r2"
    let picks ← ratMat j "picks"
    let radii ← rats j "radii"
    let s0 : LoopState := { repulsors := reps, radius := r0 }
    let pick : LoopState → List Rat := fun st => picks.getD (st.repulsors.length - reps.length) []
    let r := searchRun cs t pick radii s0
    let fin := (C15.searchLoop (fun st => toSearch cs t (pick st)) radii s0).2.2
    pure (Json.mkObj [
      ("picks", jRatMat r.1),
      ("seen", Json.arr (r.2.1.map stateToJson).toArray),
      ("last", stateToJson r.2.2),
      ("restored", stateToJson fin)])
  | "schedule" =>
    let dim ← nat j "dim"
    pure (Json.mkObj [("values", jRats ((List.range scheduleValues.length).map (distanceParameter dim)))])
  | x => throw s!"unknown op {x}"

def main : IO Unit := Codec.loop handle
