import Model.Codec
import Model.Kernels
import Model.C03
open Lean Codec Kernels C03

def kindOfJson : Json → Except String Kind
  | Json.str "se" => pure .se
  | Json.str "c0" => pure .c0
  | Json.str "c2" => pure .c2
  | Json.str "c4" => pure .c4
  | j => throw s!"bad kind {j.compress}"

def extToJson : ExtNum → Json
  | .fin q => Json.mkObj [("fin", ratToJson q)]
  | .posInf => Json.str "posInf"
  | .negInf => Json.str "negInf"
  | .nan => Json.str "nan"

def errToJson : HyperError → Json
  | .invalid => Json.str "invalid"
  | .assertion => Json.str "assertion"
  | .index => Json.str "index"

def buildToJson : Except BuildError (List (List Float)) → Json
  | .ok m => Json.mkObj [("ok", jFloatMat m)]
  | .error .noiseOnRectangular => Json.mkObj [("err", Json.str "noiseOnRectangular")]

def optMat (j : Json) (k : String) : Except String (Option (List (List Float))) :=
  optOfJson (listOfJson (listOfJson floatOfJson)) (fieldD j k Json.null)

def optVec (j : Json) (k : String) : Except String (Option (List Float)) :=
  optOfJson (listOfJson floatOfJson) (fieldD j k Json.null)

/-- all pairs of a reference function -/
def table (f : List Float → List Float → Float) (R C : List (List Float)) : List (List Float) :=
  R.map fun r => C.map fun c => f r c

def handle (j : Json) : Except String Json := do
  match (← str j "op") with
  | "radial" =>
    let k ← kindOfJson (← field j "kind")
    let h ← floats j "hyper"
    let X ← floatMat j "X"
    let Z ← optMat j "Z"
    let noise ← optVec j "noise"
    let PX ← floatMat j "PX"
    let PZ ← floatMat j "PZ"
    let alpha := h.headD 0
    let ls := h.tail
    let rows := Z.getD X
    pure (Json.mkObj [
      ("cov", jFloats (covarianceVec k alpha ls PX PZ)),
      ("covRef", jFloats (List.zipWith (kernel k alpha ls) PX PZ)),
      ("r2P", jFloats (List.zipWith (r2 ls) PX PZ)),
      ("gram", jFloatMat (gram k alpha ls X)),
      ("cross", jOpt jFloatMat (Z.map fun Z => crossGram k alpha ls X Z)),
      ("ref", jFloatMat (table (kernel k alpha ls) rows X)),
      ("r2", jFloatMat (table (r2 ls) rows X)),
      ("build", buildToJson (buildKernelMatrix k alpha ls X Z noise))])
  | "multitask" =>
    let kp ← kindOfJson (← field j "kp")
    let kt ← kindOfJson (← field j "kt")
    let h ← floats j "hyper"
    let X ← floatMat j "X"
    let Z ← optMat j "Z"
    let noise ← optVec j "noise"
    let PX ← floatMat j "PX"
    let PZ ← floatMat j "PZ"
    let alpha := h.headD 0
    let ls := h.tail.dropLast
    let lt := h.getLastD 0
    let rows := Z.getD X
    pure (Json.mkObj [
      ("cov", jFloats (multitaskCovarianceVec kp kt alpha ls lt PX PZ)),
      ("covRef", jFloats (List.zipWith (multitask kp kt alpha ls lt) PX PZ)),
      ("gram", jFloatMat (multitaskGram kp kt alpha ls lt X)),
      ("cross", jOpt jFloatMat (Z.map fun Z => multitaskCrossGram kp kt alpha ls lt X Z)),
      ("ref", jFloatMat (table (multitask kp kt alpha ls lt) rows X)),
      ("build", buildToJson (buildMultitaskMatrix kp kt alpha ls lt X Z noise))])
  | "phi" =>
    let k ← kindOfJson (← field j "kind")
    let ds ← floats j "r2"
    pure (Json.mkObj [("phi", jFloats (ds.map (phi k))), ("phiR", jFloats (ds.map fun d => phiR k (Float.sqrt d)))])
  | "hyper" =>
    let bs ← nats j "bits"
    let h := bs.map extOfBits
    let cls := Json.arr (h.map extToJson).toArray
    match (← str j "kernel") with
    | "radial" =>
      match Radial.set h with
      | .ok s => pure (Json.mkObj [("class", cls), ("valid", Json.bool (validHyper h)), ("ok", Json.bool true),
                  ("get", Json.arr (s.get.map extToJson).toArray), ("dim", jNat s.dim),
                  ("alpha", extToJson s.processVariance)])
      | .error e => pure (Json.mkObj [("class", cls), ("valid", Json.bool (validHyper h)), ("ok", Json.bool false),
                  ("err", errToJson e)])
    | "multitask" =>
      let kp ← kindOfJson (← field j "kp")
      let kt ← kindOfJson (← field j "kt")
      let unchecked := match Multitask.setUnchecked kp kt h with
        | .ok _ => true
        | .error _ => false
      match Multitask.set kp kt h with
      | .ok s => pure (Json.mkObj [("class", cls), ("valid", Json.bool (validHyper h)), ("ok", Json.bool true),
                  ("get", Json.arr (s.get.map extToJson).toArray), ("dim", jNat s.dim),
                  ("alpha", extToJson s.processVariance), ("uncheckedOk", Json.bool unchecked)])
      | .error e => pure (Json.mkObj [("class", cls), ("valid", Json.bool (validHyper h)), ("ok", Json.bool false),
                  ("err", errToJson e), ("uncheckedOk", Json.bool unchecked)])
    | s => throw s!"unknown kernel {s}"
  | op => throw s!"unknown op {op}"

def main : IO Unit := Codec.loop handle
