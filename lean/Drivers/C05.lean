/-
  Driver for the C05 model at `Float`.  Numbers travel as IEEE bit patterns.
  The normal CDF is a function parameter of the model: the harness first asks for the `z` values the
  model computes (op "z"), evaluates `scipy.special.ndtr` there, and sends the table back
  (`phi : [[zBits, ΦBits], …]`); `mkPhi` turns the table into the function handed to the model.
-/
import Model.Codec
import Model.C05
open Lean Codec C05

def mkPhi (tbl : List (UInt64 × Float)) : Float → Float := fun z =>
  match tbl.find? (fun e => e.1 == z.toBits) with
  | some e => e.2
  | none => 0.0 / 0.0

def phiOfJson (j : Json) : Except String (Float → Float) := do
  let rows ← listOfJson (listOfJson natOfJson) (fieldD j "phi" (Json.arr #[]))
  let tbl ← rows.mapM fun r =>
    match r with
    | [a, b] => pure (a.toUInt64, Float.ofBits b.toUInt64)
    | _ => throw "phi rows must be pairs"
  pure (mkPhi tbl)

def optNat (j : Json) : Except String (Option Nat) := optOfJson natOfJson j

def jOptFloats : Option (List Float) → Json
  | none => Json.null
  | some l => jFloats l

def handle (j : Json) : Except String Json := do
  match (← str j "op") with
  | "z" =>
    let best ← float j "best"
    let means ← floats j "means"
    let vars ← floats j "vars"
    pure (Json.mkObj [("z", jFloats (List.zipWith (fun m v => zOf best m v) means vars))])
  | "ei" =>
    let Φ ← phiOfJson j
    let c ← float j "c"
    let best ← float j "best"
    let means ← floats j "means"
    let vars ← floats j "vars"
    let mvs := means.zip vars
    let batches ← listOfJson optNat (fieldD j "batch" (Json.arr #[Json.null]))
    let eis := batches.map fun b => evalAtPointList (List.map (ei Φ c best)) b mvs
    let base := mvs.map (ei Φ c best)
    let mut out : List (String × Json) :=
      [("ei", Json.arr (eis.map jOptFloats).toArray), ("base", jFloats base)]
    match j.getObjVal? "noise" with
    | .ok nj =>
      let noise ← listOfJson floatOfJson nj
      let nm := meanOf noise
      out := out ++ [("noiseMean", floatToJson nm),
                     ("penalty", jFloats (vars.map (aeiPenalty nm))),
                     ("aei", Json.arr ((batches.map fun b =>
                        evalAtPointList (List.map (aei Φ c best nm)) b mvs).map jOptFloats).toArray)]
    | .error _ => pure ()
    match j.getObjVal? "pf" with
    | .ok pj =>
      let ps ← listOfJson floatOfJson pj
      out := out ++ [("eiwf", jFloats (List.zipWith (fun mv p => eiwf Φ c best mv p) mvs ps))]
    | .error _ => pure ()
    match j.getObjVal? "costs" with
    | .ok cj =>
      let cs ← listOfJson floatOfJson cj
      out := out ++ [("mt", jFloats (List.zipWith multitask base cs))]
    | .error _ => pure ()
    pure (Json.mkObj out)
  | "logistic" =>
    let vals ← floats j "vals"
    let t ← float j "t"
    let means ← floats j "means"
    let κ := kappa vals
    pure (Json.mkObj [("kappa", floatToJson κ), ("p", jFloats (means.map (pfLogistic κ t)))])
  | "cdf" =>
    let Φ ← phiOfJson j
    let c ← float j "c"
    let t ← float j "t"
    let means ← floats j "means"
    let vars ← floats j "vars"
    pure (Json.mkObj [("p", jFloats ((means.zip vars).map (pfCdf Φ c t)))])
  | "product" =>
    let cols ← floatMat j "cols"
    pure (Json.mkObj [("p", jFloats (cols.map pfProduct))])
  | "incumbent" =>
    let vals ← floats j "vals"
    pure (Json.mkObj [("idx", jNat (bestObserved vals))])
  | "quantile" =>
    let q ← float j "q"
    let means ← floats j "means"
    let vars ← floats j "vars"
    pure (Json.mkObj [("idx", jNat (bestQuantile q means vars)),
                      ("qvals", jFloats (quantileValues q means vars))])
  | "likely" =>
    let probs ← floats j "probs"
    let vals ← floats j "vals"
    pure (Json.mkObj [("idx", jNat (bestLikelySuccess probs vals)),
                      ("acceptable", jNats (acceptableFrom 0 probs))])
  | op => throw s!"unknown op {op}"

def main : IO Unit := Codec.loop handle
