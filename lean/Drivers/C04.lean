import Model.Codec
import Model.Kernels
import Model.C16
import Model.C04
open Lean Codec Kernels C04

def kindOfJson : Json → Except String Kind
  | Json.str "se" => pure .se
  | Json.str "c2" => pure .c2
  | Json.str "c4" => pure .c4
  | j => throw s!"bad differentiable kind {j.compress}"

def jFloatTen (t : List (List (List Float))) : Json := Json.arr (t.map jFloatMat).toArray

abbrev Mat := List (List Float)
abbrev Ten := List (List (List Float))

/-- a covariance object as the driver sees it: closures over the hyperparameters -/
structure KSpec where
  cov : List Float → List Float → Float            -- covariance(x, z), pairwise path
  gradCov : List Float → List Float → List Float   -- grad_covariance(x, z)
  hgradCov : List Float → List Float → List Float  -- hyperparameter_grad_covariance(x, z)
  refGrad : List Float → List Float → List Float   -- closed form (r2)
  refHgrad : List Float → List Float → List Float
  refVal : List Float → List Float → Float
  gram : Mat → Mat                                 -- build_kernel_matrix(X)
  cross : Mat → Mat → Mat                          -- build_kernel_matrix(X, Z): rows Z
  gradT : Mat → Ten                                -- build_kernel_grad_tensor(X)
  gradCrossT : Mat → Mat → Ten                     -- build_kernel_grad_tensor(X, Z)
  hparamT : Mat → Ten
  hparamCrossT : Mat → Mat → Ten
  numHyper : Nat

def kspecOfJson (j : Json) : Except String KSpec := do
  let h ← floats j "hyper"
  match (← str j "type") with
  | "radial" =>
    let k ← kindOfJson (← field j "kind")
    let alpha := h.headD 0
    let ls := h.tail
    pure { cov := covariance k alpha ls, gradCov := gradCovariance k alpha ls,
           hgradCov := hyperGradCovariance k alpha ls, refGrad := gradKernelX k alpha ls,
           refHgrad := gradKernelH k alpha ls, refVal := kernel k alpha ls,
           gram := gram k alpha ls, cross := crossGram k alpha ls,
           gradT := gradTensor k alpha ls, gradCrossT := gradCrossTensor k alpha ls,
           hparamT := hparamTensor k alpha ls, hparamCrossT := hparamCrossTensor k alpha ls,
           numHyper := h.length }
  | "multitask" =>
    let kp ← kindOfJson (← field j "kp")
    let kt ← kindOfJson (← field j "kt")
    let alpha := h.headD 0
    let ls := h.tail.dropLast
    let lt := h.getLastD 0
    pure { cov := multitaskCovariance kp kt alpha ls lt, gradCov := mtGradCovariance kp kt alpha ls lt,
           hgradCov := mtHyperGradCovariance kp kt alpha ls lt, refGrad := mtGradKernelX kp kt alpha ls lt,
           refHgrad := mtGradKernelH kp kt alpha ls lt, refVal := multitask kp kt alpha ls lt,
           gram := multitaskGram kp kt alpha ls lt, cross := multitaskCrossGram kp kt alpha ls lt,
           gradT := mtGradTensor kp kt alpha ls lt, gradCrossT := mtGradCrossTensor kp kt alpha ls lt,
           hparamT := mtHparamTensor kp kt alpha ls lt, hparamCrossT := mtHparamCrossTensor kp kt alpha ls lt,
           numHyper := h.length }
  | s => throw s!"unknown kernel type {s}"

def optMat (j : Json) (k : String) : Except String (Option Mat) :=
  optOfJson (listOfJson (listOfJson floatOfJson)) (fieldD j k Json.null)

def natMat (j : Json) (k : String) : Except String (List (List Nat)) := do
  listOfJson (listOfJson natOfJson) (← field j k)

def floatTen (j : Json) (k : String) : Except String Ten := do
  listOfJson (listOfJson (listOfJson floatOfJson)) (← field j k)

def identity (n : Nat) : Mat :=
  (List.range n).map fun i => (List.range n).map fun j => if i = j then (1 : Float) else 0

/-- slice h of a tensor [i][j][h] -/
def slice (T : Ten) (h : Nat) : Mat := T.map fun row => row.map fun v => v.getD h 0

def handle (j : Json) : Except String Json := do
  match (← str j "op") with
  | "kernel" =>
    let ks ← kspecOfJson (← field j "kernel")
    let X ← floatMat j "X"
    let Z ← optMat j "Z"
    let PX ← floatMat j "PX"
    let PZ ← floatMat j "PZ"
    pure (Json.mkObj [
      ("cov", jFloats (List.zipWith ks.cov PX PZ)),
      ("gradCov", jFloatMat (List.zipWith ks.gradCov PX PZ)),
      ("hgradCov", jFloatMat (List.zipWith ks.hgradCov PX PZ)),
      ("refVal", jFloats (List.zipWith ks.refVal PX PZ)),
      ("refGrad", jFloatMat (List.zipWith ks.refGrad PX PZ)),
      ("refHgrad", jFloatMat (List.zipWith ks.refHgrad PX PZ)),
      ("gram", jFloatMat (ks.gram X)),
      ("gradT", jFloatTen (ks.gradT X)),
      ("hparamT", jFloatTen (ks.hparamT X)),
      ("cross", jOpt jFloatMat (Z.map fun Z => ks.cross X Z)),
      ("gradCrossT", jOpt jFloatTen (Z.map fun Z => ks.gradCrossT X Z)),
      ("hparamCrossT", jOpt jFloatTen (Z.map fun Z => ks.hparamCrossT X Z))])
  | "poly" =>
    let idx ← natMat j "indices"
    let P ← floatMat j "points"
    pure (Json.mkObj [
      ("poly", jFloatMat (P.map fun x => polyRow idx x)),
      ("grad", jFloatTen (P.map fun x => polyGradRows idx x))])
  | "gp" =>
    let ks ← kspecOfJson (← field j "kernel")
    let X ← floatMat j "X"
    let w ← floats j "w"
    let beta ← floats j "beta"
    let idx ← natMat j "indices"
    let B ← floatMat j "B"
    let Q ← floatMat j "Q"
    let rows := Q.map fun q =>
      let kvec := (ks.cross X [q]).headD []
      let dk := (ks.gradCrossT X [q]).headD []
      let dim := q.length
      let pvec := if idx.isEmpty then [(0 : Float)] else polyRow idx q      -- zero mean: P_eval = zeros((m, 1)), coef [0.0]
      let dp := polyGradRows idx q
      let kxx := ks.cov q q
      Json.mkObj [
        ("mean", floatToJson (gpMean kvec w pvec beta)),
        ("gradMean", jFloats (gpGradMean dk w dp beta dim)),
        ("varRaw", floatToJson (gpVarRaw kxx kvec B)),
        ("var", floatToJson (gpVar kxx kvec B)),
        ("gradVar", jFloats (gpGradVar dk kvec B dim))]
    pure (Json.mkObj [("rows", Json.arr rows.toArray)])
  | "gpsum" =>
    let ws ← floats j "ws"
    let ms ← floats j "means"
    let vs ← floats j "vars"
    let gms ← floatMat j "gradMeans"        -- one row per GP
    let gvs ← floatMat j "gradVars"
    let dim ← nat j "dim"
    pure (Json.mkObj [
      ("mean", floatToJson (gpSumMean ws ms)),
      ("var", floatToJson (gpSumVar ws vs)),
      ("gradMean", jFloats ((List.range dim).map fun d => gpSumMean ws (column gms d))),
      ("gradVar", jFloats ((List.range dim).map fun d => gpSumVar ws (column gvs d)))])
  | "z" =>
    let best ← float j "best"
    let ms ← floats j "means"
    let vs ← floats j "vars"
    pure (Json.mkObj [
      ("sqrtVar", jFloats (vs.map Arith.sqrt)),
      ("z", jFloats (List.zipWith (fun m v => zScore best m (Arith.sqrt v)) ms vs))])
  | "ei" =>
    let best ← float j "best"
    let C ← float j "C"
    let m ← float j "mean"
    let v ← float j "var"
    let gm ← floats j "gradMean"
    let gv ← floats j "gradVar"
    let cdf ← float j "cdf"
    let s := Arith.sqrt v
    let z := zScore best m s
    let p := pdf C z
    let eiv := ei s z cdf p
    let eig := List.zipWith (fun gmd gvd => eiGrad (gradSqrtVar gvd s) gmd cdf p) gm gv
    let base := [("z", floatToJson z), ("pdf", floatToJson p), ("ei", floatToJson eiv), ("eiGrad", jFloats eig)]
    match (← str j "mode") with
    | "ei" => pure (Json.mkObj base)
    | "aei" =>
      let tau ← float j "tau"
      let pen := aeiPenalty v tau
      let peng := gv.map fun gvd => aeiPenaltyGrad v tau gvd
      pure (Json.mkObj (base ++ [
        ("pen", floatToJson pen), ("penGrad", jFloats peng),
        ("value", floatToJson (penalized eiv pen)),
        ("grad", jFloats (List.zipWith (fun eg pg => penalizedGrad eiv eg pen pg) eig peng))]))
    | "pen" =>
      let pen ← float j "pen"
      let peng ← floats j "penGrad"
      pure (Json.mkObj (base ++ [
        ("value", floatToJson (penalized eiv pen)),
        ("grad", jFloats (List.zipWith (fun eg pg => penalizedGrad eiv eg pen pg) eig peng))]))
    | s => throw s!"unknown ei mode {s}"
  | "pfLogistic" =>
    let kappa ← float j "kappa"
    let thr ← float j "thr"
    let m ← float j "mean"
    let gm ← floats j "gradMean"
    pure (Json.mkObj [
      ("exponent", floatToJson (kappa * (m - thr))),
      ("value", floatToJson (pfLogistic kappa thr m)),
      ("grad", jFloats (gm.map fun g => pfLogisticGrad kappa thr m g))])
  | "pfCdf" =>
    let thr ← float j "thr"
    let C ← float j "C"
    let m ← float j "mean"
    let v ← float j "var"
    let gm ← floats j "gradMean"
    let gv ← floats j "gradVar"
    let s := Arith.sqrt v
    let z := zScore thr m s
    let p := pdf C z
    pure (Json.mkObj [
      ("z", floatToJson z), ("pdf", floatToJson p),
      ("grad", jFloats (List.zipWith (fun gmd gvd => pfCdfGrad p s gmd z (gradSqrtVar gvd s)) gm gv))])
  | "pfProduct" =>
    let ps ← floats j "ps"
    let gs ← floatMat j "grads"         -- one row per factor
    let dim ← nat j "dim"
    pure (Json.mkObj [
      ("value", floatToJson (pfProduct ps)),
      ("grad", jFloats ((List.range dim).map fun d => pfProductGrad (ps.zip (column gs d))))])
  | "cost" =>
    let af ← float j "af"
    let g ← floats j "grad"
    let c ← float j "cost"
    pure (Json.mkObj [
      ("value", floatToJson (costScaled af c)),
      ("grad", jFloats (costScaledGradRow af g c))])
  | "parzen" =>
    let kl ← kspecOfJson (← field j "lower")
    let kg ← kspecOfJson (← field j "greater")
    let L ← floatMat j "lowerPoints"
    let G ← floatMat j "greaterPoints"
    let gamma ← float j "gamma"
    let Q ← floatMat j "Q"
    let rows := Q.map fun q =>
      let dim := q.length
      let l := C16.mean ((kl.cross L [q]).headD []) + (lowerFloor : Float)
      let g := C16.mean ((kg.cross G [q]).headD [])
      let dkl := (kl.gradCrossT L [q]).headD []
      let dkg := (kg.gradCrossT G [q]).headD []
      let lg := lowerDensityGrad dkl dim
      let lgBug := lowerDensityGradFloorAdded dkl dim
      let gg := densityGrad dkg dim
      Json.mkObj [
        ("l", floatToJson l), ("g", floatToJson g), ("ratio", floatToJson (C16.ratio gamma l g)),
        ("lg", jFloats lg), ("gg", jFloats gg),
        ("grad", jFloats (List.zipWith (fun a b => parzenGrad gamma l g a b) lg gg)),
        ("gradFloorAdded", jFloats (List.zipWith (fun a b => parzenGrad gamma l g a b) lgBug gg))]
    pure (Json.mkObj [("rows", Json.arr rows.toArray)])
  | "loglik" =>
    let ks ← kspecOfJson (← field j "kernel")
    let X ← floatMat j "X"
    let scaling ← float j "scaling"
    let yPb ← floats j "yPb"
    let a ← floats j "a"
    let diagL ← floats j "diagL"
    let B ← floatMat j "B"
    let auto ← bool j "autoNoise"
    let logScale ← floats j "logScale"
    let T := ks.hparamT X
    let dKs := ((List.range ks.numHyper).map fun h => slice T h) ++ (if auto then [identity X.length] else [])
    pure (Json.mkObj [
      ("value", floatToJson (loglik scaling yPb a diagL)),
      ("grad", jFloats (loglikGrad scaling a B dKs logScale))])
  | op => throw s!"unknown op {op}"

def main : IO Unit := Codec.loop handle
