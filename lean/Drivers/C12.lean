import Model.Codec
import Model.C12
open Lean Codec C12

def objOfJson : Json → Except String Objective
  | Json.str "minimize" => pure .minimize
  | Json.str "maximize" => pure .maximize
  | Json.null => pure .maximize
  | j => throw s!"bad objective {j.compress}"

def infoToJson (i : Info) : Json :=
  Json.mkObj [("skip", Json.bool i.skip), ("mid", ratToJson i.mid), ("scale", ratToJson i.scale),
              ("negate", ratToJson i.negate)]

def single (vals : List Rat) (fails : List Bool) (o : Objective) (vars : List Rat) (ws : List Rat) : Json :=
  let i := info vals fails o
  Json.mkObj [
    ("info", infoToJson i),
    ("fwd", jRats (vals.map (fwd i))),
    ("inv", jRats (ws.map (inv i))),
    ("fwdVar", jRats (vars.map (fwdVar i))),
    ("invVar", jRats (vars.map (invVar i))),
    ("lies", jRats [lie vals fails o .cmin, lie vals fails o .cmax, lie vals fails o .cmean])]

def handle (j : Json) : Except String Json := do
  match (← str j "op") with
  | "single" =>
    let vals ← rats j "vals"
    let fails ← bools j "fails"
    let o ← objOfJson (fieldD j "objective" Json.null)
    let vars ← rats j "vars"
    let ws ← rats j "ws"
    pure (single vals fails o vars ws)
  | "multi" =>
    let cols ← ratMat j "cols"
    let fails ← bools j "fails"
    let objs ← listOfJson objOfJson (← field j "objectives")
    let infos := multi cols fails objs
    let fw := (cols.zip infos).map fun (c, i) => c.map (fwd i)
    let lies := (cols.zip objs).map fun (c, o) => [lie c fails o .cmin, lie c fails o .cmax, lie c fails o .cmean]
    pure (Json.mkObj [("infos", Json.arr (infos.map infoToJson).toArray), ("fwd", jRatMat fw), ("lies", jRatMat lies)])
  | op => throw s!"unknown op {op}"

def main : IO Unit := Codec.loop handle
