import Model.Codec
import Model.C07
import Model.C07Adam
open Lean Codec C07

/-! Driver for C07: trace acceptance.  Points are `List Rat` (exact images of the doubles the
    library evaluated), values are `Rat` or `null` (NaN). -/

abbrev Pt := List Rat
abbrev Batch := List (Pt × Option Rat)

def ptOfJson (j : Json) : Except String Pt := listOfJson ratOfJson j

def entryOfJson : Json → Except String (Pt × Option Rat)
  | Json.arr #[p, v] => do
      let p ← ptOfJson p
      let v ← optOfJson ratOfJson v
      pure (p, v)
  | j => throw s!"bad entry {j.compress}"

def batchOfJson (j : Json) : Except String Batch := listOfJson entryOfJson j

def rowOfJson (j : Json) : Except String Row := do
  pure { a := (← rats j "a"), b := (← rat j "b"), slack := (← rat j "slack") }

def fixedOfJson : Json → Except String (Nat × Rat)
  | Json.arr #[i, v] => do pure ((← natOfJson i), (← ratOfJson v))
  | j => throw s!"bad fixed entry {j.compress}"

def domOfJson (j : Json) : Except String Dom := do
  pure { lo := (← rats j "lo"), hi := (← rats j "hi"),
         rows := (← listOfJson rowOfJson (← field j "rows")),
         fixed := (← listOfJson fixedOfJson (← field j "fixed")) }

def jPt (p : Pt) : Json := jRats p

def jBest (b : Pt × Rat) : Json := Json.mkObj [("loc", jPt b.1), ("val", ratToJson b.2)]

def splitLast {α} : List α → Option (List α × α)
  | [] => none
  | [a] => some ([], a)
  | a :: rest => match splitLast rest with
    | none => none
    | some (i, l) => some (a :: i, l)

def vec (kind : String) (maxiter : Nat) (d : Dom) (batches : List Batch) (ret : Option (Pt × Rat)) : Json :=
  let outside := match firstOutside d batches with
    | none => Json.null
    | some (i, j) => Json.arr #[jNat i, jNat j]
  let mon : Json := match monitorAll none batches with
    | none => Json.str "raised"
    | some none => Json.str "empty"
    | some (some b) => jBest b
  let expected := if kind == "de" then deIterations maxiter + 2 else adamIterations maxiter + 1
  let de : Json :=
    if kind == "de" then
      match batches with
      | b0 :: rest =>
        match splitLast rest with
        | some (trials, fb) =>
          match deTrace b0 trials fb with
          | some (bf, pop) => Json.mkObj [("best", jBest bf), ("pop", Json.arr (pop.map jPt).toArray)]
          | none => Json.str "raised"
        | none => Json.str "short"
      | [] => Json.str "short"
    else Json.null
  let liberal : Json := match ret with
    | none => Json.null
    | some b => Json.bool (isMaxOf batches.flatten b)
  Json.mkObj [("outside", outside), ("monitor", mon), ("returnedIsMax", liberal), ("expectedBatches", jNat expected),
              ("numBatches", jNat batches.length), ("de", de)]

def fvalOfJson : Json → Except String (FVal Rat)
  | Json.null => pure .nan
  | Json.str "-inf" => pure .ninf
  | j => do pure (.fin (← ratOfJson j))

def runOfJson (j : Json) : Except String (Run Pt Rat) := do
  pure { start := (← ptOfJson (← field j "start")), stop := (← ptOfJson (← field j "stop")),
         value := (← fvalOfJson (fieldD j "value" Json.null)),
         success := (← bool j "success"), acceptable := (← bool j "acceptable") }

def fvalToJson : FVal Rat → Json
  | .nan => Json.null
  | .ninf => Json.str "-inf"
  | .fin v => ratToJson v

/-- first consumed run that the library called acceptable although its end point is outside the
    checker's domain (with the row slack) -/
def firstBadAcceptable (d : Dom) : Nat → List (Run Pt Rat) → Option Nat
  | _, [] => none
  | i, r :: rs => if r.acceptable && !inDomain d r.stop then some i else firstBadAcceptable d (i + 1) rs

def ms (nm nsel minSucc : Nat) (d : Dom) (runs : List (Run Pt Rat)) (ret : Option Pt) : Json :=
  match multistartOptimize nm nsel minSucc runs with
  | none => Json.mkObj [("raised", Json.bool true)]
  | some res =>
    Json.mkObj [("raised", Json.bool false),
      ("point", jOpt jPt res.point),
      ("consumed", jNat res.runs.length),
      ("spec", jOpt jPt (selectSpec res.runs)),
      ("returnedIsBestSuccessful", match ret with
          | none => Json.null
          | some p => Json.bool (isBestSuccessful res.runs p)),
      ("returnedInDomain", match ret with | some p => Json.bool (inDomain d p) | none => Json.null),
      ("values", Json.arr (res.functionValues.map fvalToJson).toArray),
      ("pointInDomain", match res.point with | some p => Json.bool (inDomain d p) | none => Json.null),
      ("badAcceptable", jOpt jNat (firstBadAcceptable d 0 res.runs))]

def handle (j : Json) : Except String Json := do
  match (← str j "op") with
  | "vec" =>
    let kind ← str j "kind"
    let maxiter ← nat j "maxiter"
    let d ← domOfJson (← field j "dom")
    let batches ← listOfJson batchOfJson (← field j "batches")
    let ret ← match fieldD j "returned" Json.null with
      | Json.null => pure none
      | r => do pure (some ((← ptOfJson (← field r "loc")), (← rat r "val")))
    pure (vec kind maxiter d batches ret)
  | "ms" =>
    let d ← domOfJson (← field j "dom")
    let runs ← listOfJson runOfJson (← field j "runs")
    let ret ← optOfJson ptOfJson (fieldD j "returned" Json.null)
    pure (ms (← nat j "nm") (← nat j "nsel") (← nat j "minSucc") d runs ret)
  | "indom" =>
    let d ← domOfJson (← field j "dom")
    let pts ← listOfJson ptOfJson (← field j "points")
    pure (jBools (pts.map (inDomain d)))
  | "adam" =>
    -- gradient history of one coordinate (IEEE bit patterns) -> displacements of the coded moment arithmetic
    let lr ← float j "lr"; let b1 ← float j "beta1"; let b2 ← float j "beta2"; let eps ← float j "eps"
    let hist ← floatMat j "grads"
    pure (Json.mkObj [("updates", jFloatMat (hist.map (C07Adam.updates lr b1 b2 eps)))])
  | op => throw s!"unknown op {op}"

def main : IO Unit := Codec.loop handle
