import Model.Codec
import Model.Domain
import Model.C09
import Model.C11
open Lean Codec Dom C11

/-! Float read-out of exact rationals (driver only; no theorem depends on it). -/

/-- `n ≈ m · 2^e` with `m < 2^63` -/
def natScaled (n : Nat) : Float × Int :=
  let k := n.log2
  if k ≤ 62 then (Float.ofNat n, 0) else (Float.ofNat (n >>> (k - 62)), ((k - 62 : Nat) : Int))

def ratToFloat (q : Rat) : Float :=
  let (a, ea) := natScaled q.num.natAbs
  let (b, eb) := natScaled q.den
  let x := (a / b).scaleB (ea - eb)
  if q.num < 0 then -x else x

/-- `log q` for `q > 0`, also when `q` is far outside the double range -/
def logRat (q : Rat) : Float :=
  let x := ratToFloat q
  if 1e-300 < x && x < 1e300 then Float.log x
  else
    let (a, ea) := natScaled q.num.natAbs
    let (b, eb) := natScaled q.den
    Float.log a - Float.log b + Float.ofInt (ea - eb) * Float.log 2.0

def compOfJson (j : Json) : Except String Component := do
  let t ← str j "t"
  let e ← rats j "e"
  match t, e with
  | "double", [lo, hi] => pure (.double lo hi)
  | "int", [lo, hi] => pure (.int lo hi)
  | "cat", es => pure (.cat es)
  | "grid", es => pure (.grid es)
  | _, _ => throw s!"bad component {j.compress}"

def comps (j : Json) : Except String (List Component) := do listOfJson compOfJson (← field j "comps")

def optRatOfJson : Json → Except String (Option Rat) := optOfJson ratOfJson
def jOptRat : Option Rat → Json := jOpt ratToJson
def jPairs (l : List (Rat × Rat)) : Json := Json.arr (l.map fun (a, b) => jRats [a, b]).toArray

def pairsOfJson (j : Json) (k : String) : Except String (List (Rat × Rat)) := do
  let m ← ratMat j k
  m.mapM fun r => match r with
    | [a, b] => pure (a, b)
    | _ => throw "bad pair"

def hyperToJson (h : Hyper) : Json :=
  Json.mkObj [("alpha", ratToJson h.alpha), ("ls", jRatMat h.ls), ("task", jOptRat h.task), ("tik", jOptRat h.tik)]

def hyperOfJson (j : Json) : Except String Hyper := do
  pure { alpha := ← rat j "alpha", ls := ← ratMat j "ls",
         task := ← optRatOfJson (fieldD j "task" Json.null), tik := ← optRatOfJson (fieldD j "tik" Json.null) }

def fvalOfJson : Json → Except String FVal
  | Json.str "nan" => pure .nan
  | Json.str "ninf" => pure .ninf
  | Json.str "pinf" => pure .pinf
  | j => do pure (.fin (← ratOfJson j))

def runOfJson (j : Json) : Except String Run := do
  pure { start := ← rats j "start", stop := ← rats j "stop", raised := ← bool j "raised",
         fn := ← fvalOfJson (← field j "fn"), success := ← bool j "success" }

def jobToJson (b : Job) : Json :=
  Json.mkObj [("index", jNat b.index), ("points", jRatMat b.points), ("values", jRats b.values), ("vars", jRats b.vars)]

def allZero (v : Vec) : Bool := v.all fun x => decide (x = 0)

def handle (j : Json) : Except String Json := do
  match (← str j "op") with
  | "loglik" =>
    -- G: kernel Gram matrix (exact doubles, no noise), noise: per-observation variances, tik: fitted nugget or null,
    -- y: values, P: polynomial matrix (n × m), scales
    let G ← ratMat j "G"
    let noise ← rats j "noise"
    let tik ← optRatOfJson (fieldD j "tik" Json.null)
    let A := kernelPlusNoise G tik noise
    let y ← rats j "y"
    let P ← ratMat j "P"
    let m ← nat j "m"
    let scales ← floats j "scales"
    let n := A.length
    match inverseDet n A, ldl n A with
    | some (Ainv, detGJ), some (L, D) =>
      let cInv := certInv n A Ainv
      let cLDL := certLDL n A L D
      let det := lprod D
      match gls m Ainv P y with
      | none => pure (Json.mkObj [("status", Json.str "normal-singular")])
      | some g =>
        let quad := ratToFloat g.quad
        let logdet := logRat det
        pure (Json.mkObj [
          ("status", Json.str "ok"),
          ("certInv", Json.bool cInv), ("certLDL", Json.bool cLDL), ("posDef", Json.bool (allPos D)),
          ("detsAgree", Json.bool (decide (det = detGJ))),
          ("orthogonal", Json.bool (allZero (normalResidual m Ainv P g))),
          ("quadNonneg", Json.bool (decide (0 ≤ g.quad))),
          ("kinvConsistent", Json.bool (decide (g.kinvResid = matVec Ainv g.resid))),
          ("quad", floatToJson quad), ("logdet", floatToJson logdet),
          ("quad0", floatToJson (ratToFloat (dot y (matVec Ainv y)))),
          ("beta", jFloats (g.beta.map ratToFloat)),
          ("resid", jFloats (g.resid.map ratToFloat)),
          ("values", jFloats (scales.map fun s => llOfLog s quad logdet))])
    | _, _ => pure (Json.mkObj [("status", Json.str "singular")])
  | "llcode" =>
    -- the code's own assembly from its own pieces (Float): r, K⁻¹r, diag(L)
    let s ← float j "s"
    pure (Json.mkObj [("value", floatToJson (llCode s (← floats j "r") (← floats j "kinvr") (← floats j "ldiag")))])
  | "hyper" =>
    let logD ← bool j "log"
    let auto ← bool j "auto"
    let dim ← nat j "dim"
    let x ← floats j "x"
    match setHyper logD auto dim x with
    | none => pure (Json.mkObj [("error_kind", Json.str "length")])
    | some (cov, tik) =>
      pure (Json.mkObj [("cov", jFloats cov), ("tik", jOpt floatToJson tik),
        ("get", jFloats (getHyper logD auto cov (tik.getD 0)))])
  | "consts" =>
    pure (Json.mkObj [("ALPHA_LOWER_FACTOR", ratToJson alphaLoF), ("ALPHA_UPPER_FACTOR", ratToJson alphaHiF),
      ("CATEGORICAL_UPPER_BOUND", ratToJson catHi), ("LENGTH_SCALE_LOWER_FACTOR", ratToJson lsLoF),
      ("LENGTH_SCALE_UPPER_FACTOR", ratToJson lsHiF), ("TIKHONOV_LOWER_FACTOR", ratToJson tikLoF),
      ("TIKHONOV_UPPER_FACTOR", ratToJson tikHiF), ("TASK_LENGTH_LOWER_BOUND", ratToJson taskLo),
      ("QUANTIZED_LENGTH_SCALE_LOWER_FACTOR", ratToJson gridLoF), ("MINIMUM_VALUE_VAR", ratToJson minVar),
      ("DEFAULT_TIKHONOV_PARAMETER", ratToJson defaultTik)])
  | "box" =>
    let cs ← comps j
    let vals ← rats j "vals"
    let auto ← bool j "auto"
    let dll ← rat j "dll"
    let tasks ← bool j "tasks"
    let b := hyperBox cs vals auto dll tasks
    pure (Json.mkObj [("box", jPairs b), ("wf", Json.bool (boxWF b)), ("sorted", Json.bool (gridsSorted cs)),
      ("compsWF", Json.bool (cs.all Component.wf)), ("var", ratToJson (sampleVar vals)),
      ("len", jNat (vecLen cs tasks auto))])
  | "unpack" =>
    let cs ← comps j
    let tasks ← bool j "tasks"
    let auto ← bool j "auto"
    let v ← rats j "v"
    let h := unpack cs tasks auto v
    pure (Json.mkObj [("hyper", hyperToJson h), ("structure", Json.bool (structureOK cs tasks auto h)),
      ("repack", jRats (pack cs h)), ("lenOK", Json.bool (decide (v.length = vecLen cs tasks auto)))])
  | "pack" =>
    let cs ← comps j
    let alpha ← rat j "alpha"
    let ls ← listOfJson (listOfJson optRatOfJson) (← field j "ls")
    let task ← optRatOfJson (fieldD j "task" Json.null)
    let tik ← optRatOfJson (fieldD j "tik" Json.null)
    pure (Json.mkObj [("start", jRats (startVector cs alpha ls task tik.isSome)),
      ("shapeOK", Json.bool (C09.lsShapeOK cs ls))])
  | "skip" =>
    let cols ← ratMat j "cols"
    pure (Json.mkObj [("skip", jBools (cols.map shouldSkip))])
  | "view" =>
    -- which records may change: tokens 0..m-1, a fitted record becomes m + index
    let m ← nat j "m"
    let optIdx ← nats j "opt"
    let conIdx ← nats j "con"
    let cs ← comps j
    let raw ← ratMat j "points"
    let tcs ← optOfJson (listOfJson ratOfJson) (fieldD j "taskCosts" Json.null)
    let pts := match tcs with
      | none => raw.map fun cfg => encodeWithTask cs cfg none
      | some ts => (raw.zip ts).map fun (cfg, t) => encodeWithTask cs cfg (some t)
    let scaled ← ratMat j "scaled"
    let svars ← ratMat j "svars"
    let fails ← bools j "fails"
    let js := jobs optIdx conIdx pts scaled svars fails
    let out := view (List.range m) (fun b _ => m + b.index) js
    pure (Json.mkObj [("jobs", Json.arr (js.map jobToJson).toArray),
      ("skips", jBools (js.map fun b => shouldSkip b.values)),
      ("touched", jBools ((out.zip (List.range m)).map fun (a, b) => a != b))])
  | "multistart" =>
    let box ← pairsOfJson j "box"
    let numMulti ← nat j "numMulti"
    let numSel ← nat j "numSel"
    let runs ← listOfJson runOfJson (← field j "runs")
    let acc := inBoxB box
    let res := multistart acc numMulti numSel runs
    let start := (runs.head?.map (·.start)).getD []
    pure (Json.mkObj [("result", jOpt jRats res),
      ("good", jBools (runs.map (goodEnd acc))),
      ("boxOrStart", Json.bool (match res with | some p => boxOrStart box start p | none => false)),
      ("inBox", Json.bool (match res with | some p => acc p | none => false))])
  | op => throw s!"unknown op {op}"

def main : IO Unit := Codec.loop handle
