import Model.Codec
import Model.C20
open Lean Codec
open C20 hiding Json

/-
  Wire format (harness/c20.py):
    value   null | true | false | "s" | [v…] | <integer literal> | {"f":[num,den]} | {"o":[[k,v]…]}
    schema  [[keyword, payload]…] in dict order; payload by keyword, see `kwOfJson`.
-/

partial def valOfJson : Json → Except String C20.Json
  | .null => pure .null
  | .bool b => pure (.bool b)
  | .str s => pure (.str s)
  | .num n => if n.exponent = 0 then pure (.int n.mantissa) else throw "value: integer expected (floats travel as {f:[n,d]})"
  | .arr a => do pure (.arr (← a.toList.mapM valOfJson))
  | j@(.obj _) =>
    match j.getObjVal? "f" with
    | .ok r => do pure (.num (← ratOfJson r))
    | .error _ =>
      match j.getObjVal? "o" with
      | .ok (.arr kvs) => do
        let l ← kvs.toList.mapM fun kv =>
          match kv with
          | .arr #[.str k, v] => do pure (k, ← valOfJson v)
          | _ => throw "value: bad object entry"
        pure (.obj l)
      | _ => throw "value: bad tagged object"

partial def valToJson : C20.Json → Json
  | .null => .null
  | .bool b => .bool b
  | .int i => jInt i
  | .num q => Json.mkObj [("f", ratToJson q)]
  | .str s => .str s
  | .arr xs => .arr (xs.map valToJson).toArray
  | .obj kvs => Json.mkObj [("o", .arr (kvs.map fun (k, v) => Json.arr #[.str k, valToJson v]).toArray)]

def typeOfStr : String → Except String JType
  | "null" => pure .null | "boolean" => pure .boolean | "integer" => pure .integer
  | "number" => pure .number | "string" => pure .string | "array" => pure .array
  | "object" => pure .object | s => throw s!"unknown type {s}"

def patternOfJson : Json → Except String Pattern
  | .arr #[.str "startsWith", .str l] => pure (.startsWith l)
  | .arr #[.str "contains", .str l] => pure (.contains l)
  | .arr #[.str "digits"] => pure .digits
  | .arr #[.str "ident"] => pure .ident
  | j => throw s!"bad pattern {j.compress}"

mutual
partial def schemaOfJson : Json → Except String Schema
  | .arr kws => do
    let ks ← kws.toList.mapM kwOfJson
    pure (ks.foldr Schema.cons Schema.nil)
  | j => throw s!"schema: expected keyword list, got {j.compress}"
partial def kwOfJson : Json → Except String Kw
  | .arr #[.str name, p] =>
    match name with
    | "type" =>
      match p with
      | .str s => do pure (.type (.single (← typeOfStr s)))
      | .arr a => do pure (.type (.many (← a.toList.mapM fun t => do typeOfStr (← strOfJson t))))
      | _ => throw "bad type"
    | "properties" =>
      match p with
      | .arr a => do
        let l ← a.toList.mapM fun e =>
          match e with
          | .arr #[.str k, s] => do pure (k, ← schemaOfJson s)
          | _ => throw "bad properties entry"
        pure (.properties (l.foldr (fun (k, s) r => Props.cons k s r) Props.nil))
      | _ => throw "bad properties"
    | "required" => do pure (.required (← listOfJson strOfJson p))
    | "additionalProperties" =>
      match p with
      | .bool b => pure (.additionalBool b)
      | _ => do pure (.additionalSchema (← schemaOfJson p))
    | "items" => do pure (.items (← schemaOfJson p))
    | "minimum" => do pure (.minimum (← ratOfJson p))
    | "maximum" => do pure (.maximum (← ratOfJson p))
    | "exclusiveMinimum" => do pure (.exclusiveMinimum (← ratOfJson p))
    | "minLength" => do pure (.minLength (← natOfJson p))
    | "maxLength" => do pure (.maxLength (← natOfJson p))
    | "minItems" => do pure (.minItems (← natOfJson p))
    | "maxItems" => do pure (.maxItems (← natOfJson p))
    | "minProperties" => do pure (.minProperties (← natOfJson p))
    | "maxProperties" => do pure (.maxProperties (← natOfJson p))
    | "enum" => do pure (.enum (← listOfJson valOfJson p))
    | "pattern" => do pure (.pattern (← patternOfJson p))
    | "oneOf" => do
      let l ← listOfJson schemaOfJson p
      pure (.oneOf (l.foldr Schemas.cons Schemas.nil))
    | "anyOf" => do
      let l ← listOfJson schemaOfJson p
      pure (.anyOf (l.foldr Schemas.cons Schemas.nil))
    | "const" => do pure (.const (← valOfJson p))
    | "multipleOf" => do pure (.multipleOf (← ratOfJson p))
    | "uniqueItems" => do pure (.uniqueItems (← boolOfJson p))
    | "not" => do pure (.not (← schemaOfJson p))
    | k => throw s!"unknown keyword {k}"
  | j => throw s!"bad keyword {j.compress}"
end

/-- regular-expression texts of the schema's patterns, in traversal order -/
partial def regexTexts : Json → List String
  | .arr a => a.toList.flatMap fun e =>
    match e with
    | .arr #[.str "pattern", p] =>
      match patternOfJson p with
      | .ok pt => [pt.regexText]
      | .error _ => []
    | .arr #[.str "enum", _] => []
    | .arr #[.str "const", _] => []
    | .arr #[.str _, p] => regexTexts p
    | other => regexTexts other
  | _ => []

/-- The driver's `\w`: ASCII word characters plus a few letter blocks (Latin-1 letters, Greek, Cyrillic,
    kana, CJK).  Sound as long as Python's `\w` matches every one of them and `repr` prints them
    literally — the harness checks exactly that on every run. -/
def wordChar (c : Char) : Bool :=
  let n := c.toNat
  c.isAlphanum || c == '_' ||
  (0xC0 ≤ n && n ≤ 0xFF && n != 0xD7 && n != 0xF7) ||
  (0x3B1 ≤ n && n ≤ 0x3C9) || (0x410 ≤ n && n ≤ 0x44F) ||
  (0x3041 ≤ n && n ≤ 0x3093) || (0x4E00 ≤ n && n ≤ 0x9FA5)

def drvRender : Render where
  dumps := fun j => (valToJson j).compress
  str := fun j => (valToJson j).compress
  num := fun q => toString q
  keys := fun ks => ", ".intercalate (ks.map fun k => "`" ++ k ++ "`")
  allowed := fun vs => ", ".intercalate (vs.map fun v => (valToJson v).compress)

def exposedToJson : Exposed → Json
  | .notExposed => .null
  | .key none => Json.mkObj [("k", .null)]
  | .key (some k) => Json.mkObj [("k", .str k)]
  | .unspecified => .str "any"

def errToJson (top : Bool) (v : Violation) : Json :=
  let e := translate drvRender wordChar v
  Json.mkObj [
    ("cls", .str e.cls.name),
    ("key", exposedToJson e.key),
    ("value", match e.value with | some j => Json.mkObj [("v", valToJson j)] | none => .null),
    ("etype", match e.expectedType with | some s => .str s | none => .null),
    ("kw", .str v.kw),
    ("leaf", .str v.leaf.kw),
    ("path", .str (pathString v.leaf.path)),
    ("vpath", .str (pathString v.path)),
    ("top", .bool top),
    ("genuine", .bool v.genuine),
    ("msg", .str e.msg)]

def handle (j : Json) : Except String Json := do
  match (← str j "op") with
  | "check" =>
    let sj ← field j "schema"
    let s ← schemaOfJson sj
    let v ← valOfJson (← field j "value")
    let top := violations s v
    let all := closure top
    let nTop := top.length
    -- `closure` lists the top-level errors interleaved with their contexts; mark the top-level ones
    let adm := all.map fun e => errToJson false e
    pure (Json.mkObj [
      ("conforms", .bool (conforms s v)),
      ("nviol", jNat nTop),
      ("top", .arr (top.map (errToJson true)).toArray),
      ("adm", .arr adm.toArray),
      ("regex", .arr ((regexTexts sj).map Lean.Json.str).toArray)])
  | "wordchar" =>
    let lo ← nat j "lo"
    let hi ← nat j "hi"
    pure (Json.mkObj [("word", jNats ((List.range (hi - lo)).filterMap fun i =>
      let n := lo + i
      if h : n.isValidChar then (if wordChar (Char.ofNatAux n h) then some n else none) else none))])
  | "match" =>
    let p ← patternOfJson (← field j "pattern")
    let s ← str j "s"
    pure (Json.mkObj [("match", .bool (p.matches s)), ("regex", .str p.regexText)])
  | op => throw s!"unknown op {op}"

def main : IO Unit := Codec.loop handle
