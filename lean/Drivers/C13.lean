import Model.Codec
import Model.C13
open Lean Codec C13

def thrOfJson : Json → Except String Thr
  | Json.null => pure .none
  | Json.str "nan" => pure .nan
  | j => do pure (.val (← ratOfJson j))

def branchName : Branch → String
  | .noThresholds => "noThresholds"
  | .tooFewInBounds => "tooFewInBounds"
  | .shortFrontier => "shortFrontier"
  | .bounded => "bounded"

def handle (j : Json) : Except String Json := do
  match (← str j "op") with
  | "pareto" =>
    let rows ← ratMat j "rows"
    let obs ← ints j "obs"
    let (kept, removed) := frontier rows obs
    pure (Json.mkObj [
      ("kept", jInts kept), ("removed", jInts removed),
      ("mask", jBools (paretoMask rows)),
      ("nondominated", jBools (rows.map (nonDominated rows)))])
  | "eps" =>
    let rows ← ratMat j "rows"
    let eps ← rat j "eps"
    let cm ← nat j "cm"
    let t0 ← thrOfJson (fieldD j "t0" Json.null)
    let t1 ← thrOfJson (fieldD j "t1" Json.null)
    let b := epsBranch rows t0 t1
    let legal := if b = .bounded then [epsValue eps cm rows t0 t1] else epsNoBoundsLegal eps cm rows
    pure (Json.mkObj [
      ("value", ratToJson (epsValue eps cm rows t0 t1)),
      ("branch", Json.str (branchName b)),
      ("legal", jRats legal),
      ("sorted", jRatMat (sortedFrontierMin rows))])
  | "force" =>
    let rows ← ratMat j "rows"
    let fails ← bools j "fails"
    let om ← nat j "om"
    pure (Json.mkObj [("out", jBools (forceMinSuccess om rows fails))])
  | "label" =>
    let rows ← ratMat j "rows"
    let fails ← bools j "fails"
    let eps ← rat j "eps"
    let cm ← nat j "cm"
    let om ← nat j "om"
    let successful := select (fails.map not) rows
    pure (Json.mkObj [
      ("threshold", ratToJson (epsValue eps cm successful .none .none)),
      ("labels", jBools (epsFailures eps cm rows fails)),
      ("out", jBools (labelAndForce eps cm om rows fails))])
  | op => throw s!"unknown op {op}"

def main : IO Unit := Codec.loop handle
