import Model.Codec
import Model.C10
open Lean Codec C10

def compOfJson (j : Json) : Except String Comp := do
  match (← str j "t") with
  | "dbl" => pure (.dbl (← rat j "lo") (← rat j "hi"))
  | "int" => pure (.int (← int j "lo") (← int j "hi"))
  | "cat" => pure (.cat (← ints j "elems"))
  | "grid" => pure (.grid (← rats j "elems"))
  | t => throw s!"bad component type {t}"

def domOf (j : Json) : Except String Domain := do listOfJson compOfJson (← field j "dom")

def priorOfJson (j : Json) : Except String Prior := do
  match fieldD j "name" Json.null with
  | Json.null => pure .none
  | Json.str "normal" => pure (.normal (← rat j "mean") (← rat j "scale"))
  | Json.str "beta" => pure (.beta (← rat j "a") (← rat j "b"))
  | n => throw s!"bad prior {n.compress}"

def branchName : Analysis → String
  | .tooLarge => "tooLarge"
  | .error _ => "error"
  | .shortcut _ => "shortcut"
  | .enumerate _ => "enumerate"

def branchN : Analysis → Json
  | .tooLarge => Json.null
  | .error n => jNat n
  | .shortcut n => jNat n
  | .enumerate n => jNat n

def zeroOracle : Oracle := ⟨[], [], [], []⟩

/-- facts about one call of the distinct sampler, including the refinement verdict on `out` -/
def distinctInfo (dom : Domain) (hist : List Row) (k : Nat) (dupProb : Rat) (out : List Row) : Json :=
  let br := if k = 0 then Analysis.enumerate 0 else branchOf dom hist k dupProb
  let des := desOf dom
  let obs := observed dom hist
  Json.mkObj [
    ("discrete", Json.bool (isDiscrete dom)),
    ("wellTyped", Json.bool (hist.all (wellTypedRow dom))),
    ("branch", Json.str (if k = 0 then "zero" else branchName br)),
    ("N", branchN br),
    ("observed", jNat obs.length),
    ("unobserved", match br with
      | .tooLarge => Json.null
      | _ => jNat (numConfigs des - obs.length)),
    ("legal", Json.bool (legalDistinct dom hist k dupProb out)),
    ("admissible", jBools (out.map (admissibleRow dom))),
    ("inHistory", jBools (out.map fun p => decide (p ∈ hist))),
    ("nodup", Json.bool (decide out.Nodup))]

/-- smallest |Σ Δ²/V − tol²·n| over the compared pairs of point `j` (float-boundary detector) -/
def margins (dom : Domain) (pts : List Row) (cmp : Option (List Row)) (tol : Rat) : List Rat :=
  let V := dom.map scale1
  let thr := tol * tol * (dom.length : Rat)
  let e := pts.map (enumRow dom)
  let absr (x : Rat) : Rat := if x < 0 then -x else x
  let one (others : List Row) (p : Row) : Rat :=
    others.foldl (fun acc q => let m := absr (sqDist V q p - thr); if acc < 0 then m else min acc m) (-1)
  match cmp with
  | none => (List.range e.length).map fun j => one (e.take j) (e.getD j [])
  | some cs => let ce := cs.map (enumRow dom); e.map fun p => one ce p

def catMissing (dom : Domain) (rows : List Row) : Bool :=
  rows.any fun r => (dom.zip r).any fun (c, v) =>
    match c with
    | .cat es => !(catVals es).contains v
    | _ => false

def callToJson : Call → Json
  | .plain _ => Json.mkObj [("call", Json.str "plain")]
  | .truncnorm a b loc scale => Json.mkObj [("call", Json.str "truncnorm"), ("a", ratToJson a), ("b", ratToJson b),
      ("loc", ratToJson loc), ("scale", ratToJson scale)]
  | .betaRvs a b loc scale => Json.mkObj [("call", Json.str "beta"), ("a", ratToJson a), ("b", ratToJson b),
      ("loc", ratToJson loc), ("scale", ratToJson scale)]

def drawOfJson (j : Json) : Except String Draw := do
  pure ⟨← nat j "n", ← rat j "t"⟩

def handle (j : Json) : Except String Json := do
  match (← str j "op") with
  | "distinct" =>
    let dom ← domOf j
    let hist ← ratMat j "hist"
    let k ← nat j "k"
    let p ← rat j "dupProb"
    let out ← ratMat j "out"
    pure (distinctInfo dom hist k p out)
  | "model_distinct" =>
    -- the model's own output for the all-zero oracle (used for the exhaustive-set comparison)
    let dom ← domOf j
    let hist ← ratMat j "hist"
    let k ← nat j "k"
    let p ← rat j "dupProb"
    pure (Json.mkObj [("out", jRatMat (distinct dom false hist k p zeroOracle))])
  | "unique" =>
    let dom ← domOf j
    let pts ← ratMat j "pts"
    let cmp ← optOfJson (listOfJson (listOfJson ratOfJson)) (fieldD j "cmp" Json.null)
    let tol ← rat j "tol"
    let missing := catMissing dom pts || (match cmp with | none => false | some cs => catMissing dom cs)
    pure (Json.mkObj [("mask", jBools (uniqueMask dom pts cmp tol)),
                      ("margins", jRats (margins dom pts cmp tol)),
                      ("threshold", ratToJson (tol * tol * (dom.length : Rat))),
                      ("keyError", Json.bool missing)])
  | "replace" =>
    let dom ← domOf j
    let pts ← ratMat j "pts"
    let hist ← ratMat j "hist"
    let tol ← rat j "tol"
    let p ← rat j "dupProb"
    let out ← ratMat j "out"
    let kept := keptOf dom pts hist tol
    let kk := pts.length - kept.length
    let refill := out.drop kept.length
    pure (Json.mkObj [("kept", jRatMat kept), ("need", jNat kk),
                      ("prefixOk", Json.bool (decide (out.take kept.length = kept))),
                      ("refill", distinctInfo dom hist kk p refill),
                      ("m1", jRats (margins dom pts none tol)),
                      ("m2", jRats (margins dom (identifyUnique dom pts none tol) (some hist) tol)),
                      ("threshold", ratToJson (tol * tol * (dom.length : Rat))),
                      ("keyError", Json.bool (catMissing dom pts || catMissing dom hist))])
  | "admissible" =>
    let dom ← domOf j
    let rows ← ratMat j "rows"
    pure (Json.mkObj [("admissible", jBools (rows.map (admissibleRow dom))),
                      ("kept", jBools (rows.map (keepRow dom)))])
  | "idx" =>
    let dom ← domOf j
    let idxs ← nats j "indices"
    let rows ← ratMat j "rows"
    let des := desOf dom
    pure (Json.mkObj [("N", jNat (numConfigs des)),
                      ("decoded", jRatMat (idxs.map (decodeIdx des))),
                      ("reencoded", jNats (idxs.map fun i => encodeIdx des (decodeIdx des i))),
                      ("encoded", jNats (rows.map (encodeIdx des)))])
  | "sample" =>
    let dom ← domOf j
    let draws ← listOfJson (listOfJson drawOfJson) (← field j "draws")
    pure (Json.mkObj [("rows", jRatMat (draws.map (sampleRow dom)))])
  | "prior" =>
    let c ← compOfJson (← field j "comp")
    let pr ← priorOfJson (← field j "prior")
    let call := priorCall c pr
    pure (Json.mkObj [("call", callToJson call),
                      ("support", match callSupport call with
                        | none => Json.null
                        | some (a, b) => jRats [a, b]),
                      ("usePriors", Json.bool (usePriors (← bool j "priorsGiven") (← bool j "constrained")))])
  | op => throw s!"unknown op {op}"

def main : IO Unit := Codec.loop handle
