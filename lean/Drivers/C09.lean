import Model.Codec
import Model.Domain
import Model.C09
open Lean Codec Dom C09

def compOfJson (j : Json) : Except String Component := do
  let t ← str j "t"
  let e ← rats j "e"
  match t, e with
  | "double", [lo, hi] => pure (.double lo hi)
  | "int", [lo, hi] => pure (.int lo hi)
  | "cat", es => pure (.cat es)
  | "grid", es => pure (.grid es)
  | _, _ => throw s!"bad component {j.compress}"

def conOfJson (j : Json) : Except String Constraint := do
  pure { weights := ← rats j "w", rhs := ← rat j "rhs", isInt := ← bool j "int" }

def comps (j : Json) : Except String (List Component) := do listOfJson compOfJson (← field j "comps")

def domOf (j : Json) : Except String Domain := do
  let cs ← comps j
  let cons ← listOfJson conOfJson (fieldD j "cons" (Json.arr #[]))
  pure { comps := cs, cons := cons }

def jPairs (l : List (Rat × Rat)) : Json := Json.arr (l.map fun (a, b) => jRats [a, b]).toArray
def jNatPairs (l : List (Nat × Nat)) : Json := Json.arr (l.map fun (a, b) => jNats [a, b]).toArray

def optRatOfJson : Json → Except String (Option Rat) := optOfJson ratOfJson

def handle (j : Json) : Except String Json := do
  match (← str j "op") with
  | "layout" =>
    let d ← domOf j
    pure (Json.mkObj [
      ("wf", Json.bool d.wf),
      ("bounds", jPairs (relaxedBox d.comps)),
      ("indexMap", jNatPairs (indexMap d.comps)),
      ("width", jNat (totalWidth d.comps)),
      ("ohWeights", jRatMat (d.cons.map fun c => ohWeights d.comps c.weights)),
      ("flags", jBools (constrainedFlags d)),
      ("intConstrained", Json.bool (isIntConstrained d))])
  | "encode" =>
    let cs ← comps j
    let cfg ← rats j "cfg"
    let t ← optRatOfJson (fieldD j "task" Json.null)
    let x := encodeWithTask cs cfg t
    pure (Json.mkObj [("x", jRats x), ("inBox", Json.bool (inBox cs cfg)),
      ("back", jRats (decodeArgmax cs (encode cs cfg))),
      ("lattice", Json.bool (onLattice cs (encode cs cfg)))])
  | "admissible" =>
    let d ← domOf j
    let cfgs ← ratMat j "cfgs"
    pure (Json.mkObj [("ok", jBools (cfgs.map (admissible d)))])
  | "decode" =>
    -- x: one-hot point, omega: categorical draws (index per component), y: implementation's result
    let d ← domOf j
    let x ← rats j "x"
    let ω ← nats j "omega"
    let y ← rats j "y"
    pure (Json.mkObj [
      ("y", jRats (decode d.comps x ω)),
      ("argmax", jRats (decodeArgmax d.comps x)),
      ("spec", Json.bool (decodeSpec d.comps x y)),
      ("ties", jBools (ties d.comps x)),
      ("inRelaxedBox", Json.bool (inRelaxedBox d.comps x)),
      ("withinBounds", Json.bool (withinBounds (relaxedBox d.comps) x)),
      ("inRelaxed", Json.bool (inRelaxed d x)),
      ("admissible", Json.bool (admissible d y))])
  | "round" =>
    let cs ← comps j
    let x ← rats j "x"
    pure (Json.mkObj [("int", jRats (roundInt cs x)), ("grid", jRats (roundGrid cs x)),
      ("cat", jRats (roundCat cs x)), ("ties", jBools (ties cs x)),
      ("argmax", jNats (argmaxOracle cs x))])
  | "neigh" =>
    let d ← domOf j
    let x ← rats j "x"
    let nb := intNeighbours d x []
    pure (Json.mkObj [("all", jRatMat nb), ("feasible", jBools (nb.map (intFeasible d))),
      ("nflag", jNat (countTrue (constrainedFlags d)))])
  | "snap" =>
    -- xs: input rows; ys: implementation's output rows; own: for each output row the index of the
    -- input row it must be a neighbour of (or null when it may be a padding row)
    let d ← domOf j
    let xs ← ratMat j "xs"
    let ys ← ratMat j "ys"
    let model := snapIntFeasible d (fun _ l => l) (fun _ => []) xs
    let nfeas := xs.map fun x => (feasibleNeighbours d x []).length
    let legal := ys.map fun y => xs.any fun x => isFeasibleNeighbourOf d x y
    let ownOK := (xs.zip ys).map fun (x, y) => isFeasibleNeighbourOf d x y
    pure (Json.mkObj [("model", jRatMat model), ("nfeasible", jNats nfeas), ("legal", jBools legal),
      ("own", jBools ownOK), ("feasibleY", jBools (ys.map (intFeasible d)))])
  | "ls" =>
    let cs ← comps j
    let ls ← listOfJson (listOfJson optRatOfJson) (← field j "ls")
    let oh := lsToOneHot cs ls
    let v ← rats j "v"
    pure (Json.mkObj [("oneHot", jRats oh), ("back", jRatMat (lsToCategorical cs oh)),
      ("cat", jRatMat (lsToCategorical cs v))])
  | "task" =>
    let opts ← rats j "options"
    let costs ← rats j "costs"
    pure (Json.mkObj [("snapped", jRats (costs.map (snapTask opts)))])
  | "lattice" =>
    let cs ← comps j
    let x ← rats j "x"
    pure (Json.mkObj [("int", jRatMat (neighInt cs x)), ("cat", jRatMat (neighCat cs x))])
  | op => throw s!"unknown op {op}"

def main : IO Unit := Codec.loop handle
