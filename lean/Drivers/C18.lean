import Model.Codec
import Model.C18
open Lean Codec C18

/-- rank matrix as arrays for O(1) lookup. -/
def matOfJson (j : Json) (k : String) : Except String (Array (Array Int)) := do
  let m ← intMat j k
  pure (m.map List.toArray).toArray

/-- the code's input assertions: `0 < k < n`, `-1 < first < n`. -/
def accepted (n first k : Nat) : Bool := decide (0 < k) && decide (k < n) && decide (first < n)

def kcenterJson (d : Nat → Nat → Int) (n first k : Nat) : List Nat × Array Nat × List (String × Json) :=
  let cs := centres d n first k
  let part := ((List.range n).map (partitionOf d cs k)).toArray
  (cs, part, [("centres", jNats cs), ("partition", jNats part.toList)])

def handle (j : Json) : Except String Json := do
  let n ← nat j "n"
  let k ← nat j "k"
  let dm ← matOfJson j "d"
  if dm.size != n || dm.any (fun r => r.size != n) then throw "d is not n x n"
  let d := tableOf dm
  match (← str j "op") with
  | "kcenter" =>
    let first ← nat j "first"
    if !accepted n first k then return Json.mkObj [("rejected", Json.bool true)]
    let (_, _, fields) := kcenterJson d n first k
    pure (Json.mkObj fields)
  | "view" =>
    let vl ← ints j "v"
    if vl.length != n then throw "v has not n entries"
    let v := vecOf vl.toArray
    let first := argminInt v n
    -- the view asserts num_solutions > 1, then k_center_clustering asserts 0 < k < n
    if !(decide (1 < k) && accepted n first k) then return Json.mkObj [("rejected", Json.bool true)]
    let (_, part, fields) := kcenterJson d n first k
    let bi := bestIndices (natVecOf part) v n k
    pure (Json.mkObj (fields ++ [("first", jNat first), ("best", jNats bi),
      ("assertions", Json.bool (assertionsOn bi n k))]))
  | "spec" =>
    -- the tie-liberal specification decided on outputs claimed by the implementation
    let first ← nat j "first"
    let cs ← nats j "centres"
    let partL ← nats j "partition"
    if partL.length != n then throw "partition has not n entries"
    let part := natVecOf partL.toArray
    let base := [("legalCentres", Json.bool (legalCentres d n first k cs)),
                 ("legalPartition", Json.bool (legalPartition d n k cs part))]
    match j.getObjVal? "best" with
    | .ok _ =>
      let vl ← ints j "v"
      if vl.length != n then throw "v has not n entries"
      let bi ← nats j "best"
      pure (Json.mkObj (base ++ [("legalBest", Json.bool (legalBest part (vecOf vl.toArray) n k bi))]))
    | .error _ => pure (Json.mkObj base)
  | op => throw s!"unknown op {op}"

def main : IO Unit := Codec.loop handle
