import Model.Codec
import Model.C15
open Lean Codec C15

abbrev Pt := List Rat

def methodOfJson : Json → Except String LieMethod
  | Json.str "constant_liar_min" => pure .cmin
  | Json.str "constant_liar_max" => pure .cmax
  | Json.str "constant_liar_mean" => pure .cmean
  | j => throw s!"bad lie method {j.compress}"

def histOfJson (j : Json) : Except String (Hist Pt) := do
  pure { pts := ← ratMat j "pts", vals := ← rats j "vals", noise := ← rats j "noise" }

def histToJson (h : Hist Pt) : Json :=
  Json.mkObj [("pts", jRatMat h.pts), ("vals", jRats h.vals), ("noise", jRats h.noise)]

def gpRun (h : Hist Pt) (ops : List Json) : Except String (List Json) := do
  let mut st := h
  let mut out : List Json := []
  for o in ops do
    match (← str o "op") with
    | "append" =>
      st := gpStep st (.append (← ratMat o "locs") (← methodOfJson (← field o "method")))
    | "read" => st := gpStep st .read
    | x => throw s!"bad gp op {x}"
    out := out ++ [histToJson st]
  pure out

def sumRun (s0 : GPSum Pt) (ops : List Json) : Except String (List Json) := do
  let mut st := s0
  let mut out : List Json := []
  for o in ops do
    match (← str o "op") with
    | "append" =>
      st := sumStep st (.append (← ratMat o "locs") (← methodOfJson (← field o "method")))
      out := out ++ [Json.mkObj [("n", jNat (numSampled st))]]
    | "readVals" =>
      let r := readVals st
      st := r.1
      out := out ++ [Json.mkObj [("n", jNat (numSampled st)), ("vals", jRats r.2)]]
    | "readNoise" =>
      let r := readNoise st
      st := r.1
      out := out ++ [Json.mkObj [("n", jNat (numSampled st)), ("noise", jRats r.2)]]
    | "readBest" =>
      let r := readBest st
      st := r.1
      out := out ++ [Json.mkObj [("n", jNat (numSampled st)), ("best", jNat r.2)]]
    | x => throw s!"bad sum op {x}"
  pure out

def pzToJson (s : Parzen Pt) : Json :=
  Json.mkObj [("lower", jRatMat s.lowerPts), ("greater", jRatMat s.greaterPts), ("lowerLies", jRatMat s.lowerLies),
              ("greaterLies", jRatMat s.greaterLies)]

def pzRun (s0 : Parzen Pt) (ops : List Json) : Except String (List Json) := do
  let mut st := s0
  let mut out : List Json := []
  let mut stashes : List (List Pt × List Pt) := []
  for o in ops do
    match (← str o "op") with
    | "append" => st := pzStep st (.append (← ratMat o "lies") (← bool o "lower"))
    | "clear" => st := pzStep st .clear
    | "stash" => stashes := stashes ++ [pzStash st]
    | "recover" =>
      let k ← nat o "stash"
      match stashes[k]? with
      | some info => st := pzStep st (.recover info)
      | none => throw "no such stash"
    | x => throw s!"bad parzen op {x}"
    out := out ++ [pzToJson st]
  pure out

def handle (j : Json) : Except String Json := do
  match (← str j "op") with
  | "gp" =>
    let h ← histOfJson (← field j "hist")
    let ops ← listOfJson pure (← field j "ops")
    pure (Json.arr (← gpRun h ops).toArray)
  | "gpsum" =>
    let gps ← listOfJson histOfJson (← field j "gps")
    let w ← rats j "weights"
    let ops ← listOfJson pure (← field j "ops")
    pure (Json.arr (← sumRun { gps := gps, weights := w, cacheVals := none, cacheNoise := none, cacheBest := none } ops).toArray)
  | "parzen" =>
    let lo ← ratMat j "lower"; let gr ← ratMat j "greater"
    let ops ← listOfJson pure (← field j "ops")
    pure (Json.arr (← pzRun { baseLower := lo, baseGreater := gr, lowerPts := lo, greaterPts := gr, lowerLies := [], greaterLies := [] } ops).toArray)
  | op => throw s!"unknown op {op}"

def main : IO Unit := Codec.loop handle
