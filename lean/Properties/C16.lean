/-
  C16 — The Parzen-estimator model splits and scores data as specified.
  Property theorems only (helpers live in Proofs/C16.lean, Proofs/C16Real.lean).  Statements about the
  split are over the exact model (`Rat`, all list lengths, all tie patterns, any payload type for the
  points); statements about densities, the ratio, lies and bandwidths are over `ℝ` for an ARBITRARY
  kernel function satisfying only the facts used (non-negativity; `k z x ≤ k x x`), and are then
  instantiated with the four radial covariances of covariance.py.
-/
import Model.C16
import Proofs.C16
import Proofs.C16Real

namespace C16
open List

/-! ### Side lemmas on generated constants (a changed constant breaks exactly these) -/

theorem gen_minLower : minLower = 3 := rfl
theorem gen_minUnforgotten : minUnforgotten = 10 := rfl
theorem gen_lowerFloor : lowerFloorQ = 1 / 10000000000 := by norm_num [lowerFloorQ]
theorem gen_lowerFloor_pos : 0 < lowerFloorQ := by norm_num [lowerFloorQ]
theorem gen_stdEps_pos : 0 < stdEpsQ := by norm_num [stdEpsQ]
theorem gen_catLengthScale_pos : 0 < catLengthScaleQ := by norm_num [catLengthScaleQ]
theorem gen_topGamma_range : 0 < topGamma ∧ topGamma < 1 := by norm_num [topGamma]
theorem gen_maxForget_range : 0 ≤ maxForgetFactor ∧ maxForgetFactor < 1 := by norm_num [maxForgetFactor]

/-! ### Forgetting -/

/-- `int(forget_factor * n)` is the floor of the exact product: `forgotten ≤ f·n < forgotten + 1`. -/
theorem forgotten_floor (n : Nat) (f : Rat) (hf : 0 ≤ f) :
    ((numForgotten n f : Nat) : Rat) ≤ f * n ∧ f * n < ((numForgotten n f : Nat) : Rat) + 1 :=
  ⟨natFloor_le _ (mul_nonneg hf (Nat.cast_nonneg n)), lt_natFloor_add_one _⟩

/-- With `0 ≤ f < 1` fewer than all points are forgotten, so `unforgotten + forgotten = n`
    and at least one point is kept when there is one. -/
theorem forgotten_lt (n : Nat) (f : Rat) (hf : 0 ≤ f) (hf1 : f < 1) (hn : 0 < n) :
    numForgotten n f < n ∧ numUnforgotten n f + numForgotten n f = n := by
  have hn' : (0 : Rat) < n := by exact_mod_cast hn
  have h : numForgotten n f < n := by
    apply natFloor_lt_of_lt _ (mul_nonneg hf (Nat.cast_nonneg n))
    nlinarith
  exact ⟨h, by unfold numUnforgotten; omega⟩

theorem forget_zero (n : Nat) : numForgotten n 0 = 0 ∧ numUnforgotten n 0 = n := by
  have : numForgotten n 0 = 0 := by
    unfold numForgotten
    exact natFloor_unique _ 0 (by simp) (by simp)
  exact ⟨this, by unfold numUnforgotten; omega⟩

/-! ### The split: sizes, order, permutation, error -/

/-- The size of the lower set is `max(⌊γ·m⌋, 3)`: `⌊·⌋` characterised by `j ≤ γ·m < j + 1`. -/
theorem subSeqLen_spec (m : Nat) (γ : Rat) (hγ : 0 ≤ γ) :
    ∃ j : Nat, (j : Rat) ≤ (m : Rat) * γ ∧ (m : Rat) * γ < (j : Rat) + 1 ∧ subSeqLen m γ = max j 3 :=
  ⟨natFloor ((m : Rat) * γ), natFloor_le _ (mul_nonneg (Nat.cast_nonneg m) hγ), lt_natFloor_add_one _, rfl⟩

theorem subSeqLen_ge_three (m : Nat) (γ : Rat) : 3 ≤ subSeqLen m γ := le_max_right _ _

/-- For `0 < γ < 1` and at least ten (indeed four) unforgotten points the lower set never swallows
    everything: `max(⌊γ m⌋, 3) ≤ m − 1`. -/
theorem subSeqLen_le_pred (m : Nat) (γ : Rat) (h0 : 0 < γ) (h1 : γ < 1) (hm : 4 ≤ m) :
    subSeqLen m γ ≤ m - 1 := by
  unfold subSeqLen
  have hm' : (0 : Rat) < m := by exact_mod_cast (by omega : 0 < m)
  have : natFloor ((m : Rat) * γ) < m :=
    natFloor_lt_of_lt _ (mul_nonneg hm'.le h0.le) m (by nlinarith)
  have h3 : minLower = 3 := gen_minLower
  rw [h3]
  omega

/-- **split_error_iff** — `form_model` raises `SPEInsufficientDataError` exactly when fewer than ten
    points remain unforgotten or the lower set would leave no greater point:
    error ⇔ `m < 10 ∨ m ≤ max(⌊γ m⌋, 3)`. -/
theorem split_error_iff {π : Type} (obs : List (Rat × π)) (γ f : Rat) :
    (∃ e, formModel obs γ f = .error e) ↔
      (numUnforgotten obs.length f < 10 ∨
        numUnforgotten obs.length f ≤ max (natFloor ((numUnforgotten obs.length f : Rat) * γ)) 3) := by
  unfold formModel formModelK
  simp only [gen_minUnforgotten]
  have hk : subSeqLen (numUnforgotten obs.length f) γ
      = max (natFloor ((numUnforgotten obs.length f : Rat) * γ)) 3 := rfl
  rw [← hk]
  have hm : obs.length - numForgotten obs.length f = numUnforgotten obs.length f := rfl
  rw [hm]
  constructor
  · rintro ⟨e, he⟩
    split_ifs at he with h1 h2
    · left; exact h1
    · right; omega
  · intro h
    by_cases h1 : numUnforgotten obs.length f < 10
    · exact ⟨.tooFewUnforgotten, by rw [if_pos h1]⟩
    · have h2 : subSeqLen (numUnforgotten obs.length f) γ > numUnforgotten obs.length f - 1 := by
        rcases h with h | h
        · exact absurd h h1
        · omega
      exact ⟨.lowerTooLarge, by rw [if_neg h1, if_pos h2]⟩

/-- which of the two errors -/
theorem split_error_kind {π : Type} (obs : List (Rat × π)) (γ f : Rat) :
    (formModel obs γ f = .error .tooFewUnforgotten ↔ numUnforgotten obs.length f < 10) ∧
    (formModel obs γ f = .error .lowerTooLarge ↔
      (10 ≤ numUnforgotten obs.length f ∧
        numUnforgotten obs.length f ≤ subSeqLen (numUnforgotten obs.length f) γ)) := by
  unfold formModel formModelK
  simp only [gen_minUnforgotten]
  have hm : obs.length - numForgotten obs.length f = numUnforgotten obs.length f := rfl
  rw [hm]
  constructor
  · constructor
    · intro h
      by_contra hc
      rw [if_neg hc] at h
      split at h <;> simp at h
    · intro h; rw [if_pos h]
  · constructor
    · intro h
      by_cases h1 : numUnforgotten obs.length f < 10
      · rw [if_pos h1] at h; simp at h
      · rw [if_neg h1] at h
        by_cases h2 : subSeqLen (numUnforgotten obs.length f) γ > numUnforgotten obs.length f - 1
        · exact ⟨by omega, by omega⟩
        · rw [if_neg h2] at h; simp at h
    · rintro ⟨h1, h2⟩
      rw [if_neg (by omega), if_pos (by omega)]

/-- For every legal `gamma ∈ (0,1)` the only reachable error is "fewer than ten unforgotten points". -/
theorem split_total_of_valid_gamma {π : Type} (obs : List (Rat × π)) (γ f : Rat)
    (h0 : 0 < γ) (h1 : γ < 1) (hm : 10 ≤ numUnforgotten obs.length f) :
    ∃ l g, formModel obs γ f = .ok l g := by
  by_contra hc
  have : ∃ e, formModel obs γ f = .error e := by
    cases h : formModel obs γ f with
    | error e => exact ⟨e, rfl⟩
    | ok l g => exact absurd ⟨l, g, h⟩ hc
  rcases (split_error_iff obs γ f).mp this with h | h
  · omega
  · have := subSeqLen_le_pred (numUnforgotten obs.length f) γ h0 h1 (by omega)
    unfold subSeqLen at this
    rw [gen_minLower] at this
    omega

/-- **split (main theorem)** — when `form_model` succeeds, with `m` unforgotten points and
    `k = max(⌊γ m⌋, 3)`:
      * `lower ++ greater` is a rearrangement of the first `m` observations (value AND point);
      * `|lower| = k ≥ 3`, `|greater| = m − k ≥ 1`;
      * every lower value ≤ every greater value;
      * both sets are themselves sorted by value. -/
theorem split_ok {π : Type} (obs : List (Rat × π)) (γ f : Rat) (l g : List (Rat × π))
    (h : formModel obs γ f = .ok l g) :
    let m := numUnforgotten obs.length f
    let k := max (natFloor ((m : Rat) * γ)) 3
    IsSplit (obs.take m) k l g ∧ l.length = k ∧ g.length = m - k ∧ 3 ≤ l.length ∧ 1 ≤ g.length ∧
      10 ≤ m ∧ m ≤ obs.length ∧ SortedByValue l ∧ SortedByValue g := by
  intro m k
  unfold formModel formModelK at h
  simp only [gen_minUnforgotten] at h
  have hm : obs.length - numForgotten obs.length f = m := rfl
  have hk : subSeqLen (numUnforgotten obs.length f) γ = k := rfl
  rw [hm, hk] at h
  split_ifs at h with h1 h2
  injection h with hl hg
  have hsorted := sortByValue_sorted (obs.take m)
  have hlen : (sortByValue (obs.take m)).length = m := by
    rw [sortByValue_length, List.length_take]
    have : m ≤ obs.length := Nat.sub_le _ _
    omega
  have hk3 : 3 ≤ k := le_max_right _ _
  have hll : l.length = k := by rw [← hl, List.length_take, hlen]; omega
  have hgl : g.length = m - k := by rw [← hg, List.length_drop, hlen]
  refine ⟨⟨?_, hll, ?_⟩, hll, hgl, by omega, by omega, by omega, Nat.sub_le _ _, ?_, ?_⟩
  · rw [← hl, ← hg, List.take_append_drop]
    exact sortByValue_perm _
  · rw [← hl, ← hg]
    exact sorted_take_le_drop _ hsorted k
  · rw [← hl]; exact sorted_take _ hsorted k
  · rw [← hg]; exact sorted_drop _ hsorted k

/-- **split_sizes** (the documented numbers: three and ten). -/
theorem split_sizes {π : Type} (obs : List (Rat × π)) (γ f : Rat) (l g : List (Rat × π))
    (h : formModel obs γ f = .ok l g) :
    l.length = max (natFloor ((numUnforgotten obs.length f : Rat) * γ)) 3 ∧
    l.length + g.length = numUnforgotten obs.length f := by
  obtain ⟨_, h1, h2, _, h4, _⟩ := split_ok obs γ f l g h
  exact ⟨h1, by omega⟩

/-- **split_order** — no lower value exceeds a greater value. -/
theorem split_order {π : Type} (obs : List (Rat × π)) (γ f : Rat) (l g : List (Rat × π))
    (h : formModel obs γ f = .ok l g) : ∀ a ∈ l, ∀ b ∈ g, a.1 ≤ b.1 :=
  (split_ok obs γ f l g h).1.2.2

/-- **split_perm** — nothing is lost or invented: the two sets together are exactly the unforgotten
    observations (the FIRST `m` rows: `values[: self.num_points]`). -/
theorem split_perm {π : Type} (obs : List (Rat × π)) (γ f : Rat) (l g : List (Rat × π))
    (h : formModel obs γ f = .ok l g) : (l ++ g).Perm (obs.take (numUnforgotten obs.length f)) :=
  (split_ok obs γ f l g h).1.1

/-- **split_values_unique** — ties are immaterial: ANY arrangement that satisfies the specification
    (permutation, size, order) has the same multiset of lower values and of greater values as the
    model's.  This is what licenses comparing sorted value multisets with the implementation, whose
    `argsort` may order ties differently. -/
theorem split_values_unique {π : Type} (obs : List (Rat × π)) (γ f : Rat) (l g l' g' : List (Rat × π))
    (h : formModel obs γ f = .ok l g)
    (h' : IsSplit (obs.take (numUnforgotten obs.length f))
            (max (natFloor ((numUnforgotten obs.length f : Rat) * γ)) 3) l' g') :
    (l'.map (·.1)).Perm (l.map (·.1)) ∧ (g'.map (·.1)).Perm (g.map (·.1)) :=
  isSplit_values_unique _ _ l' g' l g h' (split_ok obs γ f l g h).1

/-- The lower set consists of lowest-valued points: every unforgotten observation outside the lower
    set (i.e. in the greater set) is at least as large as the largest lower value, and the lower set
    has exactly `k` members — so it is a set of `k` lowest-valued points. -/
theorem split_lower_are_lowest {π : Type} (obs : List (Rat × π)) (γ f : Rat) (l g : List (Rat × π))
    (h : formModel obs γ f = .ok l g) (x : Rat × π)
    (hx : x ∈ obs.take (numUnforgotten obs.length f)) : x ∈ l ∨ ∀ a ∈ l, a.1 ≤ x.1 := by
  have hp := split_perm obs γ f l g h
  have : x ∈ l ++ g := hp.symm.subset hx
  rcases List.mem_append.mp this with h1 | h1
  · left; exact h1
  · right; intro a ha; exact split_order obs γ f l g h a ha x h1

/-- Non-vacuity: twelve observations, `γ = 1/2`, nothing forgotten — the hypotheses of the split
    theorems are satisfiable and the split has sizes 6 / 6. -/
example : ∃ l g, formModel ((List.range 12).map (fun i => ((i : Rat), i))) (1 / 2) 0 = .ok l g ∧
    l.length = 6 ∧ g.length = 6 := by
  have hm : numUnforgotten ((List.range 12).map (fun i => ((i : Rat), i))).length 0 = 12 := by
    rw [(forget_zero _).2]; simp
  obtain ⟨l, g, h⟩ := split_total_of_valid_gamma ((List.range 12).map (fun i => ((i : Rat), i))) (1 / 2) 0
    (by norm_num) (by norm_num) (by rw [hm]; norm_num)
  have hs := split_sizes _ _ _ l g h
  rw [hm] at hs
  have hf : natFloor (((12 : Nat) : Rat) * (1 / 2)) = 6 := natFloor_unique _ 6 (by norm_num) (by norm_num)
  rw [hf] at hs
  exact ⟨l, g, h, by omega, by omega⟩

/-! ### Densities (any kernel) -/

/-- **density_is_kernel_mean** — the density is the arithmetic mean of the kernel values over the set. -/
theorem density_is_kernel_mean {P : Type} (k : P → P → ℝ) (set : List P) (x : P) :
    density k set x = (set.map (fun z => k z x)).sum / (set.length : ℝ) := by
  unfold density
  rw [mean_real, List.length_map]

/-- **density_nonneg** -/
theorem density_nonneg {P : Type} (k : P → P → ℝ) (set : List P) (x : P)
    (hk : ∀ z ∈ set, 0 ≤ k z x) : 0 ≤ density k set x := by
  unfold density
  apply mean_nonneg
  intro a ha
  obtain ⟨z, hz, rfl⟩ := List.mem_map.mp ha
  exact hk z hz

theorem greater_density_nonneg {P : Type} (k : P → P → ℝ) (greater : List P) (x : P)
    (hk : ∀ z ∈ greater, 0 ≤ k z x) : 0 ≤ greaterDensity k greater x :=
  density_nonneg k greater x hk

/-- **lower_density_pos** — the lower density is at least the floor `1e-10`, hence positive. -/
theorem lower_density_pos {P : Type} (k : P → P → ℝ) (lower : List P) (x : P)
    (hk : ∀ z ∈ lower, 0 ≤ k z x) :
    (1 : ℝ) / 10000000000 ≤ lowerDensity k lower x ∧ 0 < lowerDensity k lower x := by
  unfold lowerDensity
  have h := density_nonneg k lower x hk
  have hf : (lowerFloor : ℝ) = 1 / 10000000000 := by
    rw [lowerFloor_real, gen_lowerFloor]; norm_num
  have e : density k lower x + (lowerFloor : ℝ) = density k lower x + 1 / 10000000000 := by rw [hf]
  have hpos : (0 : ℝ) < 1 / 10000000000 := by norm_num
  constructor
  · show (1 : ℝ) / 10000000000 ≤ density k lower x + (lowerFloor : ℝ)
    rw [e]; linarith
  · show (0 : ℝ) < density k lower x + (lowerFloor : ℝ)
    rw [e]; linarith

/-- A kernel bounded by its diagonal value bounds the density (non-empty set). -/
theorem density_le_self {P : Type} (k : P → P → ℝ) (set : List P) (x : P) (hne : set ≠ [])
    (hk : ∀ z ∈ set, k z x ≤ k x x) : density k set x ≤ k x x := by
  unfold density
  apply mean_le_of_forall_le _ _ (by simpa using hne)
  intro a ha
  obtain ⟨z, hz, rfl⟩ := List.mem_map.mp ha
  exact hk z hz

/-! ### The improvement ratio -/

/-- **ratio_formula** — the code's `1 / (gamma + gpdf / lpdf * (1 - gamma))` is the documented
    `1 / (γ + (1 − γ)·g/l)`. -/
theorem ratio_formula (γ l g : ℝ) : ratio γ l g = 1 / (γ + (1 - γ) * g / l) := by
  rw [ratio_real]
  congr 1
  ring

/-- **ratio_range** — `0 < ratio ≤ 1/γ` for `0 < γ < 1`, `g ≥ 0`, `l > 0`; the upper end is attained
    exactly when the greater density vanishes. -/
theorem ratio_range (γ l g : ℝ) (h0 : 0 < γ) (h1 : γ < 1) (hg : 0 ≤ g) (hl : 0 < l) :
    0 < ratio γ l g ∧ ratio γ l g ≤ 1 / γ ∧ (ratio γ l g = 1 / γ ↔ g = 0) :=
  ⟨ratio_pos γ l g h0 h1 hg hl, ratio_le γ l g h0 h1 hg hl, ratio_eq_top_iff γ l g h0 h1 hg hl⟩

/-- **ei_range** — what `evaluate_expected_improvement` returns for one point: lower density ≥ 1e-10,
    greater density ≥ 0, ratio = the formula of the two, in `(0, 1/γ]` — for ANY two non-negative
    kernels, any sets (lies included), any point. -/
theorem ei_range {P : Type} (kl kg : P → P → ℝ) (γ : ℝ) (lower greater : List P) (x : P)
    (h0 : 0 < γ) (h1 : γ < 1) (hl : ∀ z ∈ lower, 0 ≤ kl z x) (hg : ∀ z ∈ greater, 0 ≤ kg z x) :
    let r := expectedImprovement kl kg γ lower greater x
    0 < r.1 ∧ 0 ≤ r.2.1 ∧ r.2.2 = 1 / (γ + (1 - γ) * r.2.1 / r.1) ∧ 0 < r.2.2 ∧ r.2.2 ≤ 1 / γ := by
  intro r
  have a := (lower_density_pos kl lower x hl).2
  have b := greater_density_nonneg kg greater x hg
  have c := ratio_range γ _ _ h0 h1 b a
  exact ⟨a, b, ratio_formula _ _ _, c.1, c.2.1⟩

example : 0 < ratio (1 / 10 : ℝ) 1 2 ∧ ratio (1 / 10 : ℝ) 1 2 ≤ 1 / (1 / 10) :=
  let h := ratio_range (1 / 10) 1 2 (by norm_num) (by norm_num) (by norm_num) (by norm_num)
  ⟨h.1, h.2.1⟩

/-! ### Lies -/

/-- What `append_lies([x])` does: by default (`lower=False`) the lie joins the GREATER set and the
    lower set is untouched; with `lower=True` it joins the lower set. -/
theorem appendLie_sets {P : Type} (L G : List P) (x : P) :
    appendLie (L, G) x = (L, G ++ [x]) ∧ appendLie (L, G) x true = (L ++ [x], G) := by
  simp [appendLie]

/-- **lie_not_lower** (general form) — adding a lie at `x` to a non-empty set does not lower that
    set's density at `x`, for any kernel with `k z x ≤ k x x` on the set (every radial kernel:
    `k x x = α`).  `set` is arbitrary, so it may already contain any sequence of earlier lies. -/
theorem lie_not_lower {P : Type} (k : P → P → ℝ) (set : List P) (x : P) (hne : set ≠ [])
    (hk : ∀ z ∈ set, k z x ≤ k x x) : density k set x ≤ density k (set ++ [x]) x := by
  unfold density
  rw [List.map_append]
  apply mean_append_singleton_ge _ _ (by simpa using hne)
  intro a ha
  obtain ⟨z, hz, rfl⟩ := List.mem_map.mp ha
  exact hk z hz

/-- **lie_default_greater** — the default `append_lies([x])`: the greater density at `x` does not
    decrease, the lower density is unchanged, hence the improvement ratio at `x` does not increase. -/
theorem lie_default_greater {P : Type} (kl kg : P → P → ℝ) (γ : ℝ) (L G : List P) (x : P)
    (h0 : 0 < γ) (h1 : γ < 1) (hG : G ≠ [])
    (hkl : ∀ z ∈ L, 0 ≤ kl z x) (hkg0 : ∀ z ∈ G, 0 ≤ kg z x) (hkg : ∀ z ∈ G, kg z x ≤ kg x x) :
    let after := appendLie (L, G) x
    greaterDensity kg G x ≤ greaterDensity kg after.2 x ∧
    lowerDensity kl after.1 x = lowerDensity kl L x ∧
    (expectedImprovement kl kg γ after.1 after.2 x).2.2 ≤ (expectedImprovement kl kg γ L G x).2.2 := by
  intro after
  have ha : after = (L, G ++ [x]) := (appendLie_sets L G x).1
  have hd : greaterDensity kg G x ≤ greaterDensity kg (G ++ [x]) x := lie_not_lower kg G x hG hkg
  rw [ha]
  refine ⟨hd, rfl, ?_⟩
  exact ratio_antitone_greater γ _ _ _ h0 h1 (greater_density_nonneg kg G x hkg0) hd
    (lower_density_pos kl L x hkl).2

/-- **lie_lower** — `append_lies([x], lower=True)`: the lower density at `x` does not decrease, the
    greater density is unchanged, hence the ratio at `x` does not decrease. -/
theorem lie_lower {P : Type} (kl kg : P → P → ℝ) (γ : ℝ) (L G : List P) (x : P)
    (h0 : 0 < γ) (h1 : γ < 1) (hL : L ≠ [])
    (hkl0 : ∀ z ∈ L, 0 ≤ kl z x) (hkl : ∀ z ∈ L, kl z x ≤ kl x x) (hkg0 : ∀ z ∈ G, 0 ≤ kg z x) :
    let after := appendLie (L, G) x true
    lowerDensity kl L x ≤ lowerDensity kl after.1 x ∧
    greaterDensity kg after.2 x = greaterDensity kg G x ∧
    (expectedImprovement kl kg γ L G x).2.2 ≤ (expectedImprovement kl kg γ after.1 after.2 x).2.2 := by
  intro after
  have ha : after = (L ++ [x], G) := (appendLie_sets L G x).2
  have hd : density kl L x ≤ density kl (L ++ [x]) x := lie_not_lower kl L x hL hkl
  have hd' : lowerDensity kl L x ≤ lowerDensity kl (L ++ [x]) x := by
    show density kl L x + (lowerFloor : ℝ) ≤ density kl (L ++ [x]) x + (lowerFloor : ℝ)
    linarith
  rw [ha]
  refine ⟨hd', rfl, ?_⟩
  exact ratio_monotone_lower γ _ _ _ h0 h1 (greater_density_nonneg kg G x hkg0)
    (lower_density_pos kl L x hkl0).2 hd'

/-- Sequences of lies: whatever lies were appended before, the next lie at `x` does not lower the
    density of the set it joins at `x`. -/
theorem lie_after_lies {P : Type} (k : P → P → ℝ) (base lies : List P) (x : P) (hne : base ≠ [])
    (hk : ∀ z, k z x ≤ k x x) : density k (base ++ lies) x ≤ density k (base ++ lies ++ [x]) x :=
  lie_not_lower k (base ++ lies) x (by simp [hne]) (fun z _ => hk z)

/-! ### The radial covariances satisfy the kernel hypotheses (non-vacuity of the above) -/

/-- SE / C0 / C2 / C4 radial Matérn with process variance `a > 0`: strictly positive, bounded by the
    diagonal value, and the diagonal value is `a`. -/
theorem radial_kernel_facts (kind : Kind) (a : ℝ) (ls z x : List ℝ) (ha : 0 < a) :
    0 < radialKernel kind (a :: ls) z x ∧
    radialKernel kind (a :: ls) z x ≤ radialKernel kind (a :: ls) x x ∧
    radialKernel kind (a :: ls) x x = a :=
  ⟨radialKernel_pos kind a ls z x ha, radialKernel_le_self kind a ls z x ha, radialKernel_self kind a ls x⟩

/-- `evaluate_expected_improvement` with radial covariances: all clauses at once, no side conditions
    left except positive process variances and `0 < γ < 1`. -/
theorem radial_ei_range (kl kg : Kind) (al ag : ℝ) (ll lg : List ℝ) (γ : ℝ) (L G : List (List ℝ))
    (x : List ℝ) (hal : 0 < al) (hag : 0 < ag) (h0 : 0 < γ) (h1 : γ < 1) :
    let r := expectedImprovement (radialKernel kl (al :: ll)) (radialKernel kg (ag :: lg)) γ L G x
    0 < r.1 ∧ 0 ≤ r.2.1 ∧ 0 < r.2.2 ∧ r.2.2 ≤ 1 / γ := by
  intro r
  have h := ei_range (radialKernel kl (al :: ll)) (radialKernel kg (ag :: lg)) γ L G x h0 h1
    (fun z _ => (radialKernel_pos kl al ll z x hal).le) (fun z _ => (radialKernel_pos kg ag lg z x hag).le)
  exact ⟨h.1, h.2.1, h.2.2.2.1, h.2.2.2.2⟩

/-- A lie at `x` with a radial greater covariance never lowers the greater density at `x`. -/
theorem radial_lie_not_lower (kind : Kind) (a : ℝ) (ls : List ℝ) (G : List (List ℝ)) (x : List ℝ)
    (ha : 0 < a) (hG : G ≠ []) :
    greaterDensity (radialKernel kind (a :: ls)) G x
      ≤ greaterDensity (radialKernel kind (a :: ls)) (appendLie (([] : List (List ℝ)), G) x).2 x := by
  rw [(appendLie_sets [] G x).1]
  exact lie_not_lower _ G x hG (fun z _ => radialKernel_le_self kind a ls z x ha)

/-! ### Bandwidths -/

/-- **bandwidth_valid** — whatever the points, the factor, the finiteness test of the carrier and the
    branch taken, every hyperparameter finally handed to the covariance is `> 0` and either passed the
    finiteness test or is the fallback value `1`; the vector has one entry per one-hot column plus the
    process variance, so the dimension check of `update_covariances` passes. -/
theorem bandwidth_valid (isFin : ℝ → Bool) (factor eps catLen : ℝ) (cols : List (Bool × List ℝ)) :
    (∀ h ∈ oneHotHypers isFin factor eps catLen cols, 0 < h ∧ (isFin h = true ∨ h = 1)) ∧
    (oneHotHypers isFin factor eps catLen cols).length = cols.length + 1 := by
  unfold oneHotHypers
  by_cases hv : hypersValid isFin (rawHypers factor eps catLen cols) = true
  · simp only [hv, if_true]
    constructor
    · intro h hh
      unfold hypersValid at hv
      have := List.all_eq_true.mp hv h hh
      simp only [Bool.and_eq_true, decide_eq_true_eq] at this
      exact ⟨this.2, Or.inl this.1⟩
    · simp [rawHypers]
  · simp only [hv]
    constructor
    · intro h hh
      simp only [Bool.false_eq_true, if_false] at hh
      obtain ⟨_, _, rfl⟩ := List.mem_map.mp hh
      exact ⟨by norm_num, Or.inr rfl⟩
    · simp [rawHypers]

/-- **bandwidth_formula** — the primary branch: process variance 1, numerical columns get
    `bandwidth² = factor²·(std + ε)/2`, categorical columns get the fixed categorical length scale. -/
theorem bandwidth_formula (factor eps catLen : ℝ) (cols : List (Bool × List ℝ)) (he : 0 ≤ eps) :
    rawHypers factor eps catLen cols =
      1 :: cols.map (fun c => if c.1 then factor ^ 2 * ((colStd c.2 + eps) / 2) else catLen) := by
  unfold rawHypers
  congr 1
  apply List.map_congr_left
  intro c _
  split_ifs
  · exact bandwidth_sq factor eps c.2 he
  · rfl

/-- **bandwidth_primary_valid** — in exact arithmetic the primary branch is always valid (the `ε`
    keeps constant columns away from zero), so the fallback can only be entered through non-finite
    floating-point values (e.g. an empty set, whose `numpy.std` is NaN). -/
theorem bandwidth_primary_valid (factor eps catLen : ℝ) (cols : List (Bool × List ℝ))
    (hf : factor ≠ 0) (he : 0 < eps) (hc : 0 < catLen) :
    hypersValid (fun _ => true) (rawHypers factor eps catLen cols) = true ∧
    oneHotHypers (fun _ => true) factor eps catLen cols = rawHypers factor eps catLen cols := by
  have hv : hypersValid (fun _ => true) (rawHypers factor eps catLen cols) = true := by
    unfold hypersValid rawHypers
    apply List.all_eq_true.mpr
    intro h hh
    simp only [Bool.true_and, decide_eq_true_eq]
    rcases List.mem_cons.mp hh with rfl | hh
    · norm_num
    · obtain ⟨c, _, rfl⟩ := List.mem_map.mp hh
      split_ifs
      · exact bandwidth_sq_pos factor eps c.2 hf he
      · exact hc
  exact ⟨hv, by unfold oneHotHypers; simp only [hv, if_true]⟩

/-- The constants and literal factors the two endpoint builders use satisfy the hypotheses of
    `bandwidth_primary_valid`. -/
theorem endpoint_bandwidth_parameters :
    (0 : ℝ) < (stdEps : ℝ) ∧ (0 : ℝ) < (catLengthScale : ℝ) ∧
    (nextPointsLowerFactor : ℝ) ≠ 0 ∧ (nextPointsGreaterFactor : ℝ) ≠ 0 ∧
    (searchLowerFactor : ℝ) ≠ 0 ∧ (searchGreaterFactor : ℝ) ≠ 0 := by
  refine ⟨?_, ?_, ?_, ?_, ?_, ?_⟩
  · rw [stdEps_real]; exact_mod_cast gen_stdEps_pos
  · rw [catLengthScale_real]; exact_mod_cast gen_catLengthScale_pos
  · show (1 : ℝ) ≠ 0; norm_num
  · show ((10 : ℕ) : ℝ) ≠ 0; norm_num
  · show ((2 : ℕ) : ℝ) ≠ 0; norm_num
  · show ((5 : ℕ) : ℝ) ≠ 0; norm_num

example : ∀ h ∈ oneHotHypers (fun _ => true) (nextPointsGreaterFactor : ℝ) stdEps catLengthScale
    [(true, [1, 1, 1]), (false, [0, 1, 0])], 0 < h :=
  fun h hh => ((bandwidth_valid _ _ _ _ _).1 h hh).1

/-! ### Search variant -/

/-- **violates_iff** — a row satisfies the thresholds iff it is strictly below every present
    (non-NaN) threshold. -/
theorem violates_iff (vs : List Rat) (ts : List (Option Rat)) :
    violatesRow vs ts = false ↔ ∀ p ∈ vs.zip ts, ∀ t, p.2 = some t → p.1 < t := by
  induction vs generalizing ts with
  | nil => simp [violatesRow]
  | cons v vs ih =>
    cases ts with
    | nil => simp [violatesRow]
    | cons t ts =>
      cases t with
      | none =>
        simp only [violatesRow, List.zip_cons_cons, List.mem_cons, forall_eq_or_imp]
        rw [ih ts]
        simp
      | some t =>
        simp only [violatesRow, List.zip_cons_cons, List.mem_cons, forall_eq_or_imp, Bool.or_eq_false_iff,
          Bool.not_eq_false', decide_eq_true_eq]
        rw [ih ts]
        simp

/-- **searchSplit_rule** — whenever more observations satisfy the thresholds than the space has
    dimensions, the lower set is exactly the satisfiers, the greater set exactly the violators (both in
    observation order), `γ = violators / n`, together they are all observations. -/
theorem searchSplit_rule {π : Type} (pts : List π) (viol : List Bool) (dim : Nat)
    (dL dG : List π) (dγ : Rat) (hlen : pts.length = viol.length)
    (hmore : dim < pts.length - countTrue viol) (hv : 0 < countTrue viol) :
    let s := searchSplit pts viol dim dL dG dγ
    s.forced = true ∧
    (∀ x, x ∈ s.lower ↔ ∃ i, ∃ (h₁ : i < pts.length) (h₂ : i < viol.length), pts[i] = x ∧ viol[i] = false) ∧
    (∀ x, x ∈ s.greater ↔ ∃ i, ∃ (h₁ : i < pts.length) (h₂ : i < viol.length), pts[i] = x ∧ viol[i] = true) ∧
    (s.lower ++ s.greater).Perm pts ∧
    s.greater.length = countTrue viol ∧ s.lower.length = pts.length - countTrue viol ∧
    dim < s.lower.length ∧
    s.gamma = (countTrue viol : Rat) / (pts.length : Rat) := by
  intro s
  have hc := countTrue_le_length viol
  have hcond : (pts.length : Int) - (countTrue viol : Int) > (dim : Int) := by omega
  have hs : s = { lower := selectRows pts viol false, greater := selectRows pts viol true,
                  gamma := (countTrue viol : Rat) / (viol.length : Rat), forced := true } := by
    show searchSplit pts viol dim dL dG dγ = _
    unfold searchSplit
    rw [if_pos ⟨hcond, hv⟩]
  have h1 := selectRows_length_add pts viol hlen
  have h2 := selectRows_true_length pts viol hlen
  rw [hs]
  refine ⟨rfl, fun x => mem_selectRows pts viol false x, fun x => mem_selectRows pts viol true x,
    selectRows_perm pts viol hlen, h2, ?_, ?_, ?_⟩
  · show (selectRows pts viol false).length = _
    omega
  · show dim < (selectRows pts viol false).length
    omega
  · show (countTrue viol : Rat) / (viol.length : Rat) = _
    rw [hlen]

/-- Otherwise (`satisfiers ≤ dim`, or no observation violates the thresholds) the sorting split and its
    `γ` are kept. -/
theorem searchSplit_keep {π : Type} (pts : List π) (viol : List Bool) (dim : Nat)
    (dL dG : List π) (dγ : Rat) (hle : pts.length - countTrue viol ≤ dim ∨ countTrue viol = 0)
    (hc : countTrue viol ≤ pts.length) :
    searchSplit pts viol dim dL dG dγ = { lower := dL, greater := dG, gamma := dγ, forced := false } := by
  unfold searchSplit
  rw [if_neg (by omega)]

/-- **searchSplit_gamma** — a forced `γ` always lies in the estimator's legal range `(0, 1)` and the
    greater set is non-empty (the split is forced only when some observation violates the thresholds;
    before the repair F13 a request without violators got `γ = 0` and an empty greater set). -/
theorem searchSplit_gamma {π : Type} (pts : List π) (viol : List Bool) (dim : Nat)
    (dL dG : List π) (dγ : Rat) (hlen : pts.length = viol.length)
    (hmore : dim < pts.length - countTrue viol) (hv : 0 < countTrue viol) :
    let s := searchSplit pts viol dim dL dG dγ
    0 < s.gamma ∧ s.gamma < 1 ∧ s.greater ≠ [] := by
  intro s
  obtain ⟨_, _, _, _, hg, _, _, hγ⟩ := searchSplit_rule pts viol dim dL dG dγ hlen hmore hv
  have hc := countTrue_le_length viol
  have hn : 0 < pts.length := by omega
  have hn' : (0 : Rat) < (pts.length : Rat) := by exact_mod_cast hn
  have hlt : countTrue viol < pts.length := by omega
  have hlt' : (countTrue viol : Rat) < (pts.length : Rat) := by exact_mod_cast hlt
  have hvq : (0 : Rat) < (countTrue viol : Rat) := by exact_mod_cast hv
  refine ⟨?_, ?_, ?_⟩
  · rw [hγ]; positivity
  · rw [hγ, div_lt_one hn']; exact hlt'
  · rw [← List.length_pos_iff, hg]; exact hv

example : (searchSplit [10, 11, 12, 13, 14] [true, false, false, true, false] 2 [] [] (1 / 5)).lower
    = [11, 12, 14] := by decide

end C16
