/-
  C12 — Metric normalisation is an order-respecting, invertible affine map.
  Property theorems only (helpers live in Proofs/).  All statements are about the exact model
  `Model/C12.lean` of data_containers.py and hold for every list of values, every failure mask and
  both objectives.
-/
import Model.C12
import Proofs.ListMinMax
import Mathlib.Tactic.FieldSimp
import Mathlib.Tactic.Ring
import Mathlib.Tactic.NormNum
import Mathlib.Tactic.Positivity
import Mathlib.Tactic.LinearCombination

namespace C12
open Proofs

/-! ### Side lemmas on generated constants (a changed constant breaks exactly these) -/

theorem gen_scaleFactor : scaleFactor = 1 / 10 := by norm_num [scaleFactor]
theorem gen_minHalfWidth_pos : 0 < minHalfWidth := by norm_num [minHalfWidth]
theorem gen_minValueVar_pos : 0 < minValueVar := by norm_num [minValueVar]
theorem gen_scaleFactor_pos : 0 < scaleFactor := by norm_num [scaleFactor]

/-! ### Sign -/

theorem negate_sq (o : Objective) : negateOf o * negateOf o = 1 := by
  cases o <;> norm_num [negateOf]

theorem negate_cases (o : Objective) : negateOf o = 1 ∨ negateOf o = -1 := by
  cases o <;> simp [negateOf]

theorem info_negate (nf : List Rat) (o : Objective) : (infoOf nf o).negate = negateOf o := by
  unfold infoOf
  split
  · rfl
  · dsimp only; split_ifs <;> rfl

theorem rabs_nonneg (x : Rat) : 0 ≤ rabs x := by
  unfold rabs; split_ifs with h <;> linarith

/-! ### Scale is strictly positive in every branch; no division by zero -/

/-- Every denominator that `SingleMetricMidpointInfo.__init__` divides by is non-zero on the branch
    where it is used ("degenerate inputs never yield NaN or infinities"). -/
theorem denominators_nonzero (x : Rat) (xs : List Rat) :
    (((lmax x xs - lmin x xs) * (1 / 2) < minHalfWidth ∧ min (rabs (lmax x xs)) (rabs (lmin x xs)) > 1) →
        max (rabs (lmin x xs)) (rabs (lmax x xs)) ≠ 0) ∧
    (¬ ((lmax x xs - lmin x xs) * (1 / 2) < minHalfWidth) → lmax x xs - lmin x xs ≠ 0) := by
  constructor
  · rintro ⟨_, h⟩
    have : (1 : Rat) < rabs (lmin x xs) := lt_of_lt_of_le h (min_le_right _ _)
    have h2 : rabs (lmin x xs) ≤ max (rabs (lmin x xs)) (rabs (lmax x xs)) := le_max_left _ _
    intro h0; rw [h0] at h2; linarith
  · intro h
    have := gen_minHalfWidth_pos
    intro h0; rw [h0] at h; apply h; linarith

theorem scale_pos (nf : List Rat) (o : Objective) : 0 < (infoOf nf o).scale := by
  unfold infoOf
  split
  · norm_num
  · rename_i x xs
    dsimp only
    split_ifs with h1 h2
    · have : (1 : Rat) < rabs (lmin x xs) := lt_of_lt_of_le h2 (min_le_right _ _)
      have h3 : rabs (lmin x xs) ≤ max (rabs (lmin x xs)) (rabs (lmax x xs)) := le_max_left _ _
      have : (0 : Rat) < max (rabs (lmin x xs)) (rabs (lmax x xs)) := by linarith
      positivity
    · norm_num
    · have hp := gen_minHalfWidth_pos
      have hs := gen_scaleFactor_pos
      have : 0 < lmax x xs - lmin x xs := by
        by_contra hc
        apply h1; linarith
      positivity

/-! ### Inverse law -/

theorem inv_fwd (nf : List Rat) (o : Objective) (v : Rat) :
    inv (infoOf nf o) (fwd (infoOf nf o) v) = v := by
  have hs := scale_pos nf o
  have hn := negate_sq o
  have hneg := info_negate nf o
  generalize infoOf nf o = i at *
  unfold inv fwd
  split_ifs
  · rw [hneg, ← mul_assoc, hn, one_mul]
  · rw [hneg]
    have hs' : i.scale ≠ 0 := ne_of_gt hs
    field_simp
    linear_combination (v - i.mid) * hn

theorem fwd_inv (nf : List Rat) (o : Objective) (w : Rat) :
    fwd (infoOf nf o) (inv (infoOf nf o) w) = w := by
  have hs := scale_pos nf o
  have hn := negate_sq o
  have hneg := info_negate nf o
  generalize infoOf nf o = i at *
  unfold inv fwd
  split_ifs
  · rw [hneg, ← mul_assoc, hn, one_mul]
  · rw [hneg]
    have hs' : i.scale ≠ 0 := ne_of_gt hs
    field_simp
    linear_combination w * hn

/-- Variances: undoing the scaling inverts it whenever the floor did not bite. -/
theorem invVar_fwdVar (nf : List Rat) (o : Objective) (s : Rat)
    (h : minValueVar ≤ s * (infoOf nf o).scale ^ 2) (hskip : (infoOf nf o).skip = false) :
    invVar (infoOf nf o) (fwdVar (infoOf nf o) s) = s := by
  have hs := scale_pos nf o
  generalize infoOf nf o = i at *
  unfold invVar fwdVar
  simp only [hskip, Bool.false_eq_true, if_false]
  rw [max_eq_left h]
  have hs' : i.scale ≠ 0 := ne_of_gt hs
  field_simp

/-! ### Order law: better values are always smaller after scaling (all branches, skip mode too) -/

theorem order_law (nf : List Rat) (o : Objective) (a b : Rat) :
    better o a b ↔ fwd (infoOf nf o) a < fwd (infoOf nf o) b := by
  have hs := scale_pos nf o
  have hneg := info_negate nf o
  generalize infoOf nf o = i at *
  unfold fwd better
  cases o <;> simp only [negateOf] at hneg <;> split_ifs <;> rw [hneg]
  · constructor <;> intro h <;> linarith
  · constructor
    · intro h; nlinarith
    · intro h; by_contra hc; rw [not_lt] at hc; nlinarith
  · constructor <;> intro h <;> linarith
  · constructor
    · intro h; nlinarith
    · intro h; by_contra hc; rw [not_lt] at hc; nlinarith

/-- Equal values stay equal, so the scaling is an order isomorphism (no "flipped order"). -/
theorem fwd_injective (nf : List Rat) (o : Objective) (a b : Rat)
    (h : fwd (infoOf nf o) a = fwd (infoOf nf o) b) : a = b := by
  have := inv_fwd nf o a
  rw [h, inv_fwd] at this
  exact this.symm

/-! ### Exact span of a non-degenerate metric -/

/-- Non-degenerate branch: the extremes land exactly on ∓0.1 / ±0.1. -/
theorem span_extremes (x : Rat) (xs : List Rat) (o : Objective)
    (hnd : ¬ ((lmax x xs - lmin x xs) * (1 / 2) < minHalfWidth)) :
    fwd (infoOf (x :: xs) o) (lmax x xs) = negateOf o * (1 / 10) ∧
    fwd (infoOf (x :: xs) o) (lmin x xs) = - (negateOf o * (1 / 10)) := by
  have hp := gen_minHalfWidth_pos
  have hd : lmax x xs - lmin x xs ≠ 0 := (denominators_nonzero x xs).2 hnd
  unfold infoOf fwd
  simp only [hnd, if_false, Bool.false_eq_true]
  rw [gen_scaleFactor]
  constructor <;> field_simp <;> ring

/-- Non-degenerate branch: every non-failed value lands in [-0.1, 0.1]. -/
theorem span_exact (x : Rat) (xs : List Rat) (o : Objective)
    (hnd : ¬ ((lmax x xs - lmin x xs) * (1 / 2) < minHalfWidth)) (v : Rat) (hv : v ∈ x :: xs) :
    -(1 / 10) ≤ fwd (infoOf (x :: xs) o) v ∧ fwd (infoOf (x :: xs) o) v ≤ 1 / 10 := by
  have hmin := lmin_le x xs v hv
  have hmax := le_lmax x xs v hv
  obtain ⟨emax, emin⟩ := span_extremes x xs o hnd
  have ol := order_law (x :: xs) o
  rcases o with _ | _
  · -- maximize: fwd is antitone
    simp only [negateOf] at emax emin
    have h1 : ¬ fwd (infoOf (x :: xs) .maximize) v < fwd (infoOf (x :: xs) .maximize) (lmax x xs) := by
      rw [← ol]; unfold better; simp only; linarith
    have h2 : ¬ fwd (infoOf (x :: xs) .maximize) (lmin x xs) < fwd (infoOf (x :: xs) .maximize) v := by
      rw [← ol]; unfold better; simp only; linarith
    constructor <;> linarith
  · simp only [negateOf] at emax emin
    have h1 : ¬ fwd (infoOf (x :: xs) .minimize) (lmax x xs) < fwd (infoOf (x :: xs) .minimize) v := by
      rw [← ol]; unfold better; simp only; linarith
    have h2 : ¬ fwd (infoOf (x :: xs) .minimize) v < fwd (infoOf (x :: xs) .minimize) (lmin x xs) := by
      rw [← ol]; unfold better; simp only; linarith
    constructor <;> linarith

/-! ### Variances -/

theorem var_scale (i : Info) (s : Rat) (h : i.skip = false) :
    fwdVar i s = max (s * i.scale ^ 2) minValueVar := by
  unfold fwdVar; simp [h]

theorem var_floor (i : Info) (s : Rat) :
    (i.skip = false → minValueVar ≤ fwdVar i s) ∧ (i.skip = true → skipVarFloor ≤ fwdVar i s) := by
  unfold fwdVar
  constructor <;> intro h <;> simp [h]

theorem var_pos (i : Info) (s : Rat) : 0 < fwdVar i s := by
  have := gen_minValueVar_pos
  have h6 : (0 : Rat) < skipVarFloor := by norm_num [skipVarFloor]
  unfold fwdVar
  split_ifs
  · exact lt_of_lt_of_le h6 (le_max_right _ _)
  · exact lt_of_lt_of_le this (le_max_right _ _)

/-- Above the floor the variance scales with the square of the value scale. -/
theorem var_scales_square (i : Info) (s : Rat) (h : i.skip = false)
    (hf : minValueVar ≤ s * i.scale ^ 2) : fwdVar i s = s * i.scale ^ 2 := by
  rw [var_scale i s h, max_eq_left hf]

/-! ### Lie values -/

/-- The constant-liar-min value is a non-failed value and no non-failed value is worse than it
    in the user's sense; after scaling it is the maximum of the scaled non-failed values. -/
theorem lie_is_worst (x : Rat) (xs : List Rat) (o : Objective) :
    lieOf (x :: xs) o .cmin ∈ x :: xs ∧
    (∀ v ∈ x :: xs, ¬ better o (lieOf (x :: xs) o .cmin) v) ∧
    (∀ v ∈ x :: xs, fwd (infoOf (x :: xs) o) v ≤ fwd (infoOf (x :: xs) o) (lieOf (x :: xs) o .cmin)) := by
  have key : lieOf (x :: xs) o .cmin ∈ x :: xs ∧ (∀ v ∈ x :: xs, ¬ better o (lieOf (x :: xs) o .cmin) v) := by
    cases o
    · refine ⟨lmin_mem x xs, fun v hv => ?_⟩
      have := lmin_le x xs v hv
      simp only [better, lieOf]; linarith
    · refine ⟨lmax_mem x xs, fun v hv => ?_⟩
      have := le_lmax x xs v hv
      simp only [better, lieOf]; linarith
  refine ⟨key.1, key.2, fun v hv => ?_⟩
  have := key.2 v hv
  rw [order_law (x :: xs) o] at this
  linarith

/-- The constant-liar-max value is the best non-failed value. -/
theorem lie_max_is_best (x : Rat) (xs : List Rat) (o : Objective) :
    lieOf (x :: xs) o .cmax ∈ x :: xs ∧ (∀ v ∈ x :: xs, ¬ better o v (lieOf (x :: xs) o .cmax)) := by
  cases o
  · refine ⟨lmax_mem x xs, fun v hv => ?_⟩
    have := le_lmax x xs v hv
    simp only [better, lieOf]; linarith
  · refine ⟨lmin_mem x xs, fun v hv => ?_⟩
    have := lmin_le x xs v hv
    simp only [better, lieOf]; linarith

theorem lie_default (o : Objective) (m : Lie) : lieOf [] o m = defaultLie := rfl

/-! ### Skip mode and the multi-metric wrapper -/

theorem skip_iff_no_success (nf : List Rat) (o : Objective) : (infoOf nf o).skip = true ↔ nf = [] := by
  unfold infoOf
  split
  · simp
  · dsimp only; split_ifs <;> simp

theorem multi_length (cols : List (List Rat)) (fails : List Bool) (objs : List Objective) :
    (multi cols fails objs).length = min cols.length objs.length := by
  simp [multi]

/-- Skip is contagious and uniform: every metric of a multi-metric info has the same skip flag,
    namely "some metric has no successful value". -/
theorem multi_skip_uniform (cols : List (List Rat)) (fails : List Bool) (objs : List Objective)
    (i : Info) (hi : i ∈ multi cols fails objs) :
    i.skip = ((cols.zip objs).map fun (c, o) => info c fails o).any (·.skip) := by
  simp only [multi, List.mem_map] at hi
  obtain ⟨j, hj, rfl⟩ := hi
  simp only
  by_cases h : j.skip = true
  · rw [h, Bool.true_or]; symm; rw [List.any_eq_true]; exact ⟨j, by simpa using hj, h⟩
  · simp only [Bool.not_eq_true] at h; rw [h, Bool.false_or]

/-- Column-wise: midpoint, scale and sign of metric k come from column k alone. -/
theorem multi_is_columnwise (cols : List (List Rat)) (fails : List Bool) (objs : List Objective)
    (k : Nat) (hk : k < (multi cols fails objs).length) (hc : k < cols.length) (ho : k < objs.length) :
    ((multi cols fails objs)[k]).mid = (info cols[k] fails objs[k]).mid ∧
    ((multi cols fails objs)[k]).scale = (info cols[k] fails objs[k]).scale ∧
    ((multi cols fails objs)[k]).negate = (info cols[k] fails objs[k]).negate := by
  simp [multi]

/-! ### Non-vacuity: concrete states meeting the hypotheses -/

example : ¬ ((lmax 3 [1, 7] - lmin 3 [1, 7]) * (1 / 2) < minHalfWidth) := by
  norm_num [lmax, lmin, minHalfWidth]
example : fwd (infoOf [3, 1, 7] .maximize) 7 = -(1 / 10) := by
  norm_num [fwd, infoOf, lmax, lmin, minHalfWidth, scaleFactor, negateOf]
example : (infoOf [5, 5] .minimize).scale = 1 / 5 := by
  norm_num [infoOf, lmax, lmin, minHalfWidth, rabs, negateOf]

end C12
