/-
  C17 — Posterior sampling uses a factor that reproduces the covariance.
  Property theorems only (helpers and auxiliary definitions live in Proofs/C17.lean).

  Layers
   1. pure linear algebra over any commutative ring / over ℝ with `Real.sqrt` (all sizes, all ranks):
      the SVD+QR fallback returns a factor of Σ; exact residual identity for approximate contracts.
      `fallback_factor` assumes `Σ = U diag(E) Uᵀ`, which is NOT what `svd` promises; `fallback_factor_of_svd`
      assumes what it does promise — `Σ = U diag(E) Vᵀ`, `UᵀU = VᵀV = 1`, `E ≥ 0` — plus `Σ` symmetric positive
      semi-definite, and `svd_is_eigendecomposition` (Proofs/C17Svd.lean: uniqueness of the PSD square root,
      Mathlib's functional calculus on real matrices) proves `U diag(E) Vᵀ = U diag(E) Uᵀ` from these for
      every size and rank; an instance with singular Σ and `V ≠ U` shows the hypotheses are satisfiable
      without `V = U`;
   2. the executable list model `C17.sampleFactor` (Model/C17.lean) with scipy's `cholesky`, `svd`,
      `qr` and numpy's `sqrt` as oracles constrained only by their contracts — including the
      `overwrite_a` quirk: the theorem needs "the buffer still holds Σ when `svd` reads it", which
      `overwrite_a = False` guarantees and `overwrite_a = True` does not (counter-model given).
      `sampleFactor_reproduces` takes `U diag(E) Uᵀ = input` as the svd hypothesis;
      `sampleFactor_reproduces_of_svd` replaces it by the real contract (the oracle returns only `(U, E)` as
      the code discards `Vᵀ`, so: `UᵀU = 1` and SOME orthogonal `V` has `input = U diag(E) Vᵀ`) plus
      "Σ symmetric, `xᵀ Σ x ≥ 0` for rational `x`"; `E ≥ 0` follows from `sqrt` squaring back;
   3. bridge: the driver's list arithmetic (`mulT`, `transpose`, `sub`, `residual`) is Mathlib's matrix
      arithmetic, so "residual ≤ t" printed by the driver is a statement about `L * Lᵀ - Σ`;
   4. use of the factor: mean and covariance of `m + L z` (any linear expectation), and of the weighted
      sum of independent components (`Σ wᵢ² Σᵢ`);
   5. composition with C02 Part IV / C03 (over ℝ): the matrix the sampler is handed is the GP posterior
      covariance `Σ = K** − K* A⁻¹ K*ᵀ`, which IS positive semi-definite for libsigopt's radial kernels and the
      multitask tensor kernel, so the PSD hypothesis of `fallback_factor_of_svd` is discharged
      (`gp_posterior_fallback_factor`, `multitask_posterior_fallback_factor`; hypotheses left: `alpha ≥ 0`,
      noise `> 0` — or `≥ 0` and `A.PosDef` —, `A * Ainv = 1`, scipy's SVD and QR contracts); the draws
      `m + Rᵀ z` then have covariance equal to the posterior covariance (`gp_posterior_samples_cov`,
      `multitask_posterior_samples_cov`); the covariance `Σ_g w_g² Σ_g` of a GP sum is PSD, the fallback factors
      it, and component-wise sampling reproduces it (`gpsum_posterior_cov_posSemidef`,
      `gpsum_posterior_fallback_factor`, `gpsum_posterior_samples_cov`).
      Not composed: the executable ℚ-model of layer 2 (`sampleFactor_reproduces_of_svd` keeps its PSD
      hypothesis on rational vectors) — kernel values are `exp`/`sqrt` expressions, the model's matrices are the
      rational floats the library computed, and PSD is not stable under rounding (same limit as C02 Part II).
-/
import Model.C17
import Proofs.C17
import Proofs.C17Svd
import Proofs.C17Compose
import Properties.C02
import Mathlib.Data.Matrix.Mul
import Mathlib.Data.Matrix.Diagonal
import Mathlib.Data.Matrix.Basic
import Mathlib.Analysis.Real.Sqrt
import Mathlib.Tactic.Ring
import Mathlib.Tactic.Abel
import Mathlib.Tactic.FinCases
import Mathlib.Tactic.NormNum

open Matrix

namespace C17

/-! ### 1. The fallback as algebra -/

section ring
variable {n m : Type*} [Fintype n] [Fintype m] [DecidableEq n] [DecidableEq m] {α : Type*} [CommRing α]

/-- SVD+QR fallback over any commutative ring: if `Σ = U diag(e) Uᵀ`, `s² = e`, `(U diag s)ᵀ = Q R` and
    `QᵀQ = 1`, then `L = Rᵀ` satisfies `L Lᵀ = Σ`.  `U, e, s, Q, R` are arbitrary (third-party results). -/
theorem fallback_factor_ring
    (S U : Matrix n n α) (e s : n → α) (Q : Matrix n m α) (R : Matrix m n α)
    (hS : U * diagonal e * Uᵀ = S) (hs : ∀ i, s i * s i = e i)
    (hQR : (U * diagonal s)ᵀ = Q * R) (hQ : Qᵀ * Q = 1) :
    Rᵀ * Rᵀᵀ = S := by
  have h1 : Rᵀ * R = (Q * R)ᵀ * (Q * R) := by
    rw [transpose_mul, Matrix.mul_assoc, ← Matrix.mul_assoc Qᵀ, hQ, Matrix.one_mul]
  have h2 : diagonal s * diagonal s = diagonal e := by
    rw [diagonal_mul_diagonal]; congr 1; funext i; exact hs i
  rw [transpose_transpose, h1, ← hQR, transpose_transpose, transpose_mul, diagonal_transpose, ← hS,
    Matrix.mul_assoc, ← Matrix.mul_assoc (diagonal s), h2, Matrix.mul_assoc]

/-- Exact error budget of the fallback when the third-party contracts hold only approximately
    (floating point): with `B = U diag s`, `E1 = B Bᵀ − A`, `E2 = Q R − Bᵀ`, `E3 = QᵀQ − 1`,
    `RᵀR − A = E1 + B E2 + E2ᵀ Bᵀ + E2ᵀ E2 − Rᵀ E3 R`.  No hypotheses. -/
theorem fallback_residual_identity
    (A U : Matrix n n α) (s : n → α) (Q : Matrix n m α) (R : Matrix m n α) :
    let B := U * diagonal s
    let E1 := B * Bᵀ - A
    let E2 := Q * R - Bᵀ
    let E3 := Qᵀ * Q - 1
    Rᵀ * R - A = E1 + B * E2 + E2ᵀ * Bᵀ + E2ᵀ * E2 - Rᵀ * E3 * R := by
  intro B E1 E2 E3
  simp only [E1, E2, E3, transpose_sub, transpose_mul, transpose_transpose, Matrix.mul_sub, Matrix.sub_mul,
    Matrix.mul_one, Matrix.mul_assoc]
  abel

omit [Fintype n] [DecidableEq n] [DecidableEq m] in
/-- Whatever is reproduced by a factor is symmetric … -/
theorem llt_symm (L : Matrix n m α) : (L * Lᵀ)ᵀ = L * Lᵀ := by
  rw [transpose_mul, transpose_transpose]

end ring

/-- DESIGN `fallback_factor`: over ℝ with `E ≥ 0` and the true square root. -/
theorem fallback_factor {n m : Type*} [Fintype n] [Fintype m] [DecidableEq n] [DecidableEq m]
    (S U : Matrix n n ℝ) (E : n → ℝ) (Q : Matrix n m ℝ) (R : Matrix m n ℝ)
    (hS : S = U * diagonal E * Uᵀ) (hE : ∀ i, 0 ≤ E i)
    (hQR : (U * diagonal (fun i => Real.sqrt (E i)))ᵀ = Q * R) (hQ : Qᵀ * Q = 1) :
    Rᵀ * Rᵀᵀ = S :=
  fallback_factor_ring S U E (fun i => Real.sqrt (E i)) Q R hS.symm
    (fun i => Real.mul_self_sqrt (hE i)) hQR hQ

/-- non-vacuity (rank-deficient instance): Σ = diag(1, 0), U = Q = 1, R = diag(1, 0) -/
example : ∃ (S U : Matrix (Fin 2) (Fin 2) ℝ) (E : Fin 2 → ℝ) (Q R : Matrix (Fin 2) (Fin 2) ℝ),
    S = U * diagonal E * Uᵀ ∧ (∀ i, 0 ≤ E i) ∧
    (U * diagonal (fun i => Real.sqrt (E i)))ᵀ = Q * R ∧ Qᵀ * Q = 1 ∧ S ≠ 0 := by
  refine ⟨diagonal ![1, 0], 1, ![1, 0], 1, diagonal ![1, 0], ?_, ?_, ?_, ?_, ?_⟩
  · simp
  · intro i; fin_cases i <;> simp
  · simp only [Matrix.one_mul, diagonal_transpose]
    congr 1; funext i; fin_cases i <;> simp
  · simp
  · intro h
    have := congrFun (congrFun h 0) 0
    simp at this

/-- What `scipy.linalg.svd` really promises is `Σ = U diag(E) Vᵀ` with `U`, `V` orthogonal and `E ≥ 0`; the
    code throws `V` away.  For a symmetric positive semi-definite `Σ` that loses nothing:
    `U diag(E) Vᵀ = U diag(E) Uᵀ` (uniqueness of the PSD square root of `Σ² = U diag(E²) Uᵀ`), every size,
    every rank — `V = U` itself need NOT hold when `Σ` is singular (example below). -/
theorem svd_is_eigendecomposition {n : Type*} [Fintype n] [DecidableEq n]
    (S U V : Matrix n n ℝ) (E : n → ℝ)
    (hS : S.PosSemidef) (hsvd : S = U * diagonal E * Vᵀ)
    (hU : Uᵀ * U = 1) (hV : Vᵀ * V = 1) (hE : ∀ i, 0 ≤ E i) :
    S = U * diagonal E * Uᵀ :=
  svd_symm_of_posSemidef S U V E hS hsvd hU hV hE

/-- `fallback_factor` from the SVD contract as scipy states it: `Σ` symmetric PSD, `Σ = U diag(E) Vᵀ`,
    `UᵀU = VᵀV = 1`, `E ≥ 0`, `(U diag(√E))ᵀ = Q R`, `QᵀQ = 1`  ⟹  `L = Rᵀ` satisfies `L Lᵀ = Σ`.
    `V` does not occur in the conclusion: the code never uses it. -/
theorem fallback_factor_of_svd {n m : Type*} [Fintype n] [Fintype m] [DecidableEq n] [DecidableEq m]
    (S U V : Matrix n n ℝ) (E : n → ℝ) (Q : Matrix n m ℝ) (R : Matrix m n ℝ)
    (hS : S.PosSemidef) (hsvd : S = U * diagonal E * Vᵀ)
    (hU : Uᵀ * U = 1) (hV : Vᵀ * V = 1) (hE : ∀ i, 0 ≤ E i)
    (hQR : (U * diagonal (fun i => Real.sqrt (E i)))ᵀ = Q * R) (hQ : Qᵀ * Q = 1) :
    Rᵀ * Rᵀᵀ = S :=
  fallback_factor S U E Q R (svd_symm_of_posSemidef S U V E hS hsvd hU hV hE) hE hQR hQ

/-- non-vacuity of `fallback_factor_of_svd` with a SINGULAR `Σ` and `V ≠ U`:
    Σ = diag(1, 0) = 1 · diag(1, 0) · diag(1, −1)ᵀ, Q = 1, R = diag(1, 0). -/
example : ∃ (S U V : Matrix (Fin 2) (Fin 2) ℝ) (E : Fin 2 → ℝ) (Q R : Matrix (Fin 2) (Fin 2) ℝ),
    S.PosSemidef ∧ S = U * diagonal E * Vᵀ ∧ Uᵀ * U = 1 ∧ Vᵀ * V = 1 ∧ (∀ i, 0 ≤ E i) ∧
    (U * diagonal (fun i => Real.sqrt (E i)))ᵀ = Q * R ∧ Qᵀ * Q = 1 ∧ U ≠ V ∧ S.det = 0 ∧ S ≠ 0 := by
  have hE : ∀ i : Fin 2, 0 ≤ (![1, 0] : Fin 2 → ℝ) i := by intro i; fin_cases i <;> simp
  refine ⟨diagonal ![1, 0], 1, diagonal ![1, -1], ![1, 0], 1, diagonal ![1, 0],
    PosSemidef.diagonal hE, ?_, by simp, ?_, hE, ?_, by simp, ?_, by simp, ?_⟩
  · rw [Matrix.one_mul, diagonal_transpose, diagonal_mul_diagonal]
    congr 1; funext i; fin_cases i <;> simp
  · rw [diagonal_transpose, diagonal_mul_diagonal, ← diagonal_one]
    congr 1; funext i; fin_cases i <;> simp
  · simp only [Matrix.one_mul, diagonal_transpose]
    congr 1; funext i; fin_cases i <;> simp
  · intro h
    have := congrFun (congrFun h 1) 1
    simp at this
    norm_num at this
  · intro h
    have := congrFun (congrFun h 0) 0
    simp at this

/-- … and positive semi-definite: `xᵀ (L Lᵀ) x = |Lᵀ x|² ≥ 0`.  So for an input that is not symmetric PSD
    no factor exists at all; the harness widens its tolerance by exactly that unavoidable part. -/
theorem llt_nonneg {n m : Type*} [Fintype n] [Fintype m] (L : Matrix n m ℝ) (x : n → ℝ) :
    0 ≤ x ⬝ᵥ ((L * Lᵀ) *ᵥ x) := by
  rw [← Matrix.mulVec_mulVec, Matrix.dotProduct_mulVec, Matrix.mulVec_transpose]
  exact Finset.sum_nonneg fun i _ => mul_self_nonneg _

/-! ### 2. The executable model of `compute_cholesky_for_gp_sampling` -/
/-- Cholesky branch (DESIGN `chol_factor`): when scipy returns a factor the function returns it unchanged,
    whatever the flag, so `L Lᵀ = Σ` is exactly scipy's contract. -/
theorem chol_factor (o : Oracles) (ov : Bool) (sigma l : Mat) (n : ℕ)
    (h : (o.chol sigma).factor = some l)
    (hcontract : toM n n l * (toM n n l)ᵀ = toM n n sigma) :
    sampleFactor o ov sigma = l ∧
      toM n n (sampleFactor o ov sigma) * (toM n n (sampleFactor o ov sigma))ᵀ = toM n n sigma := by
  have : sampleFactor o ov sigma = l := by simp [sampleFactor, h]
  exact ⟨this, by rw [this]; exact hcontract⟩

/-- Fallback branch: the factor is `Rᵀ` for the `R` that `qr` returned on `(U·sqrt(E))ᵀ`, where `(U, E)` is
    what `svd` returned on `svdInput` — the covariance itself only if the buffer was not overwritten. -/
theorem fallback_branch (o : Oracles) (ov : Bool) (sigma : Mat)
    (h : (o.chol sigma).factor = none) :
    sampleFactor o ov sigma =
      transpose sigma.length (o.qrR (transpose sigma.length
        (fallbackB o (o.svd (svdInput ov sigma (o.chol sigma))).1
          (o.svd (svdInput ov sigma (o.chol sigma))).2))) := by
  simp [sampleFactor, h]

/-- with `overwrite_a = False` the `svd` always sees the covariance -/
theorem svdInput_no_overwrite (sigma : Mat) (c : CholOutcome) : svdInput false sigma c = sigma := rfl


/-- Main model theorem.  For every size `n`, every `n × n` list matrix `sigma`, every value of the
    `overwrite_a` flag and all oracles: if
      * a returned Cholesky factor satisfies its contract,
      * (only when `overwrite = true`) a FAILED Cholesky attempt left the buffer equal to `sigma`,
      * the SVD of the matrix it is handed satisfies `U diag(E) Uᵀ = input`, `sqrt` squares back on the
        singular values, and `qr` returns the `R` of some `Q R` factorisation with `QᵀQ = 1`,
    then the returned factor is `n × n` and `L Lᵀ = sigma` (Mathlib matrix product). -/
theorem sampleFactor_reproduces (o : Oracles) (ov : Bool) (sigma : Mat) (n : ℕ)
    (hσ : isShape n n sigma = true)
    (hchol : ∀ l, (o.chol sigma).factor = some l →
        isShape n n l = true ∧ toM n n l * (toM n n l)ᵀ = toM n n sigma)
    (hbuf : ov = true → (o.chol sigma).factor = none → (o.chol sigma).buffer = sigma)
    (hfb : (o.chol sigma).factor = none →
       let A := svdInput ov sigma (o.chol sigma)
       let u := (o.svd A).1
       let e := (o.svd A).2
       let b := fallbackB o u e
       isShape n n u = true ∧ e.length = n ∧
       toM n n u * diagonal (vec n e) * (toM n n u)ᵀ = toM n n A ∧
       (∀ x ∈ e, o.sqrt x * o.sqrt x = x) ∧
       isShape n n (o.qrR (transpose n b)) = true ∧
       ∃ Q : Matrix (Fin n) (Fin n) ℚ, Qᵀ * Q = 1 ∧
         toM n n (transpose n b) = Q * toM n n (o.qrR (transpose n b))) :
    isShape n n (sampleFactor o ov sigma) = true ∧
      toM n n (sampleFactor o ov sigma) * (toM n n (sampleFactor o ov sigma))ᵀ = toM n n sigma := by
  have hlen : sigma.length = n := ((isShape_iff n n sigma).1 hσ).1
  unfold sampleFactor
  simp only [hlen]
  cases hf : (o.chol sigma).factor with
  | some l => exact hchol l hf
  | none =>
    obtain ⟨hu, he, hsvd, hsq, hR, Q, hQ, hQR⟩ := hfb hf
    have hA : svdInput ov sigma (o.chol sigma) = sigma := by
      unfold svdInput
      cases ov with
      | false => simp
      | true => simpa using hbuf rfl hf
    simp only []
    set A := svdInput ov sigma (o.chol sigma) with hAdef
    set u := (o.svd A).1
    set e := (o.svd A).2
    set R := o.qrR (transpose n (fallbackB o u e))
    have hRlen : R.length = n := ((isShape_iff n n R).1 hR).1
    refine ⟨by simpa [hRlen] using isShape_transpose n R, ?_⟩
    rw [toM_transpose]
    have hs : ∀ i : Fin n, vec n (e.map o.sqrt) i * vec n (e.map o.sqrt) i = vec n e i := by
      intro i
      have hi : (i : ℕ) < e.length := by omega
      simp only [vec, List.getD_eq_getElem?_getD, List.getElem?_map, List.getElem?_eq_getElem hi,
        Option.map_some, Option.getD_some]
      exact hsq _ (List.getElem_mem hi)
    have hQR' : (toM n n u * diagonal (vec n (e.map o.sqrt)))ᵀ = Q * toM n n R := by
      rw [← hQR, toM_transpose, fallbackB, toM_scaleCols]
    have := fallback_factor_ring (toM n n A) (toM n n u) (vec n e) (vec n (e.map o.sqrt)) Q (toM n n R)
      hsvd hs hQR' hQ
    rw [this, hA]

/-- `sampleFactor_reproduces` from the SVD contract as scipy states it.  The model's `svd` oracle returns
    only `(U, E)` — the code discards `Vᵀ` — so the contract is "SOME orthogonal `V` has
    `input = U diag(E) Vᵀ`", together with `UᵀU = 1`.  `E ≥ 0` is not a separate hypothesis: it follows from
    `sqrt` squaring back.  The covariance is assumed symmetric positive semi-definite, stated on rational
    vectors (equivalent to real positive semi-definiteness, `posSemidef_toReal_of_rat`).  The hypothesis
    `U diag(E) Uᵀ = input` of `sampleFactor_reproduces` is then a theorem, not an assumption. -/
theorem sampleFactor_reproduces_of_svd (o : Oracles) (ov : Bool) (sigma : Mat) (n : ℕ)
    (hσ : isShape n n sigma = true)
    (hsymm : (toM n n sigma)ᵀ = toM n n sigma)
    (hpsd : ∀ x : Fin n → ℚ, 0 ≤ x ⬝ᵥ (toM n n sigma *ᵥ x))
    (hchol : ∀ l, (o.chol sigma).factor = some l →
        isShape n n l = true ∧ toM n n l * (toM n n l)ᵀ = toM n n sigma)
    (hbuf : ov = true → (o.chol sigma).factor = none → (o.chol sigma).buffer = sigma)
    (hfb : (o.chol sigma).factor = none →
       let A := svdInput ov sigma (o.chol sigma)
       let u := (o.svd A).1
       let e := (o.svd A).2
       let b := fallbackB o u e
       isShape n n u = true ∧ e.length = n ∧
       (toM n n u)ᵀ * toM n n u = 1 ∧
       (∃ V : Matrix (Fin n) (Fin n) ℚ, Vᵀ * V = 1 ∧
         toM n n A = toM n n u * diagonal (vec n e) * Vᵀ) ∧
       (∀ x ∈ e, o.sqrt x * o.sqrt x = x) ∧
       isShape n n (o.qrR (transpose n b)) = true ∧
       ∃ Q : Matrix (Fin n) (Fin n) ℚ, Qᵀ * Q = 1 ∧
         toM n n (transpose n b) = Q * toM n n (o.qrR (transpose n b))) :
    isShape n n (sampleFactor o ov sigma) = true ∧
      toM n n (sampleFactor o ov sigma) * (toM n n (sampleFactor o ov sigma))ᵀ = toM n n sigma := by
  refine sampleFactor_reproduces o ov sigma n hσ hchol hbuf fun hf => ?_
  obtain ⟨hu, he, hU, ⟨V, hV, hsvd⟩, hsq, hR, hQ⟩ := hfb hf
  have hA : svdInput ov sigma (o.chol sigma) = sigma := by
    unfold svdInput
    cases ov with
    | false => simp
    | true => simpa using hbuf rfl hf
  refine ⟨hu, he, ?_, hsq, hR, hQ⟩
  have hE : ∀ i : Fin n, 0 ≤ vec n (o.svd (svdInput ov sigma (o.chol sigma))).2 i := by
    intro i
    have hi : (i : ℕ) < (o.svd (svdInput ov sigma (o.chol sigma))).2.length := by omega
    simp only [vec, List.getD_eq_getElem?_getD, List.getElem?_eq_getElem hi, Option.getD_some]
    rw [← hsq _ (List.getElem_mem hi)]
    exact mul_self_nonneg _
  have hS : (toReal (toM n n (svdInput ov sigma (o.chol sigma)))).PosSemidef := by
    rw [hA]; exact posSemidef_toReal_of_rat _ hsymm hpsd
  exact (svd_symm_of_posSemidef_rat _ _ V _ hS hsvd hU hV hE).symm

/-- The same in the terms the driver prints: under the hypotheses of `sampleFactor_reproduces` the exact
    residual `max |L Lᵀ − Σ|` of the model's output is 0. -/
theorem sampleFactor_residual_zero (o : Oracles) (ov : Bool) (sigma : Mat) (n : ℕ)
    (hσ : isShape n n sigma = true)
    (h : isShape n n (sampleFactor o ov sigma) = true ∧
      toM n n (sampleFactor o ov sigma) * (toM n n (sampleFactor o ov sigma))ᵀ = toM n n sigma) :
    residual (sampleFactor o ov sigma) sigma = 0 :=
  (residual_eq_zero_iff h.1 hσ).2 h.2

/-- non-vacuity of `sampleFactor_reproduces` on the fallback branch with a singular covariance:
    every hypothesis holds for Σ = [[9,12],[12,16]] (rank 1) and `exampleOracles`. -/
example : (exampleOracles.chol [[9, 12], [12, 16]]).factor = none ∧
    residual (sampleFactor exampleOracles false [[9, 12], [12, 16]]) [[9, 12], [12, 16]] = 0 := by
  refine ⟨rfl, sampleFactor_residual_zero _ _ _ 2 (by decide)
    (sampleFactor_reproduces exampleOracles false _ 2 (by decide)
      (fun l h => by simp [exampleOracles] at h) (by simp)
      (fun _ => ⟨by decide, by decide, ?_, ?_, by decide, 1, by simp, by simp [exampleOracles]⟩))⟩
  · ext i j
    fin_cases i <;> fin_cases j <;>
      simp [exampleOracles, toM, entry, vec, svdInput, Matrix.mul_apply, Fin.sum_univ_two,
        Matrix.diagonal_apply] <;> norm_num
  · intro x hx
    simp [exampleOracles] at hx
    rcases hx with rfl | rfl
    · simp [exampleOracles]; norm_num
    · simp [exampleOracles]

/-- non-vacuity of `sampleFactor_reproduces_of_svd` on the fallback branch with a singular covariance and a
    right factor `V ≠ U`: Σ = [[9,12],[12,16]] = U diag(25, 0) Vᵀ with U = [[3/5,4/5],[4/5,−3/5]] (what
    `exampleOracles.svd` returns) and V = [[3/5,−4/5],[4/5,3/5]]; `xᵀ Σ x = (3x₀ + 4x₁)² ≥ 0`. -/
example : (exampleOracles.chol [[9, 12], [12, 16]]).factor = none ∧
    (∃ V : Matrix (Fin 2) (Fin 2) ℚ, Vᵀ * V = 1 ∧ V ≠ toM 2 2 (exampleOracles.svd [[9, 12], [12, 16]]).1 ∧
      toM 2 2 [[9, 12], [12, 16]] = toM 2 2 (exampleOracles.svd [[9, 12], [12, 16]]).1 *
        diagonal (vec 2 (exampleOracles.svd [[9, 12], [12, 16]]).2) * Vᵀ) ∧
    residual (sampleFactor exampleOracles false [[9, 12], [12, 16]]) [[9, 12], [12, 16]] = 0 := by
  have hV : (!![3/5, -4/5; 4/5, 3/5] : Matrix (Fin 2) (Fin 2) ℚ)ᵀ * !![3/5, -4/5; 4/5, 3/5] = 1 := by
    ext i j
    fin_cases i <;> fin_cases j <;> simp [Matrix.mul_apply, Fin.sum_univ_two] <;> norm_num
  have hsvd : toM 2 2 [[9, 12], [12, 16]] = toM 2 2 (exampleOracles.svd [[9, 12], [12, 16]]).1 *
      diagonal (vec 2 (exampleOracles.svd [[9, 12], [12, 16]]).2) *
        (!![3/5, -4/5; 4/5, 3/5] : Matrix (Fin 2) (Fin 2) ℚ)ᵀ := by
    ext i j
    fin_cases i <;> fin_cases j <;>
      simp [exampleOracles, toM, entry, vec, Matrix.mul_apply, Fin.sum_univ_two,
        Matrix.diagonal_apply] <;> norm_num
  refine ⟨rfl, ⟨!![3/5, -4/5; 4/5, 3/5], hV, ?_, hsvd⟩, sampleFactor_residual_zero _ _ _ 2 (by decide)
    (sampleFactor_reproduces_of_svd exampleOracles false _ 2 (by decide) ?_ ?_
      (fun l h => by simp [exampleOracles] at h) (by simp)
      (fun _ => ⟨by decide, by decide, ?_, ⟨!![3/5, -4/5; 4/5, 3/5], hV, hsvd⟩, ?_, by decide, 1,
        by simp, by simp [exampleOracles]⟩))⟩
  · intro h
    have := congrFun (congrFun h 0) 1
    simp [exampleOracles, toM, entry] at this
    norm_num at this
  · ext i j
    fin_cases i <;> fin_cases j <;> simp [toM, entry]
  · intro x
    have : x ⬝ᵥ (toM 2 2 [[9, 12], [12, 16]] *ᵥ x) = (3 * x 0 + 4 * x 1) ^ 2 := by
      simp [dotProduct, Matrix.mulVec, Fin.sum_univ_two, toM, entry]
      ring
    rw [this]; positivity
  · ext i j
    fin_cases i <;> fin_cases j <;>
      simp [exampleOracles, toM, entry, svdInput, Matrix.mul_apply, Fin.sum_univ_two] <;> norm_num
  · intro x hx
    simp [exampleOracles] at hx
    rcases hx with rfl | rfl
    · simp [exampleOracles]; norm_num
    · simp [exampleOracles]

/-- The quirk (defect F3 of DESIGN §4) at model level: with `overwrite = true` the hypothesis "the
    failed Cholesky attempt left the buffer intact" cannot be dropped.  Oracles that satisfy every
    contract on the inputs they are given, a singular `sigma`, and `L Lᵀ ≠ sigma`. -/
theorem clobbered_buffer_breaks_factor :
    ∃ (o : Oracles) (sigma : Mat), isShape 1 1 sigma = true ∧ (o.chol sigma).factor = none ∧
      (let A := svdInput true sigma (o.chol sigma)
       let u := (o.svd A).1
       let e := (o.svd A).2
       let b := fallbackB o u e
       isShape 1 1 u = true ∧ e.length = 1 ∧
       toM 1 1 u * diagonal (vec 1 e) * (toM 1 1 u)ᵀ = toM 1 1 A ∧
       (∀ x ∈ e, o.sqrt x * o.sqrt x = x) ∧
       isShape 1 1 (o.qrR (transpose 1 b)) = true ∧
       ∃ Q : Matrix (Fin 1) (Fin 1) ℚ, Qᵀ * Q = 1 ∧
         toM 1 1 (transpose 1 b) = Q * toM 1 1 (o.qrR (transpose 1 b))) ∧
      residual (sampleFactor o true sigma) sigma = 1 ∧
      residual (sampleFactor o false sigma) sigma ≠ 1 := by
  refine ⟨{ chol := fun _ => { factor := none, buffer := [[1]] }
            svd := fun a => (a, [entry a 0 0])
            sqrt := fun x => x
            qrR := fun b => b }, [[0]], by decide, rfl, ?_, by decide +kernel, by decide +kernel⟩
  refine ⟨by decide, by decide, ?_, ?_, by decide, 1, by simp, ?_⟩
  · ext i j; fin_cases i; fin_cases j
    simp [toM, vec, entry, svdInput, Matrix.mul_apply]
  · intro x hx
    simp [svdInput, entry] at hx
    subst hx; norm_num
  · ext i j; fin_cases i; fin_cases j
    simp [toM, entry, svdInput, transpose, col, fallbackB, scaleCols]

/-! ### 3. Bridge: list arithmetic of the driver = Mathlib matrix arithmetic -/

/-- `mulT a b` is `a * bᵀ` -/
theorem model_mulT {n m k : ℕ} {a b : Mat} (ha : isShape n k a = true) (hb : isShape m k b = true) :
    toM n m (mulT a b) = toM n k a * (toM m k b)ᵀ := toM_mulT ha hb

/-- `llt l` is `L * Lᵀ` -/
theorem model_llt {n k : ℕ} {l : Mat} (hl : isShape n k l = true) :
    toM n n (llt l) = toM n k l * (toM n k l)ᵀ := toM_mulT hl hl

/-- `transpose` is `ᵀ` (no shape hypothesis: entries outside the stored shape read as 0 on both sides) -/
theorem model_transpose (n m : ℕ) (a : Mat) : toM n m (transpose n a) = (toM m n a)ᵀ :=
  toM_transpose n m a

/-- `mul n a b` is `a * b` -/
theorem model_mul {p k n : ℕ} {a b : Mat} (ha : isShape p k a = true) (hb : isShape k n b = true) :
    toM p n (mul n a b) = toM p k a * toM k n b := by
  have hbl : b.length = k := ((isShape_iff k n b).1 hb).1
  have ht : isShape n k (transpose n b) = true := by simpa [hbl] using isShape_transpose n b
  rw [mul, toM_mulT ha ht, toM_transpose, transpose_transpose]

/-- `u * s[None, :]` is `U * diag(s)` -/
theorem model_scaleCols (n m : ℕ) (u : Mat) (s : Vec) :
    toM n m (scaleCols u s) = toM n m u * diagonal (vec m s) := toM_scaleCols n m u s

/-- the driver's verdict `residual l sigma ≤ t` is exactly "every entry of `L Lᵀ − Σ` is within `t`" -/
theorem model_residual_le_iff {n k : ℕ} {l sigma : Mat} (hl : isShape n k l = true)
    (hs : isShape n n sigma = true) (t : ℚ) (ht : 0 ≤ t) :
    residual l sigma ≤ t ↔
      ∀ i j : Fin n, |(toM n k l * (toM n k l)ᵀ - toM n n sigma) i j| ≤ t :=
  residual_le_iff hl hs t ht

theorem model_residual_eq_zero_iff {n k : ℕ} {l sigma : Mat} (hl : isShape n k l = true)
    (hs : isShape n n sigma = true) :
    residual l sigma = 0 ↔ toM n k l * (toM n k l)ᵀ = toM n n sigma :=
  residual_eq_zero_iff hl hs

/-- the driver's `sample mean l z` is `mean + L z` -/
theorem model_sample {n k : ℕ} {mean : Vec} {l : Mat} {z : Vec} (hm : mean.length = n)
    (hl : isShape n k l = true) (hz : z.length = k) :
    vec n (sample mean l z) = vec n mean + toM n k l *ᵥ vec k z := by
  funext i
  have hll := ((isShape_iff n k l).1 hl).1
  have hi1 : (i : ℕ) < mean.length := by omega
  have hi2 : (i : ℕ) < l.length := by omega
  have hrow : l[(i : ℕ)].length = k := by
    have := row_length hl i.2
    simpa [List.getD_eq_getElem?_getD, hi2] using this
  simp only [vec, sample, List.getD_eq_getElem?_getD, List.getElem?_zipWith, List.getElem?_eq_getElem hi1,
    List.getElem?_eq_getElem hi2, Option.getD_some, Pi.add_apply, Matrix.mulVec,
    dotProduct, toM, entry]
  rw [dot_eq_sum k _ _ hrow hz]
  simp [List.getD_eq_getElem?_getD]

/-- the driver's GP-sum covariance entry is `Σ_g w_g² (Σ_g)ᵢⱼ` -/
theorem model_sumCov (comps : List (ℚ × Mat)) (i j : ℕ) :
    sumCovEntry comps i j = (comps.map fun p => p.1 ^ 2 * entry p.2 i j).sum := by
  induction comps with
  | nil => simp [sumCovEntry]
  | cons p ps ih =>
    simp only [sumCovEntry, List.foldr_cons, List.map_cons, List.sum_cons] at ih ⊢
    rw [ih]; ring

/-! ### 4. Using the factor: moments of `m + L z` -/

section moments
variable {Ω ι κ γ : Type*} [Fintype κ] [Fintype γ]

/-- `E[m + L z] = m + L E[z]` for every linear expectation. -/
theorem sample_mean (P : Expectation Ω) (m : ι → ℝ) (L : Matrix ι κ ℝ) (z : κ → Ω → ℝ) :
    meanVec P (affine m L z) = m + L *ᵥ meanVec P z := by
  funext i
  simp [meanVec, Ex_affine, Matrix.mulVec, dotProduct]

/-- `Cov(m + L z) = L Cov(z) Lᵀ` for every linear expectation. -/
theorem sample_cov (P : Expectation Ω) (m : ι → ℝ) (L : Matrix ι κ ℝ) (z : κ → Ω → ℝ) :
    covMat P (affine m L z) = L * covMat P z * Lᵀ := by
  ext i j
  have h : (fun ω => centered P (affine m L z i) ω * centered P (affine m L z j) ω)
      = ∑ k, ∑ l, (L i k * L j l) • (fun ω => centered P (z k) ω * centered P (z l) ω) := by
    funext ω
    simp only [centered_affine, Finset.sum_apply, Pi.smul_apply, smul_eq_mul, Finset.sum_mul_sum]
    refine Finset.sum_congr rfl fun k _ => Finset.sum_congr rfl fun l _ => ?_
    ring
  simp only [covMat, covar, h, map_sum, map_smul, smul_eq_mul, Matrix.mul_apply, Matrix.transpose_apply,
    Finset.sum_mul]
  rw [Finset.sum_comm]
  refine Finset.sum_congr rfl fun l _ => Finset.sum_congr rfl fun k _ => ?_
  ring

/-- Posterior draws `m + L z` with standardised latent `z` (mean 0, covariance 1) and a factor with
    `L Lᵀ = Σ` have mean `m` and covariance `Σ`. -/
theorem sample_moments [DecidableEq κ] (P : Expectation Ω) (m : ι → ℝ) (L : Matrix ι κ ℝ)
    (S : Matrix ι ι ℝ) (z : κ → Ω → ℝ) (hz0 : meanVec P z = 0) (hz1 : covMat P z = 1)
    (hL : L * Lᵀ = S) :
    meanVec P (affine m L z) = m ∧ covMat P (affine m L z) = S := by
  refine ⟨?_, ?_⟩
  · rw [sample_mean, hz0]; simp
  · rw [sample_cov, hz1, Matrix.mul_one, hL]

/-- the weighted sum of component draws is one affine draw with the block factor `[w₁L₁ | w₂L₂ | …]` -/
theorem sumAffine_eq_affine (w : γ → ℝ) (m : γ → ι → ℝ) (L : γ → Matrix ι κ ℝ) (z : γ → κ → Ω → ℝ) :
    sumAffine w m L z = affine (fun i => ∑ g, w g * m g i) (blockFactor w L) (joint z) := by
  funext i ω
  simp only [sumAffine, affine, blockFactor, joint, Fintype.sum_prod_type, mul_add, Finset.sum_add_distrib,
    Finset.mul_sum]
  congr 1
  refine Finset.sum_congr rfl fun g _ => Finset.sum_congr rfl fun k _ => ?_
  ring

theorem blockFactor_mul_transpose (w : γ → ℝ) (L : γ → Matrix ι κ ℝ) :
    blockFactor w L * (blockFactor w L)ᵀ = ∑ g, (w g) ^ 2 • (L g * (L g)ᵀ) := by
  ext i j
  simp only [Matrix.mul_apply, Matrix.transpose_apply, blockFactor, Fintype.sum_prod_type, Matrix.sum_apply,
    Matrix.smul_apply, smul_eq_mul, Finset.mul_sum]
  refine Finset.sum_congr rfl fun g _ => Finset.sum_congr rfl fun k _ => ?_
  ring

/-- GP sum: with component factors `L_g L_gᵀ = Σ_g` and jointly standardised latents (each component
    has identity covariance, different components are uncorrelated — what independence gives), the draw
    `Σ_g w_g (m_g + L_g z_g)` has mean `Σ_g w_g m_g` and covariance `Σ_g w_g² Σ_g`, which is what
    `GaussianProcessSum.compute_mean_of_points / compute_covariance_of_points` report. -/
theorem gpsum_sample_cov [DecidableEq κ] [DecidableEq γ] (P : Expectation Ω) (w : γ → ℝ)
    (m : γ → ι → ℝ) (L : γ → Matrix ι κ ℝ) (S : γ → Matrix ι ι ℝ) (z : γ → κ → Ω → ℝ)
    (hz0 : meanVec P (joint z) = 0) (hz1 : covMat P (joint z) = 1)
    (hL : ∀ g, L g * (L g)ᵀ = S g) :
    meanVec P (sumAffine w m L z) = (fun i => ∑ g, w g * m g i) ∧
      covMat P (sumAffine w m L z) = ∑ g, (w g) ^ 2 • S g := by
  rw [sumAffine_eq_affine]
  have h := sample_moments P (fun i => ∑ g, w g * m g i) (blockFactor w L)
    (∑ g, (w g) ^ 2 • S g) (joint z) hz0 hz1
    (by rw [blockFactor_mul_transpose]; exact Finset.sum_congr rfl fun g _ => by rw [hL g])
  exact h

/-- non-vacuity of the moment hypotheses: a fair sign on `Ω = Bool` is standardised -/
example : ∃ (P : Expectation Bool) (z : Fin 1 → Bool → ℝ),
    meanVec P z = 0 ∧ covMat P z = (1 : Matrix (Fin 1) (Fin 1) ℝ) := by
  refine ⟨{ Ex := { toFun := fun f => (f true + f false) / 2,
                     map_add' := fun f g => by simp only [Pi.add_apply]; ring,
                     map_smul' := fun c f => by simp only [Pi.smul_apply, smul_eq_mul, RingHom.id_apply]; ring },
            const := fun c => by simp },
          fun _ b => if b then 1 else -1, ?_, ?_⟩
  · funext i; simp [meanVec]
  · ext i j; fin_cases i; fin_cases j
    simp [covMat, covar, centered]

end moments

/-! ### 5. Composition with C02/C03: the matrix handed to the sampler IS positive semi-definite

`fallback_factor_of_svd` assumes `Σ` symmetric positive semi-definite.  The sampler
(`compute_cholesky_for_gp_sampling`) is handed the GP posterior covariance
`Σ = K** − K* A⁻¹ K*ᵀ = C02.Spec.cov K** K* A⁻¹`, and for libsigopt's kernels that matrix is positive
semi-definite by Properties/C02.lean Part IV (which in turn rests on Properties/C03.lean).  So the PSD
hypothesis is discharged: what is left are the third-party contracts (scipy's `svd`, `qr`; `A * Ainv = 1`
from its Cholesky solve) and the parameter ranges `alpha ≥ 0`, `noise > 0` (or `noise ≥ 0` and `A.PosDef`).

Notation as in C02 Part IV: observed points `x i`, query points `xs j` (`Fin d → ℝ`, passed to the list
kernel through `List.ofFn`), `k = Kernels.kernel kind alpha (List.ofFn l)`,
`K(X,X) = gramMatrix k X`, `K* = crossMatrix k Q X`, `K** = gramMatrix k Q`,
`A = C02.Spec.noisy K(X,X) noise = K(X,X) + diag(noise)`.  The covariance is named `S` and pinned down by
the hypothesis `hS : S = C02.Spec.cov …`. -/

section compose
open Kernels (gramMatrix)
open C02 (crossMatrix)

variable {n q d : ℕ} {m : Type*} [Fintype m] [DecidableEq m]

/-- 1. Radial kernel (square exponential, C0/C2/C4 Matérn), any dimension, length scales and points,
    `alpha ≥ 0`, every noise variance `> 0`, `A * Ainv = 1`.  `S` is the posterior covariance at the query
    points.  From scipy's contracts on `S` — SVD `S = U diag(E) Vᵀ`, `UᵀU = VᵀV = 1`, `E ≥ 0`; QR
    `(U diag √E)ᵀ = Q R`, `QᵀQ = 1` — the factor `L = Rᵀ` returned by the fallback satisfies `L Lᵀ = S`.
    No positive semi-definiteness hypothesis. -/
theorem gp_posterior_fallback_factor (kind : Kernels.Kind) {alpha : ℝ} (ha : 0 ≤ alpha) (l : Fin d → ℝ)
    (x : Fin n → Fin d → ℝ) (xs : Fin q → Fin d → ℝ) {noise : Fin n → ℝ} (hn : ∀ i, 0 < noise i)
    {Ainv : Matrix (Fin n) (Fin n) ℝ}
    (hA : C02.Spec.noisy (gramMatrix (Kernels.kernel kind alpha (List.ofFn l)) (fun i => List.ofFn (x i)))
      noise * Ainv = 1)
    (S : Matrix (Fin q) (Fin q) ℝ)
    (hS : S = C02.Spec.cov
      (gramMatrix (Kernels.kernel kind alpha (List.ofFn l)) (fun j => List.ofFn (xs j)))
      (crossMatrix (Kernels.kernel kind alpha (List.ofFn l)) (fun j => List.ofFn (xs j))
        (fun i => List.ofFn (x i)))
      Ainv)
    (U V : Matrix (Fin q) (Fin q) ℝ) (E : Fin q → ℝ) (Q : Matrix (Fin q) m ℝ) (R : Matrix m (Fin q) ℝ)
    (hsvd : S = U * diagonal E * Vᵀ) (hU : Uᵀ * U = 1) (hV : Vᵀ * V = 1) (hE : ∀ i, 0 ≤ E i)
    (hQR : (U * diagonal (fun i => Real.sqrt (E i)))ᵀ = Q * R) (hQ : Qᵀ * Q = 1) :
    Rᵀ * Rᵀᵀ = S :=
  fallback_factor_of_svd S U V E Q R
    (hS ▸ C02.radial_post_cov_posSemidef_of_noise_pos kind ha l x xs hn hA) hsvd hU hV hE hQR hQ

/-- 1′. The same with noise `≥ 0` (zero noise allowed) and `A` positive definite — what a successful
    Cholesky factorisation of `A` certifies. -/
theorem gp_posterior_fallback_factor_of_posDef (kind : Kernels.Kind) {alpha : ℝ} (ha : 0 ≤ alpha)
    (l : Fin d → ℝ) (x : Fin n → Fin d → ℝ) (xs : Fin q → Fin d → ℝ) {noise : Fin n → ℝ}
    (hn : ∀ i, 0 ≤ noise i) {Ainv : Matrix (Fin n) (Fin n) ℝ}
    (hA : C02.Spec.noisy (gramMatrix (Kernels.kernel kind alpha (List.ofFn l)) (fun i => List.ofFn (x i)))
      noise * Ainv = 1)
    (hpd : (C02.Spec.noisy (gramMatrix (Kernels.kernel kind alpha (List.ofFn l))
      (fun i => List.ofFn (x i))) noise).PosDef)
    (S : Matrix (Fin q) (Fin q) ℝ)
    (hS : S = C02.Spec.cov
      (gramMatrix (Kernels.kernel kind alpha (List.ofFn l)) (fun j => List.ofFn (xs j)))
      (crossMatrix (Kernels.kernel kind alpha (List.ofFn l)) (fun j => List.ofFn (xs j))
        (fun i => List.ofFn (x i)))
      Ainv)
    (U V : Matrix (Fin q) (Fin q) ℝ) (E : Fin q → ℝ) (Q : Matrix (Fin q) m ℝ) (R : Matrix m (Fin q) ℝ)
    (hsvd : S = U * diagonal E * Vᵀ) (hU : Uᵀ * U = 1) (hV : Vᵀ * V = 1) (hE : ∀ i, 0 ≤ E i)
    (hQR : (U * diagonal (fun i => Real.sqrt (E i)))ᵀ = Q * R) (hQ : Qᵀ * Q = 1) :
    Rᵀ * Rᵀᵀ = S :=
  fallback_factor_of_svd S U V E Q R
    (hS ▸ C02.radial_post_cov_posSemidef kind ha l x xs hn hA hpd) hsvd hU hV hE hQR hQ

/-- 2. Multitask tensor kernel (physical kernel × task kernel; a point is its physical coordinates followed
    by the task), every noise variance `> 0`. -/
theorem multitask_posterior_fallback_factor (kp kt : Kernels.Kind) {alpha : ℝ} (ha : 0 ≤ alpha)
    (l : Fin d → ℝ) (lt : ℝ) (x : Fin n → Fin d → ℝ) (t : Fin n → ℝ) (xs : Fin q → Fin d → ℝ)
    (ts : Fin q → ℝ) {noise : Fin n → ℝ} (hn : ∀ i, 0 < noise i) {Ainv : Matrix (Fin n) (Fin n) ℝ}
    (hA : C02.Spec.noisy (gramMatrix (Kernels.multitask kp kt alpha (List.ofFn l) lt)
      (fun i => List.ofFn (x i) ++ [t i])) noise * Ainv = 1)
    (S : Matrix (Fin q) (Fin q) ℝ)
    (hS : S = C02.Spec.cov
      (gramMatrix (Kernels.multitask kp kt alpha (List.ofFn l) lt) (fun j => List.ofFn (xs j) ++ [ts j]))
      (crossMatrix (Kernels.multitask kp kt alpha (List.ofFn l) lt) (fun j => List.ofFn (xs j) ++ [ts j])
        (fun i => List.ofFn (x i) ++ [t i]))
      Ainv)
    (U V : Matrix (Fin q) (Fin q) ℝ) (E : Fin q → ℝ) (Q : Matrix (Fin q) m ℝ) (R : Matrix m (Fin q) ℝ)
    (hsvd : S = U * diagonal E * Vᵀ) (hU : Uᵀ * U = 1) (hV : Vᵀ * V = 1) (hE : ∀ i, 0 ≤ E i)
    (hQR : (U * diagonal (fun i => Real.sqrt (E i)))ᵀ = Q * R) (hQ : Qᵀ * Q = 1) :
    Rᵀ * Rᵀᵀ = S :=
  fallback_factor_of_svd S U V E Q R
    (hS ▸ multitask_post_cov_posSemidef_of_noise_pos kp kt ha l lt x t xs ts hn hA) hsvd hU hV hE hQR hQ

/-- 2′. Multitask kernel with noise `≥ 0` and `A` positive definite. -/
theorem multitask_posterior_fallback_factor_of_posDef (kp kt : Kernels.Kind) {alpha : ℝ} (ha : 0 ≤ alpha)
    (l : Fin d → ℝ) (lt : ℝ) (x : Fin n → Fin d → ℝ) (t : Fin n → ℝ) (xs : Fin q → Fin d → ℝ)
    (ts : Fin q → ℝ) {noise : Fin n → ℝ} (hn : ∀ i, 0 ≤ noise i) {Ainv : Matrix (Fin n) (Fin n) ℝ}
    (hA : C02.Spec.noisy (gramMatrix (Kernels.multitask kp kt alpha (List.ofFn l) lt)
      (fun i => List.ofFn (x i) ++ [t i])) noise * Ainv = 1)
    (hpd : (C02.Spec.noisy (gramMatrix (Kernels.multitask kp kt alpha (List.ofFn l) lt)
      (fun i => List.ofFn (x i) ++ [t i])) noise).PosDef)
    (S : Matrix (Fin q) (Fin q) ℝ)
    (hS : S = C02.Spec.cov
      (gramMatrix (Kernels.multitask kp kt alpha (List.ofFn l) lt) (fun j => List.ofFn (xs j) ++ [ts j]))
      (crossMatrix (Kernels.multitask kp kt alpha (List.ofFn l) lt) (fun j => List.ofFn (xs j) ++ [ts j])
        (fun i => List.ofFn (x i) ++ [t i]))
      Ainv)
    (U V : Matrix (Fin q) (Fin q) ℝ) (E : Fin q → ℝ) (Q : Matrix (Fin q) m ℝ) (R : Matrix m (Fin q) ℝ)
    (hsvd : S = U * diagonal E * Vᵀ) (hU : Uᵀ * U = 1) (hV : Vᵀ * V = 1) (hE : ∀ i, 0 ≤ E i)
    (hQR : (U * diagonal (fun i => Real.sqrt (E i)))ᵀ = Q * R) (hQ : Qᵀ * Q = 1) :
    Rᵀ * Rᵀᵀ = S :=
  fallback_factor_of_svd S U V E Q R
    (hS ▸ C02.multitask_post_cov_posSemidef kp kt ha l lt x t xs ts hn hA hpd) hsvd hU hV hE hQR hQ

/-- 3. End to end for one GP: posterior draws `mean + L z` with the fallback's factor `L = Rᵀ` and a
    standardised latent vector `z` (mean 0, covariance 1) have mean `mean` and covariance EQUAL TO THE
    POSTERIOR COVARIANCE `K** − K* A⁻¹ K*ᵀ` of the radial-kernel GP.  Hypotheses: parameter ranges,
    `A * Ainv = 1`, scipy's SVD and QR contracts, standardised `z`; nothing about `S` being PSD. -/
theorem gp_posterior_samples_cov {Ω : Type*} (P : Expectation Ω)
    (kind : Kernels.Kind) {alpha : ℝ} (ha : 0 ≤ alpha) (l : Fin d → ℝ)
    (x : Fin n → Fin d → ℝ) (xs : Fin q → Fin d → ℝ) {noise : Fin n → ℝ} (hn : ∀ i, 0 < noise i)
    {Ainv : Matrix (Fin n) (Fin n) ℝ}
    (hA : C02.Spec.noisy (gramMatrix (Kernels.kernel kind alpha (List.ofFn l)) (fun i => List.ofFn (x i)))
      noise * Ainv = 1)
    (U V : Matrix (Fin q) (Fin q) ℝ) (E : Fin q → ℝ) (Q : Matrix (Fin q) m ℝ) (R : Matrix m (Fin q) ℝ)
    (hsvd : C02.Spec.cov
      (gramMatrix (Kernels.kernel kind alpha (List.ofFn l)) (fun j => List.ofFn (xs j)))
      (crossMatrix (Kernels.kernel kind alpha (List.ofFn l)) (fun j => List.ofFn (xs j))
        (fun i => List.ofFn (x i)))
      Ainv = U * diagonal E * Vᵀ)
    (hU : Uᵀ * U = 1) (hV : Vᵀ * V = 1) (hE : ∀ i, 0 ≤ E i)
    (hQR : (U * diagonal (fun i => Real.sqrt (E i)))ᵀ = Q * R) (hQ : Qᵀ * Q = 1)
    (mean : Fin q → ℝ) (z : m → Ω → ℝ) (hz0 : meanVec P z = 0) (hz1 : covMat P z = 1) :
    meanVec P (affine mean Rᵀ z) = mean ∧
      covMat P (affine mean Rᵀ z) = C02.Spec.cov
        (gramMatrix (Kernels.kernel kind alpha (List.ofFn l)) (fun j => List.ofFn (xs j)))
        (crossMatrix (Kernels.kernel kind alpha (List.ofFn l)) (fun j => List.ofFn (xs j))
          (fun i => List.ofFn (x i)))
        Ainv :=
  sample_moments P mean Rᵀ _ z hz0 hz1
    (gp_posterior_fallback_factor kind ha l x xs hn hA _ rfl U V E Q R hsvd hU hV hE hQR hQ)

/-- 3′. The same for the multitask tensor kernel. -/
theorem multitask_posterior_samples_cov {Ω : Type*} (P : Expectation Ω)
    (kp kt : Kernels.Kind) {alpha : ℝ} (ha : 0 ≤ alpha)
    (l : Fin d → ℝ) (lt : ℝ) (x : Fin n → Fin d → ℝ) (t : Fin n → ℝ) (xs : Fin q → Fin d → ℝ)
    (ts : Fin q → ℝ) {noise : Fin n → ℝ} (hn : ∀ i, 0 < noise i) {Ainv : Matrix (Fin n) (Fin n) ℝ}
    (hA : C02.Spec.noisy (gramMatrix (Kernels.multitask kp kt alpha (List.ofFn l) lt)
      (fun i => List.ofFn (x i) ++ [t i])) noise * Ainv = 1)
    (U V : Matrix (Fin q) (Fin q) ℝ) (E : Fin q → ℝ) (Q : Matrix (Fin q) m ℝ) (R : Matrix m (Fin q) ℝ)
    (hsvd : C02.Spec.cov
      (gramMatrix (Kernels.multitask kp kt alpha (List.ofFn l) lt) (fun j => List.ofFn (xs j) ++ [ts j]))
      (crossMatrix (Kernels.multitask kp kt alpha (List.ofFn l) lt) (fun j => List.ofFn (xs j) ++ [ts j])
        (fun i => List.ofFn (x i) ++ [t i]))
      Ainv = U * diagonal E * Vᵀ)
    (hU : Uᵀ * U = 1) (hV : Vᵀ * V = 1) (hE : ∀ i, 0 ≤ E i)
    (hQR : (U * diagonal (fun i => Real.sqrt (E i)))ᵀ = Q * R) (hQ : Qᵀ * Q = 1)
    (mean : Fin q → ℝ) (z : m → Ω → ℝ) (hz0 : meanVec P z = 0) (hz1 : covMat P z = 1) :
    meanVec P (affine mean Rᵀ z) = mean ∧
      covMat P (affine mean Rᵀ z) = C02.Spec.cov
        (gramMatrix (Kernels.multitask kp kt alpha (List.ofFn l) lt) (fun j => List.ofFn (xs j) ++ [ts j]))
        (crossMatrix (Kernels.multitask kp kt alpha (List.ofFn l) lt) (fun j => List.ofFn (xs j) ++ [ts j])
          (fun i => List.ofFn (x i) ++ [t i]))
        Ainv :=
  sample_moments P mean Rᵀ _ z hz0 hz1
    (multitask_posterior_fallback_factor kp kt ha l lt x t xs ts hn hA _ rfl U V E Q R hsvd hU hV hE hQR hQ)

/-! #### GP sums

`GaussianProcessSum.compute_covariance_of_points` reports `Σ_g w_g² Σ_g` (`C02.Spec.sumCov`), each `Σ_g` the
posterior covariance of a component GP at the SAME query points.  The components may differ in everything
else: kernel kind, `alpha`, length scales, number and position of observed points, noise. -/

variable {γ : Type*} [Fintype γ]

/-- 4a. The covariance reported by a sum of radial-kernel GPs is positive semi-definite: each component's
    posterior covariance is (C02 Part IV) and `C02.Spec.gpsum_cov_posSemidef` adds them up. -/
theorem gpsum_posterior_cov_posSemidef (w : γ → ℝ) (kind : γ → Kernels.Kind) {alpha : γ → ℝ}
    (ha : ∀ g, 0 ≤ alpha g) (l : γ → Fin d → ℝ) (nobs : γ → ℕ) (x : ∀ g, Fin (nobs g) → Fin d → ℝ)
    (xs : Fin q → Fin d → ℝ) {noise : ∀ g, Fin (nobs g) → ℝ} (hn : ∀ g i, 0 < noise g i)
    {Ainv : ∀ g, Matrix (Fin (nobs g)) (Fin (nobs g)) ℝ}
    (hA : ∀ g, C02.Spec.noisy (gramMatrix (Kernels.kernel (kind g) (alpha g) (List.ofFn (l g)))
      (fun i => List.ofFn (x g i))) (noise g) * Ainv g = 1) :
    (C02.Spec.sumCov w fun g => C02.Spec.cov
      (gramMatrix (Kernels.kernel (kind g) (alpha g) (List.ofFn (l g))) (fun j => List.ofFn (xs j)))
      (crossMatrix (Kernels.kernel (kind g) (alpha g) (List.ofFn (l g))) (fun j => List.ofFn (xs j))
        (fun i => List.ofFn (x g i)))
      (Ainv g)).PosSemidef := by
  classical
  exact C02.Spec.gpsum_cov_posSemidef w _ fun g =>
    C02.radial_post_cov_posSemidef_of_noise_pos (kind g) (ha g) (l g) (x g) xs (hn g) (hA g)

/-- 4b. … hence the fallback, handed the covariance of the GP sum, returns a factor of it. -/
theorem gpsum_posterior_fallback_factor (w : γ → ℝ) (kind : γ → Kernels.Kind) {alpha : γ → ℝ}
    (ha : ∀ g, 0 ≤ alpha g) (l : γ → Fin d → ℝ) (nobs : γ → ℕ) (x : ∀ g, Fin (nobs g) → Fin d → ℝ)
    (xs : Fin q → Fin d → ℝ) {noise : ∀ g, Fin (nobs g) → ℝ} (hn : ∀ g i, 0 < noise g i)
    {Ainv : ∀ g, Matrix (Fin (nobs g)) (Fin (nobs g)) ℝ}
    (hA : ∀ g, C02.Spec.noisy (gramMatrix (Kernels.kernel (kind g) (alpha g) (List.ofFn (l g)))
      (fun i => List.ofFn (x g i))) (noise g) * Ainv g = 1)
    (S : Matrix (Fin q) (Fin q) ℝ)
    (hS : S = C02.Spec.sumCov w fun g => C02.Spec.cov
      (gramMatrix (Kernels.kernel (kind g) (alpha g) (List.ofFn (l g))) (fun j => List.ofFn (xs j)))
      (crossMatrix (Kernels.kernel (kind g) (alpha g) (List.ofFn (l g))) (fun j => List.ofFn (xs j))
        (fun i => List.ofFn (x g i)))
      (Ainv g))
    (U V : Matrix (Fin q) (Fin q) ℝ) (E : Fin q → ℝ) (Q : Matrix (Fin q) m ℝ) (R : Matrix m (Fin q) ℝ)
    (hsvd : S = U * diagonal E * Vᵀ) (hU : Uᵀ * U = 1) (hV : Vᵀ * V = 1) (hE : ∀ i, 0 ≤ E i)
    (hQR : (U * diagonal (fun i => Real.sqrt (E i)))ᵀ = Q * R) (hQ : Qᵀ * Q = 1) :
    Rᵀ * Rᵀᵀ = S :=
  fallback_factor_of_svd S U V E Q R
    (hS ▸ gpsum_posterior_cov_posSemidef w kind ha l nobs x xs hn hA) hsvd hU hV hE hQR hQ

/-- 4c. Sampling the sum component by component: every component is sampled with the fallback's factor of
    its own posterior covariance; with jointly standardised latents the draw `Σ_g w_g (m_g + L_g z_g)` has
    covariance `Σ_g w_g² Σ_g` — the matrix `C02.Spec.sumCov` that `compute_covariance_of_points` reports. -/
theorem gpsum_posterior_samples_cov {Ω : Type*} [DecidableEq γ] (P : Expectation Ω)
    (w : γ → ℝ) (kind : γ → Kernels.Kind) {alpha : γ → ℝ}
    (ha : ∀ g, 0 ≤ alpha g) (l : γ → Fin d → ℝ) (nobs : γ → ℕ) (x : ∀ g, Fin (nobs g) → Fin d → ℝ)
    (xs : Fin q → Fin d → ℝ) {noise : ∀ g, Fin (nobs g) → ℝ} (hn : ∀ g i, 0 < noise g i)
    {Ainv : ∀ g, Matrix (Fin (nobs g)) (Fin (nobs g)) ℝ}
    (hA : ∀ g, C02.Spec.noisy (gramMatrix (Kernels.kernel (kind g) (alpha g) (List.ofFn (l g)))
      (fun i => List.ofFn (x g i))) (noise g) * Ainv g = 1)
    (U V : γ → Matrix (Fin q) (Fin q) ℝ) (E : γ → Fin q → ℝ) (Q : γ → Matrix (Fin q) m ℝ)
    (R : γ → Matrix m (Fin q) ℝ)
    (hsvd : ∀ g, C02.Spec.cov
      (gramMatrix (Kernels.kernel (kind g) (alpha g) (List.ofFn (l g))) (fun j => List.ofFn (xs j)))
      (crossMatrix (Kernels.kernel (kind g) (alpha g) (List.ofFn (l g))) (fun j => List.ofFn (xs j))
        (fun i => List.ofFn (x g i)))
      (Ainv g) = U g * diagonal (E g) * (V g)ᵀ)
    (hU : ∀ g, (U g)ᵀ * U g = 1) (hV : ∀ g, (V g)ᵀ * V g = 1) (hE : ∀ g i, 0 ≤ E g i)
    (hQR : ∀ g, (U g * diagonal (fun i => Real.sqrt (E g i)))ᵀ = Q g * R g) (hQ : ∀ g, (Q g)ᵀ * Q g = 1)
    (mean : γ → Fin q → ℝ) (z : γ → m → Ω → ℝ)
    (hz0 : meanVec P (joint z) = 0) (hz1 : covMat P (joint z) = 1) :
    meanVec P (sumAffine w mean (fun g => (R g)ᵀ) z) = (fun i => ∑ g, w g * mean g i) ∧
      covMat P (sumAffine w mean (fun g => (R g)ᵀ) z) = C02.Spec.sumCov w fun g => C02.Spec.cov
        (gramMatrix (Kernels.kernel (kind g) (alpha g) (List.ofFn (l g))) (fun j => List.ofFn (xs j)))
        (crossMatrix (Kernels.kernel (kind g) (alpha g) (List.ofFn (l g))) (fun j => List.ofFn (xs j))
          (fun i => List.ofFn (x g i)))
        (Ainv g) :=
  gpsum_sample_cov P w mean (fun g => (R g)ᵀ) _ z hz0 hz1 fun g =>
    gp_posterior_fallback_factor (kind g) (ha g) (l g) (x g) xs (hn g) (hA g) _ rfl (U g) (V g) (E g)
      (Q g) (R g) (hsvd g) (hU g) (hV g) (hE g) (hQR g) (hQ g)

/-- 5. Non-vacuity of `gp_posterior_fallback_factor`: two observed points 0 and 1 on the line, one query
    point 1/2, square exponential kernel with `alpha = 1`, length scale 1, noise variance 1/10 on both
    observations, `Ainv = A⁻¹`.  Every hypothesis holds with `U = V = Q = 1`, `E = (S₀₀)`, `R = (√S₀₀)`. -/
example :
    let k := Kernels.kernel Kernels.Kind.se (1 : ℝ) (List.ofFn ![(1 : ℝ)])
    let X : Fin 2 → List ℝ := fun i => List.ofFn ((![![0], ![1]] : Fin 2 → Fin 1 → ℝ) i)
    let Qp : Fin 1 → List ℝ := fun j => List.ofFn ((![![1 / 2]] : Fin 1 → Fin 1 → ℝ) j)
    let noise : Fin 2 → ℝ := fun _ => 1 / 10
    ∃ (Ainv : Matrix (Fin 2) (Fin 2) ℝ) (S U V : Matrix (Fin 1) (Fin 1) ℝ) (E : Fin 1 → ℝ)
      (Q R : Matrix (Fin 1) (Fin 1) ℝ),
      (0 : ℝ) ≤ 1 ∧ (∀ i, 0 < noise i) ∧ C02.Spec.noisy (gramMatrix k X) noise * Ainv = 1 ∧
      S = C02.Spec.cov (gramMatrix k Qp) (crossMatrix k Qp X) Ainv ∧
      S = U * diagonal E * Vᵀ ∧ Uᵀ * U = 1 ∧ Vᵀ * V = 1 ∧ (∀ i, 0 ≤ E i) ∧
      (U * diagonal (fun i => Real.sqrt (E i)))ᵀ = Q * R ∧ Qᵀ * Q = 1 ∧ Rᵀ * Rᵀᵀ = S := by
  intro k X Qp noise
  have hn : ∀ i : Fin 2, 0 < noise i := fun _ => by norm_num [noise]
  have hpd : (C02.Spec.noisy (gramMatrix k X) noise).PosDef :=
    C02.radial_noisy_posDef_of_noise_pos Kernels.Kind.se zero_le_one ![(1 : ℝ)] ![![0], ![1]] hn
  have hA := C02.posDef_mul_inv hpd
  have hpsd : (C02.Spec.cov (gramMatrix k Qp) (crossMatrix k Qp X)
      (C02.Spec.noisy (gramMatrix k X) noise)⁻¹).PosSemidef :=
    C02.radial_post_cov_posSemidef_of_noise_pos Kernels.Kind.se zero_le_one ![(1 : ℝ)] ![![0], ![1]]
      ![![1 / 2]] hn hA
  obtain ⟨h1, h2, h3⟩ := svd_qr_one_by_one _ hpsd
  exact ⟨_, _, 1, 1, _, 1, _, zero_le_one, hn, hA, rfl, h1, by simp, by simp, h2, h3, by simp,
    gp_posterior_fallback_factor Kernels.Kind.se zero_le_one ![(1 : ℝ)] ![![0], ![1]] ![![1 / 2]] hn hA
      _ rfl 1 1 _ 1 _ h1 (by simp) (by simp) h2 h3 (by simp)⟩

/-- Non-vacuity with a non-zero covariance computed in closed form: one observed point, queried at that
    same point, `alpha = 1`, noise variance 1/10: `A = (11/10)`, `Ainv = (10/11)`, `S = 1 − 10/11 = (1/11)`,
    `U = V = Q = 1`, `E = (1/11)`, `R = (√(1/11))`; any radial kind, any length scale. -/
example (kind : Kernels.Kind) (ls : ℝ) :
    let k := Kernels.kernel kind (1 : ℝ) (List.ofFn ![ls])
    let X : Fin 1 → List ℝ := fun i => List.ofFn ((![![0]] : Fin 1 → Fin 1 → ℝ) i)
    let noise : Fin 1 → ℝ := fun _ => 1 / 10
    let Ainv : Matrix (Fin 1) (Fin 1) ℝ := diagonal fun _ => 10 / 11
    let S : Matrix (Fin 1) (Fin 1) ℝ := diagonal fun _ => 1 / 11
    let R : Matrix (Fin 1) (Fin 1) ℝ := diagonal fun _ => Real.sqrt (1 / 11)
    (∀ i, 0 < noise i) ∧ C02.Spec.noisy (gramMatrix k X) noise * Ainv = 1 ∧
      S = C02.Spec.cov (gramMatrix k X) (crossMatrix k X X) Ainv ∧
      S = (1 : Matrix (Fin 1) (Fin 1) ℝ) * diagonal (fun _ => 1 / 11) * (1 : Matrix (Fin 1) (Fin 1) ℝ)ᵀ ∧
      ((1 : Matrix (Fin 1) (Fin 1) ℝ) * diagonal (fun _ => Real.sqrt (1 / 11)))ᵀ
        = (1 : Matrix (Fin 1) (Fin 1) ℝ) * R ∧
      Rᵀ * Rᵀᵀ = S ∧ S ≠ 0 := by
  intro k X noise Ainv S R
  have hn : ∀ i : Fin 1, 0 < noise i := fun _ => by norm_num [noise]
  have hA : C02.Spec.noisy (gramMatrix k X) noise * Ainv = 1 := by
    ext i j; fin_cases i; fin_cases j
    simp [C02.Spec.noisy, Matrix.mul_apply, k, noise, Ainv, C03.kernel_self]
    norm_num
  have hS : S = C02.Spec.cov (gramMatrix k X) (crossMatrix k X X) Ainv := by
    ext i j; fin_cases i; fin_cases j
    simp [C02.Spec.cov, Matrix.mul_apply, k, S, Ainv, C03.kernel_self]
    norm_num
  have hsvd : S = (1 : Matrix (Fin 1) (Fin 1) ℝ) * diagonal (fun _ => 1 / 11)
      * (1 : Matrix (Fin 1) (Fin 1) ℝ)ᵀ := by simp [S]
  have hQR : ((1 : Matrix (Fin 1) (Fin 1) ℝ) * diagonal (fun _ => Real.sqrt (1 / 11)))ᵀ
      = (1 : Matrix (Fin 1) (Fin 1) ℝ) * R := by simp [R]
  refine ⟨hn, hA, hS, hsvd, hQR, ?_, ?_⟩
  · exact gp_posterior_fallback_factor kind zero_le_one ![ls] ![![0]] ![![0]] hn hA S hS 1 1
      (fun _ => 1 / 11) 1 R hsvd (by simp) (by simp) (fun _ => by norm_num) hQR (by simp)
  · intro h
    have := congrFun (congrFun h 0) 0
    simp [S] at this

end compose

end C17
