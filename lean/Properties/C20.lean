/-
  C20 — Schema validation fails only with library errors, exactly when data is invalid.
  Property theorems only (helpers live in Proofs/C20.lean).  All statements are about the exact
  model `Model/C20.lean` of libsigopt/aux/validate_schema.py + jsonschema's Draft 2020-12 semantics
  of the modelled keywords, and hold for every JSON value and every schema (no bound on nesting,
  sizes or numbers), every rendering of values inside messages (`Render`), every character class
  `\w` (`WordChar`) and every choice jsonschema's `best_match` may make (`pick`).
-/
import Model.C20
import Proofs.C20

namespace C20

/-! ### 1. silent ⇔ conforms -/

mutual
theorem schema_viol_nil_iff : ∀ (s : Schema) (known : List String) (j : Json),
    s.viol known j = [] ↔ s.holds known j = true
  | .nil, _, _ => by simp [Schema.viol, Schema.holds]
  | .cons k r, known, j => by
    rw [Schema.viol, Schema.holds, List.append_eq_nil_iff, Bool.and_eq_true,
      kw_viol_nil_iff k known j, schema_viol_nil_iff r known j]
theorem kw_viol_nil_iff : ∀ (k : Kw) (known : List String) (j : Json),
    k.viol known j = [] ↔ k.holds known j = true
  | .type t, _, j => by simp [Kw.viol, Kw.holds, guardV_nil]
  | .properties ps, _, j => by
    cases j <;> simp [Kw.viol, Kw.holds]
    exact props_viol_nil_iff ps _
  | .required ks, _, j => by
    cases j <;> simp [Kw.viol, Kw.holds]
  | .additionalBool b, known, j => by
    cases j <;> simp [Kw.viol, Kw.holds, guardV_nil]
  | .additionalSchema s, known, j => by
    cases j <;> simp only [Kw.viol, Kw.holds]
    exact extrasFrom_nil (fun x => schema_viol_nil_iff s s.propNames x) _
  | .items s, _, j => by
    cases j <;> simp only [Kw.viol, Kw.holds]
    exact itemsFrom_nil (fun x => schema_viol_nil_iff s s.propNames x) 0 _
  | .minimum q, _, j => by
    simp only [Kw.viol, Kw.holds]; cases numVal j <;> simp [guardV_nil]
  | .maximum q, _, j => by
    simp only [Kw.viol, Kw.holds]; cases numVal j <;> simp [guardV_nil]
  | .exclusiveMinimum q, _, j => by
    simp only [Kw.viol, Kw.holds]; cases numVal j <;> simp [guardV_nil]
  | .minLength n, _, j => by cases j <;> simp [Kw.viol, Kw.holds, guardV_nil]
  | .maxLength n, _, j => by cases j <;> simp [Kw.viol, Kw.holds, guardV_nil]
  | .minItems n, _, j => by cases j <;> simp [Kw.viol, Kw.holds, guardV_nil]
  | .maxItems n, _, j => by cases j <;> simp [Kw.viol, Kw.holds, guardV_nil]
  | .minProperties n, _, j => by cases j <;> simp [Kw.viol, Kw.holds, guardV_nil]
  | .maxProperties n, _, j => by cases j <;> simp [Kw.viol, Kw.holds, guardV_nil]
  | .enum vs, _, j => by simp [Kw.viol, Kw.holds, guardV_nil]
  | .pattern p, _, j => by cases j <;> simp [Kw.viol, Kw.holds, guardV_nil]
  | .oneOf ss, _, j => by
    simp only [Kw.viol, Kw.holds, schemas_count ss j]
    by_cases h0 : ss.countValid j = 0
    · simp [h0]
    · by_cases h1 : ss.countValid j = 1
      · simp [h1]
      · simp [h0, h1]
  | .anyOf ss, _, j => by
    simp only [Kw.viol, Kw.holds, schemas_count ss j]
    by_cases h0 : ss.countValid j = 0 <;> simp [h0]
  | .const v, _, j => by simp [Kw.viol, Kw.holds, guardV_nil]
  | .multipleOf q, _, j => by
    simp only [Kw.viol, Kw.holds]; cases numVal j <;> simp [guardV_nil]
  | .uniqueItems b, _, j => by cases j <;> simp [Kw.viol, Kw.holds, guardV_nil]
  | .not s, _, j => by
    have ih := schema_viol_nil_iff s s.propNames j
    simp only [Kw.viol, Kw.holds, guardV_nil]
    cases hh : s.holds s.propNames j
    · have : s.viol s.propNames j ≠ [] := fun h => by rw [ih.mp h] at hh; cases hh
      simp [this]
    · simp [ih.mpr hh]
theorem props_viol_nil_iff : ∀ (ps : Props) (kvs : List (String × Json)),
    ps.viol kvs = [] ↔ ps.hold kvs = true
  | .nil, _ => by simp [Props.viol, Props.hold]
  | .cons name s r, kvs => by
    rw [Props.viol, Props.hold, List.append_eq_nil_iff, Bool.and_eq_true, props_viol_nil_iff r kvs]
    cases lookup name kvs with
    | none => simp
    | some v => simp [schema_viol_nil_iff s s.propNames v]
/-- the number of branches without errors is the number of branches the value conforms to -/
theorem schemas_count : ∀ (ss : Schemas) (j : Json),
    ((ss.branchViol j).filter List.isEmpty).length = ss.countValid j
  | .nil, _ => by simp [Schemas.branchViol, Schemas.countValid]
  | .cons s r, j => by
    have ih := schema_viol_nil_iff s s.propNames j
    rw [Schemas.branchViol, Schemas.countValid, List.filter_cons, ← schemas_count r j]
    cases hh : s.holds s.propNames j
    · have : s.viol s.propNames j ≠ [] := fun h => by rw [ih.mp h] at hh; cases hh
      simp [this]
    · simp [ih.mpr hh]; omega
end

/-- **Silent exactly when the value conforms.**  `violations` is what jsonschema's `iter_errors`
    yields; `validate` raises iff that list is non-empty. -/
theorem silent_iff_conforms (s : Schema) (j : Json) : violations s j = [] ↔ conforms s j = true :=
  schema_viol_nil_iff s s.propNames j

/-- `validate` (with any `best_match`) returns silently exactly on conforming values. -/
theorem validate_silent_iff (pick : List Violation → Violation) (R : Render) (w : WordChar)
    (s : Schema) (j : Json) : validateModel pick R w s j = none ↔ conforms s j = true := by
  rw [← silent_iff_conforms]
  unfold validateModel
  cases h : violations s j <;> simp

/-! ### 2. every reported error is a genuinely failing keyword instance -/

mutual
theorem schema_sound : ∀ (s : Schema) (known : List String) (j : Json), AllSound (s.viol known j)
  | .nil, _, _ => by simpa [Schema.viol] using allSound_nil
  | .cons k r, known, j => by
    rw [Schema.viol, allSound_append]; exact ⟨kw_sound k known j, schema_sound r known j⟩
theorem kw_sound : ∀ (k : Kw) (known : List String) (j : Json), AllSound (k.viol known j)
  | .type t, _, j => by
    rw [Kw.viol]; exact allSound_guardV rfl (by intro h; simp [Violation.genuine, h])
  | .properties ps, _, j => by
    cases j <;> simp only [Kw.viol] <;> first | exact allSound_nil | exact props_sound ps _
  | .required ks, _, j => by
    cases j <;> simp only [Kw.viol] <;> first
      | exact allSound_nil
      | exact allSound_replicate _ rfl (by intro h; simpa [Violation.genuine] using h)
  | .additionalBool b, known, j => by
    cases j <;> simp only [Kw.viol] <;> first
      | exact allSound_nil
      | (refine allSound_guardV rfl ?_
         intro h
         simp only [Bool.or_eq_false_iff] at h
         simp only [Violation.genuine, Bool.and_eq_true, Bool.not_eq_true', h.2, List.all_eq_true, true_and]
         intro k hk
         have := mem_extrasOf hk
         rw [this.1, this.2]; exact ⟨rfl, rfl⟩)
  | .additionalSchema s, known, j => by
    cases j <;> simp only [Kw.viol] <;> first
      | exact allSound_nil
      | exact allSound_extrasFrom (fun x => schema_sound s s.propNames x) _
  | .items s, _, j => by
    cases j <;> simp only [Kw.viol] <;> first
      | exact allSound_nil
      | exact allSound_itemsFrom (fun x => schema_sound s s.propNames x) 0 _
  | .minimum q, _, j => by
    simp only [Kw.viol]
    cases hn : numVal j with
    | none => exact allSound_nil
    | some v => exact allSound_guardV rfl (by intro h; simpa [Violation.genuine, hn] using h)
  | .maximum q, _, j => by
    simp only [Kw.viol]
    cases hn : numVal j with
    | none => exact allSound_nil
    | some v => exact allSound_guardV rfl (by intro h; simpa [Violation.genuine, hn] using h)
  | .exclusiveMinimum q, _, j => by
    simp only [Kw.viol]
    cases hn : numVal j with
    | none => exact allSound_nil
    | some v => exact allSound_guardV rfl (by intro h; simpa [Violation.genuine, hn] using h)
  | .minLength n, _, j => by
    cases j <;> simp only [Kw.viol] <;> first
      | exact allSound_nil
      | exact allSound_guardV rfl (by intro h; simpa [Violation.genuine] using h)
  | .maxLength n, _, j => by
    cases j <;> simp only [Kw.viol] <;> first
      | exact allSound_nil
      | exact allSound_guardV rfl (by intro h; simpa [Violation.genuine] using h)
  | .minItems n, _, j => by
    cases j <;> simp only [Kw.viol] <;> first
      | exact allSound_nil
      | exact allSound_guardV rfl (by intro h; simpa [Violation.genuine] using h)
  | .maxItems n, _, j => by
    cases j <;> simp only [Kw.viol] <;> first
      | exact allSound_nil
      | exact allSound_guardV rfl (by intro h; simpa [Violation.genuine] using h)
  | .minProperties n, _, j => by
    cases j <;> simp only [Kw.viol] <;> first
      | exact allSound_nil
      | exact allSound_guardV rfl (by intro h; simpa [Violation.genuine] using h)
  | .maxProperties n, _, j => by
    cases j <;> simp only [Kw.viol] <;> first
      | exact allSound_nil
      | exact allSound_guardV rfl (by intro h; simpa [Violation.genuine] using h)
  | .enum vs, _, j => by
    rw [Kw.viol]; exact allSound_guardV rfl (by intro h; simp [Violation.genuine, h])
  | .pattern p, _, j => by
    cases j <;> simp only [Kw.viol] <;> first
      | exact allSound_nil
      | exact allSound_guardV rfl (by intro h; simp [Violation.genuine, h])
  | .oneOf ss, _, j => by
    simp only [Kw.viol]
    split
    · rw [allSound_cons]
      exact ⟨⟨rfl, allSound_flatten (schemas_sound ss j)⟩, allSound_nil⟩
    · split
      · exact allSound_nil
      · exact allSound_single rfl rfl
  | .anyOf ss, _, j => by
    simp only [Kw.viol]
    split
    · rw [allSound_cons]
      exact ⟨⟨rfl, allSound_flatten (schemas_sound ss j)⟩, allSound_nil⟩
    · exact allSound_nil
  | .const v, _, j => by rw [Kw.viol]; exact allSound_guardV rfl (fun _ => rfl)
  | .multipleOf q, _, j => by
    simp only [Kw.viol]
    cases numVal j with
    | none => exact allSound_nil
    | some v => exact allSound_guardV rfl (fun _ => rfl)
  | .uniqueItems b, _, j => by
    cases j <;> simp only [Kw.viol] <;> first
      | exact allSound_nil
      | exact allSound_guardV rfl (fun _ => rfl)
  | .not s, _, j => by rw [Kw.viol]; exact allSound_guardV rfl (fun _ => rfl)
theorem props_sound : ∀ (ps : Props) (kvs : List (String × Json)), AllSound (ps.viol kvs)
  | .nil, _ => by simpa [Props.viol] using allSound_nil
  | .cons name s r, kvs => by
    rw [Props.viol, allSound_append]
    refine ⟨?_, props_sound r kvs⟩
    cases lookup name kvs with
    | none => exact allSound_nil
    | some v => exact allSound_map_pre _ (schema_sound s s.propNames v)
theorem schemas_sound : ∀ (ss : Schemas) (j : Json), ∀ l ∈ ss.branchViol j, AllSound l
  | .nil, _ => by simp [Schemas.branchViol]
  | .cons s r, j => by
    intro l hl
    rw [Schemas.branchViol, List.mem_cons] at hl
    rcases hl with rfl | hl
    · exact schema_sound s s.propNames j
    · exact schemas_sound r j l hl
end

/-- Whatever error `best_match` may return (top level or inside a `oneOf/anyOf` context, at any
    depth) is a keyword that really fails on the sub-value the error carries. -/
theorem violations_genuine (s : Schema) (j : Json) : ∀ v ∈ closure (violations s j), v.genuine = true :=
  schema_sound s s.propNames j

/-! ### 3. `process_error`: total, library classes only, non-empty message -/

/-- The translation is a total function (the `context[0]` descent is a structural recursion, accepted
    by Lean's termination checker) into the five library classes. -/
theorem translate_total (R : Render) (w : WordChar) (v : Violation) :
    (translate R w v).cls ∈
      [ErrClass.validation, .invalidKey, .invalidType, .invalidValue, .missingJsonKey] := by
  cases (translate R w v).cls <;> simp

/-- `process_error(e)` for a `oneOf/anyOf` error is `process_error` of the leaf reached by following
    `context[0]`; that leaf is reachable from `e` and is itself no `oneOf/anyOf` with context. -/
theorem oneOf_descends (R : Render) (w : WordChar) : ∀ v : Violation,
    translate R w v = translate R w v.leaf ∧ v.leaf ∈ closure [v] ∧ v.leaf.leaf = v.leaf
  | .oneOf p i (c :: cs) => by
    obtain ⟨h1, h2, h3⟩ := oneOf_descends R w c
    refine ⟨by rw [translate, Violation.leaf]; exact h1, ?_, by rw [Violation.leaf]; exact h3⟩
    rw [Violation.leaf, closure_cons]
    simp only [Violation.ctx, closure_nil, List.append_nil, List.mem_cons]
    right
    rw [closure_cons]
    rw [closure_cons, closure_nil, List.append_nil] at h2
    rcases List.mem_cons.mp h2 with h | h
    · simp [h]
    · simp [h]
  | .anyOf p i (c :: cs) => by
    obtain ⟨h1, h2, h3⟩ := oneOf_descends R w c
    refine ⟨by rw [translate, Violation.leaf]; exact h1, ?_, by rw [Violation.leaf]; exact h3⟩
    rw [Violation.leaf, closure_cons]
    simp only [Violation.ctx, closure_nil, List.append_nil, List.mem_cons]
    right
    rw [closure_cons]
    rw [closure_cons, closure_nil, List.append_nil] at h2
    rcases List.mem_cons.mp h2 with h | h
    · simp [h]
    · simp [h]
  | .oneOf _ _ [] => by simp [Violation.leaf, closure_cons]
  | .anyOf _ _ [] => by simp [Violation.leaf, closure_cons]
  | .additional .. => by simp [Violation.leaf, closure_cons]
  | .type .. => by simp [Violation.leaf, closure_cons]
  | .minProperties .. => by simp [Violation.leaf, closure_cons]
  | .maxProperties .. => by simp [Violation.leaf, closure_cons]
  | .required .. => by simp [Violation.leaf, closure_cons]
  | .minimum .. => by simp [Violation.leaf, closure_cons]
  | .maximum .. => by simp [Violation.leaf, closure_cons]
  | .exclusiveMinimum .. => by simp [Violation.leaf, closure_cons]
  | .minLength .. => by simp [Violation.leaf, closure_cons]
  | .maxLength .. => by simp [Violation.leaf, closure_cons]
  | .minItems .. => by simp [Violation.leaf, closure_cons]
  | .maxItems .. => by simp [Violation.leaf, closure_cons]
  | .enum .. => by simp [Violation.leaf, closure_cons]
  | .pattern .. => by simp [Violation.leaf, closure_cons]
  | .other .. => by simp [Violation.leaf, closure_cons]

/-- Every error message is non-empty, whatever Python's stringification of the embedded values
    produces (also for an empty path, an empty key list, a `oneOf` without context, an unknown keyword). -/
theorem message_nonempty (R : Render) (w : WordChar) : ∀ v : Violation, (translate R w v).msg ≠ ""
  | .oneOf _ _ (c :: _) => by rw [translate]; exact message_nonempty R w c
  | .anyOf _ _ (c :: _) => by rw [translate]; exact message_nonempty R w c
  | .oneOf _ _ [] => by simp [translate]
  | .anyOf _ _ [] => by simp [translate]
  | .additional .. => str_ne_of_length (by simp +decide [translate, String.length_append])
  | .type p v t => by
    apply str_ne_of_length
    simp only [translate, typeMsg]
    split <;> simp +decide [String.length_append]
  | .minProperties .. => str_ne_of_length (by simp +decide [translate, String.length_append])
  | .maxProperties .. => str_ne_of_length (by simp +decide [translate, String.length_append])
  | .required .. => str_ne_of_length (by simp +decide [translate, String.length_append])
  | .minimum .. => str_ne_of_length (by simp +decide [translate, String.length_append])
  | .maximum .. => str_ne_of_length (by simp +decide [translate, String.length_append])
  | .exclusiveMinimum .. => str_ne_of_length (by simp +decide [translate, String.length_append])
  | .minLength .. => str_ne_of_length (by simp +decide [translate, String.length_append])
  | .maxLength .. => str_ne_of_length (by simp +decide [translate, String.length_append])
  | .minItems .. => str_ne_of_length (by simp +decide [translate, String.length_append])
  | .maxItems .. => str_ne_of_length (by simp +decide [translate, String.length_append])
  | .enum .. => str_ne_of_length (by simp +decide [translate, String.length_append])
  | .pattern .. => str_ne_of_length (by simp +decide [translate, String.length_append])
  | .other .. => str_ne_of_length (by simp +decide [translate, String.length_append])

/-- `get_path_string` is empty only for the empty path, so `if key:` in `InvalidTypeError.__init__`
    (modelled as `p.isEmpty` in `typeMsg`) separates exactly root errors from nested ones. -/
theorem pathString_eq_empty (p : Path) : pathString p = "" ↔ p = [] := by
  cases p with
  | nil => simp [pathString]
  | cons e r =>
    simp only [reduceCtorEq, iff_false]
    apply str_ne_of_length
    cases e <;> simp +decide [pathString, String.length_append]

/-- A keyword outside `process_error`'s table (const, multipleOf, uniqueItems, not) still becomes a
    library error: the base class, with a non-empty message and no exposed attribute. -/
theorem unknown_keyword_is_library_error (R : Render) (w : WordChar) (p : Path) (kw : OtherKw) (inst : Json) :
    (translate R w (.other p kw inst)).cls = .validation ∧
    (translate R w (.other p kw inst)).msg ≠ "" ∧
    (translate R w (.other p kw inst)).key = .notExposed :=
  ⟨rfl, message_nonempty R w _, rfl⟩

/-- …and such a failing keyword does make the value invalid (so `validate` raises). -/
theorem unknown_keyword_rejects (known : List String) (k : Kw) (j : Json) (p : Path) (kw : OtherKw) (inst : Json)
    (h : Violation.other p kw inst ∈ k.viol known j) : k.holds known j = false := by
  cases hh : k.holds known j
  · rfl
  · rw [(kw_viol_nil_iff k known j).mpr hh] at h; cases h

/-! ### 4. exposed attributes -/

/-- **Missing required key.**  Any `required` error `best_match` can return is translated to
    `MissingJsonKeyError` whose `missing_json_key` is a key of the `required` list that the object
    lacks (the first such key). -/
theorem required_exposes_key (R : Render) (w : WordChar) (s : Schema) (j : Json)
    (p : Path) (req : List String) (inst : Json)
    (h : Violation.required p req inst ∈ closure (violations s j)) :
    (translate R w (.required p req inst)).cls = .missingJsonKey ∧
    ∃ k, (translate R w (.required p req inst)).key = .key (some k) ∧ k ∈ req ∧ hasKey inst k = false ∧
      (missingOf req inst).head? = some k := by
  have hg := violations_genuine s j _ h
  simp only [Violation.genuine, Bool.not_eq_true', List.isEmpty_eq_false_iff] at hg
  refine ⟨rfl, ?_⟩
  cases hm : missingOf req inst with
  | nil => exact absurd hm hg
  | cons k r =>
    have hk : k ∈ missingOf req inst := by rw [hm]; simp
    unfold missingOf at hk
    rw [List.mem_filter] at hk
    exact ⟨k, by simp [translate, hm], hk.1, by simpa using hk.2, by simp⟩

/-- **Unknown key.**  Any `additionalProperties: false` error is translated to `InvalidKeyError`;
    when the unknown keys are identifier-like (`\w+`), `invalid_key` is one of the unknown keys: a key
    of the object, not declared by `properties`, and the least unknown key in code-point order. -/
theorem additional_exposes_key (R : Render) (w : WordChar) (s : Schema) (j : Json)
    (p : Path) (extras known : List String) (inst : Json)
    (h : Violation.additional p extras known inst ∈ closure (violations s j))
    (hid : extras.all (identLike w) = true) :
    (translate R w (.additional p extras known inst)).cls = .invalidKey ∧
    ∃ k, (translate R w (.additional p extras known inst)).key = .key (some k) ∧
      k ∈ extras ∧ hasKey inst k = true ∧ known.contains k = false ∧ ∀ k' ∈ extras, ¬ k' < k := by
  have hg := violations_genuine s j _ h
  simp only [Violation.genuine, Bool.and_eq_true, Bool.not_eq_true', List.isEmpty_eq_false_iff,
    List.all_eq_true] at hg
  obtain ⟨k, hk⟩ := leastKey_isSome hg.1
  have hmem := leastKey_mem hk
  have := hg.2 k hmem
  refine ⟨rfl, k, by simp [translate, hid, hk], hmem, this.1, by simpa using this.2, leastKey_le hk⟩

/-- **Type error.**  Any `type` error is translated to `InvalidTypeError` exposing exactly the
    offending value and the expected type (`str(schema["type"])`), and the value really is not of
    that type. -/
theorem type_exposes_value_and_type (R : Render) (w : WordChar) (s : Schema) (j : Json)
    (p : Path) (val : Json) (t : TypeSpec)
    (h : Violation.type p val t ∈ closure (violations s j)) :
    (translate R w (.type p val t)).cls = .invalidType ∧
    (translate R w (.type p val t)).value = some val ∧
    (translate R w (.type p val t)).expectedType = some t.pyStr ∧
    typeOk t val = false := by
  have hg := violations_genuine s j _ h
  exact ⟨rfl, rfl, rfl, by simpa [Violation.genuine] using hg⟩

/-- The JSON-Schema typing rules the expected type refers to: booleans are neither integers nor
    numbers, every integer is a number, a float is an integer exactly when it is integral. -/
theorem type_rules (b : Bool) (i : Int) (q : Rat) :
    hasType (.bool b) .integer = false ∧ hasType (.bool b) .number = false ∧
    hasType (.int i) .integer = true ∧ hasType (.int i) .number = true ∧
    hasType (.num q) .number = true ∧ (hasType (.num q) .integer = true ↔ q.den = 1) := by
  simp [hasType]

/-! ### 5. the whole of `validate` -/

/-- On a non-conforming value `validate` raises a library error drawn from the admissible set (the
    translations of the errors jsonschema can report), with a non-empty message — for every choice
    `best_match` makes within its contract. -/
theorem validate_error_admissible (pick : List Violation → Violation) (R : Render) (w : WordChar)
    (s : Schema) (j : Json) (hpick : ∀ l, l ≠ [] → pick l ∈ closure l) (hbad : conforms s j = false) :
    ∃ e, validateModel pick R w s j = some e ∧ e ∈ admissible R w s j ∧ e.msg ≠ "" ∧
      e.cls ∈ [ErrClass.validation, .invalidKey, .invalidType, .invalidValue, .missingJsonKey] := by
  have hne : violations s j ≠ [] := fun h => by
    rw [(silent_iff_conforms s j).mp h] at hbad; cases hbad
  refine ⟨translate R w (pick (violations s j)), ?_, ?_, message_nonempty R w _, translate_total R w _⟩
  · unfold validateModel
    simp [hne]
  · unfold admissible
    exact List.mem_map.mpr ⟨_, hpick _ hne, rfl⟩

/-- every admissible error has a non-empty message -/
theorem admissible_message_nonempty (R : Render) (w : WordChar) (s : Schema) (j : Json) :
    ∀ e ∈ admissible R w s j, e.msg ≠ "" := by
  intro e he
  unfold admissible at he
  obtain ⟨v, _, rfl⟩ := List.mem_map.mp he
  exact message_nonempty R w v

/-! ### Non-vacuity: concrete schemas and values on which the hypotheses hold -/

section examples
/-- `{"type": "object", "properties": {"a": {"type": "integer"}, "b": {}}, "required": ["a", "b"],
     "additionalProperties": false}` -/
def exSchema : Schema :=
  .cons (.type (.single .object))
  (.cons (.properties (.cons "a" (.cons (.type (.single .integer)) .nil) (.cons "b" .nil .nil)))
  (.cons (.required ["a", "b"])
  (.cons (.additionalBool false) .nil)))

def exBad : Json := .obj [("a", .bool true), ("zz", .int 1)]

example : conforms (.cons (.type (.many [.integer, .null])) .nil) (.num 7) = true := by decide
example : conforms (.cons (.type (.single .integer)) .nil) (.bool true) = false := by decide
example : conforms exSchema exBad = false := by decide
example : (violations exSchema exBad).length = 3 := by decide
-- the hypotheses of the three exposure theorems are satisfiable
theorem exBad_errors : closure (violations exSchema exBad) =
    [.type [.key "a"] (.bool true) (.single .integer), .required [] ["a", "b"] exBad,
     .additional [] ["zz"] ["a", "b"] exBad] := by
  rw [show violations exSchema exBad = [.type [.key "a"] (.bool true) (.single .integer),
    .required [] ["a", "b"] exBad, .additional [] ["zz"] ["a", "b"] exBad] from rfl]
  simp [closure_cons, closure_nil, Violation.ctx]
example : Violation.required [] ["a", "b"] exBad ∈ closure (violations exSchema exBad) := by
  simp [exBad_errors]
example : Violation.additional [] ["zz"] ["a", "b"] exBad ∈ closure (violations exSchema exBad) := by
  simp [exBad_errors]
example : Violation.type [.key "a"] (.bool true) (.single .integer) ∈ closure (violations exSchema exBad) := by
  simp [exBad_errors]
-- `validate_error_admissible`: a `best_match` within its contract exists, and `exBad` does not conform
example : ∃ pick : List Violation → Violation, ∀ l, l ≠ [] → pick l ∈ closure l :=
  ⟨fun l => l.headD (.other [] .not .null), fun l hl => by
    cases l with
    | nil => exact absurd rfl hl
    | cons a l => exact mem_closure_of_mem (by simp)⟩
-- a conforming value exists too (3.0 is an integer in draft 2020-12)
example : conforms exSchema (.obj [("b", .null), ("a", .num 3)]) = true := by decide
example : ["zz"].all (identLike fun c => c.isAlphanum || c == '_') = true := by decide
-- a `oneOf` error with context, and the leaf `process_error` descends to
example : (violations (.cons (.oneOf (.cons (.cons (.type (.single .string)) .nil)
    (.cons (.cons (.minimum 5) .nil) .nil))) .nil) (.int 3)).length = 1 := by decide
end examples

end C20
