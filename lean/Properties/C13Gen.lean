-- generated: Epsilon
/-
  C13 — tie of the epsilon-constraint value of `Model/C13.lean` to the final expression the translator regenerates on
  every run from `_find_epsilon_constraint_value_no_bounds` and `_find_epsilon_constraint_value_with_bounds`
  (Generated/Epsilon.lean).  The model's no-threshold routine is the generated combination of the metric's values at the two single-metric optima
  (`epsNoBounds_eq_generated`, exact rationals; the with-threshold routine's final expression is generated too and covered by
  `gen_eps_between`, its choice of bounds stays with the model and the correspondence); `gen_eps_between` / `gen_eps_strict` are the facts about that combination from which
  the range clauses of the property follow: for a fraction in [0,1] it lies between the bounds, strictly inside for a
  fraction in (0,1) and distinct bounds.
-/
import Properties.C13
import Model.Generated.Epsilon
import Mathlib.Tactic.Ring
import Mathlib.Tactic.Linarith

set_option linter.unusedTactic false
set_option linter.unreachableTactic false

namespace C13

theorem epsNoBounds_eq_generated (eps : Rat) (cm : Nat) (rows : List (List Rat)) :
    ∃ x y, epsNoBounds eps cm rows = Gen.eps_combination eps (max x y) (min x y) ∧
      x = at' (rows.getD (argmin (col 0 rows)) []) cm ∧ y = at' (rows.getD (argmin (col 1 rows)) []) cm := by
  refine ⟨_, _, ?_, rfl, rfl⟩
  first | rfl | (simp only [epsNoBounds, Gen.eps_combination] <;> first | rfl | ring1)

/-- the combination the source forms lies between its two bounds for every fraction in [0,1] -/
theorem gen_eps_between (eps mn mx : Rat) (h0 : 0 ≤ eps) (h1 : eps ≤ 1) (h : mn ≤ mx) :
    mn ≤ Gen.eps_combination eps mx mn ∧ Gen.eps_combination eps mx mn ≤ mx ∧
    mn ≤ Gen.eps_combination_bounds eps mx mn ∧ Gen.eps_combination_bounds eps mx mn ≤ mx := by
  have e1 : Gen.eps_combination eps mx mn = mn + eps * (mx - mn) := by simp only [Gen.eps_combination]; ring
  have e2 : Gen.eps_combination_bounds eps mx mn = mn + eps * (mx - mn) := by
    simp only [Gen.eps_combination_bounds]; ring
  have hd : 0 ≤ mx - mn := by linarith
  have hlo : 0 ≤ eps * (mx - mn) := mul_nonneg h0 hd
  have hhi : eps * (mx - mn) ≤ 1 * (mx - mn) := mul_le_mul_of_nonneg_right h1 hd
  rw [e1, e2]
  refine ⟨by linarith, by linarith, by linarith, by linarith⟩

/-- strictly inside for a fraction in (0,1) and distinct bounds (the quantifier's epsilon range) -/
theorem gen_eps_strict (eps mn mx : Rat) (h0 : 0 < eps) (h1 : eps < 1) (h : mn < mx) :
    mn < Gen.eps_combination eps mx mn ∧ Gen.eps_combination eps mx mn < mx := by
  have e1 : Gen.eps_combination eps mx mn = mn + eps * (mx - mn) := by simp only [Gen.eps_combination]; ring
  have hd : 0 < mx - mn := by linarith
  have hlo : 0 < eps * (mx - mn) := mul_pos h0 hd
  have hhi : eps * (mx - mn) < 1 * (mx - mn) := mul_lt_mul_of_pos_right h1 hd
  rw [e1]
  exact ⟨by linarith, by linarith⟩

example : Gen.eps_combination (1 / 4) 8 4 = 5 := by norm_num [Gen.eps_combination]

end C13
