/-
  C14 — Multi-metric scheduling and data filtering follow their contracts.
  The selectors `Gen.identify_multimetric_phase`, `Gen.identify_search_phase`,
  `Gen.get_experiment_phase`, `Gen.get_solver_options` are regenerated from the Python source on
  every run; the theorems below are re-checked against whatever the source says now.

  Floating point.  The exact functions over `Int`/`Rat` are what totality, monotonicity, … are stated about.
  That CPython's floating-point evaluation takes the same branches is PROVED at the end of this file
  (`identify_search_phase_fl_eq`, `identify_multimetric_phase_fl_eq`, `get_experiment_phase_fl_eq`) for the
  floating-point reading `Gen.<name>_fl` that the translator derives from the same source (one rounding `fl` after
  every float operation and every decimal literal; Model/Generated/PhasesFl.lean), under explicit assumptions:
    * `C14Float.IsRounding fl`: |fl x − x| ≤ 2⁻⁵³·|x| (binary64 round-to-nearest in the normal range – trusted);
    * size: |budget| + |count| + |open| + |failures| < 10¹⁴;
    * built into the reading (trusted facts about CPython): int → float is exact below 2⁵³, `int / int` is the
      correctly rounded quotient of the integers, comparisons are exact;
    * for `get_experiment_phase` only, `C14Float.SPEDoubles fl`: `2 * 0.15 == 0.3` and `1 - 9/10 <= 0.1` as doubles
      (checked on the running interpreter by harness/c14.py; `spe_needs_two_mul_limit` and
      `spe_needs_one_sub_nine_tenths` show that the error bound alone does not decide those two boundary cases).
-/
import Model.C14
import Proofs.C14Float
import Mathlib.Algebra.Order.Field.Rat
import Mathlib.Algebra.Order.Floor.Ring
import Mathlib.Data.Rat.Floor
import Mathlib.Tactic.Linarith
import Mathlib.Tactic.NormNum
import Mathlib.Tactic.Positivity
import Mathlib.Tactic.FieldSimp
import Mathlib.Tactic.Ring

namespace C14
open Gen

/-! ### Totality: no selector ever divides by zero -/

theorem adjustedBudget_pos (b f o : Int) : 1 ≤ adjustedBudget b f o := by
  unfold adjustedBudget; omega

theorem adjustedBudget_cast_pos (b f o : Int) : (0 : Rat) < (adjustedBudget b f o : Rat) := by
  have := adjustedBudget_pos b f o
  exact_mod_cast (by omega : 0 < adjustedBudget b f o)

/-- every denominator of the multi-metric selector is non-zero, for ALL integer inputs (including
    budgets smaller than the failure count and zero open suggestions). -/
theorem mm_phase_total (thr : Bool) (b n f o : Int) :
    ∀ d ∈ identify_multimetric_phase_denoms thr b n f o, d ≠ 0 := by
  intro d hd
  simp only [identify_multimetric_phase_denoms, List.mem_cons, List.mem_nil_iff, or_false] at hd
  have hb := adjustedBudget_cast_pos b f o
  unfold adjustedBudget at hb
  rcases hd with rfl | rfl | rfl | rfl | rfl
  · exact ne_of_gt hb
  · norm_num
  · norm_num
  · norm_num
  · cases thr <;> norm_num

theorem search_phase_total (b n o f : Int) : ∀ d ∈ identify_search_phase_denoms b n o f, d ≠ 0 := by
  intro d hd
  simp only [identify_search_phase_denoms, List.mem_cons, List.mem_nil_iff, or_false] at hd
  have hb := adjustedBudget_cast_pos b f o
  unfold adjustedBudget at hb
  rcases hd with rfl
  exact ne_of_gt hb

/-- the Parzen selector is total whenever the budget is positive (the endpoint substitutes a positive
    phantom budget for a missing one) and the observation count is non-negative. -/
theorem spe_phase_total (b n f : Int) (hb : 0 < b) (hn : 0 ≤ n) :
    ∀ d ∈ get_experiment_phase_denoms b n f, d ≠ 0 := by
  intro d hd
  simp only [get_experiment_phase_denoms, List.mem_cons, List.mem_nil_iff, or_false] at hd
  rcases hd with rfl | rfl
  · exact_mod_cast (ne_of_gt hb)
  · have : (0 : Int) < 1 + n := by omega
    exact_mod_cast (ne_of_gt this)

theorem solver_options_total (p : SPEPhase) (pr u : Rat) : ∀ d ∈ get_solver_options_denoms p pr u, d ≠ 0 := by
  intro d hd
  simp only [get_solver_options_denoms, List.mem_cons, List.mem_nil_iff, or_false] at hd
  rcases hd with rfl
  norm_num

/-! ### The generated multi-metric selector refines the stage specification -/

/-- The generated selector IS the documented decision table over the two progress fractions. -/
theorem mm_phase_eq_mmSpec (thr : Bool) (b n f o : Int) :
    identify_multimetric_phase thr b n f o = mmSpec thr (served b n f o) (completed b n f o) n := by
  rfl

theorem mmSpec_eq_stage (thr : Bool) (s c : Rat) (n : Int) :
    mmSpec thr s c n = mmOfStage thr s n (mmStage thr s c) := by
  unfold mmSpec mmStage
  split_ifs <;> simp [mmOfStage, parityLabel, *]

theorem mm_phase_eq_spec (thr : Bool) (b n f o : Int) :
    identify_multimetric_phase thr b n f o =
      mmOfStage thr (served b n f o) n (mmStage thr (served b n f o) (completed b n f o)) := by
  rw [mm_phase_eq_mmSpec, mmSpec_eq_stage]

/-! ### Monotone progress -/

theorem served_mono (b f o n n' : Int) (h : n ≤ n') : served b n f o ≤ served b n' f o := by
  unfold served
  have hb := adjustedBudget_cast_pos b f o
  apply div_le_div_of_nonneg_right _ (le_of_lt hb)
  exact_mod_cast (by omega : n + o ≤ n' + o)

theorem completed_mono (b f o n n' : Int) (h : n ≤ n') : completed b n f o ≤ completed b n' f o := by
  unfold completed
  have hb := adjustedBudget_cast_pos b f o
  apply div_le_div_of_nonneg_right _ (le_of_lt hb)
  exact_mod_cast h

/-- stages after initialisation, as a function of the served fraction only -/
def lateStage (thr : Bool) (s : Rat) : Nat :=
  if s ≤ fOne then 1 else if s ≤ fRandom then 2 else if s ≤ fSpread then 3
  else if s ≤ fPolish thr then 4 else if s ≤ fEps then 5 else 6

theorem lateStage_mono (thr : Bool) (s s' : Rat) (h : s ≤ s') : lateStage thr s ≤ lateStage thr s' := by
  unfold lateStage
  split_ifs <;> first | omega | (exfalso; linarith)

theorem mmStage_eq (thr : Bool) (s c : Rat) :
    mmStage thr s c = if s ≤ fInit ∨ c ≤ fInitCompleted then 0 else lateStage thr s := by
  unfold mmStage lateStage; rfl

theorem mmStage_mono (thr : Bool) (s s' c c' : Rat) (hs : s ≤ s') (hc : c ≤ c') :
    mmStage thr s c ≤ mmStage thr s' c' := by
  rw [mmStage_eq, mmStage_eq]
  by_cases h' : s' ≤ fInit ∨ c' ≤ fInitCompleted
  · have h : s ≤ fInit ∨ c ≤ fInitCompleted := by
      rcases h' with h' | h'
      · left; linarith
      · right; linarith
    rw [if_pos h, if_pos h']
  · by_cases h : s ≤ fInit ∨ c ≤ fInitCompleted
    · rw [if_pos h]; exact Nat.zero_le _
    · rw [if_neg h, if_neg h']; exact lateStage_mono thr s s' hs

/-- Phases advance monotonically with the observation count (everything else fixed): the stage
    through the documented fractions never goes back. -/
theorem mm_phase_mono (thr : Bool) (b f o n n' : Int) (h : n ≤ n') :
    mmStage thr (served b n f o) (completed b n f o) ≤ mmStage thr (served b n' f o) (completed b n' f o) :=
  mmStage_mono thr _ _ _ _ (served_mono b f o n n' h) (completed_mono b f o n n' h)

theorem mmStage_le_six (thr : Bool) (s c : Rat) : mmStage thr s c ≤ 6 := by
  unfold mmStage; split_ifs <;> omega

theorem search_phase_mono (b o f n n' : Int) (h : n ≤ n') :
    searchRank (identify_search_phase b n o f) ≤ searchRank (identify_search_phase b n' o f) := by
  have hs := served_mono b f o n n' h
  simp only [served, adjustedBudget] at hs
  simp only [identify_search_phase]
  split_ifs <;> simp only [searchRank] <;> first | omega | (exfalso; linarith)

/-! ### The fraction handed to the weight / epsilon builders lies in [0, 1] -/

theorem frac_unit (a b s : Rat) (h1 : a < s) (h2 : s ≤ b) :
    0 ≤ (s - a) / (b - a) ∧ (s - a) / (b - a) ≤ 1 := by
  have hb : 0 < b - a := by linarith
  constructor
  · apply div_nonneg <;> linarith
  · rw [div_le_one hb]; linarith

theorem fraction_in_unit (thr : Bool) (b n f o : Int) (x : Rat)
    (h : (identify_multimetric_phase thr b n f o).2 = some x) : 0 ≤ x ∧ x ≤ 1 := by
  rw [mm_phase_eq_spec] at h
  generalize served b n f o = s at h
  generalize completed b n f o = c at h
  unfold mmStage at h
  split_ifs at h with h0 h1 h2 h3 h4 h5 <;> simp only [mmOfStage, reduceCtorEq, Option.some.injEq] at h
  · subst h; exact frac_unit _ _ _ (by linarith) h2
  · subst h; exact frac_unit _ _ _ (by linarith) h3
  · subst h; exact frac_unit _ _ _ (by linarith) h5

/-! ### Weights and epsilon -/

theorem gen_border : border = 1 / 10 := by norm_num [border]

theorem weightIndex_le_100 (f : Rat) (h0 : 0 ≤ f) (h1 : f ≤ 1) : weightIndex f ≤ 100 := by
  unfold weightIndex
  have h : ⌊(100 * f : ℚ)⌋ ≤ 100 := by
    have h2 : (100 * f : ℚ) ≤ ((100 : Int) : ℚ) := by push_cast; linarith
    have := Int.floor_le_floor h2
    rwa [Int.floor_intCast] at this
  have h' : (100 * f).floor ≤ 100 := h
  omega

theorem gridPoint_range (i : Nat) (h : i ≤ 100) : 1 / 10 ≤ gridPoint i ∧ gridPoint i ≤ 9 / 10 := by
  unfold gridPoint
  rw [gen_border]
  have h0 : (0 : Rat) ≤ (i : Rat) := by positivity
  have h1 : (i : Rat) ≤ 100 := by exact_mod_cast h
  constructor <;> nlinarith

/-- the derived convex weights are two numbers in [0.1, 0.9] summing to 1 -/
theorem weights_range_sum (f : Rat) (h0 : 0 ≤ f) (h1 : f ≤ 1) :
    1 / 10 ≤ (gridWeights f).1 ∧ (gridWeights f).1 ≤ 9 / 10 ∧
    1 / 10 ≤ (gridWeights f).2 ∧ (gridWeights f).2 ≤ 9 / 10 ∧
    (gridWeights f).1 + (gridWeights f).2 = 1 := by
  obtain ⟨a, b⟩ := gridPoint_range _ (weightIndex_le_100 f h0 h1)
  unfold gridWeights
  refine ⟨a, b, by linarith, by linarith, by ring⟩

theorem epsilon_range (f : Rat) (h0 : 0 ≤ f) (h1 : f ≤ 1) : 1 / 10 ≤ epsilonOf f ∧ epsilonOf f ≤ 9 / 10 :=
  gridPoint_range _ (weightIndex_le_100 f h0 h1)

/-- random-spread phase: whatever Halton value in [0,1] is drawn, the weights obey the same contract -/
theorem halton_weights_range_sum (h : Rat) (h0 : 0 ≤ h) (h1 : h ≤ 1) :
    1 / 10 ≤ (haltonWeights h).1 ∧ (haltonWeights h).1 ≤ 9 / 10 ∧
    1 / 10 ≤ (haltonWeights h).2 ∧ (haltonWeights h).2 ≤ 9 / 10 ∧
    (haltonWeights h).1 + (haltonWeights h).2 = 1 := by
  unfold haltonWeights
  simp only
  rw [gen_border]
  refine ⟨by nlinarith, by nlinarith, by nlinarith, by nlinarith, by ring⟩

def speSpec (sp tp prop : Rat) : SPEPhase :=
  if sp < 3 / 20 ∧ ¬ (tp > 2 * (3 / 20) ∧ prop > 1 / 10) then .INITIALIZATION_PHASE
  else if sp < 3 / 4 then .SKO_PHASE else .COMPLETION_PHASE

theorem spe_eq_spec (b n f : Int) :
    get_experiment_phase b n f =
      (speSpec (((n - f : Int) : Rat) / (b : Rat)) ((n : Rat) / (b : Rat)) (1 - (f : Rat) / ((1 + n : Int) : Rat)),
       ((n - f : Int) : Rat) / (b : Rat)) := by
  simp only [get_experiment_phase, speSpec]
  norm_num

theorem speSpec_mono (sp sp' tp tp' q q' : Rat) (h1 : sp ≤ sp') (h2 : tp ≤ tp') (h3 : q ≤ q') :
    speRank (speSpec sp tp q) ≤ speRank (speSpec sp' tp' q') := by
  unfold speSpec
  by_cases hP' : sp' < 3 / 20 ∧ ¬ (tp' > 2 * (3 / 20) ∧ q' > 1 / 10)
  · have hP : sp < 3 / 20 ∧ ¬ (tp > 2 * (3 / 20) ∧ q > 1 / 10) := by
      refine ⟨by linarith [hP'.1], fun hc => hP'.2 ⟨by linarith [hc.1], by linarith [hc.2]⟩⟩
    rw [if_pos hP, if_pos hP']
  · rw [if_neg hP']
    by_cases hP : sp < 3 / 20 ∧ ¬ (tp > 2 * (3 / 20) ∧ q > 1 / 10)
    · rw [if_pos hP]; simp [speRank]
    · rw [if_neg hP]
      split_ifs <;> simp only [speRank] <;> first | omega | (exfalso; linarith)

theorem solver_gamma_range (p : SPEPhase) (pr u : Rat) (h0 : 0 ≤ pr) (h1 : p = .SKO_PHASE → pr < 3 / 4) :
    0 < (get_solver_options p pr u).1 ∧ (get_solver_options p pr u).1 < 1 := by
  simp only [get_solver_options]
  split_ifs with h
  · have := h1 h
    constructor <;> (norm_num; linarith)
  · constructor <;> norm_num

/-- 0 < γ < 1 whatever phase and progress the Parzen selector produced -/
theorem gamma_range (b n f : Int) (hb : 0 < b) (hfn : f ≤ n) (u : Rat) :
    0 < (get_solver_options (get_experiment_phase b n f).1 (get_experiment_phase b n f).2 u).1 ∧
    (get_solver_options (get_experiment_phase b n f).1 (get_experiment_phase b n f).2 u).1 < 1 := by
  have hbq : (0 : Rat) < (b : Rat) := by exact_mod_cast hb
  have hp : (0 : Rat) ≤ ((n - f : Int) : Rat) / (b : Rat) := by
    apply div_nonneg _ (le_of_lt hbq); exact_mod_cast (by omega : 0 ≤ n - f)
  rw [spe_eq_spec]
  apply solver_gamma_range _ _ _ hp
  intro h
  simp only [speSpec] at h
  split_ifs at h <;> first | assumption | (exfalso; exact absurd h (by decide))

/-- Adding a successful observation never moves the Parzen phase backwards. -/
theorem spe_phase_mono (b n f : Int) (hb : 0 < b) (hf : 0 ≤ f) (hfn : f ≤ n) :
    speRank (get_experiment_phase b n f).1 ≤ speRank (get_experiment_phase b (n + 1) f).1 := by
  have hbq : (0 : Rat) < (b : Rat) := by exact_mod_cast hb
  have h1 : ((n - f : Int) : Rat) / (b : Rat) ≤ ((n + 1 - f : Int) : Rat) / (b : Rat) := by
    apply div_le_div_of_nonneg_right _ (le_of_lt hbq); exact_mod_cast (by omega : n - f ≤ n + 1 - f)
  have h2 : ((n : Int) : Rat) / (b : Rat) ≤ ((n + 1 : Int) : Rat) / (b : Rat) := by
    apply div_le_div_of_nonneg_right _ (le_of_lt hbq); exact_mod_cast (by omega : n ≤ n + 1)
  have hfq : (0 : Rat) ≤ (f : Rat) := by exact_mod_cast hf
  have hn1 : (0 : Rat) < ((1 + n : Int) : Rat) := by exact_mod_cast (by omega : 0 < 1 + n)
  have h3 : (f : Rat) / ((1 + (n + 1) : Int) : Rat) ≤ (f : Rat) / ((1 + n : Int) : Rat) := by
    apply div_le_div_of_nonneg_left hfq hn1; exact_mod_cast (by omega : 1 + n ≤ 1 + (n + 1))
  rw [spe_eq_spec, spe_eq_spec]
  exact speSpec_mono _ _ _ _ _ _ h1 h2 (by linarith)

/-- the proposal factor is 1 in the model-based phase and the drawn number otherwise -/
theorem proposal_factor_rule (p : SPEPhase) (pr u : Rat) :
    (get_solver_options p pr u).2 = if p = .SKO_PHASE then 1 else u := by
  simp only [get_solver_options]

/-! ### Filters: equally long outputs built from the right columns; inputs are values (never mutated) -/

theorem keepNot_length_eq {α β} (xs : List α) (ys : List β) (m : List Bool) (h : xs.length = ys.length) :
    (keepNot xs m).length = (keepNot ys m).length := by
  induction xs generalizing ys m with
  | nil => cases ys <;> simp_all [keepNot]
  | cons x xs ih =>
    cases ys with
    | nil => simp at h
    | cons y ys =>
      cases m with
      | nil => simp [keepNot]
      | cons b m =>
        simp only [List.length_cons, Nat.add_right_cancel_iff] at h
        cases b <;> simp [keepNot, ih ys m h]

theorem overwrite_length (v : Rat) (xs : List Rat) (m : List Bool) : (overwrite v xs m).length = xs.length := by
  induction xs generalizing m with
  | nil => cases m <;> simp [overwrite]
  | cons x xs ih => cases m <;> simp [overwrite, ih]

theorem filter_lengths_simple (opt : Nat) (w : Rat × Rat) (pts : List (List Rat)) (vals vars : List (Rat × Rat))
    (lies : Rat × Rat) (h1 : pts.length = vals.length) (h2 : vals.length = vars.length) :
    let a := filterNotMultimetric pts vals vars lies
    let b := filterOneMetric opt pts vals vars lies
    let c := filterConvex w pts vals vars lies
    let d := filterSumOfGps pts vals vars lies
    (a.points.length = a.values.length ∧ a.values.length = a.vars.length) ∧
    (b.points.length = b.values.length ∧ b.values.length = b.vars.length) ∧
    (c.points.length = c.values.length ∧ c.values.length = c.vars.length) ∧
    (d.points.length = d.values.length ∧ d.values.length = d.vars.length) := by
  simp [filterNotMultimetric, filterOneMetric, filterConvex, filterSumOfGps, h1, h2]

theorem filter_lengths_masked (opt : Nat) (mask : List Bool) (pts : List (List Rat)) (vals vars : List (Rat × Rat))
    (lies : Rat × Rat) (h1 : pts.length = vals.length) (h2 : vals.length = vars.length) :
    let g := filterProbFailure opt mask pts vals vars lies
    let e := filterEpsilon opt mask pts vals vars lies
    (g.points.length = g.values.length ∧ g.values.length = g.vars.length) ∧
    (e.points.length = e.values.length ∧ e.values.length = e.vars.length) := by
  simp only [filterProbFailure, filterEpsilon]
  refine ⟨⟨keepNot_length_eq _ _ _ (by simp [h1]), keepNot_length_eq _ _ _ (by simp [h2])⟩, ?_, ?_⟩
  · rw [overwrite_length]; simp [h1]
  · rw [overwrite_length]; simp [h2]

/-- columns: one-metric mode reads column `optimizing_metric` of values, variances and lies -/
theorem filter_columns_one (opt : Nat) (pts : List (List Rat)) (vals vars : List (Rat × Rat)) (lies : Rat × Rat)
    (i : Nat) (hi : i < vals.length) (hv : i < vars.length) :
    ((filterOneMetric opt pts vals vars lies).values[i]'(by simp [filterOneMetric, hi])) = col opt vals[i] ∧
    ((filterOneMetric opt pts vals vars lies).vars[i]'(by simp [filterOneMetric, hv])) = col opt vars[i] ∧
    (filterOneMetric opt pts vals vars lies).lie = col opt lies ∧
    (filterOneMetric opt pts vals vars lies).points = pts := by
  simp [filterOneMetric]

/-- weighted sum = Σ wᵢ·colᵢ for values and lie, Σ wᵢ²·varᵢ for variances -/
theorem filter_columns_convex (w : Rat × Rat) (pts : List (List Rat)) (vals vars : List (Rat × Rat)) (lies : Rat × Rat)
    (i : Nat) (hi : i < vals.length) (hv : i < vars.length) :
    ((filterConvex w pts vals vars lies).values[i]'(by simp [filterConvex, hi])) = vals[i].1 * w.1 + vals[i].2 * w.2 ∧
    ((filterConvex w pts vals vars lies).vars[i]'(by simp [filterConvex, hv])) = vars[i].1 * w.1 ^ 2 + vars[i].2 * w.2 ^ 2 ∧
    (filterConvex w pts vals vars lies).lie = lies.1 * w.1 + lies.2 * w.2 := by
  simp [filterConvex]

/-- sum-of-GPs mode keeps both metric columns untouched -/
theorem filter_columns_sum_of_gps (pts : List (List Rat)) (vals vars : List (Rat × Rat)) (lies : Rat × Rat) :
    (filterSumOfGps pts vals vars lies).values = vals ∧ (filterSumOfGps pts vals vars lies).vars = vars ∧
    (filterSumOfGps pts vals vars lies).points = pts ∧ (filterSumOfGps pts vals vars lies).lie = lies := by
  simp [filterSumOfGps]

theorem mem_keepNot {α} (xs : List α) (m : List Bool) (x : α) (h : x ∈ keepNot xs m) : x ∈ xs := by
  induction xs generalizing m with
  | nil => cases m <;> simp [keepNot] at h
  | cons y ys ih =>
    cases m with
    | nil => simp [keepNot] at h
    | cons b m =>
      cases b
      · simp only [keepNot, Bool.false_eq_true, if_false, List.mem_cons] at h
        rcases h with rfl | h
        · exact List.mem_cons_self ..
        · exact List.mem_cons_of_mem _ (ih m h)
      · simp only [keepNot, if_true] at h
        exact List.mem_cons_of_mem _ (ih m h)

/-- GP variant: the flagged rows are removed, every kept value is a value of the optimising column -/
theorem filter_gp_drops_violators (opt : Nat) (mask : List Bool) (pts : List (List Rat)) (vals vars : List (Rat × Rat))
    (lies : Rat × Rat) (h : mask.length = vals.length) :
    (filterProbFailure opt mask pts vals vars lies).values.length = (mask.filter (! ·)).length ∧
    ∀ v ∈ (filterProbFailure opt mask pts vals vars lies).values, ∃ p ∈ vals, v = col opt p := by
  constructor
  · simp only [filterProbFailure]
    generalize hxs : vals.map (col opt) = xs
    have hl : mask.length = xs.length := by rw [← hxs]; simpa using h
    clear hxs h
    induction xs generalizing mask with
    | nil => cases mask <;> simp_all [keepNot]
    | cons x xs ih =>
      cases mask with
      | nil => simp at hl
      | cons b m =>
        simp only [List.length_cons, Nat.add_right_cancel_iff] at hl
        cases b <;> simp [keepNot, ih m hl]
  · intro v hv
    have := mem_keepNot _ _ _ hv
    simp only [List.mem_map] at this
    obtain ⟨p, hp, rfl⟩ := this
    exact ⟨p, hp, rfl⟩

/-- Parzen variant: flagged rows carry exactly the lie value, the others their own value -/
theorem filter_spe_overwrites (v : Rat) (xs : List Rat) (m : List Bool) (i : Nat) (hi : i < xs.length)
    (hm : m.length = xs.length) :
    (overwrite v xs m)[i]'(by rw [overwrite_length]; exact hi) = if m[i]'(by omega) then v else xs[i] := by
  induction xs generalizing m i with
  | nil => simp at hi
  | cons x xs ih =>
    cases m with
    | nil => simp at hm
    | cons b m =>
      simp only [List.length_cons, Nat.add_right_cancel_iff] at hm
      cases i with
      | zero => simp [overwrite]
      | succ i => simp only [overwrite, List.getElem_cons_succ]; exact ih m i (by simpa using hi) hm

/-! ### Why float division agrees with the exact selectors away from astronomically large budgets -/

/-- An exact progress fraction `a/b` and a documented threshold `p/q` are either equal or at least `1/(b·q)` apart.
    (A correctly rounded float quotient is within relative 2⁻⁵³ of `a/b` and the float literal within 2⁻⁵³ of `p/q`,
    so the float comparison can only differ from the exact one when `b·q` exceeds about 2⁵¹; at equality both
    sides round to the same float.  The section after this one turns that argument into theorems.) -/
theorem threshold_gap (a b p q : Int) (hb : 0 < b) (hq : 0 < q) (hne : a * q ≠ p * b) :
    (1 : Rat) / ((b * q : Int) : Rat) ≤ |(a : Rat) / (b : Rat) - (p : Rat) / (q : Rat)| := by
  have hbq : (0 : Rat) < (b : Rat) := by exact_mod_cast hb
  have hqq : (0 : Rat) < (q : Rat) := by exact_mod_cast hq
  have e : (a : Rat) / (b : Rat) - (p : Rat) / (q : Rat) = ((a * q - p * b : Int) : Rat) / ((b * q : Int) : Rat) := by
    push_cast; field_simp
  rw [e, abs_div]
  have hpos : (0 : Rat) < ((b * q : Int) : Rat) := by push_cast; positivity
  rw [abs_of_pos hpos]
  apply div_le_div_of_nonneg_right _ (le_of_lt hpos)
  have hz : (a * q - p * b : Int) ≠ 0 := sub_ne_zero.mpr hne
  have : (1 : Int) ≤ |a * q - p * b| := Int.one_le_abs hz
  exact_mod_cast this

/-! ### Floating point decides the same phase as exact arithmetic

`Gen.<selector>_fl fl …` (Model/Generated/PhasesFl.lean, regenerated from the Python source on every run) is the
selector as CPython evaluates it: one rounding `fl` after every float operation and every decimal literal, integer
arithmetic exact.  For EVERY `fl` with the standard relative error bound (`C14Float.IsRounding`, u = 2⁻⁵³) and all
integer inputs with `|budget| + |count| + |open| + |failures| < 10¹⁴` the floating-point reading returns the same
phase as the exact function the other theorems of this file are about. -/

open C14Float

/-- size side condition of `ratio_agrees` for thresholds with numerator and denominator ≤ 20 -/
theorem size_ok (a m : ℤ) (p q : ℕ) (hp : p ≤ 20) (hq : q ≤ 20) (ha : |a| ≤ 10 ^ 14) (hm : |m| ≤ 10 ^ 14 + 1) :
    |a| * q + p * |m| < 2 ^ 53 := by
  have hq' : (q : ℤ) ≤ 20 := by exact_mod_cast hq
  have hp' : (p : ℤ) ≤ 20 := by exact_mod_cast hp
  have h1 : |a| * q ≤ 10 ^ 14 * 20 := mul_le_mul ha hq' (by positivity) (by norm_num)
  have h2 : (p : ℤ) * |m| ≤ 20 * (10 ^ 14 + 1) := mul_le_mul hp' hm (abs_nonneg m) (by norm_num)
  have h3 : (10 : ℤ) ^ 14 * 20 + 20 * (10 ^ 14 + 1) < 2 ^ 53 := by norm_num
  linarith

/-- the adjusted budget `max (b − f) (max o 1)` is a positive integer of bounded size -/
theorem adjusted_bounds (b f o : ℤ) (K : ℤ) (h : |b| + |f| + |o| ≤ K) :
    max (b - f) (max o 1) ≠ 0 ∧ |max (b - f) (max o 1)| ≤ K + 1 := by
  have hb := abs_le.mp (le_refl |b|)
  have hf := abs_le.mp (le_refl |f|)
  have ho := abs_le.mp (le_refl |o|)
  refine ⟨by omega, abs_le.mpr ⟨by omega, by omega⟩⟩

theorem identify_search_phase_fl_eq (fl : ℝ → ℝ) (h : IsRounding fl) (b n o f : Int)
    (hsize : |b| + |n| + |o| + |f| < 10 ^ 14) :
    identify_search_phase_fl fl b n o f = identify_search_phase b n o f := by
  obtain ⟨hm, hmabs⟩ := adjusted_bounds b f o (10 ^ 14) (by have := abs_nonneg n; omega)
  have ha : |n + o| ≤ 10 ^ 14 := by
    have hn := abs_le.mp (le_refl |n|)
    have ho := abs_le.mp (le_refl |o|)
    have := abs_nonneg b; have := abs_nonneg f
    exact abs_le.mpr ⟨by omega, by omega⟩
  have k1 := ratio_agrees h (n + o) _ 1 5 hm (by norm_num) (size_ok _ _ 1 5 (by norm_num) (by norm_num) ha hmabs)
  have k2 := ratio_agrees h (n + o) _ 2 5 hm (by norm_num) (size_ok _ _ 2 5 (by norm_num) (by norm_num) ha hmabs)
  simp only [Nat.cast_ofNat, Nat.cast_one] at k1 k2
  simp only [identify_search_phase_fl, identify_search_phase, k1.le, k2.le]

theorem identify_multimetric_phase_fl_eq (fl : ℝ → ℝ) (h : IsRounding fl) (thr : Bool) (b n f o : Int)
    (hsize : |b| + |n| + |f| + |o| < 10 ^ 14) :
    (identify_multimetric_phase_fl fl thr b n f o).1 = (identify_multimetric_phase thr b n f o).1 := by
  obtain ⟨hm, hmabs⟩ := adjusted_bounds b f o (10 ^ 14) (by have := abs_nonneg n; omega)
  have hn := abs_le.mp (le_refl |n|)
  have ho := abs_le.mp (le_refl |o|)
  have hb0 := abs_nonneg b
  have hf0 := abs_nonneg f
  have ha : |n + o| ≤ 10 ^ 14 := abs_le.mpr ⟨by omega, by omega⟩
  have hc : |n| ≤ 10 ^ 14 := by omega
  have s (p q : ℕ) (hp : p ≤ 20) (hq : q ≤ 20) (hq0 : 0 < q) :=
    ratio_agrees h (n + o) _ p q hm hq0 (size_ok _ _ p q hp hq ha hmabs)
  have k1 := s 3 20 (by norm_num) (by norm_num) (by norm_num)
  have k2 := s 3 10 (by norm_num) (by norm_num) (by norm_num)
  have k3 := s 9 20 (by norm_num) (by norm_num) (by norm_num)
  have k4 := s 11 20 (by norm_num) (by norm_num) (by norm_num)
  have k5 := s 13 20 (by norm_num) (by norm_num) (by norm_num)
  have k6 := s 19 20 (by norm_num) (by norm_num) (by norm_num)
  have kc := ratio_agrees h n _ 1 10 hm (by norm_num) (size_ok _ _ 1 10 (by norm_num) (by norm_num) hc hmabs)
  simp only [Nat.cast_ofNat, Nat.cast_one] at k1 k2 k3 k4 k5 k6 kc
  cases thr <;>
    simp only [identify_multimetric_phase_fl, identify_multimetric_phase, Bool.false_eq_true, if_false, if_true,
      k1.le, k2.le, k3.le, k4.le, k5.le, k6.le, kc.le] <;>
    split_ifs <;> rfl

/-- The Parzen selector.  Besides the error bound it needs the two facts `SPEDoubles` about concrete doubles
    (`2 * 0.15 == 0.3` and `1 - 0.9 <= 0.1`): its thresholds `2 * 0.15` and the quantity `1 - failures/(1+count)`
    are themselves computed in floating point, and when the exact fraction sits exactly on the threshold the
    outcome is decided by how those constants round (see `spe_needs_two_mul_limit`, `spe_needs_one_sub_nine_tenths`).  `b ≠ 0`, `1 + n ≠ 0` are
    the conditions under which Python does not raise ZeroDivisionError. -/
theorem get_experiment_phase_fl_eq (fl : ℝ → ℝ) (h : IsRounding fl) (hd : SPEDoubles fl) (b n f : Int)
    (hb : b ≠ 0) (hn : 1 + n ≠ 0) (hsize : |b| + |n| + |f| < 10 ^ 14) :
    (get_experiment_phase_fl fl b n f).1 = (get_experiment_phase b n f).1 := by
  have hn' := abs_le.mp (le_refl |n|)
  have hf' := abs_le.mp (le_refl |f|)
  have hb0 := abs_nonneg b
  have hnf : |n - f| ≤ 10 ^ 14 := abs_le.mpr ⟨by omega, by omega⟩
  have hn1 : |1 + n| ≤ 10 ^ 14 + 1 := abs_le.mpr ⟨by omega, by omega⟩
  have hbb : |b| ≤ 10 ^ 14 + 1 := by omega
  have hnn : |n| ≤ 10 ^ 14 := by omega
  have k1 := ratio_agrees h (n - f) b 3 20 hb (by norm_num) (size_ok _ _ 3 20 (by norm_num) (by norm_num) hnf hbb)
  have k2 := ratio_agrees h (n - f) b 3 4 hb (by norm_num) (size_ok _ _ 3 4 (by norm_num) (by norm_num) hnf hbb)
  have k3 := ratio_agrees h n b 3 10 hb (by norm_num) (size_ok _ _ 3 10 (by norm_num) (by norm_num) hnn hbb)
  have k4 := one_sub_ratio_gt h hd.one_sub_nine_tenths f (1 + n) hn (by
    have : |f| ≤ 10 ^ 14 := by omega
    have h3 : 11 * ((10 : ℤ) ^ 14 + 1) + 30 * 10 ^ 14 < 2 ^ 53 := by norm_num
    linarith)
  simp only [Nat.cast_ofNat] at k1 k2 k3
  have e : (2 : ℚ) * (3 / 20) = 3 / 10 := by norm_num
  simp only [get_experiment_phase_fl, get_experiment_phase, Int.cast_one, Int.cast_ofNat, hd.two_mul_limit, e,
    k1.lt, k2.lt, k3.gt, k4]

/-! ### The two facts about doubles are needed

The relative-error bound alone does not decide the Parzen selector: each of the following roundings satisfies
`IsRounding` (it is exact except at one constant, which it rounds down by one relative unit), and makes the
floating-point reading differ from the exact selector at small counts.  In binary64 neither happens
(`2 * 0.15 == 0.3`; `1 - 9/10 = 0.09999999999999998 ≤ 0.1`), which is what `SPEDoubles` records. -/

/-- budget 20, 6 observations, 4 failures: `total_progress = 0.3` sits exactly on the computed threshold `2 * 0.15` -/
theorem spe_needs_two_mul_limit : ∃ fl : ℝ → ℝ, IsRounding fl ∧
    (get_experiment_phase_fl fl 20 6 4).1 ≠ (get_experiment_phase 20 6 4).1 := by
  refine ⟨pert (3 / 20), isRounding_pert _, ?_⟩
  have hu : unitRoundoff = 1 / 2 ^ 53 := rfl
  have e1 : pert (3 / 20) ((((6 - 4 : ℤ) : ℤ) : ℝ) / ((20 : ℤ) : ℝ)) = 1 / 10 := by
    rw [pert_of_ne (by norm_num)]; norm_num
  have e2 : pert (3 / 20) (((6 : ℤ) : ℝ) / ((20 : ℤ) : ℝ)) = 3 / 10 := by
    rw [pert_of_ne (by norm_num)]; norm_num
  have e3 : pert (3 / 20) (((4 : ℤ) : ℝ) / (((1 + 6 : ℤ) : ℤ) : ℝ)) = 4 / 7 := by
    rw [pert_of_ne (by norm_num)]; norm_num
  have e4 : pert (3 / 20) (((1 : ℤ) : ℝ) - 4 / 7) = 3 / 7 := by
    rw [pert_of_ne (by norm_num)]; norm_num
  have e5 : pert (3 / 20) (((2 : ℤ) : ℝ) * (3 / 20 * (1 - unitRoundoff))) = 3 / 10 * (1 - unitRoundoff) := by
    rw [pert_of_ne (by rw [hu]; norm_num)]; push_cast; ring
  have e6 : pert (3 / 20) ((1 : ℝ) / 10) = 1 / 10 := pert_of_ne (by norm_num)
  have e7 : pert (3 / 20) ((3 : ℝ) / 4) = 3 / 4 := pert_of_ne (by norm_num)
  have hfl : (get_experiment_phase_fl (pert (3 / 20)) 20 6 4).1 = .SKO_PHASE := by
    simp only [get_experiment_phase_fl, e1, e2, e3, e4, pert_self, e5, e6, e7]
    rw [if_neg (by rw [hu]; norm_num), if_pos (by norm_num)]
  have hex : (get_experiment_phase 20 6 4).1 = .INITIALIZATION_PHASE := by decide +kernel
  rw [hfl, hex]; decide

/-- budget 20, 9 observations, 9 failures: `1 - 9/10 = 0.1` sits exactly on the success threshold -/
theorem spe_needs_one_sub_nine_tenths : ∃ fl : ℝ → ℝ, IsRounding fl ∧
    (get_experiment_phase_fl fl 20 9 9).1 ≠ (get_experiment_phase 20 9 9).1 := by
  refine ⟨pert (9 / 10), isRounding_pert _, ?_⟩
  have hu : unitRoundoff = 1 / 2 ^ 53 := rfl
  have e1 : pert (9 / 10) ((((9 - 9 : ℤ) : ℤ) : ℝ) / ((20 : ℤ) : ℝ)) = 0 := by
    rw [pert_of_ne (by norm_num)]; norm_num
  have e2 : pert (9 / 10) (((9 : ℤ) : ℝ) / ((20 : ℤ) : ℝ)) = 9 / 20 := by
    rw [pert_of_ne (by norm_num)]; norm_num
  have e3 : pert (9 / 10) (((9 : ℤ) : ℝ) / (((1 + 9 : ℤ) : ℤ) : ℝ)) = 9 / 10 * (1 - unitRoundoff) := by
    have : ((9 : ℤ) : ℝ) / (((1 + 9 : ℤ) : ℤ) : ℝ) = 9 / 10 := by norm_num
    rw [this, pert_self]
  have e4 : pert (9 / 10) (((1 : ℤ) : ℝ) - 9 / 10 * (1 - unitRoundoff)) = 1 / 10 + 9 / 10 * unitRoundoff := by
    rw [pert_of_ne (by rw [hu]; norm_num)]; push_cast; ring
  have e5 : pert (9 / 10) ((3 : ℝ) / 20) = 3 / 20 := pert_of_ne (by norm_num)
  have e6 : pert (9 / 10) (((2 : ℤ) : ℝ) * (3 / 20)) = 3 / 10 := by
    rw [pert_of_ne (by norm_num)]; norm_num
  have e7 : pert (9 / 10) ((1 : ℝ) / 10) = 1 / 10 := pert_of_ne (by norm_num)
  have e8 : pert (9 / 10) ((3 : ℝ) / 4) = 3 / 4 := pert_of_ne (by norm_num)
  have hfl : (get_experiment_phase_fl (pert (9 / 10)) 20 9 9).1 = .SKO_PHASE := by
    simp only [get_experiment_phase_fl, e1, e2, e3, e4, e5, e6, e7, e8]
    rw [if_neg (by rw [hu]; norm_num), if_pos (by norm_num)]
  have hex : (get_experiment_phase 20 9 9).1 = .INITIALIZATION_PHASE := by decide +kernel
  rw [hfl, hex]; decide

/-! ### Non-vacuity -/

/-- the hypotheses of the three theorems are satisfiable (exact arithmetic is a rounding) … -/
example : IsRounding id ∧ SPEDoubles id := ⟨isRounding_id, speDoubles_id⟩

/-- … and the floating-point readings are really functions of `fl` that reach a late phase -/
example : (get_experiment_phase_fl id 20 16 1).1 = .COMPLETION_PHASE := by
  rw [get_experiment_phase_fl_eq id isRounding_id speDoubles_id 20 16 1 (by decide) (by decide) (by decide)]
  decide +kernel

example : (identify_multimetric_phase false 100 40 0 0).1 = .CONVEX_COMBINATION_RANDOM_SPREAD := by decide +kernel
example : mmStage false (served 100 40 0 0) (completed 100 40 0 0) = 2 := by decide +kernel
example : (identify_multimetric_phase true 10 3 12 0).1 = .COMPLETION := by decide +kernel
example : weightIndex (2 / 3) = 66 := by decide +kernel

end C14
