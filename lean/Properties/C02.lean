/-
  C02 — the GP posterior equals the exact conditional Gaussian of the stated model.
  Property theorems only (definitions: Proofs/C02Matrix.lean `C02.Spec`, helper lemmas there and in
  Proofs/C02Bridge.lean).

  Part I   theorems about the closed-form expressions over an ARBITRARY field `𝕜`, arbitrary finite
           index types (any number of observations, polynomial terms, query points, GP components);
           order statements over any ordered field with trivial star (ℚ – what the driver runs – and ℝ).
           The only hypotheses are the ones the driver certifies exactly on every input
           (`A * Ainv = 1`, `Aᵀ = A`, `A = L D Lᵀ`, `D > 0`, `G * Ginv = 1`) plus, for the semidefinite
           statements, that the joint kernel Gram matrix of observed + query points is positive
           semidefinite.  That hypothesis is stated abstractly in Parts I–II and DISCHARGED for
           libsigopt's kernels in Part IV (it is C03).
  Part II  the same statements about the executable model `Model/C02.lean` (`predict`), obtained
           through the bridge `toM`/`toV`; hypothesis: the Boolean `Pre.certified … = true`.
  Part III floor, lie data, generated constants.
  Part IV  composition with C03 (over ℝ): for every radial kernel (square exponential, C0/C2/C4 Matérn;
           any dimension, length scales, points, alpha ≥ 0) and for the multitask tensor kernel the
           joint matrix IS positive semidefinite (`radial_joint_posSemidef`, `multitask_joint_posSemidef`),
           so posterior covariance PSD / variance ≥ 0 hold with only `A * Ainv = 1` and `A.PosDef` left
           (`radial_post_cov_posSemidef`, `radial_post_var_nonneg`), and with only `A * Ainv = 1` left
           when every noise variance is > 0 (`radial_post_var_nonneg_of_noise_pos`).
           Not composed: the executable ℚ-model of Part II.  Its kernel matrices are rational inputs
           (the floats the library computed), whereas the kernel values are `exp`/`sqrt` expressions,
           irrational except in degenerate cases; relating the two exactly is impossible and relating
           them approximately needs a rounding-error analysis (PSD is not stable under rounding), so
           `model_cov_posSemidef` / `model_var_nonneg` keep `hJ` as a hypothesis.
-/
import Proofs.C02Matrix
import Proofs.C02Bridge
import Proofs.ListMinMax
import Proofs.C02Kernel
import Properties.C03
import Mathlib.Data.Rat.Star
import Mathlib.Algebra.Order.Star.Real
import Mathlib.Tactic.NormNum

set_option linter.unusedSectionVars false
set_option linter.overlappingInstances false
set_option linter.unusedSimpArgs false

namespace C02
open Matrix
namespace Spec

variable {n n' p q q' c : Type*} [Fintype n] [Fintype n'] [Fintype p] [Fintype q] [Fintype q'] [Fintype c]
variable [DecidableEq n] [DecidableEq n'] [DecidableEq p] [DecidableEq q] [DecidableEq c]
variable {𝕜 : Type*} [Field 𝕜]

/-! ## Part I — closed forms -/

/-! ### The mean is the conditional mean with GLS coefficients -/

/-- The code's `K_eval·(K⁻¹y − K⁻¹Pβ) + P_eval·β` is the textbook `p(x)ᵀβ + k(x)ᵀA⁻¹(y − Pβ)`. -/
theorem mean_eq_conditional (Ainv : Matrix n n 𝕜) (y : n → 𝕜) (P : Matrix n p 𝕜) (β : p → 𝕜)
    (Ks : Matrix q n 𝕜) (Ps : Matrix q p 𝕜) :
    mean Ks Ps (weights Ainv y P β) β = Ps *ᵥ β + Ks *ᵥ (Ainv *ᵥ (y - P *ᵥ β)) := by
  simp only [mean, weights, mulVec_sub]
  abel

/-- GLS normal equations: the residual is `A⁻¹`-orthogonal to the polynomial space. -/
theorem gls_normal_eq {Ainv : Matrix n n 𝕜} {Ginv : Matrix p p 𝕜} {P : Matrix n p 𝕜}
    (hG : gram P Ainv * Ginv = 1) (y : n → 𝕜) :
    Pᵀ *ᵥ (Ainv *ᵥ (y - P *ᵥ glsBeta Ginv P Ainv y)) = 0 := by
  have h : Pᵀ *ᵥ (Ainv *ᵥ (P *ᵥ glsBeta Ginv P Ainv y)) = (gram P Ainv * Ginv) *ᵥ (Pᵀ *ᵥ (Ainv *ᵥ y)) := by
    simp only [glsBeta, gram, mulVec_mulVec, Matrix.mul_assoc]
  rw [mulVec_sub, mulVec_sub, h, hG, one_mulVec, sub_self]

/-- … and they determine the coefficients uniquely. -/
theorem gls_unique {Ainv : Matrix n n 𝕜} {Ginv : Matrix p p 𝕜} {P : Matrix n p 𝕜}
    (hG : gram P Ainv * Ginv = 1) (y : n → 𝕜) (β : p → 𝕜)
    (hβ : Pᵀ *ᵥ (Ainv *ᵥ (y - P *ᵥ β)) = 0) : β = glsBeta Ginv P Ainv y := by
  have hG' : Ginv * gram P Ainv = 1 := left_inv_of_right_inv hG
  have h1 : Pᵀ *ᵥ (Ainv *ᵥ y) = gram P Ainv *ᵥ β := by
    rw [mulVec_sub, mulVec_sub, sub_eq_zero] at hβ
    rw [hβ]; simp only [gram, mulVec_mulVec, Matrix.mul_assoc]
  rw [glsBeta, h1, mulVec_mulVec, hG', one_mulVec]

/-- Data that are exactly a polynomial of the basis are fitted exactly. -/
theorem gls_reproduces_polynomial {Ainv : Matrix n n 𝕜} {Ginv : Matrix p p 𝕜} {P : Matrix n p 𝕜}
    (hG : gram P Ainv * Ginv = 1) (coef : p → 𝕜) :
    glsBeta Ginv P Ainv (P *ᵥ coef) = coef := by
  have hG' : Ginv * gram P Ainv = 1 := left_inv_of_right_inv hG
  have : Ginv *ᵥ (Pᵀ *ᵥ (Ainv *ᵥ (P *ᵥ coef))) = (Ginv * gram P Ainv) *ᵥ coef := by
    simp only [gram, mulVec_mulVec, Matrix.mul_assoc]
  rw [glsBeta, this, hG', one_mulVec]

/-! ### Symmetry, both variance / covariance branches agree -/

theorem post_cov_symm {A Ainv : Matrix n n 𝕜} {Kss : Matrix q q 𝕜} (Ks : Matrix q n 𝕜)
    (hA : A * Ainv = 1) (hs : Aᵀ = A) (hK : Kssᵀ = Kss) :
    (cov Kss Ks Ainv)ᵀ = cov Kss Ks Ainv := by
  simp only [cov, transpose_sub, transpose_mul, transpose_transpose, hK, inv_symm hs hA,
    Matrix.mul_assoc]

theorem cov_ldl_eq {A Ainv L Linv : Matrix n n 𝕜} {D Dinv : n → 𝕜} (hA : A * Ainv = 1)
    (hL : L * diagonal D * Lᵀ = A) (hLi : Linv * L = 1) (hD : ∀ j, D j * Dinv j = 1)
    (Kss : Matrix q q 𝕜) (Ks : Matrix q n 𝕜) :
    covLDL Kss Ks Linv Dinv = cov Kss Ks Ainv := by
  have hDm : diagonal D * diagonal Dinv = (1 : Matrix n n 𝕜) := by
    rw [diagonal_mul_diagonal]; simp [hD]
  rw [covLDL, cov, inv_of_factor hA hL hLi hDm]
  simp only [transpose_mul, transpose_transpose, Matrix.mul_assoc]

theorem cov_chol_eq {A Ainv L Linv : Matrix n n 𝕜} (hA : A * Ainv = 1)
    (hL : L * Lᵀ = A) (hLi : Linv * L = 1) (Kss : Matrix q q 𝕜) (Ks : Matrix q n 𝕜) :
    covChol Kss Ks Linv = cov Kss Ks Ainv := by
  have h := cov_ldl_eq (D := fun _ => 1) (Dinv := fun _ => 1) hA (L := L) (by simpa using hL) hLi (by simp) Kss Ks
  rw [← h]
  simp [covLDL, covChol]

/-- Both branches of `_compute_variance_of_points` agree (square-root-free form of the Cholesky
    branch): `Σ_j (L⁻¹k)_j² / D_j = kᵀA⁻¹k`. -/
theorem var_branches_agree_ldl {A Ainv L Linv : Matrix n n 𝕜} {D : n → 𝕜} (hA : A * Ainv = 1)
    (hL : L * diagonal D * Lᵀ = A) (hLi : Linv * L = 1) (hD : ∀ j, D j ≠ 0)
    (kxx : q → 𝕜) (Ks : Matrix q n 𝕜) :
    varLDL kxx Ks Linv D = var kxx Ks Ainv := by
  funext i
  have hD' : ∀ j, D j * (D j)⁻¹ = 1 := fun j => mul_inv_cancel₀ (hD j)
  have e1 := varLDL_eq_covLDL_diag (diagonal kxx) Ks Linv D (fun j => (D j)⁻¹) hD' i
  have e2 := var_eq_cov_diag (diagonal kxx) Ks Ainv i
  simp only [diagonal_apply_eq] at e1 e2
  rw [e1, e2, cov_ldl_eq hA hL hLi hD']

/-- Both branches agree, Cholesky form: `L Lᵀ = A` ⇒ `‖L⁻¹k‖² = kᵀA⁻¹k`. -/
theorem var_branches_agree {A Ainv L Linv : Matrix n n 𝕜} (hA : A * Ainv = 1)
    (hL : L * Lᵀ = A) (hLi : Linv * L = 1) (kxx : q → 𝕜) (Ks : Matrix q n 𝕜) :
    varChol kxx Ks Linv = var kxx Ks Ainv := by
  have h := var_branches_agree_ldl (D := fun _ => 1) hA (L := L) (by simpa using hL) hLi (by simp) kxx Ks
  rw [← h]; funext i; simp [varChol, varLDL]

/-- The pointwise variance is the diagonal of the covariance matrix (entry points agree). -/
theorem var_eq_diag_cov (Kss : Matrix q q 𝕜) (Ks : Matrix q n 𝕜) (Ainv : Matrix n n 𝕜) (i : q) :
    var (fun i => Kss i i) Ks Ainv i = cov Kss Ks Ainv i i := var_eq_cov_diag Kss Ks Ainv i

/-! ### Positive semidefiniteness, non-negative variance -/

section Order
variable {R : Type*} [Field R] [PartialOrder R] [StarRing R] [StarOrderedRing R] [TrivialStar R]

/-- Schur complement: the posterior covariance of a PSD joint kernel matrix is PSD. -/
theorem post_cov_posSemidef {A Ainv : Matrix n n R} {Ks : Matrix q n R} {Kss : Matrix q q R}
    (hA : A * Ainv = 1) (hpd : A.PosDef) (hJ : (fromBlocks A Ksᵀ Ks Kss).PosSemidef) :
    (cov Kss Ks Ainv).PosSemidef := by
  have : Invertible A := hpd.isUnit.invertible
  have hinv : A⁻¹ = Ainv := inv_eq_right_inv hA
  have h := (Matrix.PosDef.fromBlocks₁₁ (Ksᵀ) Kss hpd).mp
    (by simpa [conjTranspose_eq_transpose_of_trivial] using hJ)
  simpa [cov, conjTranspose_eq_transpose_of_trivial, hinv] using h

/-- Noise (or a nugget) `d ≥ 0` on the observed block keeps the joint matrix PSD. -/
theorem joint_posSemidef_of_kernel {K : Matrix n n R} {d : n → R} {Ks : Matrix q n R} {Kss : Matrix q q R}
    (hK : (fromBlocks K Ksᵀ Ks Kss).PosSemidef) (hd : ∀ i, 0 ≤ d i) :
    (fromBlocks (noisy K d) Ksᵀ Ks Kss).PosSemidef := by
  have h2 : (fromBlocks (diagonal d) (0 : Matrix n q R) (0 : Matrix q n R) (0 : Matrix q q R)).PosSemidef := by
    have : fromBlocks (diagonal d) (0 : Matrix n q R) (0 : Matrix q n R) (0 : Matrix q q R)
        = diagonal (Sum.elim d 0) := by
      rw [← fromBlocks_diagonal]; simp
    rw [this]
    exact PosSemidef.diagonal (fun i => by cases i <;> simp [hd])
  have := hK.add h2
  simpa [noisy, fromBlocks_add] using this

theorem post_var_nonneg {A Ainv : Matrix n n R} {Ks : Matrix q n R} {Kss : Matrix q q R}
    (hA : A * Ainv = 1) (hpd : A.PosDef) (hJ : (fromBlocks A Ksᵀ Ks Kss).PosSemidef) (i : q) :
    0 ≤ var (fun i => Kss i i) Ks Ainv i := by
  rw [var_eq_cov_diag]
  exact (post_cov_posSemidef hA hpd hJ).diag_nonneg

end Order

/-! ### Invariance under reordering of the observations -/

/-- Mean is invariant under any simultaneous reordering of the observations, whatever inverses the
    reordered computation uses. -/
theorem mean_perm_invariant (σ : n' ≃ n) {A Ainv : Matrix n n 𝕜} {Ainv' : Matrix n' n' 𝕜}
    {Ginv Ginv' : Matrix p p 𝕜} {P : Matrix n p 𝕜}
    (hA : A * Ainv = 1) (hA' : A.submatrix σ σ * Ainv' = 1)
    (hG : gram P Ainv * Ginv = 1) (hG' : gram (P.submatrix σ id) Ainv' * Ginv' = 1)
    (y : n → 𝕜) (Ks : Matrix q n 𝕜) (Ps : Matrix q p 𝕜) :
    postMean Ainv' Ginv' (y ∘ σ) (P.submatrix σ id) (Ks.submatrix id σ) Ps
      = postMean Ainv Ginv y P Ks Ps := by
  obtain rfl := inv_perm σ hA hA'
  rw [gram_perm] at hG'
  obtain rfl := right_inv_unique hG' hG
  simp only [postMean, glsBeta_perm, weights_perm, mean, mulVec_perm]

theorem poly_coef_perm_invariant (σ : n' ≃ n) {A Ainv : Matrix n n 𝕜} {Ainv' : Matrix n' n' 𝕜}
    {Ginv Ginv' : Matrix p p 𝕜} {P : Matrix n p 𝕜}
    (hA : A * Ainv = 1) (hA' : A.submatrix σ σ * Ainv' = 1)
    (hG : gram P Ainv * Ginv = 1) (hG' : gram (P.submatrix σ id) Ainv' * Ginv' = 1) (y : n → 𝕜) :
    glsBeta Ginv' (P.submatrix σ id) Ainv' (y ∘ σ) = glsBeta Ginv P Ainv y := by
  obtain rfl := inv_perm σ hA hA'
  rw [gram_perm] at hG'
  obtain rfl := right_inv_unique hG' hG
  exact glsBeta_perm ..

theorem mean_zero_perm_invariant (σ : n' ≃ n) {A Ainv : Matrix n n 𝕜} {Ainv' : Matrix n' n' 𝕜}
    (hA : A * Ainv = 1) (hA' : A.submatrix σ σ * Ainv' = 1) (y : n → 𝕜) (Ks : Matrix q n 𝕜) :
    postMeanZero Ainv' (y ∘ σ) (Ks.submatrix id σ) = postMeanZero Ainv y Ks := by
  obtain rfl := inv_perm σ hA hA'
  simp only [postMeanZero, mulVec_perm', mulVec_perm]

theorem cov_perm_invariant (σ : n' ≃ n) {A Ainv : Matrix n n 𝕜} {Ainv' : Matrix n' n' 𝕜}
    (hA : A * Ainv = 1) (hA' : A.submatrix σ σ * Ainv' = 1) (Kss : Matrix q q 𝕜) (Ks : Matrix q n 𝕜) :
    cov Kss (Ks.submatrix id σ) Ainv' = cov Kss Ks Ainv := by
  obtain rfl := inv_perm σ hA hA'
  simp only [cov, transpose_submatrix]
  rw [show Ks.submatrix id ⇑σ = Ks.submatrix (⇑(Equiv.refl q)) ⇑σ from rfl, submatrix_mul_equiv,
    show Ksᵀ.submatrix (⇑σ) id = Ksᵀ.submatrix (⇑σ) (⇑(Equiv.refl q)) from rfl, submatrix_mul_equiv]
  rfl

theorem var_perm_invariant (σ : n' ≃ n) {A Ainv : Matrix n n 𝕜} {Ainv' : Matrix n' n' 𝕜}
    (hA : A * Ainv = 1) (hA' : A.submatrix σ σ * Ainv' = 1) (kxx : q → 𝕜) (Ks : Matrix q n 𝕜) :
    var kxx (Ks.submatrix id σ) Ainv' = var kxx Ks Ainv := by
  funext i
  have h := congrFun (congrFun (cov_perm_invariant σ hA hA' (diagonal kxx) Ks) i) i
  have e1 := var_eq_cov_diag (diagonal kxx) (Ks.submatrix id σ) Ainv' i
  have e2 := var_eq_cov_diag (diagonal kxx) Ks Ainv i
  simp only [diagonal_apply_eq] at e1 e2
  rw [e1, e2, h]

/-! ### Batch shape, zero mean, interpolation, prior reversion -/

theorem mean_batch_invariant (f : q' → q) (Ks : Matrix q n 𝕜) (Ps : Matrix q p 𝕜) (w : n → 𝕜) (β : p → 𝕜) :
    mean (Ks.submatrix f id) (Ps.submatrix f id) w β = mean Ks Ps w β ∘ f := by
  funext i
  simp [mean, Matrix.mulVec, dotProduct]

theorem var_batch_invariant (f : q' → q) (kxx : q → 𝕜) (Ks : Matrix q n 𝕜) (Ainv : Matrix n n 𝕜) :
    var (kxx ∘ f) (Ks.submatrix f id) Ainv = var kxx Ks Ainv ∘ f := by
  funext i
  simp [var, Matrix.mul_apply]

theorem cov_batch_invariant (f : q' → q) (Kss : Matrix q q 𝕜) (Ks : Matrix q n 𝕜) (Ainv : Matrix n n 𝕜) :
    cov (Kss.submatrix f f) (Ks.submatrix f id) Ainv = (cov Kss Ks Ainv).submatrix f f := by
  ext i j
  simp [cov, Matrix.mul_apply]

/-! zero mean is the β = 0 instance -/
theorem postMeanZero_eq (Ainv : Matrix n n 𝕜) (y : n → 𝕜) (P : Matrix n p 𝕜) (Ks : Matrix q n 𝕜) (Ps : Matrix q p 𝕜) :
    mean Ks Ps (weights Ainv y P 0) 0 = postMeanZero Ainv y Ks := by
  simp [mean, weights, postMeanZero]

/-! interpolation -/
theorem interpolation_mean {A Ainv : Matrix n n 𝕜} (hA : A * Ainv = 1) (f : q → n) (y : n → 𝕜)
    (P : Matrix n p 𝕜) (β : p → 𝕜) :
    mean (A.submatrix f id) (P.submatrix f id) (weights Ainv y P β) β = y ∘ f := by
  have h : (A.submatrix f id) *ᵥ (weights Ainv y P β) = (y - P *ᵥ β) ∘ f := by
    have : A *ᵥ weights Ainv y P β = y - P *ᵥ β := by
      simp only [weights, mulVec_sub, mulVec_mulVec, ← Matrix.mul_assoc, hA, Matrix.one_mul, one_mulVec]
    rw [← this]
    funext i; simp [Matrix.mulVec, dotProduct]
  funext i
  have h2 : (P.submatrix f id *ᵥ β) i = (P *ᵥ β) (f i) := by simp [Matrix.mulVec, dotProduct]
  simp only [mean, Pi.add_apply, h, h2, Function.comp_apply, Pi.sub_apply]
  ring

theorem interpolation_mean_zero {A Ainv : Matrix n n 𝕜} (hA : A * Ainv = 1) (f : q → n) (y : n → 𝕜) :
    postMeanZero Ainv y (A.submatrix f id) = y ∘ f := by
  have : A *ᵥ (Ainv *ᵥ y) = y := by rw [mulVec_mulVec, hA, one_mulVec]
  funext i
  rw [postMeanZero, Function.comp_apply, ← congrFun this (f i)]
  simp [Matrix.mulVec, dotProduct]

theorem interpolation_cov {A Ainv : Matrix n n 𝕜} (hA : A * Ainv = 1) (hs : Aᵀ = A) (f : q → n) :
    cov (A.submatrix f f) (A.submatrix f id) Ainv = 0 := by
  ext i j
  rw [interpolation_cov_apply hA, ← hs, transpose_apply, hs, sub_self]; rfl

theorem interpolation_var {A Ainv : Matrix n n 𝕜} (hA : A * Ainv = 1) (f : q → n) (i : q) :
    var (fun i => A (f i) (f i)) (A.submatrix f id) Ainv i = 0 := by
  have := var_eq_cov_diag (A.submatrix f f) (A.submatrix f id) Ainv i
  simp only [submatrix_apply] at this
  rw [this, interpolation_cov_apply hA, sub_self]

/-! prior reversion -/
theorem prior_reversion_mean (Ps : Matrix q p 𝕜) (w : n → 𝕜) (β : p → 𝕜) :
    mean (0 : Matrix q n 𝕜) Ps w β = Ps *ᵥ β := by simp [mean]
theorem prior_reversion_var (kxx : q → 𝕜) (Ainv : Matrix n n 𝕜) :
    var kxx (0 : Matrix q n 𝕜) Ainv = kxx := by funext i; simp [var]
theorem prior_reversion_cov (Kss : Matrix q q 𝕜) (Ainv : Matrix n n 𝕜) :
    cov Kss (0 : Matrix q n 𝕜) Ainv = Kss := by simp [cov]

/-! ### Sums of independent GPs -/

theorem gpsum_var_eq_cov_diag (w : c → 𝕜) (C : c → Matrix q q 𝕜) (i : q) :
    sumVar w (fun k i => C k i i) i = sumCov w C i i := by
  rw [gpsum_var_apply, gpsum_cov_apply]

theorem gpsum_cov_symm (w : c → 𝕜) (C : c → Matrix q q 𝕜) (h : ∀ k, (C k)ᵀ = C k) :
    (sumCov w C)ᵀ = sumCov w C := by
  simp [sumCov, transpose_sum, h]

/-- `Σ w_k² C_k` is the covariance of `W·f` for the stacked independent vector `f` (block-diagonal
    covariance) and `W = [w₁I … w_cI]`. -/
theorem gpsum_cov_is_pushforward (w : c → 𝕜) (C : c → Matrix q q 𝕜) :
    sumCov w C = weightRow w * blockDiagonal C * (weightRow w)ᵀ := by
  ext i j
  rw [gpsum_cov_apply]
  have inner : ∀ (a : q) (k : c), (weightRow w * blockDiagonal C : Matrix q (q × c) 𝕜) i (a, k) = w k * C k i a := by
    intro a k
    simp only [Matrix.mul_apply, weightRow, blockDiagonal_apply, Fintype.sum_prod_type]
    simp [Finset.sum_ite_eq]
  rw [Matrix.mul_apply, Fintype.sum_prod_type, Finset.sum_comm]
  refine Finset.sum_congr rfl fun k _ => ?_
  simp only [transpose_apply, weightRow]
  simp [Finset.sum_ite_eq, inner]
  ring

/-- … and `Σ w_k m_k` is `W` applied to the stacked mean. -/
theorem gpsum_mean_is_pushforward (w : c → 𝕜) (m : c → q → 𝕜) :
    sumMean w m = weightRow w *ᵥ (fun jk : q × c => m jk.2 jk.1) := by
  funext i
  rw [gpsum_mean_apply]
  simp only [Matrix.mulVec, dotProduct, weightRow, Fintype.sum_prod_type]
  rw [Finset.sum_comm]
  simp [Finset.sum_ite_eq]

section Order2
variable {R : Type*} [Field R] [LinearOrder R] [IsStrictOrderedRing R] [StarRing R] [StarOrderedRing R]
  [TrivialStar R]

theorem gpsum_cov_posSemidef (w : c → R) (C : c → Matrix q q R) (h : ∀ k, (C k).PosSemidef) :
    (sumCov w C).PosSemidef := by
  unfold sumCov
  exact posSemidef_sum _ fun k _ => (h k).smul (sq_nonneg (w k))

theorem gpsum_var_nonneg (w : c → R) (v : c → q → R) (h : ∀ k i, 0 ≤ v k i) (i : q) :
    0 ≤ sumVar w v i := by
  simp only [sumVar, Finset.sum_apply, Pi.smul_apply, smul_eq_mul]
  exact Finset.sum_nonneg fun k _ => mul_nonneg (sq_nonneg _) (h k i)

end Order2

end Spec

/-! ## Part II — the executable model (`Model/C02.lean`), through the bridge `toM` / `toV` -/

section Model
variable {n p q : Nat}

/-- A certified `A` is positive definite: the Cholesky factorisation the library asks scipy for
    exists, and the hypothesis `A.PosDef` of the semidefiniteness theorems is checked, not assumed. -/
theorem model_A_posDef {A : Mat n n} {P : Mat n p} {zm : Bool} {pre : Pre n p}
    (hc : pre.certified A P zm = true) : (toM A).PosDef := by
  have h := (certified_iff A P zm pre).mp hc
  rw [← h.ldl]
  exact Spec.ldl_posDef _ _ _ h.dpos h.linv

/-- The model's mean is the conditional mean `p(x)ᵀβ + k(x)ᵀA⁻¹(y − Pβ)` for the model's own
    coefficients `β` (zero-mean branch: `β = 0`). -/
theorem model_mean_conditional (zm : Bool) (pre : Pre n p) (y : Vec n) (P : Mat n p)
    (Ks : Mat q n) (Kss : Mat q q) (kxx : Vec q) (Ps : Mat q p) :
    let r := predict zm pre y P Ks Kss kxx Ps
    toV r.mean = toM Ps *ᵥ toV r.polyCoef
      + toM Ks *ᵥ (toM pre.Ainv *ᵥ toV (residual y P r.polyCoef)) := by
  intro r
  show toV (mean Ks Ps (weights zm pre.Ainv y P (polyCoef zm pre.Ginv P pre.Ainv y))
      (polyCoef zm pre.Ginv P pre.Ainv y)) = _
  cases zm
  · rw [toV_mean, toV_weights_false, Spec.mean_eq_conditional, toV_residual]; rfl
  · have hβ : toV (polyCoef true pre.Ginv P pre.Ainv y) = 0 := toV_polyCoef_true ..
    rw [toV_mean, toV_weights_true, toV_residual]
    show _ = toM Ps *ᵥ toV (polyCoef true pre.Ginv P pre.Ainv y) + toM Ks *ᵥ toM pre.Ainv *ᵥ
      (toV y - toM P *ᵥ toV (polyCoef true pre.Ginv P pre.Ainv y))
    rw [hβ]; simp [Spec.mean]

/-- The model's coefficients satisfy the GLS normal equations `PᵀA⁻¹(y − Pβ) = 0`. -/
theorem model_gls_normal_eq {A : Mat n n} {P : Mat n p} {pre : Pre n p}
    (hc : pre.certified A P false = true) (y : Vec n) :
    (toM P)ᵀ *ᵥ (toM pre.Ainv *ᵥ toV (residual y P (polyCoef false pre.Ginv P pre.Ainv y))) = 0 := by
  have h := (certified_iff A P false pre).mp hc
  rw [toV_residual, toV_polyCoef_false]
  exact Spec.gls_normal_eq (h.ginv rfl) (toV y)

/-- Both variance branches and both covariance forms of the model coincide exactly, before and
    after the floor – whichever prediction entry point is used, the numbers are the same. -/
theorem model_branches_agree {A : Mat n n} {P : Mat n p} {zm : Bool} {pre : Pre n p}
    (hc : pre.certified A P zm = true) (y : Vec n) (Ks : Mat q n) (Kss : Mat q q) (kxx : Vec q)
    (Ps : Mat q p) :
    let r := predict zm pre y P Ks Kss kxx Ps
    r.varCholRaw = r.varCardinalRaw ∧ r.varChol = r.varCardinal ∧ r.cov = r.covDirect := by
  intro r
  have h := (certified_iff A P zm pre).mp hc
  have hD : ∀ j, toV pre.D j ≠ 0 := fun j => ne_of_gt (h.dpos j)
  have h1 : varCholRaw kxx Ks pre.Linv pre.D = varCardinalRaw kxx Ks pre.Ainv := by
    apply toV_injective
    rw [toV_varCholRaw, toV_varCardinalRaw]
    exact Spec.var_branches_agree_ldl h.inv h.ldl h.linv hD _ _
  refine ⟨h1, ?_, ?_⟩
  · show floorVec (varCholRaw kxx Ks pre.Linv pre.D) = floorVec (varCardinalRaw kxx Ks pre.Ainv)
    rw [h1]
  · apply toM_injective
    show toM (covChol Kss Ks pre.Linv pre.D) = toM (covDirect Kss Ks pre.Ainv)
    rw [toM_covChol, toM_covDirect]
    exact Spec.cov_ldl_eq h.inv h.ldl h.linv (fun j => mul_inv_cancel₀ (hD j)) _ _

/-- `compute_covariance_of_points` of the model is the closed-form conditional covariance. -/
theorem model_cov_eq {A : Mat n n} {P : Mat n p} {zm : Bool} {pre : Pre n p}
    (hc : pre.certified A P zm = true) (y : Vec n) (Ks : Mat q n) (Kss : Mat q q) (kxx : Vec q)
    (Ps : Mat q p) :
    toM (predict zm pre y P Ks Kss kxx Ps).cov = Spec.cov (toM Kss) (toM Ks) (toM pre.Ainv) := by
  rw [(model_branches_agree hc y Ks Kss kxx Ps).2.2]
  exact toM_covDirect ..

theorem model_cov_symm {A : Mat n n} {P : Mat n p} {zm : Bool} {pre : Pre n p}
    (hc : pre.certified A P zm = true) (y : Vec n) (Ks : Mat q n) (Kss : Mat q q) (kxx : Vec q)
    (Ps : Mat q p) (hK : (toM Kss)ᵀ = toM Kss) :
    (toM (predict zm pre y P Ks Kss kxx Ps).cov)ᵀ = toM (predict zm pre y P Ks Kss kxx Ps).cov := by
  have h := (certified_iff A P zm pre).mp hc
  rw [model_cov_eq hc]
  exact Spec.post_cov_symm _ h.inv h.symm hK

/-- The model's covariance matrix is positive semidefinite whenever the joint matrix
    `[[A, K*ᵀ],[K*, K**]]` is (a property of the kernel: C03). -/
theorem model_cov_posSemidef {A : Mat n n} {P : Mat n p} {zm : Bool} {pre : Pre n p}
    (hc : pre.certified A P zm = true) (y : Vec n) (Ks : Mat q n) (Kss : Mat q q) (kxx : Vec q)
    (Ps : Mat q p) (hJ : (fromBlocks (toM A) (toM Ks)ᵀ (toM Ks) (toM Kss)).PosSemidef) :
    (toM (predict zm pre y P Ks Kss kxx Ps).cov).PosSemidef := by
  have h := (certified_iff A P zm pre).mp hc
  rw [model_cov_eq hc]
  exact Spec.post_cov_posSemidef h.inv (model_A_posDef hc) hJ

/-- Pointwise variance = diagonal of the covariance (when `K_x_x` is the diagonal of `K**`). -/
theorem model_var_eq_cov_diag {A : Mat n n} {P : Mat n p} {zm : Bool} {pre : Pre n p}
    (hc : pre.certified A P zm = true) (y : Vec n) (Ks : Mat q n) (Kss : Mat q q) (kxx : Vec q)
    (Ps : Mat q p) (hk : ∀ i, vget kxx i = mget Kss i i) (i : Fin q) :
    vget (predict zm pre y P Ks Kss kxx Ps).varCholRaw i = mget (predict zm pre y P Ks Kss kxx Ps).cov i i := by
  rw [(model_branches_agree hc y Ks Kss kxx Ps).1, ← toM_apply, model_cov_eq hc, ← Spec.var_eq_diag_cov]
  show toV (varCardinalRaw kxx Ks pre.Ainv) i = _
  rw [toV_varCardinalRaw]
  have : toV kxx = fun i => toM Kss i i := funext hk
  rw [this]

/-- Variances are never negative – already before the floor – and after the floor they are at
    least `MINIMUM_KRIGING_VARIANCE > 0`. -/
theorem model_var_nonneg {A : Mat n n} {P : Mat n p} {zm : Bool} {pre : Pre n p}
    (hc : pre.certified A P zm = true) (y : Vec n) (Ks : Mat q n) (Kss : Mat q q) (kxx : Vec q)
    (Ps : Mat q p) (hk : ∀ i, vget kxx i = mget Kss i i)
    (hJ : (fromBlocks (toM A) (toM Ks)ᵀ (toM Ks) (toM Kss)).PosSemidef) (i : Fin q) :
    0 ≤ vget (predict zm pre y P Ks Kss kxx Ps).varCholRaw i ∧
    0 ≤ vget (predict zm pre y P Ks Kss kxx Ps).varCardinalRaw i ∧
    0 < vget (predict zm pre y P Ks Kss kxx Ps).varChol i ∧
    0 < vget (predict zm pre y P Ks Kss kxx Ps).varCardinal i := by
  have h0 : 0 ≤ vget (predict zm pre y P Ks Kss kxx Ps).varCholRaw i := by
    rw [model_var_eq_cov_diag hc y Ks Kss kxx Ps hk]
    exact (model_cov_posSemidef hc y Ks Kss kxx Ps hJ).diag_nonneg
  have hb := model_branches_agree hc y Ks Kss kxx Ps
  have hpos : (0 : ℚ) < minVar := by norm_num [minVar]
  have hf : 0 < vget (predict zm pre y P Ks Kss kxx Ps).varChol i := by
    show 0 < vget (floorVec (varCholRaw kxx Ks pre.Linv pre.D)) i
    rw [floorVec, vget_ofFn]
    exact lt_of_lt_of_le hpos (floorVar_ge _).1
  refine ⟨h0, hb.1 ▸ h0, hf, hb.2.1 ▸ hf⟩

/-- Reordering the observations (simultaneously in `A`, `y`, `P` and the columns of `K*`) changes
    nothing in the model's output, whatever certified oracle data each run uses. -/
theorem model_perm_invariant (σ : Fin n ≃ Fin n) {A A' : Mat n n} {P P' : Mat n p} {zm : Bool}
    {pre pre' : Pre n p} (hc : pre.certified A P zm = true) (hc' : pre'.certified A' P' zm = true)
    {y y' : Vec n} {Ks Ks' : Mat q n} (Kss : Mat q q) (kxx : Vec q) (Ps : Mat q p)
    (hA : toM A' = (toM A).submatrix σ σ) (hP : toM P' = (toM P).submatrix σ id)
    (hy : toV y' = toV y ∘ σ) (hKs : toM Ks' = (toM Ks).submatrix id σ) :
    let r := predict zm pre y P Ks Kss kxx Ps
    let r' := predict zm pre' y' P' Ks' Kss kxx Ps
    r'.polyCoef = r.polyCoef ∧ r'.mean = r.mean ∧ r'.varCholRaw = r.varCholRaw ∧
      r'.varChol = r.varChol ∧ r'.varCardinal = r.varCardinal ∧ r'.cov = r.cov := by
  intro r r'
  have h := (certified_iff A P zm pre).mp hc
  have h' := (certified_iff A' P' zm pre').mp hc'
  have hi' : (toM A).submatrix σ σ * toM pre'.Ainv = 1 := hA ▸ h'.inv
  have hβ : r'.polyCoef = r.polyCoef := by
    show polyCoef zm pre'.Ginv P' pre'.Ainv y' = polyCoef zm pre.Ginv P pre.Ainv y
    apply toV_injective
    cases zm
    · rw [toV_polyCoef_false, toV_polyCoef_false, hP, hy]
      exact Spec.poly_coef_perm_invariant σ h.inv hi' (h.ginv rfl) (hP ▸ h'.ginv rfl) _
    · rw [toV_polyCoef_true, toV_polyCoef_true]
  have hm : r'.mean = r.mean := by
    apply toV_injective
    rw [model_mean_conditional, model_mean_conditional, hβ, toV_residual, toV_residual]
    have hinv := Spec.inv_perm σ h.inv hi'
    have hsub : ∀ a b : Fin n → ℚ, a ∘ σ - b ∘ σ = (a - b) ∘ σ := fun _ _ => rfl
    rw [hinv, hKs, hy, hP, Spec.mulVec_perm_rows, hsub, Spec.mulVec_perm', Spec.mulVec_perm]
  have hb := model_branches_agree hc y Ks Kss kxx Ps
  have hb' := model_branches_agree hc' y' Ks' Kss kxx Ps
  have hv : r'.varCholRaw = r.varCholRaw := by
    rw [hb.1, hb'.1]
    apply toV_injective
    show toV (varCardinalRaw kxx Ks' pre'.Ainv) = toV (varCardinalRaw kxx Ks pre.Ainv)
    rw [toV_varCardinalRaw, toV_varCardinalRaw, hKs]
    exact Spec.var_perm_invariant σ h.inv hi' _ _
  have hvf : r'.varChol = r.varChol := by
    show floorVec r'.varCholRaw = floorVec r.varCholRaw
    rw [hv]
  refine ⟨hβ, hm, hv, hvf, ?_, ?_⟩
  · rw [← hb.2.1, ← hb'.2.1]; exact hvf
  · apply toM_injective
    rw [model_cov_eq hc, model_cov_eq hc', hKs]
    exact Spec.cov_perm_invariant σ h.inv hi' _ _

/-- Interpolation: where a query row of `K*` is the row of `A` of training point `f i` (no noise, query
    = training point), the model predicts `y (f i)` with raw variance 0 (floored: the tiny minimum). -/
theorem model_interpolation {A : Mat n n} {P : Mat n p} {zm : Bool} {pre : Pre n p}
    (hc : pre.certified A P zm = true) (y : Vec n) (f : Fin q → Fin n) {Ks : Mat q n} (Kss : Mat q q)
    {kxx : Vec q} {Ps : Mat q p} (hKs : toM Ks = (toM A).submatrix f id)
    (hPs : toM Ps = (toM P).submatrix f id) (hk : ∀ i, vget kxx i = mget A (f i) (f i)) (i : Fin q) :
    let r := predict zm pre y P Ks Kss kxx Ps
    vget r.mean i = vget y (f i) ∧ vget r.varCardinalRaw i = 0 ∧ vget r.varCholRaw i = 0 ∧
      vget r.varChol i = minVar := by
  intro r
  have h := (certified_iff A P zm pre).mp hc
  have key : ∀ β : Vec p,
      (toM Ps *ᵥ toV β + toM Ks *ᵥ (toM pre.Ainv *ᵥ toV (residual y P β))) i = vget y (f i) := by
    intro β
    rw [hKs, hPs, toV_residual]
    have hAu : toM A *ᵥ (toM pre.Ainv *ᵥ (toV y - toM P *ᵥ toV β)) = toV y - toM P *ᵥ toV β := by
      rw [mulVec_mulVec, h.inv, one_mulVec]
    have h2 : ((toM A).submatrix f id *ᵥ (toM pre.Ainv *ᵥ (toV y - toM P *ᵥ toV β))) i
        = (toM A *ᵥ (toM pre.Ainv *ᵥ (toV y - toM P *ᵥ toV β))) (f i) := rfl
    have h3 : ((toM P).submatrix f id *ᵥ toV β) i = (toM P *ᵥ toV β) (f i) := rfl
    rw [Pi.add_apply, h2, h3, hAu, Pi.sub_apply, toV_apply]
    ring
  have hm : vget r.mean i = vget y (f i) := by
    rw [← toV_apply, model_mean_conditional]; exact key _
  have hv : vget r.varCardinalRaw i = 0 := by
    show toV (varCardinalRaw kxx Ks pre.Ainv) i = 0
    rw [toV_varCardinalRaw, hKs]
    have : toV kxx = fun i => toM A (f i) (f i) := funext hk
    rw [this]
    exact Spec.interpolation_var h.inv f i
  have hv2 : vget r.varCholRaw i = 0 := by rw [(model_branches_agree hc y Ks Kss kxx Ps).1]; exact hv
  refine ⟨hm, hv, hv2, ?_⟩
  show vget (floorVec r.varCholRaw) i = minVar
  rw [floorVec, vget_ofFn, hv2]
  norm_num [floorVar, minVar]

/-- Prior reversion: a query uncorrelated with every observation (`K* = 0`) gets the polynomial
    mean, the prior variance and the prior covariance. -/
theorem model_prior_reversion (zm : Bool) (pre : Pre n p) (y : Vec n) (P : Mat n p) {Ks : Mat q n}
    (Kss : Mat q q) (kxx : Vec q) (Ps : Mat q p) (hKs : toM Ks = 0) :
    let r := predict zm pre y P Ks Kss kxx Ps
    toV r.mean = toM Ps *ᵥ toV r.polyCoef ∧ r.varCardinalRaw = kxx ∧ r.covDirect = Kss := by
  intro r
  refine ⟨?_, ?_, ?_⟩
  · rw [model_mean_conditional, hKs, zero_mulVec, add_zero]
  · apply toV_injective
    show toV (varCardinalRaw kxx Ks pre.Ainv) = _
    rw [toV_varCardinalRaw, hKs, Spec.prior_reversion_var]
  · apply toM_injective
    show toM (covDirect Kss Ks pre.Ainv) = _
    rw [toM_covDirect, hKs, Spec.prior_reversion_cov]

/-- No noise: `addDiag K 0 = K`. -/
theorem model_addDiag_zero (K : Mat n n) : addDiag K (zeroVec n) = K := by
  apply toM_injective
  rw [toM_addDiag, toV_zeroVec]; simp [Spec.noisy]

/-- "A Tikhonov nugget replaces the per-point noise": with a nugget the noise column is irrelevant. -/
theorem model_nugget_replaces_noise (t : ℚ) (noise noise' : Vec n) :
    noiseDiag (some t) noise = noiseDiag (some t) noise' := rfl

/-! ### GP sums in the model -/

theorem model_gpsum_mean (l : List (ℚ × Vec q)) (i : Fin q) :
    vget (sumMean l) i = (l.map fun wm => wm.1 * vget wm.2 i).sum := vget_sumMean l i
theorem model_gpsum_var (l : List (ℚ × Vec q)) (i : Fin q) :
    vget (sumVar l) i = (l.map fun wv => wv.1 ^ 2 * vget wv.2 i).sum := vget_sumVar l i
theorem model_gpsum_cov (l : List (ℚ × Mat q q)) (i j : Fin q) :
    mget (sumCov l) i j = (l.map fun wc => wc.1 ^ 2 * mget wc.2 i j).sum := mget_sumCov l i j

theorem model_gpsum_cov_posSemidef (l : List (ℚ × Mat q q)) (h : ∀ wc ∈ l, (toM wc.2).PosSemidef) :
    (toM (sumCov l)).PosSemidef := by
  rw [toM_sumCov]
  exact Spec.gpsum_cov_posSemidef _ _ fun k => h _ (List.getElem_mem k.2)

theorem model_gpsum_var_nonneg (l : List (ℚ × Vec q)) (h : ∀ wv ∈ l, ∀ i, 0 ≤ vget wv.2 i) (i : Fin q) :
    0 ≤ vget (sumVar l) i := by
  rw [← toV_apply, toV_sumVar]
  exact Spec.gpsum_var_nonneg _ _ (fun k i => h _ (List.getElem_mem k.2) i) i

/-! ### the exact PSD certificate the harness asks for on the library's own covariance output -/

theorem psdCertificate_sound {M L : Mat q q} {D : Vec q} (h : psdCertificate M L D = true) :
    (toM M).PosSemidef := by
  simp only [psdCertificate, Bool.and_eq_true, beq_iff, allNonneg_iff, toM_mul, toM_transpose,
    toM_diagMat] at h
  rw [← h.1]
  exact Spec.ldl_posSemidef _ _ h.2

theorem psdCertified_sound {C : Mat q q} {shift : ℚ} (h : psdCertified C shift = true) :
    ((1 / 2 : ℚ) • (toM C + (toM C)ᵀ) + shift • (1 : Matrix (Fin q) (Fin q) ℚ)).PosSemidef := by
  rw [← toM_shifted]
  unfold psdCertified at h
  split at h
  · exact psdCertificate_sound h
  · exact absurd h (by simp)

end Model

/-! ## Part III — variance floor, lie data, generated constants -/

/-- Side lemmas on the constants regenerated from the source on every run.  The property only asks for
    "a tiny positive value" / a positive lie noise, so only positivity is an obligation (a retuned
    constant stays a harmless change; a zero or negative one breaks exactly these lemmas). -/
theorem gen_minVar_pos : 0 < minVar := by norm_num [minVar]
theorem gen_lieNoise_pos : 0 < lieNoise := by norm_num [lieNoise]

/-- `fmax(MINIMUM_KRIGING_VARIANCE, v)`: never below the minimum, never below `v`, and the identity
    above the minimum. -/
theorem floorVar_ge_min (v : ℚ) : minVar ≤ floorVar v := (floorVar_ge v).1
theorem floorVar_ge_self (v : ℚ) : v ≤ floorVar v := (floorVar_ge v).2
theorem floorVar_id {v : ℚ} (h : minVar ≤ v) : floorVar v = v := floorVar_of_ge h
theorem floorVar_is_max (v : ℚ) : floorVar v = max minVar v := floorVar_eq_max v
theorem floorVar_mono {u v : ℚ} (h : u ≤ v) : floorVar u ≤ floorVar v := by
  rw [floorVar_eq_max, floorVar_eq_max]; exact max_le_max (le_refl _) h

/-! ### Lie data: appended lies = conditioning on the augmented data set -/

/-- The lie of `constant_liar_min` is the largest current value (worst for minimisation), that of
    `constant_liar_max` the smallest, and both are attained. -/
theorem lieValue_cmin (y : ℚ) (ys : List ℚ) :
    (∀ v ∈ y :: ys, v ≤ lieValue .cmin (y :: ys)) ∧ lieValue .cmin (y :: ys) ∈ y :: ys := by
  refine ⟨fun v hv => ?_, ?_⟩
  · rcases List.mem_cons.mp hv with rfl | h
    · exact Proofs.acc_le_foldl_max ys _
    · exact Proofs.mem_le_foldl_max ys y v h
  · rcases Proofs.foldl_max_mem ys y with h | h
    · simp [lieValue, h]
    · exact List.mem_cons_of_mem _ h

theorem lieValue_cmax (y : ℚ) (ys : List ℚ) :
    (∀ v ∈ y :: ys, lieValue .cmax (y :: ys) ≤ v) ∧ lieValue .cmax (y :: ys) ∈ y :: ys := by
  refine ⟨fun v hv => ?_, ?_⟩
  · rcases List.mem_cons.mp hv with rfl | h
    · exact Proofs.foldl_min_le_acc ys _
    · exact Proofs.foldl_min_le_mem ys y v h
  · rcases Proofs.foldl_min_mem ys y with h | h
    · simp [lieValue, h]
    · exact List.mem_cons_of_mem _ h

theorem lieValue_cmean (y : ℚ) (ys : List ℚ) :
    lieValue .cmean (y :: ys) = (y :: ys).sum / ((y :: ys).length : ℚ) := by
  simp only [lieValue, foldl_add_eq_sum, zero_add]

/-- One `append_lie_data`: the old rows are untouched, the `k` lies come last, all carry the same
    value (computed from the values present *before* the call) and the lie noise variance. -/
theorem appendLie_spec (y v : List ℚ) (k : Nat) (m : LieMethod) :
    appendLie (y, v) (k, m) = (y ++ List.replicate k (lieValue m y), v ++ List.replicate k lieNoise) := rfl

theorem appendLie_length (y v : List ℚ) (k : Nat) (m : LieMethod) :
    (appendLie (y, v) (k, m)).1.length = y.length + k ∧
    (appendLie (y, v) (k, m)).2.length = v.length + k := by
  simp [appendLie]

/-- Appending nothing changes nothing (`append_historical_data` returns early). -/
theorem appendLie_zero (y v : List ℚ) (m : LieMethod) : appendLie (y, v) (0, m) = (y, v) := by
  simp [appendLie]

/-- A sequence of lie batches is processed batch by batch, each lie computed from the data set
    augmented by the earlier lies. -/
theorem appendLies_snoc (y v : List ℚ) (bs : List (Nat × LieMethod)) (b : Nat × LieMethod) :
    appendLies y v (bs ++ [b]) = appendLie (appendLies y v bs) b := by
  simp [appendLies, List.foldl_append]

/-- After any sequence of lie batches the state is the original data followed by the lies, every lie
    row carrying the lie noise variance: the posterior afterwards is, by construction of `predict`,
    the posterior conditioned on this augmented data set. -/
theorem append_is_augment (y v : List ℚ) (bs : List (Nat × LieMethod)) :
    ∃ lies : List ℚ, (appendLies y v bs).1 = y ++ lies ∧
      (appendLies y v bs).2 = v ++ List.replicate lies.length lieNoise ∧
      lies.length = (bs.map Prod.fst).sum := by
  induction bs using List.reverseRecOn with
  | nil => exact ⟨[], by simp [appendLies]⟩
  | append_singleton bs b ih =>
    obtain ⟨lies, h1, h2, h3⟩ := ih
    obtain ⟨k, m⟩ := b
    refine ⟨lies ++ List.replicate k (lieValue m (appendLies y v bs).1), ?_, ?_, ?_⟩
    · rw [appendLies_snoc, ← Prod.mk.eta (p := appendLies y v bs), appendLie_spec, h1]; simp
    · rw [appendLies_snoc, ← Prod.mk.eta (p := appendLies y v bs), appendLie_spec, h2]
      simp
    · simp [h3]

/-- values and noise column stay aligned -/
theorem appendLies_lengths (y v : List ℚ) (bs : List (Nat × LieMethod)) (h : y.length = v.length) :
    (appendLies y v bs).1.length = (appendLies y v bs).2.length := by
  obtain ⟨lies, h1, h2, _⟩ := append_is_augment y v bs
  rw [h1, h2]; simp [h]

/-! ### Polynomial design matrix -/

/-- a monomial is the product of the coordinate powers -/
theorem monomial_cons (x : ℚ) (pt : List ℚ) (k : Nat) (idx : List Nat) :
    monomial (x :: pt) (k :: idx) = x ^ k * monomial pt idx := by
  simp [monomial, foldl_mul_eq]

theorem monomial_nil_left (idx : List Nat) : monomial [] idx = 1 := by simp [monomial]
theorem monomial_nil_right (pt : List ℚ) : monomial pt [] = 1 := by simp [monomial]

/-- the constant term: all powers zero gives 1 at every point, `0 ** 0 = 1` included
    (the library's `numpy.ones` shortcut for the constant mean is the same matrix) -/
theorem monomial_zero_powers (pt : List ℚ) (d : Nat) : monomial pt (List.replicate d 0) = 1 := by
  induction pt generalizing d with
  | nil => exact monomial_nil_left _
  | cons x xs ih =>
    cases d with
    | zero => exact monomial_nil_right _
    | succ d => rw [List.replicate_succ, monomial_cons, ih]; simp

/-- the linear term `e_k` picks coordinate `k` -/
theorem monomial_unit (x : ℚ) (pt : List ℚ) (d : Nat) :
    monomial (x :: pt) (1 :: List.replicate d 0) = x := by
  rw [monomial_cons, monomial_zero_powers]; simp

/-- shape: one row per point; one column per index row, or the single zero column for a zero mean -/
theorem polyMatrix_shape (indices : List (List Nat)) (points : List (List ℚ)) :
    (polyMatrix indices points).length = points.length ∧
    ∀ row ∈ polyMatrix indices points, row.length = max 1 indices.length := by
  cases indices with
  | nil => simp [polyMatrix]
  | cons i is =>
    refine ⟨by simp [polyMatrix], ?_⟩
    intro row hrow
    simp only [polyMatrix, List.mem_map] at hrow
    obtain ⟨pt, _, rfl⟩ := hrow
    simp

theorem polyMatrix_zero_mean (points : List (List ℚ)) :
    polyMatrix [] points = points.map fun _ => [0] := rfl

/-! ### Non-vacuity: the hypotheses used above are jointly satisfiable -/

/-- identity kernel matrix, no cross-covariance: every hypothesis of the Part I theorems holds -/
example : ∃ (A Ainv : Matrix (Fin 2) (Fin 2) ℚ) (Ks : Matrix (Fin 1) (Fin 2) ℚ) (Kss : Matrix (Fin 1) (Fin 1) ℚ),
    A * Ainv = 1 ∧ Aᵀ = A ∧ A.PosDef ∧ (fromBlocks A Ksᵀ Ks Kss).PosSemidef :=
  ⟨1, 1, 0, 1, by simp, by simp, PosDef.one, by
    rw [transpose_zero, fromBlocks_one]; exact PosSemidef.one⟩

/-- a certified oracle exists for a concrete 2×2 system with a constant mean -/
example : ∃ (A : Mat 2 2) (P : Mat 2 1) (pre : Pre 2 1), pre.certified A P false = true :=
  ⟨#v[#v[2, 1], #v[1, 2]], #v[#v[1], #v[1]],
   { Ainv := #v[#v[2/3, -1/3], #v[-1/3, 2/3]], L := #v[#v[1, 0], #v[1/2, 1]],
     Linv := #v[#v[1, 0], #v[-1/2, 1]], D := #v[2, 3/2], Ginv := #v[#v[3/2]] }, by decide +kernel⟩

/-! ## Part IV — Composition with C03: the hypotheses discharged for libsigopt's kernels

Every semidefiniteness theorem above takes the hypothesis `hJ`: the joint kernel matrix of observed and
query points `fromBlocks A K*ᵀ K* K**` is positive semidefinite.  For libsigopt's kernels this is a
theorem (Properties/C03.lean: `radial_gram_posSemidef`, `multitask_gram_posSemidef`): the joint matrix is
the Gram matrix of the `n + q` points `Fin.append X Q` reindexed along `Fin n ⊕ Fin q ≃ Fin (n + q)`
(Proofs/C02Kernel.lean).  What remains are the two facts about the observed block alone that the library
gets from its Cholesky factorisation: `A * Ainv = 1` and `A.PosDef` – and the second one is itself a
theorem as soon as every noise variance is strictly positive.

Notation: `K(X,X) = gramMatrix k X`, `K* = K(Q,X) = crossMatrix k Q X` (rows = query points, columns =
observed points), `K** = gramMatrix k Q`, `A = Spec.noisy K(X,X) noise = K(X,X) + diag(noise)`.
Over `ℝ` (the kernels involve `exp` and `sqrt`). -/

section Kernel
open Kernels (gramMatrix)

variable {P : Type} {n q d : Nat}

/-! ### any kernel function whose Gram matrix on the `n + q` points is PSD -/

/-- 1. The joint block matrix is the Gram matrix of the combined family `Sum.elim X Q`, i.e. of the
    concatenation `Fin.append X Q` reindexed along `finSumFinEquiv`; it is PSD whenever every finite
    Gram matrix of `k` is. -/
theorem joint_gram_fromBlocks (k : P → P → ℝ) (X : Fin n → P) (Q : Fin q → P) :
    fromBlocks (gramMatrix k X) (crossMatrix k X Q) (crossMatrix k Q X) (gramMatrix k Q)
        = Matrix.of (fun a b => k (Sum.elim X Q a) (Sum.elim X Q b)) ∧
    fromBlocks (gramMatrix k X) (crossMatrix k X Q) (crossMatrix k Q X) (gramMatrix k Q)
        = (gramMatrix k (Fin.append X Q)).submatrix finSumFinEquiv finSumFinEquiv ∧
    ((∀ (m : Nat) (pts : Fin m → P), (gramMatrix k pts).PosSemidef) →
      (fromBlocks (gramMatrix k X) (crossMatrix k X Q) (crossMatrix k Q X) (gramMatrix k Q)).PosSemidef ∧
      (fromBlocks (gramMatrix k X) (crossMatrix k Q X)ᵀ (crossMatrix k Q X) (gramMatrix k Q)).PosSemidef) :=
  ⟨joint_gram_eq_sumElim k X Q, joint_gram_eq_append k X Q,
    fun h => ⟨joint_gram_posSemidef (h _ _), joint_posSemidef_of_gram (h _ _)⟩⟩

/-- Posterior covariance PSD for any kernel function: the only kernel hypothesis is that the Gram
    matrix of the `n + q` points is PSD. -/
theorem gram_post_cov_posSemidef {k : P → P → ℝ} {X : Fin n → P} {Q : Fin q → P}
    (hk : (gramMatrix k (Fin.append X Q)).PosSemidef) {noise : Fin n → ℝ} (hn : ∀ i, 0 ≤ noise i)
    {Ainv : Matrix (Fin n) (Fin n) ℝ} (hA : Spec.noisy (gramMatrix k X) noise * Ainv = 1)
    (hpd : (Spec.noisy (gramMatrix k X) noise).PosDef) :
    (Spec.cov (gramMatrix k Q) (crossMatrix k Q X) Ainv).PosSemidef :=
  Spec.post_cov_posSemidef hA hpd (noisy_joint_posSemidef_of_gram hk hn)

theorem gram_post_var_nonneg {k : P → P → ℝ} {X : Fin n → P} {Q : Fin q → P}
    (hk : (gramMatrix k (Fin.append X Q)).PosSemidef) {noise : Fin n → ℝ} (hn : ∀ i, 0 ≤ noise i)
    {Ainv : Matrix (Fin n) (Fin n) ℝ} (hA : Spec.noisy (gramMatrix k X) noise * Ainv = 1)
    (hpd : (Spec.noisy (gramMatrix k X) noise).PosDef) (i : Fin q) :
    0 ≤ Spec.var (fun i => k (Q i) (Q i)) (crossMatrix k Q X) Ainv i :=
  Spec.post_var_nonneg (Kss := gramMatrix k Q) hA hpd (noisy_joint_posSemidef_of_gram hk hn) i

/-- With strictly positive noise `A` is positive definite (no hypothesis on the points: duplicates
    allowed), so only `A * Ainv = 1` remains. -/
theorem gram_post_var_nonneg_of_noise_pos {k : P → P → ℝ} {X : Fin n → P} {Q : Fin q → P}
    (hk : (gramMatrix k (Fin.append X Q)).PosSemidef) {noise : Fin n → ℝ} (hn : ∀ i, 0 < noise i)
    {Ainv : Matrix (Fin n) (Fin n) ℝ} (hA : Spec.noisy (gramMatrix k X) noise * Ainv = 1) (i : Fin q) :
    0 ≤ Spec.var (fun i => k (Q i) (Q i)) (crossMatrix k Q X) Ainv i :=
  gram_post_var_nonneg hk (fun i => (hn i).le) hA
    (noisy_posDef_of_noise_pos (gram_left_posSemidef hk) hn) i

/-! ### the radial kernels (square exponential, C0, C2, C4 Matérn), any dimension `d` -/

/-- the Gram matrix of the `n + q` observed and query points of a radial kernel is PSD -/
theorem radial_append_gram_posSemidef (kind : Kernels.Kind) {alpha : ℝ} (ha : 0 ≤ alpha) (l : Fin d → ℝ)
    (x : Fin n → Fin d → ℝ) (xs : Fin q → Fin d → ℝ) :
    (gramMatrix (Kernels.kernel kind alpha (List.ofFn l))
      (Fin.append (fun i => List.ofFn (x i)) (fun j => List.ofFn (xs j)))).PosSemidef := by
  rw [append_map]
  exact C03.radial_gram_posSemidef kind ha l (Fin.append x xs)

/-- 2. For every radial kind, every dimension, all length scales, `alpha ≥ 0`, all observed points
    `x i` and query points `xs j`: the joint kernel matrix `[[K(X,X), K(Q,X)ᵀ],[K(Q,X), K(Q,Q)]]` is
    positive semidefinite – the hypothesis `hJ`/`hK` of `post_cov_posSemidef`, `post_var_nonneg`,
    `joint_posSemidef_of_kernel`, now a theorem. -/
theorem radial_joint_posSemidef (kind : Kernels.Kind) {alpha : ℝ} (ha : 0 ≤ alpha) (l : Fin d → ℝ)
    (x : Fin n → Fin d → ℝ) (xs : Fin q → Fin d → ℝ) :
    (fromBlocks
      (gramMatrix (Kernels.kernel kind alpha (List.ofFn l)) (fun i => List.ofFn (x i)))
      (crossMatrix (Kernels.kernel kind alpha (List.ofFn l)) (fun j => List.ofFn (xs j))
        (fun i => List.ofFn (x i)))ᵀ
      (crossMatrix (Kernels.kernel kind alpha (List.ofFn l)) (fun j => List.ofFn (xs j))
        (fun i => List.ofFn (x i)))
      (gramMatrix (Kernels.kernel kind alpha (List.ofFn l)) (fun j => List.ofFn (xs j)))).PosSemidef :=
  joint_posSemidef_of_gram (radial_append_gram_posSemidef kind ha l x xs)

/-- … and stays so with the observation noise `≥ 0` on the observed block (`A` in place of `K(X,X)`). -/
theorem radial_noisy_joint_posSemidef (kind : Kernels.Kind) {alpha : ℝ} (ha : 0 ≤ alpha) (l : Fin d → ℝ)
    (x : Fin n → Fin d → ℝ) (xs : Fin q → Fin d → ℝ) {noise : Fin n → ℝ} (hn : ∀ i, 0 ≤ noise i) :
    (fromBlocks
      (Spec.noisy (gramMatrix (Kernels.kernel kind alpha (List.ofFn l)) (fun i => List.ofFn (x i))) noise)
      (crossMatrix (Kernels.kernel kind alpha (List.ofFn l)) (fun j => List.ofFn (xs j))
        (fun i => List.ofFn (x i)))ᵀ
      (crossMatrix (Kernels.kernel kind alpha (List.ofFn l)) (fun j => List.ofFn (xs j))
        (fun i => List.ofFn (x i)))
      (gramMatrix (Kernels.kernel kind alpha (List.ofFn l)) (fun j => List.ofFn (xs j)))).PosSemidef :=
  noisy_joint_posSemidef_of_gram (radial_append_gram_posSemidef kind ha l x xs) hn

/-- 3. Posterior covariance of a GP with a radial kernel: positive semidefinite.  `A = K(X,X) +
    diag(noise)`, `noise ≥ 0`, `K* = K(Q,X)`, `K** = K(Q,Q)`; remaining hypotheses: `A * Ainv = 1` and
    `A.PosDef` (can fail for duplicated points with zero noise – the library's Cholesky then fails). -/
theorem radial_post_cov_posSemidef (kind : Kernels.Kind) {alpha : ℝ} (ha : 0 ≤ alpha) (l : Fin d → ℝ)
    (x : Fin n → Fin d → ℝ) (xs : Fin q → Fin d → ℝ) {noise : Fin n → ℝ} (hn : ∀ i, 0 ≤ noise i)
    {Ainv : Matrix (Fin n) (Fin n) ℝ}
    (hA : Spec.noisy (gramMatrix (Kernels.kernel kind alpha (List.ofFn l)) (fun i => List.ofFn (x i))) noise
      * Ainv = 1)
    (hpd : (Spec.noisy (gramMatrix (Kernels.kernel kind alpha (List.ofFn l)) (fun i => List.ofFn (x i)))
      noise).PosDef) :
    (Spec.cov
      (gramMatrix (Kernels.kernel kind alpha (List.ofFn l)) (fun j => List.ofFn (xs j)))
      (crossMatrix (Kernels.kernel kind alpha (List.ofFn l)) (fun j => List.ofFn (xs j))
        (fun i => List.ofFn (x i)))
      Ainv).PosSemidef :=
  gram_post_cov_posSemidef (radial_append_gram_posSemidef kind ha l x xs) hn hA hpd

/-- 3. Posterior variance of a GP with a radial kernel: non-negative at every query point (`K_x_x` is
    the diagonal of `K(Q,Q)`, i.e. `k(x,x)`). -/
theorem radial_post_var_nonneg (kind : Kernels.Kind) {alpha : ℝ} (ha : 0 ≤ alpha) (l : Fin d → ℝ)
    (x : Fin n → Fin d → ℝ) (xs : Fin q → Fin d → ℝ) {noise : Fin n → ℝ} (hn : ∀ i, 0 ≤ noise i)
    {Ainv : Matrix (Fin n) (Fin n) ℝ}
    (hA : Spec.noisy (gramMatrix (Kernels.kernel kind alpha (List.ofFn l)) (fun i => List.ofFn (x i))) noise
      * Ainv = 1)
    (hpd : (Spec.noisy (gramMatrix (Kernels.kernel kind alpha (List.ofFn l)) (fun i => List.ofFn (x i)))
      noise).PosDef) (i : Fin q) :
    0 ≤ Spec.var
      (fun j => Kernels.kernel kind alpha (List.ofFn l) (List.ofFn (xs j)) (List.ofFn (xs j)))
      (crossMatrix (Kernels.kernel kind alpha (List.ofFn l)) (fun j => List.ofFn (xs j))
        (fun i => List.ofFn (x i)))
      Ainv i :=
  gram_post_var_nonneg (radial_append_gram_posSemidef kind ha l x xs) hn hA hpd i

/-- … in the form the library computes it: `K_x_x` is the constant process variance `alpha`
    (`k(x,x) = alpha`). -/
theorem radial_post_var_nonneg_alpha (kind : Kernels.Kind) {alpha : ℝ} (ha : 0 ≤ alpha) (l : Fin d → ℝ)
    (x : Fin n → Fin d → ℝ) (xs : Fin q → Fin d → ℝ) {noise : Fin n → ℝ} (hn : ∀ i, 0 ≤ noise i)
    {Ainv : Matrix (Fin n) (Fin n) ℝ}
    (hA : Spec.noisy (gramMatrix (Kernels.kernel kind alpha (List.ofFn l)) (fun i => List.ofFn (x i))) noise
      * Ainv = 1)
    (hpd : (Spec.noisy (gramMatrix (Kernels.kernel kind alpha (List.ofFn l)) (fun i => List.ofFn (x i)))
      noise).PosDef) (i : Fin q) :
    0 ≤ Spec.var (fun _ => alpha)
      (crossMatrix (Kernels.kernel kind alpha (List.ofFn l)) (fun j => List.ofFn (xs j))
        (fun i => List.ofFn (x i)))
      Ainv i := by
  have h := radial_post_var_nonneg kind ha l x xs hn hA hpd i
  simpa only [C03.kernel_self] using h

/-- With strictly positive noise on every observed point `A` is positive definite whatever the points
    (duplicates included) … -/
theorem radial_noisy_posDef_of_noise_pos (kind : Kernels.Kind) {alpha : ℝ} (ha : 0 ≤ alpha) (l : Fin d → ℝ)
    (x : Fin n → Fin d → ℝ) {noise : Fin n → ℝ} (hn : ∀ i, 0 < noise i) :
    (Spec.noisy (gramMatrix (Kernels.kernel kind alpha (List.ofFn l)) (fun i => List.ofFn (x i)))
      noise).PosDef :=
  noisy_posDef_of_noise_pos (C03.radial_gram_posSemidef kind ha l x) hn

/-- … so the posterior variance is non-negative with `A * Ainv = 1` as the ONLY hypothesis besides
    the parameter ranges `alpha ≥ 0`, `noise > 0`. -/
theorem radial_post_var_nonneg_of_noise_pos (kind : Kernels.Kind) {alpha : ℝ} (ha : 0 ≤ alpha)
    (l : Fin d → ℝ) (x : Fin n → Fin d → ℝ) (xs : Fin q → Fin d → ℝ) {noise : Fin n → ℝ}
    (hn : ∀ i, 0 < noise i) {Ainv : Matrix (Fin n) (Fin n) ℝ}
    (hA : Spec.noisy (gramMatrix (Kernels.kernel kind alpha (List.ofFn l)) (fun i => List.ofFn (x i))) noise
      * Ainv = 1) (i : Fin q) :
    0 ≤ Spec.var
      (fun j => Kernels.kernel kind alpha (List.ofFn l) (List.ofFn (xs j)) (List.ofFn (xs j)))
      (crossMatrix (Kernels.kernel kind alpha (List.ofFn l)) (fun j => List.ofFn (xs j))
        (fun i => List.ofFn (x i)))
      Ainv i :=
  radial_post_var_nonneg kind ha l x xs (fun i => (hn i).le) hA
    (radial_noisy_posDef_of_noise_pos kind ha l x hn) i

/-- the covariance matrix likewise -/
theorem radial_post_cov_posSemidef_of_noise_pos (kind : Kernels.Kind) {alpha : ℝ} (ha : 0 ≤ alpha)
    (l : Fin d → ℝ) (x : Fin n → Fin d → ℝ) (xs : Fin q → Fin d → ℝ) {noise : Fin n → ℝ}
    (hn : ∀ i, 0 < noise i) {Ainv : Matrix (Fin n) (Fin n) ℝ}
    (hA : Spec.noisy (gramMatrix (Kernels.kernel kind alpha (List.ofFn l)) (fun i => List.ofFn (x i))) noise
      * Ainv = 1) :
    (Spec.cov
      (gramMatrix (Kernels.kernel kind alpha (List.ofFn l)) (fun j => List.ofFn (xs j)))
      (crossMatrix (Kernels.kernel kind alpha (List.ofFn l)) (fun j => List.ofFn (xs j))
        (fun i => List.ofFn (x i)))
      Ainv).PosSemidef :=
  radial_post_cov_posSemidef kind ha l x xs (fun i => (hn i).le) hA
    (radial_noisy_posDef_of_noise_pos kind ha l x hn)

/-! ### the multitask tensor kernel (physical kernel × task kernel); point = physical coordinates ++ [task] -/

theorem multitask_append_gram_posSemidef (kp kt : Kernels.Kind) {alpha : ℝ} (ha : 0 ≤ alpha) (l : Fin d → ℝ)
    (lt : ℝ) (x : Fin n → Fin d → ℝ) (t : Fin n → ℝ) (xs : Fin q → Fin d → ℝ) (ts : Fin q → ℝ) :
    (gramMatrix (Kernels.multitask kp kt alpha (List.ofFn l) lt)
      (Fin.append (fun i => List.ofFn (x i) ++ [t i]) (fun j => List.ofFn (xs j) ++ [ts j]))).PosSemidef := by
  have e := append_map (fun p : (Fin d → ℝ) × ℝ => List.ofFn p.1 ++ [p.2])
    (fun i => (x i, t i)) (fun j => (xs j, ts j))
  simp only at e
  rw [e]
  exact C03.multitask_gram_posSemidef kp kt ha l lt
    (fun i => (Fin.append (fun i => (x i, t i)) (fun j => (xs j, ts j)) i).1)
    (fun i => (Fin.append (fun i => (x i, t i)) (fun j => (xs j, ts j)) i).2)

theorem multitask_joint_posSemidef (kp kt : Kernels.Kind) {alpha : ℝ} (ha : 0 ≤ alpha) (l : Fin d → ℝ)
    (lt : ℝ) (x : Fin n → Fin d → ℝ) (t : Fin n → ℝ) (xs : Fin q → Fin d → ℝ) (ts : Fin q → ℝ) :
    (fromBlocks
      (gramMatrix (Kernels.multitask kp kt alpha (List.ofFn l) lt) (fun i => List.ofFn (x i) ++ [t i]))
      (crossMatrix (Kernels.multitask kp kt alpha (List.ofFn l) lt) (fun j => List.ofFn (xs j) ++ [ts j])
        (fun i => List.ofFn (x i) ++ [t i]))ᵀ
      (crossMatrix (Kernels.multitask kp kt alpha (List.ofFn l) lt) (fun j => List.ofFn (xs j) ++ [ts j])
        (fun i => List.ofFn (x i) ++ [t i]))
      (gramMatrix (Kernels.multitask kp kt alpha (List.ofFn l) lt)
        (fun j => List.ofFn (xs j) ++ [ts j]))).PosSemidef :=
  joint_posSemidef_of_gram (multitask_append_gram_posSemidef kp kt ha l lt x t xs ts)

theorem multitask_post_cov_posSemidef (kp kt : Kernels.Kind) {alpha : ℝ} (ha : 0 ≤ alpha) (l : Fin d → ℝ)
    (lt : ℝ) (x : Fin n → Fin d → ℝ) (t : Fin n → ℝ) (xs : Fin q → Fin d → ℝ) (ts : Fin q → ℝ)
    {noise : Fin n → ℝ} (hn : ∀ i, 0 ≤ noise i) {Ainv : Matrix (Fin n) (Fin n) ℝ}
    (hA : Spec.noisy (gramMatrix (Kernels.multitask kp kt alpha (List.ofFn l) lt)
      (fun i => List.ofFn (x i) ++ [t i])) noise * Ainv = 1)
    (hpd : (Spec.noisy (gramMatrix (Kernels.multitask kp kt alpha (List.ofFn l) lt)
      (fun i => List.ofFn (x i) ++ [t i])) noise).PosDef) :
    (Spec.cov
      (gramMatrix (Kernels.multitask kp kt alpha (List.ofFn l) lt) (fun j => List.ofFn (xs j) ++ [ts j]))
      (crossMatrix (Kernels.multitask kp kt alpha (List.ofFn l) lt) (fun j => List.ofFn (xs j) ++ [ts j])
        (fun i => List.ofFn (x i) ++ [t i]))
      Ainv).PosSemidef :=
  gram_post_cov_posSemidef (multitask_append_gram_posSemidef kp kt ha l lt x t xs ts) hn hA hpd

theorem multitask_post_var_nonneg (kp kt : Kernels.Kind) {alpha : ℝ} (ha : 0 ≤ alpha) (l : Fin d → ℝ)
    (lt : ℝ) (x : Fin n → Fin d → ℝ) (t : Fin n → ℝ) (xs : Fin q → Fin d → ℝ) (ts : Fin q → ℝ)
    {noise : Fin n → ℝ} (hn : ∀ i, 0 ≤ noise i) {Ainv : Matrix (Fin n) (Fin n) ℝ}
    (hA : Spec.noisy (gramMatrix (Kernels.multitask kp kt alpha (List.ofFn l) lt)
      (fun i => List.ofFn (x i) ++ [t i])) noise * Ainv = 1)
    (hpd : (Spec.noisy (gramMatrix (Kernels.multitask kp kt alpha (List.ofFn l) lt)
      (fun i => List.ofFn (x i) ++ [t i])) noise).PosDef) (i : Fin q) :
    0 ≤ Spec.var
      (fun j => Kernels.multitask kp kt alpha (List.ofFn l) lt (List.ofFn (xs j) ++ [ts j])
        (List.ofFn (xs j) ++ [ts j]))
      (crossMatrix (Kernels.multitask kp kt alpha (List.ofFn l) lt) (fun j => List.ofFn (xs j) ++ [ts j])
        (fun i => List.ofFn (x i) ++ [t i]))
      Ainv i :=
  gram_post_var_nonneg (multitask_append_gram_posSemidef kp kt ha l lt x t xs ts) hn hA hpd i

theorem multitask_post_var_nonneg_of_noise_pos (kp kt : Kernels.Kind) {alpha : ℝ} (ha : 0 ≤ alpha)
    (l : Fin d → ℝ) (lt : ℝ) (x : Fin n → Fin d → ℝ) (t : Fin n → ℝ) (xs : Fin q → Fin d → ℝ)
    (ts : Fin q → ℝ) {noise : Fin n → ℝ} (hn : ∀ i, 0 < noise i) {Ainv : Matrix (Fin n) (Fin n) ℝ}
    (hA : Spec.noisy (gramMatrix (Kernels.multitask kp kt alpha (List.ofFn l) lt)
      (fun i => List.ofFn (x i) ++ [t i])) noise * Ainv = 1) (i : Fin q) :
    0 ≤ Spec.var
      (fun j => Kernels.multitask kp kt alpha (List.ofFn l) lt (List.ofFn (xs j) ++ [ts j])
        (List.ofFn (xs j) ++ [ts j]))
      (crossMatrix (Kernels.multitask kp kt alpha (List.ofFn l) lt) (fun j => List.ofFn (xs j) ++ [ts j])
        (fun i => List.ofFn (x i) ++ [t i]))
      Ainv i :=
  gram_post_var_nonneg_of_noise_pos (multitask_append_gram_posSemidef kp kt ha l lt x t xs ts) hn hA i

/-! ### non-vacuity of the composed statements -/

/-- Two observed points 0 and 1 on the line, one query point 1/2, square exponential kernel with
    `alpha = 1`, length scale 1, noise variance 1/10 on both observations: the two remaining hypotheses
    hold (with `Ainv = A⁻¹`), so the posterior variance at the query point is non-negative. -/
example :
    let k := Kernels.kernel Kernels.Kind.se (1 : ℝ) (List.ofFn ![(1 : ℝ)])
    let X : Fin 2 → List ℝ := fun i => List.ofFn ((![![0], ![1]] : Fin 2 → Fin 1 → ℝ) i)
    let Q : Fin 1 → List ℝ := fun j => List.ofFn ((![![1 / 2]] : Fin 1 → Fin 1 → ℝ) j)
    let A := Spec.noisy (gramMatrix k X) (fun _ => 1 / 10)
    ∃ Ainv : Matrix (Fin 2) (Fin 2) ℝ, A * Ainv = 1 ∧ A.PosDef ∧
      (Spec.cov (gramMatrix k Q) (crossMatrix k Q X) Ainv).PosSemidef ∧
      0 ≤ Spec.var (fun j => k (Q j) (Q j)) (crossMatrix k Q X) Ainv 0 := by
  intro k X Q A
  have hn : ∀ i : Fin 2, (0 : ℝ) < (fun _ => 1 / 10 : Fin 2 → ℝ) i := fun _ => by norm_num
  have hpd : A.PosDef :=
    radial_noisy_posDef_of_noise_pos Kernels.Kind.se zero_le_one ![(1 : ℝ)] ![![0], ![1]] hn
  have hA : A * A⁻¹ = 1 := posDef_mul_inv hpd
  exact ⟨A⁻¹, hA, hpd,
    radial_post_cov_posSemidef Kernels.Kind.se zero_le_one ![(1 : ℝ)] ![![0], ![1]] ![![1 / 2]]
      (fun i => (hn i).le) hA hpd,
    radial_post_var_nonneg Kernels.Kind.se zero_le_one ![(1 : ℝ)] ![![0], ![1]] ![![1 / 2]]
      (fun i => (hn i).le) hA hpd 0⟩

/-- `A.PosDef` is a genuine hypothesis when the noise is zero: a duplicated observed point makes
    `A = K(X,X)` singular (two equal rows), so no `Ainv` with `A * Ainv = 1` exists. -/
example (kind : Kernels.Kind) (alpha : ℝ) (l : Fin d → ℝ) (p : Fin d → ℝ) :
    ¬ ∃ Ainv : Matrix (Fin 2) (Fin 2) ℝ,
      Spec.noisy (gramMatrix (Kernels.kernel kind alpha (List.ofFn l)) (fun _ : Fin 2 => List.ofFn p))
        (fun _ => 0) * Ainv = 1 := by
  rintro ⟨Ainv, h⟩
  have h00 := congrFun (congrFun h 0) 0
  have h10 := congrFun (congrFun h 1) 0
  simp [Spec.noisy, Matrix.mul_apply, Fin.sum_univ_two] at h00 h10
  linarith

end Kernel

end C02
