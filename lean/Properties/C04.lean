/-
  C04 — Every analytic gradient is the derivative of the value it accompanies.
  Property theorems only (helpers: Proofs/C04Radial, C04Lists, C04Kernel, C04Chain, C04Gauss, C04Jacobi, C04Symm,
  C04Compose; section 9 also uses Properties/C02 and, through it, Properties/C03).

  All statements are over ℝ (the `Arith ℝ` instance of the SAME definitions the driver runs on `Float`):
  Model/Kernels.lean (values) and Model/C04.lean (gradients).  "Along coordinate j" is expressed with
  `List.set`: `u ↦ f (x.set j u)`; the derivative is Mathlib's `HasDerivAt`.  No bound on dimensions or
  list lengths; coincident points are included (the gradient formulas never divide by r).

  Φ, the normal CDF, is an arbitrary function in the chain-rule theorems; each lists exactly the
  derivative fact it uses (`HasDerivAt Φ (pdf C z) z`).  `normal_cdf_hasDerivAt` proves that fact for
  Mathlib's Gaussian and sqrt(2π), `ei_inner_nonneg_gaussian` proves the positivity EI needs, and the
  `_gaussian` corollaries have no hypothesis on Φ left.
-/
import Model.C04
import Proofs.C04Radial
import Proofs.C04Lists
import Proofs.C04Kernel
import Proofs.C04Chain
import Proofs.C04Gauss
import Proofs.C04Mills
import Proofs.C04Jacobi
import Proofs.C04Symm
import Proofs.C04Compose
import Proofs.C04Cholesky
import Properties.C02

namespace C04
open Kernels

/-! ### Side lemmas on generated constants (a changed constant breaks exactly these) -/

theorem gen_exponentCap : exponentCapQ = 40 := by norm_num [exponentCapQ]
theorem gen_minKrigingVar_pos : 0 < minKrigingVarQ := by norm_num [minKrigingVarQ]
theorem gen_lowerFloor_pos : 0 < lowerFloorQ := by norm_num [lowerFloorQ]

/-! ## 1. Radial kernels -/

/-- The three differentiable profiles, as functions of the distance r, have derivative
    `r · dphiR r` — the factor the code multiplies with `diff / l²` (no division by r). -/
theorem profile_deriv (k : Kind) (hk : differentiable k = true) (r : ℝ) :
    HasDerivAt (fun r => phiR k r) (r * dphiR k r) r := by
  have h : (fun r : ℝ => phiR k r) = profile k := funext (phiR_eq_profile k)
  rw [h]
  exact profile_hasDerivAt k hk r

/-- **kernel_grad_x** — for every differentiable kernel, all list lengths, every coordinate j and every
    value t of that coordinate (in particular where the two points coincide), entry j of the model
    gradient is the derivative of the kernel value along coordinate j of the first point. -/
theorem kernel_grad_x (k : Kind) (hk : differentiable k = true) (alpha : ℝ) (ls x z : List ℝ)
    (j : Nat) (t : ℝ) :
    HasDerivAt (fun u => kernel k alpha ls (x.set j u) z)
      ((gradKernelX k alpha ls (x.set j t) z).getD j 0) t :=
  kernel_x_hasDerivAt k hk alpha ls x z j t

/-- the same at the point itself -/
theorem kernel_grad_x_at (k : Kind) (hk : differentiable k = true) (alpha : ℝ) (ls x z : List ℝ)
    (j : Nat) (hj : j < x.length) :
    HasDerivAt (fun u => kernel k alpha ls (x.set j u) z) ((gradKernelX k alpha ls x z).getD j 0) x[j] := by
  have := kernel_grad_x k hk alpha ls x z j x[j]
  rwa [List.set_getElem_self] at this

/-- **coincident points**: at x = z every gradient entry is exactly 0 and it IS the derivative
    (the kernel, as a function of one coordinate of x, has a genuine two-sided derivative 0 there). -/
theorem kernel_grad_x_coincident (k : Kind) (hk : differentiable k = true) (alpha : ℝ) (ls x : List ℝ)
    (j : Nat) (hj : j < x.length) :
    (gradKernelX k alpha ls x x).getD j 0 = 0 ∧
      HasDerivAt (fun u => kernel k alpha ls (x.set j u) x) 0 x[j] := by
  have h0 : (gradKernelX k alpha ls x x).getD j 0 = 0 := by
    rw [gradKernelX, gradRowWith, scaleBy_getD, gradCoords_self, mul_zero]
  refine ⟨h0, ?_⟩
  have := kernel_grad_x_at k hk alpha ls x x j hj
  rwa [h0] at this

/-- **kernel_grad_l** — entry j+1 of the hyperparameter gradient is the derivative along length scale j
    (length scales are non-zero; the code enforces > 0). -/
theorem kernel_grad_l (k : Kind) (hk : differentiable k = true) (alpha : ℝ) (ls x z : List ℝ)
    (j : Nat) (t : ℝ) (ht : t ≠ 0) :
    HasDerivAt (fun u => kernel k alpha (ls.set j u) x z)
      ((gradKernelH k alpha (ls.set j t) x z).getD (j + 1) 0) t :=
  kernel_l_hasDerivAt k hk alpha ls x z j t ht

theorem kernel_grad_l_at (k : Kind) (hk : differentiable k = true) (alpha : ℝ) (ls x z : List ℝ)
    (j : Nat) (hj : j < ls.length) (hl : ls[j] ≠ 0) :
    HasDerivAt (fun u => kernel k alpha (ls.set j u) x z) ((gradKernelH k alpha ls x z).getD (j + 1) 0) ls[j] := by
  have := kernel_grad_l k hk alpha ls x z j ls[j] hl
  rwa [List.set_getElem_self] at this

/-- **kernel_grad_alpha** — entry 0 of the hyperparameter gradient (the kernel value without alpha) is
    the derivative w.r.t. the process variance. -/
theorem kernel_grad_alpha (k : Kind) (alpha : ℝ) (ls x z : List ℝ) :
    HasDerivAt (fun a => kernel k a ls x z) ((gradKernelH k alpha ls x z).getD 0 0) alpha := by
  have := (hasDerivAt_id alpha).mul_const (phi k (r2 ls x z))
  simpa [kernel, gradKernelH, hparamRowWith] using this

/-- At coincident points the length-scale gradient vanishes too. -/
theorem kernel_grad_l_coincident (k : Kind) (alpha : ℝ) (ls x : List ℝ) (j : Nat) :
    (gradKernelH k alpha ls x x).getD (j + 1) 0 = 0 := by
  rw [gradKernelH, hparamRowWith, List.getD_cons_succ, scaleBy_getD, hparamCoords_self, mul_zero]

/-- **entry points agree** — the pairwise path (`grad_covariance`, through r = sqrt r²), the symmetric
    tensor (`pdist`) and the cross tensor (expanded square, clamped) all return the closed form. -/
theorem grad_entrypoints_agree (k : Kind) (alpha : ℝ) (ls : List ℝ) (X Z : List (List ℝ))
    (hlen : ∀ z ∈ Z, ∀ x ∈ X, z.length = x.length) :
    (∀ x z, gradCovariance k alpha ls x z = gradKernelX k alpha ls x z) ∧
    gradTensor k alpha ls X = X.map (fun xi => X.map fun xj => gradKernelX k alpha ls xi xj) ∧
    gradCrossTensor k alpha ls X Z = Z.map (fun zi => X.map fun xj => gradKernelX k alpha ls zi xj) := by
  refine ⟨gradCovariance_eq' k alpha ls, ?_, ?_⟩
  · simp only [gradTensor, gradRowWith_scaled]
  · unfold gradCrossTensor
    refine List.map_congr_left fun zi hz => List.map_congr_left fun xj hx => ?_
    exact gradRowWith_expanded k alpha ls zi xj (hlen zi hz xj hx)

theorem hparam_entrypoints_agree (k : Kind) (alpha : ℝ) (ls : List ℝ) (X Z : List (List ℝ))
    (hlen : ∀ z ∈ Z, ∀ x ∈ X, z.length = x.length) :
    (∀ x z, hyperGradCovariance k alpha ls x z = gradKernelH k alpha ls x z) ∧
    hparamTensor k alpha ls X = X.map (fun xi => X.map fun xj => gradKernelH k alpha ls xi xj) ∧
    hparamCrossTensor k alpha ls X Z = Z.map (fun zi => X.map fun xj => gradKernelH k alpha ls zi xj) := by
  refine ⟨hyperGradCovariance_eq' k alpha ls, ?_, ?_⟩
  · simp only [hparamTensor, hparamRowWith_scaled]
  · unfold hparamCrossTensor
    refine List.map_congr_left fun zi hz => List.map_congr_left fun xj hx => ?_
    exact hparamRowWith_expanded k alpha ls zi xj (hlen zi hz xj hx)

/-- non-vacuity / sanity: C4 kernel, l = 2, x = 3, z = 1: r = 1, ∂k/∂x = −(1/3)(1+r)e^{−r}(x−z)/l² -/
example : gradKernelX Kind.c4 (1 : ℝ) [2] [3] [1] = [-(1 / 3) * (1 + 1) * Real.exp (-1) * (3 - 1) / (2 * 2)] := by
  have h : Real.sqrt ((3 - 1 : ℝ) / 2 * ((3 - 1) / 2)) = 1 := by
    rw [Real.sqrt_mul_self (by norm_num)]; norm_num
  simp [gradKernelX, gradRowWith, scaleBy, dphi, h]

/-! ## 2. Multitask tensor kernel (product rule).  A point with its task column is `xp ++ [xt]`. -/

/-- physical coordinate j -/
theorem multitask_grad_phys (kp kt : Kind) (hk : differentiable kp = true) (alpha : ℝ) (ls : List ℝ) (lt : ℝ)
    (xp zp : List ℝ) (xt zt : ℝ) (hx : xp.length = ls.length) (hz : zp.length = ls.length)
    (j : Nat) (hj : j < ls.length) (t : ℝ) :
    HasDerivAt (fun u => multitask kp kt alpha ls lt (xp.set j u ++ [xt]) (zp ++ [zt]))
      ((mtGradKernelX kp kt alpha ls lt (xp.set j t ++ [xt]) (zp ++ [zt])).getD j 0) t := by
  simp only [multitask_concat]
  have h := ((profSq_x_hasDerivAt kp hk ls xp zp j t).mul_const (profSq kt (r2 [lt] [xt] [zt]))).const_mul alpha
  refine h.congr_deriv ?_
  have hl : j < (gradCoords (dphi kp (r2 ls (xp.set j t) zp)) ls (xp.set j t) zp).length := by
    rw [gradCoords_length _ _ _ _ (by simpa using hx) hz]; exact hj
  rw [mtGradKernelX_concat, scaleBy_getD, append_getD_lt _ _ (by simpa using hl), map_getD_lt _ _ hl]

/-- the task coordinate (index = number of physical coordinates) -/
theorem multitask_grad_task (kp kt : Kind) (hk : differentiable kt = true) (alpha : ℝ) (ls : List ℝ) (lt : ℝ)
    (xp zp : List ℝ) (zt : ℝ) (hx : xp.length = ls.length) (hz : zp.length = ls.length) (t : ℝ) :
    HasDerivAt (fun u => multitask kp kt alpha ls lt (xp ++ [u]) (zp ++ [zt]))
      ((mtGradKernelX kp kt alpha ls lt (xp ++ [t]) (zp ++ [zt])).getD ls.length 0) t := by
  simp only [multitask_concat]
  have h0 := profSq_x_hasDerivAt kt hk [lt] [t] [zt] 0 t
  simp only [List.set_cons_zero] at h0
  have h := (h0.const_mul (profSq kp (r2 ls xp zp))).const_mul alpha
  refine h.congr_deriv ?_
  have hl : (List.map (fun x => x * profSq kt (r2 [lt] [t] [zt]))
      (gradCoords (dphi kp (r2 ls xp zp)) ls xp zp)).length = ls.length := by
    rw [List.length_map, gradCoords_length _ _ _ _ hx hz]
  rw [mtGradKernelX_concat, scaleBy_getD]
  have := append_getD_ge (List.map (fun x => x * profSq kt (r2 [lt] [t] [zt]))
      (gradCoords (dphi kp (r2 ls xp zp)) ls xp zp))
    (List.map (fun x => x * profSq kp (r2 ls xp zp)) (gradCoords (dphi kt (r2 [lt] [t] [zt])) [lt] [t] [zt])) 0
  rw [hl, Nat.add_zero] at this
  rw [this]
  simp only [gradCoords_cons, gradCoords_nil_left, hparamCoords_cons, hparamCoords_nil_left, List.map_cons,
    List.map_nil, List.getD_cons_zero]
  ring

/-- physical length scale j (hyperparameter index j + 1) -/
theorem multitask_grad_l_phys (kp kt : Kind) (hk : differentiable kp = true) (alpha : ℝ) (ls : List ℝ) (lt : ℝ)
    (xp zp : List ℝ) (xt zt : ℝ) (hx : xp.length = ls.length) (hz : zp.length = ls.length)
    (j : Nat) (hj : j < ls.length) (t : ℝ) (ht : t ≠ 0) :
    HasDerivAt (fun u => multitask kp kt alpha (ls.set j u) lt (xp ++ [xt]) (zp ++ [zt]))
      ((mtGradKernelH kp kt alpha (ls.set j t) lt (xp ++ [xt]) (zp ++ [zt])).getD (j + 1) 0) t := by
  simp only [multitask_concat]
  have h := ((profSq_l_hasDerivAt kp hk ls xp zp j t ht).mul_const (profSq kt (r2 [lt] [xt] [zt]))).const_mul alpha
  refine h.congr_deriv ?_
  have hl : j < (hparamCoords (hphi kp (r2 (ls.set j t) xp zp)) (ls.set j t) xp zp).length := by
    rw [hparamCoords_length _ _ _ _ (by simpa using hx) (by simpa using hz)]; simpa using hj
  rw [mtGradKernelH_concat, List.getD_cons_succ, scaleBy_getD, append_getD_lt _ _ (by simpa using hl),
    map_getD_lt _ _ hl]

/-- the task length scale (last hyperparameter, index d + 1) -/
theorem multitask_grad_l_task (kp kt : Kind) (hk : differentiable kt = true) (alpha : ℝ) (ls : List ℝ)
    (xp zp : List ℝ) (xt zt : ℝ) (hx : xp.length = ls.length) (hz : zp.length = ls.length) (t : ℝ) (ht : t ≠ 0) :
    HasDerivAt (fun u => multitask kp kt alpha ls u (xp ++ [xt]) (zp ++ [zt]))
      ((mtGradKernelH kp kt alpha ls t (xp ++ [xt]) (zp ++ [zt])).getD (ls.length + 1) 0) t := by
  simp only [multitask_concat]
  have h0 := profSq_l_hasDerivAt kt hk [t] [xt] [zt] 0 t ht
  simp only [List.set_cons_zero] at h0
  have h := (h0.const_mul (profSq kp (r2 ls xp zp))).const_mul alpha
  refine h.congr_deriv ?_
  have hl : (List.map (fun x => x * profSq kt (r2 [t] [xt] [zt]))
      (hparamCoords (hphi kp (r2 ls xp zp)) ls xp zp)).length = ls.length := by
    rw [List.length_map, hparamCoords_length _ _ _ _ hx hz]
  rw [mtGradKernelH_concat, List.getD_cons_succ, scaleBy_getD]
  have := append_getD_ge (List.map (fun x => x * profSq kt (r2 [t] [xt] [zt]))
      (hparamCoords (hphi kp (r2 ls xp zp)) ls xp zp))
    (List.map (fun x => x * profSq kp (r2 ls xp zp)) (hparamCoords (hphi kt (r2 [t] [xt] [zt])) [t] [xt] [zt])) 0
  rw [hl, Nat.add_zero] at this
  rw [this]
  simp only [gradCoords_cons, gradCoords_nil_left, hparamCoords_cons, hparamCoords_nil_left, List.map_cons,
    List.map_nil, List.getD_cons_zero]
  ring

/-- process variance of the tensor kernel (entry 0 = product of the two profiles) -/
theorem multitask_grad_alpha (kp kt : Kind) (alpha : ℝ) (ls : List ℝ) (lt : ℝ) (x z : List ℝ) :
    HasDerivAt (fun a => multitask kp kt a ls lt x z) ((mtGradKernelH kp kt alpha ls lt x z).getD 0 0) alpha := by
  have := (hasDerivAt_id alpha).mul_const
    (phi kp (r2 ls (physPart x) (physPart z)) * phi kt (r2 [lt] (taskPart x) (taskPart z)))
  simpa [multitask, mtGradKernelH, mtHparamRowWith] using this

/-- all multitask entry points return the closed form (`x`, `z` of equal length for the cross path) -/
theorem multitask_entrypoints_agree (kp kt : Kind) (alpha : ℝ) (ls : List ℝ) (lt : ℝ) (x z : List ℝ)
    (h : x.length = z.length) :
    mtGradCovariance kp kt alpha ls lt x z = mtGradKernelX kp kt alpha ls lt x z ∧
    mtHyperGradCovariance kp kt alpha ls lt x z = mtGradKernelH kp kt alpha ls lt x z ∧
    mtGradRowWith r2Scaled kp kt alpha ls lt x z = mtGradKernelX kp kt alpha ls lt x z ∧
    mtGradRowWith r2Expanded kp kt alpha ls lt x z = mtGradKernelX kp kt alpha ls lt x z ∧
    mtHparamRowWith r2Scaled kp kt alpha ls lt x z = mtGradKernelH kp kt alpha ls lt x z ∧
    mtHparamRowWith r2Expanded kp kt alpha ls lt x z = mtGradKernelH kp kt alpha ls lt x z := by
  have hp : (physPart x).length = (physPart z).length := by simp [physPart, h]
  have ht : (taskPart x).length = (taskPart z).length := by simp [taskPart, h]
  have e1 := r2Expanded_eq ls (physPart x) (physPart z) hp
  have e2 := r2Expanded_eq [lt] (taskPart x) (taskPart z) ht
  refine ⟨?_, ?_, ?_, ?_, ?_, ?_⟩
  · simp only [mtGradCovariance, mtGradKernelX, mtGradRowWith, Arith.real_sqrt,
      ← dphi_eq_dphiR_sqrt _ (r2_nonneg' _ _ _), phiR_sqrt' _ (r2_nonneg' _ _ _)]
  · simp only [mtHyperGradCovariance, mtGradKernelH, mtHparamRowWith, Arith.real_sqrt,
      ← hphi_eq_hphiR_sqrt _ (r2_nonneg' _ _ _), phiR_sqrt' _ (r2_nonneg' _ _ _)]
  · simp only [mtGradRowWith, mtGradKernelX, r2Scaled_eq]
  · simp only [mtGradRowWith, mtGradKernelX, e1, e2]
  · simp only [mtHparamRowWith, mtGradKernelH, r2Scaled_eq]
  · simp only [mtHparamRowWith, mtGradKernelH, e1, e2]

/-! ## 3. Polynomial mean and the GP posterior -/

/-- **poly_grad** — `build_grad_polynomial_tensor` is the derivative of `build_polynomial_matrix`
    (with 0⁰ = 1 and "exponent 0 ⇒ entry 0"). -/
theorem poly_grad (es : List Nat) (x : List ℝ) (d : Nat) (t : ℝ) :
    HasDerivAt (fun u => polyTerm es (x.set d u)) (polyGradTerm es (x.set d t) d) t :=
  polyTerm_hasDerivAt es x d t

/-- **gp_mean_grad** — the posterior mean is linear in the cross-kernel vector and the polynomial row:
    whatever the entry-wise derivatives `dk`, `dp` are, the mean has derivative `dk·w + dp·β`. -/
theorem gp_mean_grad {ks ps : List (ℝ → ℝ)} {dk dp : List ℝ} {t : ℝ} (hk : DerivList ks dk t)
    (hp : DerivList ps dp t) (w beta : List ℝ) :
    HasDerivAt (fun u => gpMean (evalAt ks u) w (evalAt ps u) beta) (dot dk w + dot dp beta) t :=
  (dot_const_hasDerivAt hk w).add (dot_const_hasDerivAt hp beta)

/-- … instantiated with the kernel and the polynomial basis: entry j of `_compute_grad_mean_of_points`
    is the derivative of `_compute_mean_of_points` along coordinate j, for any weights, at any point
    (interior, on a data point, far away). -/
theorem gp_mean_grad_kernel (k : Kind) (hk : differentiable k = true) (alpha : ℝ) (ls : List ℝ)
    (X : List (List ℝ)) (w beta : List ℝ) (indices : List (List Nat)) (x : List ℝ) (j : Nat)
    (hj : j < x.length) (t : ℝ) :
    HasDerivAt
      (fun u => gpMean (X.map fun xi => kernel k alpha ls (x.set j u) xi) w (polyRow indices (x.set j u)) beta)
      ((gpGradMean (X.map fun xi => gradKernelX k alpha ls (x.set j t) xi) w
          (polyGradRows indices (x.set j t)) beta x.length).getD j 0) t := by
  have h := gp_mean_grad (crossKernel_derivList k hk alpha ls x X j t) (polyRow_derivList indices x j hj t) w beta
  simp only [evalAt_crossKernel, evalAt_polyRow] at h
  unfold gpGradMean
  rw [range_map_getD _ hj]
  exact h

/-- **gp_var_grad** — `k(x,x) − kᵀBk` with constant `k(x,x)` (translation invariance) and a constant
    self-adjoint `B` (= K⁻¹) has derivative `−2 dk·(B k)`.
    `B` is any list of rows here and self-adjointness is a hypothesis `hB`.  The hypothesis is discharged
    below: `selfAdjoint_ofFnM` proves it for the row-list encoding `ofFnM B` of every symmetric n × n matrix,
    for ALL lists `u v` (any lengths: `dot` stops at the shorter list, which acts as truncation / zero
    padding to length n), and `gp_var_grad_posDef` / `gp_var_grad_kernel_posDef` are this theorem and the
    next one with `B := ofFnM K⁻¹` for a positive definite (or merely symmetric) `K` and no `hB` left. -/
theorem gp_var_grad {ks : List (ℝ → ℝ)} {dk : List ℝ} {t : ℝ} (hk : DerivList ks dk t) (kxx : ℝ)
    (B : List (List ℝ)) (hB : ∀ u v : List ℝ, dot u (matVec B v) = dot v (matVec B u)) :
    HasDerivAt (fun u => gpVarRaw kxx (evalAt ks u) B) (-2 * dot dk (matVec B (evalAt ks t))) t := by
  have := (hasDerivAt_const t kxx).sub (quadForm_hasDerivAt hk B hB)
  unfold gpVarRaw
  refine this.congr_deriv ?_
  ring

/-- the hypothesis on `B` is satisfiable (a symmetric 2 × 2 matrix) -/
example : ∀ u v : List ℝ, dot u (matVec [[2, 1], [1, 3]] v) = dot v (matVec [[2, 1], [1, 3]] u) := by
  intro u v
  rcases u with _ | ⟨a, _ | ⟨b, u⟩⟩ <;> rcases v with _ | ⟨c, _ | ⟨d, v⟩⟩ <;> simp <;> ring

/-- … instantiated with the kernel: entry j of `_compute_grad_variance_of_points` is the derivative of
    the unclamped posterior variance along coordinate j. -/
theorem gp_var_grad_kernel (k : Kind) (hk : differentiable k = true) (alpha : ℝ) (ls : List ℝ)
    (X : List (List ℝ)) (B : List (List ℝ)) (hB : ∀ u v : List ℝ, dot u (matVec B v) = dot v (matVec B u))
    (x : List ℝ) (j : Nat) (hj : j < x.length) (t : ℝ) :
    HasDerivAt
      (fun u => gpVarRaw (kernel k alpha ls (x.set j u) (x.set j u))
        (X.map fun xi => kernel k alpha ls (x.set j u) xi) B)
      ((gpGradVar (X.map fun xi => gradKernelX k alpha ls (x.set j t) xi)
          (X.map fun xi => kernel k alpha ls (x.set j t) xi) B x.length).getD j 0) t := by
  have h := gp_var_grad (crossKernel_derivList k hk alpha ls x X j t) alpha B hB
  simp only [evalAt_crossKernel] at h
  simp only [kernel_self']
  unfold gpGradVar
  rw [range_map_getD _ hj]
  simpa [two_real] using h

/-- **selfAdjoint_ofFnM** — the hypothesis `hB` of `gp_var_grad` holds for the row-list encoding of every
    symmetric matrix, for all lists `u v` whatever their lengths (entries of `u`, `v` beyond position n are
    ignored, missing ones count as zero). -/
theorem selfAdjoint_ofFnM {n : ℕ} (B : Matrix (Fin n) (Fin n) ℝ) (hB : B.IsSymm) :
    ∀ u v : List ℝ, dot u (matVec (ofFnM B) v) = dot v (matVec (ofFnM B) u) :=
  dot_matVec_ofFnM_symm B hB

/-- … and only for those: self-adjointness on lists of length n forces the matrix to be symmetric -/
theorem selfAdjoint_ofFnM_iff {n : ℕ} (B : Matrix (Fin n) (Fin n) ℝ) :
    (∀ u v : List ℝ, dot u (matVec (ofFnM B) v) = dot v (matVec (ofFnM B) u)) ↔ B.IsSymm :=
  ⟨fun h => isSymm_of_selfAdjoint B fun u v _ _ => h u v, selfAdjoint_ofFnM B⟩

/-- **gp_var_grad_symm** — `gp_var_grad` with `B = K⁻¹` for a symmetric `K`, no hypothesis on `B` left
    (for singular `K` Mathlib's `K⁻¹` is the zero matrix and the statement is still true). -/
theorem gp_var_grad_symm {n : ℕ} {ks : List (ℝ → ℝ)} {dk : List ℝ} {t : ℝ} (hk : DerivList ks dk t) (kxx : ℝ)
    (K : Matrix (Fin n) (Fin n) ℝ) (hK : K.IsSymm) :
    HasDerivAt (fun u => gpVarRaw kxx (evalAt ks u) (ofFnM K⁻¹))
      (-2 * dot dk (matVec (ofFnM K⁻¹) (evalAt ks t))) t :=
  gp_var_grad hk kxx (ofFnM K⁻¹) (selfAdjoint_inv_of_isSymm K hK)

/-- **gp_var_grad_posDef** — `gp_var_grad` with `B = K⁻¹` for a positive definite `K` -/
theorem gp_var_grad_posDef {n : ℕ} {ks : List (ℝ → ℝ)} {dk : List ℝ} {t : ℝ} (hk : DerivList ks dk t) (kxx : ℝ)
    (K : Matrix (Fin n) (Fin n) ℝ) (hK : K.PosDef) :
    HasDerivAt (fun u => gpVarRaw kxx (evalAt ks u) (ofFnM K⁻¹))
      (-2 * dot dk (matVec (ofFnM K⁻¹) (evalAt ks t))) t :=
  gp_var_grad_symm hk kxx K (isSymm_of_posDef hK)

/-- **gp_var_grad_kernel_symm** — `gp_var_grad_kernel` with `B = K⁻¹` for a symmetric `K` -/
theorem gp_var_grad_kernel_symm {n : ℕ} (k : Kind) (hk : differentiable k = true) (alpha : ℝ) (ls : List ℝ)
    (X : List (List ℝ)) (K : Matrix (Fin n) (Fin n) ℝ) (hK : K.IsSymm)
    (x : List ℝ) (j : Nat) (hj : j < x.length) (t : ℝ) :
    HasDerivAt
      (fun u => gpVarRaw (kernel k alpha ls (x.set j u) (x.set j u))
        (X.map fun xi => kernel k alpha ls (x.set j u) xi) (ofFnM K⁻¹))
      ((gpGradVar (X.map fun xi => gradKernelX k alpha ls (x.set j t) xi)
          (X.map fun xi => kernel k alpha ls (x.set j t) xi) (ofFnM K⁻¹) x.length).getD j 0) t :=
  gp_var_grad_kernel k hk alpha ls X (ofFnM K⁻¹) (selfAdjoint_inv_of_isSymm K hK) x j hj t

/-- **gp_var_grad_kernel_posDef** — entry j of `_compute_grad_variance_of_points` is the derivative of the
    unclamped posterior variance along coordinate j, with `K⁻¹` the inverse of a positive definite matrix
    (the kernel matrix plus noise) and no hypothesis on it left. -/
theorem gp_var_grad_kernel_posDef {n : ℕ} (k : Kind) (hk : differentiable k = true) (alpha : ℝ) (ls : List ℝ)
    (X : List (List ℝ)) (K : Matrix (Fin n) (Fin n) ℝ) (hK : K.PosDef)
    (x : List ℝ) (j : Nat) (hj : j < x.length) (t : ℝ) :
    HasDerivAt
      (fun u => gpVarRaw (kernel k alpha ls (x.set j u) (x.set j u))
        (X.map fun xi => kernel k alpha ls (x.set j u) xi) (ofFnM K⁻¹))
      ((gpGradVar (X.map fun xi => gradKernelX k alpha ls (x.set j t) xi)
          (X.map fun xi => kernel k alpha ls (x.set j t) xi) (ofFnM K⁻¹) x.length).getD j 0) t :=
  gp_var_grad_kernel_symm k hk alpha ls X K (isSymm_of_posDef hK) x j hj t

/-- non-vacuity: `exK3 = [[2,1,1],[1,2,1],[1,1,2]]` is positive definite (`exK3_posDef`), so the two theorems
    apply to it: three data points in the plane, squared-exponential kernel, derivative along coordinate 0 -/
example (alpha : ℝ) (ls : List ℝ) (a b t : ℝ) :
    HasDerivAt
      (fun u => gpVarRaw (kernel Kind.se alpha ls ([a, b].set 0 u) ([a, b].set 0 u))
        ([[0, 0], [1, 0], [0, 1]].map fun xi => kernel Kind.se alpha ls ([a, b].set 0 u) xi) (ofFnM exK3⁻¹))
      ((gpGradVar ([[0, 0], [1, 0], [0, 1]].map fun xi => gradKernelX Kind.se alpha ls ([a, b].set 0 t) xi)
          ([[0, 0], [1, 0], [0, 1]].map fun xi => kernel Kind.se alpha ls ([a, b].set 0 t) xi)
          (ofFnM exK3⁻¹) [a, b].length).getD 0 0) t :=
  gp_var_grad_kernel_posDef Kind.se rfl alpha ls _ exK3 exK3_posDef [a, b] 0 (by simp) t

/-- … and the matrix really is inverted there: `exK3⁻¹ = ¼ [[3,−1,−1],[−1,3,−1],[−1,−1,3]]` -/
example : exK3⁻¹ = (4 : ℝ)⁻¹ • !![3, -1, -1; -1, 3, -1; -1, -1, 3] := exK3_inv

/-- **gp_var_clamp** — `fmax(MINIMUM_KRIGING_VARIANCE, ·)` does not change the derivative wherever the
    unclamped variance exceeds the floor (where it does not, the returned value is the constant floor
    while the code still returns the unclamped gradient: that region is excluded, as implemented). -/
theorem gp_var_clamp {v : ℝ → ℝ} {v' t : ℝ} (hv : HasDerivAt v v' t) (h : (minKrigingVar : ℝ) < v t) :
    HasDerivAt (fun u => Arith.max (minKrigingVar : ℝ) (v u)) v' t :=
  max_hasDerivAt_of_lt hv h

/-- **gp_sum_grad** — `GaussianProcessSum`: mean Σ wᵢ mᵢ and variance Σ wᵢ² vᵢ are differentiated
    term by term with the same weights. -/
theorem gp_sum_grad {ms vs : List (ℝ → ℝ)} {dm dv : List ℝ} {t : ℝ} (hm : DerivList ms dm t)
    (hv : DerivList vs dv t) (ws : List ℝ) :
    HasDerivAt (fun u => gpSumMean ws (evalAt ms u)) (gpSumMean ws dm) t ∧
    HasDerivAt (fun u => gpSumVar ws (evalAt vs u)) (gpSumVar ws dv) t := by
  constructor
  · have := dot_const_hasDerivAt hm ws
    simpa [gpSumMean, dot_comm] using this
  · have := dot_const_hasDerivAt hv (ws.map sq)
    simpa [gpSumVar, dot_comm] using this

/-! ## 4. Core components, expected improvement -/

/-- `grad_sqrt_var = 0.5 · grad_var / sqrt_var` is the derivative of `sqrt(var)` where var > 0 -/
theorem sqrt_var_grad {v : ℝ → ℝ} {v' t : ℝ} (hv : HasDerivAt v v' t) (hpos : 0 < v t) :
    HasDerivAt (fun u => Arith.sqrt (v u)) (gradSqrtVar v' (Arith.sqrt (v t))) t :=
  sqrtVar_hasDerivAt hv hpos

/-- `pdf' = −z · pdf`, for every normalising constant -/
theorem normal_pdf_hasDerivAt (C z : ℝ) : HasDerivAt (pdf C) (-z * pdf C z) z := pdf_hasDerivAt C z

/-- **[stretch, proved]** Mathlib's standard normal CDF has derivative `pdf sqrt(2π)` -/
theorem normal_cdf_hasDerivAt (z : ℝ) : HasDerivAt stdNormalCdf (pdf sqrt2pi z) z := stdNormalCdf_hasDerivAt z

/-- **ei_grad** — with mean `m`, variance `v > 0` along a coordinate, incumbent `b`, any Φ whose
    derivative at z is `pdf C z`, and `zΦ(z) + pdf(z) > 0` (the `fmax(0, ·)` is inactive):
    `grad_sqrt_var · pdf − grad_mean · cdf` is the derivative of `sqrt_var · max(0, z cdf + pdf)`. -/
theorem ei_grad (Φ : ℝ → ℝ) (C b : ℝ) {m v : ℝ → ℝ} {m' v' t : ℝ} (hm : HasDerivAt m m' t)
    (hv : HasDerivAt v v' t) (hpos : 0 < v t)
    (hΦ : HasDerivAt Φ (pdf C (zScore b (m t) (Real.sqrt (v t)))) (zScore b (m t) (Real.sqrt (v t))))
    (hw : 0 < zScore b (m t) (Real.sqrt (v t)) * Φ (zScore b (m t) (Real.sqrt (v t)))
            + pdf C (zScore b (m t) (Real.sqrt (v t)))) :
    HasDerivAt
      (fun u => ei (Real.sqrt (v u)) (zScore b (m u) (Real.sqrt (v u)))
        (Φ (zScore b (m u) (Real.sqrt (v u)))) (pdf C (zScore b (m u) (Real.sqrt (v u)))))
      (eiGrad (gradSqrtVar v' (Real.sqrt (v t))) m'
        (Φ (zScore b (m t) (Real.sqrt (v t)))) (pdf C (zScore b (m t) (Real.sqrt (v t))))) t :=
  ei_hasDerivAt_aux Φ C b hm (sqrtVar_hasDerivAt hv hpos) (Real.sqrt_pos.mpr hpos).ne' hΦ hw

/-- **[stretch, proved]** for the Gaussian `zΦ(z) + φ(z) ≥ 0` at EVERY z (Mills-ratio bound), so the
    `fmax(0, ·)` in the EI value never cuts -/
theorem ei_inner_nonneg_gaussian (z : ℝ) : 0 ≤ z * stdNormalCdf z + pdf sqrt2pi z := ei_inner_nonneg z

/-- **ei_grad for the Gaussian CDF**: no hypothesis on Φ left — only differentiable mean and variance
    with positive variance. -/
theorem ei_grad_gaussian (b : ℝ) {m v : ℝ → ℝ} {m' v' t : ℝ} (hm : HasDerivAt m m' t)
    (hv : HasDerivAt v v' t) (hpos : 0 < v t) :
    HasDerivAt
      (fun u => ei (Real.sqrt (v u)) (zScore b (m u) (Real.sqrt (v u)))
        (stdNormalCdf (zScore b (m u) (Real.sqrt (v u)))) (pdf sqrt2pi (zScore b (m u) (Real.sqrt (v u)))))
      (eiGrad (gradSqrtVar v' (Real.sqrt (v t))) m'
        (stdNormalCdf (zScore b (m t) (Real.sqrt (v t)))) (pdf sqrt2pi (zScore b (m t) (Real.sqrt (v t))))) t :=
  ei_hasDerivAt_global stdNormalCdf sqrt2pi b hm (sqrtVar_hasDerivAt hv hpos) (Real.sqrt_pos.mpr hpos).ne'
    (stdNormalCdf_hasDerivAt _) ei_inner_nonneg

/-- the hypotheses of `ei_grad` are satisfiable: Φ(z) = z/2 + 1/2 with "pdf" constant C = 2 at z = 0
    (b = m, v = 1) -/
example : ∃ (Φ : ℝ → ℝ) (C : ℝ), HasDerivAt Φ (pdf C (zScore 0 0 (Real.sqrt 1))) (zScore 0 0 (Real.sqrt 1)) ∧
    0 < zScore 0 0 (Real.sqrt 1) * Φ (zScore 0 0 (Real.sqrt 1)) + pdf C (zScore 0 0 (Real.sqrt 1)) := by
  refine ⟨fun z => z / 2 + 1 / 2, 2, ?_, ?_⟩
  · have : HasDerivAt (fun z : ℝ => z / 2 + 1 / 2) (1 / 2) (zScore 0 0 (Real.sqrt 1)) :=
      ((hasDerivAt_id _).div_const 2).add_const _
    convert this using 1
    simp [pdf_real, zScore_real]
  · simp [pdf_real, zScore_real]

/-- **aei_penalty_grad** — `1 − sqrt(τ/(v+τ))`, τ ≥ 0 (τ = 0: penalty ≡ 1, gradient 0), v > 0 -/
theorem aei_penalty_grad {v : ℝ → ℝ} {v' t : ℝ} (tau : ℝ) (htau : 0 ≤ tau) (hv : HasDerivAt v v' t)
    (hpos : 0 < v t) :
    HasDerivAt (fun u => aeiPenalty (v u) tau) (aeiPenaltyGrad (v t) tau v') t :=
  aeiPenalty_hasDerivAt tau htau hv hpos

/-- **ei_penalty_grad** — `ExpectedImprovementWithPenalty` (AEI, EI with failures): product rule -/
theorem ei_penalty_grad {e p : ℝ → ℝ} {e' p' t : ℝ} (he : HasDerivAt e e' t) (hp : HasDerivAt p p' t) :
    HasDerivAt (fun u => penalized (e u) (p u)) (penalizedGrad (e t) e' (p t) p') t :=
  penalized_hasDerivAt he hp

/-! ## 5. Probabilistic failures -/

/-- **pf_logistic_grad** — below the exponent cap the implemented gradient is the derivative -/
theorem pf_logistic_grad {m : ℝ → ℝ} {m' t : ℝ} (kappa thr : ℝ) (hm : HasDerivAt m m' t)
    (hcap : kappa * (m t - thr) < 40) :
    HasDerivAt (fun u => pfLogistic kappa thr (m u)) (pfLogisticGrad kappa thr (m t) m') t :=
  pfLogistic_hasDerivAt_below kappa thr hm hcap

/-- **capped branch, as implemented** — beyond the cap the VALUE is locally constant
    (`1/(1+e⁴⁰)`, derivative 0) … -/
theorem pf_logistic_cap_value_constant {m : ℝ → ℝ} {m' t : ℝ} (kappa thr : ℝ) (hm : HasDerivAt m m' t)
    (hcap : 40 < kappa * (m t - thr)) :
    HasDerivAt (fun u => pfLogistic kappa thr (m u)) 0 t :=
  pfLogistic_hasDerivAt_above kappa thr hm hcap

/-- … while the code keeps the factor `exp(min(·, cap))` in the gradient: it returns
    `−κ e⁴⁰/(1+e⁴⁰)² · μ'`, which differs from the derivative 0 by at most `|κ μ'| e⁻⁴⁰`
    (4.2e-18 relative to κμ'; the harness allows exactly this window beyond the cap). -/
theorem pf_logistic_cap_grad_bound (kappa thr m m' : ℝ) (hcap : 40 < kappa * (m - thr)) :
    pfLogisticGrad kappa thr m m' = -kappa * Real.exp 40 / ((1 + Real.exp 40) * (1 + Real.exp 40)) * m' ∧
    |pfLogisticGrad kappa thr m m'| ≤ |kappa * m'| * Real.exp (-40) :=
  pfLogisticGrad_above_bound kappa thr m m' hcap

/-- **pf_cdf_grad** — `Φ((τ − μ)/σ)`; `−(pdf/σ)(μ' + z σ')` is its derivative given Φ' = pdf at z -/
theorem pf_cdf_grad (Φ : ℝ → ℝ) (C thr : ℝ) {m v : ℝ → ℝ} {m' v' t : ℝ} (hm : HasDerivAt m m' t)
    (hv : HasDerivAt v v' t) (hpos : 0 < v t)
    (hΦ : HasDerivAt Φ (pdf C (zScore thr (m t) (Real.sqrt (v t)))) (zScore thr (m t) (Real.sqrt (v t)))) :
    HasDerivAt (fun u => Φ (zScore thr (m u) (Real.sqrt (v u))))
      (pfCdfGrad (pdf C (zScore thr (m t) (Real.sqrt (v t)))) (Real.sqrt (v t)) m'
        (zScore thr (m t) (Real.sqrt (v t))) (gradSqrtVar v' (Real.sqrt (v t)))) t :=
  pfCdf_hasDerivAt Φ C thr hm (sqrtVar_hasDerivAt hv hpos) (Real.sqrt_pos.mpr hpos).ne' hΦ

/-- the Gaussian instance: no hypothesis on Φ left -/
theorem pf_cdf_grad_gaussian (thr : ℝ) {m v : ℝ → ℝ} {m' v' t : ℝ} (hm : HasDerivAt m m' t)
    (hv : HasDerivAt v v' t) (hpos : 0 < v t) :
    HasDerivAt (fun u => stdNormalCdf (zScore thr (m u) (Real.sqrt (v u))))
      (pfCdfGrad (pdf sqrt2pi (zScore thr (m t) (Real.sqrt (v t)))) (Real.sqrt (v t)) m'
        (zScore thr (m t) (Real.sqrt (v t))) (gradSqrtVar v' (Real.sqrt (v t)))) t :=
  pf_cdf_grad stdNormalCdf sqrt2pi thr hm hv hpos (stdNormalCdf_hasDerivAt _)

/-- **pf_product_grad** — Leibniz rule over a list of any length: `Σᵢ gᵢ Π_{j≠i} pⱼ` (products over the
    list with entry i removed, as the code forms them) is the derivative of `Π pᵢ`. -/
theorem pf_product_grad {ps : List (ℝ → ℝ)} {gs : List ℝ} {t : ℝ} (h : DerivList ps gs t) :
    HasDerivAt (fun u => pfProduct (evalAt ps u)) (pfProductGrad ((evalAt ps t).zip gs)) t :=
  prod_hasDerivAt h

/-- two factors: the familiar `g₁ p₂ + p₁ g₂` -/
example (p1 p2 g1 g2 : ℝ) : pfProductGrad [(p1, g1), (p2, g2)] = g1 * p2 + p1 * g2 := by
  simp [pfProductGrad, pfProductGradFrom]
  ring

/-! ## 6. Cost-scaled multitask acquisition -/

/-- physical coordinates: the cost (last coordinate) is constant -/
theorem cost_scaled_grad {f : ℝ → ℝ} {f' t : ℝ} (c : ℝ) (hf : HasDerivAt f f' t) :
    HasDerivAt (fun u => costScaled (f u) c) (costScaledGrad f' c) t :=
  costScaled_hasDerivAt c hf

/-- last coordinate = the cost itself: quotient rule `(g − af/c)/c` -/
theorem cost_scaled_grad_last {f : ℝ → ℝ} {f' t : ℝ} (hf : HasDerivAt f f' t) (ht : t ≠ 0) :
    HasDerivAt (fun u => costScaled (f u) u) (costScaledGradLast (f t) f' t) t :=
  costScaled_last_hasDerivAt hf ht

/-- the row assembled by `joint_function_gradient_eval`: all but the last entry divided by the cost,
    the last one by the quotient rule -/
theorem cost_scaled_row (af c : ℝ) (g : List ℝ) (gl : ℝ) :
    costScaledGradRow af (g ++ [gl]) c = g.map (fun gj => costScaledGrad gj c) ++ [costScaledGradLast af gl c] := by
  simp [costScaledGradRow]

/-! ## 7. Parzen estimator -/

/-- the kernel-mean density: its gradient is the mean of the kernel gradients; the floor added to the
    LOWER density is a constant and leaves the gradient unchanged -/
theorem parzen_density_grad {ks : List (ℝ → ℝ)} {dk : List ℝ} {t : ℝ} (hk : DerivList ks dk t) :
    HasDerivAt (fun u => C16.mean (evalAt ks u)) (C16.mean dk) t ∧
    HasDerivAt (fun u => C16.mean (evalAt ks u) + (lowerFloor : ℝ)) (C16.mean dk) t :=
  ⟨mean_hasDerivAt hk, (mean_hasDerivAt hk).add_const _⟩

/-- **parzen_ratio_grad** — `1/(γ + (g/l)(1−γ))`: `−ei²(1−γ)(l g' − g l')/l²` is its derivative -/
theorem parzen_ratio_grad {l g : ℝ → ℝ} {l' g' t : ℝ} (γ : ℝ) (hl : HasDerivAt l l' t) (hg : HasDerivAt g g' t)
    (hl0 : l t ≠ 0) (hden : γ + g t / l t * (1 - γ) ≠ 0) :
    HasDerivAt (fun u => C16.ratio γ (l u) (g u)) (parzenGrad γ (l t) (g t) l' g') t :=
  parzenRatio_hasDerivAt γ hl hg hl0 hden

/-- the denominators never vanish for the library's inputs: 0 < γ < 1, l ≥ floor > 0, g ≥ 0 -/
theorem parzen_ratio_grad_hyp (γ l g : ℝ) (h0 : 0 < γ) (h1 : γ < 1) (hg : 0 ≤ g) (hl : 0 < l) :
    l ≠ 0 ∧ γ + g / l * (1 - γ) ≠ 0 :=
  ⟨hl.ne', (C16.ratio_den_pos γ l g h0 h1 hg hl).ne'⟩

/-- **the repaired defect, quantified** — adding the floor to the gradient of the lower density (what
    `evaluate_lower_density(·, grad=True)` did) shifts the ratio gradient by `ei²(1−γ)·g·floor/l²`,
    which is non-zero whenever the greater density is. -/
theorem parzen_floor_defect (γ l g lg gg : ℝ) :
    parzenGrad γ l g (lg + lowerFloor) gg - parzenGrad γ l g lg gg
      = C16.ratio γ l g * C16.ratio γ l g * (1 - γ) * g * lowerFloor / (l * l) :=
  parzenGrad_floor_defect γ l g lg gg lowerFloor

/-! ## 8. Log marginal likelihood -/

/-- **log_domain_chain** — `d/da L(eᵃ) = L'(eᵃ)·eᵃ`: the factor `log_scaling = exp(hyperparameters)` -/
theorem log_domain_chain {L : ℝ → ℝ} {L' a : ℝ} (hL : HasDerivAt L L' (Real.exp a)) :
    HasDerivAt (fun a => L (Real.exp a)) (L' * Real.exp a) a :=
  logDomain_hasDerivAt hL

section LogLikMatrix
open scoped Matrix

/-  THE LOG-MARGINAL-LIKELIHOOD GRADIENT — what is proved, for every number n of observations.

    Setting: `K : ℝ → Matrix (Fin n) (Fin n) ℝ` a one-parameter family of kernel matrices (one hyperparameter
    moving, the others fixed), `K'` its entry-wise derivative at θ (`hK : ∀ i j, HasDerivAt (K · i j) (K' i j) θ`).

    PROVED (Proofs/C04Jacobi.lean, restated below):
      * Jacobi's formula  d det K = tr(adj(K) dK)                                   `loglik_grad_jacobi`
      * d log det K = tr(K⁻¹ dK)  (det K(θ) > 0)                                    `loglik_grad_logdet`
      * d(K⁻¹) = −K⁻¹ dK K⁻¹ entry-wise (det K(θ) ≠ 0)                              `loglik_grad_inverse`
      * d(rᵀK⁻¹r) = −aᵀ dK a, a = K⁻¹r, r constant, K(θ) symmetric                  `loglik_grad_inv_quadratic`
      * zero-mean GP, matrix form: −s(rᵀK⁻¹r + log det K) has derivative
        −s(−aᵀ dK a + tr(K⁻¹ dK))                                                   `loglik_grad_matrix`
      * K = L Lᵀ, L lower triangular with positive diagonal ⇒ log det K = 2 Σ log L_ii  `loglik_grad_cholesky`
      * zero-mean GP IN THE MODEL'S OWN TERMS: the list-encoded `loglikGrad` entry is the derivative of the
        list-encoded `loglik` (value computed from the Cholesky diagonal as the library does)   `loglik_grad_zero_mean`
      * POLYNOMIAL MEAN: with β(θ) = (PᵀK⁻¹P)⁻¹PᵀK⁻¹y the GLS coefficients (they DO depend on θ) and
        r(θ) = y − Pβ(θ), the same formula −s(−aᵀ dK a + tr(K⁻¹ dK)), a = K⁻¹r(θ), is the derivative
        (envelope argument: Pᵀa = 0)                       `loglik_grad_poly_mean_matrix`, `loglik_grad_poly_mean`
      * the same in the log domain (hyperparameter `exp u`, entry scaled by `logScale = exp u`)   `loglik_grad_poly_mean_log`
      * the extra term `2·a·(−P (PᵀK⁻¹P)⁻¹ (K⁻¹P)ᵀ dK a)` the library adds under `include_nonzero_correction`
        is identically 0 in exact arithmetic (again Pᵀa = 0), so both settings of the flag give the
        derivative                                                                   `loglik_grad_correction_zero`
      * the hypotheses (det K > 0, K symmetric, det PᵀK⁻¹P ≠ 0) follow from K positive definite and P of full
        column rank                                                                  `loglik_grad_hyp_of_posDef`
      * one observation, written with scalars (kept from before)                     `loglik_grad_partial`
      * the log-domain factor                                                        `log_domain_chain`
      * (section 9) the abstract family instantiated: for every radial kernel, `build_kernel_hparam_grad_tensor`
        slice by slice IS the entry-wise derivative `K'` of `build_kernel_matrix(X, noise)` for the whole matrix at once
        (process variance, each length scale, and the nugget `K + t·I` with `K' = I`), the matrix is positive definite
        for noise > 0 (C02 / C03), and so the matrix-form statements hold for the CONCRETE kernel family with no
        hypothesis left but the parameter ranges and full column rank of `P`
                        `kernel_matrix_grad_alpha/_length/_nugget`, `kernel_matrix_posDef`, `loglik_grad_radial_*`
      * (section 9) every positive definite matrix HAS a Cholesky factor `cholFactor K` (lower triangular, positive
        diagonal), so the Cholesky hypothesis `hchol` of the list-model statements follows from positive definiteness
        near θ                  `loglik_grad_cholesky_exists`, `loglik_grad_zero_mean_posDef`, `loglik_grad_poly_mean_posDef`,
                                `loglik_grad_poly_mean_log_posDef`
        and the list-model statements (linear and log domain, GLS polynomial mean) hold for the concrete kernel family
                                `loglik_grad_radial_alpha_model(_log)`, `…_length_model(_log)`, `…_nugget_model(_log)`
      * (section 9) the same composition for the MULTITASK tensor kernel, matrix forms (process variance, each physical
        length scale, the task length scale, nugget)      `multitask_matrix_*`, `loglik_grad_multitask_*(_poly_mean)`;
        its list-model forms are `loglik_grad_poly_mean_posDef` / `…_log_posDef` applied to `multitask_matrix_grad_*` and
        `multitask_matrix_posDef` (not written out one by one)

    NOT PROVED here (remains a numerical comparison, model vs library vs finite differences, on every run):
      * that the library's `K_inv_demeaned_y`, `K_chol`, `cho_solve(K_chol, dK)` ARE the exact `a`, `L`, `K⁻¹dK`
        (floating-point Cholesky / triangular solves; conditioning enters the tolerance);
      * the floating-point model of the gradient (`Float` instance) — only the ℝ instance is differentiated. -/

/-- **Jacobi's formula**, every n: `d det K = tr(adj(K)·dK)` -/
theorem loglik_grad_jacobi {n : ℕ} {K : ℝ → Matrix (Fin n) (Fin n) ℝ} {K' : Matrix (Fin n) (Fin n) ℝ} {θ : ℝ}
    (hK : ∀ i j, HasDerivAt (fun t => K t i j) (K' i j) θ) :
    HasDerivAt (fun t => (K t).det) (Matrix.trace (Matrix.adjugate (K θ) * K')) θ :=
  det_hasDerivAt hK

/-- **d log det K = tr(K⁻¹ dK)**, every n -/
theorem loglik_grad_logdet {n : ℕ} {K : ℝ → Matrix (Fin n) (Fin n) ℝ} {K' : Matrix (Fin n) (Fin n) ℝ} {θ : ℝ}
    (hK : ∀ i j, HasDerivAt (fun t => K t i j) (K' i j) θ) (hpos : 0 < (K θ).det) :
    HasDerivAt (fun t => Real.log (K t).det) (Matrix.trace ((K θ)⁻¹ * K')) θ :=
  logdet_hasDerivAt hK hpos

/-- **d(K⁻¹) = −K⁻¹ dK K⁻¹**, entry by entry, every n -/
theorem loglik_grad_inverse {n : ℕ} {K : ℝ → Matrix (Fin n) (Fin n) ℝ} {K' : Matrix (Fin n) (Fin n) ℝ} {θ : ℝ}
    (hK : ∀ i j, HasDerivAt (fun t => K t i j) (K' i j) θ) (hdet : (K θ).det ≠ 0) (i j : Fin n) :
    HasDerivAt (fun t => (K t)⁻¹ i j) ((-((K θ)⁻¹ * K' * (K θ)⁻¹)) i j) θ :=
  inv_hasDerivAt hK hdet i j

/-- **d(rᵀK⁻¹r) = −aᵀ dK a** with `a = K⁻¹r`, `K θ` symmetric, `r` constant -/
theorem loglik_grad_inv_quadratic {n : ℕ} {K : ℝ → Matrix (Fin n) (Fin n) ℝ} {K' : Matrix (Fin n) (Fin n) ℝ}
    {θ : ℝ} (hK : ∀ i j, HasDerivAt (fun t => K t i j) (K' i j) θ) (hdet : (K θ).det ≠ 0)
    (hsymm : (K θ).IsSymm) (r : Fin n → ℝ) :
    HasDerivAt (fun t => r ⬝ᵥ ((K t)⁻¹ *ᵥ r))
      (-(((K θ)⁻¹ *ᵥ r) ⬝ᵥ (K' *ᵥ ((K θ)⁻¹ *ᵥ r)))) θ :=
  invQuad_hasDerivAt_symm hK hdet hsymm r

/-- **zero-mean GP, matrix form, every n**: `−s(rᵀK⁻¹r + log det K)` has derivative
    `−s(−aᵀ dK a + tr(K⁻¹ dK))`, `a = K⁻¹ r` -/
theorem loglik_grad_matrix {n : ℕ} {K : ℝ → Matrix (Fin n) (Fin n) ℝ} {K' : Matrix (Fin n) (Fin n) ℝ} {θ : ℝ}
    (hK : ∀ i j, HasDerivAt (fun t => K t i j) (K' i j) θ) (hpos : 0 < (K θ).det) (hsymm : (K θ).IsSymm)
    (s : ℝ) (r : Fin n → ℝ) :
    HasDerivAt (fun t => -s * (r ⬝ᵥ ((K t)⁻¹ *ᵥ r) + Real.log (K t).det))
      (-s * (-(((K θ)⁻¹ *ᵥ r) ⬝ᵥ (K' *ᵥ ((K θ)⁻¹ *ᵥ r))) + Matrix.trace ((K θ)⁻¹ * K'))) θ :=
  loglikMatrix_hasDerivAt hK hpos hsymm s r

/-- non-vacuity of `loglik_grad_matrix`: `K t = [[2 + t, 1], [1, 2]]` at θ = 0, `K' = [[1, 0], [0, 0]]` -/
example (s : ℝ) (r : Fin 2 → ℝ) :
    let K : ℝ → Matrix (Fin 2) (Fin 2) ℝ := fun t => !![2 + t, 1; 1, 2]
    HasDerivAt (fun t => -s * (r ⬝ᵥ ((K t)⁻¹ *ᵥ r) + Real.log (K t).det))
      (-s * (-(((K 0)⁻¹ *ᵥ r) ⬝ᵥ ((!![1, 0; 0, 0] : Matrix (Fin 2) (Fin 2) ℝ) *ᵥ ((K 0)⁻¹ *ᵥ r)))
        + Matrix.trace ((K 0)⁻¹ * !![1, 0; 0, 0]))) 0 := by
  intro K
  refine loglik_grad_matrix (K := K) (K' := !![1, 0; 0, 0]) ?_ ?_ ?_ s r
  · intro i j
    fin_cases i <;> fin_cases j
    · exact (hasDerivAt_id (0 : ℝ)).const_add 2
    · exact hasDerivAt_const (0 : ℝ) (1 : ℝ)
    · exact hasDerivAt_const (0 : ℝ) (1 : ℝ)
    · exact hasDerivAt_const (0 : ℝ) (2 : ℝ)
  · show 0 < (!![2 + 0, 1; 1, 2] : Matrix (Fin 2) (Fin 2) ℝ).det
    rw [Matrix.det_fin_two_of]; norm_num
  · ext i j
    fin_cases i <;> fin_cases j <;> rfl

/-- **Cholesky link**: the library evaluates `log det K` as `2 Σ log L_ii` -/
theorem loglik_grad_cholesky {n : ℕ} (L : Matrix (Fin n) (Fin n) ℝ) (hL : ∀ i j, i < j → L i j = 0)
    (hpos : ∀ i, 0 < L i i) :
    Real.log (L * Lᵀ).det = 2 * ∑ i, Real.log (L i i) :=
  logdet_cholesky L hL hpos

/-- the list model read back as matrices: value and gradient entry -/
theorem loglik_grad_model_eq {n : ℕ} (s : ℝ) (r a d : Fin n → ℝ) (B dK : Matrix (Fin n) (Fin n) ℝ) :
    loglik s (List.ofFn r) (List.ofFn a) (List.ofFn d) = -s * (r ⬝ᵥ a + 2 * ∑ i, Real.log (d i)) ∧
    (loglikGrad s (List.ofFn a) (ofFnM B) [ofFnM dK] [1]).getD 0 0
      = -s * (-(a ⬝ᵥ (dK *ᵥ a)) + Matrix.trace (B * dK)) :=
  ⟨loglik_ofFn s r a d, loglikGrad_ofFn s a B dK⟩

/-- **loglik_grad, zero mean, every n, in the model's own terms**: near θ the kernel matrix is `L Lᵀ`
    (`L` lower triangular, positive diagonal — the Cholesky factor the library keeps); the value is the model's
    `loglik` of `r`, `a = K⁻¹r` and the diagonal of `L`; the model's `loglikGrad` entry for `dK = K'` is its derivative. -/
theorem loglik_grad_zero_mean {n : ℕ} {K L : ℝ → Matrix (Fin n) (Fin n) ℝ} {K' : Matrix (Fin n) (Fin n) ℝ} {θ : ℝ}
    (hK : ∀ i j, HasDerivAt (fun t => K t i j) (K' i j) θ)
    (hchol : ∀ᶠ t in nhds θ, K t = L t * (L t)ᵀ ∧ (∀ i j, i < j → L t i j = 0) ∧ ∀ i, 0 < L t i i)
    (s : ℝ) (r : Fin n → ℝ) :
    HasDerivAt (fun t => loglik s (List.ofFn r) (List.ofFn ((K t)⁻¹ *ᵥ r)) (List.ofFn fun i => L t i i))
      ((loglikGrad s (List.ofFn ((K θ)⁻¹ *ᵥ r)) (ofFnM (K θ)⁻¹) [ofFnM K'] [1]).getD 0 0) θ :=
  loglik_list_hasDerivAt hK hchol s r

/-- **polynomial mean, matrix form, every n**: β(t) = GLS coefficients, r(t) = y − Pβ(t) both move with t;
    the derivative is still `−s(−aᵀ dK a + tr(K⁻¹ dK))` with `a = K⁻¹ r(θ)` -/
theorem loglik_grad_poly_mean_matrix {n p : ℕ} {K : ℝ → Matrix (Fin n) (Fin n) ℝ} {K' : Matrix (Fin n) (Fin n) ℝ}
    {θ : ℝ} (hK : ∀ i j, HasDerivAt (fun t => K t i j) (K' i j) θ) (hpos : 0 < (K θ).det)
    (hsymm : (K θ).IsSymm) (P : Matrix (Fin n) (Fin p) ℝ) (hG : (Pᵀ * (K θ)⁻¹ * P).det ≠ 0) (s : ℝ)
    (y : Fin n → ℝ) :
    HasDerivAt
      (fun t => -s * (glsResidual P (K t) y ⬝ᵥ ((K t)⁻¹ *ᵥ glsResidual P (K t) y) + Real.log (K t).det))
      (-s * (-(((K θ)⁻¹ *ᵥ glsResidual P (K θ) y) ⬝ᵥ (K' *ᵥ ((K θ)⁻¹ *ᵥ glsResidual P (K θ) y)))
        + Matrix.trace ((K θ)⁻¹ * K'))) θ :=
  loglikGLS_hasDerivAt hK hpos hsymm P hG s y

/-- what `glsResidual` is: `y − P (PᵀK⁻¹P)⁻¹ PᵀK⁻¹ y` -/
theorem loglik_grad_gls_def {n p : ℕ} (P : Matrix (Fin n) (Fin p) ℝ) (K : Matrix (Fin n) (Fin n) ℝ) (y : Fin n → ℝ) :
    glsResidual P K y = y - P *ᵥ ((Pᵀ * K⁻¹ * P)⁻¹ *ᵥ (Pᵀ *ᵥ (K⁻¹ *ᵥ y))) := rfl

/-- **polynomial mean, in the model's own terms, every n** -/
theorem loglik_grad_poly_mean {n p : ℕ} {K L : ℝ → Matrix (Fin n) (Fin n) ℝ} {K' : Matrix (Fin n) (Fin n) ℝ}
    {θ : ℝ} (hK : ∀ i j, HasDerivAt (fun t => K t i j) (K' i j) θ)
    (hchol : ∀ᶠ t in nhds θ, K t = L t * (L t)ᵀ ∧ (∀ i j, i < j → L t i j = 0) ∧ ∀ i, 0 < L t i i)
    (P : Matrix (Fin n) (Fin p) ℝ) (hG : (Pᵀ * (K θ)⁻¹ * P).det ≠ 0) (s : ℝ) (y : Fin n → ℝ) :
    HasDerivAt
      (fun t => loglik s (List.ofFn (glsResidual P (K t) y)) (List.ofFn ((K t)⁻¹ *ᵥ glsResidual P (K t) y))
        (List.ofFn fun i => L t i i))
      ((loglikGrad s (List.ofFn ((K θ)⁻¹ *ᵥ glsResidual P (K θ) y)) (ofFnM (K θ)⁻¹) [ofFnM K'] [1]).getD 0 0) θ :=
  loglik_list_gls_hasDerivAt hK hchol P hG s y

/-- **polynomial mean, log domain** (`log_domain=True`): the hyperparameter is `exp u`, the model's entry
    carries `logScale = exp u`, and it is the derivative with respect to `u` -/
theorem loglik_grad_poly_mean_log {n p : ℕ} {K L : ℝ → Matrix (Fin n) (Fin n) ℝ} {K' : Matrix (Fin n) (Fin n) ℝ}
    {u : ℝ} (hK : ∀ i j, HasDerivAt (fun t => K t i j) (K' i j) (Real.exp u))
    (hchol : ∀ᶠ t in nhds (Real.exp u),
      K t = L t * (L t)ᵀ ∧ (∀ i j, i < j → L t i j = 0) ∧ ∀ i, 0 < L t i i)
    (P : Matrix (Fin n) (Fin p) ℝ) (hG : (Pᵀ * (K (Real.exp u))⁻¹ * P).det ≠ 0) (s : ℝ) (y : Fin n → ℝ) :
    HasDerivAt
      (fun v => loglik s (List.ofFn (glsResidual P (K (Real.exp v)) y))
        (List.ofFn ((K (Real.exp v))⁻¹ *ᵥ glsResidual P (K (Real.exp v)) y))
        (List.ofFn fun i => L (Real.exp v) i i))
      ((loglikGrad s (List.ofFn ((K (Real.exp u))⁻¹ *ᵥ glsResidual P (K (Real.exp u)) y))
        (ofFnM (K (Real.exp u))⁻¹) [ofFnM K'] [Real.exp u]).getD 0 0) u :=
  loglik_list_gls_log_hasDerivAt hK hchol P hG s y

/-- the normal equations `Pᵀ a = 0`, and their consequence: the term added under
    `include_nonzero_correction` — `2·a·(−P w)` for `w = (PᵀK⁻¹P)⁻¹ (K⁻¹P)ᵀ dK a` — is zero for EVERY `w` -/
theorem loglik_grad_correction_zero {n p : ℕ} (P : Matrix (Fin n) (Fin p) ℝ) (K : Matrix (Fin n) (Fin n) ℝ)
    (y : Fin n → ℝ) (hG : (Pᵀ * K⁻¹ * P).det ≠ 0) :
    Pᵀ *ᵥ (K⁻¹ *ᵥ glsResidual P K y) = 0 ∧
    ∀ w : Fin p → ℝ, 2 * ((K⁻¹ *ᵥ glsResidual P K y) ⬝ᵥ (-(P *ᵥ w))) = 0 := by
  refine ⟨gls_normal P K y hG, fun w => ?_⟩
  rw [dotProduct_neg, gls_correction_zero P K y hG w]
  norm_num

/-- positive definite `K`, full-column-rank `P` ⇒ every hypothesis used above -/
theorem loglik_grad_hyp_of_posDef {n p : ℕ} {K : Matrix (Fin n) (Fin n) ℝ} (hK : K.PosDef)
    (P : Matrix (Fin n) (Fin p) ℝ) (hP : Function.Injective P.mulVec) :
    0 < K.det ∧ K.IsSymm ∧ (Pᵀ * K⁻¹ * P).det ≠ 0 :=
  gls_hyp_of_posDef hK P hP

end LogLikMatrix

/-! ## 9. Composition: the concrete kernel family -/

section Compose
open scoped Matrix

/-  Sections 1 and 8 composed with C02 / C03, for every radial kernel of the library, every number n of observed
    points, every dimension d.

    `radialNoisy k alpha l x ν`  (Proofs/C04Compose.lean) is the matrix `K(X,X) + diag ν` over `Fin n`:
        entry (i, j) = `kernel k alpha l (x i) (x j) + (if i = j then ν i else 0)`;
    `radialHparamGrad k alpha l x h` is the matrix of the entries `h` of the model's hyperparameter-gradient rows
        `gradKernelH k alpha l (x i) (x j)`  (h = 0: process variance; h = c + 1: length scale c).
    `kernel_matrix_model_eq` ties both to the list model: they are `gramNoise` (= `build_kernel_matrix` with noise) and
    slice h of `hparamTensor` (= `build_kernel_hparam_grad_tensor`).

    One hyperparameter moves, the others are fixed:
      * process variance   t ↦ radialNoisy k t l x ν                         K' = radialHparamGrad k θ l x 0
      * length scale c     t ↦ radialNoisy k alpha (update l c t) x ν        K' = radialHparamGrad k alpha (update l c θ) x (c+1)
      * nugget             t ↦ radialNoisy k alpha l x (ν + t) = K + t·I      K' = 1
    For each: `hK` (entry-wise derivative of the WHOLE matrix, `kernel_matrix_grad_*`), positive definiteness of the
    matrix at θ (`kernel_matrix_posDef`, from C03 `radial_gram_posSemidef` through C02
    `radial_noisy_posDef_of_noise_pos`), hence `0 < det`, symmetry and `det PᵀK⁻¹P ≠ 0` (`kernel_matrix_hyp`), hence the
    log-likelihood gradient statements `loglik_grad_radial_*` with NO hypothesis left except the parameter ranges
    (process variance ≥ 0, moving length scale ≠ 0, noise > 0) and full column rank of `P`.
    Order of the section: the radial matrix forms; the radial list-model forms (`…_model`, `…_model_log`: the model's
    `loglik` / `loglikGrad` on lists, the value computed from the diagonal of the Cholesky factor `cholFactor (K t)`,
    which exists because `K t` is positive definite); the multitask tensor kernel (`multitaskNoisy`,
    `multitaskHparamGrad`, a point being `physical coordinates ++ [task]`), matrix forms. -/

/-- **the two matrices are the list model's**: `build_kernel_matrix(X, noise_variance = ν)` has the entries of
    `radialNoisy`, and slice `h` of `build_kernel_hparam_grad_tensor(X)` is `radialHparamGrad … h` written as a list of
    rows (the form `loglikGrad` consumes in `loglik_grad_zero_mean`). -/
theorem kernel_matrix_model_eq (k : Kind) {n d : ℕ} (alpha : ℝ) (l : Fin d → ℝ) (x : Fin n → Fin d → ℝ)
    (ν : Fin n → ℝ) (h : ℕ) :
    (∀ i j : Fin n,
      C03.entry (gramNoise k alpha (List.ofFn l) (List.ofFn fun i => List.ofFn (x i)) (List.ofFn ν)) i j
        = some (radialNoisy k alpha l x ν i j)) ∧
    (hparamTensor k alpha (List.ofFn l) (List.ofFn fun i => List.ofFn (x i))).map
        (fun row => row.map fun g => g.getD h 0)
      = ofFnM (radialHparamGrad k alpha l x h) := by
  constructor
  · intro i j
    rw [C03.gramNoise_eq_matrix, radialNoisy_eq_noisy]
    rfl
  · rw [(hparam_entrypoints_agree k alpha (List.ofFn l) (List.ofFn fun i => List.ofFn (x i)) [] (by simp)).2.1]
    simp only [List.map_ofFn, ofFnM]
    congr 1
    funext i
    simp only [Function.comp_apply, List.map_ofFn]
    rfl

/-- **positive definite**: `K(X,X) + diag ν` for `alpha ≥ 0`, `ν > 0`, whatever the points and length scales -/
theorem kernel_matrix_posDef (k : Kind) {n d : ℕ} {alpha : ℝ} (ha : 0 ≤ alpha) (l : Fin d → ℝ)
    (x : Fin n → Fin d → ℝ) {ν : Fin n → ℝ} (hν : ∀ i, 0 < ν i) : (radialNoisy k alpha l x ν).PosDef := by
  rw [radialNoisy_eq_noisy]
  exact C02.radial_noisy_posDef_of_noise_pos k ha l x hν

/-- … hence every hypothesis of section 8 -/
theorem kernel_matrix_hyp (k : Kind) {n d p : ℕ} {alpha : ℝ} (ha : 0 ≤ alpha) (l : Fin d → ℝ)
    (x : Fin n → Fin d → ℝ) {ν : Fin n → ℝ} (hν : ∀ i, 0 < ν i) (P : Matrix (Fin n) (Fin p) ℝ)
    (hP : Function.Injective P.mulVec) :
    0 < (radialNoisy k alpha l x ν).det ∧ (radialNoisy k alpha l x ν).IsSymm ∧
      (Pᵀ * (radialNoisy k alpha l x ν)⁻¹ * P).det ≠ 0 :=
  loglik_grad_hyp_of_posDef (kernel_matrix_posDef k ha l x hν) P hP

/-- **whole matrix, process variance**: slice 0 of the hyperparameter-gradient tensor is the entry-wise derivative of
    `alpha ↦ K + diag ν` (every kernel kind, C0 included: the entry is linear in alpha) -/
theorem kernel_matrix_grad_alpha (k : Kind) {n d : ℕ} (l : Fin d → ℝ) (x : Fin n → Fin d → ℝ) (ν : Fin n → ℝ)
    (θ : ℝ) (i j : Fin n) :
    HasDerivAt (fun t => radialNoisy k t l x ν i j) (radialHparamGrad k θ l x 0 i j) θ :=
  radialNoisy_alpha_hasDerivAt k l x ν θ i j

/-- **whole matrix, length scale c**: slice c + 1 of the tensor is the entry-wise derivative of `l c ↦ K + diag ν` -/
theorem kernel_matrix_grad_length (k : Kind) (hk : differentiable k = true) {n d : ℕ} (alpha : ℝ) (l : Fin d → ℝ)
    (x : Fin n → Fin d → ℝ) (ν : Fin n → ℝ) (c : Fin d) {θ : ℝ} (hθ : θ ≠ 0) (i j : Fin n) :
    HasDerivAt (fun t => radialNoisy k alpha (Function.update l c t) x ν i j)
      (radialHparamGrad k alpha (Function.update l c θ) x (c.val + 1) i j) θ :=
  radialNoisy_length_hasDerivAt k hk alpha l x ν c θ hθ i j

/-- **whole matrix, nugget**: `t ↦ K + diag ν + t·I` has entry-wise derivative `I` -/
theorem kernel_matrix_grad_nugget (k : Kind) {n d : ℕ} (alpha : ℝ) (l : Fin d → ℝ) (x : Fin n → Fin d → ℝ)
    (ν : Fin n → ℝ) (θ : ℝ) :
    (∀ t, radialNoisy k alpha l x (fun a => ν a + t)
      = radialNoisy k alpha l x ν + t • (1 : Matrix (Fin n) (Fin n) ℝ)) ∧
    ∀ i j : Fin n, HasDerivAt (fun t => radialNoisy k alpha l x (fun a => ν a + t) i j)
      ((1 : Matrix (Fin n) (Fin n) ℝ) i j) θ :=
  ⟨radialNoisy_nugget_eq k alpha l x ν, radialNoisy_nugget_hasDerivAt k alpha l x ν θ⟩

/-- **loglik_grad_radial_alpha, zero mean**: for the concrete kernel matrix `K(alpha) = K(X,X) + diag ν`,
    `−s(rᵀK⁻¹r + log det K)` has derivative `−s(−aᵀ K' a + tr(K⁻¹ K'))` in the process variance, `K'` slice 0 of the
    hyperparameter-gradient tensor, at every `θ ≥ 0` (so at every legal process variance `θ > 0`). -/
theorem loglik_grad_radial_alpha (k : Kind) {n d : ℕ} (l : Fin d → ℝ) (x : Fin n → Fin d → ℝ) {ν : Fin n → ℝ}
    (hν : ∀ i, 0 < ν i) {θ : ℝ} (hθ : 0 ≤ θ) (s : ℝ) (r : Fin n → ℝ) :
    HasDerivAt
      (fun t => -s * (r ⬝ᵥ ((radialNoisy k t l x ν)⁻¹ *ᵥ r) + Real.log (radialNoisy k t l x ν).det))
      (-s * (-(((radialNoisy k θ l x ν)⁻¹ *ᵥ r) ⬝ᵥ
            (radialHparamGrad k θ l x 0 *ᵥ ((radialNoisy k θ l x ν)⁻¹ *ᵥ r)))
        + Matrix.trace ((radialNoisy k θ l x ν)⁻¹ * radialHparamGrad k θ l x 0))) θ :=
  have hpd := kernel_matrix_posDef k hθ l x hν
  loglik_grad_matrix (K := fun t => radialNoisy k t l x ν) (kernel_matrix_grad_alpha k l x ν θ)
    hpd.det_pos (isSymm_of_posDef hpd) s r

/-- **loglik_grad_radial_alpha, polynomial (GLS) mean**, `P` of full column rank -/
theorem loglik_grad_radial_alpha_poly_mean (k : Kind) {n d p : ℕ} (l : Fin d → ℝ) (x : Fin n → Fin d → ℝ)
    {ν : Fin n → ℝ} (hν : ∀ i, 0 < ν i) {θ : ℝ} (hθ : 0 ≤ θ) (P : Matrix (Fin n) (Fin p) ℝ)
    (hP : Function.Injective P.mulVec) (s : ℝ) (y : Fin n → ℝ) :
    HasDerivAt
      (fun t => -s * (glsResidual P (radialNoisy k t l x ν) y ⬝ᵥ
          ((radialNoisy k t l x ν)⁻¹ *ᵥ glsResidual P (radialNoisy k t l x ν) y)
        + Real.log (radialNoisy k t l x ν).det))
      (-s * (-(((radialNoisy k θ l x ν)⁻¹ *ᵥ glsResidual P (radialNoisy k θ l x ν) y) ⬝ᵥ
            (radialHparamGrad k θ l x 0 *ᵥ ((radialNoisy k θ l x ν)⁻¹ *ᵥ glsResidual P (radialNoisy k θ l x ν) y)))
        + Matrix.trace ((radialNoisy k θ l x ν)⁻¹ * radialHparamGrad k θ l x 0))) θ :=
  have h := kernel_matrix_hyp k hθ l x hν P hP
  loglik_grad_poly_mean_matrix (K := fun t => radialNoisy k t l x ν) (kernel_matrix_grad_alpha k l x ν θ)
    h.1 h.2.1 P h.2.2 s y

/-- non-vacuity of `loglik_grad_radial_alpha`: square-exponential kernel, length scale 1, points 0 and 1 on the line,
    noise 1/10: `K(t) = [[t + 1/10, t e^{-1/2}], [t e^{-1/2}, t + 1/10]]`, `K' = [[1, e^{-1/2}], [e^{-1/2}, 1]]`, at θ = 2 -/
example (s : ℝ) (r : Fin 2 → ℝ) :
    let K : ℝ → Matrix (Fin 2) (Fin 2) ℝ := fun t =>
      !![t + 1 / 10, t * Real.exp (-(1 / 2)); t * Real.exp (-(1 / 2)), t + 1 / 10]
    let K' : Matrix (Fin 2) (Fin 2) ℝ := !![1, Real.exp (-(1 / 2)); Real.exp (-(1 / 2)), 1]
    HasDerivAt (fun t => -s * (r ⬝ᵥ ((K t)⁻¹ *ᵥ r) + Real.log (K t).det))
      (-s * (-(((K 2)⁻¹ *ᵥ r) ⬝ᵥ (K' *ᵥ ((K 2)⁻¹ *ᵥ r))) + Matrix.trace ((K 2)⁻¹ * K'))) 2 := by
  intro K K'
  have hK : ∀ t, radialNoisy Kind.se t ![(1 : ℝ)] ![![0], ![1]] (fun _ => 1 / 10) = K t := by
    intro t
    ext i j
    fin_cases i <;> fin_cases j <;> simp [K, radialNoisy, kernel, phi, r2, two]
  have hK' : radialHparamGrad Kind.se 2 ![(1 : ℝ)] ![![0], ![1]] 0 = K' := by
    ext i j
    fin_cases i <;> fin_cases j <;> simp [K', radialHparamGrad, gradKernelH, hparamRowWith, phi, r2, two]
  have h := loglik_grad_radial_alpha Kind.se ![(1 : ℝ)] ![![0], ![1]] (ν := fun _ => 1 / 10)
    (fun _ => by norm_num) (θ := 2) (by norm_num) s r
  simpa only [hK, hK'] using h

/-- **loglik_grad_radial_length, zero mean**: the same for length scale `c` moving (`Function.update l c t`), `K'`
    slice `c + 1` of the hyperparameter-gradient tensor, at every `θ ≠ 0` (so at every legal length scale `θ > 0`),
    process variance `alpha ≥ 0`. -/
theorem loglik_grad_radial_length (k : Kind) (hk : differentiable k = true) {n d : ℕ} {alpha : ℝ} (ha : 0 ≤ alpha)
    (l : Fin d → ℝ) (x : Fin n → Fin d → ℝ) {ν : Fin n → ℝ} (hν : ∀ i, 0 < ν i) (c : Fin d) {θ : ℝ} (hθ : θ ≠ 0)
    (s : ℝ) (r : Fin n → ℝ) :
    HasDerivAt
      (fun t => -s * (r ⬝ᵥ ((radialNoisy k alpha (Function.update l c t) x ν)⁻¹ *ᵥ r)
        + Real.log (radialNoisy k alpha (Function.update l c t) x ν).det))
      (-s * (-(((radialNoisy k alpha (Function.update l c θ) x ν)⁻¹ *ᵥ r) ⬝ᵥ
            (radialHparamGrad k alpha (Function.update l c θ) x (c.val + 1) *ᵥ
              ((radialNoisy k alpha (Function.update l c θ) x ν)⁻¹ *ᵥ r)))
        + Matrix.trace ((radialNoisy k alpha (Function.update l c θ) x ν)⁻¹ *
            radialHparamGrad k alpha (Function.update l c θ) x (c.val + 1)))) θ :=
  have hpd := kernel_matrix_posDef k ha (Function.update l c θ) x hν
  loglik_grad_matrix (K := fun t => radialNoisy k alpha (Function.update l c t) x ν)
    (kernel_matrix_grad_length k hk alpha l x ν c hθ) hpd.det_pos (isSymm_of_posDef hpd) s r

/-- non-vacuity of `loglik_grad_radial_length`: square-exponential kernel, process variance 1, points 0 and 1 on the
    line, noise 1/10, the single length scale moving: `K(t) = [[11/10, e^{-(1/t)²/2}], [e^{-(1/t)²/2}, 11/10]]`,
    `K' = [[0, e^{-1/2}], [e^{-1/2}, 0]]` (`= e^{-r²/2}·diff²/l³` at `l = 1`), at θ = 1 -/
example (s : ℝ) (r : Fin 2 → ℝ) :
    let K : ℝ → Matrix (Fin 2) (Fin 2) ℝ := fun t =>
      !![1 + 1 / 10, Real.exp (-((1 / t) ^ 2 / 2)); Real.exp (-((1 / t) ^ 2 / 2)), 1 + 1 / 10]
    let K' : Matrix (Fin 2) (Fin 2) ℝ := !![0, Real.exp (-(1 / 2)); Real.exp (-(1 / 2)), 0]
    HasDerivAt (fun t => -s * (r ⬝ᵥ ((K t)⁻¹ *ᵥ r) + Real.log (K t).det))
      (-s * (-(((K 1)⁻¹ *ᵥ r) ⬝ᵥ (K' *ᵥ ((K 1)⁻¹ *ᵥ r))) + Matrix.trace ((K 1)⁻¹ * K'))) 1 := by
  intro K K'
  have hu : ∀ t : ℝ, Function.update ![(7 : ℝ)] 0 t = ![t] := by
    intro t; ext i; fin_cases i; simp
  have hK : ∀ t, radialNoisy Kind.se 1 (Function.update ![(7 : ℝ)] 0 t) ![![0], ![1]] (fun _ => 1 / 10) = K t := by
    intro t
    rw [hu]
    ext i j
    fin_cases i <;> fin_cases j <;> simp [K, radialNoisy, kernel, phi, r2, two] <;> ring
  have hK' : radialHparamGrad Kind.se 1 (Function.update ![(7 : ℝ)] 0 1) ![![0], ![1]] ((0 : Fin 1).val + 1)
      = K' := by
    rw [hu]
    ext i j
    fin_cases i <;> fin_cases j <;>
      simp [K', radialHparamGrad, gradKernelH, hparamRowWith, hparamCoords, scaleBy, hphi, phi, r2, two]
  have h := loglik_grad_radial_length Kind.se rfl (alpha := 1) zero_le_one ![(7 : ℝ)] ![![0], ![1]]
    (ν := fun _ => 1 / 10) (fun _ => by norm_num) 0 (θ := 1) one_ne_zero s r
  simpa only [hK, hK'] using h

/-- **loglik_grad_radial_length, polynomial (GLS) mean**, `P` of full column rank -/
theorem loglik_grad_radial_length_poly_mean (k : Kind) (hk : differentiable k = true) {n d p : ℕ} {alpha : ℝ}
    (ha : 0 ≤ alpha) (l : Fin d → ℝ) (x : Fin n → Fin d → ℝ) {ν : Fin n → ℝ} (hν : ∀ i, 0 < ν i) (c : Fin d)
    {θ : ℝ} (hθ : θ ≠ 0) (P : Matrix (Fin n) (Fin p) ℝ) (hP : Function.Injective P.mulVec) (s : ℝ)
    (y : Fin n → ℝ) :
    HasDerivAt
      (fun t => -s * (glsResidual P (radialNoisy k alpha (Function.update l c t) x ν) y ⬝ᵥ
          ((radialNoisy k alpha (Function.update l c t) x ν)⁻¹ *ᵥ
            glsResidual P (radialNoisy k alpha (Function.update l c t) x ν) y)
        + Real.log (radialNoisy k alpha (Function.update l c t) x ν).det))
      (-s * (-(((radialNoisy k alpha (Function.update l c θ) x ν)⁻¹ *ᵥ
              glsResidual P (radialNoisy k alpha (Function.update l c θ) x ν) y) ⬝ᵥ
            (radialHparamGrad k alpha (Function.update l c θ) x (c.val + 1) *ᵥ
              ((radialNoisy k alpha (Function.update l c θ) x ν)⁻¹ *ᵥ
                glsResidual P (radialNoisy k alpha (Function.update l c θ) x ν) y)))
        + Matrix.trace ((radialNoisy k alpha (Function.update l c θ) x ν)⁻¹ *
            radialHparamGrad k alpha (Function.update l c θ) x (c.val + 1)))) θ :=
  have h := kernel_matrix_hyp k ha (Function.update l c θ) x hν P hP
  loglik_grad_poly_mean_matrix (K := fun t => radialNoisy k alpha (Function.update l c t) x ν)
    (kernel_matrix_grad_length k hk alpha l x ν c hθ) h.1 h.2.1 P h.2.2 s y

/-- … read at the current hyperparameters: at `θ = l c` the family passes through `radialNoisy k alpha l x ν` itself
    and `K'` is slice `c + 1` of the tensor at `l` (`Function.update l c (l c) = l`). -/
theorem loglik_grad_radial_length_at (k : Kind) (hk : differentiable k = true) {n d p : ℕ} {alpha : ℝ}
    (ha : 0 ≤ alpha) (l : Fin d → ℝ) (x : Fin n → Fin d → ℝ) {ν : Fin n → ℝ} (hν : ∀ i, 0 < ν i) (c : Fin d)
    (hl : 0 < l c) (P : Matrix (Fin n) (Fin p) ℝ) (hP : Function.Injective P.mulVec) (s : ℝ) (y : Fin n → ℝ) :
    HasDerivAt
      (fun t => -s * (glsResidual P (radialNoisy k alpha (Function.update l c t) x ν) y ⬝ᵥ
          ((radialNoisy k alpha (Function.update l c t) x ν)⁻¹ *ᵥ
            glsResidual P (radialNoisy k alpha (Function.update l c t) x ν) y)
        + Real.log (radialNoisy k alpha (Function.update l c t) x ν).det))
      (-s * (-(((radialNoisy k alpha l x ν)⁻¹ *ᵥ glsResidual P (radialNoisy k alpha l x ν) y) ⬝ᵥ
            (radialHparamGrad k alpha l x (c.val + 1) *ᵥ
              ((radialNoisy k alpha l x ν)⁻¹ *ᵥ glsResidual P (radialNoisy k alpha l x ν) y)))
        + Matrix.trace ((radialNoisy k alpha l x ν)⁻¹ * radialHparamGrad k alpha l x (c.val + 1)))) (l c) := by
  have h := loglik_grad_radial_length_poly_mean k hk ha l x hν c hl.ne' P hP s y
  rwa [Function.update_eq_self] at h

/-- **loglik_grad_radial_nugget, zero mean**: a constant `t` added to the whole noise diagonal (`K + diag ν + t·I`,
    the auto-noise / nugget direction), `K' = I`; at every θ with `ν i + θ > 0`. -/
theorem loglik_grad_radial_nugget (k : Kind) {n d : ℕ} {alpha : ℝ} (ha : 0 ≤ alpha) (l : Fin d → ℝ)
    (x : Fin n → Fin d → ℝ) (ν : Fin n → ℝ) {θ : ℝ} (hν : ∀ i, 0 < ν i + θ) (s : ℝ) (r : Fin n → ℝ) :
    HasDerivAt
      (fun t => -s * (r ⬝ᵥ ((radialNoisy k alpha l x (fun a => ν a + t))⁻¹ *ᵥ r)
        + Real.log (radialNoisy k alpha l x (fun a => ν a + t)).det))
      (-s * (-(((radialNoisy k alpha l x (fun a => ν a + θ))⁻¹ *ᵥ r) ⬝ᵥ
            ((1 : Matrix (Fin n) (Fin n) ℝ) *ᵥ ((radialNoisy k alpha l x (fun a => ν a + θ))⁻¹ *ᵥ r)))
        + Matrix.trace ((radialNoisy k alpha l x (fun a => ν a + θ))⁻¹ * (1 : Matrix (Fin n) (Fin n) ℝ)))) θ :=
  have hpd := kernel_matrix_posDef k ha l x (ν := fun a => ν a + θ) hν
  loglik_grad_matrix (K := fun t => radialNoisy k alpha l x (fun a => ν a + t))
    (kernel_matrix_grad_nugget k alpha l x ν θ).2 hpd.det_pos (isSymm_of_posDef hpd) s r

/-- **loglik_grad_radial_nugget, polynomial (GLS) mean** -/
theorem loglik_grad_radial_nugget_poly_mean (k : Kind) {n d p : ℕ} {alpha : ℝ} (ha : 0 ≤ alpha) (l : Fin d → ℝ)
    (x : Fin n → Fin d → ℝ) (ν : Fin n → ℝ) {θ : ℝ} (hν : ∀ i, 0 < ν i + θ) (P : Matrix (Fin n) (Fin p) ℝ)
    (hP : Function.Injective P.mulVec) (s : ℝ) (y : Fin n → ℝ) :
    HasDerivAt
      (fun t => -s * (glsResidual P (radialNoisy k alpha l x (fun a => ν a + t)) y ⬝ᵥ
          ((radialNoisy k alpha l x (fun a => ν a + t))⁻¹ *ᵥ
            glsResidual P (radialNoisy k alpha l x (fun a => ν a + t)) y)
        + Real.log (radialNoisy k alpha l x (fun a => ν a + t)).det))
      (-s * (-(((radialNoisy k alpha l x (fun a => ν a + θ))⁻¹ *ᵥ
              glsResidual P (radialNoisy k alpha l x (fun a => ν a + θ)) y) ⬝ᵥ
            ((1 : Matrix (Fin n) (Fin n) ℝ) *ᵥ ((radialNoisy k alpha l x (fun a => ν a + θ))⁻¹ *ᵥ
              glsResidual P (radialNoisy k alpha l x (fun a => ν a + θ)) y)))
        + Matrix.trace ((radialNoisy k alpha l x (fun a => ν a + θ))⁻¹ * (1 : Matrix (Fin n) (Fin n) ℝ)))) θ :=
  have h := kernel_matrix_hyp k ha l x (ν := fun a => ν a + θ) hν P hP
  loglik_grad_poly_mean_matrix (K := fun t => radialNoisy k alpha l x (fun a => ν a + t))
    (kernel_matrix_grad_nugget k alpha l x ν θ).2 h.1 h.2.1 P h.2.2 s y

/-! ### the list-model forms without the Cholesky hypothesis -/

/-- **the Cholesky factor exists**: every positive definite `K` is `L Lᵀ` with `L = cholFactor K` lower triangular
    with positive diagonal (from Mathlib's LDL decomposition; Proofs/C04Cholesky.lean) -/
theorem loglik_grad_cholesky_exists {n : ℕ} {K : Matrix (Fin n) (Fin n) ℝ} (hK : K.PosDef) :
    K = cholFactor K * (cholFactor K)ᵀ ∧ (∀ i j, i < j → cholFactor K i j = 0) ∧ ∀ i, 0 < cholFactor K i i :=
  cholFactor_spec hK

/-- `loglik_grad_zero_mean` with `hchol` replaced by: `K t` is positive definite for `t` near `θ` -/
theorem loglik_grad_zero_mean_posDef {n : ℕ} {K : ℝ → Matrix (Fin n) (Fin n) ℝ} {K' : Matrix (Fin n) (Fin n) ℝ}
    {θ : ℝ} (hK : ∀ i j, HasDerivAt (fun t => K t i j) (K' i j) θ) (hpd : ∀ᶠ t in nhds θ, (K t).PosDef)
    (s : ℝ) (r : Fin n → ℝ) :
    HasDerivAt
      (fun t => loglik s (List.ofFn r) (List.ofFn ((K t)⁻¹ *ᵥ r)) (List.ofFn fun i => cholFactor (K t) i i))
      ((loglikGrad s (List.ofFn ((K θ)⁻¹ *ᵥ r)) (ofFnM (K θ)⁻¹) [ofFnM K'] [1]).getD 0 0) θ :=
  loglik_grad_zero_mean hK (hpd.mono fun _ ht => cholFactor_spec ht) s r

/-- `loglik_grad_poly_mean` with `hchol`, `hG` replaced by: `K t` positive definite near `θ`, `P` of full column rank -/
theorem loglik_grad_poly_mean_posDef {n p : ℕ} {K : ℝ → Matrix (Fin n) (Fin n) ℝ}
    {K' : Matrix (Fin n) (Fin n) ℝ} {θ : ℝ} (hK : ∀ i j, HasDerivAt (fun t => K t i j) (K' i j) θ)
    (hpd : ∀ᶠ t in nhds θ, (K t).PosDef) (P : Matrix (Fin n) (Fin p) ℝ) (hP : Function.Injective P.mulVec)
    (s : ℝ) (y : Fin n → ℝ) :
    HasDerivAt
      (fun t => loglik s (List.ofFn (glsResidual P (K t) y)) (List.ofFn ((K t)⁻¹ *ᵥ glsResidual P (K t) y))
        (List.ofFn fun i => cholFactor (K t) i i))
      ((loglikGrad s (List.ofFn ((K θ)⁻¹ *ᵥ glsResidual P (K θ) y)) (ofFnM (K θ)⁻¹) [ofFnM K'] [1]).getD 0 0) θ :=
  loglik_grad_poly_mean hK (hpd.mono fun _ ht => cholFactor_spec ht) P
    (loglik_grad_hyp_of_posDef hpd.self_of_nhds P hP).2.2 s y

/-- `loglik_grad_poly_mean_log` likewise (log domain: the hyperparameter is `exp u`) -/
theorem loglik_grad_poly_mean_log_posDef {n p : ℕ} {K : ℝ → Matrix (Fin n) (Fin n) ℝ}
    {K' : Matrix (Fin n) (Fin n) ℝ} {u : ℝ} (hK : ∀ i j, HasDerivAt (fun t => K t i j) (K' i j) (Real.exp u))
    (hpd : ∀ᶠ t in nhds (Real.exp u), (K t).PosDef) (P : Matrix (Fin n) (Fin p) ℝ)
    (hP : Function.Injective P.mulVec) (s : ℝ) (y : Fin n → ℝ) :
    HasDerivAt
      (fun v => loglik s (List.ofFn (glsResidual P (K (Real.exp v)) y))
        (List.ofFn ((K (Real.exp v))⁻¹ *ᵥ glsResidual P (K (Real.exp v)) y))
        (List.ofFn fun i => cholFactor (K (Real.exp v)) i i))
      ((loglikGrad s (List.ofFn ((K (Real.exp u))⁻¹ *ᵥ glsResidual P (K (Real.exp u)) y))
        (ofFnM (K (Real.exp u))⁻¹) [ofFnM K'] [Real.exp u]).getD 0 0) u :=
  loglik_grad_poly_mean_log hK (hpd.mono fun _ ht => cholFactor_spec ht) P
    (loglik_grad_hyp_of_posDef hpd.self_of_nhds P hP).2.2 s y

/-- the three concrete families are positive definite near every legal value of the moving hyperparameter -/
theorem kernel_matrix_posDef_near (k : Kind) {n d : ℕ} (l : Fin d → ℝ) (x : Fin n → Fin d → ℝ) (ν : Fin n → ℝ) :
    (∀ θ : ℝ, 0 < θ → (∀ i, 0 < ν i) → ∀ᶠ t in nhds θ, (radialNoisy k t l x ν).PosDef) ∧
    (∀ (alpha : ℝ) (c : Fin d) (θ : ℝ), 0 ≤ alpha → (∀ i, 0 < ν i) →
      ∀ᶠ t in nhds θ, (radialNoisy k alpha (Function.update l c t) x ν).PosDef) ∧
    (∀ (alpha θ : ℝ), 0 ≤ alpha → (∀ i, 0 < ν i + θ) →
      ∀ᶠ t in nhds θ, (radialNoisy k alpha l x (fun a => ν a + t)).PosDef) := by
  refine ⟨fun θ hθ hν => ?_, fun alpha c θ ha hν => ?_, fun alpha θ ha hν => ?_⟩
  · filter_upwards [eventually_gt_nhds hθ] with t ht
    exact kernel_matrix_posDef k ht.le l x hν
  · exact Filter.Eventually.of_forall fun t => kernel_matrix_posDef k ha _ x hν
  · have h : ∀ᶠ t in nhds θ, ∀ i, 0 < ν i + t := by
      rw [Filter.eventually_all]
      intro i
      have hi : -ν i < θ := by linarith [hν i]
      filter_upwards [eventually_gt_nhds hi] with t ht
      linarith
    filter_upwards [h] with t ht
    exact kernel_matrix_posDef k ha l x (ν := fun a => ν a + t) ht

/-- **loglik_grad_radial_alpha in the model's own terms** (GLS polynomial mean): the list-encoded `loglikGrad` entry for
    `dK` = slice 0 of the hyperparameter-gradient tensor is the derivative, in the process variance, of the list-encoded
    `loglik` evaluated from the Cholesky diagonal of the concrete kernel matrix; every `θ > 0`, `ν > 0` -/
theorem loglik_grad_radial_alpha_model (k : Kind) {n d p : ℕ} (l : Fin d → ℝ) (x : Fin n → Fin d → ℝ)
    {ν : Fin n → ℝ} (hν : ∀ i, 0 < ν i) {θ : ℝ} (hθ : 0 < θ) (P : Matrix (Fin n) (Fin p) ℝ)
    (hP : Function.Injective P.mulVec) (s : ℝ) (y : Fin n → ℝ) :
    HasDerivAt
      (fun t => loglik s (List.ofFn (glsResidual P (radialNoisy k t l x ν) y))
        (List.ofFn ((radialNoisy k t l x ν)⁻¹ *ᵥ glsResidual P (radialNoisy k t l x ν) y))
        (List.ofFn fun i => cholFactor (radialNoisy k t l x ν) i i))
      ((loglikGrad s (List.ofFn ((radialNoisy k θ l x ν)⁻¹ *ᵥ glsResidual P (radialNoisy k θ l x ν) y))
        (ofFnM (radialNoisy k θ l x ν)⁻¹) [ofFnM (radialHparamGrad k θ l x 0)] [1]).getD 0 0) θ :=
  loglik_grad_poly_mean_posDef (K := fun t => radialNoisy k t l x ν) (kernel_matrix_grad_alpha k l x ν θ)
    ((kernel_matrix_posDef_near k l x ν).1 θ hθ hν) P hP s y

/-- … and in the log domain (`log_domain=True`): process variance `exp u`, entry scaled by `exp u`, derivative in `u` -/
theorem loglik_grad_radial_alpha_model_log (k : Kind) {n d p : ℕ} (l : Fin d → ℝ) (x : Fin n → Fin d → ℝ)
    {ν : Fin n → ℝ} (hν : ∀ i, 0 < ν i) (u : ℝ) (P : Matrix (Fin n) (Fin p) ℝ)
    (hP : Function.Injective P.mulVec) (s : ℝ) (y : Fin n → ℝ) :
    HasDerivAt
      (fun v => loglik s (List.ofFn (glsResidual P (radialNoisy k (Real.exp v) l x ν) y))
        (List.ofFn ((radialNoisy k (Real.exp v) l x ν)⁻¹ *ᵥ glsResidual P (radialNoisy k (Real.exp v) l x ν) y))
        (List.ofFn fun i => cholFactor (radialNoisy k (Real.exp v) l x ν) i i))
      ((loglikGrad s (List.ofFn ((radialNoisy k (Real.exp u) l x ν)⁻¹ *ᵥ glsResidual P (radialNoisy k (Real.exp u) l x ν) y))
        (ofFnM (radialNoisy k (Real.exp u) l x ν)⁻¹) [ofFnM (radialHparamGrad k (Real.exp u) l x 0)] [Real.exp u]).getD 0 0) u :=
  loglik_grad_poly_mean_log_posDef (K := fun t => radialNoisy k t l x ν) (kernel_matrix_grad_alpha k l x ν (Real.exp u))
    ((kernel_matrix_posDef_near k l x ν).1 (Real.exp u) (Real.exp_pos u) hν) P hP s y

/-- **loglik_grad_radial_length in the model's own terms** (GLS polynomial mean): length scale `c` moving, `dK` = slice
    `c + 1` of the hyperparameter-gradient tensor; every `θ ≠ 0`, `alpha ≥ 0`, `ν > 0` -/
theorem loglik_grad_radial_length_model (k : Kind) (hk : differentiable k = true) {n d p : ℕ} {alpha : ℝ}
    (ha : 0 ≤ alpha) (l : Fin d → ℝ) (x : Fin n → Fin d → ℝ) {ν : Fin n → ℝ} (hν : ∀ i, 0 < ν i) (c : Fin d)
    {θ : ℝ} (hθ : θ ≠ 0) (P : Matrix (Fin n) (Fin p) ℝ) (hP : Function.Injective P.mulVec) (s : ℝ)
    (y : Fin n → ℝ) :
    HasDerivAt
      (fun t => loglik s (List.ofFn (glsResidual P (radialNoisy k alpha (Function.update l c t) x ν) y))
        (List.ofFn ((radialNoisy k alpha (Function.update l c t) x ν)⁻¹ *ᵥ glsResidual P (radialNoisy k alpha (Function.update l c t) x ν) y))
        (List.ofFn fun i => cholFactor (radialNoisy k alpha (Function.update l c t) x ν) i i))
      ((loglikGrad s (List.ofFn ((radialNoisy k alpha (Function.update l c θ) x ν)⁻¹ *ᵥ glsResidual P (radialNoisy k alpha (Function.update l c θ) x ν) y))
        (ofFnM (radialNoisy k alpha (Function.update l c θ) x ν)⁻¹) [ofFnM (radialHparamGrad k alpha (Function.update l c θ) x (c.val + 1))] [1]).getD 0 0) θ :=
  loglik_grad_poly_mean_posDef (K := fun t => radialNoisy k alpha (Function.update l c t) x ν) (kernel_matrix_grad_length k hk alpha l x ν c hθ)
    ((kernel_matrix_posDef_near k l x ν).2.1 alpha c θ ha hν) P hP s y

/-- … and in the log domain: length scale `exp u` -/
theorem loglik_grad_radial_length_model_log (k : Kind) (hk : differentiable k = true) {n d p : ℕ} {alpha : ℝ}
    (ha : 0 ≤ alpha) (l : Fin d → ℝ) (x : Fin n → Fin d → ℝ) {ν : Fin n → ℝ} (hν : ∀ i, 0 < ν i) (c : Fin d)
    (u : ℝ) (P : Matrix (Fin n) (Fin p) ℝ) (hP : Function.Injective P.mulVec) (s : ℝ) (y : Fin n → ℝ) :
    HasDerivAt
      (fun v => loglik s (List.ofFn (glsResidual P (radialNoisy k alpha (Function.update l c (Real.exp v)) x ν) y))
        (List.ofFn ((radialNoisy k alpha (Function.update l c (Real.exp v)) x ν)⁻¹ *ᵥ glsResidual P (radialNoisy k alpha (Function.update l c (Real.exp v)) x ν) y))
        (List.ofFn fun i => cholFactor (radialNoisy k alpha (Function.update l c (Real.exp v)) x ν) i i))
      ((loglikGrad s (List.ofFn ((radialNoisy k alpha (Function.update l c (Real.exp u)) x ν)⁻¹ *ᵥ glsResidual P (radialNoisy k alpha (Function.update l c (Real.exp u)) x ν) y))
        (ofFnM (radialNoisy k alpha (Function.update l c (Real.exp u)) x ν)⁻¹) [ofFnM (radialHparamGrad k alpha (Function.update l c (Real.exp u)) x (c.val + 1))] [Real.exp u]).getD 0 0) u :=
  loglik_grad_poly_mean_log_posDef (K := fun t => radialNoisy k alpha (Function.update l c t) x ν) (kernel_matrix_grad_length k hk alpha l x ν c (Real.exp_pos u).ne')
    ((kernel_matrix_posDef_near k l x ν).2.1 alpha c (Real.exp u) ha hν) P hP s y

/-- **loglik_grad_radial_nugget in the model's own terms** (GLS polynomial mean): `K + diag ν + t·I`, `dK = I` -/
theorem loglik_grad_radial_nugget_model (k : Kind) {n d p : ℕ} {alpha : ℝ} (ha : 0 ≤ alpha) (l : Fin d → ℝ)
    (x : Fin n → Fin d → ℝ) (ν : Fin n → ℝ) {θ : ℝ} (hν : ∀ i, 0 < ν i + θ) (P : Matrix (Fin n) (Fin p) ℝ)
    (hP : Function.Injective P.mulVec) (s : ℝ) (y : Fin n → ℝ) :
    HasDerivAt
      (fun t => loglik s (List.ofFn (glsResidual P (radialNoisy k alpha l x (fun a => ν a + t)) y))
        (List.ofFn ((radialNoisy k alpha l x (fun a => ν a + t))⁻¹ *ᵥ glsResidual P (radialNoisy k alpha l x (fun a => ν a + t)) y))
        (List.ofFn fun i => cholFactor (radialNoisy k alpha l x (fun a => ν a + t)) i i))
      ((loglikGrad s (List.ofFn ((radialNoisy k alpha l x (fun a => ν a + θ))⁻¹ *ᵥ glsResidual P (radialNoisy k alpha l x (fun a => ν a + θ)) y))
        (ofFnM (radialNoisy k alpha l x (fun a => ν a + θ))⁻¹) [ofFnM ((1 : Matrix (Fin n) (Fin n) ℝ))] [1]).getD 0 0) θ :=
  loglik_grad_poly_mean_posDef (K := fun t => radialNoisy k alpha l x (fun a => ν a + t)) (kernel_matrix_grad_nugget k alpha l x ν θ).2
    ((kernel_matrix_posDef_near k l x ν).2.2 alpha θ ha hν) P hP s y

/-- … and in the log domain: nugget `exp u > 0`, so the per-point noise `ν` need only be `≥ 0` -/
theorem loglik_grad_radial_nugget_model_log (k : Kind) {n d p : ℕ} {alpha : ℝ} (ha : 0 ≤ alpha) (l : Fin d → ℝ)
    (x : Fin n → Fin d → ℝ) {ν : Fin n → ℝ} (hν : ∀ i, 0 ≤ ν i) (u : ℝ) (P : Matrix (Fin n) (Fin p) ℝ)
    (hP : Function.Injective P.mulVec) (s : ℝ) (y : Fin n → ℝ) :
    HasDerivAt
      (fun v => loglik s (List.ofFn (glsResidual P (radialNoisy k alpha l x (fun a => ν a + (Real.exp v))) y))
        (List.ofFn ((radialNoisy k alpha l x (fun a => ν a + (Real.exp v)))⁻¹ *ᵥ glsResidual P (radialNoisy k alpha l x (fun a => ν a + (Real.exp v))) y))
        (List.ofFn fun i => cholFactor (radialNoisy k alpha l x (fun a => ν a + (Real.exp v))) i i))
      ((loglikGrad s (List.ofFn ((radialNoisy k alpha l x (fun a => ν a + (Real.exp u)))⁻¹ *ᵥ glsResidual P (radialNoisy k alpha l x (fun a => ν a + (Real.exp u))) y))
        (ofFnM (radialNoisy k alpha l x (fun a => ν a + (Real.exp u)))⁻¹) [ofFnM ((1 : Matrix (Fin n) (Fin n) ℝ))] [Real.exp u]).getD 0 0) u :=
  loglik_grad_poly_mean_log_posDef (K := fun t => radialNoisy k alpha l x (fun a => ν a + t)) (kernel_matrix_grad_nugget k alpha l x ν (Real.exp u)).2
    ((kernel_matrix_posDef_near k l x ν).2.2 alpha (Real.exp u) ha
      fun i => add_pos_of_nonneg_of_pos (hν i) (Real.exp_pos u)) P hP s y

/-! ### the multitask tensor kernel -/

/-- `loglik_grad_matrix` / `loglik_grad_poly_mean_matrix` with their hypotheses replaced by: `K θ` positive definite,
    `P` of full column rank -/
theorem loglik_grad_matrix_posDef {n : ℕ} {K : ℝ → Matrix (Fin n) (Fin n) ℝ} {K' : Matrix (Fin n) (Fin n) ℝ} {θ : ℝ}
    (hK : ∀ i j, HasDerivAt (fun t => K t i j) (K' i j) θ) (hpd : (K θ).PosDef) (s : ℝ) (r : Fin n → ℝ) :
    HasDerivAt (fun t => -s * (r ⬝ᵥ ((K t)⁻¹ *ᵥ r) + Real.log (K t).det))
      (-s * (-(((K θ)⁻¹ *ᵥ r) ⬝ᵥ (K' *ᵥ ((K θ)⁻¹ *ᵥ r))) + Matrix.trace ((K θ)⁻¹ * K'))) θ :=
  loglik_grad_matrix hK hpd.det_pos (isSymm_of_posDef hpd) s r

theorem loglik_grad_poly_mean_matrix_posDef {n p : ℕ} {K : ℝ → Matrix (Fin n) (Fin n) ℝ}
    {K' : Matrix (Fin n) (Fin n) ℝ} {θ : ℝ} (hK : ∀ i j, HasDerivAt (fun t => K t i j) (K' i j) θ)
    (hpd : (K θ).PosDef) (P : Matrix (Fin n) (Fin p) ℝ) (hP : Function.Injective P.mulVec) (s : ℝ)
    (y : Fin n → ℝ) :
    HasDerivAt
      (fun t => -s * (glsResidual P (K t) y ⬝ᵥ ((K t)⁻¹ *ᵥ glsResidual P (K t) y) + Real.log (K t).det))
      (-s * (-(((K θ)⁻¹ *ᵥ glsResidual P (K θ) y) ⬝ᵥ (K' *ᵥ ((K θ)⁻¹ *ᵥ glsResidual P (K θ) y)))
        + Matrix.trace ((K θ)⁻¹ * K'))) θ :=
  have h := loglik_grad_hyp_of_posDef hpd P hP
  loglik_grad_poly_mean_matrix hK h.1 h.2.1 P h.2.2 s y

/-- **the multitask matrices are the list model's**: `MultitaskTensorCovariance.build_kernel_matrix(X, noise)` has the
    entries of `multitaskNoisy`; slice `h` of its `build_kernel_hparam_grad_tensor(X)` is `multitaskHparamGrad … h` -/
theorem multitask_matrix_model_eq (kp kt : Kind) {n d : ℕ} (alpha : ℝ) (l : Fin d → ℝ) (lt : ℝ)
    (x : Fin n → Fin d → ℝ) (τ : Fin n → ℝ) (ν : Fin n → ℝ) (h : ℕ) :
    (∀ i j : Fin n,
      C03.entry (multitaskGramNoise kp kt alpha (List.ofFn l) lt (List.ofFn fun i => List.ofFn (x i) ++ [τ i])
        (List.ofFn ν)) i j = some (multitaskNoisy kp kt alpha l lt x τ ν i j)) ∧
    (mtHparamTensor kp kt alpha (List.ofFn l) lt (List.ofFn fun i => List.ofFn (x i) ++ [τ i])).map
        (fun row => row.map fun g => g.getD h 0)
      = ofFnM (multitaskHparamGrad kp kt alpha l lt x τ h) := by
  constructor
  · intro i j
    unfold multitaskGramNoise
    rw [C03.addDiag_entry, C03.multitaskGram_entry _ _ _ _ _ _ _ _ (by simp) (by simp)]
    by_cases hij : i = j
    · subst hij; simp
    · have : (i : ℕ) ≠ (j : ℕ) := fun e => hij (Fin.ext e)
      simp [this, hij]
  · unfold mtHparamTensor
    simp only [List.map_ofFn, ofFnM]
    congr 1
    funext i
    simp only [Function.comp_apply, List.map_ofFn]
    congr 1
    funext j
    simp only [Function.comp_apply]
    rw [(multitask_entrypoints_agree kp kt alpha (List.ofFn l) lt _ _ (by simp)).2.2.2.2.1]
    rfl

/-- positive definite for `alpha ≥ 0`, `ν > 0` (C03 `multitask_gram_posSemidef`: Schur product of the two Gram matrices) -/
theorem multitask_matrix_posDef (kp kt : Kind) {n d : ℕ} {alpha : ℝ} (ha : 0 ≤ alpha) (l : Fin d → ℝ) (lt : ℝ)
    (x : Fin n → Fin d → ℝ) (τ : Fin n → ℝ) {ν : Fin n → ℝ} (hν : ∀ i, 0 < ν i) :
    (multitaskNoisy kp kt alpha l lt x τ ν).PosDef := by
  rw [multitaskNoisy_eq_noisy]
  exact C02.noisy_posDef_of_noise_pos (C03.multitask_gram_posSemidef kp kt ha l lt x τ) hν

/-- whole matrix, process variance -/
theorem multitask_matrix_grad_alpha (kp kt : Kind) {n d : ℕ} (l : Fin d → ℝ) (lt : ℝ) (x : Fin n → Fin d → ℝ)
    (τ : Fin n → ℝ) (ν : Fin n → ℝ) (θ : ℝ) (i j : Fin n) :
    HasDerivAt (fun t => multitaskNoisy kp kt t l lt x τ ν i j) (multitaskHparamGrad kp kt θ l lt x τ 0 i j) θ :=
  (multitask_grad_alpha kp kt θ (List.ofFn l) lt _ _).add_const _

/-- whole matrix, physical length scale `c` (hyperparameter index `c + 1`) -/
theorem multitask_matrix_grad_length_phys (kp kt : Kind) (hk : differentiable kp = true) {n d : ℕ} (alpha : ℝ)
    (l : Fin d → ℝ) (lt : ℝ) (x : Fin n → Fin d → ℝ) (τ : Fin n → ℝ) (ν : Fin n → ℝ) (c : Fin d) {θ : ℝ}
    (hθ : θ ≠ 0) (i j : Fin n) :
    HasDerivAt (fun t => multitaskNoisy kp kt alpha (Function.update l c t) lt x τ ν i j)
      (multitaskHparamGrad kp kt alpha (Function.update l c θ) lt x τ (c.val + 1) i j) θ := by
  simp only [multitaskNoisy_apply, multitaskHparamGrad_apply, ofFn_update]
  exact (multitask_grad_l_phys kp kt hk alpha (List.ofFn l) lt (List.ofFn (x i)) (List.ofFn (x j)) (τ i) (τ j)
    (by simp) (by simp) c.val (by simp) θ hθ).add_const _

/-- whole matrix, task length scale (last hyperparameter, index `d + 1`) -/
theorem multitask_matrix_grad_length_task (kp kt : Kind) (hk : differentiable kt = true) {n d : ℕ} (alpha : ℝ)
    (l : Fin d → ℝ) (x : Fin n → Fin d → ℝ) (τ : Fin n → ℝ) (ν : Fin n → ℝ) {θ : ℝ} (hθ : θ ≠ 0) (i j : Fin n) :
    HasDerivAt (fun t => multitaskNoisy kp kt alpha l t x τ ν i j)
      (multitaskHparamGrad kp kt alpha l θ x τ (d + 1) i j) θ := by
  have h := multitask_grad_l_task kp kt hk alpha (List.ofFn l) (List.ofFn (x i)) (List.ofFn (x j)) (τ i) (τ j)
    (by simp) (by simp) θ hθ
  rw [List.length_ofFn] at h
  exact h.add_const _

/-- whole matrix, nugget -/
theorem multitask_matrix_grad_nugget (kp kt : Kind) {n d : ℕ} (alpha : ℝ) (l : Fin d → ℝ) (lt : ℝ)
    (x : Fin n → Fin d → ℝ) (τ : Fin n → ℝ) (ν : Fin n → ℝ) (θ : ℝ) :
    (∀ t, multitaskNoisy kp kt alpha l lt x τ (fun a => ν a + t)
      = multitaskNoisy kp kt alpha l lt x τ ν + t • (1 : Matrix (Fin n) (Fin n) ℝ)) ∧
    ∀ i j : Fin n, HasDerivAt (fun t => multitaskNoisy kp kt alpha l lt x τ (fun a => ν a + t) i j)
      ((1 : Matrix (Fin n) (Fin n) ℝ) i j) θ :=
  ⟨multitaskNoisy_nugget_eq kp kt alpha l lt x τ ν, multitaskNoisy_nugget_hasDerivAt kp kt alpha l lt x τ ν θ⟩

/-- **loglik_grad_multitask_alpha**: the log-likelihood gradient in the process variance for the concrete multitask
    kernel matrix, `K'` slice 0 of the multitask hyperparameter-gradient tensor; every `θ ≥ 0`, `ν > 0`, zero mean -/
theorem loglik_grad_multitask_alpha (kp kt : Kind) {n d : ℕ} (l : Fin d → ℝ) (lt : ℝ) (x : Fin n → Fin d → ℝ)
    (τ : Fin n → ℝ) {ν : Fin n → ℝ} (hν : ∀ i, 0 < ν i) {θ : ℝ} (hθ : 0 ≤ θ)
    (s : ℝ) (r : Fin n → ℝ) :
    HasDerivAt
      (fun t => -s * (r ⬝ᵥ ((multitaskNoisy kp kt t l lt x τ ν)⁻¹ *ᵥ r)
        + Real.log (multitaskNoisy kp kt t l lt x τ ν).det))
      (-s * (-(((multitaskNoisy kp kt θ l lt x τ ν)⁻¹ *ᵥ r) ⬝ᵥ
            (multitaskHparamGrad kp kt θ l lt x τ 0 *ᵥ ((multitaskNoisy kp kt θ l lt x τ ν)⁻¹ *ᵥ r)))
        + Matrix.trace ((multitaskNoisy kp kt θ l lt x τ ν)⁻¹ * multitaskHparamGrad kp kt θ l lt x τ 0))) θ :=
  loglik_grad_matrix_posDef (K := fun t => multitaskNoisy kp kt t l lt x τ ν)
    (multitask_matrix_grad_alpha kp kt l lt x τ ν θ) (multitask_matrix_posDef kp kt hθ l lt x τ hν) s r

/-- … GLS polynomial mean, `P` of full column rank -/
theorem loglik_grad_multitask_alpha_poly_mean (kp kt : Kind) {n d p : ℕ} (l : Fin d → ℝ) (lt : ℝ) (x : Fin n → Fin d → ℝ)
    (τ : Fin n → ℝ) {ν : Fin n → ℝ} (hν : ∀ i, 0 < ν i) {θ : ℝ} (hθ : 0 ≤ θ)
    (P : Matrix (Fin n) (Fin p) ℝ) (hP : Function.Injective P.mulVec) (s : ℝ) (y : Fin n → ℝ) :
    HasDerivAt
      (fun t => -s * (glsResidual P (multitaskNoisy kp kt t l lt x τ ν) y ⬝ᵥ
          ((multitaskNoisy kp kt t l lt x τ ν)⁻¹ *ᵥ glsResidual P (multitaskNoisy kp kt t l lt x τ ν) y)
        + Real.log (multitaskNoisy kp kt t l lt x τ ν).det))
      (-s * (-(((multitaskNoisy kp kt θ l lt x τ ν)⁻¹ *ᵥ glsResidual P (multitaskNoisy kp kt θ l lt x τ ν) y) ⬝ᵥ
            (multitaskHparamGrad kp kt θ l lt x τ 0 *ᵥ ((multitaskNoisy kp kt θ l lt x τ ν)⁻¹ *ᵥ
              glsResidual P (multitaskNoisy kp kt θ l lt x τ ν) y)))
        + Matrix.trace ((multitaskNoisy kp kt θ l lt x τ ν)⁻¹ * multitaskHparamGrad kp kt θ l lt x τ 0))) θ :=
  loglik_grad_poly_mean_matrix_posDef (K := fun t => multitaskNoisy kp kt t l lt x τ ν)
    (multitask_matrix_grad_alpha kp kt l lt x τ ν θ) (multitask_matrix_posDef kp kt hθ l lt x τ hν) P hP s y

/-- non-vacuity of `loglik_grad_multitask_alpha`: SE × SE tensor kernel, length scales 1, points (0; task 0) and
    (1; task 1), noise 1/10: off-diagonal entry `t · e^{-1/2} · e^{-1/2}` -/
example (s : ℝ) (r : Fin 2 → ℝ) :
    let e : ℝ := Real.exp (-(1 / 2)) * Real.exp (-(1 / 2))
    let K : ℝ → Matrix (Fin 2) (Fin 2) ℝ := fun t => !![t + 1 / 10, t * e; t * e, t + 1 / 10]
    let K' : Matrix (Fin 2) (Fin 2) ℝ := !![1, e; e, 1]
    HasDerivAt (fun t => -s * (r ⬝ᵥ ((K t)⁻¹ *ᵥ r) + Real.log (K t).det))
      (-s * (-(((K 2)⁻¹ *ᵥ r) ⬝ᵥ (K' *ᵥ ((K 2)⁻¹ *ᵥ r))) + Matrix.trace ((K 2)⁻¹ * K'))) 2 := by
  intro e K K'
  have hK : ∀ t, multitaskNoisy Kind.se Kind.se t ![(1 : ℝ)] 1 ![![0], ![1]] ![0, 1] (fun _ => 1 / 10) = K t := by
    intro t
    ext i j
    fin_cases i <;> fin_cases j <;>
      simp [K, e, multitaskNoisy, multitask, physPart, taskPart, phi, r2, two]
  have hK' : multitaskHparamGrad Kind.se Kind.se 2 ![(1 : ℝ)] 1 ![![0], ![1]] ![0, 1] 0 = K' := by
    ext i j
    fin_cases i <;> fin_cases j <;>
      simp [K', e, multitaskHparamGrad, mtGradKernelH, mtHparamRowWith, physPart, taskPart, phi, r2, two]
  have h := loglik_grad_multitask_alpha Kind.se Kind.se ![(1 : ℝ)] 1 ![![0], ![1]] ![0, 1] (ν := fun _ => 1 / 10)
    (fun _ => by norm_num) (θ := 2) (by norm_num) s r
  simpa only [hK, hK'] using h

/-- **loglik_grad_multitask_length_phys**: physical length scale `c` moving, `K'` slice `c + 1`; every `θ ≠ 0`, zero mean -/
theorem loglik_grad_multitask_length_phys (kp kt : Kind) (hk : differentiable kp = true) {n d : ℕ} {alpha : ℝ}
    (ha : 0 ≤ alpha) (l : Fin d → ℝ) (lt : ℝ) (x : Fin n → Fin d → ℝ) (τ : Fin n → ℝ) {ν : Fin n → ℝ}
    (hν : ∀ i, 0 < ν i) (c : Fin d) {θ : ℝ} (hθ : θ ≠ 0)
    (s : ℝ) (r : Fin n → ℝ) :
    HasDerivAt
      (fun t => -s * (r ⬝ᵥ ((multitaskNoisy kp kt alpha (Function.update l c t) lt x τ ν)⁻¹ *ᵥ r)
        + Real.log (multitaskNoisy kp kt alpha (Function.update l c t) lt x τ ν).det))
      (-s * (-(((multitaskNoisy kp kt alpha (Function.update l c θ) lt x τ ν)⁻¹ *ᵥ r) ⬝ᵥ
            (multitaskHparamGrad kp kt alpha (Function.update l c θ) lt x τ (c.val + 1) *ᵥ ((multitaskNoisy kp kt alpha (Function.update l c θ) lt x τ ν)⁻¹ *ᵥ r)))
        + Matrix.trace ((multitaskNoisy kp kt alpha (Function.update l c θ) lt x τ ν)⁻¹ * multitaskHparamGrad kp kt alpha (Function.update l c θ) lt x τ (c.val + 1)))) θ :=
  loglik_grad_matrix_posDef (K := fun t => multitaskNoisy kp kt alpha (Function.update l c t) lt x τ ν)
    (multitask_matrix_grad_length_phys kp kt hk alpha l lt x τ ν c hθ) (multitask_matrix_posDef kp kt ha _ lt x τ hν) s r

/-- … GLS polynomial mean, `P` of full column rank -/
theorem loglik_grad_multitask_length_phys_poly_mean (kp kt : Kind) (hk : differentiable kp = true) {n d p : ℕ} {alpha : ℝ}
    (ha : 0 ≤ alpha) (l : Fin d → ℝ) (lt : ℝ) (x : Fin n → Fin d → ℝ) (τ : Fin n → ℝ) {ν : Fin n → ℝ}
    (hν : ∀ i, 0 < ν i) (c : Fin d) {θ : ℝ} (hθ : θ ≠ 0)
    (P : Matrix (Fin n) (Fin p) ℝ) (hP : Function.Injective P.mulVec) (s : ℝ) (y : Fin n → ℝ) :
    HasDerivAt
      (fun t => -s * (glsResidual P (multitaskNoisy kp kt alpha (Function.update l c t) lt x τ ν) y ⬝ᵥ
          ((multitaskNoisy kp kt alpha (Function.update l c t) lt x τ ν)⁻¹ *ᵥ glsResidual P (multitaskNoisy kp kt alpha (Function.update l c t) lt x τ ν) y)
        + Real.log (multitaskNoisy kp kt alpha (Function.update l c t) lt x τ ν).det))
      (-s * (-(((multitaskNoisy kp kt alpha (Function.update l c θ) lt x τ ν)⁻¹ *ᵥ glsResidual P (multitaskNoisy kp kt alpha (Function.update l c θ) lt x τ ν) y) ⬝ᵥ
            (multitaskHparamGrad kp kt alpha (Function.update l c θ) lt x τ (c.val + 1) *ᵥ ((multitaskNoisy kp kt alpha (Function.update l c θ) lt x τ ν)⁻¹ *ᵥ
              glsResidual P (multitaskNoisy kp kt alpha (Function.update l c θ) lt x τ ν) y)))
        + Matrix.trace ((multitaskNoisy kp kt alpha (Function.update l c θ) lt x τ ν)⁻¹ * multitaskHparamGrad kp kt alpha (Function.update l c θ) lt x τ (c.val + 1)))) θ :=
  loglik_grad_poly_mean_matrix_posDef (K := fun t => multitaskNoisy kp kt alpha (Function.update l c t) lt x τ ν)
    (multitask_matrix_grad_length_phys kp kt hk alpha l lt x τ ν c hθ) (multitask_matrix_posDef kp kt ha _ lt x τ hν) P hP s y

/-- **loglik_grad_multitask_length_task**: the task length scale moving, `K'` slice `d + 1`; every `θ ≠ 0`, zero mean -/
theorem loglik_grad_multitask_length_task (kp kt : Kind) (hk : differentiable kt = true) {n d : ℕ} {alpha : ℝ}
    (ha : 0 ≤ alpha) (l : Fin d → ℝ) (x : Fin n → Fin d → ℝ) (τ : Fin n → ℝ) {ν : Fin n → ℝ}
    (hν : ∀ i, 0 < ν i) {θ : ℝ} (hθ : θ ≠ 0)
    (s : ℝ) (r : Fin n → ℝ) :
    HasDerivAt
      (fun t => -s * (r ⬝ᵥ ((multitaskNoisy kp kt alpha l t x τ ν)⁻¹ *ᵥ r)
        + Real.log (multitaskNoisy kp kt alpha l t x τ ν).det))
      (-s * (-(((multitaskNoisy kp kt alpha l θ x τ ν)⁻¹ *ᵥ r) ⬝ᵥ
            (multitaskHparamGrad kp kt alpha l θ x τ (d + 1) *ᵥ ((multitaskNoisy kp kt alpha l θ x τ ν)⁻¹ *ᵥ r)))
        + Matrix.trace ((multitaskNoisy kp kt alpha l θ x τ ν)⁻¹ * multitaskHparamGrad kp kt alpha l θ x τ (d + 1)))) θ :=
  loglik_grad_matrix_posDef (K := fun t => multitaskNoisy kp kt alpha l t x τ ν)
    (multitask_matrix_grad_length_task kp kt hk alpha l x τ ν hθ) (multitask_matrix_posDef kp kt ha l θ x τ hν) s r

/-- … GLS polynomial mean, `P` of full column rank -/
theorem loglik_grad_multitask_length_task_poly_mean (kp kt : Kind) (hk : differentiable kt = true) {n d p : ℕ} {alpha : ℝ}
    (ha : 0 ≤ alpha) (l : Fin d → ℝ) (x : Fin n → Fin d → ℝ) (τ : Fin n → ℝ) {ν : Fin n → ℝ}
    (hν : ∀ i, 0 < ν i) {θ : ℝ} (hθ : θ ≠ 0)
    (P : Matrix (Fin n) (Fin p) ℝ) (hP : Function.Injective P.mulVec) (s : ℝ) (y : Fin n → ℝ) :
    HasDerivAt
      (fun t => -s * (glsResidual P (multitaskNoisy kp kt alpha l t x τ ν) y ⬝ᵥ
          ((multitaskNoisy kp kt alpha l t x τ ν)⁻¹ *ᵥ glsResidual P (multitaskNoisy kp kt alpha l t x τ ν) y)
        + Real.log (multitaskNoisy kp kt alpha l t x τ ν).det))
      (-s * (-(((multitaskNoisy kp kt alpha l θ x τ ν)⁻¹ *ᵥ glsResidual P (multitaskNoisy kp kt alpha l θ x τ ν) y) ⬝ᵥ
            (multitaskHparamGrad kp kt alpha l θ x τ (d + 1) *ᵥ ((multitaskNoisy kp kt alpha l θ x τ ν)⁻¹ *ᵥ
              glsResidual P (multitaskNoisy kp kt alpha l θ x τ ν) y)))
        + Matrix.trace ((multitaskNoisy kp kt alpha l θ x τ ν)⁻¹ * multitaskHparamGrad kp kt alpha l θ x τ (d + 1)))) θ :=
  loglik_grad_poly_mean_matrix_posDef (K := fun t => multitaskNoisy kp kt alpha l t x τ ν)
    (multitask_matrix_grad_length_task kp kt hk alpha l x τ ν hθ) (multitask_matrix_posDef kp kt ha l θ x τ hν) P hP s y

/-- **loglik_grad_multitask_nugget**: `K + diag ν + t·I`, `K' = I`; every θ with `ν i + θ > 0`, zero mean -/
theorem loglik_grad_multitask_nugget (kp kt : Kind) {n d : ℕ} {alpha : ℝ} (ha : 0 ≤ alpha) (l : Fin d → ℝ) (lt : ℝ)
    (x : Fin n → Fin d → ℝ) (τ : Fin n → ℝ) (ν : Fin n → ℝ) {θ : ℝ} (hν : ∀ i, 0 < ν i + θ)
    (s : ℝ) (r : Fin n → ℝ) :
    HasDerivAt
      (fun t => -s * (r ⬝ᵥ ((multitaskNoisy kp kt alpha l lt x τ (fun a => ν a + t))⁻¹ *ᵥ r)
        + Real.log (multitaskNoisy kp kt alpha l lt x τ (fun a => ν a + t)).det))
      (-s * (-(((multitaskNoisy kp kt alpha l lt x τ (fun a => ν a + θ))⁻¹ *ᵥ r) ⬝ᵥ
            ((1 : Matrix (Fin n) (Fin n) ℝ) *ᵥ ((multitaskNoisy kp kt alpha l lt x τ (fun a => ν a + θ))⁻¹ *ᵥ r)))
        + Matrix.trace ((multitaskNoisy kp kt alpha l lt x τ (fun a => ν a + θ))⁻¹ * (1 : Matrix (Fin n) (Fin n) ℝ)))) θ :=
  loglik_grad_matrix_posDef (K := fun t => multitaskNoisy kp kt alpha l lt x τ (fun a => ν a + t))
    (multitask_matrix_grad_nugget kp kt alpha l lt x τ ν θ).2 (multitask_matrix_posDef kp kt ha l lt x τ (ν := fun a => ν a + θ) hν) s r

/-- … GLS polynomial mean, `P` of full column rank -/
theorem loglik_grad_multitask_nugget_poly_mean (kp kt : Kind) {n d p : ℕ} {alpha : ℝ} (ha : 0 ≤ alpha) (l : Fin d → ℝ) (lt : ℝ)
    (x : Fin n → Fin d → ℝ) (τ : Fin n → ℝ) (ν : Fin n → ℝ) {θ : ℝ} (hν : ∀ i, 0 < ν i + θ)
    (P : Matrix (Fin n) (Fin p) ℝ) (hP : Function.Injective P.mulVec) (s : ℝ) (y : Fin n → ℝ) :
    HasDerivAt
      (fun t => -s * (glsResidual P (multitaskNoisy kp kt alpha l lt x τ (fun a => ν a + t)) y ⬝ᵥ
          ((multitaskNoisy kp kt alpha l lt x τ (fun a => ν a + t))⁻¹ *ᵥ glsResidual P (multitaskNoisy kp kt alpha l lt x τ (fun a => ν a + t)) y)
        + Real.log (multitaskNoisy kp kt alpha l lt x τ (fun a => ν a + t)).det))
      (-s * (-(((multitaskNoisy kp kt alpha l lt x τ (fun a => ν a + θ))⁻¹ *ᵥ glsResidual P (multitaskNoisy kp kt alpha l lt x τ (fun a => ν a + θ)) y) ⬝ᵥ
            ((1 : Matrix (Fin n) (Fin n) ℝ) *ᵥ ((multitaskNoisy kp kt alpha l lt x τ (fun a => ν a + θ))⁻¹ *ᵥ
              glsResidual P (multitaskNoisy kp kt alpha l lt x τ (fun a => ν a + θ)) y)))
        + Matrix.trace ((multitaskNoisy kp kt alpha l lt x τ (fun a => ν a + θ))⁻¹ * (1 : Matrix (Fin n) (Fin n) ℝ)))) θ :=
  loglik_grad_poly_mean_matrix_posDef (K := fun t => multitaskNoisy kp kt alpha l lt x τ (fun a => ν a + t))
    (multitask_matrix_grad_nugget kp kt alpha l lt x τ ν θ).2 (multitask_matrix_posDef kp kt ha l lt x τ (ν := fun a => ν a + θ) hν) P hP s y

end Compose

/-- one observation, in scalars (the statement that was proved before the general one) -/
theorem loglik_grad_partial {K : ℝ → ℝ} {K' θ : ℝ} (s y : ℝ) (hK : HasDerivAt K K' θ) (hpos : 0 < K θ) :
    HasDerivAt (fun u => loglik s [y] [y / K u] [Real.sqrt (K u)])
      ((loglikGrad s [y / K θ] [[1 / K θ]] [[[K']]] [1]).getD 0 0) θ :=
  loglik_one_hasDerivAt s y hK hpos

end C04
