/-
  C01 — Every suggested point is a feasible, well-formed configuration.
  The finalisation pipeline of every next-points endpoint maps relaxed in-polytope points, for EVERY outcome
  of the random choices, to admissible configurations; count rule; task costs come from the options;
  softmax preference for cheaper tasks.
-/
import Model.C01
import Properties.C09
import Proofs.C01
import Proofs.C01Bridge
import Proofs.C01BridgeC08
import Properties.C08
import Properties.C10
import Model.Generated.Phases
import Mathlib.Tactic.NormNum
import Proofs.ArithReal
import Mathlib.Tactic.Positivity
import Mathlib.Tactic.Linarith
import Mathlib.Tactic.FieldSimp

namespace C01
open Dom C09

/-! ### de-duplication and neighbour choice only select -/

theorem keepMask_mem {α} (xs : List α) (m : List Bool) (y : α) (h : y ∈ keepMask xs m) : y ∈ xs := by
  induction xs generalizing m with
  | nil => cases m <;> simp [keepMask] at h
  | cons x xs ih =>
    cases m with
    | nil => simp [keepMask] at h
    | cons b m =>
      cases b
      · simp only [keepMask, Bool.false_eq_true, if_false] at h
        exact List.mem_cons_of_mem _ (ih m h)
      · simp only [keepMask, if_true, List.mem_cons] at h
        rcases h with rfl | h
        · exact List.mem_cons_self ..
        · exact List.mem_cons_of_mem _ (ih m h)

theorem keepMask_length_le {α} (xs : List α) (m : List Bool) : (keepMask xs m).length ≤ xs.length := by
  induction xs generalizing m with
  | nil => cases m <;> simp [keepMask]
  | cons x xs ih =>
    cases m with
    | nil => simp [keepMask]
    | cons b m =>
      cases b
      · simp only [keepMask, Bool.false_eq_true, if_false, List.length_cons]; have := ih m; omega
      · simp only [keepMask, if_true, List.length_cons]; have := ih m; omega

theorem chooseNeighbours_mem (cands : List Rat → List (List Rat)) (pick : Nat → Nat) (k : Nat) (xs : List (List Rat))
    (y : List Rat) (h : y ∈ chooseNeighbours cands pick k xs) : ∃ x ∈ xs, y = x ∨ y ∈ cands x := by
  induction xs generalizing k with
  | nil => simp [chooseNeighbours] at h
  | cons x xs ih =>
    simp only [chooseNeighbours, List.mem_cons] at h
    rcases h with rfl | h
    · refine ⟨x, List.mem_cons_self .., ?_⟩
      unfold pickNeighbour
      by_cases hi : pick k < (cands x).length
      · right; simp only [List.getD, List.getElem?_eq_getElem hi, Option.getD_some]; exact List.getElem_mem hi
      · left; simp only [List.getD, List.getElem?_eq_none (by omega : (cands x).length ≤ pick k), Option.getD_none]
    · obtain ⟨x', hx', hy⟩ := ih (k + 1) h
      exact ⟨x', List.mem_cons_of_mem _ hx', hy⟩

theorem chooseNeighbours_length (cands : List Rat → List (List Rat)) (pick : Nat → Nat) (k : Nat) (xs : List (List Rat)) :
    (chooseNeighbours cands pick k xs).length = xs.length := by
  induction xs generalizing k with
  | nil => rfl
  | cons x xs ih => simp [chooseNeighbours, ih]

/-! ### Membership: every returned configuration is admissible -/

/-- GP / GP-search endpoints.  Hypotheses are exactly what the earlier stages guarantee:
    the optimiser's outputs lie in the relaxed polytope (C07 + C08), lattice-neighbour candidates stay in it
    (C09 `neighInt_on_lattice` / `neighCat_on_lattice`; re-validated on every recorded run), refill rows are
    admissible (C10 / C08).  The conclusion holds for EVERY oracle: neighbour pick, shuffles, random neighbour
    choices, categorical draws, both de-duplication masks. -/
theorem finalizeGP_admissible (d : Domain) (cands : List Rat → List (List Rat)) (o : Oracle) (xs : List (List Rat))
    (hw : d.wf = true) (hs : ∀ i l, ∀ y ∈ o.shuf i l, y ∈ l)
    (hx : ∀ x ∈ xs, inRelaxed d x = true) (hc : ∀ x ∈ xs, ∀ y ∈ cands x, inRelaxed d y = true)
    (hf : ∀ f ∈ o.fresh, admissible d f = true) :
    ∀ c ∈ finalizeGP d cands o xs, admissible d c = true := by
  intro c hcm
  simp only [finalizeGP, List.mem_append] at hcm
  rcases hcm with hcm | hcm
  · have h1 := keepMask_mem _ _ _ (keepMask_mem _ _ _ hcm)
    have hch : ∀ y ∈ chooseNeighbours cands o.pick 0 xs, inRelaxed d y = true := by
      intro y hy
      obtain ⟨x, hxm, rfl | hy'⟩ := chooseNeighbours_mem cands o.pick 0 xs y hy
      · exact hx _ hxm
      · exact hc x hxm y hy'
    exact (decodeAll_admissible d o.shuf o.nb o.ω _ hw hs hch).1 c h1
  · exact hf c hcm

/-- Parzen endpoints (and the initialisation / explore paths that decode restricted samples). -/
theorem finalizeSPE_admissible (d : Domain) (o : Oracle) (xs : List (List Rat))
    (hw : d.wf = true) (hs : ∀ i l, ∀ y ∈ o.shuf i l, y ∈ l) (hx : ∀ x ∈ xs, inRelaxed d x = true) :
    ∀ c ∈ finalizeSPE d o xs, admissible d c = true :=
  (decodeAll_admissible d o.shuf o.nb o.ω xs hw hs hx).1

/-! ### Lattice-neighbour candidates stay in the relaxed polytope -/

/-- `generate_neighboring_integer_points` (used only when the domain has no int constraint: the endpoint sets
    the option to "none" otherwise): every floor/ceil neighbour of a relaxed-polytope point is in the polytope. -/
theorem neighInt_inRelaxed (d : Domain) (x : List Rat) (hw : d.wf = true) (hic : isIntConstrained d = false)
    (hx : inRelaxed d x = true) : ∀ y ∈ neighInt d.comps x, inRelaxed d y = true := by
  intro y hy
  have hx' := hx
  simp only [inRelaxed, Bool.and_eq_true, List.all_eq_true, decide_eq_true_eq] at hx'
  have hlen := inRelaxedBox_length hx'.1
  obtain ⟨hrel, _, hbox⟩ := (neighInt_on_lattice d.comps x hlen).2 y hy
  have hwf := hw
  simp only [Domain.wf, Bool.and_eq_true] at hwf
  simp only [inRelaxed, Bool.and_eq_true, List.all_eq_true, decide_eq_true_eq]
  refine ⟨hbox hwf.1 hx'.1, fun c hc => ?_⟩
  rw [neighbourRel_dot_double d.comps (intFlags d.comps) c.weights x y
    (cons_double_of_not_intConstrained hw hic c hc) (flagsOnInt_intFlags d.comps) hrel]
  exact hx'.2 c hc

/-- `generate_neighboring_categorical_points`: replacing categorical blocks by indicator vectors keeps a
    relaxed-polytope point in the polytope (constraint weights vanish on categorical blocks). -/
theorem neighCat_inRelaxed (d : Domain) (x : List Rat) (hx : inRelaxed d x = true) :
    ∀ y ∈ neighCat d.comps x, inRelaxed d y = true := by
  intro y hy
  have hx' := hx
  simp only [inRelaxed, Bool.and_eq_true, List.all_eq_true, decide_eq_true_eq] at hx'
  have hlen := inRelaxedBox_length hx'.1
  obtain ⟨hrel, hbox⟩ := (neighCat_on_lattice d.comps x hlen).2 y hy
  simp only [inRelaxed, Bool.and_eq_true, List.all_eq_true, decide_eq_true_eq]
  refine ⟨hbox hx'.1, fun c hc => ?_⟩
  rw [catNeighbourRel_dot d.comps _ x y hrel]
  exact hx'.2 c hc

/-- option "both": categorical neighbours of integer neighbours -/
theorem neighBoth_inRelaxed (d : Domain) (x : List Rat) (hw : d.wf = true) (hic : isIntConstrained d = false)
    (hx : inRelaxed d x = true) : ∀ y ∈ (neighInt d.comps x).flatMap (neighCat d.comps), inRelaxed d y = true := by
  intro y hy
  simp only [List.mem_flatMap] at hy
  obtain ⟨z, hz, hyz⟩ := hy
  exact neighCat_inRelaxed d z (neighInt_inRelaxed d x hw hic hx z hz) y hyz

/-! ### Which neighbour search is used (decision function regenerated from the source) -/

/-- number of lattice candidates `find_best_one_hot_neighbor_by_af` evaluates per point -/
def candidateCount (o : Gen.ConvOption) (ints cats : Int) : Int :=
  match o with
  | .none => 1
  | .int => 2 ^ ints.toNat
  | .cat => cats
  | .both => cats * 2 ^ ints.toNat

/-- The generated `get_discrete_conversion_option` only ever selects a neighbour search whose candidate set is
    bounded: at most 30000 candidates per point, for every number of int components and every product of
    category counts. -/
theorem conv_option_bounds (ints cats : Int) (hc : 1 ≤ cats) :
    (Gen.get_discrete_conversion_option ints cats = .both → 0 < ints ∧ ints ≤ 14 ∧ 1 < cats ∧ cats ≤ 4000 ∧ cats * 2 ^ ints.toNat ≤ 30000) ∧
    (Gen.get_discrete_conversion_option ints cats = .int → 0 < ints ∧ ints ≤ 14) ∧
    (Gen.get_discrete_conversion_option ints cats = .cat → 1 < cats ∧ cats ≤ 4000) := by
  simp only [Gen.get_discrete_conversion_option]
  refine ⟨?_, ?_, ?_⟩ <;> intro h <;> split_ifs at h <;> simp_all <;> (try norm_cast at *) <;> (try omega)

theorem candidateCount_le (ints cats : Int) (hc : 1 ≤ cats) :
    candidateCount (Gen.get_discrete_conversion_option ints cats) ints cats ≤ 30000 := by
  obtain ⟨hb, hi, hk⟩ := conv_option_bounds ints cats hc
  cases h : Gen.get_discrete_conversion_option ints cats with
  | none => simp [candidateCount]
  | both => simp only [candidateCount]; exact (hb h).2.2.2.2
  | cat => simp only [candidateCount]; have := (hk h).2; omega
  | int =>
    simp only [candidateCount]
    obtain ⟨h0, h14⟩ := hi h
    have : ints.toNat ≤ 14 := by omega
    calc (2 : Int) ^ ints.toNat ≤ 2 ^ 14 := by exact_mod_cast Nat.pow_le_pow_right (by norm_num) this
      _ ≤ 30000 := by norm_num

/-! ### What the vectorised optimisers and the Parzen sampler hand to the decode stage (composition with C08) -/

/-- Every point that went through `restrict_points_to_domain` of the request's one-hot domain - that is every
    iterate and every final point of DE / Adam (C07 `*_all_evaluated_restricted`), every perturbed sample of the
    Parzen sampler and every re-projected Parzen suggestion - lies in the relaxed polytope of the domain, for
    every input point, viable point, flag and random draw.  This discharges the `hx` hypothesis of
    `finalizeGP_admissible` / `finalizeSPE_admissible`. -/
theorem restricted_inRelaxed (d : Domain) (cheby : List Rat) (viable : Option (List Rat)) (onC : Bool) (u : Rat)
    (p : List Rat) (hwf : C08.boxWF (relaxedBox d.comps) = true) (hcw : C08.consWF (C01Bridge.toCons d) = true)
    (hl : p.length = (relaxedBox d.comps).length) (hcl : cheby.length = (relaxedBox d.comps).length)
    (hc : C08.strictAll (C08.halfspaces (relaxedBox d.comps) (C01Bridge.toCons d)) cheby = true)
    (hu0 : 0 ≤ u) (hu1 : u < 1) :
    inRelaxed d (C08.restrictPoint (relaxedBox d.comps) (C01Bridge.toCons d) cheby viable onC u p) = true := by
  obtain ⟨hb, _, hcons⟩ := C08.restrict_satisfies (relaxedBox d.comps) (C01Bridge.toCons d) cheby viable onC u p
    hwf hcw hl hcl hc hu0 hu1
  exact C01Bridge.inRelaxed_of_c08 d _ hb hcons

/-- End to end for the Parzen endpoints: restricted samples, decoded, are admissible - no hypothesis left about
    the samples themselves (any points `ps`, any draws `us` in [0,1)). -/
theorem finalizeSPE_of_restricted (d : Domain) (o : Oracle) (cheby : List Rat) (viable : Option (List Rat)) (onC : Bool)
    (us : List Rat) (ps : List (List Rat)) (hw : d.wf = true) (hs : ∀ i l, ∀ y ∈ o.shuf i l, y ∈ l)
    (hwf : C08.boxWF (relaxedBox d.comps) = true) (hcw : C08.consWF (C01Bridge.toCons d) = true)
    (hl : ∀ p ∈ ps, p.length = (relaxedBox d.comps).length) (hcl : cheby.length = (relaxedBox d.comps).length)
    (hc : C08.strictAll (C08.halfspaces (relaxedBox d.comps) (C01Bridge.toCons d)) cheby = true)
    (hu : ∀ u ∈ us, 0 ≤ u ∧ u < 1) :
    ∀ c ∈ finalizeSPE d o ((ps.zip us).map fun pu =>
        C08.restrictPoint (relaxedBox d.comps) (C01Bridge.toCons d) cheby viable onC pu.2 pu.1),
      admissible d c = true := by
  apply finalizeSPE_admissible d o _ hw hs
  intro x hx
  obtain ⟨⟨p, u⟩, hpu, rfl⟩ := List.mem_map.mp hx
  have hz := List.of_mem_zip hpu
  exact restricted_inRelaxed d cheby viable onC u p hwf hcw (hl p hz.1) hcl hc (hu u hz.2).1 (hu u hz.2).2

/-! ### The refill of `replace_duplicate_points` on a discrete unconstrained domain (composition with C10) -/

/-- Every row the distinct sampler returns - on the enumerating branch and on the sampling-with-replacement
    branches alike, for every history and every oracle - is admissible in the shared domain model.  This
    discharges the `fresh` hypothesis of `finalizeGP_admissible` for discrete unconstrained domains. -/
theorem refill_admissible_discrete (d10 : C10.Domain) (hist : List C10.Row) (k : Nat) (dupProb : Rat)
    (hwf : C10.WF d10) (hd : C10.isDiscrete d10 = true) (hI : ∀ r ∈ hist, C10.wellTypedRow d10 r = true)
    (ω : C10.Oracle) :
    ∀ p ∈ C10.distinct d10 false hist k dupProb ω, admissible (C01Bridge.toDom d10) p = true := by
  intro p hp
  rw [C01Bridge.admissible_eq]
  cases hs : C10.onShortcut d10 hist k dupProb with
  | true => exact C10.distinct_admissible_shortcut hwf hd hs ω p hp
  | false => exact C10.distinct_admissible hwf hd hI hs ω p hp

/-- GP endpoints on a discrete unconstrained domain: admissibility of the whole response with NO hypothesis on
    the refill - it is the distinct sampler's output. -/
theorem finalizeGP_admissible_discrete (d10 : C10.Domain) (cands : List Rat → List (List Rat)) (o : Oracle)
    (xs : List (List Rat)) (hist : List C10.Row) (k : Nat) (dupProb : Rat) (ω : C10.Oracle)
    (hw : (C01Bridge.toDom d10).wf = true) (hwf : C10.WF d10) (hd : C10.isDiscrete d10 = true)
    (hI : ∀ r ∈ hist, C10.wellTypedRow d10 r = true)
    (hs : ∀ i l, ∀ y ∈ o.shuf i l, y ∈ l)
    (hx : ∀ x ∈ xs, inRelaxed (C01Bridge.toDom d10) x = true)
    (hc : ∀ x ∈ xs, ∀ y ∈ cands x, inRelaxed (C01Bridge.toDom d10) y = true)
    (hfresh : o.fresh = C10.distinct d10 false hist k dupProb ω) :
    ∀ c ∈ finalizeGP (C01Bridge.toDom d10) cands o xs, admissible (C01Bridge.toDom d10) c = true :=
  finalizeGP_admissible _ cands o xs hw hs hx hc
    (by rw [hfresh]; exact refill_admissible_discrete d10 hist k dupProb hwf hd hI ω)

/-! ### Count -/

theorem finalizeGP_count_le (d : Domain) (cands : List Rat → List (List Rat)) (o : Oracle) (xs : List (List Rat))
    (hw : d.wf = true) (hs : ∀ i l, ∀ y ∈ o.shuf i l, y ∈ l)
    (hx : ∀ x ∈ xs, inRelaxed d x = true) (hc : ∀ x ∈ xs, ∀ y ∈ cands x, inRelaxed d y = true) :
    (finalizeGP d cands o xs).length ≤ xs.length + o.fresh.length := by
  have hch : ∀ y ∈ chooseNeighbours cands o.pick 0 xs, inRelaxed d y = true := by
    intro y hy
    obtain ⟨x, hxm, rfl | hy'⟩ := chooseNeighbours_mem cands o.pick 0 xs y hy
    · exact hx _ hxm
    · exact hc x hxm y hy'
  have h2 := (decodeAll_admissible d o.shuf o.nb o.ω _ hw hs hch).2
  rw [chooseNeighbours_length] at h2
  simp only [finalizeGP, List.length_append]
  have a := keepMask_length_le (keepMask (decodeAll d o.shuf o.nb o.ω (chooseNeighbours cands o.pick 0 xs)) o.mask1) o.mask2
  have b := keepMask_length_le (decodeAll d o.shuf o.nb o.ω (chooseNeighbours cands o.pick 0 xs)) o.mask1
  omega

/-- Exactly the requested number: whenever the refill supplies what `replace_duplicate_points` asks for
    (always, unless a fully discrete domain is exhausted – C10's count law) and no int constraint can drop
    rows in the snap, the batch size is preserved. -/
theorem finalizeGP_count_exact (d : Domain) (cands : List Rat → List (List Rat)) (o : Oracle) (xs : List (List Rat))
    (hic : isIntConstrained d = false)
    (hfresh : o.fresh.length = refillRequested xs.length
      (keepMask (keepMask (decodeAll d o.shuf o.nb o.ω (chooseNeighbours cands o.pick 0 xs)) o.mask1) o.mask2).length) :
    (finalizeGP d cands o xs).length = xs.length := by
  have hlen : (decodeAll d o.shuf o.nb o.ω (chooseNeighbours cands o.pick 0 xs)).length = xs.length := by
    unfold decodeAll
    simp only [hic, Bool.false_eq_true, if_false, decodeRows_length, chooseNeighbours_length]
  simp only [finalizeGP, List.length_append, hfresh, refillRequested]
  have a := keepMask_length_le (keepMask (decodeAll d o.shuf o.nb o.ω (chooseNeighbours cands o.pick 0 xs)) o.mask1) o.mask2
  have b := keepMask_length_le (decodeAll d o.shuf o.nb o.ω (chooseNeighbours cands o.pick 0 xs)) o.mask1
  omega

theorem finalizeSPE_count (d : Domain) (o : Oracle) (xs : List (List Rat)) (hic : isIntConstrained d = false) :
    (finalizeSPE d o xs).length = xs.length := by
  unfold finalizeSPE decodeAll
  simp only [hic, Bool.false_eq_true, if_false, decodeRows_length]

/-- The Parzen sampler returns exactly the requested number of rows, each an accepted proposal or a padding sample,
    whenever the uniform sampler returns what it is asked for and the sub-selection keeps `k` of the accepted rows. -/
theorem drawSamples_count {P} (k : Nat) (accepted : List P) (pad : Nat → List P) (pick : List P → List P)
    (hpad : ∀ m, (pad m).length = m) (hpick : (pick accepted).length = k ∧ ∀ x ∈ pick accepted, x ∈ accepted) :
    (drawSamples k accepted pad pick).length = k ∧
    ∀ x ∈ drawSamples k accepted pad pick, x ∈ accepted ∨ x ∈ pad (k - accepted.length) := by
  unfold drawSamples
  split_ifs with h1 h2
  · refine ⟨by rw [List.length_append, hpad]; omega, fun x hx => ?_⟩
    rcases List.mem_append.mp hx with h | h
    · exact Or.inl h
    · exact Or.inr h
  · exact ⟨hpick.1, fun x hx => Or.inl (hpick.2 x hx)⟩
  · exact ⟨by omega, fun x hx => Or.inl hx⟩

/-! ### Task costs -/

theorem taskColumn_mem (opts costs : List Rat) (hne : opts ≠ []) :
    (taskColumn opts costs).length = costs.length ∧ ∀ t ∈ taskColumn opts costs, t ∈ opts := by
  refine ⟨by simp [taskColumn], fun t ht => ?_⟩
  simp only [taskColumn, List.mem_map] at ht
  obtain ⟨c, _, rfl⟩ := ht
  exact (snapTask_nearest opts c hne).1

/-! ### Softmax over task costs: a probability vector preferring cheaper tasks -/

theorem sum_pos_of_pos (l : List ℝ) (hp : ∀ x ∈ l, 0 < x) (hne : l ≠ []) : 0 < Arith.sum l := by
  induction l with
  | nil => exact absurd rfl hne
  | cons x xs ih =>
    simp only [Arith.sum]
    have hx := hp x (List.mem_cons_self ..)
    by_cases h : xs = []
    · subst h; simp only [Arith.sum]; show 0 < x + 0; linarith
    · have := ih (fun y hy => hp y (List.mem_cons_of_mem _ hy)) h
      show 0 < x + Arith.sum xs; linarith

theorem sum_exp_pos (costs : List ℝ) (hne : costs ≠ []) : 0 < Arith.sum (costs.map fun c => Arith.exp (-c)) := by
  apply sum_pos_of_pos
  · intro x hx
    simp only [List.mem_map] at hx
    obtain ⟨c, _, rfl⟩ := hx
    exact Real.exp_pos _
  · simpa using hne

theorem softmax_pos (costs : List ℝ) (hne : costs ≠ []) : ∀ p ∈ softmaxWeights costs, 0 < p := by
  intro p hp
  simp only [softmaxWeights, List.mem_map] at hp
  obtain ⟨c, _, rfl⟩ := hp
  have hz := sum_exp_pos costs hne
  simp only [Arith.real_exp]
  exact div_pos (Real.exp_pos _) hz

theorem sum_map_div (l : List ℝ) (z : ℝ) : Arith.sum (l.map fun x => x / z) = Arith.sum l / z := by
  induction l with
  | nil => simp [Arith.sum]
  | cons x xs ih => simp only [List.map_cons, Arith.sum, ih]; ring

theorem softmax_sum_one (costs : List ℝ) (hne : costs ≠ []) : Arith.sum (softmaxWeights costs) = 1 := by
  have hz := sum_exp_pos costs hne
  have : softmaxWeights costs = (costs.map fun c => Arith.exp (-c)).map fun x => x / Arith.sum (costs.map fun c => Arith.exp (-c)) := by
    simp [softmaxWeights, List.map_map, Function.comp_def]
  rw [this, sum_map_div]
  exact div_self (ne_of_gt hz)

/-- cheaper ⇒ not less likely (strictly more likely when strictly cheaper) -/
theorem softmax_antitone (costs : List ℝ) (hne : costs ≠ []) (i j : Nat) (hi : i < costs.length) (hj : j < costs.length)
    (hle : costs[i] ≤ costs[j]) :
    (softmaxWeights costs)[j]'(by simpa [softmaxWeights] using hj) ≤ (softmaxWeights costs)[i]'(by simpa [softmaxWeights] using hi) := by
  have hz := sum_exp_pos costs hne
  simp only [softmaxWeights, List.getElem_map, Arith.real_exp]
  apply div_le_div_of_nonneg_right _ (le_of_lt hz)
  exact Real.exp_le_exp.mpr (by linarith)

/-! ### Non-vacuity -/

example : Domain.wf { comps := [.double 0 1, .int 0 3, .cat [2, 5]], cons := [] } = true := by decide +kernel
example : inRelaxed { comps := [.double 0 1, .int 0 3, .cat [2, 5]], cons := [] } [1/2, 3/2, 1/4, 3/4] = true := by
  decide +kernel

end C01
