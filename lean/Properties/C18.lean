/-
  C18 — Multi-solution best assignments are distinct, valid and best in their cluster.
  Property theorems only (helpers in Proofs/C18.lean).  Everything is about the exact model
  `Model/C18.lean` of `k_center_clustering` and `MultisolutionBestAssignments.view` and holds for
  every number of observations `n`, every `k`, every distance table `d` (no metric axioms assumed)
  and every value table `v`.

  Preconditions.  The code asserts `0 < k < n` and `0 ≤ first < n` (the view additionally `k > 1`).
  What the algorithm *needs* is weaker and is what the theorems assume: `0 < k`, `k ≤ n`, `first < n`
  (with `k = n` every observation becomes a centre).  `centres_not_distinct_beyond_n` shows the bound
  `k ≤ n` is sharp.
-/
import Model.C18
import Proofs.C18

namespace C18

variable (d : Nat → Nat → Int) (v : Nat → Int) (n first k : Nat)

/-! ### Meaning of `minDist` (used to state the farthest-first law) -/

/-- `minDist d cs p` is the least `d c p` over the centres `c ∈ cs`. -/
theorem minDist_is_min (cs : List Nat) (hne : cs ≠ []) (p : Nat) :
    (∀ c ∈ cs, minDist d cs p ≤ d c p) ∧ ∃ c ∈ cs, minDist d cs p = d c p :=
  ⟨minDist_le d cs p, minDist_attained d cs hne p⟩

/-! ### Centres -/

theorem centres_length (hk : 0 < k) : (centres d n first k).length = k := by
  unfold centres
  rw [centresAux_length]; omega

/-- the first centre is the given index. -/
theorem centres_first : (centres d n first k).getD 0 0 = first := by
  unfold centres
  have h := centresAux_take d n first (k - 1) 0 (by omega)
  have h2 : ((centresAux d n first (k - 1)).take (0 + 1)).getD 0 0 = first := by
    rw [h]; simp [centresAux]
  rw [List.getD_eq_getElem?_getD] at h2 ⊢
  rw [List.getElem?_take] at h2
  simpa using h2

/-- every centre is a valid observation index. -/
theorem centres_valid (hf : first < n) (hk : 0 < k) (hkn : k ≤ n) :
    ∀ c ∈ centres d n first k, c < n :=
  (centresAux_inv d n first hf (k - 1) (by omega)).2

/-- the `k` centres are pairwise distinct (for every `k ≤ n`; the code asserts `k < n`). -/
theorem centres_distinct (hf : first < n) (hk : 0 < k) (hkn : k ≤ n) :
    (centres d n first k).Nodup :=
  (centresAux_inv d n first hf (k - 1) (by omega)).1

/-- the hypotheses are satisfiable (also with the code's stricter `k < n`). -/
example : ∃ n first k : Nat, first < n ∧ 0 < k ∧ k < n ∧ k ≤ n := ⟨5, 2, 4, by decide⟩
example : (centres (fun a b => ((a : Int) - b) * (a - b)) 5 2 4).Nodup := by decide
example : centres (fun a b => ((a : Int) - b) * (a - b)) 5 2 4 = [2, 0, 4, 1] := by decide

/-- sharpness: with more centres than observations a centre repeats. -/
theorem centres_not_distinct_beyond_n : ¬ (centres (fun _ _ => 0) 1 0 2).Nodup := by decide

/-- Farthest-first: centre number `j + 1` is a valid index outside the earlier centres; no other
    outside observation is strictly farther from the earlier centres (`minDist` = distance to the
    nearest earlier centre); and it is the first such index (numpy.argmax). -/
theorem centre_is_farthest (hf : first < n) (hkn : k ≤ n) (j : Nat) (hj : j + 1 < k) :
    let prev := (centres d n first k).take (j + 1)
    let c := (centres d n first k).getD (j + 1) 0
    c < n ∧ c ∉ prev ∧
    (∀ p, p < n → p ∉ prev → minDist d prev p ≤ minDist d prev c) ∧
    (∀ p, p < c → p ∉ prev → minDist d prev p < minDist d prev c) := by
  intro prev c
  have hprev : prev = centresAux d n first j := centres_take d n first k j (by omega)
  have hc : c = argmaxExt (colMin d (centresAux d n first j)) n := centres_getD_succ d n first k j hj
  have hne := centresAux_ne_nil d n first j
  have hinv := centresAux_inv d n first hf (j + 1) (by omega)
  have hcn : c < n := by rw [hc]; exact argmaxExt_lt _ (by omega)
  have hcnot : c ∉ prev := by
    rw [hprev, hc]
    have hnd := hinv.1
    simp only [centresAux] at hnd
    rw [List.nodup_append] at hnd
    intro hmem
    exact hnd.2.2 _ hmem _ (by simp) rfl
  refine ⟨hcn, hcnot, ?_, ?_⟩
  · intro p hp hpn
    have h := argmaxExt_max (colMin d (centresAux d n first j)) p hp
    rw [← hc, ← hprev, colMin_not_mem d prev (hprev ▸ hne) c hcnot,
      colMin_not_mem d prev (hprev ▸ hne) p hpn] at h
    simp [Ext.lt] at h
    exact h
  · intro p hp hpn
    have h := argmaxExt_first (colMin d (centresAux d n first j)) (n := n) p (hc ▸ hp)
    rw [← hc, ← hprev, colMin_not_mem d prev (hprev ▸ hne) c hcnot,
      colMin_not_mem d prev (hprev ▸ hne) p hpn] at h
    simpa [Ext.lt] using h

example : (centres (fun a b => ((a : Int) - b) * (a - b)) 5 2 4).getD 1 0 = 0 := by decide

/-! ### Partition -/

theorem partition_lt (hk : 0 < k) (p : Nat) : partition d n first k p < k :=
  argminExt_lt _ hk

/-- every centre is assigned to itself (cluster `j` contains centre `j`). -/
theorem partition_centre (hf : first < n) (hk : 0 < k) (hkn : k ≤ n) (j : Nat) (hj : j < k) :
    partition d n first k ((centres d n first k).getD j 0) = j :=
  partitionOf_centre d _ (centres_distinct d n first k hf hk hkn) k (centres_length d n first k hk) j hj

/-- every observation that is not a centre is assigned to a nearest centre, the first one on ties
    (numpy.argmin). -/
theorem partition_nearest (p : Nat) (hp : p ∉ centres d n first k) :
    (∀ j, j < k → d ((centres d n first k).getD (partition d n first k p) 0) p
                  ≤ d ((centres d n first k).getD j 0) p) ∧
    (∀ j, j < partition d n first k p →
        d ((centres d n first k).getD (partition d n first k p) 0) p
          < d ((centres d n first k).getD j 0) p) := by
  set cs := centres d n first k with hcs
  have hrow : ∀ j, j < k → row d (cs.getD j 0) p = some (d (cs.getD j 0) p) := by
    intro j hj
    apply row_ne
    intro h
    apply hp
    have hlen : cs.length = k := by rw [hcs]; exact centres_length d n first k (by omega)
    rw [h, getD0 cs (by omega)]
    exact List.getElem_mem _
  by_cases hk : 0 < k
  · have hb := partition_lt d n first k hk p
    constructor
    · intro j hj
      have h := argminExt_min (fun j => row d (cs.getD j 0) p) (n := k) j hj
      have e : argminExt (fun j => row d (cs.getD j 0) p) k = partition d n first k p := rfl
      rw [e] at h
      simp only [hrow j hj, hrow _ hb] at h
      simp [Ext.lt] at h
      exact h
    · intro j hj
      have h := argminExt_first (fun j => row d (cs.getD j 0) p) (n := k) j hj
      have e : argminExt (fun j => row d (cs.getD j 0) p) k = partition d n first k p := rfl
      rw [e] at h
      simp only [hrow j (by omega), hrow _ hb] at h
      simpa [Ext.lt] using h
  · have : k = 0 := by omega
    subst this
    exact ⟨fun j hj => by omega, fun j hj => by
      have : partition d n first 0 p = 0 := by simp [partition, partitionOf, argminExt, argBest]
      omega⟩

/-- no cluster is empty. -/
theorem clusters_nonempty (hf : first < n) (hk : 0 < k) (hkn : k ≤ n) (j : Nat) (hj : j < k) :
    ∃ p, p < n ∧ partition d n first k p = j := by
  refine ⟨(centres d n first k).getD j 0, ?_, partition_centre d n first k hf hk hkn j hj⟩
  apply centres_valid d n first k hf hk hkn
  have hlen := centres_length d n first k hk
  rw [getD0 _ (by omega)]
  exact List.getElem_mem _

example : (List.range 5).map (partition (fun a b => ((a : Int) - b) * (a - b)) 5 2 2) = [1, 0, 0, 0, 0] := by
  decide

/-! ### Per-cluster best (any partition function) -/

/-- After the loop of the view, the entry of a non-empty cluster `c` is the first arg-min of the
    value within the cluster. -/
theorem best_is_cluster_min (part : Nat → Nat) (c : Nat) (hc : ∃ p, p < n ∧ part p = c) :
    ∃ b, look (bestTable part v n) c = some b ∧ b < n ∧ part b = c ∧
      (∀ i, i < n → part i = c → v b ≤ v i) ∧ (∀ i, i < b → part i = c → v b < v i) := by
  rcases bestInv_table part v n c with ⟨_, hall⟩ | h
  · obtain ⟨p, hp, hpc⟩ := hc
    exact absurd hpc (hall p hp)
  · exact h

/-- an empty cluster keeps `None` (so the view's `len(best_indices) == len(best_index_partition)`
    assertion is exactly "no cluster is empty"). -/
theorem best_none_of_empty (part : Nat → Nat) (c : Nat) (hc : ∀ p, p < n → part p ≠ c) :
    look (bestTable part v n) c = none := by
  rcases bestInv_table part v n c with ⟨h, _⟩ | ⟨b, _, hb, hpb, _⟩
  · exact h
  · exact absurd hpb (hc b hb)

/-! ### The returned indices -/

/-- entry `j` of `best_indices` is the first arg-min of the value within cluster `j`. -/
theorem best_indices_cluster (hf : first < n) (hk : 0 < k) (hkn : k ≤ n) (j : Nat) (hj : j < k) :
    let b := (bestIndices (partition d n first k) v n k).getD j 0
    b < n ∧ partition d n first k b = j ∧
    (∀ i, i < n → partition d n first k i = j → v b ≤ v i) ∧
    (∀ i, i < b → partition d n first k i = j → v b < v i) := by
  intro b
  obtain ⟨b', hb', h1, h2, h3, h4⟩ := best_is_cluster_min v n (partition d n first k) j
    (clusters_nonempty d n first k hf hk hkn j hj)
  have : b = b' := by
    show (bestIndices (partition d n first k) v n k).getD j 0 = b'
    rw [bestIndices_eq_map v n k (partition d n first k) (clusters_nonempty d n first k hf hk hkn), List.getD_eq_getElem?_getD]
    simp [hj, hb']
  rw [this]
  exact ⟨h1, h2, h3, h4⟩

/-- `best_indices` has exactly `k` entries, pairwise distinct, all valid observation indices. -/
theorem best_indices_distinct_valid (hf : first < n) (hk : 0 < k) (hkn : k ≤ n) :
    (bestIndices (partition d n first k) v n k).length = k ∧
    (bestIndices (partition d n first k) v n k).Nodup ∧
    ∀ i ∈ bestIndices (partition d n first k) v n k, i < n := by
  rw [bestIndices_eq_map v n k (partition d n first k) (clusters_nonempty d n first k hf hk hkn)]
  have key : ∀ j, j < k → ∃ b, look (bestTable (partition d n first k) v n) j = some b ∧ b < n ∧
      partition d n first k b = j := by
    intro j hj
    obtain ⟨b, hb, h1, h2, _⟩ := best_is_cluster_min v n (partition d n first k) j
      (clusters_nonempty d n first k hf hk hkn j hj)
    exact ⟨b, hb, h1, h2⟩
  refine ⟨by simp, ?_, ?_⟩
  · apply List.Nodup.map_on _ List.nodup_range
    intro x hx y hy hxy
    obtain ⟨bx, hbx, _, hpx⟩ := key x (List.mem_range.mp hx)
    obtain ⟨b_y, hby, _, hpy⟩ := key y (List.mem_range.mp hy)
    simp only [hbx, hby, Option.getD_some] at hxy
    rw [← hpx, ← hpy, hxy]
  · intro i hi
    obtain ⟨j, hj, rfl⟩ := List.mem_map.mp hi
    obtain ⟨b, hb, hbn, _⟩ := key j (List.mem_range.mp hj)
    simp [hb, hbn]

/-- If the first centre is the first arg-min of the values (that is how the view chooses it), it is
    returned, as the entry of cluster 0. -/
theorem global_best_included (hf : first < n) (hk : 0 < k) (hkn : k ≤ n)
    (hmin : ∀ p, p < n → v first ≤ v p) (hfst : ∀ p, p < first → v first < v p) :
    (bestIndices (partition d n first k) v n k).getD 0 0 = first ∧
    first ∈ bestIndices (partition d n first k) v n k := by
  have h0 := partition_centre d n first k hf hk hkn 0 hk
  rw [centres_first] at h0
  obtain ⟨hbn, hpb, hle, hlt⟩ := best_indices_cluster d v n first k hf hk hkn 0 hk
  set b := (bestIndices (partition d n first k) v n k).getD 0 0 with hb
  have hlen := (best_indices_distinct_valid d v n first k hf hk hkn).1
  have hbf : b = first := by
    rcases Nat.lt_trichotomy b first with h | h | h
    · have := hfst b h
      have := hle first hf h0
      omega
    · exact h
    · have := hlt first h h0
      have := hmin b hbn
      omega
  have hmem : b ∈ bestIndices (partition d n first k) v n k := by
    rw [hb, getD0 _ (by omega)]
    exact List.getElem_mem _
  exact ⟨hbf, hbf ▸ hmem⟩

/-- the hypotheses of `global_best_included` are satisfiable, ties for the best value included
    (values 3 1 4 1 5: the first arg-min is index 1, index 3 ties with it). -/
example : let v : Nat → Int := fun i => [3, 1, 4, 1, 5].getD i 0
    (1 < 5 ∧ 0 < 2 ∧ 2 ≤ 5) ∧ (∀ p, p < 5 → v 1 ≤ v p) ∧ (∀ p, p < 1 → v 1 < v p) := by
  decide

/-! ### The endpoint -/

/-- `MultisolutionBestAssignments.view` for every history of `n` observations and every `0 < k ≤ n`
    (the endpoint itself requires `1 < k < n`): exactly `k` pairwise distinct valid indices, among
    them the overall best observation (first arg-min of the scaled values). -/
theorem view_spec (hk : 0 < k) (hkn : k ≤ n) :
    (view d v n k).length = k ∧ (view d v n k).Nodup ∧ (∀ i ∈ view d v n k, i < n) ∧
    argminInt v n ∈ view d v n k ∧ ∀ p, p < n → v (argminInt v n) ≤ v p := by
  have hn : 0 < n := by omega
  have hf : argminInt v n < n := argminInt_lt v hn
  obtain ⟨h1, h2, h3⟩ := best_indices_distinct_valid d v n (argminInt v n) k hf hk hkn
  have h4 := (global_best_included d v n (argminInt v n) k hf hk hkn
    (fun p hp => argminInt_min v p hp) (fun p hp => argminInt_first v p hp)).2
  exact ⟨h1, h2, h3, h4, fun p hp => argminInt_min v p hp⟩

/-- each index returned by the endpoint is the best-valued observation of its own cluster. -/
theorem view_best_in_cluster (hk : 0 < k) (hkn : k ≤ n) (j : Nat) (hj : j < k) :
    let part := partition d n (argminInt v n) k
    let b := (view d v n k).getD j 0
    part b = j ∧ ∀ i, i < n → part i = j → v b ≤ v i := by
  intro part b
  have hf : argminInt v n < n := argminInt_lt v (by omega)
  obtain ⟨_, h2, h3, _⟩ := best_indices_cluster d v n (argminInt v n) k hf hk hkn j hj
  exact ⟨h2, h3⟩

/-- the assertions at the end of the view never fire. -/
theorem view_assertions_hold (hk : 0 < k) (hkn : k ≤ n) : viewAssertions d v n k = true := by
  obtain ⟨h1, h2, h3, _⟩ := view_spec d v n k hk hkn
  simp only [viewAssertions, assertionsOn, Bool.and_eq_true, decide_eq_true_eq, List.all_eq_true]
  exact ⟨⟨h1, h2⟩, h3⟩

example : view (fun a b => ((a : Int) - b) * (a - b)) (fun i => [3, 1, 4, 1, 5].getD i 0) 5 2 = [1, 3] := by
  decide

/-! ### The tie-liberal specification: today's code is one of its runs, and it already implies the
    property's conclusions (so a different tie-break would still satisfy C18) -/

/-- the centres computed by the model form a legal farthest-first sequence. -/
theorem centres_legal (hf : first < n) (hk : 0 < k) (hkn : k ≤ n) :
    legalCentres d n first k (centres d n first k) = true := by
  have hlen := centres_length d n first k hk
  simp only [legalCentres, Bool.and_eq_true, decide_eq_true_eq, List.all_eq_true, List.mem_range,
    Bool.or_eq_true, Bool.not_eq_true', List.contains_eq_mem]
  refine ⟨⟨hlen, ?_⟩, ?_⟩
  · rw [getD_default _ (by omega) n 0]; exact centres_first d n first k
  · intro j hj
    obtain ⟨h1, h2, h3, _⟩ := centre_is_farthest d n first k hf hkn j (by omega)
    refine ⟨⟨h1, by simpa using h2⟩, ?_⟩
    intro p hp
    by_cases hm : p ∈ (centres d n first k).take (j + 1)
    · left; simpa using hm
    · right; exact h3 p hp hm

/-- the partition computed by the model is a legal nearest-centre assignment. -/
theorem partition_legal (hf : first < n) (hk : 0 < k) (hkn : k ≤ n) :
    legalPartition d n k (centres d n first k) (partition d n first k) = true := by
  have hlen := centres_length d n first k hk
  simp only [legalPartition, Bool.and_eq_true, decide_eq_true_eq, List.all_eq_true, List.mem_range,
    List.contains_eq_mem]
  intro p _
  refine ⟨partition_lt d n first k hk p, ?_⟩
  by_cases hm : p ∈ centres d n first k
  · obtain ⟨j, hj, hjp⟩ := List.getElem_of_mem hm
    have hjk : j < k := by omega
    have hpj : partition d n first k p = j := by
      have := partition_centre d n first k hf hk hkn j hjk
      rwa [getD0 _ hj, hjp] at this
    simp only [hm, if_true, beq_iff_eq]
    rw [hpj, getD_default _ hj n 0, getD0 _ hj, hjp]
  · simp only [hm, if_false, List.all_eq_true, List.mem_range, decide_eq_true_eq]
    exact (partition_nearest d n first k p hm).1

/-- the indices returned by the model are legal per-cluster bests. -/
theorem best_legal (hf : first < n) (hk : 0 < k) (hkn : k ≤ n) :
    legalBest (partition d n first k) v n k (bestIndices (partition d n first k) v n k) = true := by
  have hlen := (best_indices_distinct_valid d v n first k hf hk hkn).1
  simp only [legalBest, Bool.and_eq_true, decide_eq_true_eq, List.all_eq_true, List.mem_range,
    Bool.or_eq_true, bne_iff_ne, ne_eq, beq_iff_eq]
  refine ⟨hlen, ?_⟩
  intro j hj
  obtain ⟨h1, h2, h3, _⟩ := best_indices_cluster d v n first k hf hk hkn j hj
  rw [getD_default _ (by omega) n 0]
  refine ⟨⟨h1, h2⟩, ?_⟩
  intro p hp
  by_cases hpj : partition d n first k p = j
  · right; exact h3 p hp hpj
  · left; exact hpj

/-- Whatever the tie-breaking: indices that are legal per-cluster bests of *any* partition into `k`
    clusters are `k` pairwise distinct valid observation indices. -/
theorem legal_best_distinct_valid (part : Nat → Nat) (bi : List Nat)
    (h : legalBest part v n k bi = true) :
    bi.length = k ∧ bi.Nodup ∧ ∀ i ∈ bi, i < n := by
  simp only [legalBest, Bool.and_eq_true, decide_eq_true_eq, List.all_eq_true, List.mem_range,
    Bool.or_eq_true, bne_iff_ne, ne_eq, beq_iff_eq] at h
  obtain ⟨hlen, hall⟩ := h
  have hget : ∀ j (hj : j < bi.length), bi[j] < n ∧ part bi[j] = j := by
    intro j hj
    have := (hall j (by omega)).1
    rwa [getD_default _ hj n 0, getD0 _ hj] at this
  refine ⟨hlen, ?_, ?_⟩
  · rw [List.nodup_iff_injective_getElem]
    intro a b hab
    have ha := (hget a.1 a.2).2
    have hb := (hget b.1 b.2).2
    apply Fin.ext
    rw [← ha, ← hb]
    exact congrArg part hab
  · intro i hi
    obtain ⟨j, hj, rfl⟩ := List.getElem_of_mem hi
    exact (hget j hj).1

/-- Whatever the tie-breaking: if the first centre `first` has minimal value and lies in one of the
    `k` clusters, a legal list of per-cluster bests contains an overall best observation. -/
theorem legal_global_best (part : Nat → Nat) (bi : List Nat) (hf : first < n)
    (hpart : part first < k) (h : legalBest part v n k bi = true)
    (hmin : ∀ p, p < n → v first ≤ v p) :
    ∃ b ∈ bi, b < n ∧ ∀ p, p < n → v b ≤ v p := by
  simp only [legalBest, Bool.and_eq_true, decide_eq_true_eq, List.all_eq_true, List.mem_range,
    Bool.or_eq_true, bne_iff_ne, ne_eq, beq_iff_eq] at h
  obtain ⟨hlen, hall⟩ := h
  obtain ⟨⟨hbn, _⟩, hbest⟩ := hall (part first) hpart
  have hj : part first < bi.length := by omega
  refine ⟨bi.getD (part first) n, ?_, hbn, ?_⟩
  · rw [getD_default _ hj n 0, getD0 _ hj]; exact List.getElem_mem _
  · intro p hp
    have h1 : v (bi.getD (part first) n) ≤ v first := by
      rcases hbest first hf with h | h
      · exact absurd rfl h
      · exact h
    have := hmin p hp
    omega

example : legalCentres (fun a b => ((a : Int) - b) * (a - b)) 5 2 3 [2, 4, 0] = true := by decide
example : legalCentres (fun a b => ((a : Int) - b) * (a - b)) 5 2 3 [2, 0, 4] = true := by decide
example : legalCentres (fun a b => ((a : Int) - b) * (a - b)) 5 2 3 [2, 1, 4] = false := by decide

end C18
