/-
  C13 — Pareto frontier and epsilon-constraint thresholds are exact.
  Property theorems only (helpers live in Proofs/C13*.lean).  All statements are about the
  executable model `Model/C13.lean` and hold for every number of observations and metrics, every
  pattern of ties and duplicates, every failure mask and every threshold pattern.
-/
import Model.C13
import Proofs.C13Pareto
import Proofs.C13Epsilon
import Proofs.C13Force
import Mathlib.Data.List.FinRange
import Mathlib.Tactic.NormNum

namespace C13

/-! ### Side lemma on the generated constant ("five"); a changed constant breaks exactly this -/

theorem gen_minSuccessful : minSuccessful = 5 := by decide

/-! ## Frontier -/

section Frontier
variable {α : Type} [LinearOrder α]

/-- Pareto dominance under maximisation for rows given as functions: `a` is nowhere smaller than
    `b` and somewhere strictly larger. -/
def Dominates {m : Nat} (a b : Fin m → α) : Prop := (∀ k, b k ≤ a k) ∧ ∃ k, b k < a k

instance {m : Nat} (a b : Fin m → α) : Decidable (Dominates a b) := by
  unfold Dominates; infer_instance

/-- The executable `dominates` is the textbook definition. -/
theorem dominates_iff {m : Nat} (a b : Fin m → α) :
    dominates (List.ofFn a) (List.ofFn b) = true ↔ Dominates a b := by
  simp only [dominates, Bool.and_eq_true, geAll_ofFn, gtAny_ofFn, Dominates]

/-- The library's keep rule `all(v >= c) or any(v > c)` is exactly "`c` does not dominate `v`"
    (rows of any lengths, ties included). -/
theorem keep_rule_is_not_dominated (c v : List α) : keepAgainst c v = !dominates c v :=
  keepAgainst_eq_not_dominates c v

/-- Dominance is a strict partial order on rows of one length (what the loop relies on). -/
theorem dominance_strict_order (a b c : List α) (h1 : a.length = b.length) (h2 : b.length = c.length) :
    dominates a a = false ∧
    (dominates a b = true → dominates b a = false) ∧
    (dominates a b = true → dominates b c = true → dominates a c = true) :=
  ⟨dominates_irrefl a, dominates_asymm a b, dominates_trans a b c h1 h2⟩

/-- **Key theorem.** The incremental mask-updating loop, modelled as written (boolean-mask indexing
    and assignment, rows already eliminated are skipped), ends with `good_ind[i]` true iff no row
    dominates row `i` — for every number of observations and metrics.  The only hypothesis is
    that the value matrix is rectangular (the routine asserts a 2-D array). -/
theorem paretoLoop_eq_nonDominated (m : Nat) (rows : List (List α)) (hrect : ∀ r ∈ rows, r.length = m) :
    paretoMask rows = rows.map (nonDominated rows) :=
  paretoMask_eq m rows hrect

/-- The two returned lists: the observations whose row is non-dominated, and the others, each in
    the original order. -/
theorem frontier_eq {β : Type} (m : Nat) (rows : List (List α)) (hrect : ∀ r ∈ rows, r.length = m)
    (obs : List β) :
    (frontier rows obs).1 = ((rows.zip obs).filter fun q => nonDominated rows q.1).map Prod.snd ∧
    (frontier rows obs).2 = ((rows.zip obs).filter fun q => !nonDominated rows q.1).map Prod.snd := by
  unfold frontier
  simp only [paretoMask_eq m rows hrect, List.map_map]
  exact ⟨select_map_eq_filter _ _ _, select_map_eq_filter (fun v => !nonDominated rows v) _ _⟩

/-- the loop never changes the length of the mask -/
theorem paretoMask_length (m : Nat) (rows : List (List α)) (hrect : ∀ r ∈ rows, r.length = m) :
    (paretoMask rows).length = rows.length := by
  simp [paretoMask_eq m rows hrect]

/-- Partition and order preservation: both outputs are subsequences of the observations, and
    together they are the observations (as a multiset), whatever the values. -/
theorem pareto_partition {β : Type} (m : Nat) (rows : List (List α)) (hrect : ∀ r ∈ rows, r.length = m)
    (obs : List β) (hlen : obs.length = rows.length) :
    ((frontier rows obs).1 ++ (frontier rows obs).2).Perm obs ∧
    ((frontier rows obs).1).Sublist obs ∧ ((frontier rows obs).2).Sublist obs ∧
    (frontier rows obs).1.length + (frontier rows obs).2.length = obs.length := by
  have hp := select_perm (paretoMask rows) obs (by rw [paretoMask_length m rows hrect, hlen])
  refine ⟨hp, select_sublist _ _, select_sublist _ _, ?_⟩
  simpa [frontier] using hp.length_eq

/-- The value matrix `V` (n observations, m metrics) as the list of rows the routine receives. -/
def rowsOf {n m : Nat} (V : Fin n → Fin m → α) : List (List α) := List.ofFn fun i => List.ofFn (V i)

theorem nonDominated_rowsOf {n m : Nat} (V : Fin n → Fin m → α) (i : Fin n) :
    nonDominated (rowsOf V) (List.ofFn (V i)) = true ↔ ∀ j, ¬ Dominates (V j) (V i) := by
  simp only [nonDominated, rowsOf, List.all_eq_true, List.mem_ofFn, Bool.not_eq_true',
    forall_exists_index, forall_apply_eq_imp_iff, ← dominates_iff, Bool.not_eq_true]

/-- **The frontier routine returns exactly the non-dominated / dominated partition.**  For every
    value matrix `V : n × m` over a linear order and observation labels `o`: the first list is
    `o i` for precisely those `i` (ascending) that no `j` dominates, the second list the rest. -/
theorem frontier_matrix {β : Type} {n m : Nat} (V : Fin n → Fin m → α) (o : Fin n → β) :
    frontier (rowsOf V) (List.ofFn o) =
      (((List.finRange n).filter fun i => decide (∀ j, ¬ Dominates (V j) (V i))).map o,
       ((List.finRange n).filter fun i => decide (∃ j, Dominates (V j) (V i))).map o) := by
  have hrect : ∀ r ∈ rowsOf V, r.length = m := by
    intro r hr
    obtain ⟨i, rfl⟩ := (List.mem_ofFn' _ _).mp hr
    simp
  have hzip : (rowsOf V).zip (List.ofFn o) = (List.finRange n).map fun i => (List.ofFn (V i), o i) := by
    simp only [rowsOf, List.ofFn_eq_map, List.zip_map']
  obtain ⟨h1, h2⟩ := frontier_eq m (rowsOf V) hrect (List.ofFn o)
  refine Prod.ext ?_ ?_
  · rw [h1, hzip, List.filter_map, List.map_map]
    congr 1
    apply List.filter_congr
    intro i _
    simp only [Function.comp]
    exact Bool.eq_iff_iff.mpr (by simpa using nonDominated_rowsOf V i)
  · rw [h2, hzip, List.filter_map, List.map_map]
    congr 1
    apply List.filter_congr
    intro i _
    simp only [Function.comp]
    apply Bool.eq_iff_iff.mpr
    have := nonDominated_rowsOf V i
    simp only [Bool.not_eq_true', decide_eq_true_eq]
    rw [← Bool.not_eq_true, this]
    push Not
    rfl

/-- Ties are kept: observations with identical value rows are on the same side of the partition,
    so every copy of a non-dominated row is returned. -/
theorem ties_kept {n m : Nat} (V : Fin n → Fin m → α) (i j : Fin n) (h : V i = V j) :
    (i ∈ (frontier (rowsOf V) (List.finRange n)).1 ↔ j ∈ (frontier (rowsOf V) (List.finRange n)).1) := by
  have := frontier_matrix V id
  rw [List.ofFn_id] at this
  rw [this]
  simp [h]

/-- non-vacuity: a rectangular matrix with a tie, a dominated row and two incomparable rows -/
example : frontier (α := Int) [[1, 2], [2, 1], [1, 1], [2, 1]] [10, 11, 12, 13] = ([10, 11, 13], [12]) := by decide

example : ∀ r ∈ ([[1, 2], [2, 1], [1, 1], [2, 1]] : List (List Int)), r.length = 2 := by decide

end Frontier

/-! ## Sorted frontier for minimisation -/

/-- `_find_sorted_pareto_frontier_values_minimization` returns exactly the rows no row dominates
    under minimisation (all copies), sorted by the first metric. -/
theorem sortedFrontier_eq (m : Nat) (rows : List (List Rat)) (hrect : ∀ r ∈ rows, r.length = m) :
    sortedFrontierMin rows =
      (rows.filter fun r => rows.all fun c => !dominatesMin c r).mergeSort
        (fun a b => decide (at' a 0 ≤ at' b 0)) :=
  sortedFrontierMin_eq m rows hrect

theorem sortedFrontier_sorted (rows : List (List Rat)) :
    (sortedFrontierMin rows).Pairwise fun a b => at' a 0 ≤ at' b 0 := by
  unfold sortedFrontierMin
  simp only
  have := List.pairwise_mergeSort (le := fun a b : List Rat => decide (at' a 0 ≤ at' b 0))
    (fun a b c hab hbc => by simp only [decide_eq_true_eq] at *; exact le_trans hab hbc)
    (fun a b => by simp only [Bool.or_eq_true, decide_eq_true_eq]; exact le_total _ _)
    ((frontier (rows.map negRow) (List.range rows.length)).1.map fun i => rows.getD i [])
  exact this.imp (by simp)

/-- With two metrics, frontier rows that tie in the sort key are identical: how `argsort` breaks
    ties cannot be observed in the sorted frontier. -/
theorem sortedFrontier_ties_equal (rows : List (List Rat)) (hrect : ∀ r ∈ rows, r.length = 2)
    (r s : List Rat) (hr : r ∈ sortedFrontierMin rows) (hs : s ∈ sortedFrontierMin rows)
    (hkey : at' r 0 = at' s 0) : r = s := by
  rw [mem_sortedFrontierMin 2 rows hrect] at hr hs
  obtain ⟨hr, hrn⟩ := hr
  obtain ⟨hs, hsn⟩ := hs
  have h1 := hsn r hr
  have h2 := hrn s hs
  have lr := hrect r hr
  have ls := hrect s hs
  match r, s, lr, ls with
  | [r0, r1], [s0, s1], _, _ =>
    simp only [at', List.getD_cons_zero] at hkey
    subst hkey
    simp only [dominatesMin, geAll, gtAny, le_refl, lt_self_iff_false, decide_true, decide_false,
      Bool.true_and, Bool.and_true, Bool.false_or, Bool.or_false, Bool.and_eq_false_imp,
      decide_eq_true_eq, decide_eq_false_iff_not] at h1 h2
    have : r1 = s1 := by
      rcases lt_trichotomy r1 s1 with h | h | h
      · exact absurd h (h1 (le_of_lt h))
      · exact h
      · exact absurd h (h2 (le_of_lt h))
    rw [this]

/-! ## Epsilon-constraint value -/

/-- `argmin` (numpy semantics) returns a valid index of a minimum, and the first such index. -/
theorem argmin_is_first_minimiser (xs : List Rat) (h : xs ≠ []) :
    argmin xs < xs.length ∧ (∀ v ∈ xs, xs.getD (argmin xs) 0 ≤ v) ∧
    ∀ i < argmin xs, xs.getD (argmin xs) 0 < xs.getD i 0 :=
  ⟨argmin_lt xs h, argmin_le xs, argmin_first xs⟩

/-- **Without thresholds**: the value is the convex combination, with fraction `eps`, of the
    constrained metric's values `x`, `y` at the two single-metric optima `a0` (of metric 0) and `a1`
    (of metric 1): `(1-eps)·min(x,y) + eps·max(x,y)`.  Needs at least one (successful) row – with
    none the single-metric optima do not exist and the library raises from `nanargmin`. -/
theorem epsNoBounds_formula (eps : Rat) (cm : Nat) (rows : List (List Rat)) (h : rows ≠ []) :
    ∃ a0 a1, a0 < rows.length ∧ a1 < rows.length ∧
      (∀ r ∈ rows, at' (rows.getD a0 []) 0 ≤ at' r 0) ∧
      (∀ r ∈ rows, at' (rows.getD a1 []) 1 ≤ at' r 1) ∧
      epsNoBounds eps cm rows =
        (1 - eps) * min (at' (rows.getD a0 []) cm) (at' (rows.getD a1 []) cm)
          + eps * max (at' (rows.getD a0 []) cm) (at' (rows.getD a1 []) cm) := by
  have hc : ∀ k, col k rows ≠ [] := fun k => by simpa [col] using h
  have hl : ∀ k, (col k rows).length = rows.length := fun k => by simp [col]
  refine ⟨argmin (col 0 rows), argmin (col 1 rows), ?_, ?_, ?_, ?_, rfl⟩
  · simpa [hl] using argmin_lt _ (hc 0)
  · simpa [hl] using argmin_lt _ (hc 1)
  · intro r hr
    rw [← col_getD]
    exact argmin_le _ _ (List.mem_map.mpr ⟨r, hr, rfl⟩)
  · intro r hr
    rw [← col_getD]
    exact argmin_le _ _ (List.mem_map.mpr ⟨r, hr, rfl⟩)

/-- Resolved form: the `min` is the column minimum of the constrained metric (attained at its own
    optimum), the `max` is its value at the other metric's optimum. -/
theorem epsNoBounds_resolved (eps : Rat) (rows : List (List Rat)) (h : rows ≠ []) :
    epsNoBounds eps 0 rows =
      (1 - eps) * at' (rows.getD (argmin (col 0 rows)) []) 0 + eps * at' (rows.getD (argmin (col 1 rows)) []) 0 ∧
    epsNoBounds eps 1 rows =
      (1 - eps) * at' (rows.getD (argmin (col 1 rows)) []) 1 + eps * at' (rows.getD (argmin (col 0 rows)) []) 1 := by
  have hc : ∀ k, col k rows ≠ [] := fun k => by simpa [col] using h
  have hl : ∀ k, (col k rows).length = rows.length := fun k => by simp [col]
  have hmem : ∀ k, rows.getD (argmin (col k rows)) [] ∈ rows := fun k =>
    getD_mem _ _ _ (by simpa [hl] using argmin_lt _ (hc k))
  have h0 : at' (rows.getD (argmin (col 0 rows)) []) 0 ≤ at' (rows.getD (argmin (col 1 rows)) []) 0 := by
    rw [← col_getD]; exact argmin_le _ _ (List.mem_map.mpr ⟨_, hmem 1, rfl⟩)
  have h1 : at' (rows.getD (argmin (col 1 rows)) []) 1 ≤ at' (rows.getD (argmin (col 0 rows)) []) 1 := by
    rw [← col_getD]; exact argmin_le _ _ (List.mem_map.mpr ⟨_, hmem 0, rfl⟩)
  constructor
  · simp only [epsNoBounds, min_eq_left h0, max_eq_right h0]
  · simp only [epsNoBounds, min_eq_right h1, max_eq_left h1]

/-- Refinement: the value computed with numpy's first-index `argmin` is one of the values the
    formula allows when any of several tied optima may be taken (what the harness accepts). -/
theorem epsNoBounds_mem_legal (eps : Rat) (cm : Nat) (rows : List (List Rat)) (h : rows ≠ []) :
    epsNoBounds eps cm rows ∈ epsNoBoundsLegal eps cm rows := by
  have hc : ∀ k, col k rows ≠ [] := fun k => by simpa [col] using h
  have hin : ∀ k, argmin (col k rows) ∈ argmins (col k rows) := by
    intro k
    simp only [argmins, List.mem_filter, List.mem_range, List.all_eq_true, decide_eq_true_eq]
    exact ⟨argmin_lt _ (hc k), argmin_le _⟩
  simp only [epsNoBoundsLegal, List.mem_flatMap, List.mem_map]
  exact ⟨_, hin 0, _, hin 1, rfl⟩

/-- With no user thresholds the public entry point is the no-bounds formula. -/
theorem epsValue_no_thresholds (eps : Rat) (cm : Nat) (rows : List (List Rat)) :
    epsValue eps cm rows .none .none = epsNoBounds eps cm rows := by
  simp [epsValue, epsBranch, Thr.isNone]

/-- **With thresholds** (any pattern: none / one / both / NaN, inside or outside the data, every
    fall-back branch): the value stays within the range of the constrained metric over the
    observations.  `lo`/`hi` are any bounds of that column, in particular its min and max. -/
theorem epsValue_in_range (eps : Rat) (cm : Nat) (rows : List (List Rat)) (t0 t1 : Thr) (lo hi : Rat)
    (hne : rows ≠ []) (hrect : ∀ r ∈ rows, r.length = 2) (h0 : 0 ≤ eps) (h1 : eps ≤ 1)
    (hlo : ∀ r ∈ rows, lo ≤ at' r cm) (hhi : ∀ r ∈ rows, at' r cm ≤ hi) :
    lo ≤ epsValue eps cm rows t0 t1 ∧ epsValue eps cm rows t0 t1 ≤ hi := by
  have hnb : lo ≤ epsNoBounds eps cm rows ∧ epsNoBounds eps cm rows ≤ hi := by
    obtain ⟨a0, a1, ha0, ha1, -, -, he⟩ := epsNoBounds_formula eps cm rows hne
    have m0 := getD_mem rows [] a0 ha0
    have m1 := getD_mem rows [] a1 ha1
    rw [he]
    apply convex_in_range lo hi _ _ eps h0 h1
    · exact le_min (hlo _ m0) (hlo _ m1)
    · exact le_trans (min_le_left _ _) (hhi _ m0)
    · exact le_trans (hlo _ m0) (le_max_left _ _)
    · exact max_le (hhi _ m0) (hhi _ m1)
  unfold epsValue
  split
  · rename_i hb
    have hlen : ¬ (sortedFrontierMin rows).length < 2 := by
      intro hlt
      simp only [epsBranch] at hb
      split_ifs at hb
    have hsp : sortedFrontierMin rows ≠ [] := by
      intro he; rw [he] at hlen; simp at hlen
    obtain ⟨r1, hr1, r2, hr2, he⟩ := epsBounded_exists eps cm _ t0 t1 hsp
    have m1 := ((mem_sortedFrontierMin 2 rows hrect r1).mp hr1).1
    have m2 := ((mem_sortedFrontierMin 2 rows hrect r2).mp hr2).1
    rw [he]
    exact convex_in_range lo hi _ _ eps h0 h1 (hlo _ m1) (hhi _ m1) (hlo _ m2) (hhi _ m2)
  · exact hnb

/-- Sharper, on the branch that uses the thresholds: the value lies within the range the
    constrained metric takes *on the (minimisation) Pareto frontier* – the NOTE in the source
    ("any epsilon value always is a value inside the pareto frontier"). -/
theorem epsValue_bounded_in_frontier_range (eps : Rat) (cm : Nat) (rows : List (List Rat)) (t0 t1 : Thr)
    (lo hi : Rat) (hb : epsBranch rows t0 t1 = .bounded) (h0 : 0 ≤ eps) (h1 : eps ≤ 1)
    (hlo : ∀ r ∈ sortedFrontierMin rows, lo ≤ at' r cm) (hhi : ∀ r ∈ sortedFrontierMin rows, at' r cm ≤ hi) :
    lo ≤ epsValue eps cm rows t0 t1 ∧ epsValue eps cm rows t0 t1 ≤ hi := by
  have hlen : ¬ (sortedFrontierMin rows).length < 2 := by
    intro hlt
    simp only [epsBranch] at hb
    split_ifs at hb
  have hsp : sortedFrontierMin rows ≠ [] := by
    intro he; rw [he] at hlen; simp at hlen
  obtain ⟨r1, hr1, r2, hr2, he⟩ := epsBounded_exists eps cm _ t0 t1 hsp
  simp only [epsValue, hb, he]
  exact convex_in_range lo hi _ _ eps h0 h1 (hlo _ hr1) (hhi _ hr1) (hlo _ hr2) (hhi _ hr2)

/-- non-vacuity of `epsValue_in_range`: its hypotheses are satisfiable (five rows, both thresholds
    inside the data; this input takes the bounded branch in the driver) -/
example :
    0 ≤ epsValue (1 / 4) 1 [[0, 4], [1, 2], [3, 1], [4, 0], [5, 5]] (.val (7 / 2)) (.val 3) ∧
    epsValue (1 / 4) 1 [[0, 4], [1, 2], [3, 1], [4, 0], [5, 5]] (.val (7 / 2)) (.val 3) ≤ 5 :=
  epsValue_in_range _ _ _ _ _ 0 5 (by decide) (by decide) (by norm_num) (by norm_num)
    (by decide) (by decide)

/-! ## Failure labelling and the minimum-success repair -/

/-- `_create_epsilon_constraint_failures`: a point is labelled a failure iff its constrained metric
    is at least the no-threshold epsilon value of the successful rows. -/
theorem epsFailures_spec (eps : Rat) (cm : Nat) (rows : List (List Rat)) (fails : List Bool) :
    epsFailures eps cm rows fails =
      rows.map fun r => decide (epsNoBounds eps cm (select (fails.map not) rows) ≤ at' r cm) := by
  simp [epsFailures, epsValue_no_thresholds, col]

/-- **Count law**: after the repair the number of successful points is
    `max(before, min(5, n))` – never fewer than five, or all when fewer than five exist. -/
theorem forceMinSuccess_count (om : Nat) (rows : List (List Rat)) (fails : List Bool) :
    numSuccessful (forceMinSuccess om rows fails) = max (numSuccessful fails) (min 5 fails.length) := by
  rw [numSuccessful_force, forced_length, gen_minSuccessful]
  have : numSuccessful fails ≤ fails.length := List.count_le_length
  split_ifs <;> omega

/-- The repair only turns failures into successes, never the reverse, and keeps the length. -/
theorem forceMinSuccess_only_unfails (om : Nat) (rows : List (List Rat)) (fails : List Bool) :
    (forceMinSuccess om rows fails).length = fails.length ∧
    ∀ i < fails.length, (forceMinSuccess om rows fails).getD i false = true → fails.getD i false = true := by
  refine ⟨forceMinSuccess_length om rows fails, fun i hi h => ?_⟩
  rw [forceMinSuccess_getD om rows fails i hi] at h
  simp only [Bool.and_eq_true] at h
  exact h.1

/-- The points un-failed are the ones with the lowest values of the optimised metric: each of
    them is ≤ every point that stays a failure. -/
theorem forceMinSuccess_picks_lowest (om : Nat) (rows : List (List Rat)) (fails : List Bool) (i j : Nat)
    (hi : i < fails.length) (hj : j < fails.length)
    (hfi : fails.getD i false = true) (hoi : (forceMinSuccess om rows fails).getD i false = false)
    (hoj : (forceMinSuccess om rows fails).getD j false = true) :
    (col om rows).getD i 0 ≤ (col om rows).getD j 0 := by
  rw [forceMinSuccess_getD om rows fails i hi, hfi] at hoi
  rw [forceMinSuccess_getD om rows fails j hj] at hoj
  simp only [Bool.true_and, Bool.not_eq_false', List.contains_eq_mem, decide_eq_true_eq] at hoi
  simp only [Bool.and_eq_true, Bool.not_eq_true', List.contains_eq_mem, decide_eq_false_iff_not] at hoj
  exact forced_lowest _ fails i j hoi hj hoj.1 hoj.2

/-- With at least five successes the repair is the identity. -/
theorem forceMinSuccess_noop (om : Nat) (rows : List (List Rat)) (fails : List Bool)
    (h : 5 ≤ numSuccessful fails) : forceMinSuccess om rows fails = fails := by
  have hch : forcedIndices (col om rows) fails = [] := by
    rw [forcedIndices_eq, gen_minSuccessful, if_neg (by omega)]
  unfold forceMinSuccess
  simp only [hch, List.contains_nil, Bool.not_false, Bool.and_true]
  exact range_map_getD fails

/-- **Labelling by the epsilon threshold never leaves fewer than the guaranteed minimum**: after
    `_create_epsilon_constraint_failures` + `force_minimum_successful_points` at least
    `min(5, n)` of the `n` points are successful (for every epsilon, metric choice, failure mask). -/
theorem labelAndForce_min_success (eps : Rat) (cm om : Nat) (rows : List (List Rat)) (fails : List Bool) :
    min 5 rows.length ≤ numSuccessful (labelAndForce eps cm om rows fails) := by
  unfold labelAndForce
  rw [forceMinSuccess_count]
  have : (epsFailures eps cm rows fails).length = rows.length := by simp [epsFailures, col]
  rw [this]
  exact le_max_right _ _

end C13
