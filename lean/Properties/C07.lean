/-
  C07 — Acquisition optimizers stay in the domain and return the best point they saw.
  Property theorems only (helpers: Proofs/C07*.lean).  Statements are about the exact model
  `Model/C07.lean` of vectorized_optimizers.py / optimization.py and hold for

    * every point type `P`, every linearly ordered value type `V` (acquisition values are `Option V`,
      `none` = NaN), every nonce type `K`,
    * every deterministic acquisition function `f : P → Option V`,
    * every restriction `restrict : K → P → P` (one function per outcome of its random draws),
    * every list of starting points and EVERY sequence of candidate batches (the oracle standing for
      DE's mutation/crossover draws, Adam's moment arithmetic, learning rate, strategy …),
    * every list of inner-optimizer outcomes for the multistart loop (scipy is an oracle).

  A result `none` of `deOptimize`/`adamOptimize` models the `ValueError` numpy raises on an empty or
  all-NaN batch (`*_total` says when that cannot happen); `multistartOptimize = none` models the
  `RuntimeError` of the `for … else`.

  "A small Adam step does not decrease a smooth objective" is proved for the FIRST step of the coded moment
  arithmetic (`adam_first_step_*` at the end of this file, model `Model/C07Adam.lean`, executed on Float
  against recorded steps); later steps are a sampled test.  NOT a theorem: "a constrained SLSQP run started
  inside the domain ends inside it" (third-party; sampled).
-/
import Model.C07
import Proofs.C07
import Proofs.C07Vec
import Proofs.C07MS
import Proofs.C07Adam

namespace C07
universe u v w
variable {P : Type u} {V : Type v} {K : Type w} [LinearOrder V]

/-! ## 1. Best-seen bookkeeping (`evaluate_and_monitor`) -/

/-- After any sequence of batches the stored pair is an evaluated pair, every evaluation before it
    is strictly smaller and every later one is not larger: it is the FIRST arg-max of everything
    evaluated (NaN entries ignored). -/
theorem monitor_is_first_argmax (bs : List (List (P × Option V))) (b : P × V)
    (h : monitorAll none bs = some (some b)) :
    ∃ l1 l2, bs.flatten = l1 ++ (b.1, some b.2) :: l2 ∧
      (∀ e ∈ l1, ∀ x, e.2 = some x → x < b.2) ∧ (∀ e ∈ l2, ∀ x, e.2 = some x → x ≤ b.2) := by
  have := MInv.nil.all h
  simpa [MInv, IsFirstMax] using this

/-- … in particular it was evaluated with exactly that value and nothing evaluated beats it. -/
theorem monitor_evaluated_and_max (bs : List (List (P × Option V))) (b : P × V)
    (h : monitorAll none bs = some (some b)) :
    (b.1, some b.2) ∈ bs.flatten ∧ ∀ e ∈ bs.flatten, ∀ x, e.2 = some x → x ≤ b.2 := by
  have hm : IsFirstMax bs.flatten b := by
    have := MInv.nil.all h
    simpa [MInv] using this
  exact ⟨hm.mem, hm.ge⟩

/-- The coded first-arg-max refines the liberal relation of the property text ("the evaluated point
    of highest value", ties left open) that the trace checker accepts. -/
theorem monitor_refines_liberal [DecidableEq P] (bs : List (List (P × Option V))) (b : P × V)
    (h : monitorAll none bs = some (some b)) : isMaxOf bs.flatten b = true := by
  obtain ⟨hmem, hge⟩ := monitor_evaluated_and_max bs b h
  simp only [isMaxOf, Bool.and_eq_true, List.any_eq_true, List.all_eq_true, decide_eq_true_eq]
  refine ⟨⟨_, hmem, rfl, rfl⟩, ?_⟩
  intro e he
  cases hv : e.2 with
  | none => rfl
  | some x => simpa using hge e he x hv

/-- The same holds when bookkeeping continues from an earlier best (the state is never reset). -/
theorem monitor_continues (b0 b : P × V) (bs : List (List (P × Option V)))
    (h : monitorAll (some b0) bs = some (some b)) :
    b0.2 ≤ b.2 ∧ (b = b0 ∨ (b.1, some b.2) ∈ bs.flatten) ∧
      ∀ e ∈ bs.flatten, ∀ x, e.2 = some x → x ≤ b.2 := by
  have h0 : MInv [(b0.1, some b0.2)] (some b0) := ⟨[], [], rfl, by simp, by simp⟩
  have hm : IsFirstMax ([(b0.1, some b0.2)] ++ bs.flatten) b := h0.all h
  refine ⟨hm.ge (b0.1, some b0.2) (by simp) b0.2 rfl, ?_, fun e he x hx => hm.ge e (by simp [he]) x hx⟩
  obtain ⟨l1, l2, heq, h1, -⟩ := hm
  cases l1 with
  | nil =>
    left
    simp only [List.nil_append, List.singleton_append, List.cons.injEq, Prod.mk.injEq,
      Option.some.injEq] at heq
    exact Prod.ext heq.1.1.symm heq.1.2.symm
  | cons a l1 =>
    right
    simp only [List.cons_append, List.cons.injEq] at heq
    have h2 := heq.2
    simp only [List.nil_append] at h2
    rw [h2]; simp

/-- numpy raises exactly when some batch has no non-NaN entry (empty batches included). -/
theorem monitor_raises_iff (acc : Option (P × V)) (bs : List (List (P × Option V))) :
    monitorAll acc bs = none ↔ ∃ batch ∈ bs, ∀ e ∈ batch, e.2 = none := by
  induction bs generalizing acc with
  | nil => simp [monitorAll]
  | cons b bs ih =>
    unfold monitorAll
    cases hm : monitorStep acc b with
    | none =>
      simp only [true_iff]
      refine ⟨b, List.mem_cons_self .., ?_⟩
      unfold monitorStep at hm
      cases hnow : argmaxFirst b with
      | none => exact argmaxFirst_none hnow
      | some now =>
        rw [hnow] at hm
        cases acc with
        | none => simp at hm
        | some a => simp only at hm; split at hm <;> simp at hm
    | some n =>
      simp only [ih, List.mem_cons, exists_eq_or_imp]
      constructor
      · intro h; exact Or.inr h
      · rintro (h | h)
        · exfalso
          unfold monitorStep at hm
          cases hnow : argmaxFirst b with
          | none => rw [hnow] at hm; simp at hm
          | some now =>
            have := (argmaxFirst_some hnow).mem
            have := h _ this
            simp at this
        · exact h

/-! ## 2. Differential evolution -/

/-- The returned `(best_location, best_value)` is the bookkeeping of the recorded trace. -/
theorem de_best_is_monitor_of_trace (restrict : K → P → P) (f : P → Option V) (starts : List (K × P))
    (cands : List (List (K × P))) (res : VecResult P V)
    (h : deOptimize restrict f starts cands = some res) :
    monitorAll none res.batches = some (some res.best) := by
  simp only [deOptimize] at h
  split at h; · simp at h
  rename_i best0 h0
  split at h; · simp at h
  rename_i b pop tr pops hloop
  split at h; · simp at h
  rename_i bf hf
  simp only [Option.some.injEq] at h; subst h
  simp only [monitorAll, h0]
  rw [monitorAll_append (deLoop_monitor hloop)]
  simp [monitorAll, hf]

/-- DE returns exactly the first arg-max of everything it evaluated. -/
theorem de_returns_first_argmax (restrict : K → P → P) (f : P → Option V) (starts : List (K × P))
    (cands : List (List (K × P))) (res : VecResult P V)
    (h : deOptimize restrict f starts cands = some res) :
    ∃ l1 l2, res.batches.flatten = l1 ++ (res.best.1, some res.best.2) :: l2 ∧
      (∀ e ∈ l1, ∀ x, e.2 = some x → x < res.best.2) ∧ (∀ e ∈ l2, ∀ x, e.2 = some x → x ≤ res.best.2) :=
  monitor_is_first_argmax _ _ (de_best_is_monitor_of_trace restrict f starts cands res h)

/-- Structure of a DE run: the population, the trace, and what the trace checker recomputes. -/
theorem de_trace_accepted (restrict : K → P → P) (f : P → Option V) (starts : List (K × P))
    (cands : List (List (K × P))) (res : VecResult P V)
    (h : deOptimize restrict f starts cands = some res) :
    ∃ tr, res.batches = evalB f (restrictAll restrict starts) :: (tr ++ [evalB f res.ending]) ∧
      tr.length = deIterations cands.length ∧
      deTrace (evalB f (restrictAll restrict starts)) tr (evalB f res.ending) = some (res.best, res.ending) ∧
      res.values = res.ending.map f ∧ res.ending.length = starts.length := by
  simp only [deOptimize] at h
  split at h; · simp at h
  rename_i best0 h0
  split at h; · simp at h
  rename_i b pop tr pops hloop
  split at h; · simp at h
  rename_i bf hf
  simp only [Option.some.injEq] at h; subst h
  obtain ⟨hl1, -, hl3⟩ := deLoop_lengths hloop
  refine ⟨tr, rfl, by simpa [deIterations] using hl1, ?_, rfl, by simpa [restrictAll] using hl3⟩
  simp [deTrace, h0, evalB_fst, deLoop_replay hloop, hf]

/-- Every point handed to the acquisition function is an image of `restrict`, and the recorded value
    is `f` of it. -/
theorem de_all_evaluated_restricted (restrict : K → P → P) (f : P → Option V) (starts : List (K × P))
    (cands : List (List (K × P))) (res : VecResult P V)
    (h : deOptimize restrict f starts cands = some res) :
    ∀ batch ∈ res.batches, ∀ e ∈ batch, (∃ k q, e.1 = restrict k q) ∧ e.2 = f e.1 := by
  simp only [deOptimize] at h
  split at h; · simp at h
  rename_i best0 h0
  split at h; · simp at h
  rename_i b pop tr pops hloop
  split at h; · simp at h
  rename_i bf hf
  simp only [Option.some.injEq] at h; subst h
  obtain ⟨h1, h2, -⟩ := deLoop_restricted hloop (restrictAll_restricted restrict starts)
  intro batch hb e he
  simp only [List.mem_cons, List.mem_append, List.not_mem_nil, or_false] at hb
  rcases hb with rfl | hb | rfl
  · obtain ⟨hm, hv⟩ := evalB_mem he
    exact ⟨restrictAll_restricted restrict starts _ hm, hv⟩
  · exact h1 batch hb e he
  · obtain ⟨hm, hv⟩ := evalB_mem he
    exact ⟨h2 _ hm, hv⟩

/-- If `restrict` lands in the domain (C08), DE evaluates only in-domain points and returns an
    in-domain best location and in-domain ending points. -/
theorem de_stays_in_domain (restrict : K → P → P) (inDom : P → Prop) (hdom : ∀ k q, inDom (restrict k q))
    (f : P → Option V) (starts : List (K × P)) (cands : List (List (K × P))) (res : VecResult P V)
    (h : deOptimize restrict f starts cands = some res) :
    (∀ batch ∈ res.batches, ∀ e ∈ batch, inDom e.1) ∧ inDom res.best.1 ∧ ∀ p ∈ res.ending, inDom p := by
  have hr := de_all_evaluated_restricted restrict f starts cands res h
  have hall : ∀ batch ∈ res.batches, ∀ e ∈ batch, inDom e.1 := by
    intro batch hb e he
    obtain ⟨⟨k, q, hq⟩, -⟩ := hr batch hb e he
    rw [hq]; exact hdom k q
  have hmem := (monitor_evaluated_and_max _ _ (de_best_is_monitor_of_trace restrict f starts cands res h)).1
  obtain ⟨batch, hb, he⟩ := List.mem_flatten.mp hmem
  refine ⟨hall, hall batch hb _ he, ?_⟩
  obtain ⟨tr, hbat, -, -, -, -⟩ := de_trace_accepted restrict f starts cands res h
  intro p hp
  exact hall (evalB f res.ending) (by rw [hbat]; simp) (p, f p) (mem_evalB hp)

/-- The reported best value is at least the value at every restricted starting point. -/
theorem de_best_ge_restricted_starts (restrict : K → P → P) (f : P → Option V) (starts : List (K × P))
    (cands : List (List (K × P))) (res : VecResult P V)
    (h : deOptimize restrict f starts cands = some res) :
    ∀ ks ∈ starts, ∀ x, f (restrict ks.1 ks.2) = some x → x ≤ res.best.2 := by
  intro ks hks x hx
  obtain ⟨tr, hbat, -⟩ := de_trace_accepted restrict f starts cands res h
  have hmax := (monitor_evaluated_and_max _ _ (de_best_is_monitor_of_trace restrict f starts cands res h)).2
  refine hmax (restrict ks.1 ks.2, f (restrict ks.1 ks.2)) ?_ x hx
  rw [hbat]
  simp only [List.flatten_cons, List.mem_append]
  left
  apply mem_evalB
  simp only [restrictAll, List.mem_map]
  exact ⟨ks, hks, rfl⟩

/-- Re-evaluating the returned location reproduces the returned value; the reported per-start values
    are the values of the ending points; none of them exceeds the best value. -/
theorem de_reported_value_reproducible (restrict : K → P → P) (f : P → Option V) (starts : List (K × P))
    (cands : List (List (K × P))) (res : VecResult P V)
    (h : deOptimize restrict f starts cands = some res) :
    f res.best.1 = some res.best.2 ∧ res.values = res.ending.map f ∧
      ∀ p ∈ res.ending, ∀ x, f p = some x → x ≤ res.best.2 := by
  have hmon := monitor_evaluated_and_max _ _ (de_best_is_monitor_of_trace restrict f starts cands res h)
  obtain ⟨batch, hb, he⟩ := List.mem_flatten.mp hmon.1
  have := (de_all_evaluated_restricted restrict f starts cands res h batch hb _ he).2
  obtain ⟨tr, hbat, -, -, hvals, -⟩ := de_trace_accepted restrict f starts cands res h
  refine ⟨this.symm, hvals, ?_⟩
  intro p hp x hx
  refine hmon.2 (p, f p) ?_ x hx
  rw [hbat]
  simp only [List.flatten_cons, List.flatten_append, List.mem_append]
  right; right
  simpa using mem_evalB (f := f) hp

/-- One DE iteration, as coded: after the trial batch has been monitored (new best `b'`), a member is
    replaced only by a trial whose value is ≥ the NEW best, hence ≥ the member's own value; and no
    member of the new population is better than the stored best. -/
theorem de_step_never_worse (f : P → Option V) (best b' : P × V) (pop trials : List P)
    (hinv : ∀ m ∈ pop, ∀ x, f m = some x → x ≤ best.2)
    (hmon : monitorStep (some best) (evalB f trials) = some b') :
    List.Forall₂ (fun m m' => m' = m ∨ ∃ tv, f m' = some tv ∧ ∀ x, f m = some x → x ≤ tv)
      pop (deReplace b'.2 pop trials (trials.map f)) ∧
    ∀ m ∈ deReplace b'.2 pop trials (trials.map f), ∀ x, f m = some x → x ≤ b'.2 := by
  have hmono := monitorStep_mono hmon
  have hinv1 : ∀ m ∈ pop, ∀ x, f m = some x → x ≤ b'.2 := fun m hm x hx => le_trans (hinv m hm x hx) hmono
  refine ⟨deReplace_neverWorse hinv1 trials, ?_⟩
  intro m hm x hx
  rcases deReplace_mem hm with hm | hm
  · exact hinv1 m hm x hx
  · exact monitorStep_ge_batch hmon (m, f m) (mem_evalB hm) x hx

/-- Whole run: between consecutive populations every position keeps its member or receives a trial
    that is not worse (`res.pops` = restricted starts, then the population after each iteration; the
    last one is `ending_points`). -/
theorem de_never_worse (restrict : K → P → P) (f : P → Option V) (starts : List (K × P))
    (cands : List (List (K × P))) (res : VecResult P V)
    (h : deOptimize restrict f starts cands = some res) :
    ChainR (List.Forall₂ (NeverWorse f)) res.pops ∧
      res.pops.head? = some (restrictAll restrict starts) ∧ res.pops.getLast? = some res.ending ∧
      res.pops.length = cands.length + 1 := by
  simp only [deOptimize] at h
  split at h; · simp at h
  rename_i best0 h0
  split at h; · simp at h
  rename_i b pop tr pops hloop
  split at h; · simp at h
  rename_i bf hf
  simp only [Option.some.injEq] at h; subst h
  have hinv0 : ∀ m ∈ restrictAll restrict starts, ∀ x, f m = some x → x ≤ best0.2 :=
    fun m hm x hx => monitorStep_ge_batch h0 (m, f m) (mem_evalB hm) x hx
  obtain ⟨-, h2, h3, -⟩ := deLoop_invariant hloop hinv0
  obtain ⟨-, hl2, -⟩ := deLoop_lengths hloop
  exact ⟨h2, rfl, h3, by simp [hl2]⟩

/-- DE does not raise when the acquisition function never returns NaN and no batch is empty. -/
theorem de_total (restrict : K → P → P) (f : P → Option V) (starts : List (K × P))
    (cands : List (List (K × P))) (hf : ∀ p, f p ≠ none) (hs : starts ≠ [])
    (hc : ∀ c ∈ cands, c ≠ []) : ∃ res, deOptimize restrict f starts cands = some res := by
  have hstep : ∀ (acc : Option (P × V)) (pts : List P), pts ≠ [] → ∃ b, monitorStep acc (evalB f pts) = some b := by
    intro acc pts hp
    cases hm : monitorStep acc (evalB f pts) with
    | some b => exact ⟨b, rfl⟩
    | none =>
      exfalso
      have : monitorAll acc [evalB f pts] = none := by simp [monitorAll, hm]
      obtain ⟨batch, hb, hall⟩ := (monitor_raises_iff acc _).mp this
      simp only [List.mem_singleton] at hb; subst hb
      obtain ⟨p, hp'⟩ := List.exists_mem_of_ne_nil pts hp
      exact hf p (hall _ (mem_evalB hp'))
  have hloop : ∀ (cs : List (List (K × P))) (best : P × V) (pop : List P), (∀ c ∈ cs, c ≠ []) →
      ∃ r, deLoop restrict f cs best pop = some r := by
    intro cs
    induction cs with
    | nil => intro best pop _; exact ⟨_, rfl⟩
    | cons c cs ih =>
      intro best pop hcs
      have hcne : restrictAll restrict c ≠ [] := by
        simpa [restrictAll] using hcs c (List.mem_cons_self ..)
      obtain ⟨b', hb'⟩ := hstep (some best) _ hcne
      obtain ⟨r, hr⟩ := ih b' (deReplace b'.2 pop (restrictAll restrict c) ((restrictAll restrict c).map f))
        (fun c' hc' => hcs c' (List.mem_cons_of_mem _ hc'))
      cases hx : deLoop restrict f (c :: cs) best pop with
      | some r' => exact ⟨r', rfl⟩
      | none => simp [deLoop, hb', hr] at hx
  have hsne : restrictAll restrict starts ≠ [] := by simpa [restrictAll] using hs
  obtain ⟨best0, h0⟩ := hstep none _ hsne
  obtain ⟨⟨b, pop, tr, pops⟩, hl⟩ := hloop cands best0 (restrictAll restrict starts) hc
  have hpop : pop ≠ [] := by
    obtain ⟨-, -, hlen⟩ := deLoop_lengths hl
    intro hp; rw [hp] at hlen; simp at hlen; exact hsne (List.eq_nil_of_length_eq_zero hlen.symm)
  obtain ⟨bf, hbf⟩ := hstep (some b) pop hpop
  cases hx : deOptimize restrict f starts cands with
  | some r' => exact ⟨r', rfl⟩
  | none => simp [deOptimize, h0, hl, hbf] at hx

/-! ## 3. Adam -/

theorem adam_best_is_monitor_of_trace (restrict : K → P → P) (f : P → Option V) (starts : List (K × P))
    (cands : List (List (K × P))) (res : VecResult P V)
    (h : adamOptimize restrict f starts cands = some res) :
    monitorAll none res.batches = some (some res.best) := by
  simp only [adamOptimize] at h
  split at h; · simp at h
  rename_i b ptsf tr pops hloop
  split at h; · simp at h
  rename_i bf hf
  simp only [Option.some.injEq] at h; subst h
  have hm := adamLoop_monitor hloop
  cases b with
  | none =>
    -- no iteration evaluated anything: the trace is the final batch alone
    cases cands with
    | nil =>
      obtain ⟨-, -, rfl, -⟩ := adamLoop_nil_inv hloop
      simp [monitorAll, hf]
    | cons c cs =>
      obtain ⟨b', tr', pops', hb', hrec, rfl, rfl⟩ := adamLoop_cons_inv hloop
      simp only [monitorAll, hb'] at hm
      have := adamLoop_monitor hrec
      -- after one successful step the state is `some _`, never `none` again
      exfalso
      have hsome : ∀ (bs : List (List (P × Option V))) (a : P × V), monitorAll (some a) bs ≠ some none := by
        intro bs
        induction bs with
        | nil => intro a; simp [monitorAll]
        | cons x xs ih =>
          intro a; unfold monitorAll
          cases monitorStep (some a) x with
          | none => simp
          | some n => exact ih n
      exact hsome _ _ this
  | some b =>
    rw [monitorAll_append hm]
    simp [monitorAll, hf]

/-- Adam returns exactly the first arg-max of everything it evaluated. -/
theorem adam_returns_first_argmax (restrict : K → P → P) (f : P → Option V) (starts : List (K × P))
    (cands : List (List (K × P))) (res : VecResult P V)
    (h : adamOptimize restrict f starts cands = some res) :
    ∃ l1 l2, res.batches.flatten = l1 ++ (res.best.1, some res.best.2) :: l2 ∧
      (∀ e ∈ l1, ∀ x, e.2 = some x → x < res.best.2) ∧ (∀ e ∈ l2, ∀ x, e.2 = some x → x ≤ res.best.2) :=
  monitor_is_first_argmax _ _ (adam_best_is_monitor_of_trace restrict f starts cands res h)

/-- Shape of an Adam trace: `maxiter - 1` loop evaluations plus the final one; the first batch is the
    restricted starts, the last one the ending points; every batch is evaluated exactly once. -/
theorem adam_trace_shape (restrict : K → P → P) (f : P → Option V) (starts : List (K × P))
    (cands : List (List (K × P))) (res : VecResult P V)
    (h : adamOptimize restrict f starts cands = some res) :
    res.batches.length = cands.length + 1 ∧
      res.batches.head? = some (evalB f (restrictAll restrict starts)) ∧
      res.batches.getLast? = some (evalB f res.ending) ∧ res.values = res.ending.map f := by
  simp only [adamOptimize] at h
  split at h; · simp at h
  rename_i b ptsf tr pops hloop
  split at h; · simp at h
  rename_i bf hf
  simp only [Option.some.injEq] at h; subst h
  obtain ⟨hl1, -⟩ := adamLoop_lengths hloop
  exact ⟨by simp [hl1], adamLoop_first_batch hloop, by simp, rfl⟩

theorem adam_all_evaluated_restricted (restrict : K → P → P) (f : P → Option V) (starts : List (K × P))
    (cands : List (List (K × P))) (res : VecResult P V)
    (h : adamOptimize restrict f starts cands = some res) :
    ∀ batch ∈ res.batches, ∀ e ∈ batch, (∃ k q, e.1 = restrict k q) ∧ e.2 = f e.1 := by
  simp only [adamOptimize] at h
  split at h; · simp at h
  rename_i b ptsf tr pops hloop
  split at h; · simp at h
  rename_i bf hf
  simp only [Option.some.injEq] at h; subst h
  obtain ⟨h1, h2⟩ := adamLoop_restricted hloop (restrictAll_restricted restrict starts)
  intro batch hb e he
  simp only [List.mem_append, List.mem_singleton] at hb
  rcases hb with hb | rfl
  · exact h1 batch hb e he
  · obtain ⟨hm, hv⟩ := evalB_mem he
    exact ⟨h2 _ hm, hv⟩

theorem adam_stays_in_domain (restrict : K → P → P) (inDom : P → Prop) (hdom : ∀ k q, inDom (restrict k q))
    (f : P → Option V) (starts : List (K × P)) (cands : List (List (K × P))) (res : VecResult P V)
    (h : adamOptimize restrict f starts cands = some res) :
    (∀ batch ∈ res.batches, ∀ e ∈ batch, inDom e.1) ∧ inDom res.best.1 ∧ ∀ p ∈ res.ending, inDom p := by
  have hr := adam_all_evaluated_restricted restrict f starts cands res h
  have hall : ∀ batch ∈ res.batches, ∀ e ∈ batch, inDom e.1 := by
    intro batch hb e he
    obtain ⟨⟨k, q, hq⟩, -⟩ := hr batch hb e he
    rw [hq]; exact hdom k q
  have hmem := (monitor_evaluated_and_max _ _ (adam_best_is_monitor_of_trace restrict f starts cands res h)).1
  obtain ⟨batch, hb, he⟩ := List.mem_flatten.mp hmem
  refine ⟨hall, hall batch hb _ he, ?_⟩
  obtain ⟨-, -, hlast, -⟩ := adam_trace_shape restrict f starts cands res h
  intro p hp
  exact hall (evalB f res.ending) (List.mem_of_getLast? hlast) (p, f p) (mem_evalB hp)

theorem adam_best_ge_restricted_starts (restrict : K → P → P) (f : P → Option V) (starts : List (K × P))
    (cands : List (List (K × P))) (res : VecResult P V)
    (h : adamOptimize restrict f starts cands = some res) :
    ∀ ks ∈ starts, ∀ x, f (restrict ks.1 ks.2) = some x → x ≤ res.best.2 := by
  intro ks hks x hx
  obtain ⟨-, hhead, -, -⟩ := adam_trace_shape restrict f starts cands res h
  have hmax := (monitor_evaluated_and_max _ _ (adam_best_is_monitor_of_trace restrict f starts cands res h)).2
  refine hmax (restrict ks.1 ks.2, f (restrict ks.1 ks.2)) ?_ x hx
  refine List.mem_flatten.mpr ⟨_, List.mem_of_head? hhead, ?_⟩
  apply mem_evalB
  simp only [restrictAll, List.mem_map]
  exact ⟨ks, hks, rfl⟩

theorem adam_reported_value_reproducible (restrict : K → P → P) (f : P → Option V) (starts : List (K × P))
    (cands : List (List (K × P))) (res : VecResult P V)
    (h : adamOptimize restrict f starts cands = some res) :
    f res.best.1 = some res.best.2 ∧ res.values = res.ending.map f ∧
      ∀ p ∈ res.ending, ∀ x, f p = some x → x ≤ res.best.2 := by
  have hmon := monitor_evaluated_and_max _ _ (adam_best_is_monitor_of_trace restrict f starts cands res h)
  obtain ⟨batch, hb, he⟩ := List.mem_flatten.mp hmon.1
  have := (adam_all_evaluated_restricted restrict f starts cands res h batch hb _ he).2
  obtain ⟨-, -, hlast, hvals⟩ := adam_trace_shape restrict f starts cands res h
  refine ⟨this.symm, hvals, ?_⟩
  intro p hp x hx
  exact hmon.2 (p, f p) (List.mem_flatten.mpr ⟨_, List.mem_of_getLast? hlast, mem_evalB hp⟩) x hx

/-- Adam does not raise when the acquisition function never returns NaN and no batch is empty. -/
theorem adam_total (restrict : K → P → P) (f : P → Option V) (starts : List (K × P))
    (cands : List (List (K × P))) (hf : ∀ p, f p ≠ none) (hs : starts ≠ [])
    (hc : ∀ c ∈ cands, c ≠ []) : ∃ res, adamOptimize restrict f starts cands = some res := by
  have hstep : ∀ (acc : Option (P × V)) (pts : List P), pts ≠ [] → ∃ b, monitorStep acc (evalB f pts) = some b := by
    intro acc pts hp
    cases hm : monitorStep acc (evalB f pts) with
    | some b => exact ⟨b, rfl⟩
    | none =>
      exfalso
      have : monitorAll acc [evalB f pts] = none := by simp [monitorAll, hm]
      obtain ⟨batch, hb, hall⟩ := (monitor_raises_iff acc _).mp this
      simp only [List.mem_singleton] at hb; subst hb
      obtain ⟨p, hp'⟩ := List.exists_mem_of_ne_nil pts hp
      exact hf p (hall _ (mem_evalB hp'))
  have hloop : ∀ (cs : List (List (K × P))) (b : Option (P × V)) (pts : List P), pts ≠ [] →
      (∀ c ∈ cs, c ≠ []) → ∃ bf ptsf tr pops, adamLoop restrict f cs b pts = some (bf, ptsf, tr, pops) ∧ ptsf ≠ [] := by
    intro cs
    induction cs with
    | nil => intro b pts hp _; exact ⟨b, pts, [], [], rfl, hp⟩
    | cons c cs ih =>
      intro b pts hp hcs
      have hcne : restrictAll restrict c ≠ [] := by
        simpa [restrictAll] using hcs c (List.mem_cons_self ..)
      obtain ⟨b', hb'⟩ := hstep b pts hp
      obtain ⟨bf, ptsf, tr, pops, hr, hne⟩ := ih (some b') (restrictAll restrict c) hcne
        (fun c' hc' => hcs c' (List.mem_cons_of_mem _ hc'))
      exact ⟨bf, ptsf, evalB f pts :: tr, restrictAll restrict c :: pops, by simp only [adamLoop, hb', hr], hne⟩
  have hsne : restrictAll restrict starts ≠ [] := by simpa [restrictAll] using hs
  obtain ⟨b, ptsf, tr, pops, hl, hne⟩ := hloop cands none (restrictAll restrict starts) hsne hc
  obtain ⟨bf, hbf⟩ := hstep b ptsf hne
  cases hx : adamOptimize restrict f starts cands with
  | some r' => exact ⟨r', rfl⟩
  | none => simp [adamOptimize, hl, hbf] at hx

/-! ## 4. Multistart selection -/

/-- Selection law: the loop consumes a non-empty prefix of the potential runs, stops exactly when
    the coded break condition holds, and returns `selectSpec` of what it consumed. -/
theorem multistart_select_law (nm nsel minSucc : Nat) (runs : List (Run P V)) (res : MSResult P V)
    (h : multistartOptimize nm nsel minSucc runs = some res) :
    (∃ rest, runs = res.runs ++ rest) ∧ res.runs ≠ [] ∧ res.point = selectSpec res.runs ∧
      (if nm = 0 then res.runs.length = nsel
       else nm ≤ res.runs.length ∧ minSucc ≤ res.runs.countP (fun r => r.effSuccess)) := by
  simp only [multistartOptimize] at h
  split at h; · simp at h
  rename_i st used hl
  simp only [Option.some.injEq] at h; subst h
  obtain ⟨rest, hr, hne, hinv, hdone⟩ := msLoop_inv MSInv.init hl
  simp only [List.nil_append] at hinv
  refine ⟨⟨rest, hr⟩, hne, hinv.best, ?_⟩
  simp only [msDone] at hdone
  split
  · rename_i h0; simp only [h0, if_true, beq_iff_eq] at hdone; rw [← hinv.count]; exact hdone
  · rename_i h0
    simp only [h0, if_false, Bool.and_eq_true, decide_eq_true_eq] at hdone
    rw [← hinv.count, ← hinv.succ]; exact hdone

/-- With at least one successful in-domain run of finite value, the result is the END point of the
    FIRST such run of maximal value. -/
theorem multistart_best_successful (runs : List (Run P V)) (r0 : Run P V) (x0 : V) (h0 : r0 ∈ runs)
    (hs0 : r0.effSuccess = true) (hv0 : r0.effValue = .fin x0) :
    ∃ r ∈ runs, ∃ x, selectSpec runs = some r.stop ∧ r.effSuccess = true ∧ r.acceptable = true ∧
      r.effValue = .fin x ∧
      (∀ r' ∈ runs, ∀ y, r'.effSuccess = true → r'.effValue = .fin y → y ≤ x) ∧
      ∃ l1 l2, succVals runs = l1 ++ (r.stop, some x) :: l2 ∧ ∀ e ∈ l1, ∀ y, e.2 = some y → y < x := by
  have hmem := succVals_mem h0 hs0 hv0
  cases hA : argmaxFirst (succVals runs) with
  | none => have := argmaxFirst_none hA _ hmem; simp at this
  | some b =>
    have hfm := argmaxFirst_some hA
    obtain ⟨r, hr, x, hs, hv, hb⟩ := mem_succVals hfm.mem
    simp only [Prod.mk.injEq, Option.some.injEq] at hb
    have hacc : r.acceptable = true := by
      simp only [Run.effSuccess, Bool.and_eq_true] at hs; exact hs.1
    refine ⟨r, hr, x, ?_, hs, hacc, hv, ?_, ?_⟩
    · simp [selectSpec, hA, hb.1]
    · intro r' hr' y hs' hv'
      have := hfm.ge _ (succVals_mem hr' hs' hv') y rfl
      rw [hb.2] at this; exact this
    · obtain ⟨l1, l2, heq, h1, -⟩ := hfm
      refine ⟨l1, l2, ?_, ?_⟩
      · rw [heq, hb.1, hb.2]
      · intro e he y hy; have := h1 e he y hy; rw [hb.2] at this; exact this

/-- The coded selection refines the liberal relation of the property text ("value is the best among
    the successful runs", ties left open) that the trace checker accepts. -/
theorem multistart_refines_liberal [DecidableEq P] (runs : List (Run P V)) (p : P)
    (h : selectSpec runs = some p) : isBestSuccessful runs p = true := by
  cases hA : argmaxFirst (succVals runs) with
  | none =>
    have hall := argmaxFirst_none hA
    have : succVals runs = [] := by
      cases hsv : succVals runs with
      | nil => rfl
      | cons e es =>
        exfalso
        have he : e ∈ succVals runs := by rw [hsv]; exact List.mem_cons_self ..
        obtain ⟨r, -, x, -, -, hex⟩ := mem_succVals he
        have := hall e he
        rw [hex] at this; simp at this
    simp [isBestSuccessful, this]
  | some b =>
    have hfm := argmaxFirst_some hA
    have hp : b.1 = p := by simpa [selectSpec, hA] using h
    have hmax : isMaxOf (succVals runs) (p, b.2) = true := by
      simp only [isMaxOf, Bool.and_eq_true, List.any_eq_true, List.all_eq_true, decide_eq_true_eq]
      refine ⟨⟨_, hfm.mem, hp, rfl⟩, ?_⟩
      intro e he
      cases hv : e.2 with
      | none => rfl
      | some x => simpa using hfm.ge e he x hv
    simp only [isBestSuccessful, Bool.or_eq_true, List.any_eq_true, Bool.and_eq_true, decide_eq_true_eq]
    right
    exact ⟨_, hfm.mem, hp, by simpa using hmax⟩

/-- Without any: the first run's end point if that run "succeeded" with a non-finite value,
    otherwise the first START (the coded fallback). -/
theorem multistart_fallback (r1 : Run P V) (rs : List (Run P V))
    (hnone : ∀ r ∈ r1 :: rs, ∀ x, ¬ (r.effSuccess = true ∧ r.effValue = .fin x)) :
    selectSpec (r1 :: rs) = some (if r1.effSuccess then r1.stop else r1.start) := by
  cases hA : argmaxFirst (succVals (r1 :: rs)) with
  | none => simp [selectSpec, hA]
  | some b =>
    obtain ⟨r, hr, x, hs, hv, -⟩ := mem_succVals (argmaxFirst_some hA).mem
    exact absurd ⟨hs, hv⟩ (hnone r hr x)

/-- The returned point is in the domain provided acceptable end points are (that is what
    `check_point_acceptable` decides) and the FIRST start is. -/
theorem multistart_in_domain (inDom : P → Prop) (nm nsel minSucc : Nat) (runs : List (Run P V))
    (res : MSResult P V) (h : multistartOptimize nm nsel minSucc runs = some res)
    (hacc : ∀ r ∈ runs, r.acceptable = true → inDom r.stop)
    (hstart : ∀ r, runs.head? = some r → inDom r.start) :
    ∃ p, res.point = some p ∧ inDom p := by
  obtain ⟨⟨rest, hr⟩, hne, hpt, -⟩ := multistart_select_law nm nsel minSucc runs res h
  have hsub : ∀ r ∈ res.runs, r ∈ runs := fun r hm => by rw [hr]; exact List.mem_append_left _ hm
  rw [hpt]
  cases hA : argmaxFirst (succVals res.runs) with
  | some b =>
    obtain ⟨r, hrm, x, hs, hv, hb⟩ := mem_succVals (argmaxFirst_some hA).mem
    simp only [Prod.mk.injEq] at hb
    refine ⟨b.1, by simp [selectSpec, hA], ?_⟩
    rw [hb.1]
    apply hacc r (hsub r hrm)
    simp only [Run.effSuccess, Bool.and_eq_true] at hs; exact hs.1
  | none =>
    obtain ⟨r1, rs, hruns⟩ := List.exists_cons_of_ne_nil hne
    have hsel : selectSpec res.runs = some (if r1.effSuccess then r1.stop else r1.start) := by
      rw [hruns] at hA ⊢
      simp [selectSpec, hA]
    refine ⟨_, hsel, ?_⟩
    have hhead : runs.head? = some r1 := by rw [hr, hruns]; rfl
    split
    · rename_i hs
      apply hacc r1 (hsub r1 (by rw [hruns]; exact List.mem_cons_self ..))
      simp only [Run.effSuccess, Bool.and_eq_true] at hs; exact hs.1
    · exact hstart r1 hhead

/-- The three reported per-start arrays are the consumed runs in order; the reported value of a run
    whose end point is not acceptable is NaN. -/
theorem multistart_reports_in_order (nm nsel minSucc : Nat) (runs : List (Run P V)) (res : MSResult P V)
    (h : multistartOptimize nm nsel minSucc runs = some res) :
    res.startingPoints = (runs.take res.runs.length).map Run.start ∧
    res.endingPoints = (runs.take res.runs.length).map Run.stop ∧
    res.functionValues = (runs.take res.runs.length).map Run.effValue ∧
    ∀ r ∈ res.runs, r.acceptable = false → r.effValue = .nan := by
  obtain ⟨⟨rest, hr⟩, -, -, -⟩ := multistart_select_law nm nsel minSucc runs res h
  have : runs.take res.runs.length = res.runs := by rw [hr]; simp
  refine ⟨by rw [this]; rfl, by rw [this]; rfl, by rw [this]; rfl, ?_⟩
  intro r _ hacc
  simp [Run.effValue, hacc]

/-! ## 5. Non-vacuity: concrete runs of the model (points and values in `Int`, restriction = clipping
    to [0, 10], objective −(p−3)², one plateau/tie case, one NaN case, one failing first multistart). -/

section Examples

private def clip (_ : Unit) (p : Int) : Int := max 0 (min 10 p)
private def quad (p : Int) : Option Int := some (-((p - 3) * (p - 3)))
private def plateau (p : Int) : Option Int := if p = 7 then none else some (if p < 5 then 1 else 2)

example : (deOptimize clip quad [((), 20), ((), -5)] [[((), 4), ((), 7)], [((), 3), ((), 12)]]).map
    (fun r => (r.best, r.ending)) = some ((3, 0), [3, 0]) := by decide

example : (adamOptimize clip quad [((), 20), ((), -5)] [[((), 9), ((), 1)], [((), 8), ((), 2)]]).map
    (fun r => (r.best, r.ending, r.batches.length)) = some ((2, -1), [8, 2], 3) := by decide

-- ties: the FIRST maximal evaluation is kept (5 before 6 and 9, all of value 2); NaN at 7 is skipped
example : monitorAll none [evalB plateau [1, 7, 5], evalB plateau [6, 9]] = some (some (5, 2)) := by decide

-- an all-NaN batch raises
example : monitorAll none [evalB plateau [7]] = none := by decide

private def run (s e : Int) (v : FVal Int) (ok acc : Bool) : Run Int Int :=
  { start := s, stop := e, value := v, success := ok, acceptable := acc }

-- first run fails (fallback to its start, termination test skipped), later best successful run wins
example : (multistartOptimize 2 2 0
    [run 1 11 (.fin 5) true false, run 2 4 (.fin 7) true true, run 3 5 (.fin 7) true true,
     run 4 6 (.fin 9) true true]).map (fun r => (r.point, r.runs.length)) = some (some 4, 2) := by decide

-- nothing succeeds: the first start is returned
example : (multistartOptimize 1 1 0 [run 1 11 .nan false true, run 2 4 (.fin 7) false true]).map
    (fun r => (r.point, r.runs.length)) = some (some 1, 2) := by decide

end Examples


/-! ### Adam: the first step of the coded moment arithmetic ascends -/

/-- With zero initial moments the bias-corrected first displacement of a coordinate is `lr·g/(|g|+ε)`,
    whatever β₁, β₂ ∈ (0,1) are (`g` = the acquisition function's gradient in that coordinate). -/
theorem adam_first_step_closed_form (lr β1 β2 eps g : ℝ) (h1 : β1 ≠ 1) (h2 : β2 ≠ 1) :
    C07Adam.update lr β1 β2 eps 1 (C07Adam.stepMoments β1 β2 { m := 0, v := 0 } g) = lr * g / (|g| + eps) :=
  C07Adam.update_first lr β1 β2 eps g h1 h2

/-- it never moves a coordinate against the gradient and never farther than the learning rate -/
theorem adam_first_step_direction (lr eps g : ℝ) (hlr : 0 ≤ lr) (heps : 0 ≤ eps) :
    0 ≤ C07Adam.firstStep lr eps g * g ∧ |C07Adam.firstStep lr eps g| ≤ lr :=
  ⟨C07Adam.firstStep_mul_grad_nonneg lr eps g hlr heps, C07Adam.abs_firstStep_le lr eps g hlr heps⟩

/-- "Small Adam steps do not decrease a smooth objective", first step: if `f` has the quadratic lower bound
    `f(x+s) ≥ f(x) + ⟨g,s⟩ − (L/2)|s|²` at `x` (true for every L-smooth `f` with gradient `g` at `x`) and the
    learning rate is small in the sense `(L/2)·lr ≤ |gᵢ| + ε` for every coordinate, then the point reached by
    the first Adam step is at least as good as `x`.  Holds for every dimension. -/
theorem adam_first_step_ascent (f : List ℝ → ℝ) (x g : List ℝ) (lr eps L : ℝ) (hlr : 0 ≤ lr) (heps : 0 ≤ eps)
    (hsmooth : ∀ s : List ℝ, f x + C07Adam.ldot g s - L / 2 * C07Adam.ldot s s ≤ f (C07Adam.ladd x s))
    (hsmall : ∀ gi ∈ g, L / 2 * lr ≤ |gi| + eps) :
    f x ≤ f (C07Adam.ladd x (g.map (C07Adam.firstStep lr eps))) := by
  have h := hsmooth (g.map (C07Adam.firstStep lr eps))
  have hg := C07Adam.gain_sum lr eps L g hlr heps hsmall
  linarith

example : (∀ gi ∈ [(3 : ℝ), -1/2], (4 : ℝ) / 2 * (1 / 10) ≤ |gi| + 0) := by
  intro gi h; simp only [List.mem_cons, List.mem_nil_iff, or_false] at h
  rcases h with rfl | rfl <;> norm_num [abs_of_neg]

end C07
