/-
  C06 — The EI endpoint reports the improvement of the documented model of the request.
  Property theorems only (helpers: Proofs/C06Lists, C06Metric, C06Plan).

  Model: `Model/C06.lean`, exact over `Rat`: `plan : Request → Plan` lists what the view hands to the compute
  layer (per GP: one-hot points with task column, scaled values, scaled variances, appended lies, hyperparameter
  vector, nugget; acquisition-function class; failure models and thresholds; GP-sum weights; cost division).
  Every theorem holds for all well-formed requests (`Request.wf`: the shapes the schema and the view's own
  assertions demand), for every multimetric phase the view may have drawn (`Request.mm`) and for every outcome
  of the third-party sort in the minimum-success repair (`Request.forceChosen`).
  The numeric evaluation of the plan (GP posterior, EI, PF) is the compute layer's business (C02, C03, C05).
-/
import Proofs.C06Plan
import Properties.C09

namespace C06
open Dom
open C14 (keepNot overwrite)

/-! ### Side lemmas on generated constants (a changed constant breaks exactly these) -/

theorem gen_aeiThreshold : aeiThreshold = 1 / 10000000 := by norm_num [aeiThreshold]
theorem gen_lieNoise : lieNoise = 1 / 1000000000000 := by norm_num [lieNoise]
theorem gen_maxQeiBatch : maxQeiBatch = 100 := rfl

/-! ### A. The plan is total and well-defined -/

/-- **plan_total.** For a well-formed request (a) every stored-metric index the plan reads exists in every
    table, and the normalisation of that metric divides by nothing that is zero (`scale > 0`);
    (b) there is exactly one predictor: a single GP, or a GP sum with one weight per GP (two);
    (c) every GP models an optimised or a constraint metric and holds at least one row when there is at
    least one observation (the compute layer asserts `num_sampled > 0`) — in the epsilon phase for every
    outcome of the sort oracle; (d) a failure model exists exactly when the acquisition function wants one. -/
theorem plan_total (r : Request) (hw : r.wf = true) :
    (∀ k ∈ r.optIdx ++ r.conIdx, k < r.objectives.length ∧ k < r.hypers.length ∧ k < r.thresholds.length ∧
        (∀ row ∈ r.values ++ r.vars, k < row.length) ∧ 0 < (rawInfo r k).scale) ∧
    (match (plan r).weights with
      | none => (plan r).gps.length = 1
      | some w => (plan r).gps.length = w.length ∧ w.length = 2) ∧
    (∀ g ∈ allGPs r, (g.metric ∈ r.optIdx ∨ g.metric ∈ r.conIdx) ∧ (0 < r.points.length → 0 < g.points.length)) ∧
    ((plan r).pfs ≠ [] ↔ usePF r = true) := by
  have h := wf_fields r hw
  refine ⟨?_, ?_, ?_, ?_⟩
  · intro k hk
    have hk' : k < r.objectives.length := by
      rcases List.mem_append.mp hk with hk | hk
      · exact h.opt_lt k hk
      · exact h.con_lt k hk
    refine ⟨hk', by rw [h.hyp_len]; exact hk', by rw [h.thr_len]; exact hk', ?_, ?_⟩
    · intro row hrow
      rcases List.mem_append.mp hrow with hrow | hrow
      · rw [h.values_rect row hrow]; exact hk'
      · rw [h.vars_rect row hrow]; exact hk'
    · rw [rawInfo_eq]; exact C12.scale_pos _ _
  · have hm := h.mm
    unfold mmOK at hm
    simp only [plan, afWeights, afGPs]
    cases hmm : r.mm with
    | none => simp
    | oneMetric o c => simp
    | convex w =>
      rw [hmm] at hm
      simp only [Bool.and_eq_true, decide_eq_true_eq] at hm
      simp [group, hm.1, hm.2]
    | epsilon o c e => simp
  · intro g hg
    have hlen : ∀ idx, FromMetric r idx g → g.metric ∈ idx ∧ (0 < r.points.length → 0 < g.points.length) := by
      rintro idx ⟨k, hk, mask, rfl, hmask⟩
      refine ⟨hk, fun hn => ?_⟩
      have hL := (mkGP_lengths r h idx k mask).2.2.1
      rw [hL]
      rcases hmask with rfl | ⟨o, c, e, _, rfl⟩
      · simp only [applyMask]; rw [sampledEnc_length r h]; omega
      · simp only [applyMask]
        rw [keepNot_length_count _ _ (by rw [sampledEnc_length r h, epsilonMask_length, h.values_len])]
        have := epsilonMask_min_success r o c e
        rw [h.values_len] at this
        omega
    rcases allGPs_origin r h g hg with ho | ho
    · exact ⟨Or.inl (hlen _ ho).1, (hlen _ ho).2⟩
    · exact ⟨Or.inr (hlen _ ho).1, (hlen _ ho).2⟩
  · simp only [plan, pfs]
    constructor
    · intro hne
      by_contra hc
      simp only [Bool.not_eq_true] at hc
      simp [hc] at hne
    · intro hu
      rw [if_pos hu]
      simp only [usePF, Bool.or_eq_true, Bool.not_eq_true'] at hu
      rcases hu with he | hc
      · cases hmm : r.mm with
        | none => rw [hmm] at he; cases he
        | oneMetric o c => rw [hmm] at he; cases he
        | convex w => rw [hmm] at he; cases he
        | epsilon o c e =>
          intro habs
          have := congrArg List.length habs
          simp only [List.length_append, paretoPFs, hmm, List.length_map, List.length_nil] at this
          by_cases hc0 : c = 0 <;> simp [hc0] at this
      · intro habs
        have := congrArg List.length habs
        simp only [List.length_append, constraintPFs, group, List.length_map, List.length_nil] at this
        have : r.conIdx = [] := List.length_eq_zero_iff.mp (by omega)
        simp [this] at hc

/-! ### B. Shapes -/

/-- **plan_shapes.** In every GP of the plan points, values and variances are equally long; the number of
    rows is the observations kept plus one lie per pending point under constant liar (none under qEI);
    all observations are kept except in the acquisition GP of the epsilon phase, which keeps at least
    min(5, n) of them. -/
theorem plan_shapes (r : Request) (hw : r.wf = true) :
    ∀ g ∈ allGPs r,
      g.points.length = g.values.length ∧ g.values.length = g.vars.length ∧
      g.numLies = (if r.parallelism = .constantLiar then r.pending.length else 0) ∧
      ∃ kept, g.points.length = kept + g.numLies ∧ kept ≤ r.points.length ∧ min 5 r.points.length ≤ kept ∧
        ((isEpsilon r.mm = false ∨ g ∈ (pfs r).map (·.gp)) → kept = r.points.length) := by
  have h := wf_fields r hw
  have core : ∀ idx k mask, (mask = none ∨ ∃ o c e, r.mm = .epsilon o c e ∧ mask = some (epsilonMask r o c e)) →
      ∃ kept, (applyMask mask (sampledEnc r)).length = kept ∧ kept ≤ r.points.length ∧ min 5 r.points.length ≤ kept ∧
        (mask = none → kept = r.points.length) ∧
        (mkGP r (metricOf r idx k) mask).points.length = kept + (mkGP r (metricOf r idx k) mask).numLies := by
    intro idx k mask hmask
    have hL := (mkGP_lengths r h idx k mask).2.2.1
    refine ⟨_, rfl, ?_, ?_, ?_, hL⟩
    · rcases hmask with rfl | ⟨o, c, e, _, rfl⟩
      · simp only [applyMask]; rw [sampledEnc_length r h]
      · simp only [applyMask]
        exact le_trans (keepNot_length_le _ _) (le_of_eq (sampledEnc_length r h))
    · rcases hmask with rfl | ⟨o, c, e, _, rfl⟩
      · simp only [applyMask]; rw [sampledEnc_length r h]; omega
      · simp only [applyMask]
        rw [keepNot_length_count _ _ (by rw [sampledEnc_length r h, epsilonMask_length, h.values_len])]
        have := epsilonMask_min_success r o c e
        rwa [h.values_len] at this
    · rintro rfl
      simp only [applyMask]; exact sampledEnc_length r h
  intro g hg
  rcases List.mem_append.mp hg with hga | hgp
  · obtain ⟨k, hk, mask, rfl, hmask⟩ := afGPs_origin r h g hga
    obtain ⟨kept, _, h1, h2, h3, h4⟩ := core r.optIdx k mask hmask
    have hl := mkGP_lengths r h r.optIdx k mask
    refine ⟨hl.1, hl.2.1, hl.2.2.2, kept, h4, h1, h2, ?_⟩
    rintro (hne | hpf)
    · rcases hmask with rfl | ⟨o, c, e, hmm, _⟩
      · exact h3 rfl
      · rw [hmm] at hne; cases hne
    · -- the same GP also appears among the failure models: those are never filtered
      simp only [List.mem_map] at hpf
      obtain ⟨p, hp, hpe⟩ := hpf
      have hcount : (mkGP r (metricOf r r.optIdx k) mask).points.length = r.points.length +
          (mkGP r (metricOf r r.optIdx k) mask).numLies := by
        rw [← hpe]
        rcases pfs_origin r h p hp with ⟨_, _, k', _, he⟩ | ⟨_, k', _, he, _⟩
        · rw [he]
          have := (mkGP_lengths r h r.optIdx k' none).2.2.1
          simp only [applyMask] at this
          rw [this, sampledEnc_length r h]
        · rw [he]
          have := (mkGP_lengths r h r.conIdx k' none).2.2.1
          simp only [applyMask] at this
          rw [this, sampledEnc_length r h]
      omega
  · simp only [List.mem_map] at hgp
    obtain ⟨p, hp, rfl⟩ := hgp
    rcases pfs_origin r h p hp with ⟨_, _, k, _, he⟩ | ⟨_, k, _, he, _⟩
    · obtain ⟨kept, _, h1, h2, h3, h4⟩ := core r.optIdx k none (Or.inl rfl)
      have hl := mkGP_lengths r h r.optIdx k none
      rw [he]
      exact ⟨hl.1, hl.2.1, hl.2.2.2, kept, h4, h1, h2, fun _ => h3 rfl⟩
    · obtain ⟨kept, _, h1, h2, h3, h4⟩ := core r.conIdx k none (Or.inl rfl)
      have hl := mkGP_lengths r h r.conIdx k none
      rw [he]
      exact ⟨hl.1, hl.2.1, hl.2.2.2, kept, h4, h1, h2, fun _ => h3 rfl⟩

/-- **Lies come last**: every GP's rows are the kept observations followed by the lies — one per pending
    point under constant liar, located at the encoded pending points, valued with the scaled lie of the GP's
    metric and carrying the lie noise variance (1e-12); under qEI no lie is appended and the pending points go
    to the acquisition function instead (`Plan.pendingEnc`). -/
theorem plan_lies_last (r : Request) (hw : r.wf = true) :
    (∀ g ∈ allGPs r, ∃ (P : List (List Rat)) (V S : List Rat),
      P.length = V.length ∧ V.length = S.length ∧
      g.points = P ++ liePoints r ∧ g.values = V ++ List.replicate g.numLies g.lie ∧
      g.vars = S ++ List.replicate g.numLies lieNoise ∧ g.numLies = (liePoints r).length) ∧
    (liePoints r = if r.parallelism = .constantLiar then (plan r).pendingEnc else []) ∧
    (plan r).pendingEnc.length = r.pending.length ∧ (plan r).queries.length = r.queries.length := by
  have h := wf_fields r hw
  refine ⟨?_, ?_, pendingEnc_length r h, queryEnc_length r h⟩
  · intro g hg
    have key : ∀ idx, FromMetric r idx g → ∃ (P : List (List Rat)) (V S : List Rat),
        P.length = V.length ∧ V.length = S.length ∧
        g.points = P ++ liePoints r ∧ g.values = V ++ List.replicate g.numLies g.lie ∧
        g.vars = S ++ List.replicate g.numLies lieNoise ∧ g.numLies = (liePoints r).length := by
      rintro idx ⟨k, _, mask, rfl, _⟩
      refine ⟨applyMask mask (sampledEnc r), applyMask mask (metricOf r idx k).values,
        applyMask mask (metricOf r idx k).vars, ?_, ?_, rfl, rfl, rfl, rfl⟩
      · apply applyMask_length_eq
        rw [sampledEnc_length r h, metricOf_values_length, h.values_len]
      · apply applyMask_length_eq
        rw [metricOf_values_length, metricOf_vars_length, h.values_len, h.vars_len]
    rcases allGPs_origin r h g hg with ho | ho
    · exact key _ ho
    · exact key _ ho
  · simp only [liePoints, plan]
    cases r.parallelism <;> simp

/-! ### C. Columns -/

/-- **plan_columns.** The GP for stored metric `k = g.metric` is built from column `k` of the value and
    variance matrices, the failure mask, objective `k` and `hyperparameters[k]`, and from nothing else of
    the metric tables: it is the GP one would build if `k` were the only metric of its group; explicitly,
    with `i` the midpoint info of column `k` alone and `lie` its scaled constant-liar-min value,
    values = mask(overwrite-failures(scale(column k))) ++ lies, variances = mask(scaleVar(column k)) ++ lie noise,
    hyper = [α_k] ++ oneHot(lengthScales_k) ++ [taskLength_k], nugget = tikhonov_k. -/
theorem plan_columns (r : Request) (hw : r.wf = true) :
    ∀ g ∈ allGPs r, ∃ mask : Option (List Bool),
      g = mkGP r (metricOf r [g.metric] g.metric) mask ∧
      (let k := g.metric
       let i := C12.info (column k r.values) r.fails (objective r k)
       let lie := C12.fwd i (C12.lie (column k r.values) r.fails (objective r k) .cmin)
       g.lie = lie ∧
       g.values = applyMask mask (overwrite lie ((column k r.values).map (C12.fwd i)) r.fails)
                    ++ List.replicate g.numLies lie ∧
       g.vars = applyMask mask ((column k r.vars).map (C12.fwdVar i)) ++ List.replicate g.numLies lieNoise ∧
       ∃ hk : k < r.hypers.length,
         g.hyper = [r.hypers[k].alpha] ++ C09.lsToOneHot r.comps r.hypers[k].lengthScales
                     ++ r.hypers[k].taskLength.toList ∧
         g.tikhonov = r.hypers[k].tikhonov) := by
  have h := wf_fields r hw
  intro g hg
  have key : ∀ idx, (∀ k ∈ idx, k < r.objectives.length) → FromMetric r idx g → ∃ mask : Option (List Bool),
      g = mkGP r (metricOf r [g.metric] g.metric) mask ∧
      (let k := g.metric
       let i := C12.info (column k r.values) r.fails (objective r k)
       let lie := C12.fwd i (C12.lie (column k r.values) r.fails (objective r k) .cmin)
       g.lie = lie ∧
       g.values = applyMask mask (overwrite lie ((column k r.values).map (C12.fwd i)) r.fails)
                    ++ List.replicate g.numLies lie ∧
       g.vars = applyMask mask ((column k r.vars).map (C12.fwdVar i)) ++ List.replicate g.numLies lieNoise ∧
       ∃ hk : k < r.hypers.length,
         g.hyper = [r.hypers[k].alpha] ++ C09.lsToOneHot r.comps r.hypers[k].lengthScales
                     ++ r.hypers[k].taskLength.toList ∧
         g.tikhonov = r.hypers[k].tikhonov) := by
    rintro idx hidx ⟨k, hk, mask, rfl, _⟩
    have hkh : k < r.hypers.length := by rw [h.hyp_len]; exact hidx k hk
    have hho : hyperOf r k = r.hypers[k] := by
      simp [hyperOf, List.getD_eq_getElem?_getD, hkh]
    refine ⟨mask, ?_, ?_⟩
    · show mkGP r (metricOf r idx k) mask = mkGP r (metricOf r [k] k) mask
      rw [metricOf_frame r r idx [k] k rfl rfl rfl rfl rfl]
    · show (mkGP r (metricOf r idx k) mask).lie = _ ∧ _
      refine ⟨?_, ?_, ?_, hkh, ?_, ?_⟩
      · show (metricOf r idx k).lie = _
        rw [metricOf_lie]; rfl
      · show applyMask mask (metricOf r idx k).values ++ _ = _
        rw [metricOf_values, metricOf_lie]; rfl
      · show applyMask mask (metricOf r idx k).vars ++ _ = _
        rw [metricOf_vars]; rfl
      · show hyperVec r.comps (hyperOf r k) = _
        rw [hho]; rfl
      · show (hyperOf r k).tikhonov = _
        rw [hho]; rfl
  rcases allGPs_origin r h g hg with ho | ho
  · exact key _ h.opt_lt ho
  · exact key _ h.con_lt ho

/-- **Hyperparameter vector layout**: with fully specified length scales (one per one-hot coordinate) and a task
    length exactly when the request has tasks, the vector has one entry per coordinate of the model's input space
    plus the process variance: `[α] ++ one-hot length scales ++ [task length]`, `1 + dim_with_task` numbers. -/
theorem plan_hyper_length (r : Request) (hw : r.wf = true) :
    ∀ g ∈ allGPs r, ∀ hk : g.metric < r.hypers.length,
      C09.lsShapeOK r.comps r.hypers[g.metric].lengthScales = true →
      r.hypers[g.metric].taskLength.isSome = r.hasTasks →
      g.hyper.length = 1 + (plan r).dim := by
  intro g hg hk hls ht
  obtain ⟨mask, _, _, _, _, hk', hh, _⟩ := plan_columns r hw g hg
  rw [hh]
  simp only [List.length_append, List.length_cons, List.length_nil, lsToOneHot_length _ _ hls, plan, dimWithTask]
  cases hT : r.hypers[g.metric].taskLength <;> rw [hT] at ht <;> simp at ht <;> simp [← ht]
  all_goals omega

/-- **Frame form of plan_columns**: two requests that agree on column `k` of values and variances, on the
    failure mask, on objective `k` and on threshold `k` preprocess metric `k` identically — whatever the
    other columns, objectives, thresholds and the composition of the metric groups are. -/
theorem plan_columns_frame (r r' : Request) (idx idx' : List Nat) (k : Nat)
    (hv : column k r.values = column k r'.values) (hs : column k r.vars = column k r'.vars)
    (hf : r.fails = r'.fails) (ho : objective r k = objective r' k)
    (ht : r.thresholds.getD k none = r'.thresholds.getD k none) :
    metricOf r idx k = metricOf r' idx' k := metricOf_frame r r' idx idx' k hv hs hf ho ht

/-- The model's per-group normalisation info *is* `MultiMetricMidpointInfo` as modelled in C12 (and tied to
    data_containers.py there); its contagious skip flag never changes a metric's own info. -/
theorem plan_uses_multimetric_info (r : Request) (idx : List Nat) :
    (group r idx).map (·.info) =
      C12.multi (idx.map fun k => column k r.values) r.fails (idx.map fun k => objective r k) ∧
    ∀ k, metricInfo r idx k = rawInfo r k :=
  ⟨group_info_is_multi r idx, metricInfo_eq r idx⟩

/-! ### D. Lies, range, sign (inherited from C12) -/

/-- **plan_lie_is_worst.** In every GP no value exceeds the lie (after scaling smaller is better, so the
    lie is the worst value the GP sees); the lie is the scaled image of a non-failed raw value of that metric
    than which no non-failed raw value is worse in the user's sense (or the default lie when every
    observation failed). -/
theorem plan_lie_is_worst (r : Request) (hw : r.wf = true) :
    ∀ g ∈ allGPs r,
      (∀ v ∈ g.values, v ≤ g.lie) ∧
      g.lie = C12.fwd (rawInfo r g.metric) (C12.lieOf (nonFailed r g.metric) (objective r g.metric) .cmin) ∧
      (∀ x xs, nonFailed r g.metric = x :: xs →
        C12.lieOf (x :: xs) (objective r g.metric) .cmin ∈ x :: xs ∧
        ∀ v ∈ x :: xs, ¬ C12.better (objective r g.metric) (C12.lieOf (x :: xs) (objective r g.metric) .cmin) v) ∧
      (nonFailed r g.metric = [] → C12.lieOf (nonFailed r g.metric) (objective r g.metric) .cmin = C12.defaultLie) := by
  have h := wf_fields r hw
  intro g hg
  rcases allGPs_origin r h g hg with ⟨k, _, mask, rfl, _⟩ | ⟨k, _, mask, rfl, _⟩ <;>
  · refine ⟨?_, metricOf_lie r _ k, ?_, ?_⟩
    · intro v hv
      simp only [mkGP, List.mem_append, List.mem_replicate] at hv
      rcases hv with hv | ⟨_, rfl⟩
      · exact metricOf_le_lie r _ k (by rw [h.values_len, h.fails_len]) v (mem_applyMask _ _ _ hv)
      · exact le_refl _
    · intro x xs hnf
      show C12.lieOf (x :: xs) (objective r k) .cmin ∈ x :: xs ∧ _
      exact ⟨(C12.lie_is_worst x xs _).1, (C12.lie_is_worst x xs _).2.1⟩
    · intro hnf
      show C12.lieOf (nonFailed r k) (objective r k) .cmin = C12.defaultLie
      have hnf' : nonFailed r k = [] := hnf
      rw [hnf']; rfl

/-- **Failures carry exactly the lie** (all GPs that keep every observation, i.e. all but the epsilon-phase
    acquisition GP, which drops rows instead), and non-failed observations carry the scaled raw value. -/
theorem plan_failures_carry_lie (r : Request) (hw : r.wf = true) :
    ∀ g ∈ allGPs r, (isEpsilon r.mm = false ∨ g ∈ (pfs r).map (·.gp)) →
      ∀ i < r.points.length,
        (r.fails.getD i false = true → g.values.getD i 0 = g.lie) ∧
        (r.fails.getD i false = false →
          g.values.getD i 0 = C12.fwd (rawInfo r g.metric) ((r.values.getD i []).getD g.metric 0)) := by
  have h := wf_fields r hw
  intro g hg hun i hi
  have hiv : i < r.values.length := by rw [h.values_len]; exact hi
  have key : ∀ idx k, g = mkGP r (metricOf r idx k) none →
      (r.fails.getD i false = true → g.values.getD i 0 = g.lie) ∧
      (r.fails.getD i false = false →
        g.values.getD i 0 = C12.fwd (rawInfo r g.metric) ((r.values.getD i []).getD g.metric 0)) := by
    rintro idx k rfl
    have hget : (mkGP r (metricOf r idx k) none).values.getD i 0 = (metricOf r idx k).values.getD i 0 := by
      simp only [mkGP, applyMask, List.getD_eq_getElem?_getD]
      rw [List.getElem?_append_left (by rw [metricOf_values_length]; exact hiv)]
    constructor
    · intro hf
      rw [hget]; exact metricOf_failed_is_lie r idx k i hiv hf
    · intro hf
      rw [hget, metricOf_ok_is_fwd r idx k i hiv hf, column_getD]; rfl
  rcases hun with hne | hpf
  · rcases List.mem_append.mp hg with hga | hgp
    · obtain ⟨k, _, mask, he, hmask⟩ := afGPs_origin r h g hga
      rcases hmask with rfl | ⟨o, c, e, hmm, _⟩
      · exact key _ k he
      · rw [hmm] at hne; cases hne
    · simp only [List.mem_map] at hgp
      obtain ⟨p, hp, rfl⟩ := hgp
      rcases pfs_origin r h p hp with ⟨_, _, k, _, he⟩ | ⟨_, k, _, he, _⟩
      · exact key _ k he
      · exact key _ k he
  · simp only [List.mem_map] at hpf
    obtain ⟨p, hp, rfl⟩ := hpf
    rcases pfs_origin r h p hp with ⟨_, _, k, _, he⟩ | ⟨_, k, _, he, _⟩
    · exact key _ k he
    · exact key _ k he

/-- **plan_scaled_range.** For a non-degenerate metric (a non-failed value exists and the half-width of the
    non-failed values reaches 1e-8) every value of its GP — observations, overwritten failures, appended lies —
    lies in [-0.1, 0.1], and the lie is exactly 0.1. -/
theorem plan_scaled_range (r : Request) (hw : r.wf = true) :
    ∀ g ∈ allGPs r, NonDegenerate r g.metric →
      g.lie = 1 / 10 ∧ ∀ v ∈ g.values, -(1 / 10) ≤ v ∧ v ≤ 1 / 10 := by
  have h := wf_fields r hw
  intro g hg hnd
  have key : ∀ idx, FromMetric r idx g → g.lie = 1 / 10 ∧ ∀ v ∈ g.values, -(1 / 10) ≤ v ∧ v ≤ 1 / 10 := by
    rintro idx ⟨k, _, mask, rfl, _⟩
    have hr := metricOf_range r idx k (by rw [h.values_len, h.fails_len]) hnd
    refine ⟨hr.1, fun v hv => ?_⟩
    simp only [mkGP, List.mem_append, List.mem_replicate] at hv
    rcases hv with hv | ⟨_, rfl⟩
    · exact hr.2 v (mem_applyMask _ _ _ hv)
    · rw [hr.1]; constructor <;> norm_num
  rcases allGPs_origin r h g hg with ho | ho
  · exact key _ ho
  · exact key _ ho

/-- **plan_sign.** Between two non-failed observations the one that is better in the user's sense
    (larger under "maximize", smaller under "minimize") has the strictly smaller scaled value in every GP
    that keeps all observations — for every branch of the normalisation, degenerate ones included. -/
theorem plan_sign (r : Request) (hw : r.wf = true) :
    ∀ g ∈ allGPs r, (isEpsilon r.mm = false ∨ g ∈ (pfs r).map (·.gp)) →
      ∀ i < r.points.length, ∀ j < r.points.length,
        r.fails.getD i false = false → r.fails.getD j false = false →
        (C12.better (objective r g.metric) ((r.values.getD i []).getD g.metric 0) ((r.values.getD j []).getD g.metric 0)
          ↔ g.values.getD i 0 < g.values.getD j 0) := by
  intro g hg hun i hi j hj hfi hfj
  rw [((plan_failures_carry_lie r hw g hg hun i hi).2 hfi), ((plan_failures_carry_lie r hw g hg hun j hj).2 hfj),
    rawInfo_eq]
  exact C12.order_law _ _ _ _

/-! ### E. Encoding (inherited from C09) -/

/-- **plan_encoding_wf.** Every row of every GP is the one-hot encoding of an observed or pending
    configuration, every query row that of a query configuration; a row has `dim_with_task` coordinates:
    the C09 encoding of the configuration (every categorical block an indicator vector, hence on the lattice
    when the configuration is in the domain) followed by the task cost exactly when the request has tasks. -/
theorem plan_encoding_wf (r : Request) (hw : r.wf = true) :
    (∀ g ∈ allGPs r, ∀ x ∈ g.points, EncodedFrom r (r.points ++ r.pending) x) ∧
    (∀ x ∈ (plan r).queries, EncodedFrom r r.queries x) ∧
    (∀ x ∈ (plan r).pendingEnc, EncodedFrom r r.pending x) ∧
    (∀ src x, (∀ p ∈ src, p.length = r.comps.length) → EncodedFrom r src x →
      x.length = (plan r).dim ∧
      ∃ cfg ∈ src, x.take (totalWidth r.comps) = encode r.comps cfg ∧
        (x.drop (totalWidth r.comps)).length = (if r.hasTasks then 1 else 0) ∧
        (r.comps.all Component.wf = true → inBox r.comps cfg = true →
          C09.onLattice r.comps (x.take (totalWidth r.comps)) = true)) := by
  have h := wf_fields r hw
  have widen : ∀ (a b : List (List Rat)) x, (EncodedFrom r a x ∨ EncodedFrom r b x) → EncodedFrom r (a ++ b) x := by
    rintro a b x (⟨cfg, hc, t, ht, he⟩ | ⟨cfg, hc, t, ht, he⟩)
    · exact ⟨cfg, List.mem_append_left _ hc, t, ht, he⟩
    · exact ⟨cfg, List.mem_append_right _ hc, t, ht, he⟩
  refine ⟨?_, queryEnc_encoded r h, pendingEnc_encoded r h, ?_⟩
  · intro g hg x hx
    have key : ∀ idx, FromMetric r idx g → EncodedFrom r (r.points ++ r.pending) x := by
      rintro idx ⟨k, _, mask, rfl, _⟩
      simp only [mkGP, List.mem_append] at hx
      rcases hx with hx | hx
      · exact widen _ _ _ (Or.inl (sampledEnc_encoded r h x (mem_applyMask _ _ _ hx)))
      · exact widen _ _ _ (Or.inr (liePoints_encoded r h x hx))
    rcases allGPs_origin r h g hg with ho | ho
    · exact key _ ho
    · exact key _ ho
  · rintro src x hsrc ⟨cfg, hc, t, ht, rfl⟩
    have hlen := C09.encode_width r.comps cfg (hsrc cfg hc)
    cases t with
    | none =>
      have hh : r.hasTasks = false := by simpa using ht.symm
      refine ⟨by simp [encodeWithTask, plan, dimWithTask, hlen, hh], cfg, hc, ?_, ?_, ?_⟩
      · simp [encodeWithTask, ← hlen]
      · simp [encodeWithTask, ← hlen, hh]
      · intro hcw hbox
        simp only [encodeWithTask, ← hlen, List.take_length]
        exact C09.encode_on_lattice r.comps cfg hcw hbox
    | some t =>
      have hh : r.hasTasks = true := by simpa using ht.symm
      refine ⟨by simp [encodeWithTask, plan, dimWithTask, hlen, hh], cfg, hc, ?_, ?_, ?_⟩
      · simp [encodeWithTask, ← hlen]
      · simp [encodeWithTask, ← hlen, hh]
      · intro hcw hbox
        simp only [encodeWithTask, ← hlen, List.take_left']
        exact C09.encode_on_lattice r.comps cfg hcw hbox

/-! ### F. Acquisition function, failure models, thresholds -/

/-- **plan_af_choice.** The decision table of `form_acquisition_function` / `view`:
    augmented EI ⇔ mean noise variance of the predictor above the threshold (1e-7) and no failure model and not
    parallel; plain EI ⇔ none of the three; a failure model multiplies in ⇔ epsilon phase or constraint
    metrics; parallel (q)EI ⇔ pending points exist and parallelism is qEI; the value is divided by the task
    cost ⇔ the request has tasks (then the kernel is the multitask tensor kernel); parallel evaluation caps the
    batch at 100. -/
theorem plan_af_choice (r : Request) :
    ((plan r).af = .aei ↔ (aeiThreshold < (plan r).meanNoise ∧ usePF r = false ∧ useQei r = false)) ∧
    ((plan r).af = .ei ↔ (¬ aeiThreshold < (plan r).meanNoise ∧ usePF r = false ∧ useQei r = false)) ∧
    (((plan r).af = .eiPf ∨ (plan r).af = .qeiPf) ↔ usePF r = true) ∧
    (((plan r).af = .qei ∨ (plan r).af = .qeiPf) ↔ useQei r = true) ∧
    (usePF r = true ↔ (isEpsilon r.mm = true ∨ r.conIdx ≠ [])) ∧
    (useQei r = true ↔ (0 < r.pending.length ∧ r.parallelism = .qei)) ∧
    ((plan r).costDivide = r.hasTasks ∧ (plan r).multitaskKernel = r.hasTasks) ∧
    ((plan r).batch = if useQei r then min r.maxSimultaneous 100 else r.maxSimultaneous) := by
  refine ⟨?_, ?_, ?_, ?_, ?_, ?_, ⟨rfl, rfl⟩, rfl⟩
  · simp only [plan, afKind]
    cases useQei r <;> cases usePF r <;> simp
  · simp only [plan, afKind]
    cases useQei r <;> cases usePF r <;> simp
  · simp only [plan, afKind]
    cases useQei r <;> cases usePF r <;> simp
    split_ifs <;> simp
  · simp only [plan, afKind]
    cases useQei r <;> cases usePF r <;> simp
    split_ifs <;> simp
  · simp only [usePF, Bool.or_eq_true, Bool.not_eq_true', List.isEmpty_eq_false_iff]
  · simp only [useQei, Bool.and_eq_true, decide_eq_true_eq]

/-- **Failure-model kinds**: the models are the epsilon-phase ones (logistic, on optimised metrics, only in the
    epsilon phase) followed by one CDF model per constraint metric, in the order of `constraint_metrics_index`. -/
theorem plan_pf_kinds (r : Request) (hw : r.wf = true) :
    (plan r).pfs = (if usePF r then paretoPFs r ++ constraintPFs r else []) ∧
    (∀ p ∈ paretoPFs r, p.kind = .logistic ∧ isEpsilon r.mm = true ∧ p.gp.metric ∈ r.optIdx) ∧
    (constraintPFs r).map (·.gp.metric) = r.conIdx ∧
    (∀ p ∈ constraintPFs r, p.kind = .cdf) := by
  have h := wf_fields r hw
  refine ⟨rfl, ?_, ?_, ?_⟩
  · intro p hp
    by_cases hu : usePF r = true
    · have hp' : p ∈ pfs r := by rw [pfs, if_pos hu]; exact List.mem_append_left _ hp
      rcases pfs_origin r h p hp' with ⟨h1, h2, k, hk, he⟩ | ⟨h1, _⟩
      · exact ⟨h1, h2, by rw [he]; exact hk⟩
      · -- a pareto PF is logistic by construction
        exfalso
        unfold paretoPFs at hp
        cases hmm : r.mm with
        | none => rw [hmm] at hp; cases hp
        | oneMetric o c => rw [hmm] at hp; cases hp
        | convex w => rw [hmm] at hp; cases hp
        | epsilon o c e =>
          rw [hmm] at hp
          simp only [List.mem_append, List.mem_map] at hp
          rcases hp with ⟨t, _, rfl⟩ | ⟨t, _, rfl⟩ <;> cases h1
    · exfalso
      simp only [usePF, Bool.or_eq_true, not_or, Bool.not_eq_true] at hu
      unfold paretoPFs at hp
      cases hmm : r.mm with
      | none => rw [hmm] at hp; cases hp
      | oneMetric o c => rw [hmm] at hp; cases hp
      | convex w => rw [hmm] at hp; cases hp
      | epsilon o c e => rw [hmm] at hu; simp [isEpsilon] at hu
  · simp only [constraintPFs, group, List.map_map]
    conv_rhs => rw [← List.map_id r.conIdx]
    apply List.map_congr_left
    intro k _
    rfl
  · intro p hp
    simp only [constraintPFs, List.mem_map] at hp
    obtain ⟨mt, _, rfl⟩ := hp
    rfl

/-- **plan_thresholds_scaled.** The threshold of the CDF failure model of constraint metric `k` is the user's
    threshold pushed through the same affine map as the metric's values; consequently a raw value is better
    than the user's threshold iff its scaled image is below the scaled threshold (the event whose
    probability the model computes). -/
theorem plan_thresholds_scaled (r : Request) (hw : r.wf = true) :
    ∀ p ∈ constraintPFs r, ∃ t, r.thresholds.getD p.gp.metric none = some t ∧
      p.gp.metric ∈ r.conIdx ∧
      p.threshold = C12.fwd (rawInfo r p.gp.metric) t ∧
      ∀ v, (C12.better (objective r p.gp.metric) v t ↔ C12.fwd (rawInfo r p.gp.metric) v < p.threshold) := by
  have h := wf_fields r hw
  intro p hp
  simp only [constraintPFs, group, List.map_map, List.mem_map, Function.comp] at hp
  obtain ⟨k, hk, rfl⟩ := hp
  have hsome := h.con_thr k hk
  obtain ⟨t, ht⟩ := Option.isSome_iff_exists.mp hsome
  refine ⟨t, ht, hk, ?_, ?_⟩
  · show ((metricOf r r.conIdx k).threshold).getD 0 = _
    rw [metricOf_threshold, ht]; rfl
  · intro v
    show _ ↔ _ < ((metricOf r r.conIdx k).threshold).getD 0
    rw [metricOf_threshold, ht, rawInfo_eq]
    exact C12.order_law _ _ _ _

/-- **Epsilon-phase thresholds**: the model on the phase's constrained metric gets the epsilon-constraint value
    of the scaled optimised metrics (C13, with the user's scaled thresholds or NaN); the other optimised metric
    gets a model only when the user gave both thresholds, with its own scaled threshold. -/
theorem plan_epsilon_thresholds (r : Request) (o c : Nat) (e : Rat) (hmm : r.mm = .epsilon o c e) :
    let g := group r r.optIdx
    let m0 := g.getD 0 defaultMetric
    let m1 := g.getD 1 defaultMetric
    let cthr := C13.epsValue e c (afRows r) (thrOf m0.threshold) (thrOf m1.threshold)
    let both := m0.threshold.isSome && m1.threshold.isSome && g.length == 2
    (paretoPFs r).map (fun p => (p.gp.metric, p.threshold)) =
      (if c = 0 then [(m0.index, cthr)] else if both then [(m0.index, m0.threshold.getD 0)] else []) ++
      (if c = 0 then (if both then [(m1.index, m1.threshold.getD 0)] else []) else [(m1.index, cthr)]) := by
  simp only [paretoPFs, hmm]
  by_cases hc : c = 0
  · simp only [hc, if_true]
    cases h0 : ((group r r.optIdx).getD 0 defaultMetric).threshold <;>
      cases h1 : ((group r r.optIdx).getD 1 defaultMetric).threshold <;>
      by_cases hl : (group r r.optIdx).length = 2 <;> simp [hl, mkGP]
  · simp only [hc, if_false]
    cases h0 : ((group r r.optIdx).getD 0 defaultMetric).threshold <;>
      cases h1 : ((group r r.optIdx).getD 1 defaultMetric).threshold <;>
      by_cases hl : (group r r.optIdx).length = 2 <;> simp [hl, mkGP]

/-- **The epsilon threshold never exceeds the lie** of the constrained metric (it is a convex combination of
    scaled observed values of that metric, C13), so the logistic failure model's threshold lies within the
    range of the values its GP sees. -/
theorem plan_epsilon_threshold_le_lie (r : Request) (hw : r.wf = true) (o c : Nat) (e : Rat)
    (hmm : r.mm = .epsilon o c e) (hn : 0 < r.points.length) (t0 t1 : C13.Thr) :
    ∃ k ∈ r.optIdx, (group r r.optIdx).getD c defaultMetric = metricOf r r.optIdx k ∧
      C13.epsValue e c (afRows r) t0 t1 ≤ (metricOf r r.optIdx k).lie := by
  have h := wf_fields r hw
  have hm := h.mm
  unfold mmOK at hm
  rw [hmm] at hm
  simp only [Bool.and_eq_true, decide_eq_true_eq] at hm
  obtain ⟨⟨⟨⟨hlen, _⟩, hc⟩, he0⟩, he1⟩ := hm
  obtain ⟨k, hk, hek⟩ := getD_map_mem (metricOf r r.optIdx) r.optIdx c defaultMetric (by omega)
  refine ⟨k, hk, hek, ?_⟩
  have hglen : (group r r.optIdx).length = 2 := by simp [group, hlen]
  have hrows : afRows r ≠ [] := by
    intro hnil
    have hl : (afRows r).length = r.points.length := by simp [afRows, rowsOf, h.values_len]
    rw [hnil] at hl
    simp at hl
    omega
  have hrect : ∀ row ∈ afRows r, row.length = 2 := by
    intro row hrow
    simp only [afRows, rowsOf, List.mem_map, List.mem_range] at hrow
    obtain ⟨i, _, rfl⟩ := hrow
    simp [hglen]
  have hhi : ∀ row ∈ afRows r, C13.at' row c ≤ (metricOf r r.optIdx k).lie := by
    intro row hrow
    simp only [afRows, rowsOf, List.mem_map, List.mem_range] at hrow
    obtain ⟨i, hi, rfl⟩ := hrow
    have hcg : c < (group r r.optIdx).length := by omega
    have : C13.at' ((group r r.optIdx).map fun mt => mt.values.getD i 0) c
        = ((group r r.optIdx).getD c defaultMetric).values.getD i 0 := by
      simp [C13.at', List.getD_eq_getElem?_getD, hcg]
    rw [this]
    change ((group r r.optIdx).getD c defaultMetric).values.getD i 0 ≤ _
    have hek' : (group r r.optIdx).getD c defaultMetric = metricOf r r.optIdx k := hek
    rw [hek']
    apply metricOf_le_lie r r.optIdx k (by rw [h.values_len, h.fails_len])
    have hiv : i < (metricOf r r.optIdx k).values.length := by rw [metricOf_values_length]; exact hi
    rw [List.getD_eq_getElem?_getD, List.getElem?_eq_getElem hiv]
    exact List.getElem_mem hiv
  have hlo : ∀ row ∈ afRows r, (C13.col c (afRows r)).foldl min 0 ≤ C13.at' row c := by
    intro row hrow
    apply Proofs.foldl_min_le_mem
    simp only [C13.col, List.mem_map]
    exact ⟨row, hrow, rfl⟩
  exact (C13.epsValue_in_range e c (afRows r) t0 t1 _ _ hrows hrect (le_of_lt he0) (le_of_lt he1) hlo hhi).2

/-! ### G. The third-party sort in the minimum-success repair -/

/-- Whatever rows the (unstable) `numpy.argsort` hands back, the model uses a *legal* choice: distinct
    failed rows, as many as needed, none with a larger optimised value than a failure left behind; the
    stable-sort choice of the C13 model is one of them, and every legal choice leaves at least min(5, n) rows
    in the epsilon-phase acquisition GP. -/
theorem plan_sort_oracle (r : Request) (o c : Nat) (e : Rat) :
    legalChoice (C13.col o (afRows r)) (epsilonLabels r c e) (epsilonChosen r o c e) = true ∧
    legalChoice (C13.col o (afRows r)) (epsilonLabels r c e)
      (C13.forcedIndices (C13.col o (afRows r)) (epsilonLabels r c e)) = true ∧
    (r.forceChosen = none → epsilonMask r o c e = C13.labelAndForce e c o (afRows r) r.fails) ∧
    min 5 r.values.length ≤ (epsilonMask r o c e).count false :=
  ⟨epsilonChosen_legal r o c e, default_choice_legal _ _,
    fun hn => by simp [epsilonMask, epsilonChosen, hn, C13.labelAndForce, forceMinSuccess_eq_forceWith, epsilonLabels],
    epsilonMask_min_success r o c e⟩

/-! ### Non-vacuity: concrete requests meeting the hypotheses -/

/-- two stored metrics (one optimised, one constraint), a categorical and a double parameter, one failure,
    one pending point under constant liar, tasks -/
def exReq : Request :=
  { comps := [.cat [1, 3], .double 0 1],
    points := [[1, 1 / 2], [3, 1 / 4], [3, 3 / 4]],
    values := [[1, 10], [2, 30], [5, 20]],
    vars := [[0, 0], [1 / 100, 0], [0, 0]],
    fails := [false, false, true],
    taskCosts := some [1, 1 / 2, 1],
    objectives := [.maximize, .minimize],
    optIdx := [1], conIdx := [0],
    thresholds := [some (3 / 2), none],
    hypers := [⟨1 / 10, [[some 1, some 2], [some (1 / 2)]], none, some (1 / 5)⟩,
               ⟨1 / 20, [[some 3, some 4], [some (1 / 3)]], some (1 / 1000), some (1 / 4)⟩],
    mean := .constant, pending := [[1, 1 / 8]], pendingTasks := some [1], queries := [[3, 1 / 2]],
    queryTasks := some [1 / 2], parallelism := .constantLiar, hasTasks := true, maxSimultaneous := 5,
    mm := .none, forceChosen := none }

example : exReq.wf = true := by decide
example : NonDegenerate exReq 1 := by
  norm_num [NonDegenerate, nonFailed, exReq, column, C12.nonFail, C12.lmax, C12.lmin, C12.minHalfWidth]
example : (plan exReq).af = .eiPf := by decide
example : ((plan exReq).gps.map (·.metric), (plan exReq).pfs.map (·.gp.metric)) = ([1], [0]) := by decide

/-- a two-metric request in the epsilon phase -/
def exReq2 : Request :=
  { exReq with optIdx := [1, 0], conIdx := [], mm := .epsilon 0 1 (1 / 2), parallelism := .qei }

example : exReq2.wf = true := by
  simp only [Request.wf, exReq2, exReq, mmOK, tasksOK]
  norm_num
example : usePF exReq2 = true ∧ useQei exReq2 = true := by decide

end C06
