-- generated: Spe
/-
  C16 — tie of the model's improvement ratio to the expression the translator regenerates from the current source of
  `SigOptParzenEstimator.evaluate_expected_improvement` (third element of the returned tuple; Generated/Spe.lean).
  `rfl` first, field arithmetic as fall-back (commuted / re-associated source still checks).
-/
import Properties.C16
import Model.Generated.Spe

set_option linter.unusedTactic false
set_option linter.unreachableTactic false

namespace C16

theorem ratio_eq_generated (γ l g : ℝ) : ratio γ l g = Gen.spe_ratio g l γ := by
  first
    | rfl
    | (simp only [ratio, Gen.spe_ratio] <;> first | rfl | ring1 | (congr 1; ring1) | (congr 2; ring1))

/-- the ratio the source computes lies in (0, 1/γ] and reaches 1/γ exactly when the greater density vanishes -/
theorem gen_ratio_range (γ l g : ℝ) (h0 : 0 < γ) (h1 : γ < 1) (hg : 0 ≤ g) (hl : 0 < l) :
    0 < Gen.spe_ratio g l γ ∧ Gen.spe_ratio g l γ ≤ 1 / γ ∧ (Gen.spe_ratio g l γ = 1 / γ ↔ g = 0) := by
  rw [← ratio_eq_generated]
  exact ratio_range γ l g h0 h1 hg hl

example : Gen.spe_ratio (0 : ℝ) 1 (1 / 4) = 4 := by
  simp only [Gen.spe_ratio]; norm_num

end C16
