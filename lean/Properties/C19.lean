/-
  C19 — Search acquisition is a success probability that vanishes near known points.

  Property theorems about the exact model of Model/C19.lean (helper lemmas: Proofs/C19.lean; the optimisation
  loop is the one of Model/C15.lean and its theorems are reused from Properties/C15.lean).
  All statements are for ALL domains (component lists), repulsor sets, radii, points, targets `t`, success
  probabilities `p`, batch sizes, optimisers (`pick`) and redrawn radii; hypotheses appear only where the code
  itself asserts (row length = one-hot dimension, batch size > 0) or where the clause needs them (`lo < hi`).
-/
import Proofs.C19
import Properties.C15
import Mathlib.Analysis.Real.Sqrt

namespace C19
open Dom C09

/-! ### 1. The value: success probability, or exactly 0 inside the radius of any repulsor -/

/-- the value is the success probability or 0, hence in [0,1] whenever the success probability is -/
theorem value_range (p : Rat) (reps : List (List Rat)) (r2 : Rat) (sx : List Rat) (h0 : 0 ≤ p) (h1 : p ≤ 1) :
    0 ≤ value p reps r2 sx ∧ value p reps r2 sx ≤ 1 := by
  unfold value
  split
  · exact ⟨le_refl _, by norm_num⟩
  · exact ⟨h0, h1⟩

/-- exactly 0 as soon as ONE repulsor is strictly inside the radius (squared distance < distance_parameter) -/
theorem value_zero_inside (p : Rat) (reps : List (List Rat)) (r2 : Rat) (sx rep : List Rat)
    (hm : rep ∈ reps) (hd : dist2 rep sx < r2) : value p reps r2 sx = 0 := by
  unfold value similar
  rw [if_pos]
  exact List.any_eq_true.mpr ⟨rep, hm, by simpa using hd⟩

/-- equal to the success probability when every repulsor is at squared distance ≥ the radius (the comparison
    in the code is strict, so a point exactly ON the radius keeps its probability) -/
theorem value_eq_p_outside (p : Rat) (reps : List (List Rat)) (r2 : Rat) (sx : List Rat)
    (h : ∀ rep ∈ reps, r2 ≤ dist2 rep sx) : value p reps r2 sx = p := by
  unfold value similar
  rw [if_neg]
  intro hs
  obtain ⟨rep, hm, hd⟩ := List.any_eq_true.mp hs
  have := h rep hm
  simp only [decide_eq_true_eq] at hd
  linarith

/-- for a non-zero success probability the value vanishes exactly inside the radius of some repulsor -/
theorem value_zero_iff (p : Rat) (reps : List (List Rat)) (r2 : Rat) (sx : List Rat) (hp : p ≠ 0) :
    value p reps r2 sx = 0 ↔ ∃ rep ∈ reps, dist2 rep sx < r2 := by
  constructor
  · intro hv
    by_contra hne
    push Not at hne
    rw [value_eq_p_outside p reps r2 sx hne] at hv
    exact hp hv
  · rintro ⟨rep, hm, hd⟩
    exact value_zero_inside p reps r2 sx rep hm hd

theorem value_no_repulsors (p r2 : Rat) (sx : List Rat) : value p [] r2 sx = p := by
  simp [value, similar]

/-- a non-positive `distance_parameter` never zeroes anything -/
theorem value_radius_nonpos (p : Rat) (reps : List (List Rat)) (r2 : Rat) (sx : List Rat) (hr : r2 ≤ 0) :
    value p reps r2 sx = p :=
  value_eq_p_outside p reps r2 sx fun rep _ => le_trans hr (dist2_nonneg rep sx)

/-- at a repulsor itself the value is 0 for every positive radius -/
theorem value_at_repulsor (p : Rat) (reps : List (List Rat)) (r2 : Rat) (sx : List Rat) (hr : 0 < r2)
    (hm : sx ∈ reps) : value p reps r2 sx = 0 :=
  value_zero_inside p reps r2 sx sx hm (by rw [dist2_self]; exact hr)

/-- adding repulsors can only zero further points; everything else is untouched -/
theorem value_add_repulsors (p : Rat) (reps more : List (List Rat)) (r2 : Rat) (sx : List Rat) :
    value p (reps ++ more) r2 sx = if similar more r2 sx then 0 else value p reps r2 sx := by
  unfold value similar
  rw [List.any_append]
  cases h1 : (reps.any fun rep => decide (dist2 rep sx < r2)) <;>
    cases h2 : (more.any fun rep => decide (dist2 rep sx < r2)) <;> simp

/-- The distance the code computes (expanded form `|u|² + |w|² − 2u·w`, clamped at 0) is, in exact arithmetic,
    the squared Euclidean distance; the clamp never acts. -/
theorem dist2_is_squared_euclidean (x z : List Rat) (h : x.length = z.length) : dist2 x z = sqDist x z :=
  dist2_eq_sqDist x z h

theorem dist2_symm (x z : List Rat) (h : x.length = z.length) : dist2 x z = dist2 z x := dist2_comm x z h

/-! ### 2. Unit-cube maps -/

/-- to the unit cube and back is the identity (any bounds with `lo < hi`, rows of the right length) -/
theorem unit_roundtrip (bs : List (Rat × Rat)) (x : List Rat) (hb : boundsOK bs = true) (hl : x.length = bs.length) :
    fromUnit bs (toUnit bs x) = x := fromUnit_toUnit bs x hb hl

/-- … and conversely -/
theorem unit_roundtrip_inv (bs : List (Rat × Rat)) (u : List Rat) (hb : boundsOK bs = true)
    (hl : u.length = bs.length) : toUnit bs (fromUnit bs u) = u := toUnit_fromUnit bs u hb hl

/-- the bounds of the one-hot domain of a well-formed component list all satisfy `lo < hi`
    (doubles/ints by `lo < hi`, quantized by ≥ 2 distinct elements, categoricals (0,1)) -/
theorem domain_bounds_ok (cs : List Component) (hw : cs.all Component.wf = true) :
    boundsOK (relaxedBox cs) = true := boundsOK_relaxedBox cs hw

theorem unit_roundtrip_domain (cs : List Component) (x : List Rat) (hw : cs.all Component.wf = true)
    (hl : x.length = totalWidth cs) : fromUnit (relaxedBox cs) (toUnit (relaxedBox cs) x) = x :=
  fromUnit_toUnit _ x (boundsOK_relaxedBox cs hw) (by rw [hl, relaxedBox_length])

theorem unit_roundtrip_domain_inv (cs : List Component) (u : List Rat) (hw : cs.all Component.wf = true)
    (hl : u.length = totalWidth cs) : toUnit (relaxedBox cs) (fromUnit (relaxedBox cs) u) = u :=
  toUnit_fromUnit _ u (boundsOK_relaxedBox cs hw) (by rw [hl, relaxedBox_length])

/-- every coordinate of an in-box point lands in [0,1] -/
theorem unit_coords_in_unit_interval (cs : List Component) (x : List Rat) (hw : cs.all Component.wf = true)
    (hx : withinBounds (relaxedBox cs) x = true) : ∀ u ∈ toUnit (relaxedBox cs) x, 0 ≤ u ∧ u ≤ 1 :=
  toUnit_mem_unit _ x (boundsOK_relaxedBox cs hw) hx

/-- bounds are mapped to 0 and 1 -/
theorem unit_endpoints (b : Rat × Rat) (h : b.1 < b.2) : toUnit1 b b.1 = 0 ∧ toUnit1 b b.2 = 1 := by
  unfold toUnit1
  have : b.2 - b.1 ≠ 0 := (sub_pos.mpr h).ne'
  constructor
  · simp
  · exact div_self this

/-! ### 3. Search coordinates -/

theorem search_length (cs : List Component) (t : Rat) (x : List Rat) (hl : x.length = totalWidth cs) :
    (toSearch cs t x).length = totalWidth cs := toSearch_length cs t x hl

/-- in the search space every coordinate of an in-box point is in [0,1] (numeric coordinates, and the zeros of
    the categorical blocks) or equals the target `t` -/
theorem search_coords : ∀ (cs : List Component) (t : Rat) (x : List Rat), cs.all Component.wf = true →
    withinBounds (relaxedBox cs) x = true → x.length = totalWidth cs →
    ∀ v ∈ toSearch cs t x, (0 ≤ v ∧ v ≤ 1) ∨ v = t
  | [], t, x, _, _, _, v, hv => by simp [toSearch_nil] at hv
  | c :: cs, t, x, hw, hx, hl, v, hv => by
    simp only [List.all_cons, Bool.and_eq_true] at hw
    rw [toSearch_cons t c cs x hl, List.mem_append] at hv
    have hsplit := withinBounds_take c.bounds (relaxedBox cs) x (by simpa [relaxedBox] using hx)
    rw [bounds_length] at hsplit
    rcases hv with hv | hv
    · exact searchBlock_coords t c _ (boundsOK_of_wf hw.1) hsplit.1 v hv
    · exact search_coords cs t _ hw.2 hsplit.2 (drop_width_length hl) v hv

/-- Exact decomposition of the squared search distance between two one-hot points: the numeric coordinates
    contribute their squared unit-cube differences, every categorical component whose arg-max differs
    contributes exactly `2·t²`, categorical components with the same arg-max contribute nothing. -/
theorem search_dist_decomposition (cs : List Component) (t : Rat) (x y : List Rat)
    (hx : x.length = totalWidth cs) (hy : y.length = totalWidth cs) :
    dist2 (toSearch cs t x) (toSearch cs t y) = numericSq cs x y + 2 * (t * t) * (numDiffer cs x y : Nat) := by
  rw [dist2_eq_sqDist _ _ (by rw [toSearch_length cs t x hx, toSearch_length cs t y hy])]
  exact search_sqDist cs t x y hx hy

/-- Category separation as the code gives it: points whose arg-max category differs in some categorical
    component are at squared search distance ≥ 2·t² (t = the target written into the block). -/
theorem category_separation (cs : List Component) (t : Rat) (x y : List Rat)
    (hx : x.length = totalWidth cs) (hy : y.length = totalWidth cs) (hd : catDiffer cs x y = true) :
    2 * (t * t) ≤ dist2 (toSearch cs t x) (toSearch cs t y) := by
  rw [search_dist_decomposition cs t x y hx hy]
  have h1 := (catDiffer_iff_numDiffer cs x y).mp hd
  have h2 := numericSq_nonneg cs x y
  have h3 : (1 : Rat) ≤ ((numDiffer cs x y : Nat) : Rat) := by exact_mod_cast h1
  nlinarith [mul_self_nonneg t]

/-- With the library's target (`t = numpy.sqrt(one_hot_dim)`, any rounding of it with `d ≤ 2·t²`) differing
    categories are at squared distance ≥ d = one-hot dimension … -/
theorem category_separation_dim (cs : List Component) (t : Rat) (x y : List Rat)
    (hx : x.length = totalWidth cs) (hy : y.length = totalWidth cs) (hd : catDiffer cs x y = true)
    (ht : (totalWidth cs : Rat) ≤ 2 * (t * t)) :
    (totalWidth cs : Rat) ≤ dist2 (toSearch cs t x) (toSearch cs t y) :=
  le_trans ht (category_separation cs t x y hx hy hd)

/-- … i.e. at Euclidean distance ≥ √(one-hot dimension), as the property says; the code in fact gives √2·t. -/
theorem category_separation_sqrt (cs : List Component) (t : Rat) (x y : List Rat)
    (hx : x.length = totalWidth cs) (hy : y.length = totalWidth cs) (hd : catDiffer cs x y = true)
    (ht : (totalWidth cs : Rat) ≤ 2 * (t * t)) :
    Real.sqrt (totalWidth cs : ℝ) ≤ Real.sqrt ((dist2 (toSearch cs t x) (toSearch cs t y) : Rat) : ℝ) := by
  apply Real.sqrt_le_sqrt
  have := category_separation_dim cs t x y hx hy hd ht
  exact_mod_cast this

/-- if `t` is an exact square root of the one-hot dimension the bound is `2·d` -/
theorem category_separation_exact (cs : List Component) (t : Rat) (x y : List Rat)
    (hx : x.length = totalWidth cs) (hy : y.length = totalWidth cs) (hd : catDiffer cs x y = true)
    (ht : t * t = (totalWidth cs : Rat)) :
    2 * (totalWidth cs : Rat) ≤ dist2 (toSearch cs t x) (toSearch cs t y) := by
  rw [← ht]
  exact category_separation cs t x y hx hy hd

/-- points with the same arg-max category everywhere are separated by their numeric coordinates only -/
theorem same_category_distance (cs : List Component) (t : Rat) (x y : List Rat)
    (hx : x.length = totalWidth cs) (hy : y.length = totalWidth cs) (hd : catDiffer cs x y = false) :
    dist2 (toSearch cs t x) (toSearch cs t y) = numericSq cs x y := by
  rw [search_dist_decomposition cs t x y hx hy]
  have h1 : ¬ 1 ≤ numDiffer cs x y := fun h => by
    have := (catDiffer_iff_numDiffer cs x y).mpr h
    simp [hd] at this
  have h0 : numDiffer cs x y = 0 := by omega
  simp [h0]

theorem width_pos_of_wf {c : Component} (h : c.wf = true) : 1 ≤ c.width := by
  cases c with
  | cat es =>
    simp only [Component.wf, Bool.and_eq_true, decide_eq_true_eq] at h
    simp only [Component.width]
    omega
  | double lo hi => simp [Component.width]
  | int lo hi => simp [Component.width]
  | grid es => simp [Component.width]

theorem dim_le_one_hot_dim : ∀ (cs : List Component), cs.all Component.wf = true → cs.length ≤ totalWidth cs
  | [], _ => le_refl _
  | c :: cs, h => by
    simp only [List.all_cons, Bool.and_eq_true] at h
    have := width_pos_of_wf h.1
    have := dim_le_one_hot_dim cs h.2
    simp only [List.length_cons, totalWidth]
    omega

theorem schedule_le (dim i : Nat) : distanceParameter dim i ≤ (dim : Rat) * (4 / 100) := by
  unfold distanceParameter scheduleValues
  have hd : (0 : Rat) ≤ dim := by exact_mod_cast Nat.zero_le dim
  apply mul_le_mul_of_nonneg_left _ hd
  match i with
  | 0 => norm_num [List.getD]
  | 1 => norm_num [List.getD]
  | 2 => norm_num [List.getD]
  | 3 => norm_num [List.getD]
  | _ + 4 => norm_num [List.getD]

/-- With a radius from the library's schedule (`dim · c`, c ≤ 0.04, dim = number of parameters ≤ one-hot
    dimension) a repulsor of a different category never zeroes a point: the zeroing is confined to the
    repulsor's own category combination. -/
theorem schedule_radius_below_separation (cs : List Component) (t : Rat) (x rep : List Rat) (i : Nat)
    (hw : cs.all Component.wf = true) (hx : x.length = totalWidth cs) (hr : rep.length = totalWidth cs)
    (hd : catDiffer cs rep x = true) (ht : (totalWidth cs : Rat) ≤ 2 * (t * t)) :
    ¬ dist2 (toSearch cs t rep) (toSearch cs t x) < distanceParameter cs.length i := by
  have h1 := category_separation_dim cs t rep x hr hx hd ht
  have h2 := schedule_le cs.length i
  have h3 : ((cs.length : Nat) : Rat) ≤ (totalWidth cs : Rat) := by exact_mod_cast dim_le_one_hot_dim cs hw
  have h4 : (0 : Rat) ≤ (cs.length : Rat) := by exact_mod_cast Nat.zero_le _
  intro hlt
  linarith

/-! ### 4. The acquisition function object -/

theorem evalPoint_range (af : AF) (p : Rat) (x : List Rat) (h0 : 0 ≤ p) (h1 : p ≤ 1) :
    0 ≤ evalPoint af p x ∧ evalPoint af p x ≤ 1 := value_range p _ _ _ h0 h1

theorem addRepulsor_reps (af : AF) (pts : List (List Rat)) :
    (addRepulsor af pts).reps = af.reps ++ pts.map (toSearch af.comps af.t) ∧
    (addRepulsor af pts).r2 = af.r2 ∧ (addRepulsor af pts).comps = af.comps ∧ (addRepulsor af pts).t = af.t :=
  ⟨rfl, rfl, rfl, rfl⟩

/-- after `add_normalized_repulsor_point(pts)` the value at every added point is exactly 0 (positive radius),
    whatever the failure model says -/
theorem addRepulsor_zero_at_added (af : AF) (pts : List (List Rat)) (p : Rat) (x : List Rat) (hr : 0 < af.r2)
    (hx : x ∈ pts) : evalPoint (addRepulsor af pts) p x = 0 := by
  unfold evalPoint
  apply value_at_repulsor _ _ _ _ hr
  simp only [addRepulsor, List.mem_append, List.mem_map]
  exact Or.inr ⟨x, hx, rfl⟩

/-- … and it is 0 at any point that has the same search image as an added point (same numeric coordinates,
    same arg-max categories) -/
theorem addRepulsor_zero_same_image (af : AF) (pts : List (List Rat)) (p : Rat) (x y : List Rat) (hr : 0 < af.r2)
    (hy : y ∈ pts) (hxy : toSearch af.comps af.t x = toSearch af.comps af.t y) :
    evalPoint (addRepulsor af pts) p x = 0 := by
  unfold evalPoint
  apply value_at_repulsor _ _ _ _ hr
  simp only [addRepulsor, List.mem_append, List.mem_map]
  exact Or.inr ⟨y, hy, hxy.symm⟩

/-! ### 5. Batching independence -/

/-- the chunked while loop of `evaluate_at_point_list` computes the row-wise map, for every batch size ≥ 1 -/
theorem batched_eq_map {α β} (g : α → β) (b : Nat) (xs : List α) :
    batched (List.map g) (some (b + 1)) xs = some (xs.map g) := by
  simp only [batched]
  rw [if_neg (by omega), batchedAux_hom (List.map g) rfl (fun a c => List.map_append) (b + 1) (by omega) _ _ (le_refl _)]

/-- `batch_size=None` (or 0) means one chunk with all rows; the code's `assert batch_size > 0` then rejects the
    empty list -/
theorem batched_none {α β} (g : α → β) (xs : List α) :
    batched (List.map g) none xs = if xs = [] then none else some (xs.map g) := by
  simp only [batched]
  by_cases h : xs = []
  · simp [h]
  · have : xs.length ≠ 0 := fun h0 => h (List.eq_nil_of_length_eq_zero h0)
    rw [if_neg this, if_neg h, batchedAux_hom (List.map g) rfl (fun a c => List.map_append) _ (by omega) _ _ (le_refl _)]

theorem evaluate_eq_map (af : AF) (pf : List Rat → Rat) (b : Nat) (xs : List (List Rat)) :
    evaluate af pf (some (b + 1)) xs = some (xs.map fun x => evalPoint af (pf x) x) :=
  batched_eq_map _ b xs

/-- evaluation does not depend on the batch size -/
theorem evaluate_batch_independent (af : AF) (pf : List Rat → Rat) (b1 b2 : Nat) (xs : List (List Rat)) :
    evaluate af pf (some (b1 + 1)) xs = evaluate af pf (some (b2 + 1)) xs := by
  rw [evaluate_eq_map, evaluate_eq_map]

theorem evaluate_default_batch (af : AF) (pf : List Rat → Rat) (b : Nat) (xs : List (List Rat)) (h : xs ≠ []) :
    evaluate af pf none xs = evaluate af pf (some (b + 1)) xs := by
  rw [evaluate_eq_map]
  unfold evaluate evalChunk
  rw [batched_none, if_neg h]

/-- every entry of a batched evaluation is in [0,1] when the success probabilities are -/
theorem evaluate_range (af : AF) (pf : List Rat → Rat) (b : Nat) (xs : List (List Rat)) (out : List Rat)
    (hp : ∀ x, 0 ≤ pf x ∧ pf x ≤ 1) (ho : evaluate af pf (some (b + 1)) xs = some out) :
    ∀ v ∈ out, 0 ≤ v ∧ v ≤ 1 := by
  rw [evaluate_eq_map] at ho
  injection ho with ho
  subst ho
  intro v hv
  obtain ⟨x, _, rfl⟩ := List.mem_map.mp hv
  exact evalPoint_range af (pf x) x (hp x).1 (hp x).2

/-! ### 6. The optimisation loop: every pick becomes a repulsor before the next pick is chosen -/

theorem loop_length (cs : List Component) (t : Rat) (pick : LoopState → List Rat) (radii : List Rat) (s : LoopState) :
    (searchRun cs t pick radii s).1.length = radii.length ∧ (searchRun cs t pick radii s).2.1.length = radii.length :=
  C15.searchAux_length _ radii s

/-- the state seen by pick `i` holds the initial repulsors followed by the search images of picks 0..i-1 -/
theorem loop_repulsors_grow (cs : List Component) (t : Rat) (pick : LoopState → List Rat) (radii : List Rat)
    (s : LoopState) (i : Nat) (hi : i < (searchRun cs t pick radii s).2.1.length) :
    ((searchRun cs t pick radii s).2.1[i]).repulsors = s.repulsors ++ (searchRun cs t pick radii s).1.take i :=
  C15.loop_repulsors_grow _ radii s i hi

/-- pick `i` is what the optimiser returns for the state it saw, mapped to the search space -/
theorem loop_pick_sees (cs : List Component) (t : Rat) (pick : LoopState → List Rat) (radii : List Rat)
    (s : LoopState) (i : Nat) (hi : i < (searchRun cs t pick radii s).1.length)
    (hs : i < (searchRun cs t pick radii s).2.1.length) :
    (searchRun cs t pick radii s).1[i] = toSearch cs t (pick ((searchRun cs t pick radii s).2.1[i])) :=
  C15.loop_pick_sees _ radii s i hi hs

/-- the radius is redrawn after every pick: pick `i+1` sees `radii[i]` (pick 0 sees the caller's radius) -/
theorem loop_radius_redrawn (cs : List Component) (t : Rat) (pick : LoopState → List Rat) :
    ∀ (radii : List Rat) (s : LoopState) (i : Nat) (hi : i + 1 < (searchRun cs t pick radii s).2.1.length)
      (hr : i < radii.length),
      ((searchRun cs t pick radii s).2.1[i + 1]).radius = radii[i]
  | [], _, _, hi, _ => by simp [searchRun, C15.searchLoopAux] at hi
  | r :: rs, s, 0, hi, _ => by
    simp only [searchRun, C15.searchLoopAux, List.getElem_cons_succ, List.getElem_cons_zero]
    cases rs with
    | nil => simp [searchRun, C15.searchLoopAux] at hi
    | cons r' rs' => simp [C15.searchLoopAux]
  | r :: rs, s, i + 1, hi, hr => by
    simp only [searchRun, C15.searchLoopAux, List.getElem_cons_succ]
    exact loop_radius_redrawn cs t pick rs _ i (by simpa [searchRun, C15.searchLoopAux] using hi)
      (by simpa using hr)

theorem loop_first_state (cs : List Component) (t : Rat) (pick : LoopState → List Rat) (radii : List Rat)
    (s : LoopState) (h : 0 < (searchRun cs t pick radii s).2.1.length) :
    (searchRun cs t pick radii s).2.1[0] = s := by
  cases radii with
  | nil => simp [searchRun, C15.searchLoopAux] at h
  | cons r rs => simp [searchRun, C15.searchLoopAux]

/-- the acquisition function that pick `i` optimises is exactly 0 at every earlier pick (for a positive
    radius), whatever the failure model says: no pick can be chosen twice for its value -/
theorem loop_prev_pick_zero (cs : List Component) (t : Rat) (pick : LoopState → List Rat) (radii : List Rat)
    (s : LoopState) (i j : Nat) (p : Rat) (hi : i < (searchRun cs t pick radii s).2.1.length)
    (hj : j < (searchRun cs t pick radii s).1.length) (hji : j < i)
    (hr : 0 < ((searchRun cs t pick radii s).2.1[i]).radius) :
    value p ((searchRun cs t pick radii s).2.1[i]).repulsors ((searchRun cs t pick radii s).2.1[i]).radius
      ((searchRun cs t pick radii s).1[j]) = 0 := by
  apply value_at_repulsor _ _ _ _ hr
  rw [loop_repulsors_grow cs t pick radii s i hi, List.mem_append]
  refine Or.inr ?_
  rw [List.mem_take_iff_getElem]
  exact ⟨j, by omega, rfl⟩

/-- the caller's acquisition function is restored (repulsors and radius) -/
theorem loop_restores (cs : List Component) (t : Rat) (pick : LoopState → List Rat) (radii : List Rat) (s : LoopState) :
    (C15.searchLoop (fun st => toSearch cs t (pick st)) radii s).2.2 = s :=
  C15.loop_restores _ radii s

/-! ### Non-vacuity: the hypotheses are satisfiable and the bounds are attained -/

/-- domain int[0,10] × cat{1,3,5} × double[-5,5] of the library's own test -/
def exComps : List Component := [.int 0 10, .cat [1, 3, 5], .double (-5) 5]

example : exComps.all Component.wf = true := by decide +kernel
example : boundsOK (relaxedBox exComps) = true := by decide +kernel
example : toSearch exComps 2 [4, 1, 0, 0, 3] = [2 / 5, 2, 0, 0, 4 / 5] := by decide +kernel
example : catDiffer exComps [0, 1, 0, 0, 0] [0, 0, 0, 1, 0] = true := by decide +kernel
-- the separation bound 2·t² is attained
example : dist2 (toSearch exComps 2 [0, 1, 0, 0, 0]) (toSearch exComps 2 [0, 0, 0, 1, 0]) = 2 * (2 * 2) := by
  decide +kernel
-- strictness: exactly on the radius the probability is kept, just inside it is zeroed
example : value (1 / 2) [[0, 0]] (1 / 4) [1 / 2, 0] = 1 / 2 := by decide +kernel
example : value (1 / 2) [[0, 0]] (1 / 4) [49 / 100, 0] = 0 := by decide +kernel
example : evaluate (mkAF exComps 2 (1 / 4) [[0, 1, 0, 0, 0]]) (fun _ => 1 / 3) (some 2)
    [[0, 1, 0, 0, 36 / 10], [7, 1, 0, 0, 0], [0, 0, 0, 1, 0]] = some [0, 1 / 3, 1 / 3] := by decide +kernel
example : evaluate (mkAF exComps 2 (1 / 4) []) (fun _ => 1 / 3) none [] = none := by decide +kernel
example : (searchRun exComps 2 (fun st => [st.repulsors.length, 1, 0, 0, 0]) [1 / 100, 1 / 25] ⟨[], 1 / 4⟩).2.1.length = 2 := by
  decide +kernel

end C19
