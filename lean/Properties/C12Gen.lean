-- generated: Midpoint
/-
  C12 — tie of the hand-written model `Model/C12.lean` to the functions the translator regenerates from the current
  source of libsigopt/compute/misc/data_containers.py on every run (`Model/Generated/Midpoint.lean`).

  `*_eq_generated`: the model's branches / affine maps ARE the generated ones (as functions on exact rationals), so every
  theorem of Properties/C12.lean is a theorem about what the source says now.  `gen_*`: the headline clauses of the
  property restated on the generated functions alone (no hand-written definition in the statement apart from the
  min / max reductions and the objective sign).

  The tactics are written to survive rational-preserving rewrites of the source (other association, `/ 2` for `* 0.5`,
  re-ordered branches): conditions that differ syntactically are split and the infeasible combinations closed by
  linear arithmetic, the values by `ring` / `field_simp`.
-/
import Properties.C12
import Model.Generated.Midpoint

set_option linter.unusedTactic false
set_option linter.unreachableTactic false

namespace C12

/-- closes one branch combination: identical terms, or equal by field arithmetic, or an infeasible combination -/
macro "c12_branch" : tactic => `(tactic| first
  | rfl
  | (simp only [Info.mk.injEq, true_and, and_true]
     refine ⟨?_, ?_⟩ <;> first | rfl | ring1 | (field_simp; done) | (field_simp; ring1))
  | (exfalso; simp only [not_lt, not_le, gt_iff_lt, ge_iff_le] at *; linarith)
  | (exfalso; simp_all <;> linarith))

theorem infoOf_cons_eq_generated (x : Rat) (xs : List Rat) (o : Objective) :
    infoOf (x :: xs) o =
      { skip := false, mid := (Gen.smmi_core (lmin x xs) (lmax x xs)).1,
        scale := (Gen.smmi_core (lmin x xs) (lmax x xs)).2, negate := negateOf o } := by
  -- the width is either zero (then only the degenerate branches are feasible) or a legitimate denominator
  rcases eq_or_ne (lmax x xs - lmin x xs) 0 with h0 | h0 <;>
  (simp only [infoOf, Gen.smmi_core, rabs, minHalfWidth, scaleFactor,
      Gen.compute_misc_data_containers_MINIMUM_METRIC_HALF_WIDTH,
      Gen.compute_misc_data_containers_MIDPOINT_NORMALIZATION_SCALE_FACTOR]
   push_cast
   split_ifs <;> c12_branch)

theorem fwd_eq_generated (i : Info) (v : Rat) :
    fwd i v = Gen.relative_objective_value i.skip i.negate i.scale i.mid v := by
  first | rfl | (simp only [fwd, Gen.relative_objective_value] <;> (try split_ifs) <;> first | rfl | ring1)

theorem inv_eq_generated (i : Info) (w : Rat) :
    inv i w = Gen.undo_scaling i.skip i.negate i.scale i.mid w := by
  first | rfl | (simp only [inv, Gen.undo_scaling] <;> (try split_ifs) <;> first | rfl | ring1)

theorem fwdVar_eq_generated (i : Info) (s : Rat) :
    fwdVar i s = Gen.relative_objective_variance i.skip i.negate i.scale i.mid s := by
  first
    | rfl
    | (simp only [fwdVar, Gen.relative_objective_variance, skipVarFloor, minValueVar, Gen.aux_constant_MINIMUM_VALUE_VAR] <;>
        (try split_ifs) <;> first | rfl | (congr 1; ring1) | (push_cast; ring_nf; done))

theorem invVar_eq_generated (i : Info) (s : Rat) :
    invVar i s = Gen.undo_scaling_variances i.skip i.negate i.scale i.mid s := by
  first | rfl | (simp only [invVar, Gen.undo_scaling_variances] <;> (try split_ifs) <;> first | rfl | ring1)

/-! ### The property's clauses on the generated functions -/

/-- the scale the source computes from any non-empty set of successful values is positive -/
theorem gen_scale_pos (x : Rat) (xs : List Rat) : 0 < (Gen.smmi_core (lmin x xs) (lmax x xs)).2 := by
  have h := scale_pos (x :: xs) .maximize
  rw [infoOf_cons_eq_generated] at h
  exact h

/-- every denominator the source divides by on that path is non-zero (no ZeroDivisionError, no infinite scale) -/
theorem gen_core_denoms_ne_zero (x : Rat) (xs : List Rat) :
    ∀ d ∈ Gen.smmi_core_denoms (lmin x xs) (lmax x xs),
      (d = lmax x xs - lmin x xs → ¬ ((lmax x xs - lmin x xs) * (1 / 2) < minHalfWidth) → d ≠ 0) := by
  intro d _ hd hnd h0
  have hp := gen_minHalfWidth_pos
  rw [hd] at h0
  rw [h0] at hnd
  exact hnd (by simp only [zero_mul]; exact hp)

/-- invertibility, on the generated maps: `undo_scaling (relative_objective_value v) = v` -/
theorem gen_undo_relative (x : Rat) (xs : List Rat) (o : Objective) (v : Rat) :
    let c := Gen.smmi_core (lmin x xs) (lmax x xs)
    Gen.undo_scaling false (negateOf o) c.2 c.1 (Gen.relative_objective_value false (negateOf o) c.2 c.1 v) = v := by
  have h := inv_fwd (x :: xs) o v
  rw [infoOf_cons_eq_generated, inv_eq_generated, fwd_eq_generated] at h
  exact h

/-- and the other way round -/
theorem gen_relative_undo (x : Rat) (xs : List Rat) (o : Objective) (w : Rat) :
    let c := Gen.smmi_core (lmin x xs) (lmax x xs)
    Gen.relative_objective_value false (negateOf o) c.2 c.1 (Gen.undo_scaling false (negateOf o) c.2 c.1 w) = w := by
  have h := fwd_inv (x :: xs) o w
  rw [infoOf_cons_eq_generated, fwd_eq_generated, inv_eq_generated] at h
  exact h

/-- order: `a` is better than `b` for the objective iff its scaled value is smaller (the library minimises) -/
theorem gen_order_law (x : Rat) (xs : List Rat) (o : Objective) (a b : Rat) :
    let c := Gen.smmi_core (lmin x xs) (lmax x xs)
    better o a b ↔
      Gen.relative_objective_value false (negateOf o) c.2 c.1 a < Gen.relative_objective_value false (negateOf o) c.2 c.1 b := by
  have h := order_law (x :: xs) o a b
  rw [infoOf_cons_eq_generated, fwd_eq_generated, fwd_eq_generated] at h
  exact h

/-- a non-degenerate metric is mapped onto exactly [-0.1, 0.1], the extremes to the end points -/
theorem gen_span (x : Rat) (xs : List Rat) (o : Objective)
    (hnd : ¬ ((lmax x xs - lmin x xs) * (1 / 2) < minHalfWidth)) (v : Rat) (hv : v ∈ x :: xs) :
    let c := Gen.smmi_core (lmin x xs) (lmax x xs);
    (-(1 / 10) : Rat) ≤ Gen.relative_objective_value false (negateOf o) c.2 c.1 v ∧
      Gen.relative_objective_value false (negateOf o) c.2 c.1 v ≤ 1 / 10 := by
  have h := span_exact x xs o hnd v hv
  rw [infoOf_cons_eq_generated, fwd_eq_generated] at h
  exact h

/-- variances: positive after scaling, and scaled by the square wherever the floor is not active -/
theorem gen_variance (skip : Bool) (neg scale mid s : Rat) :
    0 < Gen.relative_objective_variance skip neg scale mid s ∧
    (skip = false → minValueVar ≤ s * scale ^ 2 →
      Gen.relative_objective_variance skip neg scale mid s = s * scale ^ 2 ∧
      (0 < scale → Gen.undo_scaling_variances skip neg scale mid (Gen.relative_objective_variance skip neg scale mid s) = s)) := by
  let i : Info := { skip := skip, mid := mid, scale := scale, negate := neg }
  have e1 : Gen.relative_objective_variance skip neg scale mid s = fwdVar i s := (fwdVar_eq_generated i s).symm
  refine ⟨by rw [e1]; exact var_pos i s, fun hs hf => ?_⟩
  have e2 : fwdVar i s = s * scale ^ 2 := var_scales_square i s hs hf
  refine ⟨by rw [e1, e2], fun hpos => ?_⟩
  rw [e1, e2, ← invVar_eq_generated i]
  have : scale ^ 2 ≠ 0 := by positivity
  simp [invVar, i, hs, this]

/-! non-vacuity -/
example : Gen.smmi_core 1 7 = ((4 : Rat), (1 : Rat) / 30) := by
  norm_num [Gen.smmi_core]
example : Gen.relative_objective_value false (-1) (1 / 30) 4 7 = -(1 / 10) := by
  norm_num [Gen.relative_objective_value]

end C12
