/-
  C15 — Pending-point bookkeeping stays consistent over any history.
  All theorems are by induction over arbitrary operation lists (no bound on their length).
-/
import Model.C15
import Mathlib.Algebra.Order.Field.Rat
import Mathlib.Tactic.Linarith
import Mathlib.Tactic.NormNum

namespace C15

/-! ### HistoricalData / single GP -/

theorem append_pts {P} (h : Hist P) (ps : List P) (vs ns : List Rat) :
    (h.append ps vs ns).pts = h.pts ++ ps := by
  unfold Hist.append
  cases ps <;> simp

theorem gpAppend_pts {P} (h : Hist P) (locs : List P) (m : LieMethod) :
    (gpAppendLies h locs m).pts = h.pts ++ locs := by
  unfold gpAppendLies; exact append_pts _ _ _ _

theorem gpAppend_vals {P} (h : Hist P) (locs : List P) (m : LieMethod) :
    (gpAppendLies h locs m).vals = h.vals ++ List.replicate locs.length (lieValue m h.vals) := by
  unfold gpAppendLies Hist.append
  cases locs <;> simp

theorem gpAppend_noise {P} (h : Hist P) (locs : List P) (m : LieMethod) :
    (gpAppendLies h locs m).noise = h.noise ++ List.replicate locs.length lieNoise := by
  unfold gpAppendLies Hist.append
  cases locs <;> simp

theorem gpAppend_wf {P} (h : Hist P) (locs : List P) (m : LieMethod) (hw : h.WF) : (gpAppendLies h locs m).WF := by
  unfold Hist.WF at *
  rw [gpAppend_pts, gpAppend_vals, gpAppend_noise]
  simp only [List.length_append, List.length_replicate]
  omega

/-- After ANY interleaving of reads and lie-appends the three arrays have equal length. -/
theorem hist_lengths_equal {P} (ops : List (GpOp P)) (h : Hist P) (hw : h.WF) : (ops.foldl gpStep h).WF := by
  induction ops generalizing h with
  | nil => exact hw
  | cons op ops ih =>
    apply ih
    cases op with
    | append locs m => exact gpAppend_wf h locs m hw
    | read => exact hw

/-- reads never change the state, whatever happened before or happens after -/
theorem read_is_noop {P} (h : Hist P) : gpStep h GpOp.read = h := rfl

/-- the data of the appends of an operation list, in order -/
def appendedLocs {P} : List (GpOp P) → List P
  | [] => []
  | .append locs _ :: ops => locs ++ appendedLocs ops
  | .read :: ops => appendedLocs ops

/-- The sampled points after any history are the original points followed by the appended lie locations in
    order, whichever reads happened in between; every appended entry carries the fixed lie noise. -/
theorem gp_lies_suffix {P} (ops : List (GpOp P)) (h : Hist P) :
    (ops.foldl gpStep h).pts = h.pts ++ appendedLocs ops ∧
    (ops.foldl gpStep h).noise = h.noise ++ List.replicate (appendedLocs ops).length lieNoise := by
  induction ops generalizing h with
  | nil => simp [appendedLocs]
  | cons op ops ih =>
    cases op with
    | append locs m =>
      obtain ⟨a, b⟩ := ih (gpAppendLies h locs m)
      simp only [List.foldl_cons, gpStep, appendedLocs]
      rw [a, b, gpAppend_pts, gpAppend_noise]
      simp [List.append_assoc, List.replicate_append_replicate]
    | read => simpa [gpStep, appendedLocs] using ih h

/-! #### the lie value is the worst observed value and stays so -/

theorem foldl_max_ge_acc (xs : List Rat) (a : Rat) : a ≤ xs.foldl max a := by
  induction xs generalizing a with
  | nil => simp
  | cons x xs ih => exact le_trans (le_max_left _ _) (ih _)

theorem foldl_max_ge_mem (xs : List Rat) (a v : Rat) (h : v ∈ xs) : v ≤ xs.foldl max a := by
  induction xs generalizing a with
  | nil => cases h
  | cons x xs ih =>
    rcases List.mem_cons.mp h with rfl | h
    · exact le_trans (le_max_right _ _) (foldl_max_ge_acc xs (max a v))
    · exact ih _ h

theorem foldl_max_append_replicate (xs : List Rat) (a : Rat) (k : Nat) :
    (xs ++ List.replicate k (xs.foldl max a)).foldl max a = xs.foldl max a := by
  rw [List.foldl_append]
  generalize xs.foldl max a = b
  induction k with
  | zero => simp
  | succ k ih => simp [List.replicate_succ, ih]

/-- appending copies of the current maximum does not change the maximum -/
theorem lmaxD_append_lies (vals : List Rat) (k : Nat) (hne : vals ≠ []) :
    lmaxD (vals ++ List.replicate k (lmaxD vals)) = lmaxD vals := by
  cases vals with
  | nil => exact absurd rfl hne
  | cons x xs => simp only [lmaxD, List.cons_append]; exact foldl_max_append_replicate xs x k

/-- the constant-liar-min value is an upper bound of every current value: the model's worst value -/
theorem lie_is_worst (vals : List Rat) (v : Rat) (hv : v ∈ vals) : v ≤ lieValue .cmin vals := by
  cases vals with
  | nil => cases hv
  | cons x xs =>
    simp only [lieValue, lmaxD]
    rcases List.mem_cons.mp hv with rfl | h
    · exact foldl_max_ge_acc _ _
    · exact foldl_max_ge_mem _ _ _ h

/-- Constant-liar-min appends (the only method the library's callers use) in any interleaving with reads:
    the values end with one copy of the ORIGINAL worst value per appended location. -/
theorem gp_lies_carry_worst {P} (ops : List (GpOp P)) (h : Hist P) (hne : h.vals ≠ [])
    (hm : ∀ op ∈ ops, ∀ locs m, op = GpOp.append locs m → m = .cmin) :
    (ops.foldl gpStep h).vals = h.vals ++ List.replicate (appendedLocs ops).length (lmaxD h.vals) := by
  induction ops generalizing h with
  | nil => simp [appendedLocs]
  | cons op ops ih =>
    cases op with
    | append locs m =>
      have hmm : m = .cmin := hm _ (List.mem_cons_self ..) locs m rfl
      subst hmm
      have hne' : (gpAppendLies h locs .cmin).vals ≠ [] := by
        rw [gpAppend_vals]; simp [hne]
      have := ih (gpAppendLies h locs .cmin) hne' (fun op ho => hm op (List.mem_cons_of_mem _ ho))
      simp only [List.foldl_cons, gpStep, appendedLocs]
      rw [this, gpAppend_vals]
      simp only [lieValue]
      rw [lmaxD_append_lies h.vals locs.length hne]
      simp [List.append_assoc, List.replicate_append_replicate]
    | read =>
      simpa [gpStep, appendedLocs] using ih h hne (fun op ho => hm op (List.mem_cons_of_mem _ ho))

/-! ### Sum of GPs: memoised accessors are always consistent with the current data -/

theorem init_coherent {P} (gps : List (Hist P)) (w : List Rat) :
    (GPSum.mk gps w none none none).Coherent := by
  simp [GPSum.Coherent]

theorem computeVals_congr {P} (s t : GPSum P) (h1 : s.gps = t.gps) (h2 : s.weights = t.weights) :
    computeVals s = computeVals t ∧ computeNoise s = computeNoise t := by
  unfold computeVals computeNoise numSampled
  rw [h1, h2]
  exact ⟨rfl, rfl⟩

theorem readVals_spec {P} (s : GPSum P) (hc : s.Coherent) :
    (readVals s).2 = computeVals s ∧ (readVals s).1.Coherent ∧
    (readVals s).1.gps = s.gps ∧ (readVals s).1.weights = s.weights := by
  unfold readVals
  cases hv : s.cacheVals with
  | some v => exact ⟨hc.1 v hv, hc, rfl, rfl⟩
  | none =>
    refine ⟨rfl, ?_, rfl, rfl⟩
    have e := computeVals_congr ({ s with cacheVals := some (computeVals s) }) s rfl rfl
    refine ⟨fun v hv' => ?_, fun v hv' => ?_, fun b hb => ?_⟩
    · simp only [Option.some.injEq] at hv'; rw [e.1]; exact hv'.symm
    · rw [e.2]; exact hc.2.1 v hv'
    · rw [e.1]; exact hc.2.2 b hb

theorem readNoise_spec {P} (s : GPSum P) (hc : s.Coherent) :
    (readNoise s).2 = computeNoise s ∧ (readNoise s).1.Coherent ∧
    (readNoise s).1.gps = s.gps ∧ (readNoise s).1.weights = s.weights := by
  unfold readNoise
  cases hv : s.cacheNoise with
  | some v => exact ⟨hc.2.1 v hv, hc, rfl, rfl⟩
  | none =>
    refine ⟨rfl, ?_, rfl, rfl⟩
    have e := computeVals_congr ({ s with cacheNoise := some (computeNoise s) }) s rfl rfl
    refine ⟨fun v hv' => ?_, fun v hv' => ?_, fun b hb => ?_⟩
    · rw [e.1]; exact hc.1 v hv'
    · simp only [Option.some.injEq] at hv'; rw [e.2]; exact hv'.symm
    · rw [e.1]; exact hc.2.2 b hb

theorem readBest_spec {P} (s : GPSum P) (hc : s.Coherent) :
    (readBest s).2 = argmin (computeVals s) ∧ (readBest s).1.Coherent ∧
    (readBest s).1.gps = s.gps ∧ (readBest s).1.weights = s.weights := by
  unfold readBest
  cases hb : s.cacheBest with
  | some b => exact ⟨hc.2.2 b hb, hc, rfl, rfl⟩
  | none =>
    obtain ⟨r1, r2, r3, r4⟩ := readVals_spec s hc
    simp only
    refine ⟨by rw [r1], ?_, r3, r4⟩
    have e := computeVals_congr ({ (readVals s).1 with cacheBest := some (argmin (readVals s).2) }) (readVals s).1 rfl rfl
    have e' := computeVals_congr (readVals s).1 s r3 r4
    refine ⟨fun v hv' => ?_, fun v hv' => ?_, fun b hb' => ?_⟩
    · rw [e.1]; exact r2.1 v hv'
    · rw [e.2]; exact r2.2.1 v hv'
    · simp only [Option.some.injEq] at hb'; rw [e.1, e'.1, ← hb', r1]

theorem append_coherent {P} (s : GPSum P) (locs : List P) (m : LieMethod) : (sumAppendLies s locs m).Coherent := by
  simp [GPSum.Coherent, sumAppendLies]

/-- Coherence is an invariant of every operation, hence of every history. -/
theorem gpsum_coherent_always {P} (ops : List (SumOp P)) (s : GPSum P) (hc : s.Coherent) :
    (ops.foldl sumStep s).Coherent := by
  induction ops generalizing s with
  | nil => exact hc
  | cons op ops ih =>
    apply ih
    cases op with
    | append locs m => exact append_coherent s locs m
    | readVals => exact (readVals_spec s hc).2.1
    | readNoise => exact (readNoise_spec s hc).2.1
    | readBest => exact (readBest_spec s hc).2.1

/-- After ANY history of appends and accessor reads, every accessor returns the weighted combination of
    the CURRENT component data (never a stale memo). -/
theorem gpsum_reads_consistent {P} (ops : List (SumOp P)) (gps : List (Hist P)) (w : List Rat) :
    let s := ops.foldl sumStep (GPSum.mk gps w none none none)
    (readVals s).2 = computeVals s ∧ (readNoise s).2 = computeNoise s ∧ (readBest s).2 = argmin (computeVals s) := by
  intro s
  have hc : s.Coherent := gpsum_coherent_always ops _ (init_coherent gps w)
  exact ⟨(readVals_spec s hc).1, (readNoise_spec s hc).1, (readBest_spec s hc).1⟩

theorem zipAdd_length (a b : List Rat) : (zipAdd a b).length = min a.length b.length := by
  induction a generalizing b with
  | nil => simp [zipAdd]
  | cons x xs ih =>
    cases b with
    | nil => simp [zipAdd]
    | cons y ys => simp [zipAdd, ih, Nat.succ_min_succ]

theorem foldl_zipAdd_length {P} (gw : List (Hist P × Rat)) (acc : List Rat) (f : Hist P → List Rat) (g : Rat → Rat → Rat)
    (h : ∀ p ∈ gw, (f p.1).length = acc.length) :
    (gw.foldl (fun acc p => zipAdd acc ((f p.1).map (g p.2 ·))) acc).length = acc.length := by
  induction gw generalizing acc with
  | nil => rfl
  | cons p ps ih =>
    simp only [List.foldl_cons]
    have hp := h p (List.mem_cons_self ..)
    have hl : (zipAdd acc ((f p.1).map (g p.2 ·))).length = acc.length := by
      rw [zipAdd_length]; simp [hp]
    rw [ih]
    · exact hl
    · intro q hq; rw [hl]; exact h q (List.mem_cons_of_mem _ hq)

/-- the combined values and noise have exactly `num_sampled` entries when every component does -/
theorem gpsum_lengths {P} (s : GPSum P)
    (hv : ∀ g ∈ s.gps, g.vals.length = numSampled s) (hn : ∀ g ∈ s.gps, g.noise.length = numSampled s) :
    (computeVals s).length = numSampled s ∧ (computeNoise s).length = numSampled s := by
  constructor
  · unfold computeVals
    rw [foldl_zipAdd_length (f := fun g => g.vals) (g := fun w x => w * x)]
    · simp
    · intro p hp; simp only [List.length_replicate]; exact hv _ (List.of_mem_zip hp).1
  · unfold computeNoise
    rw [foldl_zipAdd_length (f := fun g => g.noise) (g := fun w x => w ^ 2 * x)]
    · simp
    · intro p hp; simp only [List.length_replicate]; exact hn _ (List.of_mem_zip hp).1

/-- appending lies to a sum appends them to every component (so `num_sampled` grows by the number of lies) -/
theorem sumAppend_components {P} (s : GPSum P) (locs : List P) (m : LieMethod) (g : Hist P) (hg : g ∈ s.gps) :
    gpAppendLies g locs m ∈ (sumAppendLies s locs m).gps := by
  simp only [sumAppendLies, List.mem_map]; exact ⟨g, hg, rfl⟩

/-! ### Parzen estimator: base points plus current lies, for every interleaving -/

theorem dropLast_append {P} (base lies : List P) : dropLast (base ++ lies) lies.length = base := by
  unfold dropLast; simp

theorem pzAppend_inv {P} (s : Parzen P) (lies : List P) (b : Bool) (h : s.Inv) : (pzAppend s lies b).Inv := by
  unfold pzAppend
  split_ifs
  · exact h
  · constructor
    · simp [h.1, List.append_assoc]
    · exact h.2
  · constructor
    · exact h.1
    · simp [h.2, List.append_assoc]

theorem pzClear_inv {P} (s : Parzen P) (h : s.Inv) : (pzClear s).Inv := by
  obtain ⟨h1, h2⟩ := h
  unfold pzClear Parzen.Inv
  simp only [List.append_nil]
  constructor
  · split_ifs with he
    · have : s.lowerLies = [] := by simpa using he
      rw [h1, this]; simp
    · rw [h1]; exact dropLast_append _ _
  · split_ifs with he
    · have : s.greaterLies = [] := by simpa using he
      rw [h2, this]; simp
    · rw [h2]; exact dropLast_append _ _

theorem pzClear_base {P} (s : Parzen P) : (pzClear s).baseLower = s.baseLower ∧ (pzClear s).baseGreater = s.baseGreater :=
  ⟨rfl, rfl⟩

theorem pzStep_inv {P} (s : Parzen P) (op : PzOp P) (h : s.Inv) : (pzStep s op).Inv := by
  cases op with
  | append l b => exact pzAppend_inv s l b h
  | clear => exact pzClear_inv s h
  | stash => exact h
  | recover i => exact pzAppend_inv _ _ _ (pzAppend_inv _ _ _ (pzClear_inv s h))

/-- After ANY sequence of append / clear / stash / recover the estimator holds exactly its base points
    followed by its current lies. -/
theorem parzen_points_eq_base_plus_lies {P} (ops : List (PzOp P)) (s : Parzen P) (h : s.Inv) :
    (ops.foldl pzStep s).Inv := by
  induction ops generalizing s with
  | nil => exact h
  | cons op ops ih => exact ih _ (pzStep_inv s op h)

theorem pzAppend_base {P} (s : Parzen P) (l : List P) (b : Bool) :
    (pzAppend s l b).baseLower = s.baseLower ∧ (pzAppend s l b).baseGreater = s.baseGreater := by
  unfold pzAppend
  split_ifs <;> exact ⟨rfl, rfl⟩

theorem pzStep_base {P} (s : Parzen P) (op : PzOp P) :
    (pzStep s op).baseLower = s.baseLower ∧ (pzStep s op).baseGreater = s.baseGreater := by
  cases op with
  | append l b => exact pzAppend_base s l b
  | clear => exact ⟨rfl, rfl⟩
  | stash => exact ⟨rfl, rfl⟩
  | recover i =>
    show (pzAppend (pzAppend (pzClear s) i.1 true) i.2 false).baseLower = _ ∧ _
    obtain ⟨a, b⟩ := pzAppend_base (pzAppend (pzClear s) i.1 true) i.2 false
    obtain ⟨c, d⟩ := pzAppend_base (pzClear s) i.1 true
    exact ⟨a.trans c, b.trans d⟩

/-- the base sets are never touched by lie bookkeeping -/
theorem parzen_base_fixed {P} (ops : List (PzOp P)) (s : Parzen P) :
    (ops.foldl pzStep s).baseLower = s.baseLower ∧ (ops.foldl pzStep s).baseGreater = s.baseGreater := by
  induction ops generalizing s with
  | nil => exact ⟨rfl, rfl⟩
  | cons op ops ih =>
    obtain ⟨a, b⟩ := ih (pzStep s op)
    obtain ⟨c, d⟩ := pzStep_base s op
    exact ⟨a.trans c, b.trans d⟩

theorem clear_gives_base {P} (s : Parzen P) (h : s.Inv) :
    (pzClear s).lowerPts = s.baseLower ∧ (pzClear s).greaterPts = s.baseGreater ∧
    (pzClear s).lowerLies = [] ∧ (pzClear s).greaterLies = [] := by
  have := pzClear_inv s h
  unfold Parzen.Inv at this
  refine ⟨?_, ?_, rfl, rfl⟩
  · rw [this.1]; simp [pzClear]
  · rw [this.2]; simp [pzClear]

/-- recovering what was stashed restores the lie lists and the point sets -/
theorem recover_stash_id {P} (s : Parzen P) (h : s.Inv) :
    (pzRecover s (pzStash s)).lowerLies = s.lowerLies ∧ (pzRecover s (pzStash s)).greaterLies = s.greaterLies ∧
    (pzRecover s (pzStash s)).lowerPts = s.lowerPts ∧ (pzRecover s (pzStash s)).greaterPts = s.greaterPts := by
  obtain ⟨c1, c2, c3, c4⟩ := clear_gives_base s h
  obtain ⟨h1, h2⟩ := h
  unfold pzRecover pzStash pzAppend
  simp only
  cases hl : s.lowerLies <;> cases hg : s.greaterLies <;>
    simp_all [pzClear]

/-! ### Constant liar: each pick is conditioned on lies at all earlier picks -/

theorem constantLiar_length {P} (pick : Hist P → P) (m : LieMethod) (k : Nat) (h : Hist P) :
    (constantLiarLoop pick m k h).1.length = k := by
  induction k generalizing h with
  | zero => rfl
  | succ k ih => simp [constantLiarLoop, ih]

/-- the private model ends with one lie per pick, at the picks, in order -/
theorem constantLiar_final {P} (pick : Hist P → P) (m : LieMethod) (k : Nat) (h : Hist P) :
    (constantLiarLoop pick m k h).2.pts = h.pts ++ (constantLiarLoop pick m k h).1 := by
  induction k generalizing h with
  | zero => simp [constantLiarLoop]
  | succ k ih =>
    simp only [constantLiarLoop]
    rw [ih, gpAppend_pts]
    simp [List.append_assoc]

/-- state seen by the i-th pick: the caller's data plus lies at the first i picks -/
def liarState {P} (m : LieMethod) (h : Hist P) (ps : List P) : Hist P :=
  ps.foldl (fun s p => gpAppendLies s [p] m) h

/-- Pick i is chosen by the optimiser on the model conditioned on lies at exactly the picks 0..i-1. -/
theorem constantLiar_conditions {P} (pick : Hist P → P) (m : LieMethod) (k : Nat) (h : Hist P) (i : Nat)
    (hi : i < (constantLiarLoop pick m k h).1.length) :
    (constantLiarLoop pick m k h).1[i] = pick (liarState m h ((constantLiarLoop pick m k h).1.take i)) := by
  induction k generalizing h i with
  | zero => simp [constantLiarLoop] at hi
  | succ k ih =>
    cases i with
    | zero => simp [constantLiarLoop, liarState]
    | succ i =>
      simp only [constantLiarLoop, List.getElem_cons_succ, List.take_succ_cons, liarState, List.foldl_cons]
      have hi' : i < (constantLiarLoop pick m k (gpAppendLies h [pick h] m)).1.length := by
        simpa [constantLiarLoop] using hi
      exact ih (gpAppendLies h [pick h] m) i hi'

theorem liarState_pts {P} (m : LieMethod) (h : Hist P) (ps : List P) : (liarState m h ps).pts = h.pts ++ ps := by
  induction ps generalizing h with
  | nil => simp [liarState]
  | cons p ps ih =>
    simp only [liarState, List.foldl_cons] at *
    rw [ih, gpAppend_pts]; simp [List.append_assoc]

/-- `num_sampled` seen by pick i is the caller's count plus i -/
theorem constantLiar_num_sampled {P} (m : LieMethod) (h : Hist P) (ps : List P) :
    (liarState m h ps).pts.length = h.pts.length + ps.length := by
  rw [liarState_pts]; simp

/-! ### Search loop: every pick is a repulsor for the next one; the caller's function is restored -/

theorem searchAux_length {P} (pick : SearchAF P → P) (radii : List Rat) (af : SearchAF P) :
    (searchLoopAux pick radii af).1.length = radii.length ∧ (searchLoopAux pick radii af).2.1.length = radii.length := by
  induction radii generalizing af with
  | nil => simp [searchLoopAux]
  | cons r rs ih => simp [searchLoopAux, (ih _).1, (ih _).2]

theorem loop_repulsors_grow {P} (pick : SearchAF P → P) (radii : List Rat) (af : SearchAF P) (i : Nat)
    (hi : i < (searchLoopAux pick radii af).2.1.length) :
    ((searchLoopAux pick radii af).2.1[i]).repulsors = af.repulsors ++ (searchLoopAux pick radii af).1.take i := by
  induction radii generalizing af i with
  | nil => simp [searchLoopAux] at hi
  | cons r rs ih =>
    cases i with
    | zero => simp [searchLoopAux]
    | succ i =>
      simp only [searchLoopAux, List.getElem_cons_succ, List.take_succ_cons]
      have hi' : i < (searchLoopAux pick rs { repulsors := af.repulsors ++ [pick af], radius := r }).2.1.length := by
        simpa [searchLoopAux] using hi
      rw [ih _ i hi']
      simp [List.append_assoc]

theorem loop_pick_sees {P} (pick : SearchAF P → P) (radii : List Rat) (af : SearchAF P) (i : Nat)
    (hi : i < (searchLoopAux pick radii af).1.length) (hs : i < (searchLoopAux pick radii af).2.1.length) :
    (searchLoopAux pick radii af).1[i] = pick ((searchLoopAux pick radii af).2.1[i]) := by
  induction radii generalizing af i with
  | nil => simp [searchLoopAux] at hi
  | cons r rs ih =>
    cases i with
    | zero => simp [searchLoopAux]
    | succ i =>
      simp only [searchLoopAux, List.getElem_cons_succ]
      apply ih

theorem loop_restores {P} (pick : SearchAF P → P) (radii : List Rat) (af : SearchAF P) :
    (searchLoop pick radii af).2.2 = af := rfl

/-! ### Non-vacuity -/

example : ({ pts := [1, 2], vals := [3, 5], noise := [0, 0] } : Hist Nat).WF := by simp [Hist.WF]
example : (gpAppendLies ({ pts := [1, 2], vals := [3, 5], noise := [0, 0] } : Hist Nat) [7] .cmin).vals = [3, 5, 5] := by
  decide +kernel
example : ({ baseLower := [1], baseGreater := [2], lowerPts := [1, 9], greaterPts := [2], lowerLies := [9],
             greaterLies := [] } : Parzen Nat).Inv := by simp [Parzen.Inv]
theorem gen_lieNoise : lieNoise = 1 / 1000000000000 := by norm_num [lieNoise]

end C15
