/-
  C09 — One-hot encoding and snapping of mixed parameters are faithful.
  Property theorems only (helpers: Proofs/C09Scalar, C09Layout, C09Snap, C09Misc).

  Models: Model/Domain.lean (shared domain model) and Model/C09.lean, exact over `Rat`.
  Every theorem holds for all domains, all points and all oracle values (categorical draws `ω`, shuffles
  `shuf`, random neighbour choices `nb`); hypotheses are the decidable well-formedness conditions the library
  asserts (`Domain.wf`, mirroring `_verify_domain_components`) and membership in the relaxed box/polytope.
-/
import Proofs.C09Misc

namespace C09
open Dom

/-! ## A. The relaxed box and the index map (`form_one_hot_domain`) -/

/-- The flat list of bounds built by `form_one_hot_domain` describes exactly the block-wise box used by all
    other theorems, and has one row per one-hot coordinate. -/
theorem relaxedBox_faithful (cs : List Component) (x : List Rat) :
    inRelaxedBox cs x = withinBounds (relaxedBox cs) x ∧ (relaxedBox cs).length = totalWidth cs :=
  ⟨inRelaxedBox_eq_withinBounds cs x, relaxedBox_length cs⟩

/-- The encoding has one coordinate per entry of the index map. -/
theorem encode_width (cs : List Component) (cfg : List Rat) (h : cfg.length = cs.length) :
    (encode cs cfg).length = totalWidth cs := encode_total_length cs cfg h

/-- The encoding of an admissible configuration is a point of the relaxed polytope: inside the relaxed box,
    and every constraint has the same value in one-hot coordinates. -/
theorem encode_in_relaxed (d : Domain) (cfg : List Rat) (hw : d.wf = true) (ha : admissible d cfg = true) :
    inRelaxed d (encode d.comps cfg) = true := by
  simp only [admissible, Bool.and_eq_true, List.all_eq_true, decide_eq_true_eq] at ha
  simp only [Domain.wf, Bool.and_eq_true, List.all_eq_true] at hw
  simp only [inRelaxed, Bool.and_eq_true, List.all_eq_true, decide_eq_true_eq]
  refine ⟨encode_inRelaxedBox _ _ ha.1, ?_⟩
  intro c hc
  rw [encode_dot c.isInt _ _ _ (hw.2 c hc) (inBox_length ha.1)]
  exact ha.2 c hc

/-- … and a lattice point: ints integral within bounds, grid coordinates are grid elements, every categorical
    block is an indicator vector (exactly one 1, zeros elsewhere). -/
theorem encode_on_lattice (cs : List Component) (cfg : List Rat) (hw : cs.all Component.wf = true)
    (hv : inBox cs cfg = true) : onLattice cs (encode cs cfg) = true :=
  encode_onLattice cs cfg hw hv

/-- `form_one_hot_points_with_tasks`: with a task cost, the row is the encoding for the domain extended by
    one double component (what `_form_domain_with_task_dimension` builds), i.e. the cost is the last column. -/
theorem encode_with_task (cs : List Component) (cfg : List Rat) (lo hi t : Rat) (h : cfg.length = cs.length) :
    encodeWithTask cs cfg (some t) = encode (cs ++ [.double lo hi]) (cfg ++ [t]) ∧
    encodeWithTask cs cfg none = encode cs cfg :=
  ⟨(encode_append_double cs cfg lo hi t h).symm, rfl⟩

/-! ## B. decode ∘ encode = id -/

/-- Round trip with the temperature-sampled categorical draw: for every valid point and every draw `ω` that
    hits, in each categorical block, a coordinate with non-zero one-hot value (for an encoded point: the
    encoded category — the only one whose weight is more than the `1e-300` floor), decoding returns the point.
    No well-formedness of the domain is needed. -/
theorem decode_encode (cs : List Component) (cfg : List Rat) (ω : List Nat)
    (hv : inBox cs cfg = true) (hω : drawOnSupport cs (encode cs cfg) ω = true) :
    decode cs (encode cs cfg) ω = cfg :=
  decode_encode_aux cs cfg ω hv hω

/-- Deterministic arg-max rounding inverts the encoding exactly. -/
theorem decodeArgmax_encode (cs : List Component) (cfg : List Rat) (hv : inBox cs cfg = true) :
    decodeArgmax cs (encode cs cfg) = cfg :=
  decode_encode_aux cs cfg _ hv (argmax_on_support cs cfg hv)

/-- The excluded draws, quantified: for an encoded categorical value the unnormalised weights
    `z ** (1/T) + δ` are `1 + δ` on the encoded category and `δ` elsewhere (any temperature: only
    `0 ** p = 0` and `1 ** p = 1` are used), so they sum to `1 + k·δ`; the draw misses the encoded category
    with probability `(k-1)·δ / (1 + k·δ) ≤ (k-1)·δ` (`δ = 1e-300`). -/
theorem floor_mass_encoded (pw : Rat → Rat) (δ : Rat) (es : List Rat) (v : Rat)
    (h0 : pw 0 = 0) (h1 : pw 1 = 1) (hn : es.Nodup) (hv : v ∈ es) :
    let t := ((Component.cat es).encode v).map fun z => pw z + δ
    t = es.map (fun e => if v = e then 1 + δ else δ) ∧ lsum t = 1 + (es.length : Rat) * δ := by
  have e : (((Component.cat es).encode v).map fun z => pw z + δ)
      = es.map (fun e => if v = e then 1 + δ else δ) := by
    simp only [Component.encode, List.map_map]
    apply List.map_congr_left
    intro a _
    by_cases h : v = a <;> simp [h, h0, h1]
  refine ⟨e, ?_⟩
  rw [e, lsum_indicator (1 + δ) δ v es hn]
  simp only [hv, if_true]
  ring

/-! ## C. Decoding any point of the relaxed box -/

/-- doubles are copied unchanged -/
theorem decode_double_id (lo hi v : Rat) (i : Nat) : decodeComp (.double lo hi) [v] i = v := rfl

/-- ints: the result is an integer, within 1/2 of the input, no integer is nearer, and inside integral
    bounds whenever the input is. -/
theorem decode_int_nearest (lo hi v : Rat) (i : Nat) :
    let y := decodeComp (.int lo hi) [v] i
    isIntQ y = true ∧ rabs (v - y) ≤ 1 / 2 ∧ (∀ n : Int, rabs (v - y) ≤ rabs (v - (n : Rat))) ∧
    ((Component.int lo hi).wf = true → lo ≤ v → v ≤ hi → lo ≤ y ∧ y ≤ hi) := by
  refine ⟨isIntQ_intCast _, roundHalfEven_nearest v, roundHalfEven_le_int v, ?_⟩
  intro hw h1 h2
  simp only [Component.wf, Bool.and_eq_true] at hw
  obtain ⟨a, rfl⟩ := (isIntQ_iff lo).mp hw.1.2
  obtain ⟨b, rfl⟩ := (isIntQ_iff hi).mp hw.2
  exact roundHalfEven_bounds h1 h2

/-- grid ("quantized") values: the result is an element and no element is nearer -/
theorem decode_grid_nearest (es : List Rat) (v : Rat) (i : Nat) (hne : es ≠ []) :
    let y := decodeComp (.grid es) [v] i
    y ∈ es ∧ ∀ e ∈ es, rabs (v - y) ≤ rabs (v - e) :=
  ⟨nearestFirst_mem v hne, fun _ he => nearestFirst_le v he⟩

/-- categoricals: whatever the draw, the result is one of the elements -/
theorem decode_cat_mem (es : List Rat) (b : List Rat) (i : Nat) (hne : es ≠ []) :
    decodeComp (.cat es) b i ∈ es := getD_headD_mem hne i

/-- The deterministic decode refines the tie-liberal specification (any nearest integer / any nearest
    element / any category), for every draw. -/
theorem decode_refines_spec (cs : List Component) (x : List Rat) (ω : List Nat)
    (hw : cs.all Component.wf = true) : decodeSpec cs x (decode cs x ω) = true :=
  decode_spec cs x ω hw

/-- Everything the tie-liberal specification allows for a relaxed-box point lies inside every component
    (so a different tie-break can never leave the domain). -/
theorem spec_in_box (cs : List Component) (x y : List Rat) (hw : cs.all Component.wf = true)
    (hx : inRelaxedBox cs x = true) (hs : decodeSpec cs x y = true) : inBox cs y = true :=
  spec_inBox cs x y hw hx hs

/-- Constraints see the same value before and after decoding: double constraints always, int constraints
    once the constrained integers are integral. -/
theorem decode_keeps_constraint_values (d : Domain) (x : List Rat) (ω : List Nat) (c : Constraint)
    (hw : d.wf = true) (hc : c ∈ d.cons) (hx : inRelaxedBox d.comps x = true)
    (hs : intSnapped d.comps (constrainedFlags d) x = true) :
    dot c.weights (decode d.comps x ω) = dot (ohWeights d.comps c.weights) x := by
  have hwf := hw
  simp only [Domain.wf, Bool.and_eq_true, List.all_eq_true] at hwf
  have hok := hwf.2 c hc
  cases hi : c.isInt with
  | false => rw [hi] at hok; exact decode_dot_double _ _ _ _ hok hx
  | true =>
    rw [hi] at hok
    refine decode_dot_int _ (intWeights d) _ _ _ hok hx ?_ hs
    simp only [intWeights, List.mem_map, List.mem_filter]
    exact ⟨c, ⟨hc, hi⟩, rfl⟩

/-- MAIN: decoding any point of the relaxed polytope whose int-constrained coordinates are integral (what the
    integer-feasibility snap establishes; vacuous without int constraints) yields an admissible
    configuration, for every categorical draw. -/
theorem decode_admissible (d : Domain) (x : List Rat) (ω : List Nat) (hw : d.wf = true)
    (hx : inRelaxed d x = true) (hs : intSnapped d.comps (constrainedFlags d) x = true) :
    admissible d (decode d.comps x ω) = true := by
  have hwf := hw
  simp only [Domain.wf, Bool.and_eq_true] at hwf
  have hx' := hx
  simp only [inRelaxed, Bool.and_eq_true, List.all_eq_true, decide_eq_true_eq] at hx'
  simp only [admissible, Bool.and_eq_true, List.all_eq_true, decide_eq_true_eq]
  refine ⟨decode_inBox _ _ _ hwf.1 hx'.1, ?_⟩
  intro c hc
  rw [decode_keeps_constraint_values d x ω c hw hc hx'.1 hs]
  exact hx'.2 c hc

/-- Without int constraints no snap is needed. -/
theorem decode_admissible_no_int_constraints (d : Domain) (x : List Rat) (ω : List Nat) (hw : d.wf = true)
    (hc : isIntConstrained d = false) (hx : inRelaxed d x = true) :
    admissible d (decode d.comps x ω) = true :=
  decode_admissible d x ω hw hx (flags_none_of_not_constrained hc x)

/-! ## D. Integer-feasible neighbours and the snap -/

/-- Every feasible neighbour satisfies all int constraints and is the point with each int-constrained
    coordinate replaced by its floor or its ceiling (nothing else moves) — for the full grid and for the
    random choice vectors `nb` used beyond `MAX_GRID_DIM` alike. -/
theorem feasible_neighbour_spec (d : Domain) (x y : List Rat) (nb : List (List Bool))
    (hx : x.length = totalWidth d.comps) (h : y ∈ feasibleNeighbours d x nb) :
    intFeasible d y = true ∧ neighbourRel d.comps (constrainedFlags d) x y = true := by
  have := mem_feasibleNeighbours hx h
  simpa only [isFeasibleNeighbourOf, Bool.and_eq_true] using this

/-- … and it stays inside the relaxed polytope (box with integral int bounds, double constraints untouched,
    int constraints by the filter), with integral int-constrained coordinates. -/
theorem feasible_neighbour_in_relaxed (d : Domain) (x y : List Rat) (hw : d.wf = true)
    (hx : inRelaxed d x = true) (h : isFeasibleNeighbourOf d x y = true) :
    inRelaxed d y = true ∧ intSnapped d.comps (constrainedFlags d) y = true :=
  feasibleNeighbour_inRelaxed hw hx h

/-- `snap_one_hot_points_to_integer_feasible`, any shuffle outcome (only `shuf i l ⊆ l` is used), any random
    neighbour choices: every returned row is a feasible integer neighbour of some input row (its own, or —
    as a padding row — another one's), hence satisfies every int constraint; never more rows out than in. -/
theorem snap_int_feasible (d : Domain) (shuf : Nat → List (List Rat) → List (List Rat))
    (nb : Nat → List (List Bool)) (xs : List (List Rat)) (hs : ∀ i l, ∀ y ∈ shuf i l, y ∈ l)
    (hx : ∀ x ∈ xs, x.length = totalWidth d.comps) :
    (∀ y ∈ snapIntFeasible d shuf nb xs, intFeasible d y = true ∧
        ∃ x ∈ xs, neighbourRel d.comps (constrainedFlags d) x y = true) ∧
    (snapIntFeasible d shuf nb xs).length ≤ xs.length := by
  obtain ⟨a, b⟩ := snap_sound d shuf nb hs xs
  refine ⟨?_, b⟩
  intro y hy
  obtain ⟨x, hxm, k, hk⟩ := a y hy
  have := feasible_neighbour_spec d x y (nb k) (hx x hxm) hk
  exact ⟨this.1, x, hxm, this.2⟩

/-- If every row has a feasible integer neighbour ("the int constraints admit an integer solution near the
    point") nothing is dropped and row i is replaced by one of its own feasible neighbours. -/
theorem snap_complete_rows (d : Domain) (shuf : Nat → List (List Rat) → List (List Rat))
    (nb : Nat → List (List Bool)) (xs : List (List Rat)) (hs : ∀ i l, ∀ y ∈ shuf i l, y ∈ l)
    (hne : ∀ x ∈ xs, ∀ k, shuf k (feasibleNeighbours d x (nb k)) ≠ []) :
    List.Forall₂ (fun x y => ∃ k, y ∈ feasibleNeighbours d x (nb k)) xs (snapIntFeasible d shuf nb xs) :=
  snap_complete d shuf nb hs xs hne

/-- MAIN (batch form of `map_one_hot_points_to_categorical`): for points of the relaxed polytope, every
    shuffle, every random neighbour choice and every categorical draw, every returned configuration is
    admissible, and no more configurations are returned than points were given. -/
theorem decodeAll_admissible (d : Domain) (shuf : Nat → List (List Rat) → List (List Rat))
    (nb : Nat → List (List Bool)) (ω : Nat → List Nat) (xs : List (List Rat)) (hw : d.wf = true)
    (hs : ∀ i l, ∀ y ∈ shuf i l, y ∈ l) (hx : ∀ x ∈ xs, inRelaxed d x = true) :
    (∀ y ∈ decodeAll d shuf nb ω xs, admissible d y = true) ∧
    (decodeAll d shuf nb ω xs).length ≤ xs.length := by
  have hlen : ∀ x ∈ xs, x.length = totalWidth d.comps := by
    intro x hm
    have := hx x hm
    simp only [inRelaxed, Bool.and_eq_true] at this
    exact inRelaxedBox_length this.1
  unfold decodeAll
  cases hc : isIntConstrained d with
  | false =>
    simp only [Bool.false_eq_true, if_false, decodeRows_length, le_refl, and_true]
    intro y hy
    obtain ⟨x, hxm, j, rfl⟩ := mem_decodeRows _ _ _ _ _ hy
    exact decode_admissible_no_int_constraints d x _ hw hc (hx x hxm)
  | true =>
    simp only [if_true, decodeRows_length]
    obtain ⟨a, b⟩ := snap_sound d shuf nb hs xs
    refine ⟨?_, b⟩
    intro y hy
    obtain ⟨x', hx', j, rfl⟩ := mem_decodeRows _ _ _ _ _ hy
    obtain ⟨x, hxm, k, hk⟩ := a x' hx'
    have hf := mem_feasibleNeighbours (hlen x hxm) hk
    obtain ⟨h1, h2⟩ := feasibleNeighbour_inRelaxed hw (hx x hxm) hf
    exact decode_admissible d x' _ hw h1 h2

/-! ## E. Rounding inside the one-hot space -/

/-- `round_one_hot_points_categorical_values` on a non-empty categorical block: the result is the indicator
    vector of the first arg-max; that position holds a maximal entry of the block. -/
theorem argmaxRound_is_argmax (es b : List Rat) (hne : b ≠ []) :
    let j := argmaxFirst b
    roundCatBlock (.cat es) b = unitVec b.length j ∧ j < b.length ∧
    (∀ v ∈ b, v ≤ b.getD j 0) ∧ (unitVec b.length j).getD j 0 = 1 ∧
    (∀ v ∈ unitVec b.length j, v = 0 ∨ v = 1) :=
  ⟨rfl, argmaxFirst_lt b hne, argmaxFirst_max b, unitVec_getD (argmaxFirst_lt b hne), fun _ h => unitVec_mem h⟩

/-- The three `round_one_hot_points_*_values` functions keep the length and act block by block with the
    stated block functions (ints half-even, grid first-nearest, categorical arg-max indicator). -/
theorem round_blockwise (cs : List Component) (x : List Rat) (hx : x.length = totalWidth cs) :
    ((roundInt cs x).length = x.length ∧ blocks cs (roundInt cs x) = List.zipWith roundIntBlock cs (blocks cs x)) ∧
    ((roundGrid cs x).length = x.length ∧ blocks cs (roundGrid cs x) = List.zipWith roundGridBlock cs (blocks cs x)) ∧
    ((roundCat cs x).length = x.length ∧ blocks cs (roundCat cs x) = List.zipWith roundCatBlock cs (blocks cs x)) :=
  ⟨mapBlocks_blocks _ roundIntBlock_length cs x hx, mapBlocks_blocks _ roundGridBlock_length cs x hx,
   mapBlocks_blocks _ roundCatBlock_length cs x hx⟩

/-- Rounding ints / grid values in the one-hot space and then decoding is the same as decoding. -/
theorem decode_after_rounding (cs : List Component) (x : List Rat) (ω : List Nat)
    (hx : x.length = totalWidth cs) :
    decode cs (roundInt cs x) ω = decode cs x ω ∧ decode cs (roundGrid cs x) ω = decode cs x ω :=
  ⟨decode_mapBlocks _ roundIntBlock_length decodeComp_roundInt cs x ω hx,
   decode_mapBlocks _ roundGridBlock_length decodeComp_roundGrid cs x ω hx⟩

/-! ## F. Length scales -/

/-- categorical → one-hot → categorical is the identity on fully specified length scales -/
theorem ls_roundtrip (cs : List Component) (ls : List (List (Option Rat))) (h : lsShapeOK cs ls = true) :
    lsToCategorical cs (lsToOneHot cs ls) = ls.map fun l => l.map fun o => o.getD 0 :=
  ls_roundtrip_aux cs ls h

/-- one-hot → categorical → one-hot is the identity -/
theorem ls_roundtrip_onehot (cs : List Component) (v : List Rat) (h : v.length = totalWidth cs) :
    lsToOneHot cs ((lsToCategorical cs v).map fun b => b.map some) = v :=
  ls_roundtrip_aux' cs v h

/-- a default (`None`) entry expands to one unit length scale per category -/
theorem ls_default (es : List Rat) (cs : List Component) (ls : List (List (Option Rat))) :
    lsToOneHot (.cat es :: cs) ([none] :: ls) = List.replicate es.length 1 ++ lsToOneHot cs ls := by
  simp [lsToOneHot, Component.numElems]

/-! ## G. Task costs -/

/-- a continuous task cost is snapped to an option, and no option is nearer -/
theorem snapTask_nearest (options : List Rat) (cost : Rat) (hne : options ≠ []) :
    snapTask options cost ∈ options ∧
    ∀ o ∈ options, rabs (cost - snapTask options cost) ≤ rabs (cost - o) :=
  ⟨nearestFirst_mem cost hne, fun _ ho => nearestFirst_le cost ho⟩

/-! ## H. Lattice neighbours of the suggestion endpoint -/

/-- `generate_neighboring_integer_points`: 2^(#int components) rows, each the point with every int coordinate
    floored or ceiled and nothing else moved; for a relaxed-box point of a well-formed domain they stay in the
    relaxed box and all int coordinates are integers. -/
theorem neighInt_on_lattice (cs : List Component) (x : List Rat) (hx : x.length = totalWidth cs) :
    (neighInt cs x).length = 2 ^ countTrue (intFlags cs) ∧
    ∀ y ∈ neighInt cs x, neighbourRel cs (intFlags cs) x y = true ∧ intSnapped cs (intFlags cs) y = true ∧
      (cs.all Component.wf = true → inRelaxedBox cs x = true → inRelaxedBox cs y = true) := by
  refine ⟨by simp [neighInt, allChoices_length], ?_⟩
  intro y hy
  simp only [neighInt, List.mem_map] at hy
  obtain ⟨ch, _, rfl⟩ := hy
  have hr := applyChoice_rel cs (intFlags cs) ch x hx
  exact ⟨hr, neighbourRel_snapped _ _ _ _ hr,
    fun hw hb => neighbourRel_inRelaxedBox _ _ _ _ hw (flagsOnInt_intFlags cs) hb hr⟩

/-- `generate_neighboring_categorical_points`: `product_of_categories` rows, each with every categorical block
    replaced by an indicator vector and nothing else moved; relaxed-box points stay in the relaxed box. -/
theorem neighCat_on_lattice (cs : List Component) (x : List Rat) (hx : x.length = totalWidth cs) :
    (neighCat cs x).length = catProduct cs ∧
    ∀ y ∈ neighCat cs x, catNeighbourRel cs x y = true ∧
      (inRelaxedBox cs x = true → inRelaxedBox cs y = true) := by
  refine ⟨neighCat_length cs x, ?_⟩
  intro y hy
  have hr := neighCat_rel cs x hx y hy
  exact ⟨hr, fun hb => catNeighbourRel_inRelaxedBox cs x y hb hr⟩

/-! ## Non-vacuity: the hypotheses are satisfiable together -/

/-- a mixed domain with one int and one double constraint -/
def exDom : Domain :=
  { comps := [.double 0 1, .int 0 5, .cat [3, 7, -2], .grid [1 / 2, 2, -1], .int (-2) 2],
    cons := [{ weights := [0, 1, 0, 0, 1], rhs := 2, isInt := true },
             { weights := [1, 0, 0, 0, 0], rhs := 1 / 4, isInt := false }] }

/-- a point of its relaxed polytope, already on integers where constrained -/
def exX : List Rat := [1 / 2, 3, 1 / 4, 3 / 4, 1 / 2, 5 / 4, -1]
/-- a point of its relaxed polytope with fractional constrained integers -/
def exX' : List Rat := [1 / 2, 5 / 2, 1 / 4, 3 / 4, 1 / 2, 5 / 4, -1 / 2]

example : exDom.wf = true ∧ inRelaxed exDom exX = true ∧
    intSnapped exDom.comps (constrainedFlags exDom) exX = true ∧
    admissible exDom (decode exDom.comps exX [0, 0, 1, 0, 0]) = true := by decide +kernel

example : inRelaxed exDom exX' = true ∧ isIntConstrained exDom = true ∧
    feasibleNeighbours exDom exX' [] ≠ [] ∧
    (decodeAll exDom (fun _ l => l) (fun _ => []) (fun _ => [0, 0, 2, 0, 0]) [exX', exX]).length = 2 := by
  decide +kernel

example : inBox exDom.comps [1 / 2, 3, -2, 2, -1] = true ∧
    drawOnSupport exDom.comps (encode exDom.comps [1 / 2, 3, -2, 2, -1]) [0, 0, 2, 0, 0] = true ∧
    decode exDom.comps (encode exDom.comps [1 / 2, 3, -2, 2, -1]) [0, 0, 2, 0, 0] = [1 / 2, 3, -2, 2, -1] := by
  decide +kernel

example : lsShapeOK exDom.comps [[some 1], [some 2], [some 3, some 4, some 5], [some 6], [some 7]] = true := by
  decide +kernel

end C09
