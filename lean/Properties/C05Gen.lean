-- generated: Acq
/-
  C05 — tie of the hand-written acquisition model `Model/C05.lean` to the formulas the translator regenerates from the
  current source on every run (`Model/Generated/Acq.lean`: compute_core_components' sqrt_var and z, analytic EI, the
  penalty product, the augmented-EI penalty, the logistic success probability, cost-aware division).

  `*_eq_generated`: over the reals the model's definitions ARE the generated ones, so the theorems of Properties/C05.lean
  about EI, augmented EI, EI with failures, the logistic probability and multitask values are theorems about what the
  source says now.  `gen_*`: headline clauses restated on the generated definitions alone.
  Proofs try `rfl` first and fall back to field arithmetic, so that re-associated or commuted source still checks.
-/
import Properties.C05
import Model.Generated.Acq

set_option linter.unusedTactic false
set_option linter.unreachableTactic false

namespace C05

macro "c05_close" : tactic => `(tactic| first | rfl | ring1 | (congr 1; ring1) | (congr 2; ring1) | (congr 3; ring1))

theorem core_eq_generated (Φ : ℝ → ℝ) (c best mean var : ℝ) :
    (core Φ c best mean var).sqrtVar = Gen.core_sqrt_var var ∧
    (core Φ c best mean var).z = Gen.core_z mean best (Gen.core_sqrt_var var) := by
  constructor <;> first | rfl | (simp only [core, Gen.core_sqrt_var, Gen.core_z] <;> c05_close)

theorem eiNorm_eq_generated (k : Core ℝ) : eiNorm k = Gen.ei_normalized k.cdf k.pdf k.sqrtVar k.z := by
  first | rfl | (simp only [eiNorm, Gen.ei_normalized] <;> c05_close)

theorem eiWithPenalty_eq_generated (Φ : ℝ → ℝ) (c best mean var p : ℝ) :
    eiWithPenalty Φ c best (mean, var) p = Gen.ei_with_penalty (ei Φ c best (mean, var)) p := by
  first | rfl | (simp only [eiWithPenalty, Gen.ei_with_penalty] <;> c05_close)

theorem aeiPenalty_eq_generated (noise var : ℝ) :
    aeiPenalty noise var = Gen.aei_penalty (Gen.aei_ratio (Gen.aei_adjusted_var noise var) noise) := by
  first | rfl | (simp only [aeiPenalty, Gen.aei_penalty, Gen.aei_ratio, Gen.aei_adjusted_var] <;> c05_close)

theorem pfLogistic_eq_generated (κ t μ : ℝ) :
    pfLogistic κ t μ = Gen.pf_success (Gen.pf_denominator (Gen.pf_exponential μ κ t)) := by
  simp only [pfLogistic, Gen.pf_success, Gen.pf_denominator, Gen.pf_exponential, cap_real, Arith.real_ofNat]
  first | rfl | norm_num | (congr 1; ring1) | (congr 2; ring1) | (norm_num; ring_nf; done)

theorem multitask_eq_generated (v cost : ℝ) : multitask v cost = Gen.multitask_value v cost := by
  first | rfl | (simp only [multitask, Gen.multitask_value] <;> c05_close)

/-! ### Clauses of the property on the generated formulas -/

/-- analytic EI as the source computes it is non-negative, for every posterior and incumbent -/
theorem gen_ei_nonneg (Φ : ℝ → ℝ) (c best mean var : ℝ) :
    let s := Gen.core_sqrt_var var
    let z := Gen.core_z mean best s
    0 ≤ Gen.ei_normalized (Φ z) (pdf c z) s z := by
  have h := ei_nonneg Φ c best mean var
  have e : ei Φ c best (mean, var) = eiNorm (core Φ c best mean var) := rfl
  rw [e, eiNorm_eq_generated] at h
  exact h

/-- the augmented-EI penalty of the source lies in [0,1] and is 1 without noise -/
theorem gen_aei_penalty_mem (noise var : ℝ) (hn : 0 ≤ noise) (hv : 0 ≤ var) :
    Gen.aei_penalty (Gen.aei_ratio (Gen.aei_adjusted_var noise var) noise) ∈ Set.Icc (0 : ℝ) 1 := by
  rw [← aeiPenalty_eq_generated]
  exact aeiPenalty_mem_Icc noise var hn hv

/-- the logistic success probability of the source is strictly inside (0,1) and exceeds 1/2 exactly below the threshold -/
theorem gen_pf_mem (κ t μ : ℝ) :
    0 < Gen.pf_success (Gen.pf_denominator (Gen.pf_exponential μ κ t)) ∧
    Gen.pf_success (Gen.pf_denominator (Gen.pf_exponential μ κ t)) < 1 := by
  rw [← pfLogistic_eq_generated]
  exact pfLogistic_mem_Ioo κ t μ

theorem gen_pf_gt_half_iff (κ t μ : ℝ) (hκ : 0 < κ) :
    1 / 2 < Gen.pf_success (Gen.pf_denominator (Gen.pf_exponential μ κ t)) ↔ μ < t := by
  rw [← pfLogistic_eq_generated]
  exact pfLogistic_gt_half_iff κ t μ hκ

/-- EI with a success probability p in [0,1] never exceeds plain EI (the product the source forms) -/
theorem gen_ei_with_penalty_le (e p : ℝ) (he : 0 ≤ e) (h0 : 0 ≤ p) (h1 : p ≤ 1) :
    0 ≤ Gen.ei_with_penalty e p ∧ Gen.ei_with_penalty e p ≤ e := by
  simp only [Gen.ei_with_penalty]
  constructor
  · first | exact mul_nonneg he h0 | exact mul_nonneg h0 he
  · first | exact mul_le_of_le_one_right he h1 | exact mul_le_of_le_one_left he h1

example : Gen.multitask_value (6 : ℝ) 3 = 2 := by norm_num [Gen.multitask_value]

end C05
