/-
  C08 — Restriction and sampling never leave the constrained region.
  Property theorems only (helpers live in Proofs/C08*.lean).  All statements are about the exact model
  `Model/C08.lean` and hold for every dimension, every box, every constraint set, every point and every
  value of the oracle arguments (random draws, LP solution).
-/
import Model.C08
import Proofs.C08Compose
import Proofs.C08Cheby

namespace C08

/-! ### Side lemmas on generated constants (a changed constant breaks exactly these) -/

theorem gen_safetyMargin : safetyMargin = 1 / 100000000 := by norm_num [safetyMargin]
theorem gen_minRadius : minRadius = 1 / 100000000 := by norm_num [minRadius]

/-! ### clip -/

/-- `numpy.clip` puts every point of the right dimension into the box. -/
theorem clip_in_box (bx : Box) (x : Vec) (hwf : boxWF bx = true) (hl : x.length = bx.length) :
    inBox bx (clip bx x) = true := clip_inBox bx x hwf hl

/-- points already in the box are not touched by the clip -/
theorem clip_fixes_box_points (bx : Box) (x : Vec) (h : inBox bx x = true) : clip bx x = x :=
  clip_eq_self bx x h

/-! ### the segment move (`restrict_points_using_constraints`) on one point -/

/-- The moved point is a convex combination of two box points – for every `u ∈ [0,1)`, both flag values,
    any rows and any (in-box) target. -/
theorem restrictOne_in_box (bx : Box) (rows : List Row) (v p : Vec) (onC : Bool) (u : Rat)
    (hu0 : 0 ≤ u) (hu1 : u < 1) (hp : inBox bx p = true) (hv : inBox bx v = true) :
    inBox bx (restrictOne rows v onC u p) = true := restrictOne_inBox bx rows v p onC u hu0 hu1 hp hv

/-- When the target is strictly inside every row, the moved point satisfies every row – for every
    `u ∈ [0,1)` and for `on_constraint`. -/
theorem restrictOne_satisfies (rows : List Row) (v p : Vec) (onC : Bool) (u : Rat)
    (hu0 : 0 ≤ u) (hu1 : u < 1) (hl : p.length = v.length) (hv : strictAll rows v = true) :
    satAll rows (restrictOne rows v onC u p) = true := restrictOne_satAll rows v p onC u hu0 hu1 hl hv

/-- With `on_constraint` the moved point lies ON the face of a violated row that is crossed last (its
    multiplier is the maximum): the tightest violated row becomes an equality. -/
theorem restrictOne_on_face (rows : List Row) (v p : Vec) (u : Rat) (r : Row) (hr : r ∈ rows)
    (hl : p.length = v.length) (hv : dot r.a v < r.b) (hp : r.b < dot r.a p)
    (hmax : multiplier r p v = maxCorrection rows p v) :
    dot r.a (restrictOne rows v true u p) = r.b := by
  obtain ⟨hval, hcross⟩ := violated_valid r p v hv hp
  have hn : needsCorrection rows p v = true := by
    unfold needsCorrection multipliers
    rw [List.any_eq_true]
    exact ⟨_, List.mem_map.mpr ⟨r, hr, rfl⟩, hval⟩
  unfold restrictOne
  rw [if_pos hn, blend_dot _ _ _ _ hl]
  simp only [epsShift, if_true]
  rw [← hmax]; linarith

/-- Feasible points (in particular strictly feasible ones) are left unchanged whenever the target is feasible. -/
theorem restrictOne_fixes (rows : List Row) (v p : Vec) (onC : Bool) (u : Rat)
    (hv : satAll rows v = true) (hp : satAll rows p = true) : restrictOne rows v onC u p = p :=
  restrictOne_eq_self rows v p onC u hv hp

/-! ### the viable-point rule -/

/-- Whatever viable point the caller passes (none, infeasible, on a face, interior), the point the move
    aims at is strictly inside every half-space as soon as the Chebyshev centre is. -/
theorem viable_strict (bx : Box) (rows : List Row) (cheby : Vec) (viable : Option Vec)
    (hlen : cheby.length = bx.length) (hc : strictAll rows cheby = true) :
    strictAll rows (viablePoint bx rows cheby viable) = true := viablePoint_strict bx rows cheby viable hlen hc

/-! ### `restrict_points_to_domain` (clip + viable-point rule + move) -/

/-- Restricted points are inside the bounds (no hypothesis on the constraints at all). -/
theorem restrict_in_box (bx : Box) (cons : List Con) (cheby : Vec) (viable : Option Vec) (onC : Bool) (u : Rat)
    (p : Vec) (hwf : boxWF bx = true) (hl : p.length = bx.length) (hc : inBox bx cheby = true)
    (hu0 : 0 ≤ u) (hu1 : u < 1) :
    inBox bx (restrictPoint bx cons cheby viable onC u p) = true := by
  unfold restrictPoint
  cases cons with
  | nil => exact clip_inBox bx p hwf hl
  | cons c cs =>
    exact restrictOne_inBox bx _ _ _ onC u hu0 hu1 (clip_inBox bx p hwf hl) (viablePoint_inBox bx _ cheby viable hc)

/-- Restricted points are inside the bounds AND satisfy every constraint, for every input point (inside,
    on a face, far outside), every viable point, both flag values and every random draw – provided the
    Chebyshev centre is strictly feasible and every constraint has two or more non-zero weights. -/
theorem restrict_satisfies (bx : Box) (cons : List Con) (cheby : Vec) (viable : Option Vec) (onC : Bool) (u : Rat)
    (p : Vec) (hwf : boxWF bx = true) (hcw : consWF cons = true) (hl : p.length = bx.length)
    (hcl : cheby.length = bx.length) (hc : strictAll (halfspaces bx cons) cheby = true)
    (hu0 : 0 ≤ u) (hu1 : u < 1) :
    inBox bx (restrictPoint bx cons cheby viable onC u p) = true ∧
    satAll (halfspaces bx cons) (restrictPoint bx cons cheby viable onC u p) = true ∧
    ∀ c ∈ cons, c.rhs ≤ dot c.w (restrictPoint bx cons cheby viable onC u p) := by
  have hcb : inBox bx cheby = true :=
    inBox_of_satAll_halfspaces bx cons cheby hcl (strictAll_satAll _ _ hc)
  have hbox := restrict_in_box bx cons cheby viable onC u p hwf hl hcb hu0 hu1
  have hlen : (restrictPoint bx cons cheby viable onC u p).length = bx.length := inBox_length _ _ hbox
  have hrows : satAll (cons.map conRow) (restrictPoint bx cons cheby viable onC u p) = true := by
    unfold restrictPoint
    cases cons with
    | nil => rfl
    | cons c cs =>
      dsimp only
      rw [nonBound_halfspaces bx (c :: cs) hcw]
      have hvs := viablePoint_strict bx (halfspaces bx (c :: cs)) cheby viable hcl hc
      have hvl := viablePoint_length bx (halfspaces bx (c :: cs)) cheby viable hcl
      apply restrictOne_satAll _ _ _ onC u hu0 hu1
      · rw [clip_length bx p hl, hvl]
      · exact strictAll_of_subset _ _ _ (fun r hr => by unfold halfspaces; exact List.mem_append_left _ hr) hvs
  refine ⟨hbox, ?_, ?_⟩
  · unfold halfspaces
    rw [satAll_append, hrows, satAll_boundRows bx _ hlen, hbox]; rfl
  · intro c hc'
    have := (satAll_iff _ _).mp hrows (conRow c) (List.mem_map.mpr ⟨c, hc', rfl⟩)
    exact (sat_conRow c _).mp ((sat_iff _ _).mpr this)

/-- Feasible in-box points – in particular all strictly feasible ones – are returned unchanged, whatever the
    viable point, the flag and the random draw. -/
theorem restrict_fixes_feasible (bx : Box) (cons : List Con) (cheby : Vec) (viable : Option Vec) (onC : Bool)
    (u : Rat) (p : Vec) (hcl : cheby.length = bx.length) (hc : strictAll (halfspaces bx cons) cheby = true)
    (hp : inBox bx p = true) (hps : ∀ c ∈ cons, c.rhs ≤ dot c.w p) :
    restrictPoint bx cons cheby viable onC u p = p := by
  unfold restrictPoint
  rw [clip_eq_self bx p hp]
  cases cons with
  | nil => rfl
  | cons c cs =>
    dsimp only
    have hall : satAll (halfspaces bx (c :: cs)) p = true := by
      unfold halfspaces
      rw [satAll_append, satAll_boundRows bx p (inBox_length _ _ hp), hp, Bool.and_true, satAll_iff]
      intro r hr
      obtain ⟨c', hc', rfl⟩ := List.mem_map.mp hr
      exact (sat_iff _ _).mp ((sat_conRow c' p).mpr (hps c' hc'))
    have hvs := strictAll_satAll _ _ (viablePoint_strict bx (halfspaces bx (c :: cs)) cheby viable hcl hc)
    exact restrictOne_eq_self _ _ _ onC u
      (satAll_of_subset _ _ _ (nonBound_subset _) hvs) (satAll_of_subset _ _ _ (nonBound_subset _) hall)

/-- The array version: every returned row is feasible (one independent draw per row). -/
theorem restrictPoints_all_feasible (bx : Box) (cons : List Con) (cheby : Vec) (viable : Option Vec) (onC : Bool)
    (hwf : boxWF bx = true) (hcw : consWF cons = true) (hcl : cheby.length = bx.length)
    (hc : strictAll (halfspaces bx cons) cheby = true) :
    ∀ (us : List Rat) (ps : List Vec), (∀ u ∈ us, 0 ≤ u ∧ u < 1) → (∀ p ∈ ps, p.length = bx.length) →
    ∀ q ∈ restrictPoints bx cons cheby viable onC us ps,
      inBox bx q = true ∧ satAll (halfspaces bx cons) q = true
  | [], _, _, _, q, hq => by simp [restrictPoints] at hq
  | _ :: _, [], _, _, q, hq => by simp [restrictPoints] at hq
  | u :: us, p :: ps, hu, hp, q, hq => by
    simp only [restrictPoints, List.mem_cons] at hq
    rcases hq with rfl | hq
    · have h0 := hu u (List.mem_cons_self ..)
      have := restrict_satisfies bx cons cheby viable onC u p hwf hcw (hp p (List.mem_cons_self ..)) hcl hc h0.1 h0.2
      exact ⟨this.1, this.2.1⟩
    · exact restrictPoints_all_feasible bx cons cheby viable onC hwf hcw hcl hc us ps
        (fun u' h' => hu u' (List.mem_cons_of_mem _ h')) (fun p' h' => hp p' (List.mem_cons_of_mem _ h')) q hq

/-- `generate_random_points_near_point`: every perturbed-then-restricted point is feasible, for all normal
    draws `zs`, all uniform draws and both flag values. -/
theorem nearPoint_all_feasible (bx : Box) (cons : List Con) (cheby point : Vec) (onC : Bool)
    (zs : List Vec) (us : List Rat)
    (hwf : boxWF bx = true) (hcw : consWF cons = true) (hcl : cheby.length = bx.length)
    (hc : strictAll (halfspaces bx cons) cheby = true) (hpl : point.length = bx.length)
    (hz : ∀ z ∈ zs, z.length = bx.length) (hu : ∀ u ∈ us, 0 ≤ u ∧ u < 1) :
    ∀ q ∈ nearPoint bx cons cheby point onC zs us, inBox bx q = true ∧ satAll (halfspaces bx cons) q = true := by
  unfold nearPoint
  apply restrictPoints_all_feasible bx cons cheby (some point) onC hwf hcw hcl hc us _ hu
  intro p hp
  obtain ⟨z, hz', rfl⟩ := List.mem_map.mp hp
  exact perturb_length bx point z hpl (hz z hz')

/-! ### fixed coordinates -/

/-- Every fixed coordinate holds its fixed value (keys of the dict are distinct). -/
theorem fixCoords_value (fixed : List (Nat × Rat)) (x : Vec) (i : Nat) (w : Rat)
    (hnd : (fixed.map Prod.fst).Nodup) (hm : (i, w) ∈ fixed) (hi : i < x.length) :
    getAt (fixCoords fixed x) i = w := by
  induction fixed generalizing x with
  | nil => cases hm
  | cons iv rest ih =>
    rw [fixCoords_cons]
    simp only [List.map_cons, List.nodup_cons] at hnd
    rcases List.mem_cons.mp hm with h | h
    · subst h
      rw [fixCoords_other rest _ i hnd.1]
      exact getAt_setAt_same x i w hi
    · exact ih _ hnd.2 h (by rw [setAt_length]; exact hi)

/-- Non-fixed coordinates are untouched. -/
theorem fixCoords_others_untouched (fixed : List (Nat × Rat)) (x : Vec) (j : Nat)
    (h : j ∉ fixed.map Prod.fst) : getAt (fixCoords fixed x) j = getAt x j := fixCoords_other fixed x j h

/-- Overwriting coordinates that are within their bounds and unconstrained (weight 0 in every constraint row:
    `_verify_fixed_indices`) keeps a feasible point feasible.  The same statement covers the replacement of
    the unconstrained columns by fresh uniform draws in the forced hit-and-run branch. -/
theorem fixCoords_keeps_feasible (bx : Box) (rows : List Row) (fixed : List (Nat × Rat)) (x : Vec)
    (hf : fixedWF bx rows fixed = true) (hb : inBox bx x = true) (hs : satAll rows x = true) :
    inBox bx (fixCoords fixed x) = true ∧ satAll rows (fixCoords fixed x) = true := by
  simp only [fixedWF, List.all_eq_true, Bool.and_eq_true, decide_eq_true_eq] at hf
  constructor
  · apply fixCoords_inBox fixed bx x hb
    intro iv hiv
    have := hf iv hiv
    exact ⟨this.1.1.1, this.1.1.2, this.1.2⟩
  · rw [satAll_iff] at hs ⊢
    intro r hr
    rw [fixCoords_dot fixed r.a x (fun iv hiv => (hf iv hiv).2 r hr)]
    exact hs r hr

/-- `FixedIndicesOnContinuousDomain.restrict_points_to_domain`: restricted, then fixed – still in the box,
    still satisfying every constraint. -/
theorem fixCoords_after_restrict (bx : Box) (cons : List Con) (cheby : Vec) (viable : Option Vec) (onC : Bool)
    (u : Rat) (p : Vec) (fixed : List (Nat × Rat))
    (hwf : boxWF bx = true) (hcw : consWF cons = true) (hl : p.length = bx.length)
    (hcl : cheby.length = bx.length) (hc : strictAll (halfspaces bx cons) cheby = true)
    (hu0 : 0 ≤ u) (hu1 : u < 1) (hf : fixedWF bx (cons.map conRow) fixed = true) :
    inBox bx (fixCoords fixed (restrictPoint bx cons cheby viable onC u p)) = true ∧
    satAll (cons.map conRow) (fixCoords fixed (restrictPoint bx cons cheby viable onC u p)) = true := by
  have h := restrict_satisfies bx cons cheby viable onC u p hwf hcw hl hcl hc hu0 hu1
  have h2 : satAll (cons.map conRow) (restrictPoint bx cons cheby viable onC u p) = true :=
    satAll_of_subset _ _ _ (fun r hr => by unfold halfspaces; exact List.mem_append_left _ hr) h.2.1
  exact fixCoords_keeps_feasible bx _ fixed _ hf h.1 h2

/-! ### hit-and-run -/

/-- One hit-and-run step from a feasible point stays feasible, for every direction and every `u ∈ [0,1]`. -/
theorem hitAndRunStep_feasible (rows : List Row) (x d x' : Vec) (u : Rat) (hl : x.length = d.length)
    (hx : satAll rows x = true) (hu0 : 0 ≤ u) (hu1 : u ≤ 1) (hs : hitAndRunStep rows x d u = some x') :
    satAll rows x' = true := (hitAndRunStep_sat rows x d x' u hl hx hu0 hu1 hs).1

/-- The step is defined (numpy's `amax/amin` never see an empty set) for every non-zero direction when the
    rows contain the rows of a box – which is how the library builds its polytopes. -/
theorem hitAndRunStep_defined (bx : Box) (rows : List Row) (x d : Vec) (u : Rat)
    (hsub : ∀ r ∈ boundRows bx, r ∈ rows) (hl : d.length = bx.length) (hne : ∃ t ∈ d, t ≠ 0) :
    (hitAndRunStep rows x d u).isSome = true := by
  obtain ⟨⟨r1, hr1, h1⟩, ⟨r2, hr2, h2⟩⟩ := boundRows_both_signs bx d hl hne
  unfold hitAndRunStep
  have e1 : ratiosNeg rows x d ≠ [] := by
    unfold ratiosNeg
    intro h
    have : r1 ∈ rows.filter (fun r => decide (dot r.a d < 0)) := List.mem_filter.mpr ⟨hsub r1 hr1, by simpa using h1⟩
    rw [List.map_eq_nil_iff] at h; rw [h] at this; cases this
  have e2 : ratiosPos rows x d ≠ [] := by
    unfold ratiosPos
    intro h
    have : r2 ∈ rows.filter (fun r => decide (0 < dot r.a d)) := List.mem_filter.mpr ⟨hsub r2 hr2, by simpa using h2⟩
    rw [List.map_eq_nil_iff] at h; rw [h] at this; cases this
  cases hn : ratiosNeg rows x d with
  | nil => exact absurd hn e1
  | cons a as =>
    cases hp : ratiosPos rows x d with
    | nil => exact absurd hp e2
    | cons b bs => simp [maxOf, minOf]

/-- The whole chain (run-up, discarded and returned samples alike) stays feasible: induction over the steps,
    for all directions and all uniform draws. -/
theorem hitAndRun_all_feasible (rows : List Row) (steps : List (Vec × Rat)) (x0 : Vec) (pts : List Vec)
    (hx : satAll rows x0 = true) (hs : ∀ s ∈ steps, s.1.length = x0.length ∧ 0 ≤ s.2 ∧ s.2 ≤ 1)
    (h : hitAndRun rows x0 steps = some pts) :
    (∀ q ∈ pts, satAll rows q = true) ∧ pts.length = steps.length := by
  have := hitAndRun_sat rows steps x0 pts hx hs h
  exact ⟨fun q hq => (this.1 q hq).1, this.2⟩

/-! ### unit-cube samplers -/

/-- The affine map of `unit_cube_sampler_transform_decorator` sends `[0,1]^d` into the box. -/
theorem affineFromUnit_mem (bx : Box) (t : Vec) (hwf : boxWF bx = true) (hl : t.length = bx.length)
    (hu : inUnit t = true) : inBox bx (affineFromUnit bx t) = true := affineFromUnit_inBox bx t hwf hl hu

/-- Latin hypercube: in every dimension the stratum index of row j is exactly the shuffled index `perm j`,
    whatever the jitters; hence each of the n strata holds exactly one point. -/
theorem lhs_one_per_stratum (n : Nat) (perm : List Nat) (ws : List Rat) (hn : 0 < n)
    (hperm : List.Perm perm (List.range n)) (hl : perm.length = ws.length) (hw : ∀ w ∈ ws, 0 ≤ w ∧ w < 1) :
    strata n (lhsColumn n perm ws) = perm.map (fun (p : Nat) => (p : Int)) ∧
    List.Perm (strata n (lhsColumn n perm ws)) ((List.range n).map (fun (k : Nat) => (k : Int))) ∧
    isPermOfRange n (strata n (lhsColumn n perm ws)) = true := by
  have h1 := strata_lhsColumn n hn perm ws hl hw
  have h2 : List.Perm (strata n (lhsColumn n perm ws)) ((List.range n).map (fun (k : Nat) => (k : Int))) := by
    rw [h1]; exact hperm.map _
  exact ⟨h1, h2, isPermOfRange_of_perm n _ h2⟩

/-- Every tuple of per-dimension permutations is produced by some RNG outcome: for each dimension ANY
    permutation `perm` of the strata is realised (independently of what the other dimensions got, since each
    column has its own oracle arguments), with all coordinates in [0, 1). -/
theorem lhs_any_perms (n : Nat) (perm : List Nat) (hn : 0 < n) (hperm : List.Perm perm (List.range n)) :
    ∃ col : Vec, strata n col = perm.map (fun (p : Nat) => (p : Int)) ∧ ∀ x ∈ col, 0 ≤ x ∧ x < 1 := by
  refine ⟨lhsColumn n perm (perm.map (fun _ => 0)), ?_, ?_⟩
  · exact strata_lhsColumn n hn perm _ (by simp) (by intro w hw; simp at hw; obtain ⟨_, _, rfl⟩ := hw; norm_num)
  · intro x hx
    unfold lhsColumn at hx
    rw [List.zipWith_map_right] at hx
    have hx' : ∃ a ∈ perm, (a : Rat) / (n : Rat) = x := by simpa using hx
    obtain ⟨p, hpm, rfl⟩ := hx'
    have hp : p ∈ List.range n := hperm.subset hpm
    rw [List.mem_range] at hp
    have hn' : (0 : Rat) < (n : Rat) := by exact_mod_cast hn
    constructor
    · exact div_nonneg (by exact_mod_cast Nat.zero_le p) (le_of_lt hn')
    · rw [div_lt_one hn']; exact_mod_cast hp

/-- Rejection sampling returns only points that satisfy every row (and at most k of them). -/
theorem rejection_all_satisfy (rows : List Row) (k : Nat) (pts : List Vec) :
    (∀ q ∈ rejectionFilter rows k pts, satAll rows q = true) ∧ (rejectionFilter rows k pts).length ≤ k := by
  unfold rejectionFilter
  constructor
  · intro q hq
    exact (List.mem_filter.mp (List.mem_of_mem_take hq)).2
  · exact List.length_take_le _ _

/-- Rejection sampling padded with hit-and-run: all k returned points satisfy every row. -/
theorem rejectionWithPadding_all_satisfy (rows : List Row) (k : Nat) (cands : List Vec) (x0 : Vec)
    (steps : List (Vec × Rat)) (out : List Vec)
    (hx : satAll rows x0 = true) (hs : ∀ s ∈ steps, s.1.length = x0.length ∧ 0 ≤ s.2 ∧ s.2 ≤ 1)
    (hk : k ≤ (cands.filter (satAll rows)).length + steps.length)
    (h : rejectionWithPadding rows k cands x0 steps = some out) :
    (∀ q ∈ out, satAll rows q = true) ∧ out.length = k := by
  unfold rejectionWithPadding at h
  dsimp only at h
  split_ifs at h with hle
  · simp only [Option.some.injEq] at h; subst h
    refine ⟨fun q hq => (List.mem_filter.mp (List.mem_of_mem_take hq)).2, ?_⟩
    rw [List.length_take]; omega
  · split at h
    · simp at h
    · rename_i chain hchain
      simp only [Option.some.injEq] at h; subst h
      have hc := hitAndRun_all_feasible rows steps x0 chain hx hs hchain
      constructor
      · intro q hq
        rcases List.mem_append.mp hq with hq | hq
        · exact (List.mem_filter.mp hq).2
        · exact hc.1 q (List.mem_of_mem_drop hq)
      · rw [List.length_append, List.length_drop, hc.2]; omega

/-! ### grid -/

/-- Every grid point lies in the box, and the grid has `Π nₖ` points. -/
theorem grid_in_box : ∀ (bx : Box) (ns : List Nat), boxWF bx = true → ns.length = bx.length →
    (∀ q ∈ gridPoints bx ns, inBox bx q = true) ∧ (gridPoints bx ns).length = ns.prod
  | [], [], _, _ => by simp [gridPoints, inBox]
  | [], _ :: _, _, h => by simp at h
  | _ :: _, [], _, h => by simp at h
  | (l, hh) :: bx, n :: ns, hwf, hl => by
    simp only [boxWF, Bool.and_eq_true, decide_eq_true_eq] at hwf
    have ih := grid_in_box bx ns hwf.2 (by simpa using hl)
    constructor
    · intro q hq
      simp only [gridPoints, List.mem_flatMap, List.mem_map] at hq
      obtain ⟨x, hx, rest, hrest, rfl⟩ := hq
      rw [inBox_cons]
      have := linspace_mem l hh n hwf.1 x hx
      exact ⟨this.1, this.2, ih.1 rest hrest⟩
    · simp [gridPoints, List.length_flatMap, linspace_length, ih.2]

/-! ### Chebyshev centre (`find_interior_point`) -/

/-- Certificate ⇒ the whole ball of radius r around c lies inside every half-space. -/
theorem cheby_feasible (rows : List Row) (c : Vec) (r : Rat) (hok : chebyOK rows c r = true) :
    ∀ y : Vec, y.length = c.length → distSq y c ≤ r * r → satAll rows y = true := by
  intro y hl hy
  simp only [chebyOK, Bool.and_eq_true, decide_eq_true_eq, List.all_eq_true] at hok
  rw [satAll_iff]
  intro row hrow
  exact chebyRow_ball c y r row hl (hok.2 row hrow) hy

/-- In particular the centre itself is feasible, strictly so when r > 0 and no row is the zero row. -/
theorem cheby_center_feasible (rows : List Row) (c : Vec) (r : Rat) (hok : chebyOK rows c r = true) :
    satAll rows c = true ∧ (0 < r → (∀ row ∈ rows, 0 < nsq row.a) → strictAll rows c = true) := by
  simp only [chebyOK, Bool.and_eq_true, decide_eq_true_eq, List.all_eq_true] at hok
  constructor
  · rw [satAll_iff]
    intro row hrow
    have := ((chebyRowOK_iff c r row).mp (hok.2 row hrow)).1
    linarith
  · intro hr hnz
    rw [strictAll_iff]
    intro row hrow
    obtain ⟨hs, hsq⟩ := (chebyRowOK_iff c r row).mp (hok.2 row hrow)
    have hpos : 0 < r * r * nsq row.a := mul_pos (mul_pos hr hr) (hnz row hrow)
    by_contra hc
    have : row.b - dot row.a c = 0 := le_antisymm (by linarith) hs
    rw [this] at hsq; linarith

/-- every row of the library's half-space matrix is a non-zero row when constraints carry ≥ 2 weights -/
theorem halfspaces_rows_nonzero (bx : Box) (cons : List Con) (hw : consWF cons = true) :
    ∀ row ∈ halfspaces bx cons, 0 < nsq row.a := by
  intro row hrow
  apply nsq_pos_of_nnz
  unfold halfspaces boundRows at hrow
  rcases List.mem_append.mp hrow with h | h
  · obtain ⟨c, hc, rfl⟩ := List.mem_map.mp h
    simp only [consWF, List.all_eq_true, decide_eq_true_eq] at hw
    have := hw c hc
    simp only [conRow, nnz_map_neg]; omega
  · rcases List.mem_append.mp h with h | h
    · rw [nnz_lowerRows bx row h]; exact Nat.one_pos
    · rw [nnz_upperRows bx row h]; exact Nat.one_pos

/-- A Chebyshev certificate with positive radius makes the centre strictly feasible for the library's
    half-spaces – exactly the hypothesis of `restrict_satisfies`. -/
theorem cheby_strict_of_certificate (bx : Box) (cons : List Con) (c : Vec) (r : Rat)
    (hw : consWF cons = true) (hok : chebyOK (halfspaces bx cons) c r = true) (hr : 0 < r) :
    strictAll (halfspaces bx cons) c = true :=
  (cheby_center_feasible _ c r hok).2 hr (halfspaces_rows_nonzero bx cons hw)

/-- Weak duality: with a dual certificate no feasible (centre, radius) pair has a radius above `y·b`;
    so a reported radius that meets the bound is maximal. -/
theorem cheby_maximal (n : Nat) (rows : List Row) (ls ys : Vec) (x : Vec) (r : Rat)
    (hd : dualOK n rows ls ys = true) (hok : chebyOK rows x r = true) :
    r ≤ dualBound rows ys := by
  simp only [dualOK, Bool.and_eq_true, decide_eq_true_eq] at hd
  obtain ⟨⟨⟨hlen, hrows⟩, hz⟩, hone⟩ := hd
  simp only [chebyOK, Bool.and_eq_true, decide_eq_true_eq, List.all_eq_true] at hok
  have h := dual_sum rows ls ys n x r hlen hrows hok.1 hok.2
  rw [dot_all_zero _ x hz] at h
  unfold dualBound
  nlinarith [hok.1]

/-- `feasible` is reported only for a successful solve with status ≠ 2 and a radius of at least 1e-8:
    infeasible sets (status 2 / failure) and degenerate ones (radius below 1e-8) are flagged infeasible. -/
theorem infeasible_flag_rule (success : Bool) (status : Int) (radius : Rat) :
    feasibleFlag success status radius = true ↔ success = true ∧ status ≠ 2 ∧ (1 : Rat) / 100000000 ≤ radius := by
  unfold feasibleFlag
  rw [gen_minRadius]
  simp only [Bool.and_eq_true, Bool.not_eq_true', Bool.or_eq_false_iff, decide_eq_false_iff_not, not_lt]

/-! ### Non-vacuity: the hypotheses above are satisfiable (triangle `x+y ≤ 1` in the unit square) -/

def exBox : Box := [(0, 1), (0, 1)]
def exCons : List Con := [⟨[-1, -1], -1⟩]          -- -x - y ≥ -1
def exCheby : Vec := [1 / 4, 1 / 4]

example : boxWF exBox = true ∧ consWF exCons = true ∧ strictAll (halfspaces exBox exCons) exCheby = true := by
  decide +kernel
/-- a far-outside point is clipped to (1,1) and moved onto the face x + y = 1 -/
example : restrictPoint exBox exCons exCheby none true 0 [5, 7] = [1 / 2, 1 / 2] := by decide +kernel
example : chebyOK (halfspaces exBox exCons) exCheby (1 / 4) = true := by decide +kernel
example : (hitAndRunStep (halfspaces exBox exCons) exCheby [1, 0] (1 / 2)).isSome = true := by decide +kernel
example : isPermOfRange 3 (strata 3 (lhsColumn 3 [2, 0, 1] [1 / 2, 0, 9 / 10])) = true := by decide +kernel
example : fixedWF [(0, 1), (0, 1), (2, 3)] (exCons.map conRow) [(2, 5 / 2)] = true := by decide +kernel
/-- dual certificate for the unit square: opposite faces with weight 1/2 certify r ≤ 1/2 -/
example : dualOK 1 (boundRows [(0, 1)]) [1, 1] [1 / 2, 1 / 2] = true
    ∧ dualBound (boundRows [(0, 1)]) [1 / 2, 1 / 2] = 1 / 2 ∧ chebyOK (boundRows [(0, 1)]) [1 / 2] (1 / 2) = true := by
  decide +kernel

end C08
