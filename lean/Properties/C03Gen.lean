-- generated: KernelProfiles
/-
  C03 — tie of the four radial profiles of `Model/Kernels.lean` (`phi`: as a function of r², the matrix paths;
  `phiR`: as a function of r, the pairwise path) to the expressions the translator regenerates on every run from
  `eval_radial_kernel` and `_covariance` of SquareExponential / C0 / C2 / C4RadialMatern (Generated/KernelProfiles.lean).
  `*_eq_generated` identify them over the reals; `gen_*` restate the profile clauses of the property (value 1 at distance
  0, range (0,1], non-increasing in the distance) on generated definitions alone.
-/
import Properties.C03
import Model.Generated.KernelProfiles

set_option linter.unusedTactic false
set_option linter.unreachableTactic false

namespace C03
open Kernels

macro "c03_close" : tactic => `(tactic| first
  | rfl | ring1 | (congr 1; ring1) | (congr 2; ring1) | (congr 1 <;> first | rfl | ring1 | (congr 1; ring1)))

/-- the generated profile of each kernel kind, as a function of the squared distance -/
noncomputable def genPhi : Kind → ℝ → ℝ
  | .se => Gen.phi_se
  | .c0 => Gen.phi_c0
  | .c2 => Gen.phi_c2
  | .c4 => Gen.phi_c4

/-- … and as a function of the distance -/
noncomputable def genPhiR : Kind → ℝ → ℝ
  | .se => Gen.phiR_se
  | .c0 => Gen.phiR_c0
  | .c2 => Gen.phiR_c2
  | .c4 => Gen.phiR_c4

theorem phi_eq_generated (k : Kind) (d : ℝ) : phi k d = genPhi k d := by
  cases k <;>
    simp only [phi, genPhi, Gen.phi_se, Gen.phi_c0, Gen.phi_c2, Gen.phi_c4, two_real, three_real, Arith.real_ofNat,
      Arith.real_exp, Arith.real_sqrt] <;>
    first | rfl | (push_cast; c03_close)

theorem phiR_eq_generated (k : Kind) (r : ℝ) : phiR k r = genPhiR k r := by
  cases k <;>
    simp only [phiR, Kernels.sq, genPhiR, Gen.phiR_se, Gen.phiR_c0, Gen.phiR_c2, Gen.phiR_c4, two_real, three_real,
      Arith.real_ofNat, Arith.real_exp, Arith.real_sqrt] <;>
    first | rfl | (push_cast; c03_close)

/-! ### Profile clauses on the generated expressions -/

/-- k(x,x) = alpha: every generated profile is exactly 1 at squared distance 0 -/
theorem gen_phi_zero (k : Kind) : genPhi k 0 = 1 := by
  rw [← phi_eq_generated]; exact phi_zero k

/-- 0 < profile ≤ 1 for every squared distance ≥ 0 -/
theorem gen_phi_range (k : Kind) {d : ℝ} (hd : 0 ≤ d) : 0 < genPhi k d ∧ genPhi k d ≤ 1 := by
  rw [← phi_eq_generated]; exact ⟨phi_pos k hd, phi_le_one k hd⟩

/-- non-increasing in the squared distance (matrix paths) and in the distance (pairwise path) -/
theorem gen_phi_antitoneOn (k : Kind) : AntitoneOn (genPhi k) (Set.Ici 0) := by
  have h : genPhi k = (phi k : ℝ → ℝ) := by funext d; exact (phi_eq_generated k d).symm
  rw [h]; exact phi_antitoneOn k

theorem gen_phiR_antitoneOn (k : Kind) : AntitoneOn (genPhiR k) (Set.Ici 0) := by
  have h : genPhiR k = (phiR k : ℝ → ℝ) := by funext r; exact (phiR_eq_generated k r).symm
  rw [h]; exact phiR_antitoneOn k

/-- the two code paths agree: the pairwise expression at sqrt d is the matrix expression at d -/
theorem gen_paths_agree (k : Kind) {d : ℝ} (hd : 0 ≤ d) : genPhiR k (Real.sqrt d) = genPhi k d := by
  rw [← phiR_eq_generated, ← phi_eq_generated]; exact phiR_sqrt k hd

end C03
