/-
  C03 — Covariance kernels are valid, correctly parameterised kernels.
  Property theorems only (helpers: Proofs/C03Lemmas.lean, Proofs/C03Psd.lean, Proofs/C03Matern.lean).  Everything is about
  the `ℝ` instance of the polymorphic model `Model/Kernels.lean` (+ `Model/C03.lean`), for every
  kernel kind, every dimension, every hyperparameter vector and every point set.

  Positive semi-definiteness is proved for ALL FOUR radial profiles, in every dimension, for every
  length-scale vector, every alpha ≥ 0 and every finite point set (`radial_gram_posSemidef`):
  the square exponential through its power series and the Schur product theorem
  (`se_gram_posSemidef`), the three Matérn profiles exp(−r), (1+r)exp(−r), (1+r+r²/3)exp(−r) as
  non-negative scale mixtures of Gaussians (`c0_gram_posSemidef`, `c2_gram_posSemidef`,
  `c4_gram_posSemidef`; helpers Proofs/C03Matern.lean, Proofs/C03MaternIntegrals.lean).  PSD is
  preserved by every construction the code applies on top of a PSD profile matrix (alpha ≥ 0,
  Hadamard/tensor product, diagonal noise ≥ 0), hence also the noisy matrices the GP factorises
  (`radial_gramNoise_posSemidef`) and the multitask tensor kernel (`multitask_gram_posSemidef`).
-/
import Model.Kernels
import Model.C03
import Proofs.C03Lemmas
import Proofs.C03Psd
import Proofs.C03Matern

namespace C03
open Kernels Matrix

/-! ### 1. The three squared-distance formulas of the three entry points agree -/

/-- Σ ((x−z)/l)² is a sum of squares. -/
theorem r2_nonneg (ls x z : List ℝ) : 0 ≤ r2 ls x z := r2_nonneg' ls x z

/-- On vectors of any dimension d the model's `r2` is the documented
    `(x − z)ᵀ L (x − z)`, `L = diag(1/l²)`, written as Σ ((x_k − z_k)/l_k)². -/
theorem r2_eq_sum {d : Nat} (l x z : Fin d → ℝ) :
    r2 (List.ofFn l) (List.ofFn x) (List.ofFn z) = ∑ k, ((x k - z k) / l k) ^ 2 := r2_ofFn l x z

/-- `pdist(data / l, "sqeuclidean")` computes the same number as the pairwise formula. -/
theorem r2Scaled_eq_r2 (ls x z : List ℝ) : r2Scaled ls x z = r2 ls x z := r2Scaled_eq ls x z

/-- `fmax(0, ‖x/l‖² + ‖z/l‖² − 2 (x/l)·(z/l))` computes the same number as the pairwise formula (the
    clamp never acts in exact arithmetic). -/
theorem r2Expanded_eq_r2 (ls x z : List ℝ) (h : x.length = z.length) : r2Expanded ls x z = r2 ls x z :=
  r2Expanded_eq ls x z h

theorem r2_self (ls x : List ℝ) : r2 ls x x = 0 := r2_self' ls x
theorem r2_symm (ls x z : List ℝ) : r2 ls x z = r2 ls z x := r2_symm' ls x z

/-! ### 2. Radial profiles: closed forms, value at 0, range, monotonicity -/

/-- documented closed forms as functions of the distance r ≥ 0 (argument of `phi` is r²) -/
theorem phi_se_closed_form (r : ℝ) : phi Kind.se (r ^ 2) = Real.exp (-(r ^ 2) / 2) := by
  simp [phi]; ring_nf
theorem phi_c0_closed_form {r : ℝ} (hr : 0 ≤ r) : phi Kind.c0 (r ^ 2) = Real.exp (-r) := by
  simp [phi, Real.sqrt_sq hr]
theorem phi_c2_closed_form {r : ℝ} (hr : 0 ≤ r) : phi Kind.c2 (r ^ 2) = (1 + r) * Real.exp (-r) := by
  simp [phi, Real.sqrt_sq hr]
theorem phi_c4_closed_form {r : ℝ} (hr : 0 ≤ r) :
    phi Kind.c4 (r ^ 2) = (1 + r + r ^ 2 / 3) * Real.exp (-r) := by
  simp [phi, Real.sqrt_sq hr]; ring_nf

/-- the pairwise path (profile evaluated from r = sqrt r²) and the matrix paths (profile evaluated
    from r²) are the same function -/
theorem phiR_sqrt (k : Kind) {d : ℝ} (hd : 0 ≤ d) : phiR k (Real.sqrt d) = phi k d := by
  rw [phiR_eq_profile, phi_eq_profile_sqrt k hd]

theorem phi_zero (k : Kind) : phi k (0 : ℝ) = 1 := by
  rw [phi_eq_profile_sqrt k (le_refl 0), Real.sqrt_zero, profile_zero]

theorem phi_pos (k : Kind) {d : ℝ} (hd : 0 ≤ d) : 0 < phi k d := by
  rw [phi_eq_profile_sqrt k hd]; exact profile_pos k (Real.sqrt_nonneg d)

theorem phi_le_one (k : Kind) {d : ℝ} (hd : 0 ≤ d) : phi k d ≤ 1 := by
  rw [phi_eq_profile_sqrt k hd]; exact profile_le_one k (Real.sqrt_nonneg d)

/-- every profile is non-increasing in the squared distance on [0, ∞) … -/
theorem phi_antitoneOn (k : Kind) : AntitoneOn (phi k : ℝ → ℝ) (Set.Ici 0) := by
  intro a ha b hb hab
  have ha' : (0 : ℝ) ≤ a := ha
  have hb' : (0 : ℝ) ≤ b := hb
  rw [phi_eq_profile_sqrt k ha', phi_eq_profile_sqrt k hb']
  exact profile_antitone k (Real.sqrt_nonneg a) (Real.sqrt_le_sqrt hab)

/-- … and in the distance r itself. -/
theorem phiR_antitoneOn (k : Kind) : AntitoneOn (phiR k : ℝ → ℝ) (Set.Ici 0) := by
  intro a ha b _ hab
  rw [phiR_eq_profile, phiR_eq_profile]
  exact profile_antitone k ha hab

/-! ### 3. The kernel: alpha · phi(r²) -/

theorem kernel_se_closed_form (alpha : ℝ) (ls x z : List ℝ) :
    kernel Kind.se alpha ls x z = alpha * Real.exp (-(r2 ls x z) / 2) := by
  unfold kernel
  simp only [phi, Arith.real_exp, two_real, neg_div]
theorem kernel_c0_closed_form (alpha : ℝ) (ls x z : List ℝ) :
    kernel Kind.c0 alpha ls x z = alpha * Real.exp (-Real.sqrt (r2 ls x z)) := by
  simp [kernel, phi]
theorem kernel_c2_closed_form (alpha : ℝ) (ls x z : List ℝ) :
    kernel Kind.c2 alpha ls x z
      = alpha * ((1 + Real.sqrt (r2 ls x z)) * Real.exp (-Real.sqrt (r2 ls x z))) := by
  simp [kernel, phi]
theorem kernel_c4_closed_form (alpha : ℝ) (ls x z : List ℝ) :
    kernel Kind.c4 alpha ls x z
      = alpha * ((1 + Real.sqrt (r2 ls x z) + Real.sqrt (r2 ls x z) ^ 2 / 3)
                  * Real.exp (-Real.sqrt (r2 ls x z))) := by
  unfold kernel
  rw [Real.sq_sqrt (r2_nonneg ls x z)]
  simp only [phi, Arith.real_exp, Arith.real_sqrt, three_real]
  ring

/-- `covariance(x, z)` (pairwise entry point) is the closed form. -/
theorem covariance_eq_kernel (k : Kind) (alpha : ℝ) (ls x z : List ℝ) :
    covariance k alpha ls x z = kernel k alpha ls x z := by
  unfold covariance kernel
  simp only [Arith.real_sqrt]
  rw [phiR_sqrt k (r2_nonneg ls x z)]

/-- k(x, x) is the process variance. -/
theorem kernel_self (k : Kind) (alpha : ℝ) (ls x : List ℝ) : kernel k alpha ls x x = alpha := by
  simp [kernel, r2_self, phi_zero]

theorem kernel_symm (k : Kind) (alpha : ℝ) (ls x z : List ℝ) :
    kernel k alpha ls x z = kernel k alpha ls z x := by
  simp [kernel, r2_symm ls x z]

/-- translation invariance: shifting both points by the same vector does not change the value -/
theorem kernel_translation_invariant (k : Kind) (alpha : ℝ) (ls x z t : List ℝ)
    (hx : t.length = x.length) (hz : t.length = z.length) :
    kernel k alpha ls (List.zipWith (· + ·) x t) (List.zipWith (· + ·) z t) = kernel k alpha ls x z := by
  simp [kernel, r2_translate' ls x z t hx hz]

theorem kernel_pos (k : Kind) {alpha : ℝ} (ha : 0 < alpha) (ls x z : List ℝ) :
    0 < kernel k alpha ls x z :=
  mul_pos ha (phi_pos k (r2_nonneg ls x z))

theorem kernel_le_alpha (k : Kind) {alpha : ℝ} (ha : 0 ≤ alpha) (ls x z : List ℝ) :
    kernel k alpha ls x z ≤ alpha := by
  have := mul_le_mul_of_nonneg_left (phi_le_one k (r2_nonneg ls x z)) ha
  simpa [kernel] using this

/-- non-increasing in the scaled distance: a farther pair never has the larger covariance -/
theorem kernel_antitone (k : Kind) {alpha : ℝ} (ha : 0 ≤ alpha) (ls x z x' z' : List ℝ)
    (h : r2 ls x z ≤ r2 ls x' z') : kernel k alpha ls x' z' ≤ kernel k alpha ls x z := by
  unfold kernel
  exact mul_le_mul_of_nonneg_left (phi_antitoneOn k (r2_nonneg ls x z) (r2_nonneg ls x' z') h) ha

example : kernel Kind.c4 (2 : ℝ) [1, 1] [0, 0] [0, 0] = 2 := kernel_self _ _ _ _

/-! ### 4. Entry points: pairwise vector, symmetric matrix, cross matrix -/

theorem gram_shape (k : Kind) (alpha : ℝ) (ls : List ℝ) (X : List (List ℝ)) :
    hasShape (gram k alpha ls X) X.length X.length := by
  constructor
  · simp [gram]
  · intro row hrow
    simp only [gram, List.mem_map] at hrow
    obtain ⟨_, _, rfl⟩ := hrow
    simp

/-- rows = points to sample, columns = sampled points -/
theorem crossGram_shape (k : Kind) (alpha : ℝ) (ls : List ℝ) (X Z : List (List ℝ)) :
    hasShape (crossGram k alpha ls X Z) Z.length X.length := by
  constructor
  · simp [crossGram]
  · intro row hrow
    simp only [crossGram, List.mem_map] at hrow
    obtain ⟨_, _, rfl⟩ := hrow
    simp

theorem gram_entry (k : Kind) (alpha : ℝ) (ls : List ℝ) (X : List (List ℝ)) (i j : Nat)
    (hi : i < X.length) (hj : j < X.length) :
    entry (gram k alpha ls X) i j = some (kernel k alpha ls X[i] X[j]) := by
  simp [entry, gram, kernel, hi, hj, r2Scaled_eq_r2]

theorem crossGram_entry (k : Kind) (alpha : ℝ) (ls : List ℝ) (X Z : List (List ℝ)) (i j : Nat)
    (hi : i < Z.length) (hj : j < X.length) (hdim : Z[i].length = X[j].length) :
    entry (crossGram k alpha ls X Z) i j = some (kernel k alpha ls Z[i] X[j]) := by
  simp [entry, crossGram, kernel, hi, hj, r2Expanded_eq_r2 ls Z[i] X[j] hdim]

theorem covarianceVec_entry (k : Kind) (alpha : ℝ) (ls : List ℝ) (X Z : List (List ℝ)) (i : Nat)
    (hi : i < X.length) (hz : i < Z.length) :
    (covarianceVec k alpha ls X Z)[i]? = some (kernel k alpha ls X[i] Z[i]) := by
  simp [covarianceVec, hi, hz, covariance_eq_kernel]

/-- The three public entry points return the same number for the same pair of points:
    symmetric matrix entry = cross matrix entry (sampled set against itself) = pairwise value. -/
theorem entrypoints_agree (k : Kind) (alpha : ℝ) (ls : List ℝ) (X : List (List ℝ)) (i j : Nat)
    (hi : i < X.length) (hj : j < X.length) (hdim : X[i].length = X[j].length) :
    entry (gram k alpha ls X) i j = entry (crossGram k alpha ls X X) i j ∧
    entry (gram k alpha ls X) i j = some (covariance k alpha ls X[i] X[j]) := by
  rw [gram_entry k alpha ls X i j hi hj, crossGram_entry k alpha ls X X i j hi hj hdim,
    covariance_eq_kernel]
  exact ⟨rfl, rfl⟩

/-- the symmetric Gram matrix is symmetric and carries alpha on its diagonal -/
theorem gram_symm (k : Kind) (alpha : ℝ) (ls : List ℝ) (X : List (List ℝ)) (i j : Nat)
    (hi : i < X.length) (hj : j < X.length) :
    entry (gram k alpha ls X) i j = entry (gram k alpha ls X) j i := by
  rw [gram_entry k alpha ls X i j hi hj, gram_entry k alpha ls X j i hj hi, kernel_symm]

theorem gram_diag (k : Kind) (alpha : ℝ) (ls : List ℝ) (X : List (List ℝ)) (i : Nat) (hi : i < X.length) :
    entry (gram k alpha ls X) i i = some alpha := by
  rw [gram_entry k alpha ls X i i hi hi, kernel_self]

/-! ### 5. Observation noise: on the diagonal only, applied once -/

theorem addDiag_entry (M : List (List ℝ)) (noise : List ℝ) (i j : Nat) :
    entry (addDiag M noise) i j
      = (entry M i j).map fun v => if i = j then v + noise.getD i 0 else v := by
  unfold entry addDiag
  rw [List.getElem?_mapIdx]
  cases h : M[i]? with
  | none => simp
  | some row =>
    simp only [Option.map_some, Option.bind_some]
    rw [List.getElem?_mapIdx]

theorem gramNoise_offdiag (k : Kind) (alpha : ℝ) (ls : List ℝ) (X : List (List ℝ)) (noise : List ℝ)
    (i j : Nat) (hij : i ≠ j) :
    entry (gramNoise k alpha ls X noise) i j = entry (gram k alpha ls X) i j := by
  unfold gramNoise
  rw [addDiag_entry]
  cases entry (gram k alpha ls X) i j <;> simp [hij]

theorem gramNoise_diag (k : Kind) (alpha : ℝ) (ls : List ℝ) (X : List (List ℝ)) (noise : List ℝ)
    (i : Nat) (hi : i < X.length) :
    entry (gramNoise k alpha ls X noise) i i = some (alpha + noise.getD i 0) := by
  unfold gramNoise
  rw [addDiag_entry, gram_diag k alpha ls X i hi]
  simp

/-- the public entry point: without noise it is the Gram / cross matrix, with noise on a square matrix
    the diagonal is shifted, and noise on a rectangular matrix is refused -/
theorem buildKernelMatrix_spec (k : Kind) (alpha : ℝ) (ls : List ℝ) (X : List (List ℝ)) :
    buildKernelMatrix k alpha ls X none none = .ok (gram k alpha ls X) ∧
    (∀ Z, buildKernelMatrix k alpha ls X (some Z) none = .ok (crossGram k alpha ls X Z)) ∧
    (∀ s, buildKernelMatrix k alpha ls X none (some s) = .ok (gramNoise k alpha ls X s)) ∧
    (∀ Z s, Z.length ≠ X.length →
      buildKernelMatrix k alpha ls X (some Z) (some s) = .error .noiseOnRectangular) := by
  refine ⟨rfl, fun _ => rfl, fun s => ?_, fun Z s h => ?_⟩
  · simp [buildKernelMatrix, gramNoise]
  · simp [buildKernelMatrix, h]

/-! ### 6. Multitask tensor kernel = physical kernel × task kernel, alpha applied once -/

theorem multitask_eq_product (kp kt : Kind) (alpha : ℝ) (ls : List ℝ) (lt : ℝ) (x z : List ℝ) :
    multitask kp kt alpha ls lt x z
      = alpha * (kernel kp 1 ls (physPart x) (physPart z) * kernel kt 1 [lt] (taskPart x) (taskPart z)) := by
  simp [multitask, kernel]

theorem multitaskCovariance_eq (kp kt : Kind) (alpha : ℝ) (ls : List ℝ) (lt : ℝ) (x z : List ℝ) :
    multitaskCovariance kp kt alpha ls lt x z = multitask kp kt alpha ls lt x z := by
  unfold multitaskCovariance multitask
  simp only [Arith.real_sqrt]
  rw [phiR_sqrt kp (r2_nonneg _ _ _), phiR_sqrt kt (r2_nonneg _ _ _)]

theorem multitask_self (kp kt : Kind) (alpha : ℝ) (ls : List ℝ) (lt : ℝ) (x : List ℝ) :
    multitask kp kt alpha ls lt x x = alpha := by
  simp [multitask, r2_self, phi_zero]

theorem multitask_symm (kp kt : Kind) (alpha : ℝ) (ls : List ℝ) (lt : ℝ) (x z : List ℝ) :
    multitask kp kt alpha ls lt x z = multitask kp kt alpha ls lt z x := by
  simp [multitask, r2_symm ls (physPart x), r2_symm [lt] (taskPart x)]

/-- the tensor kernel is translation invariant as well (physical and task coordinates) -/
theorem multitask_translation_invariant (kp kt : Kind) (alpha : ℝ) (ls : List ℝ) (lt : ℝ)
    (x z t : List ℝ) (hx : t.length = x.length) (hz : t.length = z.length) :
    multitask kp kt alpha ls lt (List.zipWith (· + ·) x t) (List.zipWith (· + ·) z t)
      = multitask kp kt alpha ls lt x z := by
  unfold multitask
  rw [physPart_shift x t hx, physPart_shift z t hz, taskPart_shift x t hx, taskPart_shift z t hz]
  rw [r2_translate' ls _ _ _ (by simp [physPart, hx]) (by simp [physPart, hz]),
      r2_translate' [lt] _ _ _ (by simp [taskPart, hx]) (by simp [taskPart, hz])]

theorem multitask_pos_le (kp kt : Kind) {alpha : ℝ} (ha : 0 < alpha) (ls : List ℝ) (lt : ℝ) (x z : List ℝ) :
    0 < multitask kp kt alpha ls lt x z ∧ multitask kp kt alpha ls lt x z ≤ alpha := by
  have p1 := phi_pos kp (r2_nonneg ls (physPart x) (physPart z))
  have p2 := phi_pos kt (r2_nonneg [lt] (taskPart x) (taskPart z))
  have l1 := phi_le_one kp (r2_nonneg ls (physPart x) (physPart z))
  have l2 := phi_le_one kt (r2_nonneg [lt] (taskPart x) (taskPart z))
  unfold multitask
  constructor
  · positivity
  · have : phi kp (r2 ls (physPart x) (physPart z)) * phi kt (r2 [lt] (taskPart x) (taskPart z)) ≤ 1 := by
      nlinarith
    nlinarith

theorem multitaskGram_entry (kp kt : Kind) (alpha : ℝ) (ls : List ℝ) (lt : ℝ) (X : List (List ℝ))
    (i j : Nat) (hi : i < X.length) (hj : j < X.length) :
    entry (multitaskGram kp kt alpha ls lt X) i j = some (multitask kp kt alpha ls lt X[i] X[j]) := by
  simp [entry, multitaskGram, multitask, hi, hj, r2Scaled_eq_r2]

theorem multitaskCrossGram_entry (kp kt : Kind) (alpha : ℝ) (ls : List ℝ) (lt : ℝ) (X Z : List (List ℝ))
    (i j : Nat) (hi : i < Z.length) (hj : j < X.length) (hdim : Z[i].length = X[j].length) :
    entry (multitaskCrossGram kp kt alpha ls lt X Z) i j
      = some (multitask kp kt alpha ls lt Z[i] X[j]) := by
  have h1 : (physPart Z[i]).length = (physPart X[j]).length := by simp [physPart, hdim]
  have h2 : (taskPart Z[i]).length = (taskPart X[j]).length := by simp [taskPart, hdim]
  simp [entry, multitaskCrossGram, multitask, hi, hj, r2Expanded_eq_r2 _ _ _ h1,
    r2Expanded_eq_r2 _ _ _ h2]

/-! ### 7. Positive semi-definiteness -/

/-- the list model's Gram matrix is the mathematical Gram matrix `gramMatrix` -/
theorem gram_eq_gramMatrix (k : Kind) (alpha : ℝ) (ls : List ℝ) {n : Nat} (pts : Fin n → List ℝ)
    (i j : Fin n) :
    entry (gram k alpha ls (List.ofFn pts)) i j = some (gramMatrix (kernel k alpha ls) pts i j) := by
  rw [gram_entry k alpha ls (List.ofFn pts) i j (by simp) (by simp)]
  simp

/-- Schur product theorem for our Gram matrices: the entrywise product of PSD matrices is PSD. -/
theorem hadamard_psd {n : Nat} (A B : Matrix (Fin n) (Fin n) ℝ) (hA : A.PosSemidef) (hB : B.PosSemidef) :
    (A ⊙ B).PosSemidef := hA.hadamard hB

/-- multiplying by a process variance alpha ≥ 0 keeps a Gram matrix PSD -/
theorem alpha_psd {n : Nat} (k : Kind) {alpha : ℝ} (ha : 0 ≤ alpha) (ls : List ℝ) (pts : Fin n → List ℝ)
    (h : (gramMatrix (kernel k 1 ls) pts).PosSemidef) : (gramMatrix (kernel k alpha ls) pts).PosSemidef := by
  have e : gramMatrix (kernel k alpha ls) pts = alpha • gramMatrix (kernel k 1 ls) pts := by
    ext i j; simp [kernel]
  rw [e]; exact h.smul ha

/-- The multitask Gram matrix is alpha · (physical Gram ⊙ task Gram); it is PSD as soon as both factor
    Gram matrices are and alpha ≥ 0. -/
theorem multitask_gram_psd {n : Nat} (kp kt : Kind) {alpha : ℝ} (ha : 0 ≤ alpha) (ls : List ℝ) (lt : ℝ)
    (pts : Fin n → List ℝ)
    (hp : (gramMatrix (kernel kp 1 ls) (fun i => physPart (pts i))).PosSemidef)
    (ht : (gramMatrix (kernel kt 1 [lt]) (fun i => taskPart (pts i))).PosSemidef) :
    (gramMatrix (multitask kp kt alpha ls lt) pts).PosSemidef := by
  have e : gramMatrix (multitask kp kt alpha ls lt) pts
      = alpha • (gramMatrix (kernel kp 1 ls) (fun i => physPart (pts i)) ⊙
                 gramMatrix (kernel kt 1 [lt]) (fun i => taskPart (pts i))) := by
    ext i j; simp [multitask_eq_product]
  rw [e]; exact (hp.hadamard ht).smul ha

/-- adding non-negative observation noise on the diagonal keeps a PSD matrix PSD -/
theorem add_diag_psd {n : Nat} (A : Matrix (Fin n) (Fin n) ℝ) (hA : A.PosSemidef) (noise : Fin n → ℝ)
    (hn : ∀ i, 0 ≤ noise i) : (A + Matrix.diagonal noise).PosSemidef :=
  hA.add (Matrix.PosSemidef.diagonal (fun i => hn i))

/-- the list model's noisy Gram matrix is `gramMatrix + diagonal noise` -/
theorem gramNoise_eq_matrix (k : Kind) (alpha : ℝ) (ls : List ℝ) {n : Nat} (pts : Fin n → List ℝ)
    (noise : Fin n → ℝ) (i j : Fin n) :
    entry (gramNoise k alpha ls (List.ofFn pts) (List.ofFn noise)) i j
      = some ((gramMatrix (kernel k alpha ls) pts + Matrix.diagonal noise) i j) := by
  unfold gramNoise
  rw [addDiag_entry, gram_eq_gramMatrix]
  by_cases h : i = j
  · subst h; simp
  · have : (i : Nat) ≠ (j : Nat) := fun e => h (Fin.ext e)
    simp [this, h]

/-- [stretch, proved] The square exponential Gram matrix is positive semi-definite for every
    dimension d, every length-scale vector, every alpha ≥ 0 and every finite point set. -/
theorem se_gram_posSemidef {n d : Nat} {alpha : ℝ} (ha : 0 ≤ alpha) (l : Fin d → ℝ)
    (pts : Fin n → Fin d → ℝ) :
    (gramMatrix (kernel Kind.se alpha (List.ofFn l)) (fun i => List.ofFn (pts i))).PosSemidef := by
  have h := (se_profile_gram_psd l pts).smul ha
  have e : gramMatrix (kernel Kind.se alpha (List.ofFn l)) (fun i => List.ofFn (pts i))
      = alpha • gramMatrix (fun x z : Fin d → ℝ =>
          phi Kind.se (r2 (List.ofFn l) (List.ofFn x) (List.ofFn z))) pts := by
    ext i j; simp [kernel]
  rw [e]; exact h

/-- … and stays so with non-negative noise on the diagonal (the matrix the GP factorises). -/
theorem se_gramNoise_posSemidef {n d : Nat} {alpha : ℝ} (ha : 0 ≤ alpha) (l : Fin d → ℝ)
    (pts : Fin n → Fin d → ℝ) (noise : Fin n → ℝ) (hn : ∀ i, 0 ≤ noise i) :
    (gramMatrix (kernel Kind.se alpha (List.ofFn l)) (fun i => List.ofFn (pts i))
      + Matrix.diagonal noise).PosSemidef :=
  add_diag_psd _ (se_gram_posSemidef ha l pts) noise hn

/-- [proved] The Gram matrix of EVERY radial kernel of the model (square exponential, C0, C2, C4
    Matérn) is positive semi-definite for every dimension d, every length-scale vector, every
    alpha ≥ 0 and every finite point set. -/
theorem radial_gram_posSemidef (k : Kind) {n d : Nat} {alpha : ℝ} (ha : 0 ≤ alpha) (l : Fin d → ℝ)
    (pts : Fin n → Fin d → ℝ) :
    (gramMatrix (kernel k alpha (List.ofFn l)) (fun i => List.ofFn (pts i))).PosSemidef := by
  have h := (profile_gram_psd k l pts).smul ha
  have e : gramMatrix (kernel k alpha (List.ofFn l)) (fun i => List.ofFn (pts i))
      = alpha • gramMatrix (fun x z : Fin d → ℝ =>
          phi k (r2 (List.ofFn l) (List.ofFn x) (List.ofFn z))) pts := by
    ext i j; simp [kernel]
  rw [e]; exact h

/-- [proved] C0 Matérn, `alpha · exp(−r)`: the Gram matrix is positive semi-definite (scale mixture of
    Gaussians `exp(−r) = (2/√π) ∫_0^∞ e^{−x²} e^{−r²/(4x²)} dx`). -/
theorem c0_gram_posSemidef {n d : Nat} {alpha : ℝ} (ha : 0 ≤ alpha) (l : Fin d → ℝ)
    (pts : Fin n → Fin d → ℝ) :
    (gramMatrix (kernel Kind.c0 alpha (List.ofFn l)) (fun i => List.ofFn (pts i))).PosSemidef :=
  radial_gram_posSemidef Kind.c0 ha l pts

/-- [proved] C2 Matérn, `alpha · (1+r) exp(−r)`: the Gram matrix is positive semi-definite. -/
theorem c2_gram_posSemidef {n d : Nat} {alpha : ℝ} (ha : 0 ≤ alpha) (l : Fin d → ℝ)
    (pts : Fin n → Fin d → ℝ) :
    (gramMatrix (kernel Kind.c2 alpha (List.ofFn l)) (fun i => List.ofFn (pts i))).PosSemidef :=
  radial_gram_posSemidef Kind.c2 ha l pts

/-- [proved] C4 Matérn, `alpha · (1+r+r²/3) exp(−r)`: the Gram matrix is positive semi-definite. -/
theorem c4_gram_posSemidef {n d : Nat} {alpha : ℝ} (ha : 0 ≤ alpha) (l : Fin d → ℝ)
    (pts : Fin n → Fin d → ℝ) :
    (gramMatrix (kernel Kind.c4 alpha (List.ofFn l)) (fun i => List.ofFn (pts i))).PosSemidef :=
  radial_gram_posSemidef Kind.c4 ha l pts

/-- … and every radial Gram matrix stays PSD with non-negative noise on the diagonal (the matrix the
    GP factorises). -/
theorem radial_gramNoise_posSemidef (k : Kind) {n d : Nat} {alpha : ℝ} (ha : 0 ≤ alpha) (l : Fin d → ℝ)
    (pts : Fin n → Fin d → ℝ) (noise : Fin n → ℝ) (hn : ∀ i, 0 ≤ noise i) :
    (gramMatrix (kernel k alpha (List.ofFn l)) (fun i => List.ofFn (pts i))
      + Matrix.diagonal noise).PosSemidef :=
  add_diag_psd _ (radial_gram_posSemidef k ha l pts) noise hn

theorem c0_gramNoise_posSemidef {n d : Nat} {alpha : ℝ} (ha : 0 ≤ alpha) (l : Fin d → ℝ)
    (pts : Fin n → Fin d → ℝ) (noise : Fin n → ℝ) (hn : ∀ i, 0 ≤ noise i) :
    (gramMatrix (kernel Kind.c0 alpha (List.ofFn l)) (fun i => List.ofFn (pts i))
      + Matrix.diagonal noise).PosSemidef :=
  radial_gramNoise_posSemidef Kind.c0 ha l pts noise hn

theorem c2_gramNoise_posSemidef {n d : Nat} {alpha : ℝ} (ha : 0 ≤ alpha) (l : Fin d → ℝ)
    (pts : Fin n → Fin d → ℝ) (noise : Fin n → ℝ) (hn : ∀ i, 0 ≤ noise i) :
    (gramMatrix (kernel Kind.c2 alpha (List.ofFn l)) (fun i => List.ofFn (pts i))
      + Matrix.diagonal noise).PosSemidef :=
  radial_gramNoise_posSemidef Kind.c2 ha l pts noise hn

theorem c4_gramNoise_posSemidef {n d : Nat} {alpha : ℝ} (ha : 0 ≤ alpha) (l : Fin d → ℝ)
    (pts : Fin n → Fin d → ℝ) (noise : Fin n → ℝ) (hn : ∀ i, 0 ≤ noise i) :
    (gramMatrix (kernel Kind.c4 alpha (List.ofFn l)) (fun i => List.ofFn (pts i))
      + Matrix.diagonal noise).PosSemidef :=
  radial_gramNoise_posSemidef Kind.c4 ha l pts noise hn

/-- [proved] The multitask tensor kernel (physical kernel × task kernel, alpha applied once) has a
    positive semi-definite Gram matrix for every pair of radial kinds, every dimension, all length
    scales, alpha ≥ 0 and all points (`x i` = physical coordinates, `t i` = task coordinate). -/
theorem multitask_gram_posSemidef (kp kt : Kind) {n d : Nat} {alpha : ℝ} (ha : 0 ≤ alpha) (l : Fin d → ℝ)
    (lt : ℝ) (x : Fin n → Fin d → ℝ) (t : Fin n → ℝ) :
    (gramMatrix (multitask kp kt alpha (List.ofFn l) lt) (fun i => List.ofFn (x i) ++ [t i])).PosSemidef := by
  refine multitask_gram_psd kp kt ha (List.ofFn l) lt _ ?_ ?_
  · have e : (fun i => physPart (List.ofFn (x i) ++ [t i])) = fun i => List.ofFn (x i) := by
      funext i; simp [physPart]
    rw [e]
    exact radial_gram_posSemidef kp zero_le_one l x
  · have e : (fun i => taskPart (List.ofFn (x i) ++ [t i]))
        = fun i => List.ofFn (fun _ : Fin 1 => t i) := by
      funext i; simp [taskPart]
    have e2 : [lt] = List.ofFn (fun _ : Fin 1 => lt) := by simp
    rw [e, e2]
    exact radial_gram_posSemidef kt zero_le_one (fun _ : Fin 1 => lt) (fun i _ => t i)

/-! ### 8. Hyperparameter validation and read-back -/

/-- `check_hyperparameters_are_valid` accepts exactly the vectors whose entries are all finite and
    strictly positive. -/
theorem validHyper_iff (h : List ExtNum) :
    validHyper h = true ↔ ∀ e ∈ h, ∃ q : Rat, e = ExtNum.fin q ∧ 0 < q := by
  rw [validHyper_eq_all, List.all_eq_true]
  exact forall_congr' fun e => imp_congr_right fun _ => good_iff e

/-- rejected as soon as one entry is NaN, ±∞, zero or negative -/
theorem validHyper_rejects (h : List ExtNum) (e : ExtNum) (he : e ∈ h)
    (bad : e = .nan ∨ e = .posInf ∨ e = .negInf ∨ ∃ q : Rat, e = .fin q ∧ q ≤ 0) :
    validHyper h = false := by
  by_contra hv
  have hv' : validHyper h = true := by simpa using hv
  obtain ⟨q, rfl, hq⟩ := (validHyper_iff h).mp hv' e he
  rcases bad with b | b | b | ⟨q', b, hq'⟩
  · cases b
  · cases b
  · cases b
  · cases b; exact absurd hq (not_lt.mpr hq')

/-- the constructor of a radial kernel raises `HyperparameterInvalidError` exactly on invalid vectors -/
theorem radial_set_error_iff (h : List ExtNum) :
    Radial.set h = .error .invalid ↔ validHyper h = false := by
  unfold Radial.set
  cases hv : validHyper h <;> cases h <;> simp

/-- hyperparameters read back as set; alpha is the first entry, the length scales the rest -/
theorem radial_set_get (h : List ExtNum) (s : Radial) (hs : Radial.set h = .ok s) :
    s.get = h ∧ s.processVariance :: s.lengthScales = h ∧ s.dim + 1 = h.length := by
  unfold Radial.set at hs
  cases hv : validHyper h
  · simp [hv] at hs
  · cases h with
    | nil => simp [hv] at hs
    | cons a t =>
      simp [hv] at hs
      subst hs
      simp [Radial.get, Radial.dim]

/-- The multitask constructor accepts exactly: both component kernels differentiable, at least three
    hyperparameters, and the WHOLE vector `[alpha, l_1..l_d, l_task]` finite and positive. -/
theorem multitask_set_ok_iff (kp kt : Kind) (h : List ExtNum) :
    (∃ s, Multitask.set kp kt h = .ok s) ↔
      (differentiable kp = true ∧ differentiable kt = true ∧ 3 ≤ h.length ∧ validHyper h = true) := by
  by_cases hd : (differentiable kp && differentiable kt) = true
  · have hd' := Bool.and_eq_true_iff.mp hd
    by_cases hl : 3 ≤ h.length
    · obtain ⟨a, t, rfl⟩ : ∃ a t, h = a :: t := by
        cases h with
        | nil => simp at hl
        | cons a t => exact ⟨a, t, rfl⟩
      have hl2 : 2 ≤ t.length := by simpa using hl
      have ht : t ≠ [] := by intro e; subst e; simp at hl2
      rw [Multitask.set_cons kp kt a t ht hd hl2]
      have hv : validHyper (a :: t)
          = (ExtNum.good a && validHyper t.dropLast && ExtNum.good (t.getLast ht)) := by
        conv_lhs => rw [← List.dropLast_append_getLast ht]
        rw [validHyper_cons, validHyper_append, validHyper_cons]
        simp [validHyper, Bool.and_assoc]
      rw [hv]
      cases (ExtNum.good a && validHyper t.dropLast && ExtNum.good (t.getLast ht)) <;>
        simp [hd'.1, hd'.2, hl2]
    · have : Multitask.set kp kt h = .error .assertion := by
        unfold Multitask.set
        simp [hd, Nat.lt_of_not_le hl]
      simp [this]; omega
  · have : Multitask.set kp kt h = .error .assertion := by
      unfold Multitask.set
      simp [hd]
    have hd2 : ¬ (differentiable kp = true ∧ differentiable kt = true) := by
      intro h2; exact hd (Bool.and_eq_true_iff.mpr h2)
    simp only [this, reduceCtorEq, exists_false, false_iff]
    intro h3; exact hd2 ⟨h3.1, h3.2.1⟩

/-- hyperparameters of the tensor kernel read back as set -/
theorem multitask_set_get (kp kt : Kind) (h : List ExtNum) (s : Multitask)
    (hs : Multitask.set kp kt h = .ok s) : s.get = h ∧ s.dim + 1 = h.length := by
  obtain ⟨hdp, hdt, hl, _⟩ := (multitask_set_ok_iff kp kt h).mp ⟨s, hs⟩
  obtain ⟨a, t, rfl⟩ : ∃ a t, h = a :: t := by
    cases h with
    | nil => simp at hl
    | cons a t => exact ⟨a, t, rfl⟩
  have hl2 : 2 ≤ t.length := by simpa using hl
  have ht : t ≠ [] := by intro e; subst e; simp at hl2
  have hd : (differentiable kp && differentiable kt) = true := by simp [hdp, hdt]
  rw [Multitask.set_cons kp kt a t ht hd hl2] at hs
  split at hs
  · injection hs with hs
    subst hs
    have hg : Multitask.get ⟨a, ⟨ExtNum.one :: t.dropLast, ExtNum.one, t.dropLast⟩,
              ⟨[ExtNum.one, t.getLast ht], ExtNum.one, [t.getLast ht]⟩⟩ = a :: t := by
      simp [Multitask.get, Radial.get, List.dropLast_append_getLast ht]
    constructor
    · exact hg
    · simp [Multitask.dim, hg]
  · cases hs

/-- What the repair changed: without the process-variance check the constructor accepted any alpha
    (negative, zero, NaN, ±∞) as long as the length scales were valid. -/
theorem multitask_setUnchecked_ok_iff (kp kt : Kind) (h : List ExtNum) :
    (∃ s, Multitask.setUnchecked kp kt h = .ok s) ↔
      (differentiable kp = true ∧ differentiable kt = true ∧ 3 ≤ h.length ∧ validHyper h.tail = true) := by
  by_cases hd : (differentiable kp && differentiable kt) = true
  · have hd' := Bool.and_eq_true_iff.mp hd
    by_cases hl : 3 ≤ h.length
    · obtain ⟨a, t, rfl⟩ : ∃ a t, h = a :: t := by
        cases h with
        | nil => simp at hl
        | cons a t => exact ⟨a, t, rfl⟩
      have hl2 : 2 ≤ t.length := by simpa using hl
      have ht : t ≠ [] := by intro e; subst e; simp at hl2
      have hlen : ¬ (a :: t).length < 3 := by simp; omega
      have hdl : (a :: t).dropLast.tail = t.dropLast := by
        rw [List.dropLast_cons_of_ne_nil ht]; rfl
      have hlast : (a :: t).getLastD ExtNum.nan = t.getLast ht := by
        cases t with
        | nil => exact absurd rfl ht
        | cons b t' => simp [List.getLast_eq_getLastD, List.getLast?_cons]
      have hv : validHyper t = (validHyper t.dropLast && ExtNum.good (t.getLast ht)) := by
        conv_lhs => rw [← List.dropLast_append_getLast ht]
        rw [validHyper_append, validHyper_cons]
        simp [validHyper]
      unfold Multitask.setUnchecked
      simp only [hd, hlen, hdl, hlast, List.headD_cons, Bool.not_true, if_false, Bool.false_eq_true,
        List.tail_cons]
      rw [Radial.set_cons, Radial.set_cons, hv]
      simp only [validHyper_cons, good_one, Bool.true_and]
      cases validHyper t.dropLast <;> cases ExtNum.good (t.getLast ht) <;>
        simp [validHyper, hd'.1, hd'.2, hl2]
    · have : Multitask.setUnchecked kp kt h = .error .assertion := by
        unfold Multitask.setUnchecked
        simp [hd, Nat.lt_of_not_le hl]
      simp [this]; omega
  · have : Multitask.setUnchecked kp kt h = .error .assertion := by
      unfold Multitask.setUnchecked
      simp [hd]
    have hd2 : ¬ (differentiable kp = true ∧ differentiable kt = true) := by
      intro h2; exact hd (Bool.and_eq_true_iff.mpr h2)
    simp only [this, reduceCtorEq, exists_false, false_iff]
    intro h3; exact hd2 ⟨h3.1, h3.2.1⟩

example : ∃ s, Multitask.setUnchecked .se .se [.negInf, .fin 1, .fin 2] = .ok s := by
  exact ⟨_, rfl⟩
example : Multitask.set .se .se [.negInf, .fin 1, .fin 2] = .error .invalid := rfl
example : ∃ s, Multitask.set .c2 .c4 [.fin 3, .fin 1, .fin 2] = .ok s ∧ s.get = [.fin 3, .fin 1, .fin 2] :=
  ⟨_, rfl, rfl⟩

end C03
